/-
  C10, exactness: reverse substitution (`revSub (reverseMap σ)`, model `RevSub.lean`) produces EXACTLY the
  re-expressions of a term and nothing else.

  * `offered_rx σ v` — the parameters that are offered for a value `v`: those with an explicit entry `(p, v)` in σ,
    in insertion order (for distinct keys: `p ∈ offered_rx σ v ↔ lookup σ p = some v`);
    `reverseMap_find_eq_rx`: the reverse map answers a query with exactly these (no side condition).
  * `IsReexprBy_rx off t r` — the declarative specification, parametric in the offer function: `r` is `t` with every
    OUTERMOST sub-term of type kind / expression kind (or parameter) for which something is offered replaced by ONE of
    the offered parameters (independently per occurrence); everything else is kept; `Ign`/`IgnL`/`Eq` nodes are kept
    verbatim. `IsReexpr_rx σ := IsReexprBy_rx (offered_rx σ)`. `countBy_rx` / `reexprCount_rx`: the number of choices.
  * `mem_revSub_iff_rx`, `length_revSub_rx` — the characterisation and the count for every reverse map without
    empty hits; `mem_revSub_reverseMap_iff_rx`, `length_revSub_reverseMap_rx` for `reverseMap σ` (no side condition);
    `mem_substituteBound_iff_rx`, `length_substituteBound_rx`, `substituteBound_nodup_rx` for bound pairs.
  * `isReexprBy_rx` / `isReexpr_rx` — an executable checker of the specification (independent of `revSub`),
    `isReexprBy_iff_rx`.
  * `revSub_reverseMap_*_rx` — the equations of `revSub (reverseMap σ)` by case (with the order of the results);
    `tparam_mem_revSub_value_rx` / `eparam_mem_revSub_value_rx`: a value is re-expressed by its parameter exactly if
    its root has the right kind.
  * the naive offer `offeredNaive_rx` (an `identity` entry offers the parameter for itself), `IsReexprNaive_rx`, and
    its relation to the model (D13): `isReexprNaive_of_isReexpr_rx`, `isReexprNaive_iff_of_noAlias_rx` under the
    executable `noIdentityAlias_rx`, `exists_lost_of_alias_rx`.
  Core-only.
-/
import DisjointImpls.Lemmas.RevSubLemmas
namespace DI

/-! ### What is offered for a value -/

/-- the parameters with an explicit entry `(p, v)` in σ, in insertion order -/
def offered_rx (σ : Subst) (v : Val) : List String :=
  (σ.filter (fun e => decide (e.2 = v))).map Prod.fst

theorem offered_nil_rx (v : Val) : offered_rx [] v = [] := rfl

theorem offered_cons_rx (n : String) (w : Val) (σ : Subst) (v : Val) :
    offered_rx ((n, w) :: σ) v = if w = v then n :: offered_rx σ v else offered_rx σ v := by
  unfold offered_rx
  by_cases h : w = v
  · simp [h]
  · simp [h]

theorem mem_offered_rx {σ : Subst} {v : Val} {p : String} : p ∈ offered_rx σ v ↔ (p, v) ∈ σ := by
  unfold offered_rx
  simp only [List.mem_map, List.mem_filter, decide_eq_true_eq]
  constructor
  · rintro ⟨⟨q, w⟩, ⟨hm, hw⟩, hq⟩
    simp only at hw hq
    subst hw; subst hq; exact hm
  · intro h; exact ⟨(p, v), ⟨h, rfl⟩, rfl⟩

/-- for distinct keys the offered parameters are exactly the parameters bound to the value -/
theorem mem_offered_iff_lookup_rx {σ : Subst} (hσ : (σ.map Prod.fst).Nodup) {v : Val} {p : String} :
    p ∈ offered_rx σ v ↔ lookup σ p = some v := by
  rw [mem_offered_rx]
  exact ⟨lookup_of_mem_nodup σ p v hσ, lookup_mem σ p v⟩

/-- without the key condition a parameter bound to the value is still offered -/
theorem mem_offered_of_lookup_rx {σ : Subst} {v : Val} {p : String} (h : lookup σ p = some v) :
    p ∈ offered_rx σ v := mem_offered_rx.2 (lookup_mem σ p v h)

theorem offered_sublist_rx (σ : Subst) (v : Val) : (offered_rx σ v).Sublist (σ.map Prod.fst) := by
  unfold offered_rx
  exact List.Sublist.map _ List.filter_sublist

theorem offered_nodup_rx {σ : Subst} (hσ : (σ.map Prod.fst).Nodup) (v : Val) : (offered_rx σ v).Nodup :=
  List.Sublist.nodup (offered_sublist_rx σ v) hσ

/-- `find` on the reverse map built on top of `rm` -/
theorem find_foldl_rx : ∀ (σ : Subst) (rm : RevMap) (v : Val),
    RevMap.find (σ.foldl (fun acc p => RevMap.add acc p.1 p.2) rm) v =
      if offered_rx σ v = [] then RevMap.find rm v
      else some ((RevMap.find rm v).getD [] ++ offered_rx σ v)
  | [], rm, v => by simp [offered_nil_rx]
  | (n, w) :: rest, rm, v => by
      simp only [List.foldl_cons]
      rw [find_foldl_rx rest (RevMap.add rm n w) v, RevMap.find_add, offered_cons_rx]
      by_cases hvw : v = w
      · subst hvw
        simp only [if_true]
        by_cases ho : offered_rx rest v = []
        · simp [ho]
        · simp [ho]
      · have hwv : ¬ w = v := fun e => hvw e.symm
        simp only [if_neg hvw, if_neg hwv]

/-- the reverse map of σ answers a query with exactly the offered parameters (no side condition) -/
theorem reverseMap_find_eq_rx (σ : Subst) (v : Val) :
    RevMap.find (reverseMap σ) v = if offered_rx σ v = [] then none else some (offered_rx σ v) := by
  unfold reverseMap
  rw [find_foldl_rx]
  simp [RevMap.find]

theorem reverseMap_getD_rx (σ : Subst) (v : Val) :
    (RevMap.find (reverseMap σ) v).getD [] = offered_rx σ v := by
  rw [reverseMap_find_eq_rx]
  by_cases h : offered_rx σ v = []
  · simp [h]
  · simp [h]

theorem reverseMap_no_empty_hit_rx (σ : Subst) (v : Val) : RevMap.find (reverseMap σ) v ≠ some [] := by
  rw [reverseMap_find_eq_rx]
  by_cases h : offered_rx σ v = []
  · simp [h]
  · simp only [if_neg h, ne_eq, Option.some.injEq]; exact h

/-! ### The specification -/

mutual
/-- `IsReexprBy_rx off t r`: `r` is `t` with every outermost replaceable sub-term for which `off` offers something
    replaced by one of the offered parameters -/
def IsReexprBy_rx (off : Val → List String) : T → T → Prop
  | .tparam n, r =>
      if off (.ty (.tparam n)) = [] then r = .tparam n
      else ∃ p, p ∈ off (.ty (.tparam n)) ∧ r = .tparam p
  | .eparam n, r =>
      if off (.ex (.eparam n)) = [] then r = .eparam n
      else ∃ p, p ∈ off (.ex (.eparam n)) ∧ r = .eparam p
  | .node k as ks, r =>
      if isTypeKind k then
        if off (.ty (.node k as ks)) = [] then ∃ rs, r = .node k as rs ∧ IsReexprByL_rx off ks rs
        else ∃ p, p ∈ off (.ty (.node k as ks)) ∧ r = .tparam p
      else if isExprKind k then
        if off (.ex (.node k as ks)) = [] then ∃ rs, r = .node k as rs ∧ IsReexprByL_rx off ks rs
        else ∃ p, p ∈ off (.ex (.node k as ks)) ∧ r = .eparam p
      else if isVerbatimKind k then r = .node k as ks
      else ∃ rs, r = .node k as rs ∧ IsReexprByL_rx off ks rs
/-- children are re-expressed independently, position by position -/
def IsReexprByL_rx (off : Val → List String) : List T → List T → Prop
  | [], rs => rs = []
  | t :: ts, rs => ∃ r rs', rs = r :: rs' ∧ IsReexprBy_rx off t r ∧ IsReexprByL_rx off ts rs'
end

mutual
/-- the number of re-expressions: the product, over the outermost replaceable sub-terms for which something is
    offered, of the number of offered parameters -/
def countBy_rx (off : Val → List String) : T → Nat
  | .tparam n => if off (.ty (.tparam n)) = [] then 1 else (off (.ty (.tparam n))).length
  | .eparam n => if off (.ex (.eparam n)) = [] then 1 else (off (.ex (.eparam n))).length
  | .node k as ks =>
      if isTypeKind k then
        if off (.ty (.node k as ks)) = [] then countByL_rx off ks else (off (.ty (.node k as ks))).length
      else if isExprKind k then
        if off (.ex (.node k as ks)) = [] then countByL_rx off ks else (off (.ex (.node k as ks))).length
      else if isVerbatimKind k then 1
      else countByL_rx off ks
def countByL_rx (off : Val → List String) : List T → Nat
  | [] => 1
  | t :: ts => countBy_rx off t * countByL_rx off ts
end


/-! ### Unfolding the specification -/

theorem isReexprBy_tparam_rx (off : Val → List String) (n : String) (r : T) :
    IsReexprBy_rx off (.tparam n) r ↔
      if off (.ty (.tparam n)) = [] then r = .tparam n else ∃ p, p ∈ off (.ty (.tparam n)) ∧ r = .tparam p := by
  rw [IsReexprBy_rx]

theorem isReexprBy_eparam_rx (off : Val → List String) (n : String) (r : T) :
    IsReexprBy_rx off (.eparam n) r ↔
      if off (.ex (.eparam n)) = [] then r = .eparam n else ∃ p, p ∈ off (.ex (.eparam n)) ∧ r = .eparam p := by
  rw [IsReexprBy_rx]

theorem isReexprBy_node_rx (off : Val → List String) (k : String) (as : List String) (ks : List T) (r : T) :
    IsReexprBy_rx off (.node k as ks) r ↔
      if isTypeKind k then
        if off (.ty (.node k as ks)) = [] then ∃ rs, r = .node k as rs ∧ IsReexprByL_rx off ks rs
        else ∃ p, p ∈ off (.ty (.node k as ks)) ∧ r = .tparam p
      else if isExprKind k then
        if off (.ex (.node k as ks)) = [] then ∃ rs, r = .node k as rs ∧ IsReexprByL_rx off ks rs
        else ∃ p, p ∈ off (.ex (.node k as ks)) ∧ r = .eparam p
      else if isVerbatimKind k then r = .node k as ks
      else ∃ rs, r = .node k as rs ∧ IsReexprByL_rx off ks rs := by
  rw [IsReexprBy_rx]

theorem isReexprByL_nil_rx (off : Val → List String) (rs : List T) : IsReexprByL_rx off [] rs ↔ rs = [] := by
  rw [IsReexprByL_rx]

theorem isReexprByL_cons_rx (off : Val → List String) (t : T) (ts rs : List T) :
    IsReexprByL_rx off (t :: ts) rs ↔
      ∃ r rs', rs = r :: rs' ∧ IsReexprBy_rx off t r ∧ IsReexprByL_rx off ts rs' := by
  rw [IsReexprByL_rx]

/-! ### The characterisation -/

/-- the candidate lists of the children, combined by the cartesian product, are the pointwise re-expressions -/
theorem mem_cartesian_revSubL_rx {rm : RevMap} {off : Val → List String} : ∀ (ks rs : List T),
    (∀ t ∈ ks, ∀ r, r ∈ revSub rm t ↔ IsReexprBy_rx off t r) →
    (rs ∈ cartesian (revSubL rm ks) ↔ IsReexprByL_rx off ks rs)
  | [], rs, _ => by
      rw [revSubL, isReexprByL_nil_rx]
      simp [cartesian]
  | t :: ts, rs, ih => by
      rw [revSubL, isReexprByL_cons_rx, mem_cartesian_cons]
      have iht := fun tl => mem_cartesian_revSubL_rx (off := off) (rm := rm) ts tl
        (fun t ht => ih t (List.mem_cons_of_mem _ ht))
      constructor
      · rintro ⟨x, hx, tl, htl, rfl⟩
        exact ⟨x, tl, rfl, (ih t (by simp) x).1 hx, (iht tl).1 htl⟩
      · rintro ⟨x, tl, rfl, hx, htl⟩
        exact ⟨x, (ih t (by simp) x).2 hx, tl, (iht tl).2 htl, rfl⟩

theorem mem_map_node_rx {k : String} {as : List String} {c : List (List T)} {r : T} :
    r ∈ c.map (T.node k as) ↔ ∃ rs, r = .node k as rs ∧ rs ∈ c := by
  simp only [List.mem_map]
  constructor
  · rintro ⟨rs, h, rfl⟩; exact ⟨rs, rfl, h⟩
  · rintro ⟨rs, rfl, h⟩; exact ⟨rs, h, rfl⟩

theorem mem_hit_tparam_rx {ns : List String} {r : T} :
    r ∈ ns.map T.tparam ↔ ∃ p, p ∈ ns ∧ r = .tparam p := by
  simp only [List.mem_map]
  constructor
  · rintro ⟨p, h, rfl⟩; exact ⟨p, h, rfl⟩
  · rintro ⟨p, h, rfl⟩; exact ⟨p, h, rfl⟩

theorem mem_hit_eparam_rx {ns : List String} {r : T} :
    r ∈ ns.map T.eparam ↔ ∃ p, p ∈ ns ∧ r = .eparam p := by
  simp only [List.mem_map]
  constructor
  · rintro ⟨p, h, rfl⟩; exact ⟨p, h, rfl⟩
  · rintro ⟨p, h, rfl⟩; exact ⟨p, h, rfl⟩

/-- the offer function of a reverse map -/
def offOf_rx (rm : RevMap) : Val → List String := fun v => (RevMap.find rm v).getD []

/-- EXACTNESS, for every reverse map without empty hits: the results of `revSub rm t` are exactly the
    re-expressions of `t` by what the map offers -/
theorem mem_revSub_iff_rx (rm : RevMap) (hne : ∀ v, RevMap.find rm v ≠ some []) :
    ∀ (t r : T), r ∈ revSub rm t ↔ IsReexprBy_rx (offOf_rx rm) t r := by
  apply T.ind
  · intro n r
    rw [isReexprBy_tparam_rx, revSub]
    unfold offOf_rx
    cases hf : RevMap.find rm (.ty (.tparam n)) with
    | none => simp
    | some ns =>
      have h0 : ns ≠ [] := fun e => hne _ (e ▸ hf)
      simp only [Option.getD_some, if_neg h0, List.isEmpty_iff, mem_hit_tparam_rx]
  · intro n r
    rw [isReexprBy_eparam_rx, revSub]
    unfold offOf_rx
    cases hf : RevMap.find rm (.ex (.eparam n)) with
    | none => simp
    | some ns =>
      have h0 : ns ≠ [] := fun e => hne _ (e ▸ hf)
      simp only [Option.getD_some, if_neg h0, List.isEmpty_iff, mem_hit_eparam_rx]
  · intro k as ks ih r
    have hk := fun rs => mem_cartesian_revSubL_rx (rm := rm) (off := offOf_rx rm) ks rs ih
    have hkids : r ∈ (cartesian (revSubL rm ks)).map (T.node k as) ↔
        ∃ rs, r = .node k as rs ∧ IsReexprByL_rx (offOf_rx rm) ks rs := by
      rw [mem_map_node_rx]
      constructor
      · rintro ⟨rs, e, h⟩; exact ⟨rs, e, (hk rs).1 h⟩
      · rintro ⟨rs, e, h⟩; exact ⟨rs, e, (hk rs).2 h⟩
    rw [isReexprBy_node_rx]
    cases revSub_node_cases rm k as ks with
    | tyHit ns hT hf h0 e =>
      have : offOf_rx rm (.ty (.node k as ks)) = ns := by simp [offOf_rx, hf]
      rw [e, if_pos hT, this, if_neg h0]
      exact mem_hit_tparam_rx
    | exHit ns hT hE hf h0 e =>
      have : offOf_rx rm (.ex (.node k as ks)) = ns := by simp [offOf_rx, hf]
      rw [e, if_neg (by simp [hT]), if_pos hE, this, if_neg h0]
      exact mem_hit_eparam_rx
    | emptyHit v hf _ => exact absurd hf (hne v)
    | verbatim hT hE hV e =>
      rw [e, if_neg (by simp [hT]), if_neg (by simp [hE]), if_pos hV]
      exact List.mem_singleton
    | kids hc e =>
      rw [e]
      rcases hc with ⟨hT, hf⟩ | ⟨hT, hE, hf⟩ | ⟨hT, hE, hV⟩
      · have : offOf_rx rm (.ty (.node k as ks)) = [] := by simp [offOf_rx, hf]
        rw [if_pos hT, if_pos this]
        exact hkids
      · have : offOf_rx rm (.ex (.node k as ks)) = [] := by simp [offOf_rx, hf]
        rw [if_neg (by simp [hT]), if_pos hE, if_pos this]
        exact hkids
      · rw [if_neg (by simp [hT]), if_neg (by simp [hE]), if_neg (by simp [hV])]
        exact hkids


/-! ### The count -/

theorem length_flatMap_const_rx {c : List (List T)} : ∀ (xs : List T),
    (xs.flatMap (fun x => c.map (fun tl => x :: tl))).length = xs.length * c.length
  | [] => by simp
  | x :: xs => by
      rw [List.flatMap_cons, List.length_append, length_flatMap_const_rx xs, List.length_map, List.length_cons,
        Nat.add_mul, Nat.one_mul, Nat.add_comm]

theorem length_cartesian_revSubL_rx {rm : RevMap} {off : Val → List String} : ∀ (ks : List T),
    (∀ t ∈ ks, (revSub rm t).length = countBy_rx off t) →
    (cartesian (revSubL rm ks)).length = countByL_rx off ks
  | [], _ => by rw [revSubL, countByL_rx]; rfl
  | t :: ts, ih => by
      rw [revSubL, countByL_rx, cartesian, length_flatMap_const_rx, ih t (by simp),
        length_cartesian_revSubL_rx ts (fun t ht => ih t (List.mem_cons_of_mem _ ht))]

/-- the number of results of `revSub rm t`, for every reverse map without empty hits -/
theorem length_revSub_rx (rm : RevMap) (hne : ∀ v, RevMap.find rm v ≠ some []) :
    ∀ (t : T), (revSub rm t).length = countBy_rx (offOf_rx rm) t := by
  apply T.ind
  · intro n
    rw [countBy_rx, revSub]
    unfold offOf_rx
    cases hf : RevMap.find rm (.ty (.tparam n)) with
    | none => simp
    | some ns =>
      have h0 : ns ≠ [] := fun e => hne _ (e ▸ hf)
      simp [h0]
  · intro n
    rw [countBy_rx, revSub]
    unfold offOf_rx
    cases hf : RevMap.find rm (.ex (.eparam n)) with
    | none => simp
    | some ns =>
      have h0 : ns ≠ [] := fun e => hne _ (e ▸ hf)
      simp [h0]
  · intro k as ks ih
    have hkids : ((cartesian (revSubL rm ks)).map (T.node k as)).length = countByL_rx (offOf_rx rm) ks := by
      rw [List.length_map]; exact length_cartesian_revSubL_rx ks ih
    rw [countBy_rx]
    cases revSub_node_cases rm k as ks with
    | tyHit ns hT hf h0 e =>
      have : offOf_rx rm (.ty (.node k as ks)) = ns := by simp [offOf_rx, hf]
      rw [e, if_pos hT, this, if_neg h0, List.length_map]
    | exHit ns hT hE hf h0 e =>
      have : offOf_rx rm (.ex (.node k as ks)) = ns := by simp [offOf_rx, hf]
      rw [e, if_neg (by simp [hT]), if_pos hE, this, if_neg h0, List.length_map]
    | emptyHit v hf _ => exact absurd hf (hne v)
    | verbatim hT hE hV e =>
      rw [e, if_neg (by simp [hT]), if_neg (by simp [hE]), if_pos hV]; rfl
    | kids hc e =>
      rw [e]
      rcases hc with ⟨hT, hf⟩ | ⟨hT, hE, hf⟩ | ⟨hT, hE, hV⟩
      · have : offOf_rx rm (.ty (.node k as ks)) = [] := by simp [offOf_rx, hf]
        rw [if_pos hT, if_pos this]
        exact hkids
      · have : offOf_rx rm (.ex (.node k as ks)) = [] := by simp [offOf_rx, hf]
        rw [if_neg (by simp [hT]), if_pos hE, if_pos this]
        exact hkids
      · rw [if_neg (by simp [hT]), if_neg (by simp [hE]), if_neg (by simp [hV])]
        exact hkids

/-! ### Instantiation to `reverseMap σ` -/

/-- `r` is a re-expression of `t` over the parameters of σ -/
def IsReexpr_rx (σ : Subst) (t r : T) : Prop := IsReexprBy_rx (offered_rx σ) t r

def IsReexprL_rx (σ : Subst) (ts rs : List T) : Prop := IsReexprByL_rx (offered_rx σ) ts rs

/-- the number of re-expressions of `t` over the parameters of σ -/
def reexprCount_rx (σ : Subst) (t : T) : Nat := countBy_rx (offered_rx σ) t

theorem offOf_reverseMap_rx (σ : Subst) : offOf_rx (reverseMap σ) = offered_rx σ := by
  funext v; exact reverseMap_getD_rx σ v

theorem mem_revSub_reverseMap_iff_rx (σ : Subst) (t r : T) :
    r ∈ revSub (reverseMap σ) t ↔ IsReexpr_rx σ t r := by
  rw [mem_revSub_iff_rx _ (reverseMap_no_empty_hit_rx σ), offOf_reverseMap_rx]; rfl

theorem length_revSub_reverseMap_rx (σ : Subst) (t : T) :
    (revSub (reverseMap σ) t).length = reexprCount_rx σ t := by
  rw [length_revSub_rx _ (reverseMap_no_empty_hit_rx σ), offOf_reverseMap_rx]; rfl

theorem mem_substituteBound_iff_rx (σ : Subst) (b tr : T) (p : T × T) :
    p ∈ substituteBound σ b tr ↔ IsReexpr_rx σ b p.1 ∧ IsReexpr_rx σ tr p.2 := by
  obtain ⟨x, y⟩ := p
  simp only [substituteBound, List.mem_flatMap, List.mem_map, Prod.mk.injEq,
    ← mem_revSub_reverseMap_iff_rx]
  constructor
  · rintro ⟨x', hx, y', hy, rfl, rfl⟩; exact ⟨hx, hy⟩
  · rintro ⟨hx, hy⟩; exact ⟨x, hx, y, hy, rfl, rfl⟩

theorem length_flatMap_pair_rx {c : List T} : ∀ (xs : List T),
    (xs.flatMap (fun b => c.map (fun t => (b, t)))).length = xs.length * c.length
  | [] => by simp
  | x :: xs => by
      rw [List.flatMap_cons, List.length_append, length_flatMap_pair_rx xs, List.length_map, List.length_cons,
        Nat.add_mul, Nat.one_mul, Nat.add_comm]

theorem length_substituteBound_rx (σ : Subst) (b tr : T) :
    (substituteBound σ b tr).length = reexprCount_rx σ b * reexprCount_rx σ tr := by
  simp only [substituteBound]
  rw [length_flatMap_pair_rx, length_revSub_reverseMap_rx, length_revSub_reverseMap_rx]

theorem flatMap_pair_nodup_rx {c : List T} (hc : c.Nodup) : ∀ (xs : List T), xs.Nodup →
    (xs.flatMap (fun b => c.map (fun t => (b, t)))).Nodup
  | [], _ => by simp
  | x :: xs', hxs => by
      simp only [List.flatMap_cons]
      rw [List.nodup_cons] at hxs
      rw [List.nodup_append]
      refine ⟨?_, flatMap_pair_nodup_rx hc xs' hxs.2, ?_⟩
      · exact List.Pairwise.map (fun t => (x, t)) (fun a b hab e => hab (Prod.mk.inj e).2) hc
      · intro a ha b hb
        simp only [List.mem_map] at ha
        simp only [List.mem_flatMap, List.mem_map] at hb
        obtain ⟨t, _, rfl⟩ := ha
        obtain ⟨y, hy, t', _, rfl⟩ := hb
        intro e
        injection e with e1 _
        subst e1
        exact hxs.1 hy

theorem substituteBound_nodup_rx {σ : Subst} (hσ : (σ.map Prod.fst).Nodup) (b tr : T) :
    (substituteBound σ b tr).Nodup := by
  simp only [substituteBound]
  exact flatMap_pair_nodup_rx (revSub_nodup hσ tr) _ (revSub_nodup hσ b)


/-! ### An executable checker of the specification (independent of `revSub`) -/

def hitT_rx (ns : List String) : T → Bool
  | .tparam p => ns.contains p
  | _ => false

def hitE_rx (ns : List String) : T → Bool
  | .eparam p => ns.contains p
  | _ => false

/-- the children of `r` if `r` is a node with kind `k` and atoms `as` -/
def nodeKids_rx (k : String) (as : List String) : T → Option (List T)
  | .node k' as' rs => if k' = k ∧ as' = as then some rs else none
  | _ => none

mutual
def isReexprBy_rx (off : Val → List String) : T → T → Bool
  | .tparam n, r =>
      if (off (.ty (.tparam n))).isEmpty then r == .tparam n else hitT_rx (off (.ty (.tparam n))) r
  | .eparam n, r =>
      if (off (.ex (.eparam n))).isEmpty then r == .eparam n else hitE_rx (off (.ex (.eparam n))) r
  | .node k as ks, r =>
      if isTypeKind k then
        if (off (.ty (.node k as ks))).isEmpty then
          (match nodeKids_rx k as r with
           | some rs => isReexprByL_rx off ks rs
           | none => false)
        else hitT_rx (off (.ty (.node k as ks))) r
      else if isExprKind k then
        if (off (.ex (.node k as ks))).isEmpty then
          (match nodeKids_rx k as r with
           | some rs => isReexprByL_rx off ks rs
           | none => false)
        else hitE_rx (off (.ex (.node k as ks))) r
      else if isVerbatimKind k then r == .node k as ks
      else
        (match nodeKids_rx k as r with
         | some rs => isReexprByL_rx off ks rs
         | none => false)
def isReexprByL_rx (off : Val → List String) : List T → List T → Bool
  | [], rs => rs.isEmpty
  | _ :: _, [] => false
  | t :: ts, r :: rs => isReexprBy_rx off t r && isReexprByL_rx off ts rs
end

/-- executable form of `IsReexpr_rx` -/
def isReexpr_rx (σ : Subst) (t r : T) : Bool := isReexprBy_rx (offered_rx σ) t r

theorem hitT_iff_rx {ns : List String} {r : T} : hitT_rx ns r = true ↔ ∃ p, p ∈ ns ∧ r = .tparam p := by
  cases r with
  | tparam q => simp [hitT_rx]
  | eparam q => simp [hitT_rx]
  | node k as ks => simp [hitT_rx]

theorem hitE_iff_rx {ns : List String} {r : T} : hitE_rx ns r = true ↔ ∃ p, p ∈ ns ∧ r = .eparam p := by
  cases r with
  | tparam q => simp [hitE_rx]
  | eparam q => simp [hitE_rx]
  | node k as ks => simp [hitE_rx]

theorem nodeKids_iff_rx {k : String} {as : List String} {r : T} {rs : List T} :
    nodeKids_rx k as r = some rs ↔ r = .node k as rs := by
  cases r with
  | tparam q => simp [nodeKids_rx]
  | eparam q => simp [nodeKids_rx]
  | node k' as' rs' =>
    simp only [nodeKids_rx, T.node.injEq]
    constructor
    · intro h
      split at h
      · next hc => cases h; exact ⟨hc.1, hc.2, rfl⟩
      · cases h
    · rintro ⟨rfl, rfl, rfl⟩; simp

theorem kidsMatch_iff_rx {k : String} {as : List String} {r : T} {f : List T → Bool} {P : List T → Prop}
    (h : ∀ rs, f rs = true ↔ P rs) :
    (match nodeKids_rx k as r with
     | some rs => f rs
     | none => false) = true ↔ ∃ rs, r = .node k as rs ∧ P rs := by
  cases hn : nodeKids_rx k as r with
  | none =>
    simp only [Bool.false_eq_true, false_iff]
    rintro ⟨rs, e, _⟩
    rw [nodeKids_iff_rx.2 e] at hn; cases hn
  | some rs =>
    have e := nodeKids_iff_rx.1 hn
    simp only
    constructor
    · intro hf; exact ⟨rs, e, (h rs).1 hf⟩
    · rintro ⟨rs', e', hp⟩
      rw [e] at e'
      cases e'
      exact (h rs).2 hp

theorem isReexprByL_iff_rx {off : Val → List String} : ∀ (ks rs : List T),
    (∀ t ∈ ks, ∀ r, isReexprBy_rx off t r = true ↔ IsReexprBy_rx off t r) →
    (isReexprByL_rx off ks rs = true ↔ IsReexprByL_rx off ks rs)
  | [], rs, _ => by
      rw [isReexprByL_rx, isReexprByL_nil_rx]; simp
  | t :: ts, [], _ => by
      rw [isReexprByL_rx, isReexprByL_cons_rx]; simp
  | t :: ts, r :: rs, ih => by
      rw [isReexprByL_rx, isReexprByL_cons_rx, Bool.and_eq_true, ih t (by simp) r,
        isReexprByL_iff_rx ts rs (fun t ht => ih t (List.mem_cons_of_mem _ ht))]
      constructor
      · rintro ⟨h1, h2⟩; exact ⟨r, rs, rfl, h1, h2⟩
      · rintro ⟨r', rs', e, h1, h2⟩; cases e; exact ⟨h1, h2⟩

/-- the checker decides the specification -/
theorem isReexprBy_iff_rx (off : Val → List String) :
    ∀ (t r : T), isReexprBy_rx off t r = true ↔ IsReexprBy_rx off t r := by
  apply T.ind
  · intro n r
    rw [isReexprBy_rx, isReexprBy_tparam_rx]
    by_cases h : off (.ty (.tparam n)) = []
    · simp [h]
    · simp only [List.isEmpty_iff, if_neg h]; exact hitT_iff_rx
  · intro n r
    rw [isReexprBy_rx, isReexprBy_eparam_rx]
    by_cases h : off (.ex (.eparam n)) = []
    · simp [h]
    · simp only [List.isEmpty_iff, if_neg h]; exact hitE_iff_rx
  · intro k as ks ih r
    have hk := kidsMatch_iff_rx (k := k) (as := as) (r := r) (fun rs => isReexprByL_iff_rx ks rs ih)
    rw [isReexprBy_rx, isReexprBy_node_rx]
    by_cases hT : isTypeKind k = true
    · rw [if_pos hT, if_pos hT]
      by_cases h : off (.ty (.node k as ks)) = []
      · rw [if_pos (by simp [h]), if_pos h]; exact hk
      · rw [if_neg (by simp [h]), if_neg h]; exact hitT_iff_rx
    · rw [if_neg hT, if_neg hT]
      by_cases hE : isExprKind k = true
      · rw [if_pos hE, if_pos hE]
        by_cases h : off (.ex (.node k as ks)) = []
        · rw [if_pos (by simp [h]), if_pos h]; exact hk
        · rw [if_neg (by simp [h]), if_neg h]; exact hitE_iff_rx
      · rw [if_neg hE, if_neg hE]
        by_cases hV : isVerbatimKind k = true
        · rw [if_pos hV, if_pos hV]; simp
        · rw [if_neg hV, if_neg hV]; exact hk

theorem isReexpr_iff_rx (σ : Subst) (t r : T) : isReexpr_rx σ t r = true ↔ IsReexpr_rx σ t r :=
  isReexprBy_iff_rx _ t r

instance (σ : Subst) (t r : T) : Decidable (IsReexpr_rx σ t r) :=
  decidable_of_iff _ (isReexpr_iff_rx σ t r)


/-! ### The specification by kind of the root -/

theorem isReexprBy_node_ty_rx {off : Val → List String} {k : String} (as : List String) (ks : List T) (r : T)
    (hT : isTypeKind k = true) :
    IsReexprBy_rx off (.node k as ks) r ↔
      if off (.ty (.node k as ks)) = [] then ∃ rs, r = .node k as rs ∧ IsReexprByL_rx off ks rs
      else ∃ p, p ∈ off (.ty (.node k as ks)) ∧ r = .tparam p := by
  rw [isReexprBy_node_rx, if_pos hT]

theorem isReexprBy_node_ex_rx {off : Val → List String} {k : String} (as : List String) (ks : List T) (r : T)
    (hT : isTypeKind k = false) (hE : isExprKind k = true) :
    IsReexprBy_rx off (.node k as ks) r ↔
      if off (.ex (.node k as ks)) = [] then ∃ rs, r = .node k as rs ∧ IsReexprByL_rx off ks rs
      else ∃ p, p ∈ off (.ex (.node k as ks)) ∧ r = .eparam p := by
  rw [isReexprBy_node_rx, if_neg (by simp [hT]), if_pos hE]

theorem isReexprBy_node_verbatim_rx {off : Val → List String} {k : String} (as : List String) (ks : List T) (r : T)
    (hT : isTypeKind k = false) (hE : isExprKind k = false) (hV : isVerbatimKind k = true) :
    IsReexprBy_rx off (.node k as ks) r ↔ r = .node k as ks := by
  rw [isReexprBy_node_rx, if_neg (by simp [hT]), if_neg (by simp [hE]), if_pos hV]

theorem isReexprBy_node_other_rx {off : Val → List String} {k : String} (as : List String) (ks : List T) (r : T)
    (hT : isTypeKind k = false) (hE : isExprKind k = false) (hV : isVerbatimKind k = false) :
    IsReexprBy_rx off (.node k as ks) r ↔ ∃ rs, r = .node k as rs ∧ IsReexprByL_rx off ks rs := by
  rw [isReexprBy_node_rx, if_neg (by simp [hT]), if_neg (by simp [hE]), if_neg (by simp [hV])]

theorem isReexprByL_imp_rx {off off' : Val → List String} : ∀ (ks rs : List T),
    (∀ t ∈ ks, ∀ r, IsReexprBy_rx off t r → IsReexprBy_rx off' t r) →
    IsReexprByL_rx off ks rs → IsReexprByL_rx off' ks rs
  | [], rs, _, h => by rw [isReexprByL_nil_rx] at h ⊢; exact h
  | t :: ts, rs, ih, h => by
      rw [isReexprByL_cons_rx] at h ⊢
      obtain ⟨r, rs', e, h1, h2⟩ := h
      exact ⟨r, rs', e, ih t (by simp) r h1,
        isReexprByL_imp_rx ts rs' (fun t ht => ih t (List.mem_cons_of_mem _ ht)) h2⟩

/-! ### Equations of `revSub (reverseMap σ)` (with the order of the results) -/

theorem revSub_reverseMap_tparam_rx (σ : Subst) (n : String) :
    revSub (reverseMap σ) (.tparam n) =
      if offered_rx σ (.ty (.tparam n)) = [] then [.tparam n] else (offered_rx σ (.ty (.tparam n))).map .tparam := by
  rw [revSub, reverseMap_find_eq_rx]
  by_cases h : offered_rx σ (.ty (.tparam n)) = []
  · simp [h]
  · simp [h]

theorem revSub_reverseMap_eparam_rx (σ : Subst) (n : String) :
    revSub (reverseMap σ) (.eparam n) =
      if offered_rx σ (.ex (.eparam n)) = [] then [.eparam n] else (offered_rx σ (.ex (.eparam n))).map .eparam := by
  rw [revSub, reverseMap_find_eq_rx]
  by_cases h : offered_rx σ (.ex (.eparam n)) = []
  · simp [h]
  · simp [h]

/-- OUTERMOST WINS, type kind: a type-kind node for which something is offered is replaced as a whole, by exactly the
    offered parameters in insertion order; nothing below it is looked at -/
theorem revSub_reverseMap_ty_hit_rx (σ : Subst) {k : String} (as : List String) (ks : List T)
    (hT : isTypeKind k = true) (h : offered_rx σ (.ty (.node k as ks)) ≠ []) :
    revSub (reverseMap σ) (.node k as ks) = (offered_rx σ (.ty (.node k as ks))).map .tparam := by
  rw [revSub, if_pos hT, reverseMap_find_eq_rx, if_neg h]
  simp [h]

/-- OUTERMOST WINS, expression kind -/
theorem revSub_reverseMap_ex_hit_rx (σ : Subst) {k : String} (as : List String) (ks : List T)
    (hT : isTypeKind k = false) (hE : isExprKind k = true) (h : offered_rx σ (.ex (.node k as ks)) ≠ []) :
    revSub (reverseMap σ) (.node k as ks) = (offered_rx σ (.ex (.node k as ks))).map .eparam := by
  rw [revSub, if_neg (by simp [hT]), if_pos hE, reverseMap_find_eq_rx, if_neg h]
  simp [h]

/-- a node that is not replaced as a whole (nothing offered under its own kind, or a kind that is never replaced) and
    is not kept verbatim: the children are rewritten independently and combined by the cartesian product -/
theorem revSub_reverseMap_kids_rx (σ : Subst) {k : String} (as : List String) (ks : List T)
    (h : (isTypeKind k = true ∧ offered_rx σ (.ty (.node k as ks)) = []) ∨
      (isTypeKind k = false ∧ isExprKind k = true ∧ offered_rx σ (.ex (.node k as ks)) = []) ∨
      (isTypeKind k = false ∧ isExprKind k = false ∧ isVerbatimKind k = false)) :
    revSub (reverseMap σ) (.node k as ks) = (cartesian (revSubL (reverseMap σ) ks)).map (.node k as) := by
  rw [revSub]
  rcases h with ⟨hT, h⟩ | ⟨hT, hE, h⟩ | ⟨hT, hE, hV⟩
  · rw [if_pos hT, reverseMap_find_eq_rx, if_pos h]
  · rw [if_neg (by simp [hT]), if_pos hE, reverseMap_find_eq_rx, if_pos h]
  · have hV' : ¬ (k == "Ign" || k == "IgnL" || k == "Eq") = true := by
      have : (k == "Ign" || k == "IgnL" || k == "Eq") = isVerbatimKind k := rfl
      rw [this, hV]; simp
    rw [if_neg (by simp [hT]), if_neg (by simp [hE]), if_neg hV']

/-- `Ign` / `IgnL` / `Eq` nodes are kept verbatim -/
theorem revSub_reverseMap_verbatim_rx (σ : Subst) {k : String} (as : List String) (ks : List T)
    (hT : isTypeKind k = false) (hE : isExprKind k = false) (hV : isVerbatimKind k = true) :
    revSub (reverseMap σ) (.node k as ks) = [.node k as ks] := by
  have hV' : (k == "Ign" || k == "IgnL" || k == "Eq") = true := hV
  rw [revSub, if_neg (by simp [hT]), if_neg (by simp [hE]), if_pos hV']

/-! ### Is the value of a parameter re-expressed by that parameter? (kinds) -/

/-- the shapes that are looked up as a `.ty` value -/
def tyReplaceable_rx : T → Bool
  | .tparam _ => true
  | .eparam _ => false
  | .node k _ _ => isTypeKind k

/-- the shapes that are looked up as an `.ex` value -/
def exReplaceable_rx : T → Bool
  | .tparam _ => false
  | .eparam _ => true
  | .node k _ _ => !isTypeKind k && isExprKind k

/-- a parameter with the entry `(p, .ty v)` is offered for the term `v` itself exactly if `v` is a type parameter or a
    type-kind node -/
theorem tparam_mem_revSub_value_rx {σ : Subst} {p : String} {v : T} (h : (p, Val.ty v) ∈ σ) :
    .tparam p ∈ revSub (reverseMap σ) v ↔ tyReplaceable_rx v = true := by
  have hp : p ∈ offered_rx σ (.ty v) := mem_offered_rx.2 h
  have hne : offered_rx σ (.ty v) ≠ [] := List.ne_nil_of_mem hp
  rw [mem_revSub_reverseMap_iff_rx]
  unfold IsReexpr_rx
  cases v with
  | tparam n =>
    rw [isReexprBy_tparam_rx, if_neg hne]
    simp only [tyReplaceable_rx, iff_true]
    exact ⟨p, hp, rfl⟩
  | eparam n =>
    rw [isReexprBy_eparam_rx]
    simp only [tyReplaceable_rx, Bool.false_eq_true, iff_false]
    intro hc
    split at hc
    · cases hc
    · obtain ⟨q, _, e⟩ := hc; cases e
  | node k as ks =>
    simp only [tyReplaceable_rx]
    by_cases hT : isTypeKind k = true
    · rw [isReexprBy_node_ty_rx as ks _ hT, if_neg hne]
      simp only [hT, iff_true]
      exact ⟨p, hp, rfl⟩
    · have hT' : isTypeKind k = false := by simpa using hT
      simp only [hT', Bool.false_eq_true, iff_false]
      by_cases hE : isExprKind k = true
      · rw [isReexprBy_node_ex_rx as ks _ hT' hE]
        intro hc
        split at hc
        · obtain ⟨rs, e, _⟩ := hc; cases e
        · obtain ⟨q, _, e⟩ := hc; cases e
      · have hE' : isExprKind k = false := by simpa using hE
        by_cases hV : isVerbatimKind k = true
        · rw [isReexprBy_node_verbatim_rx as ks _ hT' hE' hV]
          intro e; cases e
        · have hV' : isVerbatimKind k = false := by simpa using hV
          rw [isReexprBy_node_other_rx as ks _ hT' hE' hV']
          rintro ⟨rs, e, _⟩; cases e

/-- a parameter with the entry `(p, .ex v)` is offered for the term `v` itself exactly if `v` is a const parameter or
    an expression-kind node -/
theorem eparam_mem_revSub_value_rx {σ : Subst} {p : String} {v : T} (h : (p, Val.ex v) ∈ σ) :
    .eparam p ∈ revSub (reverseMap σ) v ↔ exReplaceable_rx v = true := by
  have hp : p ∈ offered_rx σ (.ex v) := mem_offered_rx.2 h
  have hne : offered_rx σ (.ex v) ≠ [] := List.ne_nil_of_mem hp
  rw [mem_revSub_reverseMap_iff_rx]
  unfold IsReexpr_rx
  cases v with
  | eparam n =>
    rw [isReexprBy_eparam_rx, if_neg hne]
    simp only [exReplaceable_rx, iff_true]
    exact ⟨p, hp, rfl⟩
  | tparam n =>
    rw [isReexprBy_tparam_rx]
    simp only [exReplaceable_rx, Bool.false_eq_true, iff_false]
    intro hc
    split at hc
    · cases hc
    · obtain ⟨q, _, e⟩ := hc; cases e
  | node k as ks =>
    simp only [exReplaceable_rx]
    by_cases hT : isTypeKind k = true
    · rw [isReexprBy_node_ty_rx as ks _ hT]
      simp only [hT, Bool.not_true, Bool.false_and, Bool.false_eq_true, iff_false]
      intro hc
      split at hc
      · obtain ⟨rs, e, _⟩ := hc; cases e
      · obtain ⟨q, _, e⟩ := hc; cases e
    · have hT' : isTypeKind k = false := by simpa using hT
      by_cases hE : isExprKind k = true
      · rw [isReexprBy_node_ex_rx as ks _ hT' hE, if_neg hne]
        simp only [hT', hE, Bool.not_false, Bool.and_self, iff_true]
        exact ⟨p, hp, rfl⟩
      · have hE' : isExprKind k = false := by simpa using hE
        simp only [hT', hE', Bool.not_false, Bool.and_false, Bool.false_eq_true, iff_false]
        by_cases hV : isVerbatimKind k = true
        · rw [isReexprBy_node_verbatim_rx as ks _ hT' hE' hV]
          intro e; cases e
        · have hV' : isVerbatimKind k = false := by simpa using hV
          rw [isReexprBy_node_other_rx as ks _ hT' hE' hV']
          rintro ⟨rs, e, _⟩; cases e


/-! ### The naive reading of "the parameters bound to a value" and D13

Semantically a parameter with an `identity` entry is bound to itself: `inst σ` maps `tparam n` to `tparam n`. The naive
specification therefore also offers `n` for the value `.ty (.tparam n)` / `.ex (.eparam n)`. The code does not
(`SubstitutionValue::Identity` is a key of its own in the reverse map, never looked up). -/

/-- the parameter a value consists of, if it is a bare parameter -/
def ownParam_rx : Val → Option String
  | .ty (.tparam n) => some n
  | .ex (.eparam n) => some n
  | _ => none

/-- the naive offer: the explicit entries, and the parameter itself if it has an `identity` entry -/
def offeredNaive_rx (σ : Subst) (v : Val) : List String :=
  offered_rx σ v ++ (match ownParam_rx v with
    | some n => if (n, Val.identity) ∈ σ then [n] else []
    | none => [])

def IsReexprNaive_rx (σ : Subst) (t r : T) : Prop := IsReexprBy_rx (offeredNaive_rx σ) t r

instance (σ : Subst) (t r : T) : Decidable (IsReexprNaive_rx σ t r) :=
  decidable_of_iff _ (isReexprBy_iff_rx (offeredNaive_rx σ) t r)

/-- no parameter with an `identity` entry is also the value of another parameter (executable) -/
def noIdentityAlias_rx (σ : Subst) : Bool :=
  σ.all (fun e => !(e.2 == Val.identity) ||
    ((offered_rx σ (.ty (.tparam e.1))).isEmpty && (offered_rx σ (.ex (.eparam e.1))).isEmpty))

theorem ownParam_node_ty_rx (k : String) (as : List String) (ks : List T) :
    ownParam_rx (.ty (.node k as ks)) = none := rfl
theorem ownParam_node_ex_rx (k : String) (as : List String) (ks : List T) :
    ownParam_rx (.ex (.node k as ks)) = none := rfl

/-- enlarging the offer: wherever something was offered more may be offered, and where nothing was offered either
    nothing is offered or, for a bare parameter, the parameter itself -/
theorem isReexprBy_mono_rx {off off' : Val → List String}
    (h1 : ∀ v, off v ≠ [] → off' v ≠ [] ∧ ∀ p, p ∈ off v → p ∈ off' v)
    (h2 : ∀ v, off v = [] → off' v = [] ∨ ∃ n, ownParam_rx v = some n ∧ off' v = [n]) :
    ∀ (t r : T), IsReexprBy_rx off t r → IsReexprBy_rx off' t r := by
  apply T.ind
  · intro n r h
    rw [isReexprBy_tparam_rx] at h ⊢
    by_cases ho : off (.ty (.tparam n)) = []
    · rw [if_pos ho] at h
      rcases h2 _ ho with h' | ⟨m, hm, h'⟩
      · rw [if_pos h']; exact h
      · cases hm
        rw [h', if_neg (by simp)]
        exact ⟨n, by simp, h⟩
    · rw [if_neg ho] at h
      obtain ⟨p, hp, e⟩ := h
      rw [if_neg (h1 _ ho).1]
      exact ⟨p, (h1 _ ho).2 p hp, e⟩
  · intro n r h
    rw [isReexprBy_eparam_rx] at h ⊢
    by_cases ho : off (.ex (.eparam n)) = []
    · rw [if_pos ho] at h
      rcases h2 _ ho with h' | ⟨m, hm, h'⟩
      · rw [if_pos h']; exact h
      · cases hm
        rw [h', if_neg (by simp)]
        exact ⟨n, by simp, h⟩
    · rw [if_neg ho] at h
      obtain ⟨p, hp, e⟩ := h
      rw [if_neg (h1 _ ho).1]
      exact ⟨p, (h1 _ ho).2 p hp, e⟩
  · intro k as ks ih r h
    have hkids : (∃ rs, r = .node k as rs ∧ IsReexprByL_rx off ks rs) →
        ∃ rs, r = .node k as rs ∧ IsReexprByL_rx off' ks rs := by
      rintro ⟨rs, e, hrs⟩
      exact ⟨rs, e, isReexprByL_imp_rx ks rs ih hrs⟩
    by_cases hT : isTypeKind k = true
    · rw [isReexprBy_node_ty_rx as ks r hT] at h ⊢
      by_cases ho : off (.ty (.node k as ks)) = []
      · rw [if_pos ho] at h
        rcases h2 _ ho with h' | ⟨m, hm, _⟩
        · rw [if_pos h']; exact hkids h
        · cases hm
      · rw [if_neg ho] at h
        obtain ⟨p, hp, e⟩ := h
        rw [if_neg (h1 _ ho).1]
        exact ⟨p, (h1 _ ho).2 p hp, e⟩
    · have hT' : isTypeKind k = false := by simpa using hT
      by_cases hE : isExprKind k = true
      · rw [isReexprBy_node_ex_rx as ks r hT' hE] at h ⊢
        by_cases ho : off (.ex (.node k as ks)) = []
        · rw [if_pos ho] at h
          rcases h2 _ ho with h' | ⟨m, hm, _⟩
          · rw [if_pos h']; exact hkids h
          · cases hm
        · rw [if_neg ho] at h
          obtain ⟨p, hp, e⟩ := h
          rw [if_neg (h1 _ ho).1]
          exact ⟨p, (h1 _ ho).2 p hp, e⟩
      · have hE' : isExprKind k = false := by simpa using hE
        by_cases hV : isVerbatimKind k = true
        · rw [isReexprBy_node_verbatim_rx as ks r hT' hE' hV] at h ⊢; exact h
        · have hV' : isVerbatimKind k = false := by simpa using hV
          rw [isReexprBy_node_other_rx as ks r hT' hE' hV'] at h ⊢; exact hkids h

/-- shrinking the offer back: if the larger offer differs from the smaller one only by offering a bare parameter for
    itself where nothing was offered, the re-expressions are the same -/
theorem isReexprBy_anti_rx {off off' : Val → List String}
    (hC : ∀ v, off' v = off v ∨ (off v = [] ∧ ∃ n, ownParam_rx v = some n ∧ off' v = [n])) :
    ∀ (t r : T), IsReexprBy_rx off' t r → IsReexprBy_rx off t r := by
  apply T.ind
  · intro n r h
    rw [isReexprBy_tparam_rx] at h ⊢
    rcases hC (.ty (.tparam n)) with e | ⟨ho, m, hm, h'⟩
    · rw [e] at h; exact h
    · cases hm
      rw [h', if_neg (by simp)] at h
      obtain ⟨p, hp, e⟩ := h
      rw [if_pos ho, e]
      simp only [List.mem_singleton] at hp
      rw [hp]
  · intro n r h
    rw [isReexprBy_eparam_rx] at h ⊢
    rcases hC (.ex (.eparam n)) with e | ⟨ho, m, hm, h'⟩
    · rw [e] at h; exact h
    · cases hm
      rw [h', if_neg (by simp)] at h
      obtain ⟨p, hp, e⟩ := h
      rw [if_pos ho, e]
      simp only [List.mem_singleton] at hp
      rw [hp]
  · intro k as ks ih r h
    have hkids : (∃ rs, r = .node k as rs ∧ IsReexprByL_rx off' ks rs) →
        ∃ rs, r = .node k as rs ∧ IsReexprByL_rx off ks rs := by
      rintro ⟨rs, e, hrs⟩
      exact ⟨rs, e, isReexprByL_imp_rx ks rs ih hrs⟩
    by_cases hT : isTypeKind k = true
    · rw [isReexprBy_node_ty_rx as ks r hT] at h ⊢
      rcases hC (.ty (.node k as ks)) with e | ⟨_, m, hm, _⟩
      · rw [e] at h
        by_cases ho : off (.ty (.node k as ks)) = []
        · rw [if_pos ho] at h ⊢; exact hkids h
        · rw [if_neg ho] at h ⊢; exact h
      · cases hm
    · have hT' : isTypeKind k = false := by simpa using hT
      by_cases hE : isExprKind k = true
      · rw [isReexprBy_node_ex_rx as ks r hT' hE] at h ⊢
        rcases hC (.ex (.node k as ks)) with e | ⟨_, m, hm, _⟩
        · rw [e] at h
          by_cases ho : off (.ex (.node k as ks)) = []
          · rw [if_pos ho] at h ⊢; exact hkids h
          · rw [if_neg ho] at h ⊢; exact h
        · cases hm
      · have hE' : isExprKind k = false := by simpa using hE
        by_cases hV : isVerbatimKind k = true
        · rw [isReexprBy_node_verbatim_rx as ks r hT' hE' hV] at h ⊢; exact h
        · have hV' : isVerbatimKind k = false := by simpa using hV
          rw [isReexprBy_node_other_rx as ks r hT' hE' hV'] at h ⊢; exact hkids h

theorem offeredNaive_of_none_rx {σ : Subst} {v : Val} (h : ownParam_rx v = none) :
    offeredNaive_rx σ v = offered_rx σ v := by
  simp [offeredNaive_rx, h]

theorem offeredNaive_cases_rx (σ : Subst) (v : Val) :
    offeredNaive_rx σ v = offered_rx σ v ∨
      ∃ n, ownParam_rx v = some n ∧ (n, Val.identity) ∈ σ ∧ offeredNaive_rx σ v = offered_rx σ v ++ [n] := by
  unfold offeredNaive_rx
  cases ho : ownParam_rx v with
  | none => simp
  | some n =>
    by_cases hm : (n, Val.identity) ∈ σ
    · exact Or.inr ⟨n, rfl, hm, by simp [hm]⟩
    · simp [hm]

/-- D13, one half: every re-expression the code produces is a re-expression in the naive reading -/
theorem isReexprNaive_of_isReexpr_rx (σ : Subst) (t r : T) (h : IsReexpr_rx σ t r) : IsReexprNaive_rx σ t r := by
  refine isReexprBy_mono_rx ?_ ?_ t r h
  · intro v hv
    rcases offeredNaive_cases_rx σ v with e | ⟨n, _, _, e⟩
    · rw [e]; exact ⟨hv, fun _ hp => hp⟩
    · rw [e]; exact ⟨by simp, fun p hp => List.mem_append.2 (Or.inl hp)⟩
  · intro v hv
    rcases offeredNaive_cases_rx σ v with e | ⟨n, hn, _, e⟩
    · rw [e]; exact Or.inl hv
    · rw [e, hv]; exact Or.inr ⟨n, hn, rfl⟩

theorem ownParam_some_rx {v : Val} {n : String} (h : ownParam_rx v = some n) :
    v = .ty (.tparam n) ∨ v = .ex (.eparam n) := by
  unfold ownParam_rx at h
  split at h
  · cases h; exact Or.inl rfl
  · cases h; exact Or.inr rfl
  · cases h

theorem noIdentityAlias_spec_rx {σ : Subst} (h : noIdentityAlias_rx σ = true) {n : String}
    (hn : (n, Val.identity) ∈ σ) :
    offered_rx σ (.ty (.tparam n)) = [] ∧ offered_rx σ (.ex (.eparam n)) = [] := by
  simp only [noIdentityAlias_rx, List.all_eq_true] at h
  have := h (n, Val.identity) hn
  simpa using this

/-- D13, other half: without identity aliasing the code produces exactly the naive re-expressions -/
theorem isReexprNaive_iff_of_noAlias_rx {σ : Subst} (h : noIdentityAlias_rx σ = true) (t r : T) :
    IsReexprNaive_rx σ t r ↔ IsReexpr_rx σ t r := by
  refine ⟨isReexprBy_anti_rx ?_ t r, isReexprNaive_of_isReexpr_rx σ t r⟩
  intro v
  rcases offeredNaive_cases_rx σ v with e | ⟨n, hn, hm, e⟩
  · exact Or.inl e
  · have ha := noIdentityAlias_spec_rx h hm
    have hv : offered_rx σ v = [] := by
      rcases ownParam_some_rx hn with rfl | rfl
      · exact ha.1
      · exact ha.2
    exact Or.inr ⟨hv, n, hn, by rw [e, hv]; rfl⟩

/-- D13, necessity: with distinct keys, identity aliasing always loses a naive re-expression (the aliased parameter
    left as it is) -/
theorem exists_lost_of_alias_rx {σ : Subst} (hσ : (σ.map Prod.fst).Nodup) (h : noIdentityAlias_rx σ = false) :
    ∃ t, IsReexprNaive_rx σ t t ∧ ¬ IsReexpr_rx σ t t ∧ inst σ t = t := by
  rw [noIdentityAlias_rx, List.all_eq_false] at h
  obtain ⟨⟨n, v⟩, hm, hv⟩ := h
  simp only [Bool.or_eq_true, Bool.not_eq_true', beq_eq_false_iff_ne, ne_eq, Bool.and_eq_true,
    List.isEmpty_iff, not_or, Decidable.not_not, not_and] at hv
  obtain ⟨hid, hne⟩ := hv
  subst hid
  have hlk : lookup σ n = some Val.identity := lookup_of_mem_nodup σ n _ hσ hm
  by_cases hty : offered_rx σ (.ty (.tparam n)) = []
  · -- the const reading is aliased
    have hex := hne hty
    refine ⟨.eparam n, ?_, ?_, ?_⟩
    · unfold IsReexprNaive_rx
      have : n ∈ offeredNaive_rx σ (.ex (.eparam n)) := by
        simp [offeredNaive_rx, ownParam_rx, hm]
      rw [isReexprBy_eparam_rx, if_neg (List.ne_nil_of_mem this)]
      exact ⟨n, this, rfl⟩
    · unfold IsReexpr_rx
      rw [isReexprBy_eparam_rx, if_neg hex]
      rintro ⟨p, hp, e⟩
      cases e
      rw [mem_offered_iff_lookup_rx hσ, hlk] at hp
      cases hp
    · exact inst_eparam_other (fun t ht => by rw [hlk] at ht; cases ht)
  · refine ⟨.tparam n, ?_, ?_, ?_⟩
    · unfold IsReexprNaive_rx
      have : n ∈ offeredNaive_rx σ (.ty (.tparam n)) := by
        simp [offeredNaive_rx, ownParam_rx, hm]
      rw [isReexprBy_tparam_rx, if_neg (List.ne_nil_of_mem this)]
      exact ⟨n, this, rfl⟩
    · unfold IsReexpr_rx
      rw [isReexprBy_tparam_rx, if_neg hty]
      rintro ⟨p, hp, e⟩
      cases e
      rw [mem_offered_iff_lookup_rx hσ, hlk] at hp
      cases hp
    · exact inst_tparam_other (fun t ht => by rw [hlk] at ht; cases ht)


/-! ### Children position by position; unfolding of the count -/

theorem isReexprByL_length_rx {off : Val → List String} : ∀ {ks rs : List T},
    IsReexprByL_rx off ks rs → rs.length = ks.length
  | [], rs, h => by rw [isReexprByL_nil_rx] at h; subst h; rfl
  | t :: ts, rs, h => by
      rw [isReexprByL_cons_rx] at h
      obtain ⟨r, rs', rfl, _, h2⟩ := h
      simp [isReexprByL_length_rx h2]

/-- the children relation is the pointwise one -/
theorem isReexprByL_iff_getElem_rx {off : Val → List String} : ∀ (ks rs : List T),
    IsReexprByL_rx off ks rs ↔
      rs.length = ks.length ∧ ∀ (i : Nat) (h1 : i < ks.length) (h2 : i < rs.length), IsReexprBy_rx off ks[i] rs[i]
  | [], rs => by
      rw [isReexprByL_nil_rx]
      constructor
      · rintro rfl; exact ⟨rfl, fun i h1 _ => absurd h1 (Nat.not_lt_zero i)⟩
      · rintro ⟨h, _⟩; exact List.eq_nil_of_length_eq_zero h
  | t :: ts, rs => by
      rw [isReexprByL_cons_rx]
      constructor
      · rintro ⟨r, rs', rfl, h1, h2⟩
        obtain ⟨hl, hi⟩ := (isReexprByL_iff_getElem_rx ts rs').1 h2
        refine ⟨by simp [hl], ?_⟩
        intro i hi1 hi2
        cases i with
        | zero => exact h1
        | succ j =>
          simp only [List.getElem_cons_succ]
          exact hi j (by simpa using hi1) (by simpa using hi2)
      · rintro ⟨hl, hi⟩
        cases rs with
        | nil => simp at hl
        | cons r rs' =>
          refine ⟨r, rs', rfl, hi 0 (by simp) (by simp), ?_⟩
          rw [isReexprByL_iff_getElem_rx ts rs']
          refine ⟨by simpa using hl, ?_⟩
          intro i h1 h2
          have := hi (i + 1) (by simpa using h1) (by simpa using h2)
          simpa using this

/-- the product of the counts of the children -/
def reexprCountL_rx (σ : Subst) (ts : List T) : Nat := countByL_rx (offered_rx σ) ts

theorem reexprCount_tparam_rx (σ : Subst) (n : String) :
    reexprCount_rx σ (.tparam n) =
      if offered_rx σ (.ty (.tparam n)) = [] then 1 else (offered_rx σ (.ty (.tparam n))).length := by
  rw [reexprCount_rx, countBy_rx]

theorem reexprCount_eparam_rx (σ : Subst) (n : String) :
    reexprCount_rx σ (.eparam n) =
      if offered_rx σ (.ex (.eparam n)) = [] then 1 else (offered_rx σ (.ex (.eparam n))).length := by
  rw [reexprCount_rx, countBy_rx]

theorem reexprCount_node_rx (σ : Subst) (k : String) (as : List String) (ks : List T) :
    reexprCount_rx σ (.node k as ks) =
      if isTypeKind k then
        if offered_rx σ (.ty (.node k as ks)) = [] then reexprCountL_rx σ ks
        else (offered_rx σ (.ty (.node k as ks))).length
      else if isExprKind k then
        if offered_rx σ (.ex (.node k as ks)) = [] then reexprCountL_rx σ ks
        else (offered_rx σ (.ex (.node k as ks))).length
      else if isVerbatimKind k then 1
      else reexprCountL_rx σ ks := by
  rw [reexprCount_rx, countBy_rx]; rfl

theorem reexprCountL_nil_rx (σ : Subst) : reexprCountL_rx σ [] = 1 := by
  rw [reexprCountL_rx, countByL_rx]

theorem reexprCountL_cons_rx (σ : Subst) (t : T) (ts : List T) :
    reexprCountL_rx σ (t :: ts) = reexprCount_rx σ t * reexprCountL_rx σ ts := by
  rw [reexprCountL_rx, countByL_rx]; rfl

theorem reexprCount_pos_rx (σ : Subst) (t : T) : 0 < reexprCount_rx σ t := by
  rw [← length_revSub_reverseMap_rx]
  exact List.length_pos_iff.2 (revSub_ne_nil _ t)

end DI
