/-
  The ROUND TRIP of parameter canonicalisation and the converse of alpha-invariance (C13): the block can be recovered
  from its canonical form and the computed renaming, and two blocks with the same canonical form are textual renamings of
  each other. Statements: `Props/C13.lean` (`C13_round_trip*`, `C13_same_canon_only_if_renaming*`); executable definitions:
  `Lemmas/CanonRoundTripDefs.lean`.

  * `unqs_qs_rt`            `unqsT_rt P (qsT_cr P t) = t` under `qsInvOK_rt P t` (inversion lemmas for `qsT_cr`);
  * `acT_renameImplDecls_rt`  the textual renaming of the occurrences commutes with the respelling of the declarations;
  * `acT_comp_rt`           `acT_cr ρ (acT_cr r t) = acT_cr (r ; ρ) t` under `acOK_rt r t`, for `ρ` defined exactly on the new
                            names of `r` (reserved identifiers; type and const names disjoint);
  * `acT_id_rt`             an identity renaming changes nothing on a tree in decoder normal form;
  * `alphaRenameC_comp_rt`, `alphaRenameC_inv_rt`   the block level;
  * `round_trip_rt`, `same_canon_only_if_renaming_rt`  the theorems.
-/
import DisjointImpls.Lemmas.CanonRoundTripDefs
import DisjointImpls.Lemmas.CanonIsRenaming
namespace DI

/-! ### Nodes treated by the default arm -/

/-- the kind is none of the five special ones -/
abbrev Oth5 (k : String) : Prop := k ≠ "Ign" ∧ k ≠ "Eq" ∧ k ≠ "Lifetime" ∧ k ≠ "Type::Path" ∧ k ≠ "Expr::Path"

theorem nodeOther_of5 {k : String} (ks : List T) (h : Oth5 k) : NodeOther k ks :=
  nodeOther_of_ne ks h.1 h.2.1 h.2.2.1 h.2.2.2.1 h.2.2.2.2

theorem qsT_o_rt (P : String → Bool) {k : String} (as : List String) (ks : List T) (h : Oth5 k) :
    qsT_cr P (.node k as ks) = .node k as (qsL_cr P ks) := qsT_of_other_cr P as (nodeOther_of5 ks h)
theorem acT_o_rt (π : Renaming) {k : String} (as : List String) (ks : List T) (h : Oth5 k) :
    acT_cr π (.node k as ks) = .node k as (acL_cr π ks) := acT_of_other_cr π as (nodeOther_of5 ks h)

/-! ### Shapes: `unqsT_rt` -/

theorem plainPathOf_eq_rt (x : String) (segs : List T) : plainPathOf_rt x segs = plainPath x segs := rfl

theorem unqsT_tparam_rt (P : String → Bool) (n : String) : unqsT_rt P (.tparam n) = .tparam n := by rw [unqsT_rt]
theorem unqsT_eparam_rt (P : String → Bool) (n : String) : unqsT_rt P (.eparam n) = .eparam n := by rw [unqsT_rt]
theorem unqsT_ign_rt (P : String → Bool) (as : List String) (ks : List T) :
    unqsT_rt P (.node "Ign" as ks) = .node "Ign" as ks := by rw [unqsT_rt]
theorem unqsT_eq_rt (P : String → Bool) (as : List String) (ks : List T) :
    unqsT_rt P (.node "Eq" as ks) = .node "Eq" as ks := by rw [unqsT_rt]
theorem unqsT_lifetime_rt (P : String → Bool) (as : List String) (x : String) :
    unqsT_rt P (.node "Lifetime" as [.node "Ident" [x] []]) = .node "Lifetime" as [.node "Ident" [x] []] := by rw [unqsT_rt]
theorem unqsT_typePath_rt (P : String → Bool) (as : List String) (q p : T) :
    unqsT_rt P (.node "Type::Path" as [q, p]) =
      (match unqsFires_rt P q p with
       | some x => .node "Type::Path" as [noneNode, plainPath x (pathSegs_rt (unqsT_rt P p))]
       | none => .node "Type::Path" as [unqsT_rt P q, unqsT_rt P p]) := by
  rw [unqsT_rt]; cases unqsFires_rt P q p <;> rfl
theorem unqsT_exprPath_rt (P : String → Bool) (as : List String) (a q p : T) :
    unqsT_rt P (.node "Expr::Path" as [a, q, p]) =
      (match unqsFires_rt P q p with
       | some x => .node "Expr::Path" as [unqsT_rt P a, noneNode, plainPath x (pathSegs_rt (unqsT_rt P p))]
       | none => .node "Expr::Path" as [unqsT_rt P a, unqsT_rt P q, unqsT_rt P p]) := by
  rw [unqsT_rt]; cases unqsFires_rt P q p <;> rfl

theorem unqsT_of_other_rt (P : String → Bool) {k : String} (as : List String) {ks : List T} (h : NodeOther k ks) :
    unqsT_rt P (.node k as ks) = .node k as (unqsL_rt P ks) := by
  obtain ⟨h1, h2, h3, h4, h5⟩ := h
  unfold unqsT_rt
  split
  · next heq => cases heq
  · next heq => cases heq
  · next heq => cases heq; exact absurd rfl h1
  · next heq => cases heq; exact absurd rfl h2
  · next x heq => cases heq; exact absurd ⟨rfl, rfl⟩ (h3 x)
  · next q p heq => cases heq; exact absurd ⟨rfl, rfl⟩ (h4 q p)
  · next a q p heq => cases heq; exact absurd ⟨rfl, rfl⟩ (h5 a q p)
  · next heq => cases heq; rfl

theorem unqsT_o_rt (P : String → Bool) {k : String} (as : List String) (ks : List T) (h : Oth5 k) :
    unqsT_rt P (.node k as ks) = .node k as (unqsL_rt P ks) := unqsT_of_other_rt P as (nodeOther_of5 ks h)

theorem unqsL_nil_rt (P : String → Bool) : unqsL_rt P [] = [] := by rw [unqsL_rt]
theorem unqsL_cons_rt (P : String → Bool) (t : T) (ts : List T) :
    unqsL_rt P (t :: ts) = unqsT_rt P t :: unqsL_rt P ts := by rw [unqsL_rt]

theorem unqsT_noneNode_rt (P : String → Bool) : unqsT_rt P noneNode = noneNode := by
  unfold noneNode; rw [unqsT_o_rt P _ _ (by decide), unqsL_nil_rt]

theorem unqsT_plainPath_rt (P : String → Bool) (x : String) (rest : List T) :
    unqsT_rt P (plainPath x rest) = plainPath x (unqsL_rt P rest) := by
  unfold plainPath plainSeg nohead argsNone noneNode
  rw [unqsT_o_rt P _ _ (by decide), unqsL_cons_rt, unqsL_cons_rt, unqsL_nil_rt,
    unqsT_o_rt P _ _ (by decide), unqsL_cons_rt, unqsL_nil_rt, unqsT_o_rt P _ _ (by decide), unqsL_nil_rt,
    unqsT_o_rt P _ _ (by decide), unqsL_cons_rt,
    unqsT_o_rt P _ _ (by decide), unqsL_cons_rt, unqsL_cons_rt, unqsL_nil_rt,
    unqsT_o_rt P _ _ (by decide), unqsL_nil_rt, unqsT_o_rt P _ _ (by decide), unqsL_nil_rt]

theorem colonPath_eq_rt (segs : List T) : colonPath_rt segs = .node "Path" [] [someColon, .node "List" [] segs] := rfl
theorem qselfNode_eq_rt (x : String) :
    qselfNode_rt x = .node "Some" [] [.node "QSelf" [] [.tparam x, .node "Atom" ["0"] [], noneNode]] := rfl
theorem qselfPath_fst_rt (x : String) (l : List T) : (qselfPath x l).1 = qselfNode_rt x := rfl
theorem qselfPath_snd_rt (x : String) (l : List T) : (qselfPath x l).2 = colonPath_rt l := rfl
theorem pathSegs_colonPath_rt (segs : List T) : pathSegs_rt (colonPath_rt segs) = segs := rfl

theorem unqsT_colonPath_rt (P : String → Bool) (segs : List T) :
    unqsT_rt P (colonPath_rt segs) = colonPath_rt (unqsL_rt P segs) := by
  rw [colonPath_eq_rt, colonPath_eq_rt]
  unfold someColon
  rw [unqsT_o_rt P _ _ (by decide), unqsL_cons_rt, unqsL_cons_rt, unqsL_nil_rt,
    unqsT_o_rt P _ _ (by decide), unqsL_cons_rt, unqsL_nil_rt, unqsT_o_rt P _ _ (by decide), unqsL_nil_rt,
    unqsT_o_rt P _ _ (by decide)]

theorem qsT_colonPath_rt (P : String → Bool) (segs : List T) :
    qsT_cr P (colonPath_rt segs) = colonPath_rt (qsL_cr P segs) := by
  rw [colonPath_eq_rt, colonPath_eq_rt]
  unfold someColon
  rw [qsT_o_rt P _ _ (by decide), qsL_cons_cr, qsL_cons_cr, qsL_nil_cr,
    qsT_o_rt P _ _ (by decide), qsL_cons_cr, qsL_nil_cr, qsT_o_rt P _ _ (by decide), qsL_nil_cr,
    qsT_o_rt P _ _ (by decide)]

/-! ### Inversion lemmas for `qsT_cr` -/

theorem qsT_node_rt (P : String → Bool) (k : String) (as : List String) (ks : List T) :
    ∃ k' as' ks', qsT_cr P (.node k as ks) = .node k' as' ks' := by
  rcases node_shape k ks with hh | ⟨x, rfl, rfl⟩ | ⟨q, p, rfl, rfl⟩ | ⟨a, q, p, rfl, rfl⟩ | hh
  · rcases hh with rfl | rfl
    · exact ⟨_, _, _, qsT_ign_cr P as ks⟩
    · exact ⟨_, _, _, qsT_eq_cr P as ks⟩
  · exact ⟨_, _, _, qsT_lifetime_cr P as x⟩
  · rw [qsT_typePath_cr]; cases qsFires_cr P q p <;> exact ⟨_, _, _, rfl⟩
  · rw [qsT_exprPath_cr]; cases qsFires_cr P q p <;> exact ⟨_, _, _, rfl⟩
  · exact ⟨_, _, _, qsT_of_other_cr P as hh⟩

theorem qsT_tparam_inv_rt {P : String → Bool} {t : T} {n : String} (h : qsT_cr P t = .tparam n) : t = .tparam n := by
  cases t with
  | tparam m => rw [qsT_tparam_cr] at h; exact h
  | eparam m => rw [qsT_eparam_cr] at h; cases h
  | node k as ks => obtain ⟨k', as', ks', e⟩ := qsT_node_rt P k as ks; rw [e] at h; cases h

/-- a node of an ordinary kind comes from a node of that kind -/
theorem qsT_inv_rt {P : String → Bool} {t : T} {k : String} {as : List String} {ks' : List T} (h5 : Oth5 k)
    (h : qsT_cr P t = .node k as ks') : ∃ ks, t = .node k as ks ∧ ks' = qsL_cr P ks := by
  cases t with
  | tparam n => rw [qsT_tparam_cr] at h; cases h
  | eparam n => rw [qsT_eparam_cr] at h; cases h
  | node k0 as0 ks0 =>
    rcases node_shape k0 ks0 with hh | ⟨x, rfl, rfl⟩ | ⟨q, p, rfl, rfl⟩ | ⟨a, q, p, rfl, rfl⟩ | hh
    · rcases hh with rfl | rfl
      · rw [qsT_ign_cr] at h; cases h; exact absurd rfl h5.1
      · rw [qsT_eq_cr] at h; cases h; exact absurd rfl h5.2.1
    · rw [qsT_lifetime_cr] at h; cases h; exact absurd rfl h5.2.2.1
    · rw [qsT_typePath_cr] at h
      split at h <;> (cases h; exact absurd rfl h5.2.2.2.1)
    · rw [qsT_exprPath_cr] at h
      split at h <;> (cases h; exact absurd rfl h5.2.2.2.2)
    · rw [qsT_of_other_cr P as0 hh] at h
      cases h
      exact ⟨ks0, rfl, rfl⟩

theorem qsL_eq_nil_rt {P : String → Bool} {ks : List T} (h : qsL_cr P ks = []) : ks = [] := by
  cases ks with
  | nil => rfl
  | cons t ts => rw [qsL_cons_cr] at h; cases h

theorem qsL_eq_cons_rt {P : String → Bool} {ks : List T} {t' : T} {ts' : List T} (h : qsL_cr P ks = t' :: ts') :
    ∃ t ts, ks = t :: ts ∧ qsT_cr P t = t' ∧ qsL_cr P ts = ts' := by
  cases ks with
  | nil => rw [qsL_nil_cr] at h; cases h
  | cons t ts => rw [qsL_cons_cr] at h; cases h; exact ⟨t, ts, rfl, rfl, rfl⟩

theorem qsT_leaf_inv_rt {P : String → Bool} {t : T} {k : String} {as : List String} (h5 : Oth5 k)
    (h : qsT_cr P t = .node k as []) : t = .node k as [] := by
  obtain ⟨ks, rfl, e⟩ := qsT_inv_rt h5 h
  rw [qsL_eq_nil_rt e.symm]

theorem qsL_isEmpty_rt (P : String → Bool) (ks : List T) : (qsL_cr P ks).isEmpty = ks.isEmpty := by
  cases ks with
  | nil => rw [qsL_nil_cr]
  | cons t ts => rw [qsL_cons_cr]; rfl

theorem nodeOther_qsL_rt (P : String → Bool) {k : String} {ks : List T} (h : NodeOther k ks) : NodeOther k (qsL_cr P ks) := by
  obtain ⟨h1, h2, h3, h4, h5⟩ := h
  refine ⟨h1, h2, ?_, ?_, ?_⟩
  · rintro x ⟨rfl, e⟩
    obtain ⟨t, ts, rfl, e1, e2⟩ := qsL_eq_cons_rt e
    cases qsL_eq_nil_rt e2
    cases qsT_leaf_inv_rt (by decide) e1
    exact h3 x ⟨rfl, rfl⟩
  · rintro q p ⟨rfl, e⟩
    obtain ⟨t, ts, rfl, _, e2⟩ := qsL_eq_cons_rt e
    obtain ⟨t2, ts2, rfl, _, e3⟩ := qsL_eq_cons_rt e2
    cases qsL_eq_nil_rt e3
    exact h4 _ _ ⟨rfl, rfl⟩
  · rintro a q p ⟨rfl, e⟩
    obtain ⟨t, ts, rfl, _, e2⟩ := qsL_eq_cons_rt e
    obtain ⟨t2, ts2, rfl, _, e3⟩ := qsL_eq_cons_rt e2
    obtain ⟨t3, ts3, rfl, _, e4⟩ := qsL_eq_cons_rt e3
    cases qsL_eq_nil_rt e4
    exact h5 _ _ _ ⟨rfl, rfl⟩

/-- the qualified self `<X>` of the resolver comes from itself -/
theorem qsT_qselfNode_inv_rt {P : String → Bool} {q : T} {x : String} (h : qsT_cr P q = qselfNode_rt x) :
    q = qselfNode_rt x := by
  rw [qselfNode_eq_rt] at h ⊢
  obtain ⟨ks, rfl, e⟩ := qsT_inv_rt (by decide) h
  obtain ⟨t1, ts, rfl, e1, e2⟩ := qsL_eq_cons_rt e.symm
  cases qsL_eq_nil_rt e2
  obtain ⟨ks2, rfl, e3⟩ := qsT_inv_rt (by decide) e1
  obtain ⟨a, ts2, rfl, ea, e4⟩ := qsL_eq_cons_rt e3.symm
  obtain ⟨b, ts3, rfl, eb, e5⟩ := qsL_eq_cons_rt e4
  obtain ⟨c, ts4, rfl, ec, e6⟩ := qsL_eq_cons_rt e5
  cases qsL_eq_nil_rt e6
  cases qsT_tparam_inv_rt ea
  cases qsT_leaf_inv_rt (by decide) eb
  cases qsT_leaf_inv_rt (k := "None") (by decide) ec
  rfl

/-- the path `::segs…` of the resolver comes from such a path -/
theorem qsT_colonPath_inv_rt {P : String → Bool} {p : T} {segs' : List T} (h : qsT_cr P p = colonPath_rt segs') :
    ∃ segs, p = colonPath_rt segs ∧ segs' = qsL_cr P segs := by
  rw [colonPath_eq_rt] at h
  obtain ⟨ks, rfl, e⟩ := qsT_inv_rt (by decide) h
  obtain ⟨lc, ts, rfl, e1, e2⟩ := qsL_eq_cons_rt e.symm
  obtain ⟨l, ts2, rfl, e3, e4⟩ := qsL_eq_cons_rt e2
  cases qsL_eq_nil_rt e4
  obtain ⟨segs, rfl, e5⟩ := qsT_inv_rt (by decide) e3
  have e6 : lc = someColon := by
    unfold someColon at e1 ⊢
    obtain ⟨ks3, rfl, e7⟩ := qsT_inv_rt (by decide) e1
    obtain ⟨s, ts3, rfl, e8, e9⟩ := qsL_eq_cons_rt e7.symm
    cases qsL_eq_nil_rt e9
    cases qsT_leaf_inv_rt (by decide) e8
    rfl
  subst e6
  exact ⟨segs, rfl, e5⟩

theorem qsT_qselfNode_rt (P : String → Bool) (x : String) : qsT_cr P (qselfNode_rt x) = qselfNode_rt x := by
  rw [qselfNode_eq_rt]
  unfold noneNode
  rw [qsT_o_rt P _ _ (by decide), qsL_cons_cr, qsL_nil_cr, qsT_o_rt P _ _ (by decide), qsL_cons_cr, qsL_cons_cr, qsL_cons_cr,
    qsL_nil_cr, qsT_tparam_cr, qsT_o_rt P _ _ (by decide), qsL_nil_cr, qsT_o_rt P _ _ (by decide), qsL_nil_cr]

/-! ### When the inverse presentation change applies -/

theorem qselfOf_self_rt (x : String) : qselfOf_rt (qselfNode_rt x) = some x := by
  simp [qselfOf_rt, qselfNode_rt, qselfPath]

theorem qselfOf_inv_rt {q : T} {x : String} (h : qselfOf_rt q = some x) : q = qselfNode_rt x := by
  unfold qselfOf_rt at h
  split at h
  · split at h
    · next hb => cases h; exact eq_of_beq hb
    · cases h
  · cases h

theorem unqsFires_form_rt (P : String → Bool) (x : String) (segs : List T) :
    unqsFires_rt P (qselfNode_rt x) (colonPath_rt segs) = if !segs.isEmpty && P x then some x else none := by
  unfold unqsFires_rt
  rw [qselfOf_self_rt]
  simp only [isColonPath_rt, pathSegs_colonPath_rt, beq_self_eq_true, Bool.true_and]

theorem unqsFires_inv_rt {P : String → Bool} {q p : T} {x : String} (h : unqsFires_rt P q p = some x) :
    q = qselfNode_rt x ∧ p = colonPath_rt (pathSegs_rt p) ∧ (pathSegs_rt p).isEmpty = false ∧ P x = true := by
  unfold unqsFires_rt at h
  split at h
  · next y hy =>
    split at h
    · next hc =>
      cases h
      simp only [Bool.and_eq_true, Bool.not_eq_true', isColonPath_rt, beq_iff_eq] at hc
      exact ⟨qselfOf_inv_rt hy, hc.1.1, hc.1.2, hc.2⟩
    · cases h
  · cases h

/-- the presentation change does not create the form `<X>::rest…` out of anything else -/
theorem unqsFires_qs_none_rt {P : String → Bool} {q p : T} (h : unqsFires_rt P q p = none) :
    unqsFires_rt P (qsT_cr P q) (qsT_cr P p) = none := by
  cases h' : unqsFires_rt P (qsT_cr P q) (qsT_cr P p) with
  | none => rfl
  | some x =>
    exfalso
    obtain ⟨eq, ep, hne, hP⟩ := unqsFires_inv_rt h'
    cases qsT_qselfNode_inv_rt eq
    obtain ⟨segs, rfl, es⟩ := qsT_colonPath_inv_rt ep
    rw [unqsFires_form_rt, hP] at h
    rw [es, qsL_isEmpty_rt] at hne
    simp [hne] at h

theorem qsFires_inv_rt {P : String → Bool} {q p : T} {x : String} (h : qsFires_cr P q p = some x) :
    q = noneNode ∧ ∃ rest, p = plainPath x rest ∧ rest.isEmpty = false ∧ P x = true := by
  unfold qsFires_cr at h
  split at h
  · next y hy =>
    split at h
    · next hc =>
      cases h
      simp only [Bool.and_eq_true, Bool.not_eq_true'] at hc
      obtain ⟨eq, x', rest, rfl⟩ := plainHead_inv hc.1.1
      rw [firstSegIdent_plainPath] at hy
      cases hy
      exact ⟨eq, rest, rfl, hc.1.2, hc.2⟩
    · cases h
  · cases h

/-! ### `qsInvOK_rt` -/

theorem qsInvOK_typePath_rt (P : String → Bool) (as : List String) (q p : T) :
    qsInvOK_rt P (.node "Type::Path" as [q, p]) = (qsInvOK_rt P q && qsInvOK_rt P p && (unqsFires_rt P q p).isNone) := by
  rw [qsInvOK_rt]
theorem qsInvOK_exprPath_rt (P : String → Bool) (as : List String) (a q p : T) :
    qsInvOK_rt P (.node "Expr::Path" as [a, q, p]) =
      (qsInvOK_rt P a && qsInvOK_rt P q && qsInvOK_rt P p && (unqsFires_rt P q p).isNone &&
        ((qsFires_cr P q p).isNone || a == emptyAttrs_rt)) := by
  rw [qsInvOK_rt]

theorem qsInvOK_of_other_rt (P : String → Bool) {k : String} (as : List String) {ks : List T} (h : NodeOther k ks) :
    qsInvOK_rt P (.node k as ks) = qsInvOKL_rt P ks := by
  obtain ⟨h1, h2, h3, h4, h5⟩ := h
  unfold qsInvOK_rt
  split
  · next heq => cases heq
  · next heq => cases heq
  · next heq => cases heq; exact absurd rfl h1
  · next heq => cases heq; exact absurd rfl h2
  · next x heq => cases heq; exact absurd ⟨rfl, rfl⟩ (h3 x)
  · next q p heq => cases heq; exact absurd ⟨rfl, rfl⟩ (h4 q p)
  · next a q p heq => cases heq; exact absurd ⟨rfl, rfl⟩ (h5 a q p)
  · next heq => cases heq; rfl

theorem qsInvOKL_iff_rt {P : String → Bool} : ∀ {ks : List T}, qsInvOKL_rt P ks = true ↔ ∀ t ∈ ks, qsInvOK_rt P t = true
  | [] => by simp [qsInvOKL_rt]
  | t :: ts => by simp [qsInvOKL_rt, qsInvOKL_iff_rt (ks := ts)]

/-! ### The inverse presentation change undoes the presentation change -/

theorem unqsL_qsL_of_rt {P : String → Bool} : ∀ (ks : List T),
    (∀ t ∈ ks, qsInvOK_rt P t = true → unqsT_rt P (qsT_cr P t) = t) →
    qsInvOKL_rt P ks = true → unqsL_rt P (qsL_cr P ks) = ks
  | [], _, _ => by rw [qsL_nil_cr, unqsL_nil_rt]
  | t :: ts, ih, h => by
      have h' := qsInvOKL_iff_rt.1 h
      rw [qsL_cons_cr, unqsL_cons_rt, ih t (by simp) (h' t (by simp)),
        unqsL_qsL_of_rt ts (fun t' ht' => ih t' (List.mem_cons_of_mem _ ht'))
          (qsInvOKL_iff_rt.2 (fun t' ht' => h' t' (List.mem_cons_of_mem _ ht')))]

/-- **`unqsT_rt P` undoes `qsT_cr P`** on a tree that contains no path already written `<X>::rest…` with `P X` and no
    attributes on an expression path `X::rest…` with `P X` -/
theorem unqs_qs_rt (P : String → Bool) : ∀ t : T, qsInvOK_rt P t = true → unqsT_rt P (qsT_cr P t) = t := by
  apply T.ind
  · intro n _; rw [qsT_tparam_cr, unqsT_tparam_rt]
  · intro n _; rw [qsT_eparam_cr, unqsT_eparam_rt]
  · intro k as ks ih hok
    rcases node_shape k ks with h | ⟨x, rfl, rfl⟩ | ⟨q, p, rfl, rfl⟩ | ⟨a, q, p, rfl, rfl⟩ | h
    · rcases h with rfl | rfl
      · rw [qsT_ign_cr, unqsT_ign_rt]
      · rw [qsT_eq_cr, unqsT_eq_rt]
    · rw [qsT_lifetime_cr, unqsT_lifetime_rt]
    · rw [qsInvOK_typePath_rt] at hok
      simp only [Bool.and_eq_true, Option.isNone_iff_eq_none] at hok
      obtain ⟨⟨hq, hp⟩, hn⟩ := hok
      have ihq := ih q (by simp) hq
      have ihp := ih p (by simp) hp
      rw [qsT_typePath_cr]
      cases hf : qsFires_cr P q p with
      | none =>
        simp only
        rw [unqsT_typePath_rt, unqsFires_qs_none_rt hn]
        simp only
        rw [ihq, ihp]
      | some x =>
        obtain ⟨rfl, rest, rfl, hne, hPx⟩ := qsFires_inv_rt hf
        simp only
        rw [qsT_plainPath_cr, restSegments_plainPath, qselfPath_fst_rt, qselfPath_snd_rt, unqsT_typePath_rt,
          unqsFires_form_rt, qsL_isEmpty_rt, hne, hPx]
        simp only [Bool.not_false, Bool.and_self, if_true]
        rw [unqsT_colonPath_rt, pathSegs_colonPath_rt]
        rw [qsT_plainPath_cr, unqsT_plainPath_rt] at ihp
        rw [(plainPath_inj_cr ihp).2]
    · rw [qsInvOK_exprPath_rt] at hok
      simp only [Bool.and_eq_true, Option.isNone_iff_eq_none, Bool.or_eq_true, beq_iff_eq] at hok
      obtain ⟨⟨⟨⟨ha, hq⟩, hp⟩, hn⟩, hatt⟩ := hok
      have iha := ih a (by simp) ha
      have ihq := ih q (by simp) hq
      have ihp := ih p (by simp) hp
      rw [qsT_exprPath_cr]
      cases hf : qsFires_cr P q p with
      | none =>
        simp only
        rw [unqsT_exprPath_rt, unqsFires_qs_none_rt hn]
        simp only
        rw [iha, ihq, ihp]
      | some x =>
        have ea : a = emptyAttrs_rt := by
          rcases hatt with h | h
          · rw [hf] at h; cases h
          · exact h
        subst ea
        obtain ⟨rfl, rest, rfl, hne, hPx⟩ := qsFires_inv_rt hf
        simp only
        rw [qsT_plainPath_cr, restSegments_plainPath, qselfPath_fst_rt, qselfPath_snd_rt, unqsT_exprPath_rt,
          unqsFires_form_rt, qsL_isEmpty_rt, hne, hPx]
        simp only [Bool.not_false, Bool.and_self, if_true]
        rw [unqsT_colonPath_rt, pathSegs_colonPath_rt, unqsT_ign_rt]
        rw [qsT_plainPath_cr, unqsT_plainPath_rt] at ihp
        rw [(plainPath_inj_cr ihp).2]
        rfl
    · rw [qsInvOK_of_other_rt P as h] at hok
      rw [qsT_of_other_cr P as h, unqsT_of_other_rt P as (nodeOther_qsL_rt P h), unqsL_qsL_of_rt ks ih hok]

/-! ### The textual renaming of the occurrences commutes with the respelling of the declarations -/

/-- the two declaration shapes `renameDecl` rewrites -/
def tyDecl_rt (a : T) (x : String) (rest : List T) : T :=
  .node "GenericParam::Type" [] [.node "TypeParam" [] (a :: .node "Ident" [x] [] :: rest)]
def coDecl_rt (a : T) (x : String) (rest : List T) : T :=
  .node "GenericParam::Const" [] [.node "ConstParam" [] (a :: .node "Ident" [x] [] :: rest)]

theorem renameDecl_ty_rt (ρ : Renaming) (a : T) (x : String) (rest : List T) :
    renameDecl ρ (tyDecl_rt a x rest) = tyDecl_rt a (rn ρ.ty x) rest := by
  unfold renameDecl tyDecl_rt; rfl
theorem renameDecl_co_rt (ρ : Renaming) (a : T) (x : String) (rest : List T) :
    renameDecl ρ (coDecl_rt a x rest) = coDecl_rt a (rn ρ.co x) rest := by
  unfold renameDecl coDecl_rt; rfl

theorem renameDecl_other_rt (ρ : Renaming) {t : T} (h1 : ∀ a x rest, t ≠ tyDecl_rt a x rest)
    (h2 : ∀ a x rest, t ≠ coDecl_rt a x rest) : renameDecl ρ t = t := by
  unfold renameDecl
  split
  · next a x rest => exact absurd rfl (h1 a x rest)
  · next a x rest => exact absurd rfl (h2 a x rest)
  · rfl

theorem acT_tyDecl_rt (π : Renaming) (a : T) (x : String) (rest : List T) :
    acT_cr π (tyDecl_rt a x rest) = tyDecl_rt (acT_cr π a) x (acL_cr π rest) := by
  unfold tyDecl_rt
  rw [acT_o_rt π _ _ (by decide), acL_cons_cr, acL_nil_cr, acT_o_rt π _ _ (by decide), acL_cons_cr, acL_cons_cr,
    acT_identLeaf_cr]
theorem acT_coDecl_rt (π : Renaming) (a : T) (x : String) (rest : List T) :
    acT_cr π (coDecl_rt a x rest) = coDecl_rt (acT_cr π a) x (acL_cr π rest) := by
  unfold coDecl_rt
  rw [acT_o_rt π _ _ (by decide), acL_cons_cr, acL_nil_cr, acT_o_rt π _ _ (by decide), acL_cons_cr, acL_cons_cr,
    acT_identLeaf_cr]

theorem acT_inv5_rt {π : Renaming} {t : T} {k : String} {as : List String} {ks' : List T} (h5 : Oth5 k)
    (h : acT_cr π t = .node k as ks') : ∃ ks, t = .node k as ks ∧ ks' = acL_cr π ks :=
  acT_inv_cr h5.1 h5.2.1 h5.2.2.1 h5.2.2.2.1 h5.2.2.2.2 h

theorem acT_tyDecl_inv_rt {π : Renaming} {t a' : T} {x : String} {rest' : List T}
    (h : acT_cr π t = tyDecl_rt a' x rest') : ∃ a rest, t = tyDecl_rt a x rest := by
  unfold tyDecl_rt at h
  obtain ⟨ks, rfl, e⟩ := acT_inv5_rt (by decide) h
  obtain ⟨t1, ts, rfl, e1, e2⟩ := acL_eq_cons_cr e.symm
  cases acL_eq_nil_cr e2
  obtain ⟨ks2, rfl, e3⟩ := acT_inv5_rt (by decide) e1
  obtain ⟨a, ts2, rfl, _, e4⟩ := acL_eq_cons_cr e3.symm
  obtain ⟨i, rest, rfl, ei, _⟩ := acL_eq_cons_cr e4
  cases acT_leaf_inv_cr (by decide) (by decide) (by decide) (by decide) (by decide) ei
  exact ⟨a, rest, rfl⟩
theorem acT_coDecl_inv_rt {π : Renaming} {t a' : T} {x : String} {rest' : List T}
    (h : acT_cr π t = coDecl_rt a' x rest') : ∃ a rest, t = coDecl_rt a x rest := by
  unfold coDecl_rt at h
  obtain ⟨ks, rfl, e⟩ := acT_inv5_rt (by decide) h
  obtain ⟨t1, ts, rfl, e1, e2⟩ := acL_eq_cons_cr e.symm
  cases acL_eq_nil_cr e2
  obtain ⟨ks2, rfl, e3⟩ := acT_inv5_rt (by decide) e1
  obtain ⟨a, ts2, rfl, _, e4⟩ := acL_eq_cons_cr e3.symm
  obtain ⟨i, rest, rfl, ei, _⟩ := acL_eq_cons_cr e4
  cases acT_leaf_inv_cr (by decide) (by decide) (by decide) (by decide) (by decide) ei
  exact ⟨a, rest, rfl⟩

theorem acT_renameDecl_rt (π ρ : Renaming) (t : T) : acT_cr π (renameDecl ρ t) = renameDecl ρ (acT_cr π t) := by
  by_cases h1 : ∃ a x rest, t = tyDecl_rt a x rest
  · obtain ⟨a, x, rest, rfl⟩ := h1
    rw [renameDecl_ty_rt, acT_tyDecl_rt, acT_tyDecl_rt, renameDecl_ty_rt]
  by_cases h2 : ∃ a x rest, t = coDecl_rt a x rest
  · obtain ⟨a, x, rest, rfl⟩ := h2
    rw [renameDecl_co_rt, acT_coDecl_rt, acT_coDecl_rt, renameDecl_co_rt]
  rw [renameDecl_other_rt ρ (fun a x rest e => h1 ⟨a, x, rest, e⟩) (fun a x rest e => h2 ⟨a, x, rest, e⟩),
    renameDecl_other_rt ρ]
  · intro a x rest e
    obtain ⟨a0, rest0, e0⟩ := acT_tyDecl_inv_rt e
    exact h1 ⟨a0, x, rest0, e0⟩
  · intro a x rest e
    obtain ⟨a0, rest0, e0⟩ := acT_coDecl_inv_rt e
    exact h2 ⟨a0, x, rest0, e0⟩

def gen_rt (lt0 : T) (ps : List T) (gt0 wc : T) : T := .node "Generics" [] [lt0, .node "List" [] ps, gt0, wc]

theorem renameGenerics_gen_rt (ρ : Renaming) (lt0 : T) (ps : List T) (gt0 wc : T) :
    renameGenerics ρ (gen_rt lt0 ps gt0 wc) = gen_rt lt0 (ps.map (renameDecl ρ)) gt0 wc := by
  unfold renameGenerics gen_rt; rfl
theorem renameGenerics_other_rt (ρ : Renaming) {t : T} (h : ∀ lt0 ps gt0 wc, t ≠ gen_rt lt0 ps gt0 wc) :
    renameGenerics ρ t = t := by
  unfold renameGenerics
  split
  · next lt0 ps gt0 wc => exact absurd rfl (h lt0 ps gt0 wc)
  · rfl
theorem acT_gen_rt (π : Renaming) (lt0 : T) (ps : List T) (gt0 wc : T) :
    acT_cr π (gen_rt lt0 ps gt0 wc) = gen_rt (acT_cr π lt0) (acL_cr π ps) (acT_cr π gt0) (acT_cr π wc) := by
  unfold gen_rt
  rw [acT_o_rt π _ _ (by decide), acL_cons_cr, acL_cons_cr, acL_cons_cr, acL_cons_cr, acL_nil_cr, acT_list_cr]
theorem acT_gen_inv_rt {π : Renaming} {t lt0' gt0' wc' : T} {ps' : List T}
    (h : acT_cr π t = gen_rt lt0' ps' gt0' wc') : ∃ lt0 ps gt0 wc, t = gen_rt lt0 ps gt0 wc := by
  unfold gen_rt at h
  obtain ⟨ks, rfl, e⟩ := acT_inv5_rt (by decide) h
  obtain ⟨lt0, ts, rfl, _, e2⟩ := acL_eq_cons_cr e.symm
  obtain ⟨l, ts2, rfl, el, e3⟩ := acL_eq_cons_cr e2
  obtain ⟨gt0, ts3, rfl, _, e4⟩ := acL_eq_cons_cr e3
  obtain ⟨wc, ts4, rfl, _, e5⟩ := acL_eq_cons_cr e4
  cases acL_eq_nil_cr e5
  obtain ⟨ps, rfl, _⟩ := acT_inv5_rt (by decide) el
  exact ⟨lt0, ps, gt0, wc, rfl⟩

theorem acL_map_renameDecl_rt (π ρ : Renaming) (ps : List T) :
    acL_cr π (ps.map (renameDecl ρ)) = (acL_cr π ps).map (renameDecl ρ) := by
  rw [acL_map_cr, acL_map_cr, List.map_map, List.map_map]
  exact List.map_congr_left (fun p _ => acT_renameDecl_rt π ρ p)

theorem acT_renameGenerics_rt (π ρ : Renaming) (t : T) :
    acT_cr π (renameGenerics ρ t) = renameGenerics ρ (acT_cr π t) := by
  by_cases h1 : ∃ lt0 ps gt0 wc, t = gen_rt lt0 ps gt0 wc
  · obtain ⟨lt0, ps, gt0, wc, rfl⟩ := h1
    rw [renameGenerics_gen_rt, acT_gen_rt, acT_gen_rt, renameGenerics_gen_rt, acL_map_renameDecl_rt]
  rw [renameGenerics_other_rt ρ (fun lt0 ps gt0 wc e => h1 ⟨lt0, ps, gt0, wc, e⟩), renameGenerics_other_rt ρ]
  intro lt0 ps gt0 wc e
  exact h1 (acT_gen_inv_rt e)

def impl_rt (a d u g tr sf items : T) : T := .node "ItemImpl" [] [a, d, u, g, tr, sf, items]

theorem renameImplDecls_impl_rt (ρ : Renaming) (a d u g tr sf items : T) :
    renameImplDecls ρ (impl_rt a d u g tr sf items) = impl_rt a d u (renameGenerics ρ g) tr sf items := by
  unfold renameImplDecls impl_rt; rfl
theorem renameImplDecls_other_rt (ρ : Renaming) {t : T} (h : ∀ a d u g tr sf items, t ≠ impl_rt a d u g tr sf items) :
    renameImplDecls ρ t = t := by
  unfold renameImplDecls
  split
  · next a d u g tr sf items => exact absurd rfl (h a d u g tr sf items)
  · rfl
theorem acT_impl_rt (π : Renaming) (a d u g tr sf items : T) :
    acT_cr π (impl_rt a d u g tr sf items) =
      impl_rt (acT_cr π a) (acT_cr π d) (acT_cr π u) (acT_cr π g) (acT_cr π tr) (acT_cr π sf) (acT_cr π items) := by
  unfold impl_rt
  rw [acT_o_rt π _ _ (by decide), acL_cons_cr, acL_cons_cr, acL_cons_cr, acL_cons_cr, acL_cons_cr, acL_cons_cr, acL_cons_cr,
    acL_nil_cr]
theorem acT_impl_inv_rt {π : Renaming} {t a' d' u' g' tr' sf' items' : T}
    (h : acT_cr π t = impl_rt a' d' u' g' tr' sf' items') : ∃ a d u g tr sf items, t = impl_rt a d u g tr sf items := by
  unfold impl_rt at h
  obtain ⟨ks, rfl, e⟩ := acT_inv5_rt (by decide) h
  obtain ⟨a, ts, rfl, _, e2⟩ := acL_eq_cons_cr e.symm
  obtain ⟨d, ts2, rfl, _, e3⟩ := acL_eq_cons_cr e2
  obtain ⟨u, ts3, rfl, _, e4⟩ := acL_eq_cons_cr e3
  obtain ⟨g, ts4, rfl, _, e5⟩ := acL_eq_cons_cr e4
  obtain ⟨tr, ts5, rfl, _, e6⟩ := acL_eq_cons_cr e5
  obtain ⟨sf, ts6, rfl, _, e7⟩ := acL_eq_cons_cr e6
  obtain ⟨items, ts7, rfl, _, e8⟩ := acL_eq_cons_cr e7
  cases acL_eq_nil_cr e8
  exact ⟨a, d, u, g, tr, sf, items, rfl⟩

/-- **the textual renaming of the occurrences commutes with the respelling of the declarations** (any two renamings, any
    tree: the declared names are `Ident` leaves, which the renaming of the occurrences neither reads nor writes) -/
theorem acT_renameImplDecls_rt (π ρ : Renaming) (t : T) :
    acT_cr π (renameImplDecls ρ t) = renameImplDecls ρ (acT_cr π t) := by
  by_cases h1 : ∃ a d u g tr sf items, t = impl_rt a d u g tr sf items
  · obtain ⟨a, d, u, g, tr, sf, items, rfl⟩ := h1
    rw [renameImplDecls_impl_rt, acT_impl_rt, acT_impl_rt, renameImplDecls_impl_rt, acT_renameGenerics_rt]
  rw [renameImplDecls_other_rt ρ (fun a d u g tr sf items e => h1 ⟨a, d, u, g, tr, sf, items, e⟩),
    renameImplDecls_other_rt ρ]
  intro a d u g tr sf items e
  exact h1 (acT_impl_inv_rt e)

/-! ### Shapes: `acOK_rt` -/

theorem acOK_typePath_rt (r : Renaming) (as : List String) (q p : T) :
    acOK_rt r (.node "Type::Path" as [q, p]) = (acOK_rt r q && acOK_rt r p &&
      (match firstSegIdent p with
       | some x => freshOr_rt r.ty x && (!((rlookup r.ty x).isSome && lonePath_cr q p) || as.isEmpty)
       | none => true)) := by
  rw [acOK_rt]; cases firstSegIdent p <;> rfl
theorem acOK_exprPath_rt (r : Renaming) (as : List String) (a q p : T) :
    acOK_rt r (.node "Expr::Path" as [a, q, p]) = (acOK_rt r a && acOK_rt r q && acOK_rt r p &&
      (match firstSegIdent p with
       | some x => freshOrEx_rt r x &&
           (!(((rlookup r.ty x).isSome || (rlookup r.co x).isSome) && lonePath_cr q p) || (as.isEmpty && a == emptyAttrs_rt))
       | none => true)) := by
  rw [acOK_rt]; cases firstSegIdent p <;> rfl

theorem acOK_of_other_rt (r : Renaming) {k : String} (as : List String) {ks : List T} (h : NodeOther k ks) :
    acOK_rt r (.node k as ks) = acOKL_rt r ks := by
  obtain ⟨h1, h2, h3, h4, h5⟩ := h
  unfold acOK_rt
  split
  · next heq => cases heq
  · next heq => cases heq
  · next heq => cases heq; exact absurd rfl h1
  · next heq => cases heq; exact absurd rfl h2
  · next x heq => cases heq; exact absurd ⟨rfl, rfl⟩ (h3 x)
  · next q p heq => cases heq; exact absurd ⟨rfl, rfl⟩ (h4 q p)
  · next a q p heq => cases heq; exact absurd ⟨rfl, rfl⟩ (h5 a q p)
  · next heq => cases heq; rfl

theorem acOK_o_rt (r : Renaming) {k : String} (as : List String) (ks : List T) (h : Oth5 k) :
    acOK_rt r (.node k as ks) = acOKL_rt r ks := acOK_of_other_rt r as (nodeOther_of5 ks h)
theorem acOKL_nil_rt (r : Renaming) : acOKL_rt r [] = true := by rw [acOKL_rt]
theorem acOKL_cons_rt (r : Renaming) (t : T) (ts : List T) : acOKL_rt r (t :: ts) = (acOK_rt r t && acOKL_rt r ts) := by
  rw [acOKL_rt]
theorem acOKL_iff_rt {r : Renaming} : ∀ {ks : List T}, acOKL_rt r ks = true ↔ ∀ t ∈ ks, acOK_rt r t = true
  | [] => by simp [acOKL_rt]
  | t :: ts => by simp [acOKL_rt, acOKL_iff_rt (ks := ts)]
theorem acOK_identLeaf_rt (r : Renaming) (x : String) : acOK_rt r (.node "Ident" [x] []) = true := by
  rw [acOK_o_rt r _ _ (by decide), acOKL_nil_rt]

theorem acOK_tyDecl_rt (r : Renaming) (a : T) (x : String) (rest : List T) :
    acOK_rt r (tyDecl_rt a x rest) = (acOK_rt r a && acOKL_rt r rest) := by
  unfold tyDecl_rt
  rw [acOK_o_rt r _ _ (by decide), acOKL_cons_rt, acOKL_nil_rt, acOK_o_rt r _ _ (by decide), acOKL_cons_rt, acOKL_cons_rt,
    acOK_identLeaf_rt, Bool.and_true, Bool.true_and]
theorem acOK_coDecl_rt (r : Renaming) (a : T) (x : String) (rest : List T) :
    acOK_rt r (coDecl_rt a x rest) = (acOK_rt r a && acOKL_rt r rest) := by
  unfold coDecl_rt
  rw [acOK_o_rt r _ _ (by decide), acOKL_cons_rt, acOKL_nil_rt, acOK_o_rt r _ _ (by decide), acOKL_cons_rt, acOKL_cons_rt,
    acOK_identLeaf_rt, Bool.and_true, Bool.true_and]

theorem renameDecl_acOK_rt (r ρ : Renaming) (t : T) : acOK_rt r (renameDecl ρ t) = acOK_rt r t := by
  by_cases h1 : ∃ a x rest, t = tyDecl_rt a x rest
  · obtain ⟨a, x, rest, rfl⟩ := h1
    rw [renameDecl_ty_rt, acOK_tyDecl_rt, acOK_tyDecl_rt]
  by_cases h2 : ∃ a x rest, t = coDecl_rt a x rest
  · obtain ⟨a, x, rest, rfl⟩ := h2
    rw [renameDecl_co_rt, acOK_coDecl_rt, acOK_coDecl_rt]
  rw [renameDecl_other_rt ρ (fun a x rest e => h1 ⟨a, x, rest, e⟩) (fun a x rest e => h2 ⟨a, x, rest, e⟩)]

theorem renameDecls_acOKL_rt (r ρ : Renaming) : ∀ ps : List T, acOKL_rt r (ps.map (renameDecl ρ)) = acOKL_rt r ps
  | [] => rfl
  | p :: ps => by rw [List.map_cons, acOKL_cons_rt, acOKL_cons_rt, renameDecl_acOK_rt, renameDecls_acOKL_rt r ρ ps]

theorem acOK_gen_rt (r : Renaming) (lt0 : T) (ps : List T) (gt0 wc : T) :
    acOK_rt r (gen_rt lt0 ps gt0 wc) = (acOK_rt r lt0 && (acOKL_rt r ps && (acOK_rt r gt0 && (acOK_rt r wc && true)))) := by
  unfold gen_rt
  rw [acOK_o_rt r _ _ (by decide), acOKL_cons_rt, acOKL_cons_rt, acOKL_cons_rt, acOKL_cons_rt, acOKL_nil_rt,
    acOK_o_rt r _ _ (by decide)]

theorem renameGenerics_acOK_rt (r ρ : Renaming) (t : T) : acOK_rt r (renameGenerics ρ t) = acOK_rt r t := by
  by_cases h1 : ∃ lt0 ps gt0 wc, t = gen_rt lt0 ps gt0 wc
  · obtain ⟨lt0, ps, gt0, wc, rfl⟩ := h1
    rw [renameGenerics_gen_rt, acOK_gen_rt, acOK_gen_rt, renameDecls_acOKL_rt]
  rw [renameGenerics_other_rt ρ (fun lt0 ps gt0 wc e => h1 ⟨lt0, ps, gt0, wc, e⟩)]

theorem acOK_impl_rt (r : Renaming) (a d u g tr sf items : T) :
    acOK_rt r (impl_rt a d u g tr sf items) = (acOK_rt r a && (acOK_rt r d && (acOK_rt r u && (acOK_rt r g &&
      (acOK_rt r tr && (acOK_rt r sf && (acOK_rt r items && true))))))) := by
  unfold impl_rt
  rw [acOK_o_rt r _ _ (by decide), acOKL_cons_rt, acOKL_cons_rt, acOKL_cons_rt, acOKL_cons_rt, acOKL_cons_rt, acOKL_cons_rt,
    acOKL_cons_rt, acOKL_nil_rt]

/-- the tree condition does not read the declared names -/
theorem renameImplDecls_acOK_rt (r ρ : Renaming) (t : T) : acOK_rt r (renameImplDecls ρ t) = acOK_rt r t := by
  by_cases h1 : ∃ a d u g tr sf items, t = impl_rt a d u g tr sf items
  · obtain ⟨a, d, u, g, tr, sf, items, rfl⟩ := h1
    rw [renameImplDecls_impl_rt, acOK_impl_rt, acOK_impl_rt, renameGenerics_acOK_rt]
  rw [renameImplDecls_other_rt ρ (fun a d u g tr sf items e => h1 ⟨a, d, u, g, tr, sf, items, e⟩)]

/-! ### Names: composition and inverse -/

theorem rlookup_mapSnd_rt (f : String → String) (x : String) : ∀ m : List (String × String),
    rlookup (m.map (fun p => (p.1, f p.2))) x = (rlookup m x).map f
  | [] => rfl
  | (a, b) :: m => by
      simp only [List.map_cons, rlookup]
      split
      · rfl
      · exact rlookup_mapSnd_rt f x m

theorem notNew_notin_rt {m : List (String × String)} {x : String} (h : notNew_rt m x = true) : x ∉ m.map Prod.snd := by
  simpa [notNew_rt] using h

/-- `μ` is defined exactly on the new names of `m`: a name that `m` renames goes to `μ (m x)`, a name that `m` leaves
    alone and that is not a new name of `m` is left alone by `μ` -/
theorem rn_comp_rt {m μ : List (String × String)} (hd : μ.map Prod.fst = m.map Prod.snd) {x : String}
    (h : freshOr_rt m x = true) : rn μ (rn m x) = rn (m.map (fun p => (p.1, rn μ p.2))) x := by
  show rn μ (rn m x) = (rlookup (m.map (fun p => (p.1, rn μ p.2))) x).getD x
  rw [rlookup_mapSnd_rt]
  cases hl : rlookup m x with
  | some v =>
    have e : rn m x = v := by unfold rn; rw [hl]; rfl
    rw [e]; rfl
  | none =>
    have e : rn m x = x := by unfold rn; rw [hl]; rfl
    unfold freshOr_rt at h
    rw [hl] at h
    rw [e]
    show rn μ x = x
    unfold rn
    rw [rlookup_none_of_notin (by rw [hd]; exact notNew_notin_rt (by simpa using h))]
    rfl

theorem comp_ty_rt (r ρ : Renaming) : (r.comp_rt ρ).ty = r.ty.map (fun p => (p.1, rn ρ.ty p.2)) := rfl
theorem comp_co_rt (r ρ : Renaming) : (r.comp_rt ρ).co = r.co.map (fun p => (p.1, rn ρ.co p.2)) := rfl
theorem comp_lt_rt (r ρ : Renaming) : (r.comp_rt ρ).lt = r.lt.map (fun p => (p.1, rn ρ.lt p.2)) := rfl

/-! ### The declarations: composition -/

theorem declFresh_ty_rt (r : Renaming) (a : T) (x : String) (rest : List T) :
    declFresh_rt r (tyDecl_rt a x rest) = freshOr_rt r.ty x := by unfold declFresh_rt tyDecl_rt; rfl
theorem declFresh_co_rt (r : Renaming) (a : T) (x : String) (rest : List T) :
    declFresh_rt r (coDecl_rt a x rest) = freshOr_rt r.co x := by unfold declFresh_rt coDecl_rt; rfl

theorem renameDecl_comp_rt (r ρ : Renaming) (hty : ρ.ty.map Prod.fst = r.ty.map Prod.snd)
    (hco : ρ.co.map Prod.fst = r.co.map Prod.snd) (t : T) (h : declFresh_rt r t = true) :
    renameDecl ρ (renameDecl r t) = renameDecl (r.comp_rt ρ) t := by
  by_cases h1 : ∃ a x rest, t = tyDecl_rt a x rest
  · obtain ⟨a, x, rest, rfl⟩ := h1
    rw [declFresh_ty_rt] at h
    rw [renameDecl_ty_rt, renameDecl_ty_rt, renameDecl_ty_rt, rn_comp_rt hty h, comp_ty_rt]
  by_cases h2 : ∃ a x rest, t = coDecl_rt a x rest
  · obtain ⟨a, x, rest, rfl⟩ := h2
    rw [declFresh_co_rt] at h
    rw [renameDecl_co_rt, renameDecl_co_rt, renameDecl_co_rt, rn_comp_rt hco h, comp_co_rt]
  rw [renameDecl_other_rt r (fun a x rest e => h1 ⟨a, x, rest, e⟩) (fun a x rest e => h2 ⟨a, x, rest, e⟩),
    renameDecl_other_rt ρ (fun a x rest e => h1 ⟨a, x, rest, e⟩) (fun a x rest e => h2 ⟨a, x, rest, e⟩),
    renameDecl_other_rt _ (fun a x rest e => h1 ⟨a, x, rest, e⟩) (fun a x rest e => h2 ⟨a, x, rest, e⟩)]

theorem implParams_impl_gen_rt (a d u lt0 : T) (ps : List T) (gt0 wc tr sf items : T) :
    implParams (impl_rt a d u (gen_rt lt0 ps gt0 wc) tr sf items) = ps := rfl

/-- respelling the declarations by `r` and then by `ρ` is respelling them by `r ; ρ` -/
theorem renameImplDecls_comp_rt (r ρ : Renaming) (hty : ρ.ty.map Prod.fst = r.ty.map Prod.snd)
    (hco : ρ.co.map Prod.fst = r.co.map Prod.snd) (item : T) (h : declsFresh_rt r item = true) :
    renameImplDecls ρ (renameImplDecls r item) = renameImplDecls (r.comp_rt ρ) item := by
  by_cases h1 : ∃ a d u g tr sf items, item = impl_rt a d u g tr sf items
  · obtain ⟨a, d, u, g, tr, sf, items, rfl⟩ := h1
    rw [renameImplDecls_impl_rt, renameImplDecls_impl_rt, renameImplDecls_impl_rt]
    by_cases h2 : ∃ lt0 ps gt0 wc, g = gen_rt lt0 ps gt0 wc
    · obtain ⟨lt0, ps, gt0, wc, rfl⟩ := h2
      unfold declsFresh_rt at h
      rw [implParams_impl_gen_rt, List.all_eq_true] at h
      rw [renameGenerics_gen_rt, renameGenerics_gen_rt, renameGenerics_gen_rt, List.map_map]
      congr 2
      exact List.map_congr_left (fun p hp => renameDecl_comp_rt r ρ hty hco p (h p hp))
    · rw [renameGenerics_other_rt r (fun lt0 ps gt0 wc e => h2 ⟨lt0, ps, gt0, wc, e⟩),
        renameGenerics_other_rt ρ (fun lt0 ps gt0 wc e => h2 ⟨lt0, ps, gt0, wc, e⟩),
        renameGenerics_other_rt _ (fun lt0 ps gt0 wc e => h2 ⟨lt0, ps, gt0, wc, e⟩)]
  · rw [renameImplDecls_other_rt r (fun a d u g tr sf items e => h1 ⟨a, d, u, g, tr, sf, items, e⟩),
      renameImplDecls_other_rt ρ (fun a d u g tr sf items e => h1 ⟨a, d, u, g, tr, sf, items, e⟩),
      renameImplDecls_other_rt _ (fun a d u g tr sf items e => h1 ⟨a, d, u, g, tr, sf, items, e⟩)]

/-! ### Paths with a first segment -/

def pathOf_rt (a : T) (x : String) (args : T) (rest : List T) : T :=
  .node "Path" [] [a, .node "List" [] (.node "PathSegment" [] [.node "Ident" [x] [], args] :: rest)]

theorem pathOf_of_firstSeg_rt {p : T} {x : String} (h : firstSegIdent p = some x) :
    ∃ a args rest, p = pathOf_rt a x args rest := path_of_firstSeg h
theorem mapHead_pathOf_rt (f : String → String) (a : T) (x : String) (args : T) (rest : List T) :
    mapHead f (pathOf_rt a x args rest) = pathOf_rt a (f x) args rest := rfl
theorem acT_pathOf_rt (π : Renaming) (a : T) (x : String) (args : T) (rest : List T) :
    acT_cr π (pathOf_rt a x args rest) = pathOf_rt (acT_cr π a) x (acT_cr π args) (acL_cr π rest) := by
  unfold pathOf_rt
  rw [acT_path_cr, acL_cons_cr, acL_cons_cr, acL_nil_cr, acT_list_cr, acL_cons_cr, acT_pathSegment_cr, acL_cons_cr,
    acL_cons_cr, acL_nil_cr, acT_identLeaf_cr]

theorem acT_mapHead_rt (π : Renaming) (f : String → String) (p : T) :
    acT_cr π (mapHead f p) = mapHead f (acT_cr π p) := by
  cases h : firstSegIdent p with
  | none => rw [mapHead_none f h, mapHead_none f (by rw [firstSegIdent_acT_cr, h])]
  | some x =>
    obtain ⟨a, args, rest, rfl⟩ := pathOf_of_firstSeg_rt h
    rw [mapHead_pathOf_rt, acT_pathOf_rt, acT_pathOf_rt, mapHead_pathOf_rt]

theorem mapHead_mapHead_rt (f g : String → String) (p : T) :
    mapHead g (mapHead f p) = mapHead (fun x => g (f x)) p := by
  cases h : firstSegIdent p with
  | none => rw [mapHead_none f h, mapHead_none g h, mapHead_none _ h]
  | some x => obtain ⟨a, args, rest, rfl⟩ := pathOf_of_firstSeg_rt h; rfl

theorem mapHead_congr_rt {f g : String → String} {p : T} (h : ∀ x, firstSegIdent p = some x → f x = g x) :
    mapHead f p = mapHead g p := by
  cases hp : firstSegIdent p with
  | none => rw [mapHead_none f hp, mapHead_none g hp]
  | some x =>
    obtain ⟨a, args, rest, rfl⟩ := pathOf_of_firstSeg_rt hp
    rw [mapHead_pathOf_rt, mapHead_pathOf_rt, h x hp]

theorem plainHead_pathOf_rt (q a : T) (x : String) (args : T) (rest : List T) :
    plainHead q (pathOf_rt a x args rest) = (q == noneNode && (a == nohead && args == argsNone)) := by
  unfold plainHead pathOf_rt; rfl

theorem acT_beq_rt {π : Renaming} {c t : T} (hc : acT_cr π c = c) (hinv : acT_cr π t = c → t = c) :
    (acT_cr π t == c) = (t == c) := by
  rw [Bool.eq_iff_iff, beq_iff_eq, beq_iff_eq]
  exact ⟨hinv, fun e => by rw [e, hc]⟩

theorem acT_nohead_inv_rt {π : Renaming} {t : T} (h : acT_cr π t = nohead) : t = nohead := by
  unfold nohead at h ⊢
  obtain ⟨ks, rfl, e⟩ := acT_inv5_rt (by decide) h
  obtain ⟨n, ks2, rfl, e2, e3⟩ := acL_eq_cons_cr e.symm
  cases acL_eq_nil_cr e3
  cases acT_noneNode_inv_cr e2
  rfl
theorem acT_argsNone_inv_rt {π : Renaming} {t : T} (h : acT_cr π t = argsNone) : t = argsNone :=
  acT_leaf_inv_cr (by decide) (by decide) (by decide) (by decide) (by decide) h

theorem acL_isEmpty_rt (π : Renaming) (ks : List T) : (acL_cr π ks).isEmpty = ks.isEmpty := by
  cases ks with
  | nil => rw [acL_nil_cr]
  | cons t ts => rw [acL_cons_cr]; rfl

theorem plainHead_false_of_none_rt {q p : T} (h : firstSegIdent p = none) : plainHead q p = false := by
  cases hp : plainHead q p with
  | false => rfl
  | true =>
    obtain ⟨_, x, rest, rfl⟩ := plainHead_inv hp
    rw [firstSegIdent_plainPath] at h
    cases h

/-- respelling does not change whether a path is the bare identifier -/
theorem lonePath_acT_rt (π : Renaming) (f : String → String) (q p : T) :
    lonePath_cr (acT_cr π q) (mapHead f (acT_cr π p)) = lonePath_cr q p := by
  unfold lonePath_cr
  cases h : firstSegIdent p with
  | none =>
    rw [plainHead_false_of_none_rt h,
      plainHead_false_of_none_rt (by rw [firstSegIdent_mapHead, firstSegIdent_acT_cr, h]; rfl), Bool.false_and,
      Bool.false_and]
  | some x =>
    obtain ⟨a, args, rest, rfl⟩ := pathOf_of_firstSeg_rt h
    rw [acT_pathOf_rt, mapHead_pathOf_rt, plainHead_pathOf_rt, plainHead_pathOf_rt,
      acT_beq_rt (acT_noneNode_cr π) acT_noneNode_inv_cr, acT_beq_rt (acT_nohead_cr π) acT_nohead_inv_rt,
      acT_beq_rt (acT_argsNone_cr π) acT_argsNone_inv_rt]
    show (_ && (acL_cr π rest).isEmpty) = (_ && rest.isEmpty)
    rw [acL_isEmpty_rt]

theorem lonePath_inv_rt {q p : T} (h : lonePath_cr q p = true) : q = noneNode ∧ ∃ x, p = plainPath x [] := by
  unfold lonePath_cr at h
  simp only [Bool.and_eq_true] at h
  obtain ⟨rfl, x, rest, rfl⟩ := plainHead_inv h.1
  rw [restSegments_plainPath] at h
  cases rest with
  | nil => exact ⟨rfl, x, rfl⟩
  | cons _ _ => cases h.2

/-! ### When a lone path becomes a leaf -/

theorem convTy_notLone_rt (π : Renaming) {q p : T} (h : lonePath_cr q p = false) : convTy_cr π q p = none := by
  unfold convTy_cr
  split
  · split
    · simp [h]
    · rfl
  · rfl
theorem convTy_unrenamed_rt (π : Renaming) {q p : T} {x : String} (hf : firstSegIdent p = some x)
    (hl : rlookup π.ty x = none) : convTy_cr π q p = none := by
  unfold convTy_cr; rw [hf]; simp only [hl]
theorem convTy_noHead_rt (π : Renaming) {q p : T} (hf : firstSegIdent p = none) : convTy_cr π q p = none := by
  unfold convTy_cr; rw [hf]

theorem convEx_notLone_rt (π : Renaming) {q p : T} (h : lonePath_cr q p = false) : convEx_cr π q p = none := by
  unfold convEx_cr
  split
  · split
    · simp [h]
    · rfl
  · rfl
theorem convEx_unrenamed_rt (π : Renaming) {q p : T} {x : String} (hf : firstSegIdent p = some x)
    (hl : (rlookup π.ty x).or (rlookup π.co x) = none) : convEx_cr π q p = none := by
  unfold convEx_cr; rw [hf]; simp only [hl]
theorem convEx_noHead_rt (π : Renaming) {q p : T} (hf : firstSegIdent p = none) : convEx_cr π q p = none := by
  unfold convEx_cr; rw [hf]

/-- the bare identifier `x` in type position, respelled `z`, is the identifier `z` in decoder form -/
theorem acT_loneTy_rt (π : Renaming) {x z : String} (h : rlookup π.ty x = some z) :
    acT_cr π (.node "Type::Path" [] [noneNode, plainPath x []]) = mkTypeIdent z := by
  rw [acT_typePath_cr]
  by_cases hz : reserved_cr z = true
  · have hc : convTy_cr π noneNode (plainPath x []) = some z := by
      unfold convTy_cr lonePath_cr
      rw [firstSegIdent_plainPath]
      simp only [h, plainHead_plain_cr, restSegments_plainPath, hz, List.isEmpty_nil, Bool.and_self, if_true]
    rw [hc, mkTypeIdent_reserved_cr hz]
  · have hc : convTy_cr π noneNode (plainPath x []) = none := by
      unfold convTy_cr
      rw [firstSegIdent_plainPath]
      simp [h, hz]
    rw [hc]
    simp only
    rw [acT_noneNode_cr, acT_plainPath_cr, acL_nil_cr, mapHead_plainPath]
    have e : rn π.ty x = z := by unfold rn; rw [h]; rfl
    rw [e]
    unfold mkTypeIdent
    rw [if_neg (by simpa [reserved_cr] using hz)]
    rfl

/-- … in expression position -/
theorem acT_loneEx_rt (π : Renaming) {x z : String} (h : (rlookup π.ty x).or (rlookup π.co x) = some z) :
    acT_cr π (.node "Expr::Path" [] [emptyAttrs_rt, noneNode, plainPath x []]) = mkExprIdent_cr z := by
  rw [acT_exprPath_cr]
  by_cases hz : reserved_cr z = true
  · have hc : convEx_cr π noneNode (plainPath x []) = some z := by
      unfold convEx_cr lonePath_cr
      rw [firstSegIdent_plainPath]
      simp only [h, plainHead_plain_cr, restSegments_plainPath, hz, List.isEmpty_nil, Bool.and_self, if_true]
    rw [hc, mkExprIdent_reserved_cr hz]
  · have hc : convEx_cr π noneNode (plainPath x []) = none := by
      unfold convEx_cr
      rw [firstSegIdent_plainPath]
      simp [h, hz]
    rw [hc]
    simp only
    rw [acT_noneNode_cr, acT_plainPath_cr, acL_nil_cr, mapHead_plainPath]
    have e : exW π x = z := by unfold exW; rw [h]; rfl
    rw [e]
    unfold emptyAttrs_rt
    rw [acT_ign_cr]
    unfold mkExprIdent_cr
    rw [if_neg (by simpa [reserved_cr] using hz)]
    rfl

/-! ### Names under composition -/

/-- what the composition needs of the two renamings: the new names of `r` are reserved identifiers, `ρ` is defined
    exactly on them (per name space), and no name is new both for a type and for a const parameter -/
structure CompOK_rt (r ρ : Renaming) : Prop where
  res : r.reservedTargets_cr = true
  lt : ρ.lt.map Prod.fst = r.lt.map Prod.snd
  ty : ρ.ty.map Prod.fst = r.ty.map Prod.snd
  co : ρ.co.map Prod.fst = r.co.map Prod.snd
  disj : ∀ m ∈ r.co.map Prod.snd, m ∉ r.ty.map Prod.snd

theorem rlookup_some_of_key_rt {m : List (String × String)} {x : String} (h : x ∈ m.map Prod.fst) :
    ∃ v, rlookup m x = some v := by
  cases hl : rlookup m x with
  | some v => exact ⟨v, rfl⟩
  | none => exact absurd h (rlookup_none_notin hl)

theorem comp_lookup_some_rt {m μ : List (String × String)} (hd : μ.map Prod.fst = m.map Prod.snd) {x v : String}
    (hl : rlookup m x = some v) :
    ∃ z, rlookup μ v = some z ∧ rlookup (m.map (fun p => (p.1, rn μ p.2))) x = some z := by
  obtain ⟨z, hz⟩ := rlookup_some_of_key_rt (m := μ) (x := v)
    (by rw [hd]; exact List.mem_map.2 ⟨(x, v), rlookup_some_mem hl, rfl⟩)
  refine ⟨z, hz, ?_⟩
  rw [rlookup_mapSnd_rt, hl]
  show some (rn μ v) = some z
  unfold rn
  rw [hz]
  rfl

theorem comp_lookup_none_rt {m μ : List (String × String)} (hd : μ.map Prod.fst = m.map Prod.snd) {x : String}
    (hl : rlookup m x = none) (hf : notNew_rt m x = true) :
    rlookup μ x = none ∧ rlookup (m.map (fun p => (p.1, rn μ p.2))) x = none :=
  ⟨rlookup_none_of_notin (by rw [hd]; exact notNew_notin_rt hf), by rw [rlookup_mapSnd_rt, hl]; rfl⟩

theorem comp_ex_some_rt {r ρ : Renaming} (ok : CompOK_rt r ρ) {x m : String}
    (hl : (rlookup r.ty x).or (rlookup r.co x) = some m) :
    ∃ z, (rlookup ρ.ty m).or (rlookup ρ.co m) = some z ∧
      (rlookup (r.comp_rt ρ).ty x).or (rlookup (r.comp_rt ρ).co x) = some z := by
  cases h1 : rlookup r.ty x with
  | some m' =>
    rw [h1] at hl
    cases hl
    obtain ⟨z, hz, hπ⟩ := comp_lookup_some_rt ok.ty h1
    exact ⟨z, by rw [hz]; rfl, by rw [comp_ty_rt, hπ]; rfl⟩
  | none =>
    rw [h1, Option.none_or] at hl
    obtain ⟨z, hz, hπ⟩ := comp_lookup_some_rt ok.co hl
    have hm : rlookup ρ.ty m = none :=
      rlookup_none_of_notin (by rw [ok.ty]; exact ok.disj m (List.mem_map.2 ⟨(x, m), rlookup_some_mem hl, rfl⟩))
    refine ⟨z, by rw [hm, hz]; rfl, ?_⟩
    rw [comp_ty_rt, rlookup_mapSnd_rt, h1, comp_co_rt, hπ]
    rfl

theorem comp_ex_none_rt {r ρ : Renaming} (ok : CompOK_rt r ρ) {x : String}
    (hl : (rlookup r.ty x).or (rlookup r.co x) = none) (hf : freshOrEx_rt r x = true) :
    (rlookup ρ.ty x).or (rlookup ρ.co x) = none ∧
      (rlookup (r.comp_rt ρ).ty x).or (rlookup (r.comp_rt ρ).co x) = none := by
  have h1 : rlookup r.ty x = none := by
    cases h : rlookup r.ty x with
    | none => rfl
    | some v => rw [h] at hl; cases hl
  have h2 : rlookup r.co x = none := by rw [h1, Option.none_or] at hl; exact hl
  unfold freshOrEx_rt at hf
  rw [h1, h2] at hf
  simp only [Option.isSome_none, Bool.false_or, Bool.and_eq_true] at hf
  obtain ⟨a1, a2⟩ := comp_lookup_none_rt ok.ty h1 hf.1
  obtain ⟨b1, b2⟩ := comp_lookup_none_rt ok.co h2 hf.2
  exact ⟨by rw [a1, b1]; rfl, by rw [comp_ty_rt, a2, comp_co_rt, b2]; rfl⟩

/-- the new spelling in expression position composes -/
theorem exW_comp_rt {r ρ : Renaming} (ok : CompOK_rt r ρ) {x : String} (hf : freshOrEx_rt r x = true) :
    exW ρ (exW r x) = exW (r.comp_rt ρ) x := by
  cases hl : (rlookup r.ty x).or (rlookup r.co x) with
  | some m =>
    obtain ⟨z, h1, h2⟩ := comp_ex_some_rt ok hl
    have e : exW r x = m := by unfold exW; rw [hl]; rfl
    rw [e]
    unfold exW
    rw [h1, h2]
    rfl
  | none =>
    obtain ⟨h1, h2⟩ := comp_ex_none_rt ok hl hf
    have e : exW r x = x := by unfold exW; rw [hl]; rfl
    rw [e]
    unfold exW
    rw [h1, h2]

/-! ### The composition of two textual renamings -/

theorem reserved_ex_rt {r : Renaming} (hr : r.reservedTargets_cr = true) {x m : String}
    (hl : (rlookup r.ty x).or (rlookup r.co x) = some m) : reserved_cr m = true := by
  cases h1 : rlookup r.ty x with
  | some m' => rw [h1] at hl; cases hl; exact reservedTargets_ty_cr hr h1
  | none => rw [h1] at hl; exact reservedTargets_co_cr hr (by simpa using hl)

theorem or_isSome_rt {a b : Option String} {m : String} (h : a.or b = some m) : (a.isSome || b.isSome) = true := by
  cases a with
  | some _ => rfl
  | none => rw [Option.none_or] at h; rw [h]; rfl

theorem acL_comp_of_rt {r ρ : Renaming} : ∀ (ks : List T),
    (∀ t ∈ ks, acOK_rt r t = true → acT_cr ρ (acT_cr r t) = acT_cr (r.comp_rt ρ) t) →
    acOKL_rt r ks = true → acL_cr ρ (acL_cr r ks) = acL_cr (r.comp_rt ρ) ks
  | [], _, _ => by rw [acL_nil_cr, acL_nil_cr, acL_nil_cr]
  | t :: ts, ih, h => by
      have h' := acOKL_iff_rt.1 h
      rw [acL_cons_cr, acL_cons_cr, acL_cons_cr, ih t (by simp) (h' t (by simp)),
        acL_comp_of_rt ts (fun t' ht' => ih t' (List.mem_cons_of_mem _ ht'))
          (acOKL_iff_rt.2 (fun t' ht' => h' t' (List.mem_cons_of_mem _ ht')))]

/-- **two textual renamings compose**: renaming by `r` and then by `ρ` (defined exactly on the new names of `r`) is
    renaming by `r ; ρ`, on a tree without capture whose lone parameter paths have neither atoms nor attributes -/
theorem acT_comp_rt {r ρ : Renaming} (ok : CompOK_rt r ρ) :
    ∀ t : T, acOK_rt r t = true → acT_cr ρ (acT_cr r t) = acT_cr (r.comp_rt ρ) t := by
  apply T.ind
  · intro n h
    rw [acOK_rt] at h
    rw [acT_tparam_cr r, acT_tparam_cr (r.comp_rt ρ)]
    cases hl : rlookup r.ty n with
    | some m =>
      obtain ⟨z, hz, hπ⟩ := comp_lookup_some_rt ok.ty hl
      simp only
      rw [mkTypeIdent_reserved_cr (reservedTargets_ty_cr ok.res hl), acT_tparam_cr, hz, comp_ty_rt, hπ]
    | none =>
      unfold freshOr_rt at h
      rw [hl] at h
      obtain ⟨h1, h2⟩ := comp_lookup_none_rt ok.ty hl (by simpa using h)
      simp only
      rw [acT_tparam_cr, h1, comp_ty_rt, h2]
  · intro n h
    rw [acOK_rt] at h
    rw [acT_eparam_cr r, acT_eparam_cr (r.comp_rt ρ)]
    cases hl : (rlookup r.ty n).or (rlookup r.co n) with
    | some m =>
      obtain ⟨z, hz, hπ⟩ := comp_ex_some_rt ok hl
      simp only
      rw [mkExprIdent_reserved_cr (reserved_ex_rt ok.res hl), acT_eparam_cr, hz, hπ]
    | none =>
      obtain ⟨h1, h2⟩ := comp_ex_none_rt ok hl h
      simp only
      rw [acT_eparam_cr, h1, h2]
  · intro k as ks ih hok
    rcases node_shape k ks with h | ⟨x, rfl, rfl⟩ | ⟨q, p, rfl, rfl⟩ | ⟨a, q, p, rfl, rfl⟩ | h
    · rcases h with rfl | rfl
      · rw [acT_ign_cr, acT_ign_cr, acT_ign_cr]
      · rw [acT_eq_cr, acT_eq_cr, acT_eq_cr]
    · rw [acOK_rt] at hok
      rw [acT_lifetime_cr, acT_lifetime_cr, acT_lifetime_cr, comp_lt_rt, rn_comp_rt ok.lt hok]
    · -- type paths
      rw [acOK_typePath_rt] at hok
      simp only [Bool.and_eq_true] at hok
      obtain ⟨⟨hq, hp⟩, hh⟩ := hok
      have ihq := ih q (by simp) hq
      have ihp := ih p (by simp) hp
      have general : convTy_cr r q p = none → convTy_cr ρ (acT_cr r q) (mapHead (rn r.ty) (acT_cr r p)) = none →
          convTy_cr (r.comp_rt ρ) q p = none →
          (∀ x, firstSegIdent p = some x → rn ρ.ty (rn r.ty x) = rn (r.comp_rt ρ).ty x) →
          acT_cr ρ (acT_cr r (.node "Type::Path" as [q, p])) = acT_cr (r.comp_rt ρ) (.node "Type::Path" as [q, p]) := by
        intro c1 c2 c3 hn
        rw [acT_typePath_cr r, c1]
        simp only
        rw [acT_typePath_cr ρ, c2]
        simp only
        rw [acT_typePath_cr (r.comp_rt ρ), c3]
        simp only
        rw [ihq, acT_mapHead_rt, ihp, mapHead_mapHead_rt,
          mapHead_congr_rt (f := fun x => rn ρ.ty (rn r.ty x)) (g := rn (r.comp_rt ρ).ty)
            (fun x hx => hn x (by rwa [firstSegIdent_acT_cr] at hx))]
      cases hf : firstSegIdent p with
      | none =>
        exact general (convTy_noHead_rt r hf)
          (convTy_noHead_rt ρ (by rw [firstSegIdent_mapHead, firstSegIdent_acT_cr, hf]; rfl)) (convTy_noHead_rt _ hf)
          (fun x hx => by rw [hf] at hx; cases hx)
      | some x =>
        rw [hf] at hh
        simp only [Bool.and_eq_true] at hh
        obtain ⟨hfr, hat⟩ := hh
        have hn : ∀ y, firstSegIdent p = some y → rn ρ.ty (rn r.ty y) = rn (r.comp_rt ρ).ty y := by
          intro y hy
          rw [hf] at hy
          cases hy
          rw [comp_ty_rt]
          exact rn_comp_rt ok.ty hfr
        by_cases hl : lonePath_cr q p = true
        · obtain ⟨rfl, x', rfl⟩ := lonePath_inv_rt hl
          cases (by simpa [firstSegIdent_plainPath] using hf : x' = x)
          cases hlk : rlookup r.ty x with
          | some m =>
            have has : as = [] := by
              rw [hlk, hl] at hat
              simpa using hat
            subst has
            obtain ⟨z, hz, hπ⟩ := comp_lookup_some_rt ok.ty hlk
            rw [acT_loneTy_rt r hlk, mkTypeIdent_reserved_cr (reservedTargets_ty_cr ok.res hlk), acT_tparam_cr, hz]
            simp only
            rw [acT_loneTy_rt (r.comp_rt ρ) (by rw [comp_ty_rt]; exact hπ)]
          | none =>
            unfold freshOr_rt at hfr
            rw [hlk] at hfr
            obtain ⟨h1, h2⟩ := comp_lookup_none_rt ok.ty hlk (by simpa using hfr)
            refine general (convTy_unrenamed_rt r hf hlk) (convTy_unrenamed_rt ρ (x := x) ?_ h1)
              (convTy_unrenamed_rt _ hf (by rw [comp_ty_rt]; exact h2)) hn
            rw [firstSegIdent_mapHead, firstSegIdent_acT_cr, hf]
            show some (rn r.ty x) = some x
            unfold rn
            rw [hlk]
            rfl
        · have hl' : lonePath_cr q p = false := by simpa using hl
          exact general (convTy_notLone_rt r hl') (convTy_notLone_rt ρ (by rw [lonePath_acT_rt]; exact hl'))
            (convTy_notLone_rt _ hl') hn
    · -- expression paths
      rw [acOK_exprPath_rt] at hok
      simp only [Bool.and_eq_true] at hok
      obtain ⟨⟨⟨ha, hq⟩, hp⟩, hh⟩ := hok
      have iha := ih a (by simp) ha
      have ihq := ih q (by simp) hq
      have ihp := ih p (by simp) hp
      have general : convEx_cr r q p = none → convEx_cr ρ (acT_cr r q) (mapHead (exW r) (acT_cr r p)) = none →
          convEx_cr (r.comp_rt ρ) q p = none →
          (∀ x, firstSegIdent p = some x → exW ρ (exW r x) = exW (r.comp_rt ρ) x) →
          acT_cr ρ (acT_cr r (.node "Expr::Path" as [a, q, p])) = acT_cr (r.comp_rt ρ) (.node "Expr::Path" as [a, q, p]) := by
        intro c1 c2 c3 hn
        rw [acT_exprPath_cr r, c1]
        simp only
        rw [acT_exprPath_cr ρ, c2]
        simp only
        rw [acT_exprPath_cr (r.comp_rt ρ), c3]
        simp only
        rw [iha, ihq, acT_mapHead_rt, ihp, mapHead_mapHead_rt,
          mapHead_congr_rt (f := fun x => exW ρ (exW r x)) (g := exW (r.comp_rt ρ))
            (fun x hx => hn x (by rwa [firstSegIdent_acT_cr] at hx))]
      cases hf : firstSegIdent p with
      | none =>
        exact general (convEx_noHead_rt r hf)
          (convEx_noHead_rt ρ (by rw [firstSegIdent_mapHead, firstSegIdent_acT_cr, hf]; rfl)) (convEx_noHead_rt _ hf)
          (fun x hx => by rw [hf] at hx; cases hx)
      | some x =>
        rw [hf] at hh
        simp only [Bool.and_eq_true] at hh
        obtain ⟨hfr, hat⟩ := hh
        have hn : ∀ y, firstSegIdent p = some y → exW ρ (exW r y) = exW (r.comp_rt ρ) y := by
          intro y hy
          rw [hf] at hy
          cases hy
          exact exW_comp_rt ok hfr
        by_cases hl : lonePath_cr q p = true
        · obtain ⟨rfl, x', rfl⟩ := lonePath_inv_rt hl
          cases (by simpa [firstSegIdent_plainPath] using hf : x' = x)
          cases hlk : (rlookup r.ty x).or (rlookup r.co x) with
          | some m =>
            have has : as = [] ∧ a = emptyAttrs_rt := by
              rw [or_isSome_rt hlk, hl] at hat
              simpa using hat
            obtain ⟨rfl, rfl⟩ := has
            obtain ⟨z, hz, hπ⟩ := comp_ex_some_rt ok hlk
            rw [acT_loneEx_rt r hlk, mkExprIdent_reserved_cr (reserved_ex_rt ok.res hlk), acT_eparam_cr, hz]
            simp only
            rw [acT_loneEx_rt (r.comp_rt ρ) hπ]
          | none =>
            obtain ⟨h1, h2⟩ := comp_ex_none_rt ok hlk hfr
            refine general (convEx_unrenamed_rt r hf hlk) (convEx_unrenamed_rt ρ (x := x) ?_ h1)
              (convEx_unrenamed_rt _ hf h2) hn
            rw [firstSegIdent_mapHead, firstSegIdent_acT_cr, hf]
            show some (exW r x) = some x
            unfold exW
            rw [hlk]
            rfl
        · have hl' : lonePath_cr q p = false := by simpa using hl
          exact general (convEx_notLone_rt r hl') (convEx_notLone_rt ρ (by rw [lonePath_acT_rt]; exact hl'))
            (convEx_notLone_rt _ hl') hn
    · rw [acOK_of_other_rt r as h] at hok
      rw [acT_of_other_cr r as h, acT_of_other_cr ρ as (nodeOther_acL_cr r h), acT_of_other_cr _ as h,
        acL_comp_of_rt ks ih hok]

/-! ### An identity renaming changes nothing on a tree in decoder normal form -/

theorem isId_parts_rt {π : Renaming} (h : π.isId = true) : idMap π.lt = true ∧ idMap π.ty = true ∧ idMap π.co = true := by
  simp only [Renaming.isId, Bool.and_eq_true] at h
  exact ⟨h.1.1, h.1.2, h.2⟩

theorem rn_idMap_rt {m : List (String × String)} (h : idMap m = true) (x : String) : rn m x = x := getD_idMap h x

theorem exL_idMap_rt {π : Renaming} (hid : π.isId = true) {x m : String}
    (hl : (rlookup π.ty x).or (rlookup π.co x) = some m) : m = x := by
  obtain ⟨_, hty, hco⟩ := isId_parts_rt hid
  cases h1 : rlookup π.ty x with
  | some m' => rw [h1] at hl; cases hl; exact rlookup_idMap hty h1
  | none => rw [h1, Option.none_or] at hl; exact rlookup_idMap hco hl

theorem exW_idMap_rt {π : Renaming} (hid : π.isId = true) (x : String) : exW π x = x := by
  unfold exW
  cases hl : (rlookup π.ty x).or (rlookup π.co x) with
  | some m => rw [exL_idMap_rt hid hl]; rfl
  | none => rfl

theorem acL_id_of_rt {π : Renaming} : ∀ (ks : List T),
    (∀ t ∈ ks, decNF_cr t = true → acT_cr π t = t) → decNFL_cr ks = true → acL_cr π ks = ks
  | [], _, _ => by rw [acL_nil_cr]
  | t :: ts, ih, h => by
      have h' := decNFL_iff_cr.1 h
      rw [acL_cons_cr, ih t (by simp) (h' t (by simp)),
        acL_id_of_rt ts (fun t' ht' => ih t' (List.mem_cons_of_mem _ ht'))
          (decNFL_iff_cr.2 (fun t' ht' => h' t' (List.mem_cons_of_mem _ ht')))]

/-- an identity renaming changes nothing on a tree in decoder normal form (a reserved leaf stays a leaf, a lone ordinary
    path stays a path) -/
theorem acT_id_rt (π : Renaming) (hid : π.isId = true) : ∀ t : T, decNF_cr t = true → acT_cr π t = t := by
  obtain ⟨hlt, hty, hco⟩ := isId_parts_rt hid
  apply T.ind
  · intro n h
    rw [decNF_cr] at h
    rw [acT_tparam_cr]
    cases hl : rlookup π.ty n with
    | some m =>
      simp only
      cases rlookup_idMap hty hl
      exact mkTypeIdent_reserved_cr h
    | none => rfl
  · intro n h
    rw [decNF_cr] at h
    rw [acT_eparam_cr]
    cases hl : (rlookup π.ty n).or (rlookup π.co n) with
    | some m =>
      simp only
      cases exL_idMap_rt hid hl
      exact mkExprIdent_reserved_cr h
    | none => rfl
  · intro k as ks ih hok
    rcases node_shape k ks with h | ⟨x, rfl, rfl⟩ | ⟨q, p, rfl, rfl⟩ | ⟨a, q, p, rfl, rfl⟩ | h
    · rcases h with rfl | rfl
      · rw [acT_ign_cr]
      · rw [acT_eq_cr]
    · rw [acT_lifetime_cr, rn_idMap_rt hlt]
    · rw [decNF_typePath_cr] at hok
      simp only [Bool.and_eq_true] at hok
      obtain ⟨⟨hq, hp⟩, hh⟩ := hok
      have hc : convTy_cr π q p = none := by
        cases hfs : firstSegIdent p with
        | none => exact convTy_noHead_rt π hfs
        | some x =>
          rw [hfs] at hh
          cases hl : rlookup π.ty x with
          | none => exact convTy_unrenamed_rt π hfs hl
          | some m =>
            cases rlookup_idMap hty hl
            unfold convTy_cr
            rw [hfs]
            simp only [hl]
            rw [if_neg]
            intro hc
            simp only at hh
            rw [hc] at hh
            cases hh
      rw [acT_typePath_cr, hc]
      simp only
      rw [ih q (by simp) hq, ih p (by simp) hp, mapHead_id (fun y _ => rn_idMap_rt hty y)]
    · rw [decNF_exprPath_cr] at hok
      simp only [Bool.and_eq_true] at hok
      obtain ⟨⟨⟨ha, hq⟩, hp⟩, hh⟩ := hok
      have hc : convEx_cr π q p = none := by
        cases hfs : firstSegIdent p with
        | none => exact convEx_noHead_rt π hfs
        | some x =>
          rw [hfs] at hh
          cases hl : (rlookup π.ty x).or (rlookup π.co x) with
          | none => exact convEx_unrenamed_rt π hfs hl
          | some m =>
            cases exL_idMap_rt hid hl
            unfold convEx_cr
            rw [hfs]
            simp only [hl]
            rw [if_neg]
            intro hc
            simp only at hh
            rw [hc] at hh
            cases hh
      rw [acT_exprPath_cr, hc]
      simp only
      rw [ih a (by simp) ha, ih q (by simp) hq, ih p (by simp) hp, mapHead_id (fun y _ => exW_idMap_rt hid y)]
    · rw [decNF_of_other_cr as h] at hok
      rw [acT_of_other_cr π as h, acL_id_of_rt ks ih hok]

/-! ### The inverse renaming -/

theorem swapPairs_fst_rt (m : List (String × String)) : (swapPairs_rt m).map Prod.fst = m.map Prod.snd := by
  simp [swapPairs_rt, List.map_map, Function.comp_def]

theorem rn_swap_rt {m : List (String × String)} (hn : (m.map Prod.snd).Nodup) {x v : String} (h : (x, v) ∈ m) :
    rn (swapPairs_rt m) v = x := by
  obtain ⟨x', hx'⟩ := rlookup_some_of_key_rt (m := swapPairs_rt m) (x := v)
    (by rw [swapPairs_fst_rt]; exact List.mem_map.2 ⟨(x, v), h, rfl⟩)
  have hm := rlookup_some_mem hx'
  unfold swapPairs_rt at hm
  obtain ⟨⟨y, w⟩, hp, e⟩ := List.mem_map.1 hm
  simp only [Prod.mk.injEq] at e
  obtain ⟨rfl, rfl⟩ := e
  unfold rn
  rw [hx']
  exact snd_nodup_inj hn hp h

theorem idMap_comp_swap_rt {m : List (String × String)} (hn : (m.map Prod.snd).Nodup) :
    idMap (m.map (fun p => (p.1, rn (swapPairs_rt m) p.2))) = true := by
  simp only [idMap, List.all_map, List.all_eq_true, Function.comp_apply, beq_iff_eq]
  intro p hp
  exact (rn_swap_rt hn (x := p.1) (v := p.2) hp).symm

/-- what is needed of `r` for `r⁻¹` to undo it: the new names are reserved identifiers, pairwise distinct per name space
    (lifetimes / types and consts) -/
structure InvOK_rt (r : Renaming) : Prop where
  res : r.reservedTargets_cr = true
  lt : (r.lt.map Prod.snd).Nodup
  tyco : ((r.ty ++ r.co).map Prod.snd).Nodup

theorem InvOK_rt.parts {r : Renaming} (h : InvOK_rt r) :
    (r.ty.map Prod.snd).Nodup ∧ (r.co.map Prod.snd).Nodup ∧ ∀ m ∈ r.co.map Prod.snd, m ∉ r.ty.map Prod.snd := by
  have := h.tyco
  rw [List.map_append, List.nodup_append] at this
  exact ⟨this.1, this.2.1, fun m hm hm' => this.2.2 m hm' m hm rfl⟩

theorem comp_inv_isId_rt {r : Renaming} (h : InvOK_rt r) : (r.comp_rt r.inv_rt).isId = true := by
  obtain ⟨hty, hco, _⟩ := h.parts
  simp only [Renaming.isId, Bool.and_eq_true]
  exact ⟨⟨idMap_comp_swap_rt h.lt, idMap_comp_swap_rt hty⟩, idMap_comp_swap_rt hco⟩

/-- `ρ⁻¹` is defined exactly on the new names of `r` when `ρ` and `r` hand out the same names -/
theorem compOK_inv_rt {r ρ : Renaming} (h : InvOK_rt r) (elt : ρ.lt.map Prod.snd = r.lt.map Prod.snd)
    (ety : ρ.ty.map Prod.snd = r.ty.map Prod.snd) (eco : ρ.co.map Prod.snd = r.co.map Prod.snd) :
    CompOK_rt r ρ.inv_rt :=
  ⟨h.res, by rw [← elt]; exact swapPairs_fst_rt _, by rw [← ety]; exact swapPairs_fst_rt _,
    by rw [← eco]; exact swapPairs_fst_rt _, h.parts.2.2⟩

/-- the renaming the indexer computes is invertible -/
theorem renaming_invOK_rt (item : T) : InvOK_rt (indexImpl item).renaming := by
  obtain ⟨h1, _, _⟩ := indexImpl_idxInv item
  have hr := renaming_new_names (indexImpl item)
  have hn : (((indexImpl item).renaming.lt ++ (indexImpl item).renaming.ty ++ (indexImpl item).renaming.co).map Prod.snd).Nodup := by
    rw [hr]
    exact List.Pairwise.map genIndexedIdent (fun a b hab e => hab (genIndexedIdent_inj e)) h1
  rw [List.append_assoc, List.map_append, List.nodup_append] at hn
  exact ⟨renaming_reservedTargets_cr _, hn.1, hn.2.1⟩

/-- renaming a tree by `r` and then by `r⁻¹` gives the tree back -/
theorem acT_inv_rt {r : Renaming} (hr : InvOK_rt r) (t : T) (h1 : acOK_rt r t = true) (h3 : decNF_cr t = true) :
    acT_cr r.inv_rt (acT_cr r t) = t := by
  rw [acT_comp_rt (compOK_inv_rt hr rfl rfl rfl) t h1, acT_id_rt _ (comp_inv_isId_rt hr) _ h3]

/-! ### The block level -/

/-- renaming the block by `r` and then by `ρ` is renaming it by `r ; ρ` -/
theorem alphaRenameC_comp_rt {r ρ : Renaming} (ok : CompOK_rt r ρ) (item : T) (h1 : acOK_rt r item = true)
    (h2 : declsFresh_rt r item = true) :
    alphaRenameC_cr ρ (alphaRenameC_cr r item) = alphaRenameC_cr (r.comp_rt ρ) item := by
  unfold alphaRenameC_cr
  rw [← acT_renameImplDecls_rt r ρ, renameImplDecls_comp_rt r ρ ok.ty ok.co item h2,
    acT_comp_rt ok _ (by rw [renameImplDecls_acOK_rt]; exact h1)]

/-- renaming the block by `r` and then by `r⁻¹` gives the block back -/
theorem alphaRenameC_inv_rt {r : Renaming} (hr : InvOK_rt r) (item : T) (h1 : acOK_rt r item = true)
    (h2 : declsFresh_rt r item = true) (h3 : decNF_cr item = true) :
    alphaRenameC_cr r.inv_rt (alphaRenameC_cr r item) = item := by
  rw [alphaRenameC_comp_rt (compOK_inv_rt hr rfl rfl rfl) item h1 h2]
  unfold alphaRenameC_cr
  rw [renameImplDecls_id _ (comp_inv_isId_rt hr), acT_id_rt _ (comp_inv_isId_rt hr) _ h3]

/-! ### `canonWF` gives the no-capture conditions -/

theorem loneOK_typePath_rt (r : Renaming) (as : List String) (q p : T) :
    loneOK_rt r (.node "Type::Path" as [q, p]) = (loneOK_rt r q && loneOK_rt r p &&
      (match firstSegIdent p with
       | some x => !((rlookup r.ty x).isSome && lonePath_cr q p) || as.isEmpty
       | none => true)) := by
  rw [loneOK_rt]; cases firstSegIdent p <;> rfl
theorem loneOK_exprPath_rt (r : Renaming) (as : List String) (a q p : T) :
    loneOK_rt r (.node "Expr::Path" as [a, q, p]) = (loneOK_rt r a && loneOK_rt r q && loneOK_rt r p &&
      (match firstSegIdent p with
       | some x => !(((rlookup r.ty x).isSome || (rlookup r.co x).isSome) && lonePath_cr q p) || (as.isEmpty && a == emptyAttrs_rt)
       | none => true)) := by
  rw [loneOK_rt]; cases firstSegIdent p <;> rfl

theorem loneOK_of_other_rt (r : Renaming) {k : String} (as : List String) {ks : List T} (h : NodeOther k ks) :
    loneOK_rt r (.node k as ks) = loneOKL_rt r ks := by
  obtain ⟨h1, h2, h3, h4, h5⟩ := h
  unfold loneOK_rt
  split
  · next heq => cases heq
  · next heq => cases heq
  · next heq => cases heq; exact absurd rfl h1
  · next heq => cases heq; exact absurd rfl h2
  · next x heq => cases heq; exact absurd ⟨rfl, rfl⟩ (h3 x)
  · next q p heq => cases heq; exact absurd ⟨rfl, rfl⟩ (h4 q p)
  · next a q p heq => cases heq; exact absurd ⟨rfl, rfl⟩ (h5 a q p)
  · next heq => cases heq; rfl

theorem loneOKL_iff_rt {r : Renaming} : ∀ {ks : List T}, loneOKL_rt r ks = true ↔ ∀ t ∈ ks, loneOK_rt r t = true
  | [] => by simp [loneOKL_rt]
  | t :: ts => by simp [loneOKL_rt, loneOKL_iff_rt (ks := ts)]

/-- a declared name of a kind of the same name space that no map renames is not a new name -/
theorem stat_fresh_decl_rt {c : CCtx} (st : Stat c) {k k' : PK} (hns : k.ns = k'.ns)
    (hn : ((c.m k).map Prod.fst).Nodup) {x : String} (hx : x ∈ c.D k') (hl' : rlookup (c.m k') x = none)
    (hl : rlookup (c.m k) x = none) : x ∉ (c.m k).map Prod.snd := by
  intro hm
  obtain ⟨⟨y, x'⟩, hp, e⟩ := List.mem_map.1 hm
  cases (show x' = x from e)
  have hly : rlookup (c.m k) y = some x := rlookup_of_mem_nodup hn hp
  have hy : y ∈ c.D k := st.dom k y x hly
  have hρ : c.ρ k y = x := by unfold CCtx.ρ rn; rw [hly]; rfl
  have hρx : c.ρ k' x = x := by unfold CCtx.ρ rn; rw [hl']; rfl
  have := st.inj k k' hns y x hy hx (by rw [hρ, hρx])
  subst this
  rw [hl] at hly
  cases hly

/-- a name that is not the new spelling of a declared parameter is not a new name -/
theorem stat_fresh_img_rt {c : CCtx} (st : Stat c) {k : PK} (hn : ((c.m k).map Prod.fst).Nodup) {x : String}
    (hx : x ∉ (c.D k).map (c.ρ k)) : x ∉ (c.m k).map Prod.snd := by
  intro hm
  obtain ⟨⟨y, x'⟩, hp, e⟩ := List.mem_map.1 hm
  cases (show x' = x from e)
  have hly : rlookup (c.m k) y = some x := rlookup_of_mem_nodup hn hp
  have hy : y ∈ c.D k := st.dom k y x hly
  have hρ : c.ρ k y = x := by unfold CCtx.ρ rn; rw [hly]; rfl
  exact hx (List.mem_map.2 ⟨y, hy, hρ⟩)

theorem notNew_of_notin_rt {m : List (String × String)} {x : String} (h : x ∉ m.map Prod.snd) : notNew_rt m x = true := by
  simpa [notNew_rt] using h

theorem freshOr_of_ok_rt {c : CCtx} (st : Stat c) (k : PK) (hn : ((c.m k).map Prod.fst).Nodup) {x : String}
    (hok : ((c.D k).contains x || !(((c.D k).map (c.ρ k)).contains x)) = true) : freshOr_rt (c.m k) x = true := by
  unfold freshOr_rt
  cases hl : rlookup (c.m k) x with
  | some v => rfl
  | none =>
    simp only [Option.isSome_none, Bool.false_or]
    apply notNew_of_notin_rt
    simp only [Bool.or_eq_true, List.contains_iff_mem, Bool.not_eq_true', ← Bool.not_eq_true] at hok
    rcases hok with hx | hx
    · exact stat_fresh_decl_rt st rfl hn hx hl hl
    · exact stat_fresh_img_rt st hn hx

theorem freshOrEx_of_ok_rt {c : CCtx} (st : Stat c) (hn : ∀ k, ((c.m k).map Prod.fst).Nodup) {x : String}
    (hok : okEx c x = true) : freshOrEx_rt c.r x = true := by
  unfold freshOrEx_rt
  cases h1 : rlookup c.r.ty x with
  | some v => rfl
  | none =>
    cases h2 : rlookup c.r.co x with
    | some v => rfl
    | none =>
      simp only [Option.isSome_none, Bool.false_or, Bool.and_eq_true]
      simp only [okEx, Bool.or_eq_true, Bool.and_eq_true, List.contains_iff_mem, Bool.not_eq_true', ← Bool.not_eq_true] at hok
      rcases hok with (hx | hx) | hx
      · exact ⟨notNew_of_notin_rt (stat_fresh_decl_rt (k := .ty) (k' := .ty) st rfl (hn .ty) hx h1 h1),
          notNew_of_notin_rt (stat_fresh_decl_rt (k := .co) (k' := .ty) st rfl (hn .co) hx h1 h2)⟩
      · exact ⟨notNew_of_notin_rt (stat_fresh_decl_rt (k := .ty) (k' := .co) st rfl (hn .ty) hx h2 h1),
          notNew_of_notin_rt (stat_fresh_decl_rt (k := .co) (k' := .co) st rfl (hn .co) hx h2 h2)⟩
      · exact ⟨notNew_of_notin_rt (stat_fresh_img_rt (k := .ty) st (hn .ty) hx.1),
          notNew_of_notin_rt (stat_fresh_img_rt (k := .co) st (hn .co) hx.2)⟩

/-- **the no-capture part of `acOK_rt` follows from the tree clause of `canonWF`** -/
theorem acOK_of_rsOK_rt (c : CCtx) (st : Stat c) (hn : ∀ k, ((c.m k).map Prod.fst).Nodup) :
    ∀ t : T, rsOK c t = true → loneOK_rt c.r t = true → acOK_rt c.r t = true := by
  apply T.ind
  · intro n h _
    rw [rsOK] at h
    rw [acOK_rt]
    exact freshOr_of_ok_rt st .ty (hn .ty) h
  · intro n h _
    rw [rsOK] at h
    rw [acOK_rt]
    exact freshOrEx_of_ok_rt st hn h
  · intro k as ks ih hok hlo
    rcases node_shape k ks with h | ⟨x, rfl, rfl⟩ | ⟨q, p, rfl, rfl⟩ | ⟨a, q, p, rfl, rfl⟩ | h
    · rcases h with rfl | rfl <;> rw [acOK_rt]
    · rw [rsOK] at hok
      rw [acOK_rt]
      exact freshOr_of_ok_rt st .lt (hn .lt) hok
    · obtain ⟨hq, hp, hx⟩ := rsOK_typePath_inv hok
      rw [loneOK_typePath_rt] at hlo
      simp only [Bool.and_eq_true] at hlo
      obtain ⟨⟨lq, lp⟩, lh⟩ := hlo
      rw [acOK_typePath_rt, ih q (by simp) hq lq, ih p (by simp) hp lp]
      simp only [Bool.true_and]
      cases hf : firstSegIdent p with
      | none => rfl
      | some x =>
        rw [hf] at lh
        have h1 : freshOr_rt c.r.ty x = true := freshOr_of_ok_rt st .ty (hn .ty) (hx x hf).1
        simp only at lh ⊢
        rw [h1, Bool.true_and]
        exact lh
    · obtain ⟨ha, hq, hp, hx⟩ := rsOK_exprPath_inv hok
      rw [loneOK_exprPath_rt] at hlo
      simp only [Bool.and_eq_true] at hlo
      obtain ⟨⟨⟨la, lq⟩, lp⟩, lh⟩ := hlo
      rw [acOK_exprPath_rt, ih a (by simp) ha la, ih q (by simp) hq lq, ih p (by simp) hp lp]
      simp only [Bool.true_and]
      cases hf : firstSegIdent p with
      | none => rfl
      | some x =>
        rw [hf] at lh
        have h1 : freshOrEx_rt c.r x = true := freshOrEx_of_ok_rt st hn (hx x hf).1
        simp only at lh ⊢
        rw [h1, Bool.true_and]
        exact lh
    · rw [rsOK_of_other c as h] at hok
      rw [loneOK_of_other_rt c.r as h] at hlo
      rw [acOK_of_other_rt c.r as h, acOKL_iff_rt]
      intro t ht
      exact ih t ht (rsOKL_iff.1 hok t ht) (loneOKL_iff_rt.1 hlo t ht)

theorem canonWF_keys_nodup_all_rt (item : T) (hd : namesDistinct (canonCtx item) = true) :
    ∀ k, (((canonCtx item).m k).map Prod.fst).Nodup := by
  have hnd : (canonCtx item).dLt.Nodup ∧ ((canonCtx item).dTy ++ (canonCtx item).dCo).Nodup := by
    simpa [namesDistinct] using hd
  rw [List.nodup_append] at hnd
  have hinv : IxInv (indexImpl item) := indexImpl_inv item hnd.1 hnd.2.1 hnd.2.2.1
  intro k
  have e : ((canonCtx item).m k).map Prod.fst = ((indexImpl item).ix k).map Prod.fst := by
    rw [canonCtx_m]
    simp [List.map_map, Function.comp_def]
  rw [e]
  cases k
  · exact (List.nodup_append.1 hinv.2.1).1
  · exact (List.nodup_append.1 hinv.2.2.1).1
  · exact (List.nodup_append.1 hinv.2.2.2).1

theorem declFresh_other_rt (r : Renaming) {t : T} (h1 : ∀ a x rest, t ≠ tyDecl_rt a x rest)
    (h2 : ∀ a x rest, t ≠ coDecl_rt a x rest) : declFresh_rt r t = true := by
  unfold declFresh_rt
  split
  · next a x rest => exact absurd rfl (h1 a x rest)
  · next a x rest => exact absurd rfl (h2 a x rest)
  · rfl

theorem kindSel_tyDecl_rt (a : T) (x : String) (rest : List T) :
    kindSel "GenericParam::Type" (tyDecl_rt a x rest) = some x := by
  simp [kindSel, tyDecl_rt, paramIdent]
theorem kindSel_coDecl_rt (a : T) (x : String) (rest : List T) :
    kindSel "GenericParam::Const" (coDecl_rt a x rest) = some x := by
  simp [kindSel, coDecl_rt, paramIdent]

/-- **`canonWF` gives the no-capture conditions of the composition**: `acOK_rt` (given its shape part `loneOK_rt`) and
    `declsFresh_rt` for the computed renaming -/
theorem acOK_of_canonWF_rt (item : T) (h : canonWF item = true) :
    (loneOK_rt (indexImpl item).renaming item = true → acOK_rt (indexImpl item).renaming item = true) ∧
    declsFresh_rt (indexImpl item).renaming item = true := by
  simp only [canonWF, Bool.and_eq_true] at h
  obtain ⟨⟨⟨_, hd⟩, hf⟩, hok⟩ := h
  have st := canon_stat item hd hf
  have hn := canonWF_keys_nodup_all_rt item hd
  refine ⟨fun hl => acOK_of_rsOK_rt (canonCtx item) st hn item hok hl, ?_⟩
  unfold declsFresh_rt
  rw [List.all_eq_true]
  intro p hp
  by_cases h1 : ∃ a x rest, p = tyDecl_rt a x rest
  · obtain ⟨a, x, rest, rfl⟩ := h1
    rw [declFresh_ty_rt]
    have hx : x ∈ (canonCtx item).D .ty := by
      show x ∈ kindNames _ "GenericParam::Type"
      rw [kindNames_eq]
      exact List.mem_filterMap.2 ⟨_, hp, kindSel_tyDecl_rt a x rest⟩
    exact freshOr_of_ok_rt st .ty (hn .ty) (by rw [Bool.or_eq_true, List.contains_iff_mem]; exact Or.inl hx)
  by_cases h2 : ∃ a x rest, p = coDecl_rt a x rest
  · obtain ⟨a, x, rest, rfl⟩ := h2
    rw [declFresh_co_rt]
    have hx : x ∈ (canonCtx item).D .co := by
      show x ∈ kindNames _ "GenericParam::Const"
      rw [kindNames_eq]
      exact List.mem_filterMap.2 ⟨_, hp, kindSel_coDecl_rt a x rest⟩
    exact freshOr_of_ok_rt st .co (hn .co) (by rw [Bool.or_eq_true, List.contains_iff_mem]; exact Or.inl hx)
  exact declFresh_other_rt _ (fun a x rest e => h1 ⟨a, x, rest, e⟩) (fun a x rest e => h2 ⟨a, x, rest, e⟩)

theorem roundTripOK_parts_rt {item : T} (h : roundTripOK_rt item = true) :
    canonWF item = true ∧ decNF_cr item = true ∧ acOK_rt (indexImpl item).renaming item = true ∧
    declsFresh_rt (indexImpl item).renaming item = true ∧
    qsInvOK_rt (indexImpl item).renaming.tyNames_cr.contains (alphaRenameC_cr (indexImpl item).renaming item) = true := by
  simp only [roundTripOK_rt, Bool.and_eq_true] at h
  obtain ⟨h1, h2⟩ := acOK_of_canonWF_rt item h.1.1.1
  exact ⟨h.1.1.1, h.1.1.2, h1 h.1.2, h2, h.2⟩

/-- undoing the presentation change on the canonical block gives the textual renaming of the block -/
theorem unqself_canon_rt (item : T) (h : roundTripOK_rt item = true) :
    unqself_rt (indexImpl item).renaming (canon item) = alphaRenameC_cr (indexImpl item).renaming item := by
  obtain ⟨hwf, _, _, _, hqs⟩ := roundTripOK_parts_rt h
  rw [canon_is_renaming_cr item hwf]
  exact unqs_qs_rt _ _ hqs

/-- **the round trip**: the block is recovered from its canonical form and the computed renaming -/
theorem round_trip_rt (item : T) (h : roundTripOK_rt item = true) :
    alphaRenameC_cr (indexImpl item).renaming.inv_rt (unqself_rt (indexImpl item).renaming (canon item)) = item := by
  obtain ⟨_, hnf, hac, hdf, _⟩ := roundTripOK_parts_rt h
  rw [unqself_canon_rt item h]
  exact alphaRenameC_inv_rt (renaming_invOK_rt item) item hac hdf hnf

/-! ### Equal canonical blocks -/

/-- the canonical block carries the names handed out, in the order of the numbering -/
theorem canon_names_rt (item : T) (h : canonWF item = true) :
    (indexImpl (canon item)).renaming.lt.map Prod.snd = (indexImpl item).renaming.lt.map Prod.snd ∧
    (indexImpl (canon item)).renaming.ty.map Prod.snd = (indexImpl item).renaming.ty.map Prod.snd ∧
    (indexImpl (canon item)).renaming.co.map Prod.snd = (indexImpl item).renaming.co.map Prod.snd := by
  rw [canonWF_indexImpl_comm item h]
  simp [IxState.renaming, mapS, List.map_map, Function.comp_def]

/-- **equal canonical blocks come from blocks that are textual renamings of each other**, by the computed renaming
    `r ; r'⁻¹` -/
theorem same_canon_only_if_renaming_rt (item item' : T) (h : roundTripOK_rt item = true) (h' : roundTripOK_rt item' = true)
    (e : canon item = canon item') : alphaRenameC_cr (renamingBetween_rt item item') item = item' := by
  obtain ⟨hwf, _, hac, hdf, _⟩ := roundTripOK_parts_rt h
  obtain ⟨hwf', _, _, _, _⟩ := roundTripOK_parts_rt h'
  obtain ⟨n1, n2, n3⟩ := canon_names_rt item hwf
  obtain ⟨n1', n2', n3'⟩ := canon_names_rt item' hwf'
  rw [e] at n1 n2 n3
  have elt := n1'.symm.trans n1
  have ety := n2'.symm.trans n2
  have eco := n3'.symm.trans n3
  have rt' := round_trip_rt item' h'
  have eu : unqself_rt (indexImpl item').renaming = unqself_rt (indexImpl item).renaming := by
    unfold unqself_rt Renaming.tyNames_cr
    rw [ety]
  rw [← e, eu, unqself_canon_rt item h] at rt'
  rw [alphaRenameC_comp_rt (compOK_inv_rt (renaming_invOK_rt item) elt ety eco) item hac hdf] at rt'
  exact rt'

/-! ### Equal resolved trees (the form the grouping uses for trait path and self type) -/

/-- **two trees resolved to the same tree by two renamings that hand out the same names are textual renamings of each
    other** (tree level: applies to the trait paths and the self types of two blocks with the same canonical header) -/
theorem same_resolved_only_if_renaming_rt {r r' : Renaming} (hr : InvOK_rt r) (hr' : InvOK_rt r')
    (elt : r'.lt.map Prod.snd = r.lt.map Prod.snd) (ety : r'.ty.map Prod.snd = r.ty.map Prod.snd)
    (eco : r'.co.map Prod.snd = r.co.map Prod.snd) (t t' : T)
    (h1 : renOK_cr r.tyNames_cr.contains r t = true) (h1' : renOK_cr r'.tyNames_cr.contains r' t' = true)
    (h2 : qsInvOK_rt r.tyNames_cr.contains (acT_cr r t) = true)
    (h2' : qsInvOK_rt r'.tyNames_cr.contains (acT_cr r' t') = true)
    (h3 : acOK_rt r t = true) (h3' : acOK_rt r' t' = true) (h4' : decNF_cr t' = true)
    (e : rsT r t = rsT r' t') : acT_cr (r.comp_rt r'.inv_rt) t = t' := by
  have en : r'.tyNames_cr = r.tyNames_cr := ety
  rw [rsT_is_renaming_cr _ r hr.res t h1, rsT_is_renaming_cr _ r' hr'.res t' h1', en] at e
  rw [en] at h2'
  have e2 := congrArg (unqsT_rt r.tyNames_cr.contains) e
  rw [unqs_qs_rt _ _ h2, unqs_qs_rt _ _ h2'] at e2
  rw [← acT_comp_rt (compOK_inv_rt hr elt ety eco) t h3, e2]
  exact acT_inv_rt hr' t' h3' h4'

end DI
