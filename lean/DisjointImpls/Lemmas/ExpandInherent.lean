/-
  Inherent mode of the generators (`Props/C17.lean`): the helper trait derived from the first block
  (`helperTraitOfInherent`), the helper impls (`helperImpls` with the generated helper path) and the main inherent
  impl (`mainImplInherent`) of `Expand.lean` produce the abstract program — the counterpart of
  `Lemmas/ExpandLemmas.lean` (trait mode). Core-only.

  Every new top-level name carries the suffix `_inh`.
-/
import DisjointImpls.Lemmas.ExpandLemmas
import DisjointImpls.Lemmas.CanonLemmas
namespace DI

open XOK

/-! ### paths built by the generators -/

theorem lastSegOf_pathNode_inh (lc : T) (xs : List T) (l : T) : lastSegOf (pathNode lc (xs ++ [l])) = some l := by
  simp [lastSegOf, pathNode, tList, pathSegments]

theorem initSegsOf_pathNode_inh (lc : T) (xs : List T) (l : T) : initSegsOf (pathNode lc (xs ++ [l])) = xs := by
  simp [initSegsOf, pathNode, tList, pathSegments]

theorem pathLead_pathNode_inh (lc : T) (segs : List T) : pathLead (pathNode lc segs) = lc := by
  simp [pathLead, pathNode, tList]

/-- the arguments `gen_inherent_self_ty_args` prints: the sorted lifetimes, then the sorted other parameters -/
def inhArgs_inh (generics : T) : List T :=
  (sortStr (lifetimeParamIdents generics)).map lifetimeArg ++
    (sortStr (otherParamIdents generics)).map (fun x => gaType (mkTypeIdent x))

/-- `inherentSelfTy` read back: same qualified self, same leading segments, the last segment keeps its identifier and
    gets the arguments `inhArgs_inh` -/
theorem inherentSelfTy_inv_inh {st gen r : T} (h : inherentSelfTy st gen = some r) :
    ∃ q p id, st = .node "Type::Path" [] [q, p] ∧
      r = tyPath q (pathNode (pathLead p) (initSegsOf p ++ [.node "PathSegment" [] [id, angle (inhArgs_inh gen)]])) ∧
      (∃ a, lastSegOf p = some (.node "PathSegment" [] [id, a])) := by
  unfold inherentSelfTy at h
  split at h
  · next q p =>
    split at h
    · next l hl =>
      split at h
      · split at h
        · next id a _ =>
          cases h
          exact ⟨q, p, id, rfl, rfl, a, hl⟩
        · cases h
      · cases h
    · cases h
  · cases h

theorem segArgList_angle_inh (id : T) (args : List T) :
    segArgList (.node "PathSegment" [] [id, angle args]) = some args := by
  simp [segArgList, angle, tList, ignNone]

/-- the helper-trait reference of the main inherent impl of a family whose first block has self-type identifier `x`
    and generics `gen` -/
def inhHref_inh (x : String) (idx : Nat) (abg : ABG) (gen : T) : T :=
  helperRef (genIdentStr x idx) abg.idents (inhArgs_inh gen)

/-- the generics of the first block as the generators of inherent mode read them (where-clause dropped) -/
def inhEg_inh (lt : T) (ps : List T) (gt : T) : T := .node "Generics" [] [lt, tList ps, gt, tNone]

/-- the state the indexer of the main impl starts from: the first block's parameters, none indexed -/
def inhIx0_inh (eg : T) : IxState :=
  ⟨kindNames eg "GenericParam::Lifetime", kindNames eg "GenericParam::Type", kindNames eg "GenericParam::Const", [], [], [], 0⟩

/-- the shape of a main inherent impl the generator returns -/
theorem mainImplInherent_ok_inv_inh {idx : Nat} {g : T × ABG × List Blk} {m : T}
    (h : mainImplInherent idx g = .ok (some m)) :
    ∃ first rest a d u lt ps gt wc tr q sp items x params finals,
      g.2.2 = first :: rest ∧
      first.item = .node "ItemImpl" [] [a, d, u, .node "Generics" [] [lt, tList ps, gt, wc], tr,
        .node "Type::Path" [] [q, sp], tList items] ∧
      lastSegIdentOf sp = some x ∧
      (inherentSelfTy (.node "Type::Path" [] [q, sp]) (inhEg_inh lt ps gt)).isSome = true ∧
      genAll (items.map (delegateImplItem (inhHref_inh x idx g.2.1 (inhEg_inh lt ps gt)))) = .ok finals ∧
      (∃ (s : IxState) (cps : List T), SameNames (inhIx0_inh (inhEg_inh lt ps gt)) s ∧
        allSome (s.ixCo.map (fun xi => newConstParam (inhEg_inh lt ps gt) xi.1)) = some cps ∧
        params = s.ixLt.map (fun xi => newLifetimeParam xi.1) ++ s.ixTy.map (fun xi => newTypeParam xi.1) ++ cps) ∧
      m = .node "ItemImpl" [] [a, d, u,
        .node "Generics" [] [lt, tList params, gt,
          mkWhere (assocBoundPredicates g.2.1 (inhHref_inh x idx g.2.1 (inhEg_inh lt ps gt)))],
        tr, .node "Type::Path" [] [q, sp], tList finals] := by
  unfold mainImplInherent at h
  split at h
  · cases h
  · next first rest hg =>
    split at h
    · next a d u lt ps gt wc tr st items hitem =>
      simp only at h
      split at h
      · next q sp =>
        split at h
        · next x q' argPath hx hst =>
          obtain ⟨q0, p0, id, hst0, hr, a0, hl0⟩ := inherentSelfTy_inv_inh hst
          cases hst0
          simp only [tyPath] at hr
          injection hr with _ _ hr
          injection hr with _ hr
          injection hr with hr _
          subst hr
          simp only [lastSegOf_pathNode_inh, segArgList_angle_inh, Option.getD_some] at h
          split at h
          · next cps finals hc hf =>
            cases h
            exact ⟨first, rest, a, d, u, lt, ps, gt, wc, tr, q, sp, items, x, _, finals, hg, hitem, hx,
              by rw [inhEg_inh, hst]; rfl, hf,
              ⟨_, cps, sameNames_rel.trans (ixT_rel sameNames_rel _ _)
                (ixL_rel sameNames_rel _ (fun t _ => ixT_rel sameNames_rel t) _), hc, rfl⟩, rfl⟩
          · cases h
          · cases h
          · cases h
        · cases h
        · cases h
      · cases h
    · cases h

/-! ### the main inherent impl passes `checkMain` -/

theorem checkMain_of_mainInherent_inh {idx : Nat} {g : T × ABG × List Blk} {m : T}
    (hm : mainImplInherent idx g = .ok (some m)) (hwf : expandWF g = true) :
    checkMain true g.1 (keysOf g.2.1.idents) m = true := by
  obtain ⟨first, rest, a, d, u, lt, ps, gt, wc, tr, q, sp, items, x, params, finals, hg, hitem, hx, hst, hf, hpar, rfl⟩ :=
    mainImplInherent_ok_inv_inh hm
  simp only [expandWF, Bool.and_eq_true, hg, List.all_eq_true, Bool.not_eq_true'] at hwf
  obtain ⟨⟨⟨_, _⟩, _⟩, hid⟩ := hwf
  have hw : ∀ kx ∈ g.2.1.idents, wfPath kx.1.2 = true := fun kx h => (hid kx h).1
  have hself : ∀ kx ∈ g.2.1.idents, isSelfTy kx.1.1 = false := fun kx h => (hid kx h).2
  generalize hhref : inhHref_inh x idx g.2.1 (inhEg_inh lt ps gt) = href
  have hhref' : href = helperRef (genIdentStr x idx) g.2.1.idents (inhArgs_inh (inhEg_inh lt ps gt)) := hhref.symm
  have hpreds : wherePredsOf (.node "Generics" [] [lt, tList params, gt, mkWhere (assocBoundPredicates g.2.1 href)]) =
      assocBoundPredicates g.2.1 href := by
    simp [wherePredsOf, mkWhere, tSome, tList, kid, kids, kind]
  have hsp : selfPred (assocBoundPredicates g.2.1 href) = some href := by
    have : assocBoundPredicates g.2.1 href = _ ++ [whereType selfTy [traitBoundOf href]] := rfl
    rw [this]
    exact selfPred_snoc _ _
  unfold checkMain
  simp only [Bool.true_or, Bool.true_and]
  have hk3 : kid (T.node "ItemImpl" [] [a, d, u,
      T.node "Generics" [] [lt, tList params, gt, mkWhere (assocBoundPredicates g.2.1 href)],
      tr, T.node "Type::Path" [] [q, sp], tList finals]) 3 =
      T.node "Generics" [] [lt, tList params, gt, mkWhere (assocBoundPredicates g.2.1 href)] := by
    simp [kid, kids]
  rw [hk3, hpreds, hsp]
  simp only [Bool.and_eq_true, List.all_eq_true]
  refine ⟨?_, ?_⟩
  · intro key hkey
    obtain ⟨kx, hkx, rfl⟩ := List.mem_map.1 hkey
    exact List.contains_iff_mem.2 (have_key g.2.1 _ hw hself kx hkx)
  · rw [hhref', selfArgs_helperRef]
    exact checkSelfArgs_projs _ _ (fun kx h => pathShaped_of_wfPath (hw kx h))

/-! ### the helper impls of inherent mode -/

def isImpl7_inh : T → Bool
  | .node "ItemImpl" [] [_, _, _, _, _, _, _] => true
  | _ => false

theorem isImpl7_inv_inh {t : T} (h : isImpl7_inh t = true) :
    ∃ a d u g tr s items, t = .node "ItemImpl" [] [a, d, u, g, tr, s, items] := by
  unfold isImpl7_inh at h
  split at h
  · next a d u g tr s items => exact ⟨a, d, u, g, tr, s, items, rfl⟩
  · cases h

theorem not_impl7_inh {t : T} (h : isImpl7_inh t = false) (f : T → T) (tr : T) :
    setImplTrait t tr = t ∧ mapImplItems f t = t ∧ implTraitPath t = none := by
  refine ⟨?_, ?_, ?_⟩
  · unfold setImplTrait
    split
    · simp [isImpl7_inh] at h
    · rfl
  · unfold mapImplItems
    split
    · simp [isImpl7_inh] at h
    · rfl
  · unfold implTraitPath
    split
    · simp [isImpl7_inh] at h
    · rfl

/-- the items of a member with every visibility removed (disjoint.rs:24-36) -/
def visErased_inh : T → T
  | .node "List" [] items => tList (items.map setVisInherited)
  | t => t

theorem mapImplItems_impl7_inh (a d u g tr s items : T) :
    mapImplItems setVisInherited (.node "ItemImpl" [] [a, d, u, g, tr, s, items]) =
      .node "ItemImpl" [] [a, d, u, g, tr, s, visErased_inh items] := by
  unfold mapImplItems visErased_inh
  split
  · next heq => injection heq with _ _ heq; simp only [List.cons.injEq, and_true] at heq
                obtain ⟨rfl, rfl, rfl, rfl, rfl, rfl, rfl⟩ := heq; rfl
  · next hne =>
    split
    · next l => exact absurd rfl (hne a d u g tr s l)
    · rfl

/-- a helper impl of inherent mode: the member with the helper trait as its trait — the SINGLE segment
    `_<last-segment identifier of the generated path><idx>` with no leading `::` and none of the path's leading segments
    (disjoint.rs: `*trait_ = path.clone().into()`), the row prepended to the last segment's arguments —, and the items'
    visibilities removed -/
theorem helperImpl_inherent_inv_inh {idx : Nat} {p0 id : T} {args0 : List T} {idents : List (BKey × String)}
    {row : List (Option T)} {member h : T}
    (hl : lastSegOf p0 = some (.node "PathSegment" [] [id, angle args0]))
    (hh : helperImpl idx (some p0) idents row member = some h) :
    ∃ x a d u g tr s items, id = .node "Ident" [x] [] ∧ member = .node "ItemImpl" [] [a, d, u, g, tr, s, items] ∧
      h = .node "ItemImpl" [] [a, d, u, g,
        tSome (.node "Tuple" [] [tNone, pathNode noLead
          [.node "PathSegment" [] [tIdent (genIdentStr x idx), angle (rowArgs idents row ++ args0)]]]),
        s, visErased_inh items] := by
  cases h7 : isImpl7_inh member with
  | false =>
    obtain ⟨e1, e2, e3⟩ := not_impl7_inh h7 setVisInherited p0
    unfold helperImpl at hh
    simp only [e1, e2, e3] at hh
    cases hh
  | true =>
    obtain ⟨a, d, u, g, tr, s, items, rfl⟩ := isImpl7_inv_inh h7
    unfold helperImpl at hh
    simp only [setImplTrait, mapImplItems_impl7_inh, implTraitPath, tSome, hl] at hh
    split at hh
    · next x args heq =>
      injection heq with heq
      injection heq with _ _ heq
      simp only [List.cons.injEq, and_true] at heq
      obtain ⟨rfl, rfl⟩ := heq
      simp only [angle, ignNone, tList] at hh
      cases hh
      exact ⟨x, a, d, u, g, tr, s, items, rfl, rfl, rfl⟩
    · cases hh

/-- the family is an inherent one: its first block has no trait path -/
def inherentFamily_inh (g : T × ABG × List Blk) : Bool :=
  match g.2.2 with
  | first :: _ => (implTraitPath first.item).isNone
  | [] => false

theorem typeAsPath_inv_inh {st p : T} (h : typeAsPath st = some p) : st = .node "Type::Path" [] [tNone, p] := by
  unfold typeAsPath at h
  split at h
  · cases h; rfl
  · cases h

/-- `helperImpls` in inherent mode, read back: the path handed to `helperImpl` is the first block's self-type path with the
    arguments `inhArgs_inh` on its last segment (leading segments and leading `::` as the user wrote them — `helperImpl`
    then uses its LAST segment only), and every member is passed through `helperImpl` with that path -/
theorem helperImpls_inherent_inv_inh {idx : Nat} {g : T × ABG × List Blk} {hs : List T} {first : Blk} {rest : List Blk}
    (hg : g.2.2 = first :: rest) (hnone : implTraitPath first.item = none) (hh : helperImpls idx g = some hs) :
    ∃ s gen p sid, implSelfTy first.item = some s ∧ implGenerics first.item = some gen ∧
      s = .node "Type::Path" [] [tNone, p] ∧
      (∃ a, lastSegOf p = some (.node "PathSegment" [] [sid, a])) ∧
      let p0 := pathNode (pathLead p) (initSegsOf p ++ [.node "PathSegment" [] [sid, angle (inhArgs_inh gen)]])
      ((List.zip (g.2.2.map (·.item)) g.2.1.payloads).map
          (fun mr => helperImpl idx (some p0) g.2.1.idents mr.2 mr.1)).all Option.isSome = true ∧
      hs = ((List.zip (g.2.2.map (·.item)) g.2.1.payloads).map
          (fun mr => helperImpl idx (some p0) g.2.1.idents mr.2 mr.1)).filterMap id := by
  unfold helperImpls at hh
  simp only [hg, List.map_cons, hnone, Option.isNone_none, if_true] at hh
  cases hs' : implSelfTy first.item with
  | none => rw [hs'] at hh; cases hh
  | some s =>
    cases hgen : implGenerics first.item with
    | none => rw [hs', hgen] at hh; cases hh
    | some gen =>
      rw [hs', hgen] at hh
      simp only at hh
      cases hst : inherentSelfTy s gen with
      | none => rw [hst] at hh; cases hh
      | some st =>
        rw [hst] at hh
        simp only at hh
        cases hp : typeAsPath st with
        | none => rw [hp] at hh; cases hh
        | some p0 =>
          rw [hp] at hh
          simp only at hh
          obtain ⟨q, p, sid, rfl, hr, a, hl⟩ := inherentSelfTy_inv_inh hst
          have := typeAsPath_inv_inh hp
          rw [hr] at this
          simp only [tyPath] at this
          injection this with _ _ this
          simp only [List.cons.injEq, and_true] at this
          obtain ⟨rfl, rfl⟩ := this
          split at hh
          · next hall =>
            cases hh
            exact ⟨_, gen, p, sid, rfl, rfl, rfl, ⟨a, hl⟩, by simpa [hg] using hall, by simp [hg]⟩
          · cases hh

/-- the per-member check of `ExpandOK` in inherent mode (generics, self type and safety qualifier of the member kept, a trait
    path present) holds of a generated helper impl -/
theorem checkHelper_inherent_inh {idx : Nat} {p0 sid : T} {args0 : List T} {idents : List (BKey × String)}
    {row : List (Option T)} {member h : T} (keys : List CKey) (θ : Subst)
    (hl : lastSegOf p0 = some (.node "PathSegment" [] [sid, angle args0]))
    (hh : helperImpl idx (some p0) idents row member = some h) :
    checkHelper true keys member h row θ = true := by
  obtain ⟨x, a, d, u, g, tr, s, items, rfl, rfl, rfl⟩ := helperImpl_inherent_inv_inh hl hh
  simp [checkHelper, traitPathOf, kid, kids, kind, tSome]

theorem checkHelpers_inherent_inh {idx : Nat} {p0 sid : T} {args0 : List T} (idents : List (BKey × String))
    (keys : List CKey) (hl : lastSegOf p0 = some (.node "PathSegment" [] [sid, angle args0])) :
    ∀ (ms : List T) (rows : List (List (Option T))) (thetas : List Subst),
      ms.length ≤ rows.length →
      ((List.zip ms rows).map (fun mr => helperImpl idx (some p0) idents mr.2 mr.1)).all Option.isSome = true →
      (((List.zip ms rows).map (fun mr => helperImpl idx (some p0) idents mr.2 mr.1)).filterMap id).length = ms.length ∧
      checkHelpers true keys ms
        (((List.zip ms rows).map (fun mr => helperImpl idx (some p0) idents mr.2 mr.1)).filterMap id) rows thetas = true
  | [], rows, thetas, _, _ => by simp [checkHelpers]
  | m :: ms, [], thetas, hlen, _ => by simp at hlen
  | m :: ms, r :: rows, thetas, hlen, hall => by
      simp only [List.zip_cons_cons, List.map_cons, List.all_cons, Bool.and_eq_true] at hall
      cases hh : helperImpl idx (some p0) idents r m with
      | none => rw [hh] at hall; simp at hall
      | some h =>
        obtain ⟨ih1, ih2⟩ := checkHelpers_inherent_inh idents keys hl ms rows thetas.tail (by simpa using hlen) hall.2
        simp only [List.zip_cons_cons, List.map_cons, hh, List.filterMap_cons, id, List.length_cons, ih1,
          checkHelpers, List.headD_cons, List.tail_cons, ih2, Bool.and_true, true_and]
        exact checkHelper_inherent_inh keys _ hl hh

/-- `ExpandOK` holds of the model's expansion in inherent mode -/
theorem expandOK_of_expand_inherent_inh (idx : Nat) (g : T × ABG × List Blk) (hs : List T) (m : T)
    (hh : helperImpls idx g = some hs) (hm : mainImplInherent idx g = .ok (some m))
    (hwf : expandWF g = true) (hinh : inherentFamily_inh g = true) :
    expandOKB g (thetasOf g) hs m = true := by
  have hmain := checkMain_of_mainInherent_inh hm hwf
  obtain ⟨first, rest, a, d, u, lt, ps, gt, wc, tr, q, sp, items, x, params, finals, hg, hitem, hx, hst, hf, hpar, rfl⟩ :=
    mainImplInherent_ok_inv_inh hm
  have hwf' := hwf
  simp only [expandWF, Bool.and_eq_true, hg, List.all_eq_true, Bool.not_eq_true', beq_iff_eq] at hwf'
  obtain ⟨⟨⟨hne, hal⟩, hgid⟩, hid⟩ := hwf'
  have hnone : implTraitPath first.item = none := by
    simp only [inherentFamily_inh, hg] at hinh
    cases hp : implTraitPath first.item with
    | none => rfl
    | some p => rw [hp] at hinh; cases hinh
  have hinhflag : (kind (kid g.1 0) == "None") = true := by
    rw [hgid]; simp [mkHdr, hnone, kid, kids, kind]
  have hplen : g.2.1.payloads.length = g.2.2.length := by
    rw [hg]; exact payloads_length g.2.1 _ hne (fun kr hkr => hal kr hkr)
  obtain ⟨s, gen, p, sid, _, _, _, ⟨a0, hl0⟩, hall, rfl⟩ := helperImpls_inherent_inv_inh hg hnone hh
  obtain ⟨hlen, hchk⟩ := checkHelpers_inherent_inh (idx := idx) g.2.1.idents (keysOf g.2.1.idents)
    (lastSegOf_pathNode_inh (pathLead p) (initSegsOf p) _) (g.2.2.map (·.item)) g.2.1.payloads (thetasOf g)
    (by rw [hplen]; simp) hall
  unfold expandOKB expandOKCore
  simp only [hinhflag, Bool.and_eq_true, beq_iff_eq]
  exact ⟨⟨hlen, hchk⟩, hmain⟩

/-! ### the items of the main inherent impl delegate to the helper trait (`ImplItemResolver`) -/

theorem genAll_ok_inv_inh {α : Type} : ∀ {l : List (Gen α)} {r : List α}, genAll l = .ok r →
    l = r.map Gen.ok
  | [], r, h => by simp [genAll] at h; subst h; rfl
  | .panic :: l, r, h => by simp [genAll] at h
  | .unmodelled :: l, r, h => by
      simp only [genAll] at h
      split at h <;> cases h
  | .ok a :: l, r, h => by
      simp only [genAll] at h
      split at h
      · next r' hr => cases h; simp [genAll_ok_inv_inh hr]
      · cases h
      · cases h

/-- everything of an item except its last child (the value of a const, the type of an associated type, the body of
    a function) is kept: attributes, visibility, defaultness, name, generics, type / signature -/
def itemKeeps_inh (it fin : T) : Bool :=
  kind fin == kind it && atoms fin == atoms it && (kids fin).length == (kids it).length &&
    (kids fin).dropLast == (kids it).dropLast

/-- the item is a const / type / function item of the shape `syn` produces -/
def itemShaped_inh : T → Bool
  | .node "ImplItem::Const" [] [_, _, _, _, _, _, _] => true
  | .node "ImplItem::Type" [] [_, _, _, _, _, _] => true
  | .node "ImplItem::Fn" [] [_, _, _, .node "Signature" [] [_, _, _, _, _, _, .node "List" [] _, _, _], _] => true
  | _ => false

/-- the last child of `fin` is the delegation of item `it` to `<Self as href>::name`: a path expression for a const,
    a path type for an associated type, the call `<Self as href>::name(args…)` with the parameter patterns re-read as
    expressions for a function -/
def delegatesTo_inh (href it fin : T) : Bool :=
  let body := lastOf (kids fin)
  if kind it == "ImplItem::Const" then
    body == .node "Expr::Path" [] [ignAttrs, (selfAsHelperPath href (kid it 3)).1, (selfAsHelperPath href (kid it 3)).2]
  else if kind it == "ImplItem::Type" then
    body == tyPath (selfAsHelperPath href (kid it 3)).1 (selfAsHelperPath href (kid it 3)).2
  else
    let sig := kid it 3
    match allSome ((kids (kid sig 6)).map fnArgAsExpr) with
    | some args =>
        body == .node "Block" [] [tList [.node "Stmt::Expr" [] [.node "Expr::Call" [] [ignAttrs,
          .node "Expr::Path" [] [ignAttrs, (selfAsHelperPath href (kid sig 4)).1, (selfAsHelperPath href (kid sig 4)).2],
          tList args], noLead]]]
    | none => false

theorem delegateImplItem_spec_inh {href it fin : T} (h : delegateImplItem href it = .ok fin) :
    itemKeeps_inh it fin = true ∧ (itemShaped_inh it = true → delegatesTo_inh href it fin = true) := by
  unfold delegateImplItem at h
  split at h
  · cases h
    simp [itemKeeps_inh, delegatesTo_inh, itemShaped_inh, kind, atoms, kids, kid, lastOf, selfAsHelperPath]
  · cases h
    simp [itemKeeps_inh, delegatesTo_inh, itemShaped_inh, kind, atoms, kids, kid, lastOf, selfAsHelperPath]
  · next a v d c as_ u abi id g inputs variadic out blk =>
    split at h
    · cases h
    · split at h
      · cases h
      · next args hargs =>
        cases h
        simp [itemKeeps_inh, delegatesTo_inh, itemShaped_inh, kind, atoms, kids, kid, lastOf, tList, hargs, selfAsHelperPath]
  · next h1 h2 h3 =>
    cases h
    refine ⟨by simp [itemKeeps_inh], ?_⟩
    intro hs
    unfold itemShaped_inh at hs
    split at hs
    · exact absurd rfl (h1 _ _ _ _ _ _ _)
    · exact absurd rfl (h2 _ _ _ _ _ _)
    · exact absurd rfl (h3 _ _ _ _ _ _ _ _ _ _ _ _ _)
    · cases hs

theorem getD_of_dropLast_inh {l1 l2 : List T} (hl : l1.length = l2.length) (hd : l1.dropLast = l2.dropLast)
    (i : Nat) (hi : i + 1 < l2.length) (d : T) : l1.getD i d = l2.getD i d := by
  have h1 : l1.dropLast[i]? = l1[i]? := by
    rw [List.getElem?_dropLast]; simp; omega
  have h2 : l2.dropLast[i]? = l2[i]? := by
    rw [List.getElem?_dropLast]; simp; omega
  simp only [List.getD_eq_getElem?_getD, ← h1, ← h2, hd]

/-- an item that is kept has the visibility (child 1) and the name / signature (child 3) of the original -/
theorem itemKeeps_vis_inh {it fin : T} (hk : itemKeeps_inh it fin = true) (hs : itemShaped_inh it = true) :
    kind fin = kind it ∧ kid fin 0 = kid it 0 ∧ kid fin 1 = kid it 1 ∧ kid fin 2 = kid it 2 ∧ kid fin 3 = kid it 3 := by
  simp only [itemKeeps_inh, Bool.and_eq_true, beq_iff_eq] at hk
  obtain ⟨⟨⟨hk1, _⟩, hlen⟩, hdl⟩ := hk
  have h5 : 5 ≤ (kids it).length := by
    unfold itemShaped_inh at hs
    split at hs <;> simp_all [kids]
  refine ⟨hk1, ?_, ?_, ?_, ?_⟩ <;> exact getD_of_dropLast_inh hlen hdl _ (by omega) _

/-- the helper reference the main impl bounds `Self` by (`where Self: _Helper<…>`) -/
def mainHref_inh (m : T) : Option T := selfPred (wherePredsOf (kid m 3))

theorem items_delegate_inh {idx : Nat} {g : T × ABG × List Blk} {m : T}
    (hm : mainImplInherent idx g = .ok (some m)) :
    ∃ first rest href, g.2.2 = first :: rest ∧ mainHref_inh m = some href ∧
      (implItems m).length = (implItems first.item).length ∧
      ∀ (i : Nat) (h1 : i < (implItems first.item).length) (h2 : i < (implItems m).length),
        itemKeeps_inh (implItems first.item)[i] (implItems m)[i] = true ∧
        (itemShaped_inh (implItems first.item)[i] = true →
          delegatesTo_inh href (implItems first.item)[i] (implItems m)[i] = true) := by
  obtain ⟨first, rest, a, d, u, lt, ps, gt, wc, tr, q, sp, items, x, params, finals, hg, hitem, hx, hst, hf, hpar, rfl⟩ :=
    mainImplInherent_ok_inv_inh hm
  generalize inhHref_inh x idx g.2.1 (inhEg_inh lt ps gt) = href at hf
  refine ⟨first, rest, href, hg, ?_, ?_⟩
  · have hpreds : wherePredsOf (.node "Generics" [] [lt, tList params, gt, mkWhere (assocBoundPredicates g.2.1 href)]) =
        assocBoundPredicates g.2.1 href := by
      simp [wherePredsOf, mkWhere, tSome, tList, kid, kids, kind]
    have : assocBoundPredicates g.2.1 href = _ ++ [whereType selfTy [traitBoundOf href]] := rfl
    simp only [mainHref_inh, kid, kids, List.getD_cons_succ, List.getD_cons_zero]
    rw [hpreds, this]
    exact selfPred_snoc _ _
  · have hmap := genAll_ok_inv_inh hf
    have hlen : finals.length = items.length := by
      have := congrArg List.length hmap
      simpa using this.symm
    rw [hitem]
    simp only [implItems, tList]
    refine ⟨hlen, ?_⟩
    intro i h1 h2
    have : delegateImplItem href items[i] = .ok finals[i] := by
      have := congrArg (fun l => l[i]?) hmap
      simp only [List.getElem?_map, List.getElem?_eq_getElem h1, List.getElem?_eq_getElem h2, Option.map_some] at this
      exact Option.some.inj this
    exact delegateImplItem_spec_inh this

/-! ### the two sorts agree: `sort_by_key` on the declared parameters (helper_trait.rs:34-39) and `sort()` on the
    identifiers (`gen_inherent_self_ty_args`, lib.rs:1007-1008) -/

theorem sortStr_ins_perm_inh (x : String) : ∀ l : List String, (sortStr.ins x l).Perm (x :: l)
  | [] => by simp [sortStr.ins]
  | y :: ys => by
      simp only [sortStr.ins]
      split
      · exact ((sortStr_ins_perm_inh x ys).cons y).trans (List.Perm.swap x y ys)
      · exact List.Perm.refl _

theorem sortStr_perm_inh : ∀ l : List String, (sortStr l).Perm l
  | [] => by simp [sortStr]
  | x :: xs => by
      have : sortStr (x :: xs) = sortStr.ins x (sortStr xs) := rfl
      rw [this]
      exact (sortStr_ins_perm_inh x _).trans ((sortStr_perm_inh xs).cons x)

theorem sortStr_ins_sorted_inh (x : String) : ∀ l : List String, l.Pairwise (· ≤ ·) →
    (sortStr.ins x l).Pairwise (· ≤ ·)
  | [], _ => by simp [sortStr.ins]
  | y :: ys, h => by
      simp only [sortStr.ins]
      split
      · next hlt =>
        rw [List.pairwise_cons] at h ⊢
        refine ⟨?_, sortStr_ins_sorted_inh x ys h.2⟩
        intro z hz
        rcases List.mem_cons.1 ((sortStr_ins_perm_inh x ys).subset hz) with rfl | hz
        · exact String.not_lt.1 (String.lt_asymm hlt)
        · exact h.1 z hz
      · next hnlt =>
        have hxy : x ≤ y := String.not_lt.1 hnlt
        rw [List.pairwise_cons]
        refine ⟨?_, h⟩
        intro z hz
        rcases List.mem_cons.1 hz with rfl | hz
        · exact hxy
        · exact String.le_trans hxy ((List.pairwise_cons.1 h).1 z hz)

theorem sortStr_sorted_inh : ∀ l : List String, (sortStr l).Pairwise (· ≤ ·)
  | [] => by simp [sortStr]
  | x :: xs => by
      have : sortStr (x :: xs) = sortStr.ins x (sortStr xs) := rfl
      rw [this]
      exact sortStr_ins_sorted_inh x _ (sortStr_sorted_inh xs)

/-- the sort key of `params.sort_by_key(|param| (!is_lifetime, ident))` -/
def pkey_inh (p : T) : Bool × String := (!isLifetimeParam p, (paramIdent p).getD "")

/-- the lexicographic order on the sort keys -/
def pkLe_inh (a b : Bool × String) : Prop := a.1 < b.1 ∨ (a.1 = b.1 ∧ a.2 ≤ b.2)

instance (a b : Bool × String) : Decidable (pkLe_inh a b) := by unfold pkLe_inh; exact inferInstance

theorem bool_lt_facts_inh : (false < true) ∧ ¬ (true < false) ∧ ¬ (false < false) ∧ ¬ (true < true) := by decide

theorem pkLe_total_inh (a b : Bool × String) : pkLe_inh a b ∨ pkLe_inh b a := by
  obtain ⟨a1, a2⟩ := a
  obtain ⟨b1, b2⟩ := b
  obtain ⟨f1, f2, f3, f4⟩ := bool_lt_facts_inh
  unfold pkLe_inh
  cases a1 <;> cases b1 <;> simp [f1, f2, f3, f4] <;> exact String.le_total _ _

theorem pkLe_trans_inh {a b c : Bool × String} (h1 : pkLe_inh a b) (h2 : pkLe_inh b c) : pkLe_inh a c := by
  obtain ⟨a1, a2⟩ := a
  obtain ⟨b1, b2⟩ := b
  obtain ⟨c1, c2⟩ := c
  obtain ⟨f1, f2, f3, f4⟩ := bool_lt_facts_inh
  unfold pkLe_inh at *
  cases a1 <;> cases b1 <;> cases c1 <;> simp [f1, f2, f3, f4] at * <;> exact String.le_trans h1 h2

theorem insertParamSorted_cons_inh (p q : T) (qs : List T) :
    insertParamSorted p (q :: qs) =
      if pkLe_inh (pkey_inh q) (pkey_inh p) then q :: insertParamSorted p qs else p :: q :: qs := by
  simp only [insertParamSorted, pkLe_inh, pkey_inh, Bool.or_eq_true, Bool.and_eq_true, decide_eq_true_eq, beq_iff_eq]
  congr

theorem insertParamSorted_perm_inh (p : T) : ∀ l : List T, (insertParamSorted p l).Perm (p :: l)
  | [] => by simp [insertParamSorted]
  | q :: qs => by
      rw [insertParamSorted_cons_inh]
      split
      · exact ((insertParamSorted_perm_inh p qs).cons q).trans (List.Perm.swap p q qs)
      · exact List.Perm.refl _

theorem sortParams_perm_inh : ∀ l : List T, (sortParams l).Perm l
  | [] => by simp [sortParams]
  | x :: xs => by
      have : sortParams (x :: xs) = insertParamSorted x (sortParams xs) := rfl
      rw [this]
      exact (insertParamSorted_perm_inh x _).trans ((sortParams_perm_inh xs).cons x)

theorem insertParamSorted_sorted_inh (p : T) : ∀ l : List T,
    l.Pairwise (fun a b => pkLe_inh (pkey_inh a) (pkey_inh b)) →
    (insertParamSorted p l).Pairwise (fun a b => pkLe_inh (pkey_inh a) (pkey_inh b))
  | [], _ => by simp [insertParamSorted]
  | q :: qs, h => by
      rw [insertParamSorted_cons_inh]
      split
      · next hle =>
        rw [List.pairwise_cons] at h ⊢
        refine ⟨?_, insertParamSorted_sorted_inh p qs h.2⟩
        intro z hz
        rcases List.mem_cons.1 ((insertParamSorted_perm_inh p qs).subset hz) with rfl | hz
        · exact hle
        · exact h.1 z hz
      · next hnle =>
        have hpq : pkLe_inh (pkey_inh p) (pkey_inh q) := (pkLe_total_inh _ _).resolve_right hnle
        rw [List.pairwise_cons]
        refine ⟨?_, h⟩
        intro z hz
        rcases List.mem_cons.1 hz with rfl | hz
        · exact hpq
        · exact pkLe_trans_inh hpq ((List.pairwise_cons.1 h).1 z hz)

theorem sortParams_sorted_inh : ∀ l : List T,
    (sortParams l).Pairwise (fun a b => pkLe_inh (pkey_inh a) (pkey_inh b))
  | [] => by simp [sortParams]
  | x :: xs => by
      have : sortParams (x :: xs) = insertParamSorted x (sortParams xs) := rfl
      rw [this]
      exact insertParamSorted_sorted_inh x _ (sortParams_sorted_inh xs)

def identOf_inh : T → Option String
  | .node "Ident" [x] [] => some x
  | _ => none
def ltIdentOf_inh : T → Option String
  | .node "Lifetime" [] [.node "Ident" [x] []] => some x
  | _ => none
theorem paramIdent_type_inh (a id : T) (r : List T) :
    paramIdent (.node "GenericParam::Type" [] [.node "TypeParam" [] (a :: id :: r)]) = identOf_inh id := by
  unfold paramIdent identOf_inh
  split <;> split <;> simp_all
theorem paramIdent_const_inh (a id : T) (r : List T) :
    paramIdent (.node "GenericParam::Const" [] [.node "ConstParam" [] (a :: id :: r)]) = identOf_inh id := by
  unfold paramIdent identOf_inh
  split <;> split <;> simp_all
theorem paramIdent_lt_inh (a id : T) (r : List T) :
    paramIdent (.node "GenericParam::Lifetime" [] [.node "LifetimeParam" [] (a :: id :: r)]) = ltIdentOf_inh id := by
  unfold paramIdent ltIdentOf_inh
  split <;> split <;> simp_all
theorem paramIdent_bareParam_inh (p : T) : paramIdent (bareParam p) = paramIdent p := by
  unfold bareParam
  split
  · simp only [paramIdent_lt_inh]
  · simp only [paramIdent_type_inh]
  · simp only [paramIdent_const_inh]
  · rfl

theorem isLifetimeParam_bareParam_inh (p : T) : isLifetimeParam (bareParam p) = isLifetimeParam p := by
  unfold bareParam
  split <;> simp [isLifetimeParam]

/-- the name a declared parameter is sorted by -/
def pname_inh (p : T) : String := (paramIdent p).getD ""

def ltNames_inh (l : List T) : List String := (l.filter isLifetimeParam).map pname_inh
def otNames_inh (l : List T) : List String := (l.filter (fun p => !isLifetimeParam p)).map pname_inh

/-- every declared parameter has an identifier (always the case for a parsed parameter list) -/
def paramsNamed_inh (ps : List T) : Bool := ps.all (fun p => (paramIdent p).isSome)

theorem isLifetimeParam_match_inh (p : T) (f : T → Option String) :
    (match p with
      | .node "GenericParam::Lifetime" _ _ => f p
      | _ => none) = if isLifetimeParam p then f p else none := by
  unfold isLifetimeParam
  split <;> simp

theorem isLifetimeParam_match'_inh (p : T) (f : T → Option String) :
    (match p with
      | .node "GenericParam::Lifetime" _ _ => none
      | _ => f p) = if isLifetimeParam p then none else f p := by
  unfold isLifetimeParam
  split <;> simp

theorem filterMap_named_inh : ∀ (l : List T), paramsNamed_inh l = true → ∀ (c : T → Bool),
    l.filterMap (fun p => if c p then paramIdent p else none) = (l.filter c).map pname_inh
  | [], _, _ => rfl
  | p :: ps, h, c => by
      simp only [paramsNamed_inh, List.all_cons, Bool.and_eq_true] at h
      have ih := filterMap_named_inh ps (by simpa [paramsNamed_inh] using h.2) c
      cases hp : paramIdent p with
      | none => rw [hp] at h; simp at h
      | some x =>
        cases hc : c p with
        | true => simp [hc, hp, ih, pname_inh]
        | false => simp [hc, ih]

theorem lifetimeParamIdents_eq_inh {gen : T} (h : paramsNamed_inh (genericsParams gen) = true) :
    lifetimeParamIdents gen = ltNames_inh (genericsParams gen) := by
  unfold lifetimeParamIdents ltNames_inh
  rw [← filterMap_named_inh _ h]
  congr 1
  funext p
  exact isLifetimeParam_match_inh p paramIdent

theorem otherParamIdents_eq_inh {gen : T} (h : paramsNamed_inh (genericsParams gen) = true) :
    otherParamIdents gen = otNames_inh (genericsParams gen) := by
  unfold otherParamIdents otNames_inh
  rw [← filterMap_named_inh _ h]
  congr 1
  funext p
  have := isLifetimeParam_match'_inh p paramIdent
  cases hl : isLifetimeParam p <;> simp [hl] at this ⊢ <;> exact this

theorem ltNames_map_bare_inh (ps : List T) : ltNames_inh (ps.map bareParam) = ltNames_inh ps := by
  induction ps with
  | nil => rfl
  | cons p ps ih =>
    simp only [ltNames_inh, List.map_cons, List.filter_cons, isLifetimeParam_bareParam_inh] at ih ⊢
    split <;> simp [ih, pname_inh, paramIdent_bareParam_inh]

theorem otNames_map_bare_inh (ps : List T) : otNames_inh (ps.map bareParam) = otNames_inh ps := by
  induction ps with
  | nil => rfl
  | cons p ps ih =>
    simp only [otNames_inh, List.map_cons, List.filter_cons, isLifetimeParam_bareParam_inh] at ih ⊢
    split <;> simp [ih, pname_inh, paramIdent_bareParam_inh]

theorem ltNames_sorted_inh (l : List T) : (ltNames_inh (sortParams l)).Pairwise (· ≤ ·) := by
  unfold ltNames_inh
  rw [List.pairwise_map]
  have hs := (sortParams_sorted_inh l).sublist (List.filter_sublist (p := isLifetimeParam))
  refine hs.imp_of_mem ?_
  intro a b ha hb hab
  have ha' := (List.mem_filter.1 ha).2
  have hb' := (List.mem_filter.1 hb).2
  obtain ⟨_, f2, f3, _⟩ := bool_lt_facts_inh
  simp only [pkLe_inh, pkey_inh, ha', hb', Bool.not_true, f3, false_or, true_and] at hab
  exact hab

theorem otNames_sorted_inh (l : List T) : (otNames_inh (sortParams l)).Pairwise (· ≤ ·) := by
  unfold otNames_inh
  rw [List.pairwise_map]
  have hs := (sortParams_sorted_inh l).sublist (List.filter_sublist (p := fun p => !isLifetimeParam p))
  refine hs.imp_of_mem ?_
  intro a b ha hb hab
  have ha' := (List.mem_filter.1 ha).2
  have hb' := (List.mem_filter.1 hb).2
  simp only [Bool.not_eq_true'] at ha' hb'
  obtain ⟨_, _, _, f4⟩ := bool_lt_facts_inh
  simp only [pkLe_inh, pkey_inh, ha', hb', Bool.not_false, f4, false_or, true_and] at hab
  exact hab

/-- `sort_by_key(|p| (!is_lifetime, ident))` on the declared parameters lists the lifetimes in the order `sort()` puts
    their identifiers in -/
theorem ltNames_sortParams_inh (l : List T) : ltNames_inh (sortParams l) = sortStr (ltNames_inh l) := by
  apply List.Perm.eq_of_pairwise (le := (· ≤ ·)) (fun a b _ _ h1 h2 => String.le_antisymm h1 h2)
    (ltNames_sorted_inh l) (sortStr_sorted_inh _)
  exact (((sortParams_perm_inh l).filter _).map _).trans (sortStr_perm_inh _).symm

theorem otNames_sortParams_inh (l : List T) : otNames_inh (sortParams l) = sortStr (otNames_inh l) := by
  apply List.Perm.eq_of_pairwise (le := (· ≤ ·)) (fun a b _ _ h1 h2 => String.le_antisymm h1 h2)
    (otNames_sorted_inh l) (sortStr_sorted_inh _)
  exact (((sortParams_perm_inh l).filter _).map _).trans (sortStr_perm_inh _).symm

/-! ### the helper trait of inherent mode and the alignment of its parameters with every reference -/

def inhKeyParams_inh (start nkeys : Nat) : List T :=
  (List.range nkeys).map (fun i => keyParam (genIndexedIdent (start + i)))

/-- the parameter list the helper trait declares (helper_trait.rs:31-63): the first block's parameters without
    bounds, sorted by `(!is_lifetime, ident)`, the key parameters inserted after the lifetimes -/
def helperTraitParams_inh (ps : List T) (nkeys : Nat) : List T :=
  let sorted := sortParams (ps.map bareParam)
  sorted.filter isLifetimeParam ++ inhKeyParams_inh sorted.length nkeys ++ sorted.filter (fun p => !isLifetimeParam p)

theorem helperTraitOfInherent_ok_inv_inh {item : T} {idx nkeys : Nat} {tr : T}
    (h : helperTraitOfInherent item idx nkeys = .ok tr) :
    ∃ a d u lt ps gt wc trr st items x its lt' gt',
      item = .node "ItemImpl" [] [a, d, u, .node "Generics" [] [lt, tList ps, gt, wc], trr, st, tList items] ∧
      selfTraitIdent st = some x ∧ genAll (items.map traitItemOfImplItem) = .ok its ∧
      tr = .node "ItemTrait" [] [ignAttrs, .node "Visibility::Public" [] [], u, tNone, tNone, tIdent (genIdentStr x idx),
        .node "Generics" [] [lt', tList (helperTraitParams_inh ps nkeys), gt', tNone], tNone, tList [], tList its] := by
  unfold helperTraitOfInherent at h
  split at h
  · next a d u lt ps gt wc trr st items =>
    split at h
    · next x its hx hits =>
      cases h
      exact ⟨a, d, u, lt, ps, gt, wc, trr, st, items, x, its, _, _, rfl, hx, hits, rfl⟩
    · cases h
    · cases h
    · cases h
  · cases h

/-- the argument that names a declared parameter: `'a` for a lifetime, the identifier as a type otherwise -/
def argOfParam_inh (p : T) : T :=
  if isLifetimeParam p then lifetimeArg (pname_inh p) else gaType (mkTypeIdent (pname_inh p))

/-- generic arguments as they are printed: `syn` prints the lifetimes of an angle-bracketed list first -/
def printedArgs_inh (args : List T) : List T :=
  args.filter isLifetimeArg ++ args.filter (fun a => !isLifetimeArg a)

/-- a reference `Helper<args>` is aligned with the declaration `trait Helper<tp>` with `nkeys` key parameters: the
    declaration lists its lifetimes first; the reference passes as many arguments as there are parameters; the
    lifetime arguments name the lifetime parameters position by position; after them come `nkeys` non-lifetime
    arguments (the key slots); every further argument names the parameter declared at its position -/
def refAligned_inh (nkeys : Nat) (tp args : List T) : Bool :=
  let nl := (tp.filter isLifetimeParam).length
  let pr := printedArgs_inh args
  (tp.take nl).all isLifetimeParam && (tp.drop nl).all (fun p => !isLifetimeParam p) &&
  pr.length == tp.length &&
  (tp.take nl).map argOfParam_inh == pr.take nl &&
  ((pr.drop nl).take nkeys).all (fun a => !isLifetimeArg a) &&
  (tp.drop (nl + nkeys)).map argOfParam_inh == pr.drop (nl + nkeys)

theorem filter_eq_nil_of_all_inh {α : Type} {p : α → Bool} {l : List α} (h : ∀ a ∈ l, p a = false) : l.filter p = [] := by
  apply List.filter_eq_nil_iff.2
  intro a ha; simp [h a ha]

theorem refAligned_of_parts_inh (nkeys : Nat) (L K O A R B : List T)
    (hL : ∀ p ∈ L, isLifetimeParam p = true) (hK : ∀ p ∈ K, isLifetimeParam p = false)
    (hO : ∀ p ∈ O, isLifetimeParam p = false)
    (_hA : ∀ a ∈ A, isLifetimeArg a = true) (hR : ∀ a ∈ R, isLifetimeArg a = false) (_hB : ∀ a ∈ B, isLifetimeArg a = false)
    (hKn : K.length = nkeys) (hRn : R.length = nkeys)
    (hLA : L.map argOfParam_inh = A) (hOB : O.map argOfParam_inh = B)
    (args : List T) (hargs : printedArgs_inh args = A ++ R ++ B) :
    refAligned_inh nkeys (L ++ K ++ O) args = true := by
  have hAl : A.length = L.length := by rw [← hLA]; simp
  have hBl : B.length = O.length := by rw [← hOB]; simp
  have hnl : ((L ++ K ++ O).filter isLifetimeParam).length = L.length := by
    rw [List.filter_append, List.filter_append, List.filter_eq_self.2 hL, filter_eq_nil_of_all_inh hK,
      filter_eq_nil_of_all_inh hO]; simp
  unfold refAligned_inh
  simp only [hnl, hargs]
  have t1 : (L ++ K ++ O).take L.length = L := by rw [List.append_assoc, List.take_left']; rfl
  have t2 : (L ++ K ++ O).drop L.length = K ++ O := by rw [List.append_assoc, List.drop_left']; rfl
  have t3 : (A ++ R ++ B).take L.length = A := by rw [List.append_assoc, List.take_left' hAl]
  have t4 : (A ++ R ++ B).drop L.length = R ++ B := by rw [List.append_assoc, List.drop_left' hAl]
  have t5 : (R ++ B).take nkeys = R := List.take_left' hRn
  have t6 : (L ++ K ++ O).drop (L.length + nkeys) = O := by
    rw [List.drop_left' (by simp [hKn])]
  have t7 : (A ++ R ++ B).drop (L.length + nkeys) = B := by
    rw [List.drop_left' (by simp [hRn, hAl])]
  rw [t1, t2, t3, t4, t5, t6, t7, hLA, hOB]
  simp only [Bool.and_eq_true, List.all_eq_true, beq_self_eq_true, and_true, Bool.not_eq_true', beq_iff_eq,
    List.length_append, List.mem_append]
  refine ⟨⟨⟨hL, ?_⟩, by omega⟩, hR⟩
  intro p hp
  rcases hp with hp | hp
  · exact hK p hp
  · exact hO p hp

theorem inhArgs_parts_inh (gen : T) (hn : paramsNamed_inh (genericsParams gen) = true) :
    ((sortParams ((genericsParams gen).map bareParam)).filter isLifetimeParam).map argOfParam_inh =
        (sortStr (lifetimeParamIdents gen)).map lifetimeArg ∧
    ((sortParams ((genericsParams gen).map bareParam)).filter (fun p => !isLifetimeParam p)).map argOfParam_inh =
        (sortStr (otherParamIdents gen)).map (fun x => gaType (mkTypeIdent x)) := by
  constructor
  · rw [lifetimeParamIdents_eq_inh hn, ← ltNames_map_bare_inh, ← ltNames_sortParams_inh, ltNames_inh, List.map_map]
    apply List.map_congr_left
    intro p hp
    simp [argOfParam_inh, (List.mem_filter.1 hp).2]
  · rw [otherParamIdents_eq_inh hn, ← otNames_map_bare_inh, ← otNames_sortParams_inh, otNames_inh, List.map_map]
    apply List.map_congr_left
    intro p hp
    have := (List.mem_filter.1 hp).2
    simp only [Bool.not_eq_true'] at this
    simp [argOfParam_inh, this]

theorem isLifetimeArg_lifetimeArg_inh (x : String) : isLifetimeArg (lifetimeArg x) = true := rfl
theorem isLifetimeArg_gaType_inh (t : T) : isLifetimeArg (gaType t) = false := rfl
theorem isLifetimeParam_keyParam_inh (x : String) : isLifetimeParam (keyParam x) = false := rfl

theorem rowArgs_nonLifetime_inh (idents : List (BKey × String)) (row : List (Option T)) :
    ∀ a ∈ rowArgs idents row, isLifetimeArg a = false := by
  intro a ha
  obtain ⟨ir, _, rfl⟩ := List.mem_map.1 ha
  cases ir.2 <;> rfl

theorem printedArgs_parts_inh (X A B : List T) (hX : ∀ a ∈ X, isLifetimeArg a = false)
    (hA : ∀ a ∈ A, isLifetimeArg a = true) (hB : ∀ a ∈ B, isLifetimeArg a = false) :
    printedArgs_inh (X ++ (A ++ B)) = A ++ X ++ B ∧ printedArgs_inh (A ++ X ++ B) = A ++ X ++ B := by
  have nX : ∀ a ∈ X, (!isLifetimeArg a) = true := fun a h => by simp [hX a h]
  have nB : ∀ a ∈ B, (!isLifetimeArg a) = true := fun a h => by simp [hB a h]
  have nA : ∀ a ∈ A, (!isLifetimeArg a) = false := fun a h => by simp [hA a h]
  unfold printedArgs_inh
  simp only [List.filter_append, List.filter_eq_self.2 hA, filter_eq_nil_of_all_inh hX, filter_eq_nil_of_all_inh hB,
    List.filter_eq_self.2 nX, List.filter_eq_self.2 nB, filter_eq_nil_of_all_inh nA, List.nil_append, List.append_nil,
    List.append_assoc, and_self]

/-- the generics of the first block, `?` when there is no first block -/
def firstItem_inh (g : T × ABG × List Blk) : T :=
  match g.2.2 with
  | b :: _ => b.item
  | [] => .node "?" [] []

/-- every parameter the first block declares has an identifier -/
def firstNamed_inh (g : T × ABG × List Blk) : Bool :=
  paramsNamed_inh (genericsParams ((implGenerics (firstItem_inh g)).getD (.node "?" [] [])))

theorem inhArgs_congr_inh {g1 g2 : T} (h : genericsParams g1 = genericsParams g2) : inhArgs_inh g1 = inhArgs_inh g2 := by
  simp [inhArgs_inh, lifetimeParamIdents, otherParamIdents, h]

/-- `selfTraitIdent` read back: the self type is an unqualified path type (no `<T as Tr>::` prefix) whose LAST segment
    is named `x`; the path may have any number of leading segments and a leading `::` (helper_trait.rs: the helper trait
    is named by the last segment only) -/
theorem selfTraitIdent_inv_inh {st : T} {x : String} (h : selfTraitIdent st = some x) :
    ∃ p a, st = .node "Type::Path" [] [tNone, p] ∧
      lastSegOf p = some (.node "PathSegment" [] [.node "Ident" [x] [], a]) := by
  unfold selfTraitIdent at h
  split at h
  · next p =>
    split at h
    · next x' a heq => cases h; exact ⟨p, a, rfl, heq⟩
    · cases h
  · cases h

theorem selfTraitIdent_of_last_inh {p : T} {x : String} {a : T}
    (h : lastSegOf p = some (.node "PathSegment" [] [.node "Ident" [x] [], a])) :
    selfTraitIdent (.node "Type::Path" [] [tNone, p]) = some x := by
  simp [selfTraitIdent, tNone, h]

/-- declared parameters of an `ItemTrait` / the name of the trait, read positionally -/
def traitParams_inh (tr : T) : List T := genericsParams (kid tr 6)
def traitName_inh (tr : T) : String := (atoms (kid tr 5)).headD ""

theorem xsegArgs_named_inh (lc : T) (xs : List T) (name : String) (args : List T) :
    XOK.segArgs (XOK.lastSeg (pathNode lc (xs ++ [.node "PathSegment" [] [tIdent name, angle args]]))) = args ∧
    XOK.segIdent (XOK.lastSeg (pathNode lc (xs ++ [.node "PathSegment" [] [tIdent name, angle args]]))) = name := by
  simp [XOK.lastSeg, segsOf, pathNode, tList, kid, kids, lastOf, XOK.segArgs, XOK.segIdent, angle, kind, atoms, tIdent]

theorem xsegArgs_single_inh (lc : T) (name : String) (args : List T) :
    XOK.segArgs (XOK.lastSeg (pathNode lc [.node "PathSegment" [] [tIdent name, angle args]])) = args ∧
    XOK.segIdent (XOK.lastSeg (pathNode lc [.node "PathSegment" [] [tIdent name, angle args]])) = name :=
  xsegArgs_named_inh lc [] name args

theorem traitPathOf_impl_inh (a d u g s items P : T) :
    traitPathOf (.node "ItemImpl" [] [a, d, u, g, tSome (.node "Tuple" [] [tNone, P]), s, items]) = some P := by
  simp [traitPathOf, kid, kids, kind, tSome]

/-- alignment of the helper trait's declaration with every reference to it (inherent mode) -/
theorem helper_params_aligned_inh (idx : Nat) (g : T × ABG × List Blk) (tr : T) (hs : List T) (m : T)
    (ht : helperTraitOfInherent (firstItem_inh g) idx g.2.1.idents.length = .ok tr)
    (hh : helperImpls idx g = some hs) (hm : mainImplInherent idx g = .ok (some m))
    (hinh : inherentFamily_inh g = true) (hn : firstNamed_inh g = true) :
    (∀ h ∈ hs, ∃ hpath, traitPathOf h = some hpath ∧ XOK.segIdent (XOK.lastSeg hpath) = traitName_inh tr ∧
        refAligned_inh g.2.1.idents.length (traitParams_inh tr) (XOK.segArgs (XOK.lastSeg hpath)) = true) ∧
    (∃ href, mainHref_inh m = some href ∧ XOK.segIdent (XOK.lastSeg href) = traitName_inh tr ∧
        refAligned_inh g.2.1.idents.length (traitParams_inh tr) (XOK.segArgs (XOK.lastSeg href)) = true) ∧
    (∃ gen, implGenerics (firstItem_inh g) = some gen ∧
      ((traitParams_inh tr).filter isLifetimeParam).map pname_inh = sortStr (lifetimeParamIdents gen) ∧
      (((traitParams_inh tr).filter (fun p => !isLifetimeParam p)).drop g.2.1.idents.length).map pname_inh =
        sortStr (otherParamIdents gen)) := by
  obtain ⟨first, rest, a, d, u, lt, ps, gt, wc, trr, q, sp, items, x, params, finals, hg, hitem, hx, hst, hf, hpar, rfl⟩ :=
    mainImplInherent_ok_inv_inh hm
  have hfirst : firstItem_inh g = first.item := by simp [firstItem_inh, hg]
  rw [hfirst, hitem] at ht
  obtain ⟨a', d', u', lt', ps', gt', wc', trr', st', items', x', its, lt2, gt2, heq, hx', hits, rfl⟩ :=
    helperTraitOfInherent_ok_inv_inh ht
  injection heq with _ _ heq
  simp only [List.cons.injEq, and_true, tList] at heq
  obtain ⟨rfl, rfl, rfl, hgen, rfl, rfl, hitems⟩ := heq
  injection hgen with _ _ hgen
  simp only [List.cons.injEq, and_true] at hgen
  obtain ⟨rfl, hps, rfl, rfl⟩ := hgen
  injection hps with _ _ hps
  subst hps
  obtain ⟨p', a0, hsp, hlp⟩ := selfTraitIdent_inv_inh hx'
  injection hsp with _ _ hsp
  simp only [List.cons.injEq, and_true] at hsp
  obtain ⟨rfl, rfl⟩ := hsp
  have hxx : x = x' := by
    simp only [lastSegIdentOf, hlp, Option.some.injEq] at hx
    exact hx.symm
  subst hxx
  have hnone : implTraitPath first.item = none := by
    simp only [inherentFamily_inh, hg] at hinh
    cases hp : implTraitPath first.item with
    | none => rfl
    | some p => rw [hp] at hinh; cases hinh
  -- the generics of the first block
  generalize hgen : T.node "Generics" [] [lt, tList ps, gt, wc] = gen at hitem
  have hgp : genericsParams gen = ps := by rw [← hgen]; rfl
  have hgen' : implGenerics first.item = some gen := by rw [hitem]; rfl
  have hnamed : paramsNamed_inh (genericsParams gen) = true := by
    simpa [firstNamed_inh, hfirst, hgen'] using hn
  have hegp : genericsParams (inhEg_inh lt ps gt) = genericsParams gen := by rw [hgp]; rfl
  have hargsEq : inhArgs_inh (inhEg_inh lt ps gt) = inhArgs_inh gen := inhArgs_congr_inh hegp
  obtain ⟨hLA, hOB⟩ := inhArgs_parts_inh gen hnamed
  rw [hgp] at hLA hOB
  -- the declared parameters
  have htp : traitParams_inh (T.node "ItemTrait" [] [ignAttrs, T.node "Visibility::Public" [] [], u, tNone, tNone,
      tIdent (genIdentStr x idx), T.node "Generics" [] [lt2, tList (helperTraitParams_inh ps g.2.1.idents.length), gt2, tNone],
      tNone, tList [], tList its]) = helperTraitParams_inh ps g.2.1.idents.length := by
    simp [traitParams_inh, kid, kids, genericsParams, tList]
  have htn : traitName_inh (T.node "ItemTrait" [] [ignAttrs, T.node "Visibility::Public" [] [], u, tNone, tNone,
      tIdent (genIdentStr x idx), T.node "Generics" [] [lt2, tList (helperTraitParams_inh ps g.2.1.idents.length), gt2, tNone],
      tNone, tList [], tList its]) = genIdentStr x idx := by
    simp [traitName_inh, kid, kids, atoms, tIdent]
  rw [htp, htn]
  have hLt : ∀ p ∈ (sortParams (ps.map bareParam)).filter isLifetimeParam, isLifetimeParam p = true :=
    fun p hp => (List.mem_filter.1 hp).2
  have hOt : ∀ p ∈ (sortParams (ps.map bareParam)).filter (fun p => !isLifetimeParam p), isLifetimeParam p = false :=
    fun p hp => by simpa using (List.mem_filter.1 hp).2
  have hKt : ∀ p ∈ inhKeyParams_inh (sortParams (ps.map bareParam)).length g.2.1.idents.length,
      isLifetimeParam p = false := by
    intro p hp
    obtain ⟨i, _, rfl⟩ := List.mem_map.1 hp
    rfl
  have hKn : (inhKeyParams_inh (sortParams (ps.map bareParam)).length g.2.1.idents.length).length =
      g.2.1.idents.length := by simp [inhKeyParams_inh]
  have hAt : ∀ a ∈ (sortStr (lifetimeParamIdents gen)).map lifetimeArg, isLifetimeArg a = true := by
    intro a ha; obtain ⟨y, _, rfl⟩ := List.mem_map.1 ha; rfl
  have hBt : ∀ a ∈ (sortStr (otherParamIdents gen)).map (fun x => gaType (mkTypeIdent x)), isLifetimeArg a = false := by
    intro a ha; obtain ⟨y, _, rfl⟩ := List.mem_map.1 ha; rfl
  refine ⟨?_, ?_, ?_⟩
  · -- the helper impls
    obtain ⟨s, gen0, p, sid, hs1, hgen0, hs2, ⟨a1, hl1⟩, hall, rfl⟩ := helperImpls_inherent_inv_inh hg hnone hh
    rw [hgen'] at hgen0
    cases hgen0
    have hs3 : s = T.node "Type::Path" [] [tNone, sp] := by
      rw [hitem] at hs1; simpa [implSelfTy] using hs1.symm
    rw [hs2] at hs3
    injection hs3 with _ _ hs3
    simp only [List.cons.injEq, and_true, true_and] at hs3
    subst hs3
    rw [hlp, Option.some.injEq] at hl1
    injection hl1 with _ _ hl1
    simp only [List.cons.injEq, and_true] at hl1
    obtain ⟨rfl, rfl⟩ := hl1
    intro h hmem
    obtain ⟨oh, hoh, hid⟩ := List.mem_filterMap.1 hmem
    simp only [id] at hid
    subst hid
    obtain ⟨mr, hmr, hhi⟩ := List.mem_map.1 hoh
    have hrow : mr.2.length = g.2.1.idents.length :=
      payloads_row_length g.2.1 mr.2 (List.of_mem_zip hmr).2
    obtain ⟨x2, am, dm, um, gm, trm, sm, itm, hid2, hmem2, rfl⟩ :=
      helperImpl_inherent_inv_inh (lastSegOf_pathNode_inh _ _ _) hhi
    cases hid2
    refine ⟨_, traitPathOf_impl_inh _ _ _ _ _ _ _, (xsegArgs_single_inh _ _ _).2, ?_⟩
    rw [(xsegArgs_single_inh _ _ _).1]
    unfold helperTraitParams_inh
    refine refAligned_of_parts_inh _ _ _ _ _ (rowArgs g.2.1.idents mr.2) _ hLt hKt hOt hAt
      (rowArgs_nonLifetime_inh _ _) hBt hKn (rowArgs_length _ _ hrow) hLA hOB _ ?_
    exact (printedArgs_parts_inh _ _ _ (rowArgs_nonLifetime_inh _ _) hAt hBt).1
  · -- the main impl
    refine ⟨inhHref_inh x idx g.2.1 (inhEg_inh lt ps gt), ?_, ?_, ?_⟩
    · have hpreds : ∀ href, wherePredsOf (.node "Generics" [] [lt, tList params, gt, mkWhere (assocBoundPredicates g.2.1 href)]) =
          assocBoundPredicates g.2.1 href := by
        intro href; simp [wherePredsOf, mkWhere, tSome, tList, kid, kids, kind]
      have : ∀ href, assocBoundPredicates g.2.1 href = _ ++ [whereType selfTy [traitBoundOf href]] := fun _ => rfl
      simp only [mainHref_inh, kid, kids, List.getD_cons_succ, List.getD_cons_zero]
      rw [hpreds, this]
      exact selfPred_snoc _ _
    · simp [inhHref_inh, helperRef, XOK.lastSeg, segsOf, pathNode, tList, kid, kids, lastOf, seg, XOK.segIdent, atoms, tIdent]
    · have hargs : XOK.segArgs (XOK.lastSeg (inhHref_inh x idx g.2.1 (inhEg_inh lt ps gt))) =
          (sortStr (lifetimeParamIdents gen)).map lifetimeArg ++
            g.2.1.idents.map (fun kx => gaType (projection kx.1.1 kx.1.2 kx.2)) ++
            (sortStr (otherParamIdents gen)).map (fun x => gaType (mkTypeIdent x)) := by
        have h1 : XOK.segArgs (XOK.lastSeg (inhHref_inh x idx g.2.1 (inhEg_inh lt ps gt))) =
            (inhArgs_inh gen).filter isLifetimeArg ++ g.2.1.idents.map (fun kx => gaType (projection kx.1.1 kx.1.2 kx.2)) ++
              (inhArgs_inh gen).filter (fun a => !isLifetimeArg a) := by
          rw [inhHref_inh, hargsEq]
          simp [helperRef, XOK.lastSeg, segsOf, pathNode, tList, kid, kids, lastOf, seg, XOK.segArgs, angle, kind]
        rw [h1]
        have nB : ∀ a ∈ (sortStr (otherParamIdents gen)).map (fun x => gaType (mkTypeIdent x)), (!isLifetimeArg a) = true :=
          fun a h => by simp [hBt a h]
        have nA : ∀ a ∈ (sortStr (lifetimeParamIdents gen)).map lifetimeArg, (!isLifetimeArg a) = false :=
          fun a h => by simp [hAt a h]
        simp only [inhArgs_inh, List.filter_append, List.filter_eq_self.2 hAt, filter_eq_nil_of_all_inh hBt,
          List.filter_eq_self.2 nB, filter_eq_nil_of_all_inh nA, List.nil_append, List.append_nil]
      rw [hargs]
      unfold helperTraitParams_inh
      have hPt : ∀ a ∈ g.2.1.idents.map (fun kx => gaType (projection kx.1.1 kx.1.2 kx.2)), isLifetimeArg a = false := by
        intro a ha; obtain ⟨y, _, rfl⟩ := List.mem_map.1 ha; rfl
      refine refAligned_of_parts_inh _ _ _ _ _ _ _ hLt hKt hOt hAt hPt hBt hKn (by simp) hLA hOB _ ?_
      exact (printedArgs_parts_inh _ _ _ hPt hAt hBt).2
  · -- the declaration is sorted
    refine ⟨gen, by rw [hfirst]; exact hgen', ?_, ?_⟩
    · unfold helperTraitParams_inh
      rw [List.filter_append, List.filter_append, List.filter_eq_self.2 hLt, filter_eq_nil_of_all_inh hKt,
        filter_eq_nil_of_all_inh hOt, List.append_nil, List.append_nil]
      have := ltNames_sortParams_inh (ps.map bareParam)
      rw [ltNames_map_bare_inh] at this
      rw [lifetimeParamIdents_eq_inh hnamed, hgp, ← this]; rfl
    · unfold helperTraitParams_inh
      have nL : ∀ p ∈ (sortParams (ps.map bareParam)).filter isLifetimeParam, (!isLifetimeParam p) = false :=
        fun p hp => by simp [hLt p hp]
      have nK : ∀ p ∈ inhKeyParams_inh (sortParams (ps.map bareParam)).length g.2.1.idents.length,
          (!isLifetimeParam p) = true := fun p hp => by simp [hKt p hp]
      have nO : ∀ p ∈ (sortParams (ps.map bareParam)).filter (fun p => !isLifetimeParam p), (!isLifetimeParam p) = true :=
        fun p hp => by simp [hOt p hp]
      rw [List.filter_append, List.filter_append, filter_eq_nil_of_all_inh nL, List.filter_eq_self.2 nK,
        List.filter_eq_self.2 nO, List.nil_append, List.drop_left' hKn]
      have := otNames_sortParams_inh (ps.map bareParam)
      rw [otNames_map_bare_inh] at this
      rw [otherParamIdents_eq_inh hnamed, hgp, ← this]; rfl

/-! ### the parameters the main inherent impl declares (finding D32) -/

mutual
/-- every identifier and every canonical parameter mentioned in a tree -/
def identsOf_inh : T → List String
  | .tparam n => [n]
  | .eparam n => [n]
  | .node k as ks => (if k == "Ident" then as else []) ++ identsOfL_inh ks
def identsOfL_inh : List T → List String
  | [] => []
  | t :: ts => identsOf_inh t ++ identsOfL_inh ts
end

/-- every parameter the first block declares is mentioned in its self type (what finding D32 violates:
    `impl<T: D<Group = Vec<U>>, U> W<T>` as the first block of a family) -/
def firstParamsInSelf_inh (g : T × ABG × List Blk) : Bool :=
  match implGenerics (firstItem_inh g), implSelfTy (firstItem_inh g) with
  | some gen, some st =>
      (kindNames gen "GenericParam::Lifetime" ++ kindNames gen "GenericParam::Type" ++ kindNames gen "GenericParam::Const").all
        (fun x => (identsOf_inh st).contains x)
  | _, _ => false

theorem allSome_inv_inh {α : Type} : ∀ {l : List (Option α)} {r : List α}, allSome l = some r → l = r.map some
  | [], r, h => by simp [allSome] at h; subst h; rfl
  | none :: l, r, h => by simp [allSome] at h
  | some a :: l, r, h => by
      simp only [allSome, Option.map_eq_some_iff] at h
      obtain ⟨r', hr, rfl⟩ := h
      simp [allSome_inv_inh hr]

theorem newConstParam_name_inh {eg : T} {x : String} {p : T} (h : newConstParam eg x = some p) : pname_inh p = x := by
  unfold newConstParam at h
  split at h
  · cases h; simp [pname_inh, paramIdent, tIdent]
  · cases h

theorem kindNames_congr_inh {g1 g2 : T} (h : genericsParams g1 = genericsParams g2) (k : String) :
    kindNames g1 k = kindNames g2 k := by simp [kindNames, h]

/-- every parameter the main inherent impl declares is a parameter of the first block, hence — when the first block
    mentions all its parameters in its self type — occurs in the self type of the main impl (no E0207) -/
theorem main_params_in_self_inh {idx : Nat} {g : T × ABG × List Blk} {m : T}
    (hm : mainImplInherent idx g = .ok (some m)) (hin : firstParamsInSelf_inh g = true) :
    ∀ p ∈ genericsParams (kid m 3), (identsOf_inh (kid m 5)).contains (pname_inh p) = true := by
  obtain ⟨first, rest, a, d, u, lt, ps, gt, wc, tr, q, sp, items, x, params, finals, hg, hitem, hx, hst, hf, hpar, rfl⟩ :=
    mainImplInherent_ok_inv_inh hm
  obtain ⟨s, cps, ⟨hsl, hsy, hsc⟩, hcps, rfl⟩ := hpar
  have hfirst : firstItem_inh g = first.item := by simp [firstItem_inh, hg]
  have hgp : genericsParams (T.node "Generics" [] [lt, tList ps, gt, wc]) = genericsParams (inhEg_inh lt ps gt) := rfl
  simp only [firstParamsInSelf_inh, hfirst, hitem, implGenerics, implSelfTy, List.all_eq_true, List.mem_append,
    kindNames_congr_inh hgp] at hin
  intro p hp
  have hk5 : ∀ (gg : T), kid (T.node "ItemImpl" [] [a, d, u, gg, tr, T.node "Type::Path" [] [q, sp], tList finals]) 5 =
      T.node "Type::Path" [] [q, sp] := by intro gg; simp [kid, kids]
  rw [hk5]
  simp only [kid, kids, List.getD_cons_succ, List.getD_cons_zero, genericsParams, tList, List.mem_append] at hp
  simp only [IxState.namesLt, IxState.namesTy, IxState.namesCo, inhIx0_inh, List.map_nil, List.nil_append] at hsl hsy hsc
  rcases hp with (hp | hp) | hp
  · obtain ⟨xi, hxi, rfl⟩ := List.mem_map.1 hp
    have : xi.1 ∈ kindNames (inhEg_inh lt ps gt) "GenericParam::Lifetime" :=
      hsl.subset (List.mem_append.2 (Or.inl (List.mem_map.2 ⟨xi, hxi, rfl⟩)))
    have hn : pname_inh (newLifetimeParam xi.1) = xi.1 := by simp [pname_inh, newLifetimeParam, paramIdent, tIdent]
    rw [hn]
    exact hin _ (Or.inl (Or.inl this))
  · obtain ⟨xi, hxi, rfl⟩ := List.mem_map.1 hp
    have : xi.1 ∈ kindNames (inhEg_inh lt ps gt) "GenericParam::Type" :=
      hsy.subset (List.mem_append.2 (Or.inl (List.mem_map.2 ⟨xi, hxi, rfl⟩)))
    have hn : pname_inh (newTypeParam xi.1) = xi.1 := by simp [pname_inh, newTypeParam, paramIdent, tIdent]
    rw [hn]
    exact hin _ (Or.inl (Or.inr this))
  · have hl := allSome_inv_inh hcps
    have : some p ∈ s.ixCo.map (fun xi => newConstParam (inhEg_inh lt ps gt) xi.1) := by
      rw [hl]; exact List.mem_map.2 ⟨p, hp, rfl⟩
    obtain ⟨xi, hxi, hnc⟩ := List.mem_map.1 this
    have hmem : xi.1 ∈ kindNames (inhEg_inh lt ps gt) "GenericParam::Const" :=
      hsc.subset (List.mem_append.2 (Or.inl (List.mem_map.2 ⟨xi, hxi, rfl⟩)))
    rw [newConstParam_name_inh hnc]
    exact hin _ (Or.inr hmem)

/-! ### `ExpandOK` for inherent mode, at full strength

`expandOKCore` in inherent mode only checks that a helper impl keeps the member's generics, self type and safety qualifier
and has some trait path. The predicate below is the inherent-mode counterpart of the trait-mode check: it reads the
generated trees only (helper trait, helper impls, main impl) and decides whether they are the abstract program of
`Sem.genSel`: every helper impl is its member (attributes, generics, self type, items with their visibility removed)
implementing the helper trait with the member's row as leading arguments (a wildcard as the projection of the key
through the member's substitution θ) followed by the arguments the main impl passes, seen through θ; the helper
trait's declaration is aligned with every reference; every parameter a helper impl passes is declared by it. -/

/-- the arguments the main impl passes to the helper trait besides the key projections: its lifetimes and the
    non-lifetime arguments after the `nkeys` key slots -/
def mainSelfArgs_inh (nkeys : Nat) (href : T) : List T :=
  let as := XOK.segArgs (XOK.lastSeg href)
  as.filter isLifetimeArg ++ (as.filter (fun a => !isLifetimeArg a)).drop nkeys

def ltArgName_inh : T → Option String
  | .node "GenericArgument::Lifetime" [] [.node "Lifetime" [] [.node "Ident" [x] []]] => some x
  | _ => none

/-- every lifetime / canonical parameter named by the arguments `args` is declared in `decl` -/
def argsScoped_inh (decl args : List T) : Bool :=
  (args.filterMap ltArgName_inh).all (fun x => (ltNames_inh decl).contains x) &&
  (allParams.allParamsL args).all (fun x => (otNames_inh decl).contains x)

/-- no canonical parameter named by `args` is relaxed with `?Sized` in the generics `gens` (the helper trait declares the
    parameters of the first block without bounds, i.e. `Sized`: finding D27) -/
def argsSized_inh (gens : T) (args : List T) : Bool :=
  (allParams.allParamsL args).all (fun x => !isMaybeSizedOn (findBounds gens) x)

/-- one member / helper-impl pair in inherent mode -/
def checkHelperInh_inh (keys : List CKey) (name : String) (selfArgs : List T) (m h : T) (row : List (Option T))
    (θ : Subst) : Bool :=
  kid m 0 == kid h 0 && kid m 1 == kid h 1 && kid m 2 == kid h 2 && kid m 3 == kid h 3 && kid m 5 == kid h 5 &&
  kid h 6 == visErased_inh (kid m 6) &&
  (match traitPathOf h with
   | none => false
   | some hpath =>
      let hargs := XOK.segArgs (XOK.lastSeg hpath)
      let nkeys := keys.length
      XOK.segIdent (XOK.lastSeg hpath) == name &&
      hargs.drop nkeys == instL θ selfArgs && checkArgs θ (hargs.take nkeys) keys row && (hargs.take nkeys).length == nkeys &&
      argsScoped_inh (genericsParams (kid h 3)) (hargs.drop nkeys) && argsSized_inh (kid h 3) (hargs.drop nkeys))

def checkHelpersInh_inh (keys : List CKey) (name : String) (selfArgs : List T) :
    List T → List T → List (List (Option T)) → List Subst → Bool
  | m :: ms, h :: hs, rows, thetas =>
      checkHelperInh_inh keys name selfArgs m h (rows.headD []) (thetas.headD []) &&
        checkHelpersInh_inh keys name selfArgs ms hs rows.tail thetas.tail
  | _, _, _, _ => true

/-- the inherent-mode acceptance predicate on explicit data -/
def expandOKInhCore_inh (gid : T) (idents : List (BKey × String)) (rows : List (List (Option T))) (members : List T)
    (thetas : List Subst) (tr : T) (helpers : List T) (main : T) : Bool :=
  let keys := keysOf idents
  match mainHref_inh main with
  | none => false
  | some href =>
      let name := XOK.segIdent (XOK.lastSeg href)
      traitName_inh tr == name &&
      refAligned_inh keys.length (traitParams_inh tr) (XOK.segArgs (XOK.lastSeg href)) &&
      helpers.length == members.length &&
      checkHelpersInh_inh keys name (mainSelfArgs_inh keys.length href) members helpers rows thetas &&
      helpers.all (fun h => match traitPathOf h with
        | some hp => refAligned_inh keys.length (traitParams_inh tr) (XOK.segArgs (XOK.lastSeg hp))
        | none => false) &&
      checkMain true gid keys main && kid main 5 == kid gid 1

def expandOKInh_inh (g : T × ABG × List Blk) (thetas : List Subst) (tr : T) (helpers : List T) (main : T) : Bool :=
  expandOKInhCore_inh g.1 g.2.1.idents g.2.1.payloads (g.2.2.map (·.item)) thetas tr helpers main

/-- the arguments of inherent mode are fixed by every member's substitution: no member instantiates a parameter of
    the first block (fails for a nested member such as `impl<T> W<Vec<T>>` next to `impl<T> W<T>`) -/
def fixArgs_inh (selfArgs : List T) : List T → List Subst → Bool
  | _ :: ms, thetas => (instL (thetas.headD []) selfArgs == selfArgs) && fixArgs_inh selfArgs ms thetas.tail
  | [], _ => true

def selfArgsFixed_inh (g : T × ABG × List Blk) : Bool :=
  fixArgs_inh (inhArgs_inh ((implGenerics (firstItem_inh g)).getD (.node "?" [] []))) (g.2.2.map (·.item)) (thetasOf g)

/-- every member declares every parameter of the first block, kind by kind (fails for finding D32) -/
def declaresFirst_inh (gen : T) (member : T) : Bool :=
  let decl := genericsParams ((implGenerics member).getD (.node "?" [] []))
  (lifetimeParamIdents gen).all (fun x => (ltNames_inh decl).contains x) &&
  (otherParamIdents gen).all (fun x => (otNames_inh decl).contains x)

def membersDeclare_inh (g : T × ABG × List Blk) : Bool :=
  g.2.2.all (fun b => declaresFirst_inh ((implGenerics (firstItem_inh g)).getD (.node "?" [] [])) b.item)

/-- no member relaxes a parameter of the first block with `?Sized` (fails for finding D27) -/
def membersSized_inh (g : T × ABG × List Blk) : Bool :=
  g.2.2.all (fun b => argsSized_inh ((implGenerics b.item).getD (.node "?" [] []))
    (inhArgs_inh ((implGenerics (firstItem_inh g)).getD (.node "?" [] []))))

theorem allParamsL_append_inh (a b : List T) :
    allParams.allParamsL (a ++ b) = allParams.allParamsL a ++ allParams.allParamsL b := by
  induction a with
  | nil => rfl
  | cons x xs ih => simp [allParams.allParamsL, ih]

theorem allParams_mkTypeIdent_inh (x : String) : ∀ y ∈ allParams (gaType (mkTypeIdent x)), y = x := by
  intro y hy
  unfold mkTypeIdent at hy
  split at hy
  · simpa [gaType, allParams, allParams.allParamsL] using hy
  · simp [gaType, allParams, allParams.allParamsL] at hy

theorem argsScoped_inhArgs_inh (gen : T) (decl : List T)
    (h1 : ∀ x ∈ lifetimeParamIdents gen, x ∈ ltNames_inh decl) (h2 : ∀ x ∈ otherParamIdents gen, x ∈ otNames_inh decl) :
    argsScoped_inh decl (inhArgs_inh gen) = true := by
  unfold argsScoped_inh inhArgs_inh
  simp only [Bool.and_eq_true, List.all_eq_true, List.contains_iff_mem]
  constructor
  · intro x hx
    obtain ⟨a, ha, hax⟩ := List.mem_filterMap.1 hx
    rcases List.mem_append.1 ha with ha | ha
    · obtain ⟨y, hy, rfl⟩ := List.mem_map.1 ha
      simp only [lifetimeArg, ltArgName_inh, tIdent, Option.some.injEq] at hax
      subst hax
      exact h1 _ ((sortStr_perm_inh _).subset hy)
    · obtain ⟨y, hy, rfl⟩ := List.mem_map.1 ha
      simp [gaType, ltArgName_inh] at hax
  · intro x hx
    rw [allParamsL_append_inh] at hx
    rcases List.mem_append.1 hx with hx | hx
    · exfalso
      clear h1 h2
      generalize sortStr (lifetimeParamIdents gen) = l at hx
      induction l with
      | nil => simp [allParams.allParamsL] at hx
      | cons y ys ih =>
        simp only [List.map_cons, allParams.allParamsL, List.mem_append] at hx
        rcases hx with hx | hx
        · simp [lifetimeArg, allParams, allParams.allParamsL, tIdent] at hx
        · exact ih hx
    · have : ∀ (l : List String), x ∈ allParams.allParamsL (l.map (fun x => gaType (mkTypeIdent x))) → x ∈ l := by
        intro l
        induction l with
        | nil => intro h; simp [allParams.allParamsL] at h
        | cons y ys ih =>
          intro h
          simp only [List.map_cons, allParams.allParamsL, List.mem_append] at h
          rcases h with h | h
          · rw [allParams_mkTypeIdent_inh y x h]; simp
          · exact List.mem_cons_of_mem _ (ih h)
      exact h2 _ ((sortStr_perm_inh _).subset (this _ hx))

theorem checkHelperInh_of_helperImpl_inh {idx : Nat} {p0 : T} {x : String} {args0 : List T}
    {idents : List (BKey × String)} {row : List (Option T)} {member h : T} {θ : Subst}
    (hl : lastSegOf p0 = some (.node "PathSegment" [] [.node "Ident" [x] [], angle args0]))
    (hh : helperImpl idx (some p0) idents row member = some h)
    (hlen : row.length = idents.length) (hp : ∀ kx ∈ idents, pathShaped kx.1.2 = true)
    (hw : wfixRow θ idents row = true) (hfix : instL θ args0 = args0)
    (hsc : argsScoped_inh (genericsParams ((implGenerics member).getD (.node "?" [] []))) args0 = true)
    (hsz : argsSized_inh ((implGenerics member).getD (.node "?" [] [])) args0 = true) :
    checkHelperInh_inh (keysOf idents) (genIdentStr x idx) args0 member h row θ = true := by
  obtain ⟨x', a, d, u, g, tr, s, items, hid, rfl, rfl⟩ := helperImpl_inherent_inv_inh hl hh
  cases hid
  have hargsLen := rowArgs_length idents row hlen
  have hca := checkArgs_rowArgs θ idents row hp hw
  unfold checkHelperInh_inh
  rw [traitPathOf_impl_inh]
  simp only [(xsegArgs_single_inh _ _ _).1, (xsegArgs_single_inh _ _ _).2, keysOf_length]
  have t1 : (rowArgs idents row ++ args0).take idents.length = rowArgs idents row := List.take_left' hargsLen
  have t2 : (rowArgs idents row ++ args0).drop idents.length = args0 := List.drop_left' hargsLen
  rw [t1, t2, hfix, hca, hargsLen]
  have hk3 : kid (T.node "ItemImpl" [] [a, d, u, g,
      tSome (T.node "Tuple" [] [tNone, pathNode noLead
        [T.node "PathSegment" [] [tIdent (genIdentStr x idx), angle (rowArgs idents row ++ args0)]]]),
      s, visErased_inh items]) 3 = g := by simp [kid, kids]
  rw [hk3]
  have hsc' : argsScoped_inh (genericsParams g) args0 = true := by simpa [implGenerics] using hsc
  have hsz' : argsSized_inh g args0 = true := by simpa [implGenerics] using hsz
  rw [hsc', hsz']
  simp [kid, kids]

theorem checkHelpersInh_of_helperImpls_inh {idx : Nat} {p0 : T} {x : String} {args0 : List T}
    (idents : List (BKey × String)) (hp : ∀ kx ∈ idents, pathShaped kx.1.2 = true)
    (hl : lastSegOf p0 = some (.node "PathSegment" [] [.node "Ident" [x] [], angle args0])) :
    ∀ (ms : List T) (rows : List (List (Option T))) (thetas : List Subst),
      ms.length ≤ rows.length → (∀ r ∈ rows, r.length = idents.length) →
      ((List.zip ms rows).map (fun mr => helperImpl idx (some p0) idents mr.2 mr.1)).all Option.isSome = true →
      wfixRows idents ms rows thetas = true → fixArgs_inh args0 ms thetas = true →
      (∀ m ∈ ms, argsScoped_inh (genericsParams ((implGenerics m).getD (.node "?" [] []))) args0 = true) →
      (∀ m ∈ ms, argsSized_inh ((implGenerics m).getD (.node "?" [] [])) args0 = true) →
      checkHelpersInh_inh (keysOf idents) (genIdentStr x idx) args0 ms
        (((List.zip ms rows).map (fun mr => helperImpl idx (some p0) idents mr.2 mr.1)).filterMap id) rows thetas = true
  | [], rows, thetas, _, _, _, _, _, _, _ => by simp [checkHelpersInh_inh]
  | m :: ms, [], thetas, hlen, _, _, _, _, _, _ => by simp at hlen
  | m :: ms, r :: rows, thetas, hlen, hr, hall, hw, hf, hsc, hsz => by
      simp only [List.zip_cons_cons, List.map_cons, List.all_cons, Bool.and_eq_true] at hall
      simp only [wfixRows, List.headD_cons, List.tail_cons, Bool.and_eq_true] at hw
      simp only [fixArgs_inh, Bool.and_eq_true, beq_iff_eq] at hf
      cases hh : helperImpl idx (some p0) idents r m with
      | none => rw [hh] at hall; simp at hall
      | some h =>
        have ih := checkHelpersInh_of_helperImpls_inh idents hp hl ms rows thetas.tail (by simpa using hlen)
          (fun y hy => hr y (List.mem_cons_of_mem _ hy)) hall.2 hw.2 hf.2 (fun y hy => hsc y (List.mem_cons_of_mem _ hy))
          (fun y hy => hsz y (List.mem_cons_of_mem _ hy))
        simp only [List.zip_cons_cons, List.map_cons, hh, List.filterMap_cons, id, checkHelpersInh_inh,
          List.headD_cons, List.tail_cons, ih, Bool.and_true]
        exact checkHelperInh_of_helperImpl_inh hl hh (hr r (by simp)) hp hw.1 hf.1 (hsc m (by simp)) (hsz m (by simp))

theorem mainHref_shape_inh (a d u lt : T) (params : List T) (gt : T) (abg : ABG) (href tr st finals : T) :
    mainHref_inh (.node "ItemImpl" [] [a, d, u,
      .node "Generics" [] [lt, tList params, gt, mkWhere (assocBoundPredicates abg href)], tr, st, finals]) = some href := by
  have hpreds : wherePredsOf (.node "Generics" [] [lt, tList params, gt, mkWhere (assocBoundPredicates abg href)]) =
      assocBoundPredicates abg href := by
    simp [wherePredsOf, mkWhere, tSome, tList, kid, kids, kind]
  have : assocBoundPredicates abg href = _ ++ [whereType selfTy [traitBoundOf href]] := rfl
  simp only [mainHref_inh, kid, kids, List.getD_cons_succ, List.getD_cons_zero]
  rw [hpreds, this]
  exact selfPred_snoc _ _

theorem helperRef_read_inh (name : String) (idents : List (BKey × String)) (hargs : List T) :
    XOK.segIdent (XOK.lastSeg (helperRef name idents hargs)) = name ∧
    XOK.segArgs (XOK.lastSeg (helperRef name idents hargs)) =
      hargs.filter isLifetimeArg ++ idents.map (fun kx => gaType (projection kx.1.1 kx.1.2 kx.2)) ++
        hargs.filter (fun a => !isLifetimeArg a) := by
  constructor
  · simp [helperRef, XOK.lastSeg, segsOf, pathNode, tList, kid, kids, lastOf, seg, XOK.segIdent, atoms, tIdent]
  · simp [helperRef, XOK.lastSeg, segsOf, pathNode, tList, kid, kids, lastOf, seg, XOK.segArgs, angle, kind]

theorem inhArgs_filters_inh (gen : T) :
    (inhArgs_inh gen).filter isLifetimeArg = (sortStr (lifetimeParamIdents gen)).map lifetimeArg ∧
    (inhArgs_inh gen).filter (fun a => !isLifetimeArg a) =
      (sortStr (otherParamIdents gen)).map (fun x => gaType (mkTypeIdent x)) := by
  have hAt : ∀ a ∈ (sortStr (lifetimeParamIdents gen)).map lifetimeArg, isLifetimeArg a = true := by
    intro a ha; obtain ⟨y, _, rfl⟩ := List.mem_map.1 ha; rfl
  have hBt : ∀ a ∈ (sortStr (otherParamIdents gen)).map (fun x => gaType (mkTypeIdent x)), isLifetimeArg a = false := by
    intro a ha; obtain ⟨y, _, rfl⟩ := List.mem_map.1 ha; rfl
  have nB : ∀ a ∈ (sortStr (otherParamIdents gen)).map (fun x => gaType (mkTypeIdent x)), (!isLifetimeArg a) = true :=
    fun a h => by simp [hBt a h]
  have nA : ∀ a ∈ (sortStr (lifetimeParamIdents gen)).map lifetimeArg, (!isLifetimeArg a) = false :=
    fun a h => by simp [hAt a h]
  simp only [inhArgs_inh, List.filter_append, List.filter_eq_self.2 hAt, filter_eq_nil_of_all_inh hBt,
    List.filter_eq_self.2 nB, filter_eq_nil_of_all_inh nA, List.nil_append, List.append_nil, and_self]

/-- what the main impl passes besides the key projections is `inhArgs_inh` -/
theorem mainSelfArgs_helperRef_inh (name : String) (idents : List (BKey × String)) (gen : T) :
    mainSelfArgs_inh idents.length (helperRef name idents (inhArgs_inh gen)) = inhArgs_inh gen := by
  obtain ⟨f1, f2⟩ := inhArgs_filters_inh gen
  have hAt : ∀ a ∈ (sortStr (lifetimeParamIdents gen)).map lifetimeArg, isLifetimeArg a = true := by
    intro a ha; obtain ⟨y, _, rfl⟩ := List.mem_map.1 ha; rfl
  have hBt : ∀ a ∈ (sortStr (otherParamIdents gen)).map (fun x => gaType (mkTypeIdent x)), isLifetimeArg a = false := by
    intro a ha; obtain ⟨y, _, rfl⟩ := List.mem_map.1 ha; rfl
  have hPt : ∀ a ∈ idents.map (fun kx => gaType (projection kx.1.1 kx.1.2 kx.2)), isLifetimeArg a = false := by
    intro a ha; obtain ⟨y, _, rfl⟩ := List.mem_map.1 ha; rfl
  have nB : ∀ a ∈ (sortStr (otherParamIdents gen)).map (fun x => gaType (mkTypeIdent x)), (!isLifetimeArg a) = true :=
    fun a h => by simp [hBt a h]
  have nP : ∀ a ∈ idents.map (fun kx => gaType (projection kx.1.1 kx.1.2 kx.2)), (!isLifetimeArg a) = true :=
    fun a h => by simp [hPt a h]
  have nA : ∀ a ∈ (sortStr (lifetimeParamIdents gen)).map lifetimeArg, (!isLifetimeArg a) = false :=
    fun a h => by simp [hAt a h]
  unfold mainSelfArgs_inh
  rw [(helperRef_read_inh _ _ _).2, f1, f2]
  simp only [List.filter_append, List.filter_eq_self.2 hAt, filter_eq_nil_of_all_inh hBt, filter_eq_nil_of_all_inh hPt,
    List.filter_eq_self.2 nB, List.filter_eq_self.2 nP, filter_eq_nil_of_all_inh nA, List.nil_append, List.append_nil]
  rw [List.drop_left' (by simp)]
  rfl

theorem fixArgs_congr_inh {a b : List T} (h : a = b) (ms : List T) (th : List Subst) :
    fixArgs_inh a ms th = fixArgs_inh b ms th := by rw [h]

/-- the inherent-mode acceptance predicate holds of the model's expansion -/
theorem expandOKInh_of_expand_inh (idx : Nat) (g : T × ABG × List Blk) (tr : T) (hs : List T) (m : T)
    (ht : helperTraitOfInherent (firstItem_inh g) idx g.2.1.idents.length = .ok tr)
    (hh : helperImpls idx g = some hs) (hm : mainImplInherent idx g = .ok (some m))
    (hwf : expandWF g = true) (hinh : inherentFamily_inh g = true) (hn : firstNamed_inh g = true)
    (hfix : wildcardsFixed g = true) (hsa : selfArgsFixed_inh g = true) (hdecl : membersDeclare_inh g = true)
    (hsz : membersSized_inh g = true) :
    expandOKInh_inh g (thetasOf g) tr hs m = true := by
  obtain ⟨hal1, ⟨href, hhref, hname, hal2⟩, _⟩ := helper_params_aligned_inh idx g tr hs m ht hh hm hinh hn
  have hmain := checkMain_of_mainInherent_inh hm hwf
  obtain ⟨first, rest, a, d, u, lt, ps, gt, wc, trr, q, sp, items, x, params, finals, hg, hitem, hx, hst, hf, hpar, rfl⟩ :=
    mainImplInherent_ok_inv_inh hm
  have hfirst : firstItem_inh g = first.item := by simp [firstItem_inh, hg]
  rw [mainHref_shape_inh] at hhref
  cases hhref
  have hwf' := hwf
  simp only [expandWF, Bool.and_eq_true, hg, List.all_eq_true, Bool.not_eq_true', beq_iff_eq] at hwf'
  obtain ⟨⟨⟨hne, hal⟩, hgid⟩, hid⟩ := hwf'
  have hnone : implTraitPath first.item = none := by
    simp only [inherentFamily_inh, hg] at hinh
    cases hp : implTraitPath first.item with
    | none => rfl
    | some p => rw [hp] at hinh; cases hinh
  have hplen : g.2.1.payloads.length = g.2.2.length := by
    rw [hg]; exact payloads_length g.2.1 _ hne (fun kr hkr => hal kr hkr)
  -- the self type is an unqualified path whose last segment is named (the helper trait could be generated)
  rw [hfirst, hitem] at ht
  obtain ⟨_, _, _, _, _, _, _, _, st', _, x', _, _, _, heq, hx', _, _⟩ := helperTraitOfInherent_ok_inv_inh ht
  injection heq with _ _ heq
  simp only [List.cons.injEq, and_true, tList] at heq
  obtain ⟨_, _, _, _, _, hst', _⟩ := heq
  subst hst'
  obtain ⟨p', a0, hsp, hlp⟩ := selfTraitIdent_inv_inh hx'
  injection hsp with _ _ hsp
  simp only [List.cons.injEq, and_true] at hsp
  obtain ⟨rfl, rfl⟩ := hsp
  have hxx : x = x' := by
    simp only [lastSegIdentOf, hlp, Option.some.injEq] at hx
    exact hx.symm
  subst hxx
  -- the helper impls
  obtain ⟨s, gen, p, sid, hs1, hgen, hs2, ⟨a1, hl1⟩, hall, rfl⟩ := helperImpls_inherent_inv_inh hg hnone hh
  have hgen' : gen = T.node "Generics" [] [lt, tList ps, gt, wc] := by
    rw [hitem] at hgen; simpa [implGenerics] using hgen.symm
  have hs3 : s = T.node "Type::Path" [] [tNone, sp] := by
    rw [hitem] at hs1; simpa [implSelfTy] using hs1.symm
  rw [hs2] at hs3
  injection hs3 with _ _ hs3
  simp only [List.cons.injEq, and_true, true_and] at hs3
  subst hs3
  rw [hlp, Option.some.injEq] at hl1
  injection hl1 with _ _ hl1
  simp only [List.cons.injEq, and_true] at hl1
  obtain ⟨rfl, rfl⟩ := hl1
  have hegp : genericsParams (inhEg_inh lt ps gt) = genericsParams gen := by rw [hgen']; rfl
  have hargsEq : inhArgs_inh (inhEg_inh lt ps gt) = inhArgs_inh gen := inhArgs_congr_inh hegp
  have hgetD : (implGenerics (firstItem_inh g)).getD (.node "?" [] []) = gen := by rw [hfirst, hgen]; rfl
  have hmem : g.2.2.map (·.item) = first.item :: rest.map (·.item) := by rw [hg]; rfl
  obtain ⟨hlen, _⟩ := checkHelpers_inherent_inh (idx := idx) g.2.1.idents (keysOf g.2.1.idents)
    (lastSegOf_pathNode_inh _ _ _) (g.2.2.map (·.item)) g.2.1.payloads (thetasOf g) (by rw [hplen]; simp) hall
  have hchk := checkHelpersInh_of_helperImpls_inh (idx := idx) g.2.1.idents
    (fun kx h => pathShaped_of_wfPath (hid kx h).1) (lastSegOf_pathNode_inh _ _ _)
    (g.2.2.map (·.item)) g.2.1.payloads (thetasOf g) (by rw [hplen]; simp) (payloads_row_length g.2.1) hall
    (by simpa [wildcardsFixed] using hfix)
    (by simpa [selfArgsFixed_inh, hgetD] using hsa)
    (by
      intro mem hmem'
      obtain ⟨b, hb, rfl⟩ := List.mem_map.1 hmem'
      have hd := hdecl
      simp only [membersDeclare_inh, List.all_eq_true, hgetD] at hd
      have := hd b hb
      simp only [declaresFirst_inh, Bool.and_eq_true, List.all_eq_true, List.contains_iff_mem] at this
      exact argsScoped_inhArgs_inh gen _ this.1 this.2)
    (by
      intro mem hmem'
      obtain ⟨b, hb, rfl⟩ := List.mem_map.1 hmem'
      have hd := hsz
      simp only [membersSized_inh, List.all_eq_true, hgetD] at hd
      exact hd b hb)
  -- assemble
  unfold expandOKInh_inh expandOKInhCore_inh
  rw [mainHref_shape_inh]
  simp only [keysOf_length]
  rw [inhHref_inh, hargsEq] at hname hal2 hmain ⊢
  have hnm := (helperRef_read_inh (genIdentStr x idx) g.2.1.idents (inhArgs_inh gen)).1
  rw [hnm] at hname ⊢
  have hall2 : (List.filterMap id (List.map (fun mr => helperImpl idx
      (some (pathNode (pathLead p) (initSegsOf p ++
          [T.node "PathSegment" [] [T.node "Ident" [x] [], angle (inhArgs_inh gen)]])))
      g.2.1.idents mr.2 mr.1) ((g.2.2.map (·.item)).zip g.2.1.payloads))).all (fun h => match traitPathOf h with
        | some hp => refAligned_inh g.2.1.idents.length (traitParams_inh tr) (XOK.segArgs (XOK.lastSeg hp))
        | none => false) = true := by
    rw [List.all_eq_true]
    intro h hmem'
    obtain ⟨hpath, hp1, _, hp3⟩ := hal1 h hmem'
    rw [hp1]; exact hp3
  have hself : kid (T.node "ItemImpl" [] [a, d, u,
      T.node "Generics" [] [lt, tList params, gt, mkWhere (assocBoundPredicates g.2.1
        (helperRef (genIdentStr x idx) g.2.1.idents (inhArgs_inh gen)))],
      trr, T.node "Type::Path" [] [tNone, p],
      tList finals]) 5 = kid g.1 1 := by
    rw [hgid, hitem]; simp [mkHdr, implSelfTy, kid, kids]
  rw [mainSelfArgs_helperRef_inh, hal2, hchk, ← hname, hlen, hall2, hmain, hself]
  simp

/-! ### the items of the helper trait are the declarations of the first block's items -/

/-- trait item `tit` declares the item `it` without a value: same attributes (copied since /repo 2b7edb4), same name,
    same type / signature / generics, no default -/
def declares_inh (it tit : T) : Bool :=
  kid tit 0 == kid it 0 &&
  (if kind it == "ImplItem::Const" then
    kind tit == "TraitItem::Const" && kid tit 1 == kid it 3 && kid tit 3 == kid it 5 && kid tit 4 == tNone
  else if kind it == "ImplItem::Type" then
    kind tit == "TraitItem::Type" && kid tit 1 == kid it 3 && kid tit 2 == itemGenerics (kid it 4) && kid tit 5 == tNone
  else
    kind tit == "TraitItem::Fn" && kid tit 1 == kid it 3 && kid tit 2 == tNone)

theorem traitItemOfImplItem_spec_inh {it tit : T} (h : traitItemOfImplItem it = .ok tit) (hs : itemShaped_inh it = true) :
    declares_inh it tit = true := by
  unfold traitItemOfImplItem at h
  split at h
  · split at h
    · cases h; simp [declares_inh, kind, kid, kids]
    · cases h
  · cases h; simp [declares_inh, kind, kid, kids]
  · cases h; simp [declares_inh, kind, kid, kids]
  · cases h

/-- the helper trait of inherent mode: public, named `_<Self><idx>`, with the first block's safety qualifier, one item
    per item of the first block, each the declaration of that item -/
theorem helper_trait_items_inh {item : T} {idx nkeys : Nat} {tr : T}
    (h : helperTraitOfInherent item idx nkeys = .ok tr) :
    kid tr 1 = .node "Visibility::Public" [] [] ∧ kid tr 2 = kid item 2 ∧
    (∃ x, selfTraitIdent (kid item 5) = some x ∧ traitName_inh tr = genIdentStr x idx) ∧
    (kids (kid tr 9)).length = (implItems item).length ∧
    ∀ (i : Nat) (h1 : i < (implItems item).length) (h2 : i < (kids (kid tr 9)).length),
      itemShaped_inh (implItems item)[i] = true → declares_inh (implItems item)[i] (kids (kid tr 9))[i] = true := by
  obtain ⟨a, d, u, lt, ps, gt, wc, trr, st, items, x, its, lt', gt', rfl, hx, hits, rfl⟩ :=
    helperTraitOfInherent_ok_inv_inh h
  have hmap := genAll_ok_inv_inh hits
  have hlen : its.length = items.length := by
    have := congrArg List.length hmap
    simpa using this.symm
  refine ⟨by simp [kid, kids], by simp [kid, kids], ⟨x, by simpa [kid, kids] using hx, by simp [traitName_inh, kid, kids, atoms, tIdent]⟩, ?_, ?_⟩
  · simpa [kid, kids, implItems, tList] using hlen
  · simp only [kid, kids, implItems, tList, List.getD_cons_succ, List.getD_cons_zero]
    intro i h1 h2 hs
    have : traitItemOfImplItem items[i] = .ok its[i] := by
      have := congrArg (fun l => l[i]?) hmap
      simp only [List.getElem?_map, List.getElem?_eq_getElem h1, List.getElem?_eq_getElem h2, Option.map_some] at this
      exact Option.some.inj this
    exact traitItemOfImplItem_spec_inh this hs

end DI
