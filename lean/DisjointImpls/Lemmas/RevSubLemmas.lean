/-
  Helper lemmas for the C10 theorems (`Props/C10.lean`) over the model of reverse substitution
  (`RevSub.lean`): the reverse map of a substitution, the cartesian product, the side condition
  `Untouched`, and the inductions over `revSub`. Core-only.
-/
import DisjointImpls.RevSub
import DisjointImpls.Lemmas.MatchSound
namespace DI

/-! ### `RevMap.add`, `RevMap.find`, `reverseMap` -/

theorem RevMap.find_add : ∀ (rm : RevMap) (n : String) (v w : Val),
    RevMap.find (RevMap.add rm n v) w =
      if w = v then some ((RevMap.find rm v).getD [] ++ [n]) else RevMap.find rm w
  | [], n, v, w => by
      simp only [RevMap.add, RevMap.find]
      by_cases h : w = v
      · subst h; simp
      · have h' : ¬ v = w := fun e => h e.symm
        simp [h, h']
  | (u, ns) :: rest, n, v, w => by
      simp only [RevMap.add]
      by_cases huv : u = v
      · subst huv
        simp only [if_true, RevMap.find]
        by_cases h : w = u
        · subst h; simp
        · have h' : ¬ u = w := fun e => h e.symm
          simp [h, h']
      · simp only [if_neg huv, RevMap.find, RevMap.find_add rest n v w]
        by_cases h : w = v
        · subst h; simp [huv]
        · simp only [if_neg h]

/-- what `find` returns on a reverse map built from the entries `M` -/
def RevInv (rm : RevMap) (M : String × Val → Prop) : Prop :=
  ∀ v ns, RevMap.find rm v = some ns → ns ≠ [] ∧ ns.Nodup ∧ ∀ p ∈ ns, M (p, v)

theorem RevInv.add {rm : RevMap} {M : String × Val → Prop} (h : RevInv rm M) (n : String) (v : Val)
    (hn : ∀ w, ¬ M (n, w)) : RevInv (RevMap.add rm n v) (fun p => M p ∨ p = (n, v)) := by
  intro w ns hf
  rw [RevMap.find_add] at hf
  by_cases hw : w = v
  · subst hw
    simp only [if_true, Option.some.injEq] at hf
    subst hf
    cases hfind : RevMap.find rm w with
    | none => simp
    | some ms =>
      obtain ⟨_, h2, h3⟩ := h w ms hfind
      refine ⟨by simp, ?_, ?_⟩
      · simp only [Option.getD_some]
        rw [List.nodup_append]
        refine ⟨h2, by simp, ?_⟩
        intro a ha b hb
        simp only [List.mem_singleton] at hb
        subst hb
        intro e; subst e
        exact hn w (h3 a ha)
      · intro p hp
        simp only [Option.getD_some, List.mem_append, List.mem_singleton] at hp
        rcases hp with hp | hp
        · exact Or.inl (h3 p hp)
        · subst hp; exact Or.inr rfl
  · rw [if_neg hw] at hf
    obtain ⟨h1, h2, h3⟩ := h w ns hf
    exact ⟨h1, h2, fun p hp => Or.inl (h3 p hp)⟩

theorem revInv_foldl : ∀ (rest done : Subst) (rm : RevMap), RevInv rm (· ∈ done) →
    ((done ++ rest).map Prod.fst).Nodup →
    RevInv (rest.foldl (fun acc p => RevMap.add acc p.1 p.2) rm) (· ∈ done ++ rest)
  | [], done, rm, h, _ => by simpa using h
  | (n, v) :: rest, done, rm, h, hnd => by
      simp only [List.foldl_cons]
      have hn : ∀ w, ¬ (n, w) ∈ done := by
        intro w hw
        rw [List.map_append, List.nodup_append] at hnd
        exact hnd.2.2 n (List.mem_map.2 ⟨(n, w), hw, rfl⟩) n (by simp) rfl
      have h' := h.add n v hn
      have e : done ++ (n, v) :: rest = (done ++ [(n, v)]) ++ rest := by simp
      rw [e]
      apply revInv_foldl rest (done ++ [(n, v)]) _ _ (by rw [← e]; exact hnd)
      intro w ns hf
      obtain ⟨h1, h2, h3⟩ := h' w ns hf
      refine ⟨h1, h2, fun p hp => ?_⟩
      rcases h3 p hp with h3 | h3
      · exact List.mem_append.2 (Or.inl h3)
      · rw [h3]; simp

theorem lookup_of_mem_nodup : ∀ (σ : Subst) (n : String) (v : Val), (σ.map Prod.fst).Nodup →
    (n, v) ∈ σ → lookup σ n = some v
  | [], _, _, _, h => by cases h
  | (m, w) :: r, n, v, hnd, h => by
      simp only [List.map_cons, List.nodup_cons] at hnd
      simp only [lookup]
      rcases List.mem_cons.1 h with h | h
      · cases h; simp
      · have : m ≠ n := by
          intro e; subst e
          exact hnd.1 (List.mem_map.2 ⟨(m, v), h, rfl⟩)
        rw [if_neg this]
        exact lookup_of_mem_nodup r n v hnd.2 h

/-- the reverse map of a substitution with distinct keys: a hit is a non-empty duplicate-free list of
    parameters, each bound to the value looked up -/
theorem reverseMap_find {σ : Subst} (hσ : (σ.map Prod.fst).Nodup) {v : Val} {ns : List String}
    (h : RevMap.find (reverseMap σ) v = some ns) :
    ns ≠ [] ∧ ns.Nodup ∧ ∀ p ∈ ns, lookup σ p = some v := by
  have := revInv_foldl σ [] [] (by intro v ns h; simp [RevMap.find] at h) (by simpa using hσ)
  obtain ⟨h1, h2, h3⟩ := this v ns h
  exact ⟨h1, h2, fun p hp => lookup_of_mem_nodup σ p v hσ (by simpa using h3 p hp)⟩


theorem RevMap.find_some_mem : ∀ {rm : RevMap} {v : Val} {ns : List String},
    RevMap.find rm v = some ns → v ∈ rm.map Prod.fst
  | [], _, _, h => by simp [RevMap.find] at h
  | (w, ms) :: rest, v, ns, h => by
      simp only [RevMap.find] at h
      by_cases hw : w = v
      · subst hw; simp
      · rw [if_neg hw] at h
        exact List.mem_cons_of_mem _ (RevMap.find_some_mem h)

theorem RevMap.add_vals : ∀ (rm : RevMap) (n : String) (v w : Val),
    w ∈ (RevMap.add rm n v).map Prod.fst → w = v ∨ w ∈ rm.map Prod.fst
  | [], n, v, w, h => by simp [RevMap.add] at h; exact Or.inl h
  | (u, ns) :: rest, n, v, w, h => by
      simp only [RevMap.add] at h
      by_cases huv : u = v
      · rw [if_pos huv] at h; exact Or.inr (by simpa using h)
      · rw [if_neg huv] at h
        simp only [List.map_cons, List.mem_cons] at h ⊢
        rcases h with h | h
        · exact Or.inr (Or.inl h)
        · rcases RevMap.add_vals rest n v w h with h | h
          · exact Or.inl h
          · exact Or.inr (Or.inr h)

theorem foldl_add_vals : ∀ (σ : Subst) (rm : RevMap) (w : Val),
    w ∈ (σ.foldl (fun acc p => RevMap.add acc p.1 p.2) rm).map Prod.fst →
    w ∈ rm.map Prod.fst ∨ w ∈ σ.map Prod.snd
  | [], rm, w, h => Or.inl h
  | (n, v) :: rest, rm, w, h => by
      simp only [List.foldl_cons] at h
      rcases foldl_add_vals rest _ w h with h | h
      · rcases RevMap.add_vals rm n v w h with h | h
        · subst h; exact Or.inr (by simp)
        · exact Or.inl h
      · exact Or.inr (by simp only [List.map_cons, List.mem_cons]; exact Or.inr h)

/-- a reverse map built from identity bindings only never answers a `ty`/`ex` query -/
theorem reverseMap_find_identity {σ : Subst} (h : allIdentity σ = true) {v : Val} (hv : v ≠ .identity) :
    RevMap.find (reverseMap σ) v = none := by
  cases hf : RevMap.find (reverseMap σ) v with
  | none => rfl
  | some ns =>
    exfalso
    rcases foldl_add_vals σ [] v (RevMap.find_some_mem hf) with h1 | h1
    · cases h1
    · obtain ⟨p, hp, hpv⟩ := List.mem_map.1 h1
      simp only [allIdentity, List.all_eq_true] at h
      have := h p hp
      rw [hpv] at this
      exact hv (eq_of_beq this)

/-! ### `cartesian` -/

theorem mem_cartesian_cons {xs : List T} {rest : List (List T)} {l : List T} :
    l ∈ cartesian (xs :: rest) ↔ ∃ x ∈ xs, ∃ tl ∈ cartesian rest, l = x :: tl := by
  simp only [cartesian, List.mem_flatMap, List.mem_map]
  constructor
  · rintro ⟨x, hx, tl, htl, rfl⟩; exact ⟨x, hx, tl, htl, rfl⟩
  · rintro ⟨x, hx, tl, htl, rfl⟩; exact ⟨x, hx, tl, htl, rfl⟩

theorem cartesian_ne_nil : ∀ (xss : List (List T)), (∀ xs ∈ xss, xs ≠ []) → cartesian xss ≠ []
  | [], _ => by simp [cartesian]
  | xs :: rest, h => by
      have h1 : xs ≠ [] := h xs (by simp)
      have h2 := cartesian_ne_nil rest (fun ys hy => h ys (List.mem_cons_of_mem _ hy))
      obtain ⟨x, hx⟩ := List.exists_mem_of_ne_nil _ h1
      obtain ⟨tl, htl⟩ := List.exists_mem_of_ne_nil _ h2
      exact List.ne_nil_of_mem (mem_cartesian_cons.2 ⟨x, hx, tl, htl, rfl⟩)

theorem cartesian_singletons : ∀ (ks : List T), cartesian (ks.map (fun t => [t])) = [ks]
  | [] => by simp [cartesian]
  | t :: ts => by simp [cartesian, cartesian_singletons ts]

theorem flatMap_cons_nodup {c : List (List T)} (hc : c.Nodup) : ∀ (xs : List T), xs.Nodup →
    (xs.flatMap (fun x => c.map (fun tl => x :: tl))).Nodup
  | [], _ => by simp
  | x :: xs', hxs => by
      simp only [List.flatMap_cons]
      rw [List.nodup_cons] at hxs
      rw [List.nodup_append]
      refine ⟨?_, flatMap_cons_nodup hc xs' hxs.2, ?_⟩
      · exact List.Pairwise.map (x :: ·) (fun a b hab e => hab (List.cons.inj e).2) hc
      · intro a ha b hb
        simp only [List.mem_map] at ha
        simp only [List.mem_flatMap, List.mem_map] at hb
        obtain ⟨tl, _, rfl⟩ := ha
        obtain ⟨y, hy, tl', _, rfl⟩ := hb
        intro e
        injection e with e1 _
        subst e1
        exact hxs.1 hy

theorem cartesian_nodup : ∀ (xss : List (List T)), (∀ xs ∈ xss, xs.Nodup) → (cartesian xss).Nodup
  | [], _ => by simp [cartesian]
  | xs :: rest, h => by
      have hrest := cartesian_nodup rest (fun ys hy => h ys (List.mem_cons_of_mem _ hy))
      simp only [cartesian]
      exact flatMap_cons_nodup hrest xs (h xs (by simp))


/-! ### Shape of the results of `revSub` -/

theorem revSubL_eq_map (rm : RevMap) : ∀ ks : List T, revSubL rm ks = ks.map (revSub rm)
  | [] => by rw [revSubL]; rfl
  | t :: ts => by rw [revSubL, revSubL_eq_map rm ts]; rfl

def isVerbatimKind (k : String) : Bool := k == "Ign" || k == "IgnL" || k == "Eq"

/-- the ways a node is rewritten, with the conditions under which each arm is taken -/
inductive RevNode (rm : RevMap) (k : String) (as : List String) (ks : List T) (res : List T) : Prop
  | tyHit (ns : List String) : isTypeKind k = true → RevMap.find rm (.ty (.node k as ks)) = some ns → ns ≠ [] →
      res = ns.map .tparam → RevNode rm k as ks res
  | exHit (ns : List String) : isTypeKind k = false → isExprKind k = true →
      RevMap.find rm (.ex (.node k as ks)) = some ns → ns ≠ [] → res = ns.map .eparam → RevNode rm k as ks res
  | emptyHit (v : Val) : RevMap.find rm v = some [] → res = [.node k as ks] → RevNode rm k as ks res
  | verbatim : isTypeKind k = false → isExprKind k = false → isVerbatimKind k = true →
      res = [.node k as ks] → RevNode rm k as ks res
  | kids : (isTypeKind k = true ∧ RevMap.find rm (.ty (.node k as ks)) = none) ∨
      (isTypeKind k = false ∧ isExprKind k = true ∧ RevMap.find rm (.ex (.node k as ks)) = none) ∨
      (isTypeKind k = false ∧ isExprKind k = false ∧ isVerbatimKind k = false) →
      res = (cartesian (revSubL rm ks)).map (.node k as) → RevNode rm k as ks res

theorem revSub_node_cases (rm : RevMap) (k : String) (as : List String) (ks : List T) :
    RevNode rm k as ks (revSub rm (.node k as ks)) := by
  rw [revSub]
  split
  · next hk =>
    split
    · next ns hf =>
      split
      · next he =>
        have : ns = [] := by simpa using he
        subst this
        exact .emptyHit _ hf rfl
      · next hne => exact .tyHit ns hk hf (by simpa using hne) rfl
    · next hf => exact .kids (Or.inl ⟨hk, hf⟩) rfl
  · next hk =>
    have hk : isTypeKind k = false := by simpa using hk
    split
    · next hk2 =>
      split
      · next ns hf =>
        split
        · next he =>
          have : ns = [] := by simpa using he
          subst this
          exact .emptyHit _ hf rfl
        · next hne => exact .exHit ns hk hk2 hf (by simpa using hne) rfl
      · next hf => exact .kids (Or.inr (Or.inl ⟨hk, hk2, hf⟩)) rfl
    · next hk2 =>
      have hk2 : isExprKind k = false := by simpa using hk2
      split
      · next hv => exact .verbatim hk hk2 hv rfl
      · next hv => exact .kids (Or.inr (Or.inr ⟨hk, hk2, by simpa [isVerbatimKind] using hv⟩)) rfl

theorem revSub_tparam_cases (rm : RevMap) (n : String) :
    (∃ ns, RevMap.find rm (.ty (.tparam n)) = some ns ∧ ns ≠ [] ∧ revSub rm (.tparam n) = ns.map .tparam) ∨
    ((RevMap.find rm (.ty (.tparam n)) = none ∨ RevMap.find rm (.ty (.tparam n)) = some []) ∧
      revSub rm (.tparam n) = [.tparam n]) := by
  rw [revSub]
  split
  · next ns hf =>
    split
    · next he =>
      have : ns = [] := by simpa using he
      subst this
      exact Or.inr ⟨Or.inr hf, rfl⟩
    · next hne => exact Or.inl ⟨ns, hf, by simpa using hne, rfl⟩
  · next hf => exact Or.inr ⟨Or.inl hf, rfl⟩

theorem revSub_eparam_cases (rm : RevMap) (n : String) :
    (∃ ns, RevMap.find rm (.ex (.eparam n)) = some ns ∧ ns ≠ [] ∧ revSub rm (.eparam n) = ns.map .eparam) ∨
    ((RevMap.find rm (.ex (.eparam n)) = none ∨ RevMap.find rm (.ex (.eparam n)) = some []) ∧
      revSub rm (.eparam n) = [.eparam n]) := by
  rw [revSub]
  split
  · next ns hf =>
    split
    · next he =>
      have : ns = [] := by simpa using he
      subst this
      exact Or.inr ⟨Or.inr hf, rfl⟩
    · next hne => exact Or.inl ⟨ns, hf, by simpa using hne, rfl⟩
  · next hf => exact Or.inr ⟨Or.inl hf, rfl⟩

theorem revSubL_ne_nil {rm : RevMap} {ks : List T} (ih : ∀ t ∈ ks, revSub rm t ≠ []) :
    ∀ xs ∈ revSubL rm ks, xs ≠ [] := by
  rw [revSubL_eq_map]; intro xs hxs
  obtain ⟨t, ht, rfl⟩ := List.mem_map.1 hxs
  exact ih t ht

/-! ### `C10_nonempty` -/

theorem revSub_ne_nil (rm : RevMap) : ∀ t : T, revSub rm t ≠ [] := by
  apply T.ind
  · intro n
    rcases revSub_tparam_cases rm n with ⟨ns, _, hne, e⟩ | ⟨_, e⟩
    · rw [e]; simpa using hne
    · rw [e]; simp
  · intro n
    rcases revSub_eparam_cases rm n with ⟨ns, _, hne, e⟩ | ⟨_, e⟩
    · rw [e]; simpa using hne
    · rw [e]; simp
  · intro k as ks ih
    cases revSub_node_cases rm k as ks with
    | tyHit ns _ _ hne e => rw [e]; simpa using hne
    | exHit ns _ _ _ hne e => rw [e]; simpa using hne
    | emptyHit _ _ e => rw [e]; simp
    | verbatim _ _ _ e => rw [e]; simp
    | kids _ e =>
      rw [e]
      simpa using cartesian_ne_nil (revSubL rm ks) (revSubL_ne_nil ih)

/-! ### `C10_identity` -/

theorem revSub_of_no_hit (rm : RevMap) (h : ∀ v, v ≠ .identity → RevMap.find rm v = none) :
    ∀ t : T, revSub rm t = [t] := by
  apply T.ind
  · intro n
    rcases revSub_tparam_cases rm n with ⟨ns, hf, _, _⟩ | ⟨_, e⟩
    · rw [h _ (by simp)] at hf; cases hf
    · exact e
  · intro n
    rcases revSub_eparam_cases rm n with ⟨ns, hf, _, _⟩ | ⟨_, e⟩
    · rw [h _ (by simp)] at hf; cases hf
    · exact e
  · intro k as ks ih
    cases revSub_node_cases rm k as ks with
    | tyHit ns _ hf _ _ => rw [h _ (by simp)] at hf; cases hf
    | exHit ns _ _ hf _ _ => rw [h _ (by simp)] at hf; cases hf
    | emptyHit _ _ e => exact e
    | verbatim _ _ _ e => exact e
    | kids _ e =>
      rw [e, revSubL_eq_map, List.map_congr_left (g := fun t => [t]) ih, cartesian_singletons]
      rfl


/-! ### The side condition of the round trip

`untouched σ t` follows the recursion of `revSub (reverseMap σ)`: below a sub-term that is replaced by
parameters nothing is required; a parameter that is reached and left in place must be fixed by σ
(unbound, bound to `identity`, or bound to itself); a child kept verbatim (`Ign`, `IgnL`, `Eq`) must be
invariant under σ; and a parameter left in place as a generic type argument must not be bound to a const
value (`inst` would turn the argument into a const argument). -/

def tyFixed (σ : Subst) (n : String) : Bool :=
  match lookup σ n with
  | some (.ty t) => t == .tparam n
  | _ => true

def exFixed (σ : Subst) (n : String) : Bool :=
  match lookup σ n with
  | some (.ex e) => e == .eparam n
  | _ => true

def notEx (σ : Subst) (n : String) : Bool :=
  match lookup σ n with
  | some (.ex _) => false
  | _ => true

def hit (rm : RevMap) (v : Val) : Bool := (RevMap.find rm v).isSome

/-- `some n` on `GenericArgument::Type [] [tparam n]`, the shape on which `inst` is not homomorphic -/
def gaParam (k : String) (as : List String) (ks : List T) : Option String :=
  if k == "GenericArgument::Type" && as.isEmpty then
    (match ks with
     | [.tparam n] => some n
     | _ => none)
  else none

def gaOK (σ : Subst) (rm : RevMap) (k : String) (as : List String) (ks : List T) : Bool :=
  match gaParam k as ks with
  | some n => hit rm (.ty (.tparam n)) || notEx σ n
  | none => true

mutual
def untouchedAux (σ : Subst) (rm : RevMap) : T → Bool
  | .tparam n => hit rm (.ty (.tparam n)) || tyFixed σ n
  | .eparam n => hit rm (.ex (.eparam n)) || exFixed σ n
  | .node k as ks =>
      if isTypeKind k then
        hit rm (.ty (.node k as ks)) || (untouchedLAux σ rm ks && gaOK σ rm k as ks)
      else if isExprKind k then
        hit rm (.ex (.node k as ks)) || (untouchedLAux σ rm ks && gaOK σ rm k as ks)
      else if isVerbatimKind k then inst σ (.node k as ks) == .node k as ks
      else untouchedLAux σ rm ks && gaOK σ rm k as ks
def untouchedLAux (σ : Subst) (rm : RevMap) : List T → Bool
  | [] => true
  | t :: ts => untouchedAux σ rm t && untouchedLAux σ rm ts
end

/-- executable form of `Untouched` -/
def untouched (σ : Subst) (t : T) : Bool := untouchedAux σ (reverseMap σ) t

/-- every parameter of `t` that reverse substitution leaves in place is fixed by σ -/
def Untouched (σ : Subst) (t : T) : Prop := untouched σ t = true

instance (σ : Subst) (t : T) : Decidable (Untouched σ t) := by unfold Untouched; infer_instance

theorem untouchedLAux_iff {σ : Subst} {rm : RevMap} : ∀ {ks : List T},
    untouchedLAux σ rm ks = true ↔ ∀ t ∈ ks, untouchedAux σ rm t = true
  | [] => by simp [untouchedLAux]
  | t :: ts => by simp [untouchedLAux, untouchedLAux_iff (ks := ts)]

theorem special_iff_gaParam {k : String} {as : List String} {ks : List T} {n : String} :
    gaParam k as ks = some n ↔ (k = "GenericArgument::Type" ∧ as = [] ∧ ks = [.tparam n]) := by
  unfold gaParam
  constructor
  · intro h
    split at h
    · next hc =>
      simp only [Bool.and_eq_true, beq_iff_eq, List.isEmpty_iff] at hc
      split at h
      · cases h; exact ⟨hc.1, hc.2, rfl⟩
      · cases h
    · cases h
  · rintro ⟨rfl, rfl, rfl⟩
    simp

theorem untouched_kids {σ : Subst} {rm : RevMap} {k : String} {as : List String} {ks : List T}
    (hc : (isTypeKind k = true ∧ RevMap.find rm (.ty (.node k as ks)) = none) ∨
      (isTypeKind k = false ∧ isExprKind k = true ∧ RevMap.find rm (.ex (.node k as ks)) = none) ∨
      (isTypeKind k = false ∧ isExprKind k = false ∧ isVerbatimKind k = false))
    (h : untouchedAux σ rm (.node k as ks) = true) :
    untouchedLAux σ rm ks = true ∧ gaOK σ rm k as ks = true := by
  rw [untouchedAux] at h
  rcases hc with ⟨h1, h2⟩ | ⟨h1, h2, h3⟩ | ⟨h1, h2, h3⟩
  · simpa [h1, hit, h2] using h
  · simpa [h1, h2, hit, h3] using h
  · simpa [h1, h2, h3] using h


/-! ### `C10_roundtrip` -/

theorem tyFixed_inst {σ : Subst} {n : String} (h : tyFixed σ n = true) : inst σ (.tparam n) = .tparam n := by
  unfold tyFixed at h
  split at h
  · next t ht => rw [inst_tparam_ty ht]; exact eq_of_beq h
  · next hne => exact inst_tparam_other (fun t ht => hne t ht)

theorem exFixed_inst {σ : Subst} {n : String} (h : exFixed σ n = true) : inst σ (.eparam n) = .eparam n := by
  unfold exFixed at h
  split at h
  · next t ht => rw [inst_eparam_ex ht]; exact eq_of_beq h
  · next hne => exact inst_eparam_other (fun t ht => hne t ht)

theorem notEx_spec {σ : Subst} {n : String} (h : notEx σ n = true) : ∀ e, lookup σ n ≠ some (.ex e) := by
  unfold notEx at h
  intro e he
  rw [he] at h
  cases h

/-- where a bare type parameter among the results comes from -/
theorem tparam_mem_revSub {rm : RevMap} {p : String} : ∀ {t0 : T}, .tparam p ∈ revSub rm t0 →
    (∃ ns, RevMap.find rm (.ty t0) = some ns ∧ p ∈ ns) ∨
    (t0 = .tparam p ∧ (RevMap.find rm (.ty (.tparam p)) = none ∨ RevMap.find rm (.ty (.tparam p)) = some []))
  | .tparam n, h => by
      rcases revSub_tparam_cases rm n with ⟨ns, hf, _, e⟩ | ⟨hf, e⟩
      · rw [e] at h
        obtain ⟨q, hq, he⟩ := List.mem_map.1 h
        cases he
        exact Or.inl ⟨ns, hf, hq⟩
      · rw [e] at h
        simp only [List.mem_singleton, T.tparam.injEq] at h
        subst h
        exact Or.inr ⟨rfl, hf⟩
  | .eparam n, h => by
      rcases revSub_eparam_cases rm n with ⟨ns, _, _, e⟩ | ⟨_, e⟩
      · rw [e] at h
        obtain ⟨q, _, he⟩ := List.mem_map.1 h
        cases he
      · rw [e] at h; simp at h
  | .node k as ks, h => by
      cases revSub_node_cases rm k as ks with
      | tyHit ns _ hf _ e =>
        rw [e] at h
        obtain ⟨q, hq, he⟩ := List.mem_map.1 h
        cases he
        exact Or.inl ⟨ns, hf, hq⟩
      | exHit ns _ _ _ _ e =>
        rw [e] at h
        obtain ⟨q, _, he⟩ := List.mem_map.1 h
        cases he
      | emptyHit _ _ e => rw [e] at h; simp at h
      | verbatim _ _ _ e => rw [e] at h; simp at h
      | kids _ e =>
        rw [e] at h
        obtain ⟨q, _, he⟩ := List.mem_map.1 h
        cases he

/-- the statement carried through the induction -/
def RoundP (σ : Subst) (t : T) : Prop :=
  untouchedAux σ (reverseMap σ) t = true → ∀ r ∈ revSub (reverseMap σ) t, inst σ r = t

theorem roundtrip_kids {σ : Subst} : ∀ (ks rs : List T), (∀ t ∈ ks, RoundP σ t) →
    untouchedLAux σ (reverseMap σ) ks = true → rs ∈ cartesian (revSubL (reverseMap σ) ks) → instL σ rs = ks
  | [], rs, _, _, h => by
      rw [revSubL] at h; simp only [cartesian, List.mem_singleton] at h
      subst h; rw [instL]
  | t :: ts, rs, ih, hu, h => by
      rw [revSubL] at h
      obtain ⟨x, hx, tl, htl, rfl⟩ := mem_cartesian_cons.1 h
      rw [untouchedLAux] at hu; simp only [Bool.and_eq_true] at hu
      rw [instL, ih t (by simp) hu.1 x hx,
        roundtrip_kids ts tl (fun t ht => ih t (List.mem_cons_of_mem _ ht)) hu.2 htl]

theorem roundtrip_all {σ : Subst} (hσ : (σ.map Prod.fst).Nodup) : ∀ t : T, RoundP σ t := by
  apply T.ind
  · intro n hu r hr
    rw [untouchedAux] at hu
    rcases revSub_tparam_cases (reverseMap σ) n with ⟨ns, hf, _, e⟩ | ⟨hf, e⟩
    · rw [e] at hr
      obtain ⟨p, hp, rfl⟩ := List.mem_map.1 hr
      exact inst_tparam_ty ((reverseMap_find hσ hf).2.2 p hp)
    · rw [e] at hr
      simp only [List.mem_singleton] at hr
      subst hr
      rcases hf with hf | hf
      · simp only [hit, hf, Option.isSome_none, Bool.false_or] at hu
        exact tyFixed_inst hu
      · exact absurd rfl (reverseMap_find hσ hf).1
  · intro n hu r hr
    rw [untouchedAux] at hu
    rcases revSub_eparam_cases (reverseMap σ) n with ⟨ns, hf, _, e⟩ | ⟨hf, e⟩
    · rw [e] at hr
      obtain ⟨p, hp, rfl⟩ := List.mem_map.1 hr
      exact inst_eparam_ex ((reverseMap_find hσ hf).2.2 p hp)
    · rw [e] at hr
      simp only [List.mem_singleton] at hr
      subst hr
      rcases hf with hf | hf
      · simp only [hit, hf, Option.isSome_none, Bool.false_or] at hu
        exact exFixed_inst hu
      · exact absurd rfl (reverseMap_find hσ hf).1
  · intro k as ks ih hu r hr
    cases revSub_node_cases (reverseMap σ) k as ks with
    | tyHit ns _ hf _ e =>
      rw [e] at hr
      obtain ⟨p, hp, rfl⟩ := List.mem_map.1 hr
      exact inst_tparam_ty ((reverseMap_find hσ hf).2.2 p hp)
    | exHit ns _ _ hf _ e =>
      rw [e] at hr
      obtain ⟨p, hp, rfl⟩ := List.mem_map.1 hr
      exact inst_eparam_ex ((reverseMap_find hσ hf).2.2 p hp)
    | emptyHit v hf _ => exact absurd rfl (reverseMap_find hσ hf).1
    | verbatim h1 h2 h3 e =>
      rw [e] at hr
      simp only [List.mem_singleton] at hr
      subst hr
      rw [untouchedAux] at hu
      simp only [h1, h2, h3, Bool.false_eq_true, if_false, if_true] at hu
      exact eq_of_beq hu
    | kids hc e =>
      rw [e] at hr
      obtain ⟨rs, hrs, rfl⟩ := List.mem_map.1 hr
      obtain ⟨huL, hga⟩ := untouched_kids hc hu
      have hkids := roundtrip_kids ks rs ih huL hrs
      by_cases hsp : Special k as rs
      · obtain ⟨p, rfl, rfl, rfl⟩ := hsp
        -- the rewritten generic type argument is a bare parameter
        cases ks with
        | nil => rw [instL, instL] at hkids; cases hkids
        | cons t0 ts =>
          rw [instL, instL] at hkids
          injection hkids with h0 hts
          subst hts
          have hp : List.Mem (T.tparam p) (revSub (reverseMap σ) t0) := by
            rw [revSubL, revSubL] at hrs
            obtain ⟨x, hx, tl, htl, he⟩ := mem_cartesian_cons.1 hrs
            simp only [cartesian, List.mem_singleton] at htl
            subst htl
            injection he with he _
            subst he
            exact hx
          have hne : ∀ e, lookup σ p ≠ some (.ex e) := by
            rcases tparam_mem_revSub hp with ⟨ns, hf, hpn⟩ | ⟨ht0, hf⟩
            · intro e he
              rw [(reverseMap_find hσ hf).2.2 p hpn] at he
              cases he
            · subst ht0
              rcases hf with hf | hf
              · have hg : gaParam "GenericArgument::Type" [] [T.tparam p] = some p :=
                  special_iff_gaParam.2 ⟨rfl, rfl, rfl⟩
                simp only [gaOK, hg, hit, hf, Option.isSome_none, Bool.false_or] at hga
                exact notEx_spec hga
              · exact absurd rfl (reverseMap_find hσ hf).1
          rw [inst_ga_other hne, h0]
      · rw [inst_node_default σ hsp, hkids]


/-! ### `C10_nodup` -/

theorem revSub_nodup {σ : Subst} (hσ : (σ.map Prod.fst).Nodup) : ∀ t : T, (revSub (reverseMap σ) t).Nodup := by
  apply T.ind
  · intro n
    rcases revSub_tparam_cases (reverseMap σ) n with ⟨ns, hf, _, e⟩ | ⟨_, e⟩
    · rw [e]
      exact List.Pairwise.map T.tparam (fun a b hab e => hab (T.tparam.inj e)) (reverseMap_find hσ hf).2.1
    · rw [e]; simp
  · intro n
    rcases revSub_eparam_cases (reverseMap σ) n with ⟨ns, hf, _, e⟩ | ⟨_, e⟩
    · rw [e]
      exact List.Pairwise.map T.eparam (fun a b hab e => hab (T.eparam.inj e)) (reverseMap_find hσ hf).2.1
    · rw [e]; simp
  · intro k as ks ih
    cases revSub_node_cases (reverseMap σ) k as ks with
    | tyHit ns _ hf _ e =>
      rw [e]
      exact List.Pairwise.map T.tparam (fun a b hab e => hab (T.tparam.inj e)) (reverseMap_find hσ hf).2.1
    | exHit ns _ _ hf _ e =>
      rw [e]
      exact List.Pairwise.map T.eparam (fun a b hab e => hab (T.eparam.inj e)) (reverseMap_find hσ hf).2.1
    | emptyHit _ _ e => rw [e]; simp
    | verbatim _ _ _ e => rw [e]; simp
    | kids _ e =>
      rw [e]
      have hc := cartesian_nodup (revSubL (reverseMap σ) ks) (by
        rw [revSubL_eq_map]; intro xs hxs
        obtain ⟨t, ht, rfl⟩ := List.mem_map.1 hxs
        exact ih t ht)
      exact List.Pairwise.map (T.node k as) (fun a b hab e => hab (T.node.inj e).2.2) hc

end DI
