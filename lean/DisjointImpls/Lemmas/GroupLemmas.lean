/-
  Helper lemmas for the C11 / C03 / C05 theorems over the model of the grouping front end (`Group.lean`):
  the candidate filter, the driver loop of `parseGroups`, and invariants of the backtracking search.
  Core-only (uses `Lemmas/RevSubLemmas.lean` and `Lemmas/KeyLemmas.lean` for the single-bucket theorem).
-/
import DisjointImpls.Group
import DisjointImpls.Lemmas.RevSubLemmas
import DisjointImpls.Lemmas.KeyLemmas
namespace DI

/-! ### `chooseCandidate`, `filterCandidate` -/

theorem foldl_choose_mem {α : Type} (f : α → α → Prop) [∀ a b, Decidable (f a b)] : ∀ (cs : List α) (c : α),
    cs.foldl (fun acc x => if f acc x then x else acc) c ∈ c :: cs
  | [], c => by simp
  | x :: cs, c => by
      rw [List.foldl_cons]
      have := foldl_choose_mem f cs (if f c x then x else c)
      rcases List.mem_cons.1 this with h | h
      · rw [h]; split <;> simp
      · exact List.mem_cons_of_mem _ (List.mem_cons_of_mem _ h)

theorem chooseCandidate_mem {cs : List Groups} {g : Groups} (h : chooseCandidate cs = some g) : g ∈ cs := by
  cases cs with
  | nil => simp [chooseCandidate] at h
  | cons c cs =>
    simp only [chooseCandidate, Option.some.injEq] at h
    rw [← h]
    exact foldl_choose_mem (fun acc x => acc.length ≥ x.length) cs c

/-- what passes the candidate filter: every group pruned, with at least one key and pairwise distinguishable rows -/
theorem filterCandidate_some {gs p : Groups} (h : filterCandidate gs = some p) :
    p = gs.map (fun e => (e.1, e.2.1.prune, e.2.2)) ∧
    ∀ e ∈ p, e.2.1.bounds ≠ [] ∧ e.2.1.isOverlapping = false := by
  unfold filterCandidate at h
  simp only at h
  split at h
  · cases h
  · next hany =>
    cases h
    refine ⟨rfl, fun e he => ?_⟩
    simp only [List.any_eq_true, not_exists, not_and, Bool.not_eq_true, Bool.or_eq_false_iff] at hany
    have := hany e he
    exact ⟨by simpa using this.1, this.2⟩

/-! ### The driver loop of `parseGroups` -/

/-- pointwise relation between two lists of the same length -/
inductive Forall2 {α β : Type} (R : α → β → Prop) : List α → List β → Prop
  | nil : Forall2 R [] []
  | cons {a b l1 l2} : R a b → Forall2 R l1 l2 → Forall2 R (a :: l1) (b :: l2)

/-- one root was searched and a candidate chosen -/
def Chosen (env : Env) (fuel : Nat) (r : T) (g : Groups) : Prop :=
  ∃ sup cands sup', searchRec env (2 * fuel) r (env.impls r) sup [] = .ok (cands, sup') ∧
    chooseCandidate (cands.filterMap filterCandidate) = some g

theorem go_ok (env : Env) (fuel : Nat) : ∀ (roots : List T) (sup : Supersets) (acc groups : Groups),
    parseGroups.go env fuel roots sup acc = .ok groups →
    ∃ chosen : List Groups, groups = acc ++ chosen.flatten ∧ Forall2 (Chosen env fuel) roots chosen
  | [], sup, acc, groups, h => by
      rw [parseGroups.go] at h
      cases h
      exact ⟨[], by simp, .nil⟩
  | r :: rest, sup, acc, groups, h => by
      rw [parseGroups.go] at h
      split at h
      · cases h
      · next cands sup' hs =>
        split at h
        · cases h
        · next g hg =>
          obtain ⟨chosen, he, hf⟩ := go_ok env fuel rest sup' (acc ++ g) groups h
          exact ⟨g :: chosen, by rw [he]; simp, .cons ⟨sup, cands, sup', hs, hg⟩ hf⟩

/-- the environment `parseGroups` builds -/
def parseEnv (rawItems : List T) : Env :=
  let buckets := mkBuckets (rawItems.map mkBlk)
  ⟨buckets, (makeSets (buckets.map (·.1))).2⟩

def parseFuel (rawItems : List T) : Nat :=
  (rawItems.map mkBlk).length + ((mkBuckets (rawItems.map mkBlk)).map (·.1)).length + 2

def parseRoots (rawItems : List T) : List T :=
  (((makeSets ((mkBuckets (rawItems.map mkBlk)).map (·.1))).1).filter (fun e => e.2 == 0)).map (·.1)

theorem parseGroups_ok {rawItems : List T} {groups : Groups} (h : parseGroups rawItems = .ok groups) :
    ∃ chosen : List Groups, groups = chosen.flatten ∧
      Forall2 (Chosen (parseEnv rawItems) (parseFuel rawItems)) (parseRoots rawItems) chosen := by
  unfold parseGroups at h
  simp only at h
  obtain ⟨chosen, he, hf⟩ := go_ok _ _ _ _ _ _ h
  exact ⟨chosen, by simpa using he, hf⟩

theorem forall₂_right {α β : Type} {R : α → β → Prop} {l1 : List α} {l2 : List β} (h : Forall2 R l1 l2) :
    ∀ b ∈ l2, ∃ a ∈ l1, R a b := by
  induction h with
  | nil => intro b hb; cases hb
  | cons hab _ ih =>
    intro b hb
    rcases List.mem_cons.1 hb with rfl | hb
    · exact ⟨_, by simp, hab⟩
    · obtain ⟨a, ha, hr⟩ := ih b hb
      exact ⟨a, List.mem_cons_of_mem _ ha, hr⟩

/-- every group of an accepted grouping comes out of the candidate filter applied to a search result -/
theorem parseGroups_group {rawItems : List T} {groups : Groups} (h : parseGroups rawItems = .ok groups)
    {e : T × ABG × List Blk} (he : e ∈ groups) :
    ∃ r sup cands sup' cand p, searchRec (parseEnv rawItems) (2 * parseFuel rawItems) r ((parseEnv rawItems).impls r) sup [] = .ok (cands, sup') ∧
      cand ∈ cands ∧ filterCandidate cand = some p ∧ e ∈ p := by
  obtain ⟨chosen, rfl, hf⟩ := parseGroups_ok h
  obtain ⟨g, hg, heg⟩ := List.mem_flatten.1 he
  obtain ⟨r, _, sup, cands, sup', hs, hc⟩ := forall₂_right hf g hg
  obtain ⟨cand, hcand, hfc⟩ := List.mem_filterMap.1 (chooseCandidate_mem hc)
  exact ⟨r, sup, cands, sup', cand, g, hs, hcand, hfc, heg⟩


/-! ### Invariants of the search -/

/-- a property of the ok-states is kept by a fold that threads errors -/
theorem foldl_except_inv {α σ ε : Type} (f : Except ε σ → α → Except ε σ) (I : σ → Prop) :
    ∀ (l : List α), (∀ a ∈ l, ∀ s, I s → ∀ s', f (.ok s) a = .ok s' → I s') →
      (∀ a e, f (.error e) a = .error e) →
      ∀ st, (∀ s, st = .ok s → I s) → ∀ s', l.foldl f st = .ok s' → I s'
  | [], _, _, st, hst, s', h => hst s' h
  | a :: l, hf, herr, st, hst, s', h => by
      rw [List.foldl_cons] at h
      refine foldl_except_inv f I l (fun b hb => hf b (List.mem_cons_of_mem _ hb)) herr (f st a) ?_ s' h
      intro s hs
      cases st with
      | error e => rw [herr] at hs; cases hs
      | ok s0 => exact hf a (by simp) s0 (hst s0 rfl) s hs

theorem mem_setGroup {gs : Groups} {id : T} {v : ABG × List Blk} {e : T × ABG × List Blk}
    (h : e ∈ setGroup gs id v) : e ∈ gs ∨ e = (id, v) := by
  simp only [setGroup, List.mem_map] at h
  obtain ⟨e0, he0, rfl⟩ := h
  by_cases hc : (e0.1 == id) = true
  · rw [if_pos hc]; exact Or.inr (by rw [eq_of_beq hc])
  · rw [if_neg hc]; exact Or.inl he0

/-- what a per-group property `GP` and a per-block precondition `BP` must satisfy to be carried by the search -/
structure SearchInv (env : Env) (GP : T × ABG × List Blk → Prop) (BP : T → Blk → Prop) : Prop where
  fresh : ∀ id b, BP id b → GP (id, ABG.new b, [b])
  join : ∀ gid abg ms currId curr σ inter, GP (gid, abg, ms) → BP currId curr →
    ((∃ σ', (currId, σ') ∈ env.subsets.get gid) ∨ gid = currId) → inter ∈ abg.intersection curr σ →
    GP (gid, inter, ms ++ [curr])
  impls : ∀ id, ∀ b ∈ env.impls id, BP id b

def GoodCands (GP : T × ABG × List Blk → Prop) (cs : List Groups) : Prop := ∀ g ∈ cs, ∀ e ∈ g, GP e

theorem search_inv {env : Env} {GP : T × ABG × List Blk → Prop} {BP : T → Blk → Prop} (H : SearchInv env GP BP) :
    ∀ fuel : Nat,
      (∀ currId impls sup groups res sup', searchRec env fuel currId impls sup groups = .ok (res, sup') →
        (∀ b ∈ impls, BP currId b) → (∀ e ∈ groups, GP e) → GoodCands GP res) ∧
      (∀ currId subs sup acc res sup', searchUnlock env fuel currId subs sup acc = .ok (res, sup') →
        GoodCands GP acc → GoodCands GP res)
  | 0 => by
      constructor
      · intro currId impls sup groups res sup' h; rw [searchRec] at h; cases h
      · intro currId subs sup acc res sup' h; rw [searchUnlock] at h; cases h
  | fuel + 1 => by
      obtain ⟨ihR, ihU⟩ := search_inv H fuel
      constructor
      · intro currId impls sup groups res sup' h hB hG
        cases impls with
        | nil =>
          rw [searchRec] at h
          exact ihU _ _ _ _ _ _ h (fun g hg e he => by
            simp only [List.mem_singleton] at hg; subst hg; exact hG e he)
        | cons curr other =>
          rw [searchRec] at h
          dsimp only at h
          have hcurr : BP currId curr := hB curr (by simp)
          have hother : ∀ b ∈ other, BP currId b := fun b hb => hB b (List.mem_cons_of_mem _ hb)
          generalize htry : List.foldl _ _ groups = tryG at h
          have hgood1 : ∀ s, tryG = .ok s → GoodCands GP s.1 := by
            rw [← htry]
            refine foldl_except_inv _ (fun (s : List Groups × Supersets × Bool) => GoodCands GP s.1) groups ?_ ?_ _ ?_
            · intro ge hge s hs s' hs'
              obtain ⟨acc, newSup, any⟩ := s
              dsimp only at hs'
              -- which substitution, if any, lets the current block join this group
              split at hs'
              · cases hs'
              · cases hs'; exact hs
              · next σ hsubs =>
                  have hjoin : (∃ σ', (currId, σ') ∈ env.subsets.get ge.1) ∨ ge.1 = currId := by
                    split at hsubs
                    · next e he =>
                      have h1 := List.find?_some he
                      have h2 := List.mem_of_find?_eq_some he
                      refine Or.inl ⟨e.2, ?_⟩
                      rw [← eq_of_beq h1]; exact h2
                    · split at hsubs
                      · next hc => exact Or.inr (eq_of_beq hc)
                      · cases hsubs
                  revert hs'
                  refine foldl_except_inv _ (fun (s : List Groups × Supersets × Bool) => GoodCands GP s.1)
                    (ge.2.1.intersection curr σ) ?_ ?_ _ ?_ s'
                  · intro inter hinter s2 hs2 s2' hs2'
                    obtain ⟨acc2, newSup2, any2⟩ := s2
                    dsimp only at hs2'
                    split at hs2'
                    · cases hs2'
                    · next r sp' hr =>
                      have hr' := ihR _ _ _ _ _ _ hr hother (fun e he => by
                        rcases mem_setGroup he with he | he
                        · exact hG e he
                        · rw [he]
                          exact H.join ge.1 ge.2.1 ge.2.2 currId curr σ inter (hG ge hge) hcurr hjoin hinter)
                      split at hs2'
                      · cases hs2'; exact hs2
                      · cases hs2'
                        intro g hg
                        rcases List.mem_append.1 hg with h1 | h1
                        · exact hs2 g h1
                        · exact hr' g h1
                  · intro a e; rfl
                  · intro s0 hs0; cases hs0; exact hs
            · intro a e; rfl
            · intro s hs; cases hs; intro g hg; cases hg
          split at h
          · cases h
          · next x acc newSup any =>
            have hacc : GoodCands GP acc := hgood1 _ rfl
            split at h
            · cases h
            · next x2 acc2 newSup2 any2 hfresh =>
              cases h
              split at hfresh
              · cases hfresh; exact hacc
              · split at hfresh
                · cases hfresh
                · next r sp' hr =>
                  have hr' := ihR _ _ _ _ _ _ hr hother (fun e he => by
                    rcases List.mem_append.1 he with he | he
                    · exact hG e he
                    · simp only [List.mem_singleton] at he
                      rw [he]; exact H.fresh currId curr hcurr)
                  split at hfresh
                  · cases hfresh; exact hacc
                  · cases hfresh
                    intro g hg
                    rcases List.mem_append.1 hg with h1 | h1
                    · exact hacc g h1
                    · exact hr' g h1
      · intro currId subs sup acc res sup' h hA
        cases subs with
        | nil => rw [searchUnlock] at h; cases h; exact hA
        | cons s rest =>
          obtain ⟨subId, σs⟩ := s
          rw [searchUnlock] at h
          dsimp only at h
          split at h
          · generalize hstep : List.foldl _ _ acc = step at h
            have hgood : ∀ s', step = .ok s' → GoodCands GP s'.1 := by
              rw [← hstep]
              refine foldl_except_inv _ (fun (s : List Groups × Supersets) => GoodCands GP s.1) acc ?_ ?_ _ ?_
              · intro g hg s hs s' hs'
                obtain ⟨out, sp⟩ := s
                dsimp only at hs'
                split at hs'
                · cases hs'
                · next r sp' hr =>
                  cases hs'
                  intro g' hg'
                  rcases List.mem_append.1 hg' with h1 | h1
                  · exact hs g' h1
                  · exact ihR _ _ _ _ _ _ hr (H.impls subId) (hA g hg) g' h1
              · intro a e; rfl
              · intro s hs; cases hs; intro g hg; cases hg
            split at h
            · cases h
            · exact ihU _ _ _ _ _ _ h (hgood _ rfl)
          · exact ihU _ _ _ _ _ _ h hA


/-! ### `findKey`, `insertKey`, `cartesianG` -/

theorem findKey_mem {α : Type} : ∀ {bs : List (BKey × α)} {k : BKey} {v : α}, findKey bs k = some v → ∃ k', (k', v) ∈ bs
  | [], _, _, h => by simp [findKey] at h
  | (k', w) :: rest, k, v, h => by
      simp only [findKey] at h
      split at h
      · cases h; exact ⟨k', by simp⟩
      · obtain ⟨k'', hk⟩ := findKey_mem h; exact ⟨k'', List.mem_cons_of_mem _ hk⟩

theorem mem_insertKey {α : Type} {bs : List (BKey × α)} {k : BKey} {v : α} {e : BKey × α}
    (h : e ∈ insertKey bs k v) : e ∈ bs ∨ e.2 = v := by
  unfold insertKey at h
  split at h
  · obtain ⟨e0, he0, rfl⟩ := List.mem_map.1 h
    split
    · exact Or.inr rfl
    · exact Or.inl he0
  · rcases List.mem_append.1 h with h | h
    · exact Or.inl h
    · simp only [List.mem_singleton] at h; rw [h]; exact Or.inr rfl

theorem mem_foldl_insertKey {α : Type} : ∀ (es : List (BKey × α)) (acc : List (BKey × α)) (e : BKey × α),
    e ∈ es.foldl (fun acc x => insertKey acc x.1 x.2) acc → e ∈ acc ∨ ∃ x ∈ es, e.2 = x.2
  | [], acc, e, h => Or.inl h
  | x :: es, acc, e, h => by
      rw [List.foldl_cons] at h
      rcases mem_foldl_insertKey es _ e h with h | ⟨y, hy, he⟩
      · rcases mem_insertKey h with h | h
        · exact Or.inl h
        · exact Or.inr ⟨x, by simp, h⟩
      · exact Or.inr ⟨y, List.mem_cons_of_mem _ hy, he⟩

theorem mem_cartesianG {α : Type} : ∀ {xss : List (List α)} {combo : List α}, combo ∈ cartesianG xss →
    ∀ x ∈ combo, ∃ xs ∈ xss, x ∈ xs
  | [], combo, h, x, hx => by
      simp only [cartesianG, List.mem_singleton] at h; subst h; cases hx
  | xs :: rest, combo, h, x, hx => by
      simp only [cartesianG, List.mem_flatMap, List.mem_map] at h
      obtain ⟨y, hy, tl, htl, rfl⟩ := h
      rcases List.mem_cons.1 hx with rfl | hx
      · exact ⟨xs, by simp, hy⟩
      · obtain ⟨ys, hys, hxy⟩ := mem_cartesianG htl x hx
        exact ⟨ys, List.mem_cons_of_mem _ hys, hxy⟩

/-- every key of an intersection carries the rows of a key of the group plus one new row -/
theorem intersection_rows {g : ABG} {other : Blk} {σ : Subst} {inter : ABG} (h : inter ∈ g.intersection other σ) :
    ∀ kr ∈ inter.bounds, ∃ k' rows r, (k', rows) ∈ g.bounds ∧ kr.2 = rows ++ [r] := by
  unfold ABG.intersection at h
  simp only [List.mem_map] at h
  obtain ⟨combo, hcombo, rfl⟩ := h
  intro kr hkr
  rcases mem_foldl_insertKey _ _ kr hkr with h | ⟨x, hx, hkx⟩
  · cases h
  · simp only [List.mem_filterMap, id] at hx
    obtain ⟨ox, hox, rfl⟩ := hx
    obtain ⟨xs, hxs, hmem⟩ := mem_cartesianG hcombo (some x) hox
    obtain ⟨e, _, rfl⟩ := List.mem_map.1 hxs
    obtain ⟨sk, _, hsk⟩ := List.mem_map.1 hmem
    split at hsk
    · next rows hf =>
      cases hsk
      obtain ⟨k', hk'⟩ := findKey_mem hf
      exact ⟨k', rows, e.2, hk', hkx⟩
    · cases hsk

/-- `ABG.new`: one row per key -/
theorem new_rows (b : Blk) : ∀ kr ∈ (ABG.new b).bounds, kr.2.length = 1 := by
  unfold ABG.new
  simp only
  suffices h : ∀ (raw : List RawBound) (acc : List (BKey × List Row)), (∀ kr ∈ acc, kr.2.length = 1) →
      ∀ kr ∈ raw.foldl (fun (acc : List (BKey × List Row)) rb =>
        match findKey acc (rb.bounded, rb.tr) with
        | some (r0 :: rest) => insertKey acc (rb.bounded, rb.tr) (Row.extend r0 rb.binds :: rest)
        | some [] => insertKey acc (rb.bounded, rb.tr) [Row.extend [] rb.binds]
        | none => acc ++ [((rb.bounded, rb.tr), [Row.extend [] rb.binds])]) acc, kr.2.length = 1 from
    h b.raw [] (fun kr hkr => by cases hkr)
  intro raw
  induction raw with
  | nil => intro acc h; exact h
  | cons rb raw ih =>
    intro acc hacc
    rw [List.foldl_cons]
    apply ih
    intro kr hkr
    split at hkr
    · next r0 rest hf =>
      obtain ⟨k', hk'⟩ := findKey_mem hf
      have hl := hacc _ hk'
      rcases mem_insertKey hkr with h | h
      · exact hacc kr h
      · rw [h]; simpa using hl
    · rcases mem_insertKey hkr with h | h
      · exact hacc kr h
      · rw [h]; rfl
    · rcases List.mem_append.1 hkr with h | h
      · exact hacc kr h
      · simp only [List.mem_singleton] at h; rw [h]; rfl


/-! ### Buckets -/

/-- every block sits in the bucket of its own header -/
def BucketsWF (buckets : List (T × List Blk)) : Prop := ∀ bk ∈ buckets, ∀ b ∈ bk.2, groupIdOf b.item = bk.1

theorem mkBuckets_wf (blocks : List Blk) : BucketsWF (mkBuckets blocks) := by
  unfold mkBuckets
  suffices h : ∀ (bs : List Blk) (acc : List (T × List Blk)), BucketsWF acc →
      BucketsWF (bs.foldl (fun acc b =>
        let id := groupIdOf b.item
        match acc.find? (fun e => e.1 == id) with
        | some _ => acc.map (fun e => if e.1 == id then
            (e.1, if e.2.any (fun x => x.item == b.item) then e.2.map (fun x => if x.item == b.item then b else x) else e.2 ++ [b]) else e)
        | none => acc ++ [(id, [b])]) acc) from h blocks [] (fun bk hbk => by cases hbk)
  intro bs
  induction bs with
  | nil => intro acc h; exact h
  | cons b bs ih =>
    intro acc hacc
    rw [List.foldl_cons]
    apply ih
    dsimp only
    split
    · intro bk hbk x hx
      obtain ⟨e, he, rfl⟩ := List.mem_map.1 hbk
      by_cases hid : (e.1 == groupIdOf b.item) = true
      · rw [if_pos hid] at hx ⊢
        dsimp only at hx ⊢
        split at hx
        · obtain ⟨y, hy, rfl⟩ := List.mem_map.1 hx
          split
          · exact (eq_of_beq hid).symm
          · exact hacc e he y hy
        · rcases List.mem_append.1 hx with hx | hx
          · exact hacc e he x hx
          · simp only [List.mem_singleton] at hx; rw [hx]; exact (eq_of_beq hid).symm
      · rw [if_neg hid] at hx ⊢; exact hacc e he x hx
    · intro bk hbk x hx
      rcases List.mem_append.1 hbk with hbk | hbk
      · exact hacc bk hbk x hx
      · simp only [List.mem_singleton] at hbk
        rw [hbk] at hx ⊢
        simp only [List.mem_singleton] at hx
        rw [hx]

theorem impls_mem {env : Env} {id : T} {b : Blk} (h : b ∈ env.impls id) :
    ∃ bk ∈ env.buckets, bk.1 = id ∧ b ∈ bk.2 := by
  unfold Env.impls at h
  split at h
  · next bk hf =>
    have hp : (bk.1 == id) = true := by simpa using List.find?_some hf
    exact ⟨bk, List.mem_of_find?_eq_some hf, eq_of_beq hp, h⟩
  · cases h

/-! ### The three invariants -/

/-- rows are aligned with members: every key of the group has one row per member -/
def RowsAligned (e : T × ABG × List Blk) : Prop := ∀ kr ∈ e.2.1.bounds, kr.2.length = e.2.2.length

theorem rowsAligned_inv (env : Env) : SearchInv env RowsAligned (fun _ _ => True) where
  fresh id b _ := by intro kr hkr; simpa using new_rows b kr hkr
  join gid abg ms currId curr σ inter hg _ _ hinter := by
    intro kr hkr
    obtain ⟨k', rows, r, hk', he⟩ := intersection_rows hinter kr hkr
    have := hg _ hk'
    simp only at this ⊢
    rw [he]; simp [this]
  impls _ _ _ := trivial

/-- every member's header is the group's header or one the group's header generalises (recorded in `subsets`) -/
def MembersGeneralised (env : Env) (e : T × ABG × List Blk) : Prop :=
  ∀ b ∈ e.2.2, groupIdOf b.item = e.1 ∨ ∃ σ, (groupIdOf b.item, σ) ∈ env.subsets.get e.1

theorem membersGeneralised_inv (env : Env) (hw : BucketsWF env.buckets) :
    SearchInv env (MembersGeneralised env) (fun id b => groupIdOf b.item = id) where
  fresh id b hb := by
    intro x hx
    simp only [List.mem_singleton] at hx
    rw [hx]; exact Or.inl hb
  join gid abg ms currId curr σ inter hg hb hjoin _ := by
    intro x hx
    simp only at hx ⊢
    rcases List.mem_append.1 hx with hx | hx
    · exact hg x hx
    · simp only [List.mem_singleton] at hx
      rw [hx, hb]
      rcases hjoin with ⟨σ', hσ'⟩ | h
      · exact Or.inr ⟨σ', hσ'⟩
      · exact Or.inl h.symm
  impls id b hb := by
    obtain ⟨bk, hbk, hid, hmem⟩ := impls_mem hb
    rw [← hid]; exact hw bk hbk b hmem

/-- every member is a block of some bucket -/
def MembersFromBuckets (env : Env) (e : T × ABG × List Blk) : Prop := ∀ b ∈ e.2.2, ∃ bk ∈ env.buckets, b ∈ bk.2

theorem membersFromBuckets_inv (env : Env) :
    SearchInv env (MembersFromBuckets env) (fun _ b => ∃ bk ∈ env.buckets, b ∈ bk.2) where
  fresh id b hb := by
    intro x hx
    simp only [List.mem_singleton] at hx
    rw [hx]; exact hb
  join gid abg ms currId curr σ inter hg hb _ _ := by
    intro x hx
    simp only at hx
    rcases List.mem_append.1 hx with hx | hx
    · exact hg x hx
    · simp only [List.mem_singleton] at hx
      rw [hx]; exact hb
  impls id b hb := by
    obtain ⟨bk, hbk, _, hmem⟩ := impls_mem hb
    exact ⟨bk, hbk, hmem⟩

/-- a search from a root with no groups yet: every candidate satisfies the invariant -/
theorem search_root_inv {env : Env} {GP BP} (H : SearchInv env GP BP) {fuel : Nat} {r : T} {sup : Supersets}
    {cands : List Groups} {sup' : Supersets} (h : searchRec env fuel r (env.impls r) sup [] = .ok (cands, sup')) :
    GoodCands GP cands :=
  (search_inv H fuel).1 _ _ _ _ _ _ h (H.impls r) (fun e he => by cases he)


/-- `make_sets` records a pair only when the matcher said yes -/
theorem makeSets_subsets {ids : List T} {g1 g2 : T} {σ : Subst} (h : (g2, σ) ∈ (makeSets ids).2.get g1) :
    g1 ≠ g2 ∧ ∃ l, sup g1 g2 = .yes σ l := by
  unfold Subsets.get at h
  split at h
  · next e hf =>
    have he := List.mem_of_find?_eq_some hf
    have hid : (e.1 == g1) = true := by simpa using List.find?_some hf
    simp only [makeSets, List.mem_map] at he
    obtain ⟨id, _, rfl⟩ := he
    simp only [List.mem_map, List.mem_filter] at h
    obtain ⟨p, ⟨hp, hp1⟩, hp2⟩ := h
    simp only [List.mem_flatMap, List.mem_filterMap] at hp
    obtain ⟨a, _, b, _, hab⟩ := hp
    split at hab
    · cases hab
    · next hne =>
      split at hab
      · next σ' l hs =>
        cases hab
        simp only [Prod.mk.injEq] at hp2
        obtain ⟨rfl, rfl⟩ := hp2
        have : a = g1 := (eq_of_beq hp1).trans (eq_of_beq hid)
        subst this
        exact ⟨by simpa using hne, l, hs⟩
      · cases hab
  · cases h

/-- a group of an accepted grouping is a pruned group of a search candidate that passed the filter -/
theorem parseGroups_group' {rawItems : List T} {groups : Groups} (h : parseGroups rawItems = .ok groups)
    {e : T × ABG × List Blk} (he : e ∈ groups) {GP BP} (H : SearchInv (parseEnv rawItems) GP BP) :
    ∃ e0, GP e0 ∧ e = (e0.1, e0.2.1.prune, e0.2.2) ∧ e.2.1.bounds ≠ [] ∧ e.2.1.isOverlapping = false := by
  obtain ⟨r, sup, cands, sup', cand, p, hs, hcand, hfc, hep⟩ := parseGroups_group h he
  obtain ⟨hp, hfilt⟩ := filterCandidate_some hfc
  rw [hp] at hep
  obtain ⟨e0, he0, rfl⟩ := List.mem_map.1 hep
  have := hfilt _ (by rw [hp]; exact List.mem_map.2 ⟨e0, he0, rfl⟩)
  exact ⟨e0, search_root_inv H hs cand hcand e0 he0, rfl, this⟩

theorem isOverlapping_false {g : ABG} (h : g.isOverlapping = false) :
    ∀ (i j : Nat) (a b : List (Option T)), i ≠ j → g.payloads[i]? = some a → g.payloads[j]? = some b → rowGeneralises a b = false := by
  intro i j a b hij ha hb
  unfold ABG.isOverlapping at h
  simp only [List.any_eq_false, List.mem_range, Bool.and_eq_true, bne_iff_ne, ne_eq, not_and,
    Bool.not_eq_true] at h
  have hi : i < g.payloads.length := by
    rcases Nat.lt_or_ge i g.payloads.length with h1 | h1
    · exact h1
    · rw [List.getElem?_eq_none h1] at ha; cases ha
  have hj : j < g.payloads.length := by
    rcases Nat.lt_or_ge j g.payloads.length with h1 | h1
    · exact h1
    · rw [List.getElem?_eq_none h1] at hb; cases hb
  have := h i hi j hj hij
  rw [ha, hb] at this
  exact this


/-! ### Partition: every block placed exactly once (inputs without nested headers) -/

def Groups.mem (g : Groups) : List Blk := g.flatMap (fun e => e.2.2)
def Groups.ids (g : Groups) : List T := g.map (fun e => e.1)

theorem setGroup_ids (gs : Groups) (id : T) (v : ABG × List Blk) : (setGroup gs id v).ids = gs.ids := by
  simp only [Groups.ids, setGroup, List.map_map]
  apply List.map_congr_left
  intro e _
  simp only [Function.comp]
  split <;> rfl

theorem setGroup_noop : ∀ (gs : Groups) (id : T) (v : ABG × List Blk), id ∉ gs.ids → setGroup gs id v = gs
  | [], _, _, _ => rfl
  | e :: gs, id, v, h => by
      simp only [Groups.ids, List.map_cons, List.mem_cons, not_or] at h
      simp only [setGroup, List.map_cons]
      rw [if_neg (by intro hc; exact h.1 (eq_of_beq hc).symm)]
      have := setGroup_noop gs id v h.2
      simp only [setGroup] at this
      rw [this]

theorem setGroup_mem_perm : ∀ (gs : Groups) (ge : T × ABG × List Blk) (x : ABG) (curr : Blk),
    gs.ids.Nodup → ge ∈ gs → (setGroup gs ge.1 (x, ge.2.2 ++ [curr])).mem.Perm (gs.mem ++ [curr])
  | [], _, _, _, _, h => by cases h
  | e :: gs, ge, x, curr, hn, hge => by
      simp only [Groups.ids, List.map_cons, List.nodup_cons] at hn
      by_cases hid : e.1 = ge.1
      · -- the head is the group
        have hee : ge = e := by
          rcases List.mem_cons.1 hge with h | h
          · exact h
          · exact absurd (List.mem_map.2 ⟨ge, h, hid.symm⟩) hn.1
        subst hee
        have hrest : setGroup gs ge.1 (x, ge.2.2 ++ [curr]) = gs := setGroup_noop gs _ _ hn.1
        have : setGroup (ge :: gs) ge.1 (x, ge.2.2 ++ [curr]) = (ge.1, x, ge.2.2 ++ [curr]) :: gs := by
          have h2 := hrest
          simp only [setGroup] at h2 ⊢
          rw [List.map_cons, h2]; simp
        rw [this]
        simp only [Groups.mem, List.flatMap_cons, List.append_assoc]
        exact List.Perm.append_left _ List.perm_append_comm
      · have hge' : ge ∈ gs := by
          rcases List.mem_cons.1 hge with h | h
          · exact absurd (by rw [h]) hid
          · exact h
        have ih := setGroup_mem_perm gs ge x curr hn.2 hge'
        have : setGroup (e :: gs) ge.1 (x, ge.2.2 ++ [curr]) = e :: setGroup gs ge.1 (x, ge.2.2 ++ [curr]) := by
          simp only [setGroup, List.map_cons]
          rw [if_neg (by intro hc; exact hid (eq_of_beq hc))]
        rw [this]
        simp only [Groups.mem, List.flatMap_cons, List.append_assoc] at ih ⊢
        exact List.Perm.append_left _ ih

/-- a candidate that keeps the ids distinct and places exactly the given blocks -/
def Placed (groups : Groups) (impls : List Blk) (g : Groups) : Prop :=
  g.ids.Nodup ∧ g.mem.Perm (groups.mem ++ impls)

theorem searchRec_placed (env : Env) (hns : ∀ id, env.subsets.get id = []) :
    ∀ (fuel : Nat) (currId : T) (impls : List Blk) (sup : Supersets) (groups : Groups) (res : List Groups)
      (sup' : Supersets), searchRec env fuel currId impls sup groups = .ok (res, sup') → groups.ids.Nodup →
      ∀ g ∈ res, Placed groups impls g
  | 0, _, _, _, _, _, _, h, _ => by rw [searchRec] at h; cases h
  | fuel + 1, currId, [], sup, groups, res, sup', h, hn => by
      rw [searchRec, hns] at h
      cases fuel with
      | zero => rw [searchUnlock] at h; cases h
      | succ f =>
        rw [searchUnlock] at h
        cases h
        intro g hg
        simp only [List.mem_singleton] at hg
        subst hg
        exact ⟨hn, by simp⟩
  | fuel + 1, currId, curr :: other, sup, groups, res, sup', h, hn => by
      have ih := searchRec_placed env hns fuel
      rw [searchRec] at h
      dsimp only at h
      -- a candidate for the rest, found after placing `curr` into `gs'`
      have key : ∀ (gs' : Groups) r sp', searchRec env fuel currId other sup gs' = .ok (r, sp') →
          gs'.ids.Nodup → gs'.mem.Perm (groups.mem ++ [curr]) → ∀ g ∈ r, Placed groups (curr :: other) g := by
        intro gs' r sp' hr hn' hp g hg
        obtain ⟨h1, h2⟩ := ih _ _ _ _ _ _ hr hn' g hg
        refine ⟨h1, h2.trans ?_⟩
        have := List.Perm.append_right other hp
        simpa using this
      generalize htry : List.foldl _ _ groups = tryG at h
      have hgood1 : ∀ s, tryG = .ok s → ∀ g ∈ s.1, Placed groups (curr :: other) g := by
        rw [← htry]
        refine foldl_except_inv _ (fun (s : List Groups × Supersets × Bool) => ∀ g ∈ s.1, Placed groups (curr :: other) g)
          groups ?_ ?_ _ ?_
        · intro ge hge s hs s' hs'
          obtain ⟨acc, newSup, any⟩ := s
          dsimp only at hs'
          split at hs'
          · cases hs'
          · cases hs'; exact hs
          · next σ _ =>
            revert hs'
            refine foldl_except_inv _ (fun (s : List Groups × Supersets × Bool) => ∀ g ∈ s.1, Placed groups (curr :: other) g)
              (ge.2.1.intersection curr σ) ?_ ?_ _ ?_ s'
            · intro inter _ s2 hs2 s2' hs2'
              obtain ⟨acc2, newSup2, any2⟩ := s2
              dsimp only at hs2'
              split at hs2'
              · cases hs2'
              · next r sp' hr =>
                have hr' := key _ r sp' hr (by rw [setGroup_ids]; exact hn)
                  (setGroup_mem_perm groups ge inter curr hn hge)
                split at hs2'
                · cases hs2'; exact hs2
                · cases hs2'
                  intro g hg
                  rcases List.mem_append.1 hg with h1 | h1
                  · exact hs2 g h1
                  · exact hr' g h1
            · intro a e; rfl
            · intro s0 hs0; cases hs0; exact hs
        · intro a e; rfl
        · intro s hs; cases hs; intro g hg; cases hg
      split at h
      · cases h
      · next x acc newSup any =>
        have hacc := hgood1 _ rfl
        split at h
        · cases h
        · next x2 acc2 newSup2 any2 hfresh =>
          cases h
          split at hfresh
          · cases hfresh; exact hacc
          · next hnone =>
            split at hfresh
            · cases hfresh
            · next r sp' hr =>
              have hfreshId : currId ∉ groups.ids := by
                intro hm
                obtain ⟨e, he, rfl⟩ := List.mem_map.1 hm
                apply hnone
                exact List.any_eq_true.2 ⟨e, he, by simp⟩
              have hr' := key _ r sp' hr (by
                  simp only [Groups.ids, List.map_append, List.map_cons, List.map_nil]
                  rw [List.nodup_append]
                  refine ⟨hn, by simp, ?_⟩
                  intro a ha b hb
                  simp only [List.mem_singleton] at hb
                  rw [hb]; intro e; rw [e] at ha; exact hfreshId ha)
                (by simp [Groups.mem])
              split at hfresh
              · cases hfresh; exact hacc
              · cases hfresh
                intro g hg
                rcases List.mem_append.1 hg with h1 | h1
                · exact hacc g h1
                · exact hr' g h1


theorem mkBuckets_ids_nodup (blocks : List Blk) : ((mkBuckets blocks).map (·.1)).Nodup := by
  unfold mkBuckets
  suffices h : ∀ (bs : List Blk) (acc : List (T × List Blk)), (acc.map (·.1)).Nodup →
      ((bs.foldl (fun acc b =>
        let id := groupIdOf b.item
        match acc.find? (fun e => e.1 == id) with
        | some _ => acc.map (fun e => if e.1 == id then
            (e.1, if e.2.any (fun x => x.item == b.item) then e.2.map (fun x => if x.item == b.item then b else x) else e.2 ++ [b]) else e)
        | none => acc ++ [(id, [b])]) acc).map (·.1)).Nodup from h blocks [] (by simp)
  intro bs
  induction bs with
  | nil => intro acc h; exact h
  | cons b bs ih =>
    intro acc hacc
    rw [List.foldl_cons]
    apply ih
    dsimp only
    split
    · have : (acc.map (fun e => if e.1 == groupIdOf b.item then
          (e.1, if e.2.any (fun x => x.item == b.item) then e.2.map (fun x => if x.item == b.item then b else x) else e.2 ++ [b]) else e)).map (·.1)
          = acc.map (·.1) := by
        rw [List.map_map]; apply List.map_congr_left; intro e _; simp only [Function.comp]; split <;> rfl
      rw [this]; exact hacc
    · next hnone =>
      rw [List.map_append, List.nodup_append]
      refine ⟨hacc, by simp, ?_⟩
      intro a ha c hc
      simp only [List.map_cons, List.map_nil, List.mem_singleton] at hc
      rw [hc]
      intro e
      obtain ⟨x, hx, rfl⟩ := List.mem_map.1 ha
      have := List.find?_eq_none.1 hnone x hx
      exact this (by rw [e]; simp)

theorem find_bucket {l : List (T × List Blk)} (hn : (l.map (·.1)).Nodup) {bk : T × List Blk} (hb : bk ∈ l) :
    l.find? (fun b => b.1 == bk.1) = some bk := by
  induction l with
  | nil => cases hb
  | cons e l ih =>
    simp only [List.map_cons, List.nodup_cons] at hn
    rw [List.find?_cons]
    rcases List.mem_cons.1 hb with h | h
    · rw [h]; simp
    · have : (e.1 == bk.1) = false := by
        cases hc : (e.1 == bk.1) with
        | false => rfl
        | true => exact absurd (List.mem_map.2 ⟨bk, h, (eq_of_beq hc).symm⟩) hn.1
      rw [this]; exact ih hn.2 h

theorem impls_of_bucket {env : Env} (hn : (env.buckets.map (·.1)).Nodup) {bk : T × List Blk} (hb : bk ∈ env.buckets) :
    env.impls bk.1 = bk.2 := by
  unfold Env.impls
  rw [find_bucket hn hb]

/-- the generalisation pairs `make_sets` computes -/
def msPairs (ids : List T) : List (T × T × Subst) :=
  ids.flatMap (fun g1 => ids.filterMap (fun g2 =>
    if g1 == g2 then none else match sup g1 g2 with
      | .yes σ _ => some (g1, g2, σ)
      | _ => none))

theorem makeSets_eq (ids : List T) : makeSets ids =
    (ids.map (fun id => (id, ((msPairs ids).filter (fun p => p.2.1 == id)).length)),
     ids.map (fun id => (id, ((msPairs ids).filter (fun p => p.1 == id)).map (fun p => (p.2.1, p.2.2))))) := rfl

theorem msPairs_fst_mem {ids : List T} {p : T × T × Subst} (h : p ∈ msPairs ids) : p.1 ∈ ids := by
  simp only [msPairs, List.mem_flatMap, List.mem_filterMap] at h
  obtain ⟨g1, hg1, g2, _, hp⟩ := h
  split at hp
  · cases hp
  · split at hp
    · cases hp; exact hg1
    · cases hp

/-- no header generalises another one: `make_sets` finds no pair -/
theorem msPairs_nil_of_no_subsets {ids : List T} (h : ∀ id, (makeSets ids).2.get id = []) : msPairs ids = [] := by
  apply List.eq_nil_iff_forall_not_mem.2
  intro p hp
  have hmem := msPairs_fst_mem hp
  have := h p.1
  rw [makeSets_eq] at this
  unfold Subsets.get at this
  simp only at this
  cases hf : List.find? (fun e => e.1 == p.1) (ids.map (fun id => (id, ((msPairs ids).filter (fun q => q.1 == id)).map (fun q => (q.2.1, q.2.2))))) with
  | none =>
    have := List.find?_eq_none.1 hf (p.1, _) (List.mem_map.2 ⟨p.1, hmem, rfl⟩)
    simp at this
  | some e =>
    rw [hf] at this
    simp only at this
    have he := List.mem_of_find?_eq_some hf
    have hid : (e.1 == p.1) = true := by simpa using List.find?_some hf
    obtain ⟨id, _, rfl⟩ := List.mem_map.1 he
    simp only at this hid
    have hp' : (p.2.1, p.2.2) ∈ ((msPairs ids).filter (fun q => q.1 == id)).map (fun q => (q.2.1, q.2.2)) :=
      List.mem_map.2 ⟨p, List.mem_filter.2 ⟨hp, by rw [eq_of_beq hid]; simp⟩, rfl⟩
    rw [this] at hp'
    cases hp'

theorem roots_of_no_subsets {ids : List T} (h : ∀ id, (makeSets ids).2.get id = []) :
    (((makeSets ids).1).filter (fun e => e.2 == 0)).map (·.1) = ids := by
  rw [makeSets_eq, msPairs_nil_of_no_subsets h]
  simp only [List.filter_nil, List.length_nil]
  rw [List.filter_eq_self.2 (by intro a ha; obtain ⟨id, _, rfl⟩ := List.mem_map.1 ha; rfl), List.map_map]
  exact List.map_id _


theorem filterCandidate_mem {cand p : Groups} (h : filterCandidate cand = some p) : p.mem = cand.mem := by
  rw [(filterCandidate_some h).1]
  simp [Groups.mem, List.flatMap_map]

theorem chosen_mem_perm {env : Env} (hns : ∀ id, env.subsets.get id = []) {fuel : Nat} :
    ∀ {roots : List T} {chosen : List Groups}, Forall2 (Chosen env fuel) roots chosen →
      (Groups.mem chosen.flatten).Perm (roots.flatMap env.impls)
  | _, _, .nil => by simp [Groups.mem]
  | _, _, .cons (a := r) (b := g) (l2 := l2) ⟨sup, cands, sup', hs, hc⟩ hrest => by
      obtain ⟨cand, hcand, hfc⟩ := List.mem_filterMap.1 (chooseCandidate_mem hc)
      have hp := (searchRec_placed env hns _ _ _ _ _ _ _ hs (by simp [Groups.ids]) cand hcand).2
      have hg : g.mem.Perm (env.impls r) := by
        rw [filterCandidate_mem hfc]; simpa [Groups.mem] using hp
      have ih := chosen_mem_perm hns hrest
      simp only [List.flatten_cons, List.flatMap_cons]
      have : Groups.mem (g ++ l2.flatten) = g.mem ++ Groups.mem l2.flatten := by
        simp [Groups.mem]
      rw [this]
      exact List.Perm.append hg ih

/-- without nested headers every block is placed exactly once -/
theorem parseGroups_partition_partial {rawItems : List T} {groups : Groups} (h : parseGroups rawItems = .ok groups)
    (hns : ∀ id, (parseEnv rawItems).subsets.get id = []) :
    (groups.flatMap (fun e => e.2.2)).Perm ((mkBuckets (rawItems.map mkBlk)).flatMap (fun bk => bk.2)) := by
  obtain ⟨chosen, rfl, hf⟩ := parseGroups_ok h
  have h1 := chosen_mem_perm hns hf
  have hroots : parseRoots rawItems = (mkBuckets (rawItems.map mkBlk)).map (·.1) := roots_of_no_subsets hns
  rw [hroots] at h1
  refine h1.trans ?_
  rw [List.flatMap_map]
  have hn := mkBuckets_ids_nodup (rawItems.map mkBlk)
  have : ∀ bk ∈ mkBuckets (rawItems.map mkBlk), (parseEnv rawItems).impls bk.1 = bk.2 :=
    fun bk hbk => impls_of_bucket (env := parseEnv rawItems) hn hbk
  have hcongr : ∀ (l : List (T × List Blk)), (∀ bk ∈ l, (parseEnv rawItems).impls bk.1 = bk.2) →
      l.flatMap (fun a => (parseEnv rawItems).impls a.1) = l.flatMap (fun bk => bk.2) := by
    intro l hl
    induction l with
    | nil => rfl
    | cons a l ih =>
      rw [List.flatMap_cons, List.flatMap_cons, hl a (by simp), ih (fun bk hbk => hl bk (List.mem_cons_of_mem _ hbk))]
  rw [hcongr _ this]


/-! ### One bucket, one key (C03) -/

theorem substituteBound_identity (σ : Subst) (h : allIdentity σ = true) (b tr : T) :
    substituteBound σ b tr = [(b, tr)] := by
  have hr : ∀ t, revSub (reverseMap σ) t = [t] :=
    revSub_of_no_hit _ (fun _ hv => reverseMap_find_identity h hv)
  simp [substituteBound, hr]

theorem keyEq_self {bounded tr : T} (h : wfPath tr = true) : keyEq (bounded, tr) (bounded, tr) = true := by
  have : tbEq tr tr = .t := by rw [tbEq_eq h h]; simp
  simp [keyEq, this]

/-- the block has exactly one trait bound `bounded: tr<a = p>` -/
def SingleBound (bounded tr : T) (a : String) (p : T) (b : Blk) : Prop :=
  ∃ mb, b.raw = [⟨bounded, tr, [(a, p)], mb⟩]

theorem new_single {bounded tr : T} {a : String} {p : T} {b : Blk} (h : SingleBound bounded tr a p b) :
    ABG.new b = ⟨[((bounded, tr), [[(a, p)]])], b.unsized⟩ := by
  obtain ⟨mb, hraw⟩ := h
  simp [ABG.new, hraw, findKey, Row.extend, Row.insert]

theorem intersection_single {bounded tr0 tr1 : T} {a : String} {p : T} {curr : Blk} {σ : Subst} {rows : List Row}
    {u : List T} (h : SingleBound bounded tr1 a p curr) (hσ : allIdentity σ = true)
    (hk : keyEq (bounded, tr0) (bounded, tr1) = true) :
    ∃ u', (ABG.mk [((bounded, tr0), rows)] u).intersection curr σ = [⟨[((bounded, tr1), rows ++ [[(a, p)]])], u'⟩] := by
  obtain ⟨mb, hraw⟩ := h
  refine ⟨((u ++ curr.unsized).eraseDups).filter (fun q => [bounded].contains q), ?_⟩
  simp [ABG.intersection, hraw, findKey, Row.extend, Row.insert, substituteBound_identity σ hσ, hk, cartesianG,
    insertKey]

/-- the trait path stored with the key after the blocks have joined: the one of the last block -/
def lastTr (trOf : Blk → T) : T → List Blk → T
  | tr0, [] => tr0
  | _, b :: rest => lastTr trOf (trOf b) rest

theorem lastTr_mem (trOf : Blk → T) : ∀ (tr0 : T) (impls : List Blk), lastTr trOf tr0 impls ∈ tr0 :: impls.map trOf
  | tr0, [] => by simp [lastTr]
  | tr0, b :: rest => by
      have := lastTr_mem trOf (trOf b) rest
      simp only [lastTr, List.map_cons]
      exact List.mem_cons_of_mem _ this

theorem searchRec_single {env : Env} {gid bounded : T} {a : String} (trOf pay : Blk → T) {σ : Subst} {l : Bool}
    (hsub : env.subsets.get gid = []) (hself : sup gid gid = .yes σ l) (hσ : allIdentity σ = true) :
    ∀ (impls : List Blk) (fuel : Nat) (sp : Supersets) (tr0 : T) (rows : List Row) (u : List T) (ms : List Blk),
      (∀ b ∈ impls, SingleBound bounded (trOf b) a (pay b) b) →
      (∀ t1 ∈ tr0 :: impls.map trOf, ∀ t2 ∈ tr0 :: impls.map trOf, keyEq (bounded, t1) (bounded, t2) = true) →
      impls.length + 2 ≤ fuel →
      ∃ u', searchRec env fuel gid impls sp [(gid, ⟨[((bounded, tr0), rows)], u⟩, ms)] =
        .ok ([[(gid, ⟨[((bounded, lastTr trOf tr0 impls), rows ++ impls.map (fun b => [(a, pay b)]))], u'⟩, ms ++ impls)]], sp)
  | [], fuel, sp, tr0, rows, u, ms, _, _, hf => by
      obtain ⟨f, rfl⟩ : ∃ f, fuel = f + 2 := ⟨fuel - 2, by simp at hf; omega⟩
      refine ⟨u, ?_⟩
      rw [searchRec, hsub, searchUnlock]
      simp [lastTr]
  | curr :: other, fuel, sp, tr0, rows, u, ms, hb, hK, hf => by
      obtain ⟨f, rfl⟩ : ∃ f, fuel = f + 1 := ⟨fuel - 1, by simp at hf; omega⟩
      have hk : keyEq (bounded, tr0) (bounded, trOf curr) = true := hK tr0 (by simp) (trOf curr) (by simp)
      obtain ⟨u1, hinter⟩ := intersection_single (rows := rows) (u := u) (hb curr (by simp)) hσ hk
      obtain ⟨u2, hrec⟩ := searchRec_single trOf pay hsub hself hσ other f sp (trOf curr) (rows ++ [[(a, pay curr)]]) u1
        (ms ++ [curr]) (fun b hb' => hb b (List.mem_cons_of_mem _ hb'))
        (fun t1 h1 t2 h2 => hK t1 (List.mem_cons_of_mem _ (by simpa using h1)) t2 (List.mem_cons_of_mem _ (by simpa using h2)))
        (by simp at hf ⊢; omega)
      refine ⟨u2, ?_⟩
      rw [searchRec]
      simp [hsub, hself, hinter, setGroup, hrec, lastTr]

theorem searchRec_single_root {env : Env} {gid bounded : T} {a : String} (trOf pay : Blk → T) {σ : Subst} {l : Bool}
    (hsub : env.subsets.get gid = []) (hself : sup gid gid = .yes σ l) (hσ : allIdentity σ = true)
    (b1 : Blk) (other : List Blk) (fuel : Nat) (sp : Supersets)
    (hb : ∀ b ∈ b1 :: other, SingleBound bounded (trOf b) a (pay b) b)
    (hK : ∀ t1 ∈ (b1 :: other).map trOf, ∀ t2 ∈ (b1 :: other).map trOf, keyEq (bounded, t1) (bounded, t2) = true)
    (hf : (b1 :: other).length + 2 ≤ fuel) :
    ∃ u', searchRec env fuel gid (b1 :: other) sp [] =
      .ok ([[(gid, ⟨[((bounded, lastTr trOf (trOf b1) other), (b1 :: other).map (fun b => [(a, pay b)]))], u'⟩, b1 :: other)]], sp) := by
  obtain ⟨f, rfl⟩ : ∃ f, fuel = f + 1 := ⟨fuel - 1, by simp at hf; omega⟩
  obtain ⟨u2, hrec⟩ := searchRec_single trOf pay hsub hself hσ other f sp (trOf b1) [[(a, pay b1)]] b1.unsized [b1]
    (fun b hb' => hb b (List.mem_cons_of_mem _ hb')) (by simpa using hK) (by simp at hf ⊢; omega)
  refine ⟨u2, ?_⟩
  rw [searchRec]
  simp [new_single (hb b1 (by simp)), hrec]

theorem dedupStr_const {a : String} : ∀ (l : List String), (∀ x ∈ l, x = a) → l ≠ [] → dedupStr l = [a] := by
  intro l hl hne
  have key : ∀ (l : List String), (∀ x ∈ l, x = a) →
      l.foldl (fun acc x => if acc.contains x then acc else acc ++ [x]) [a] = [a] := by
    intro l
    induction l with
    | nil => intro _; rfl
    | cons x l ih =>
      intro h
      rw [List.foldl_cons, h x (by simp)]
      simp only [List.contains_cons, beq_self_eq_true, Bool.true_or, if_true]
      exact ih (fun y hy => h y (List.mem_cons_of_mem _ hy))
  cases l with
  | nil => exact absurd rfl hne
  | cons x l =>
    unfold dedupStr
    rw [List.foldl_cons, hl x (by simp)]
    simp only [List.contains_nil, Bool.false_eq_true, if_false, List.nil_append]
    exact key l (fun y hy => hl y (List.mem_cons_of_mem _ hy))

theorem payloads_single {bounded tr : T} {a : String} {u : List T} (hk : keyEq (bounded, tr) (bounded, tr) = true)
    (ps : List T) (hne : ps ≠ []) :
    (ABG.mk [((bounded, tr), ps.map (fun p => [(a, p)]))] u).payloads = ps.map (fun p => [some p]) := by
  have hid : (ABG.mk [((bounded, tr), ps.map (fun p => [(a, p)]))] u).idents = [((bounded, tr), a)] := by
    simp only [ABG.idents, List.flatMap_cons, List.flatMap_nil, List.append_nil]
    rw [dedupStr_const (a := a)]
    · rfl
    · intro x hx
      simp only [List.mem_flatMap, List.mem_map] at hx
      obtain ⟨r, ⟨p, _, rfl⟩, e, he, rfl⟩ := hx
      simp only [List.mem_singleton] at he
      rw [he]
    · cases ps with
      | nil => exact absurd rfl hne
      | cons p ps => simp
  unfold ABG.payloads
  simp only [hid, List.map_cons, List.map_nil, findKey, hk, if_true, List.length_map]
  apply List.ext_getElem
  · simp
  · intro i h1 h2
    simp only [List.getElem_map, List.getElem_range]
    simp only [List.length_map, List.length_range] at h1
    rw [List.getElem?_eq_getElem (by simpa using h1)]
    simp [rowLookup]

/-- no payload generalises another one -/
def NonGen (ps : List T) : Prop :=
  ∀ (i j : Nat) (x y : T), i ≠ j → ps[i]? = some x → ps[j]? = some y →
    (match sup x y with | .yes _ _ => true | _ => false) = false

theorem filterCandidate_single {gid bounded tr : T} {a : String} {u : List T} {ms : List Blk}
    (hk : keyEq (bounded, tr) (bounded, tr) = true) (ps : List T) (hne : ps ≠ []) (hng : NonGen ps) :
    filterCandidate [(gid, ABG.mk [((bounded, tr), ps.map (fun p => [(a, p)]))] u, ms)] =
      some [(gid, ABG.mk [((bounded, tr), ps.map (fun p => [(a, p)]))] u, ms)] := by
  have hprune : (ABG.mk [((bounded, tr), ps.map (fun p => [(a, p)]))] u).prune =
      ABG.mk [((bounded, tr), ps.map (fun p => [(a, p)]))] u := by
    cases ps with
    | nil => exact absurd rfl hne
    | cons p ps => simp [ABG.prune]
  have hover : (ABG.mk [((bounded, tr), ps.map (fun p => [(a, p)]))] u).isOverlapping = false := by
    unfold ABG.isOverlapping
    simp only [payloads_single hk ps hne]
    simp only [List.any_eq_false, List.mem_range, List.length_map, Bool.and_eq_true, bne_iff_ne, ne_eq, not_and,
      Bool.not_eq_true]
    intro i hi j hj hij
    rw [List.getElem?_eq_getElem (by simpa using hi), List.getElem?_eq_getElem (by simpa using hj)]
    have := hng i j ps[i] ps[j] hij (List.getElem?_eq_getElem hi) (List.getElem?_eq_getElem hj)
    simp only [List.getElem_map, rowGeneralises, List.length_cons, List.length_nil, beq_self_eq_true, List.zip_cons_cons,
      List.zip_nil_right, List.all_cons, List.all_nil, Bool.and_true, Bool.true_and]
    exact this
  unfold filterCandidate
  simp [hprune, hover]

theorem chooseCandidate_single (g : Groups) : chooseCandidate [g] = some g := rfl

theorem mkBuckets_single_aux {gid : T} : ∀ (rest pre : List Blk), (∀ b ∈ rest, groupIdOf b.item = gid) →
    (∀ b ∈ rest, ∀ x ∈ pre, x.item ≠ b.item) → (rest.map (·.item)).Nodup →
    rest.foldl (fun acc b =>
        let id := groupIdOf b.item
        match acc.find? (fun e => e.1 == id) with
        | some _ => acc.map (fun e => if e.1 == id then
            (e.1, if e.2.any (fun x => x.item == b.item) then e.2.map (fun x => if x.item == b.item then b else x) else e.2 ++ [b]) else e)
        | none => acc ++ [(id, [b])]) [(gid, pre)] = [(gid, pre ++ rest)]
  | [], pre, _, _, _ => by simp
  | b :: rest, pre, hid, hne, hnd => by
      rw [List.foldl_cons]
      have hb : groupIdOf b.item = gid := hid b (by simp)
      simp only [List.map_cons, List.nodup_cons] at hnd
      have step : (let id := groupIdOf b.item
        match List.find? (fun e => e.1 == id) [(gid, pre)] with
        | some _ => [(gid, pre)].map (fun e => if e.1 == id then
            (e.1, if e.2.any (fun x => x.item == b.item) then e.2.map (fun x => if x.item == b.item then b else x) else e.2 ++ [b]) else e)
        | none => [(gid, pre)] ++ [(id, [b])]) = [(gid, pre ++ [b])] := by
        simp [hb]
        intro x hx e
        exact absurd e (hne b (by simp) x hx)
      rw [step]
      have := mkBuckets_single_aux rest (pre ++ [b]) (fun x hx => hid x (List.mem_cons_of_mem _ hx))
        (by
          intro x hx y hy
          rcases List.mem_append.1 hy with hy | hy
          · exact hne x (List.mem_cons_of_mem _ hx) y hy
          · simp only [List.mem_singleton] at hy
            rw [hy]; intro e
            exact hnd.1 (List.mem_map.2 ⟨x, hx, e.symm⟩))
        hnd.2
      simpa using this

theorem mkBuckets_single {gid : T} (b1 : Blk) (other : List Blk) (hid : ∀ b ∈ b1 :: other, groupIdOf b.item = gid)
    (hnd : ((b1 :: other).map (·.item)).Nodup) : mkBuckets (b1 :: other) = [(gid, b1 :: other)] := by
  unfold mkBuckets
  rw [List.foldl_cons]
  simp only [List.find?_nil, List.nil_append, hid b1 (by simp)]
  simp only [List.map_cons, List.nodup_cons] at hnd
  have := mkBuckets_single_aux (gid := gid) other [b1] (fun b hb => hid b (List.mem_cons_of_mem _ hb))
    (by
      intro x hx y hy
      simp only [List.mem_singleton] at hy
      rw [hy]; intro e
      exact hnd.1 (List.mem_map.2 ⟨x, hx, e.symm⟩))
    hnd.2
  exact this

/-- the selfmatch hypothesis as an executable check: `sup id id` answers yes with identity bindings only -/
def selfIdentity (id : T) : Bool := match sup id id with | .yes σ _ => allIdentity σ | _ => false

/-- one bucket, one key, one binding per block, pairwise non-generalising payloads: accepted as one family -/
theorem parseGroups_single_bucket (items : List T) (gid bounded : T) (a : String) (trOf pay : Blk → T)
    (b1 : Blk) (other : List Blk) (hB : items.map mkBlk = b1 :: other)
    (hid : ∀ b ∈ b1 :: other, groupIdOf b.item = gid) (hnd : ((b1 :: other).map (·.item)).Nodup)
    (hsb : ∀ b ∈ b1 :: other, SingleBound bounded (trOf b) a (pay b) b)
    (htr : ∀ b ∈ b1 :: other, ∀ b' ∈ b1 :: other, tbEq (trOf b) (trOf b') = .t)
    (hself : selfIdentity gid = true) (hng : NonGen ((b1 :: other).map pay)) :
    ∃ u, parseGroups items = .ok [(gid, ⟨[((bounded, lastTr trOf (trOf b1) other),
      (b1 :: other).map (fun b => [(a, pay b)]))], u⟩, b1 :: other)] := by
  have hK : ∀ t1 ∈ (b1 :: other).map trOf, ∀ t2 ∈ (b1 :: other).map trOf, keyEq (bounded, t1) (bounded, t2) = true := by
    intro t1 h1 t2 h2
    obtain ⟨x, hx, rfl⟩ := List.mem_map.1 h1
    obtain ⟨y, hy, rfl⟩ := List.mem_map.1 h2
    simp [keyEq, htr x hx y hy]
  have hk : keyEq (bounded, lastTr trOf (trOf b1) other) (bounded, lastTr trOf (trOf b1) other) = true := by
    have hm : lastTr trOf (trOf b1) other ∈ (b1 :: other).map trOf := by
      simpa using lastTr_mem trOf (trOf b1) other
    exact hK _ hm _ hm
  obtain ⟨σ, l, hs, hσ⟩ : ∃ σ l, sup gid gid = .yes σ l ∧ allIdentity σ = true := by
    unfold selfIdentity at hself
    split at hself
    · next σ l h => exact ⟨σ, l, h, hself⟩
    · cases hself
  have hms : makeSets [gid] = ([(gid, 0)], [(gid, [])]) := by simp [makeSets]
  let env : Env := ⟨[(gid, b1 :: other)], [(gid, [])]⟩
  have hsub : env.subsets.get gid = [] := by simp [env, Subsets.get]
  have himpls : env.impls gid = b1 :: other := by simp [env, Env.impls]
  obtain ⟨u, hsearch⟩ := searchRec_single_root (env := env) trOf pay hsub hs hσ b1 other
    (2 * ((b1 :: other).length + 1 + 2)) [(gid, 0)] hsb hK (by simp; omega)
  refine ⟨u, ?_⟩
  have hrows : (b1 :: other).map (fun b => [(a, pay b)]) = ((b1 :: other).map pay).map (fun p => [(a, p)]) := by
    simp
  unfold parseGroups
  simp only [hB, mkBuckets_single b1 other hid hnd, List.map_cons, List.map_nil, hms]
  simp only [List.filter_cons, List.filter_nil, beq_self_eq_true, if_true, List.map_cons, List.map_nil,
    List.length_cons, List.length_nil]
  rw [parseGroups.go]
  show (match searchRec env _ gid (env.impls gid) [(gid, 0)] [] with
    | .error e => ParseResult.panic e
    | .ok (cands, sup') => _) = _
  rw [himpls]
  have hfuel : 2 * (other.length + 1 + (0 + 1) + 2) = 2 * ((b1 :: other).length + 1 + 2) := by simp
  rw [hfuel, hsearch]
  have hfc := filterCandidate_single (gid := gid) (a := a) (u := u) (ms := b1 :: other) hk
    ((b1 :: other).map pay) (by simp) hng
  rw [← hrows] at hfc
  simp only [List.filterMap_cons, List.filterMap_nil, hfc, chooseCandidate_single, List.nil_append]
  rw [parseGroups.go]
  simp

/-- executable form of `NonGen` -/
def nonGenB (ps : List T) : Bool :=
  (List.range ps.length).all (fun i => (List.range ps.length).all (fun j => i == j ||
    (match ps[i]?, ps[j]? with
     | some x, some y => !(match sup x y with | .yes _ _ => true | _ => false)
     | _, _ => true)))

theorem nonGen_of_nonGenB {ps : List T} (h : nonGenB ps = true) : NonGen ps := by
  intro i j x y hij hx hy
  have hi : i < ps.length := by
    rcases Nat.lt_or_ge i ps.length with h1 | h1
    · exact h1
    · rw [List.getElem?_eq_none h1] at hx; cases hx
  have hj : j < ps.length := by
    rcases Nat.lt_or_ge j ps.length with h1 | h1
    · exact h1
    · rw [List.getElem?_eq_none h1] at hy; cases hy
  simp only [nonGenB, List.all_eq_true, List.mem_range, Bool.or_eq_true, beq_iff_eq] at h
  rcases h i hi j hj with h1 | h1
  · exact absurd h1 hij
  · rw [hx, hy] at h1
    simpa using h1


/-! ### Buckets do not depend on the order of the blocks (C05) -/

/-- what `mkBuckets` computes from a duplicate-free list: the bucket of a header holds the blocks with that header,
    in order, and the headers are those of the blocks -/
def BucketsChar (pre : List Blk) (acc : List (T × List Blk)) : Prop :=
  (∀ e ∈ acc, e.2 = pre.filter (fun b => groupIdOf b.item == e.1)) ∧
  (∀ id, id ∈ acc.map (·.1) ↔ ∃ b ∈ pre, groupIdOf b.item = id)

theorem mkBuckets_char_aux : ∀ (rest pre : List Blk) (acc : List (T × List Blk)), BucketsChar pre acc →
    (∀ b ∈ rest, ∀ x ∈ pre, x.item ≠ b.item) → (rest.map (·.item)).Nodup →
    BucketsChar (pre ++ rest) (rest.foldl (fun acc b =>
        let id := groupIdOf b.item
        match acc.find? (fun e => e.1 == id) with
        | some _ => acc.map (fun e => if e.1 == id then
            (e.1, if e.2.any (fun x => x.item == b.item) then e.2.map (fun x => if x.item == b.item then b else x) else e.2 ++ [b]) else e)
        | none => acc ++ [(id, [b])]) acc)
  | [], pre, acc, h, _, _ => by simpa using h
  | b :: rest, pre, acc, ⟨hc1, hc2⟩, hne, hnd => by
      rw [List.foldl_cons]
      simp only [List.map_cons, List.nodup_cons] at hnd
      have hrec := fun acc' (h' : BucketsChar (pre ++ [b]) acc') =>
        mkBuckets_char_aux rest (pre ++ [b]) acc' h'
          (by
            intro x hx y hy
            rcases List.mem_append.1 hy with hy | hy
            · exact hne x (List.mem_cons_of_mem _ hx) y hy
            · simp only [List.mem_singleton] at hy
              rw [hy]; intro e
              exact hnd.1 (List.mem_map.2 ⟨x, hx, e.symm⟩))
          hnd.2
      have happ : pre ++ b :: rest = (pre ++ [b]) ++ rest := by simp
      rw [happ]
      apply hrec
      dsimp only
      have hfresh : ∀ x ∈ pre, x.item ≠ b.item := hne b (by simp)
      cases hf : acc.find? (fun e => e.1 == groupIdOf b.item) with
      | some e0 =>
        simp only
        constructor
        · intro e he
          obtain ⟨e1, he1, rfl⟩ := List.mem_map.1 he
          by_cases hid : (e1.1 == groupIdOf b.item) = true
          · rw [if_pos hid]
            have hany : e1.2.any (fun x => x.item == b.item) = false := by
              simp only [List.any_eq_false, beq_iff_eq]
              intro x hx
              rw [hc1 e1 he1] at hx
              exact hfresh x (List.mem_filter.1 hx).1
            simp only [hany, Bool.false_eq_true, if_false]
            rw [List.filter_append, hc1 e1 he1]
            simp [(eq_of_beq hid).symm]
          · rw [if_neg hid]
            rw [List.filter_append, hc1 e1 he1]
            have : (groupIdOf b.item == e1.1) = false := by
              cases hc : (groupIdOf b.item == e1.1) with
              | false => rfl
              | true => exact absurd (by rw [eq_of_beq hc]; simp) hid
            simp [this]
        · intro id
          have hids : (acc.map (fun e => if e.1 == groupIdOf b.item then
              (e.1, if e.2.any (fun x => x.item == b.item) then e.2.map (fun x => if x.item == b.item then b else x) else e.2 ++ [b]) else e)).map (·.1)
              = acc.map (·.1) := by
            rw [List.map_map]; apply List.map_congr_left; intro e _; simp only [Function.comp]; split <;> rfl
          rw [hids, hc2]
          constructor
          · rintro ⟨x, hx, rfl⟩; exact ⟨x, List.mem_append.2 (Or.inl hx), rfl⟩
          · rintro ⟨x, hx, rfl⟩
            rcases List.mem_append.1 hx with hx | hx
            · exact ⟨x, hx, rfl⟩
            · simp only [List.mem_singleton] at hx
              rw [hx]
              have h0 := List.mem_of_find?_eq_some hf
              have hp : (e0.1 == groupIdOf b.item) = true := by simpa using List.find?_some hf
              exact (hc2 _).1 (List.mem_map.2 ⟨e0, h0, eq_of_beq hp⟩)
      | none =>
        simp only
        have hnoid : ∀ x ∈ pre, groupIdOf x.item ≠ groupIdOf b.item := by
          intro x hx e
          have := (hc2 (groupIdOf b.item)).2 ⟨x, hx, e⟩
          obtain ⟨e1, he1, he1id⟩ := List.mem_map.1 this
          have := List.find?_eq_none.1 hf e1 he1
          exact this (by rw [he1id]; simp)
        constructor
        · intro e he
          rcases List.mem_append.1 he with he | he
          · rw [List.filter_append, hc1 e he]
            have : (groupIdOf b.item == e.1) = false := by
              cases hc : (groupIdOf b.item == e.1) with
              | false => rfl
              | true =>
                have := List.find?_eq_none.1 hf e he
                exact absurd (by rw [eq_of_beq hc]; simp) this
            simp [this]
          · simp only [List.mem_singleton] at he
            rw [he, List.filter_append]
            have : pre.filter (fun x => groupIdOf x.item == groupIdOf b.item) = [] := by
              apply List.filter_eq_nil_iff.2
              intro x hx hc
              exact hnoid x hx (eq_of_beq hc)
            simp [this]
        · intro id
          rw [List.map_append, List.mem_append, hc2]
          constructor
          · rintro (⟨x, hx, rfl⟩ | h)
            · exact ⟨x, List.mem_append.2 (Or.inl hx), rfl⟩
            · simp only [List.map_cons, List.map_nil, List.mem_singleton] at h
              exact ⟨b, by simp, h.symm⟩
          · rintro ⟨x, hx, rfl⟩
            rcases List.mem_append.1 hx with hx | hx
            · exact Or.inl ⟨x, hx, rfl⟩
            · simp only [List.mem_singleton] at hx
              rw [hx]; exact Or.inr (by simp)

theorem mkBuckets_char (bs : List Blk) (hnd : (bs.map (·.item)).Nodup) : BucketsChar bs (mkBuckets bs) := by
  have h0 : BucketsChar [] [] := ⟨fun e he => (by cases he), fun id => (by simp)⟩
  have := mkBuckets_char_aux bs [] [] h0 (fun _ _ x hx => by cases hx) hnd
  rw [List.nil_append] at this
  exact this

/-- the buckets of a permutation of the blocks: the same headers, and under each header the same blocks, up to order -/
theorem mkBuckets_perm {bs bs' : List Blk} (hp : bs.Perm bs') (hnd : (bs.map (·.item)).Nodup) :
    ((mkBuckets bs).map (·.1)).Perm ((mkBuckets bs').map (·.1)) ∧
    ∀ id blks blks', (id, blks) ∈ mkBuckets bs → (id, blks') ∈ mkBuckets bs' → blks.Perm blks' := by
  have hnd' : (bs'.map (·.item)).Nodup := (hp.map _).nodup_iff.1 hnd
  obtain ⟨c1, c2⟩ := mkBuckets_char bs hnd
  obtain ⟨c1', c2'⟩ := mkBuckets_char bs' hnd'
  constructor
  · apply (List.perm_ext_iff_of_nodup (mkBuckets_ids_nodup bs) (mkBuckets_ids_nodup bs')).2
    intro id
    rw [c2, c2']
    constructor
    · rintro ⟨b, hb, h⟩; exact ⟨b, hp.mem_iff.1 hb, h⟩
    · rintro ⟨b, hb, h⟩; exact ⟨b, hp.mem_iff.2 hb, h⟩
  · intro id blks blks' h1 h2
    have e1 := c1 _ h1
    have e2 := c1' _ h2
    simp only at e1 e2
    rw [e1, e2]
    exact hp.filter _

end DI
