/-
  Helper lemmas for the C11 / C03 / C05 theorems over the model of the grouping front end (`Group.lean`):
  the candidate filter, the driver loop of `parseGroups`, and invariants of the backtracking search.
  Core-only (uses `Lemmas/RevSubLemmas.lean` and `Lemmas/KeyLemmas.lean` for the single-bucket theorem).
-/
import DisjointImpls.Group
import DisjointImpls.Lemmas.RevSubLemmas
import DisjointImpls.Lemmas.KeyLemmas
namespace DI

/-! ### `chooseCandidate`, `filterCandidate` -/

theorem foldl_choose_mem {α : Type} (f : α → α → Prop) [∀ a b, Decidable (f a b)] : ∀ (cs : List α) (c : α),
    cs.foldl (fun acc x => if f acc x then x else acc) c ∈ c :: cs
  | [], c => by simp
  | x :: cs, c => by
      rw [List.foldl_cons]
      have := foldl_choose_mem f cs (if f c x then x else c)
      rcases List.mem_cons.1 this with h | h
      · rw [h]; split <;> simp
      · exact List.mem_cons_of_mem _ (List.mem_cons_of_mem _ h)

theorem chooseCandidate_mem {cs : List Groups} {g : Groups} (h : chooseCandidate cs = some g) : g ∈ cs := by
  cases cs with
  | nil => simp [chooseCandidate] at h
  | cons c cs =>
    simp only [chooseCandidate, Option.some.injEq] at h
    rw [← h]
    exact foldl_choose_mem (fun acc x => acc.length ≥ x.length) cs c

/-- what passes the candidate filter: every group pruned, with at least one key and pairwise distinguishable rows -/
theorem filterCandidate_some {gs p : Groups} (h : filterCandidate gs = some p) :
    p = gs.map (fun e => (e.1, e.2.1.prune, e.2.2)) ∧
    ∀ e ∈ p, e.2.1.bounds ≠ [] ∧ e.2.1.isOverlapping = false := by
  unfold filterCandidate at h
  simp only at h
  split at h
  · cases h
  · next hany =>
    cases h
    refine ⟨rfl, fun e he => ?_⟩
    simp only [List.any_eq_true, not_exists, not_and, Bool.not_eq_true, Bool.or_eq_false_iff] at hany
    have := hany e he
    exact ⟨by simpa using this.1, this.2⟩

/-! ### The driver loop of `parseGroups` -/

/-- pointwise relation between two lists of the same length -/
inductive Forall2 {α β : Type} (R : α → β → Prop) : List α → List β → Prop
  | nil : Forall2 R [] []
  | cons {a b l1 l2} : R a b → Forall2 R l1 l2 → Forall2 R (a :: l1) (b :: l2)

/-- one root was searched and a candidate chosen -/
def Chosen (env : Env) (fuel : Nat) (r : T) (g : Groups) : Prop :=
  ∃ sup cands sup', searchRec env (2 * fuel) r (env.impls r) sup [] = .ok (cands, sup') ∧
    chooseCandidate (cands.filterMap filterCandidate) = some g

theorem go_ok (env : Env) (fuel : Nat) : ∀ (roots : List T) (sup : Supersets) (acc groups : Groups),
    parseGroups.go env fuel roots sup acc = .ok groups →
    ∃ chosen : List Groups, groups = acc ++ chosen.flatten ∧ Forall2 (Chosen env fuel) roots chosen
  | [], sup, acc, groups, h => by
      rw [parseGroups.go] at h
      cases h
      exact ⟨[], by simp, .nil⟩
  | r :: rest, sup, acc, groups, h => by
      rw [parseGroups.go] at h
      split at h
      · cases h
      · next cands sup' hs =>
        split at h
        · cases h
        · next g hg =>
          obtain ⟨chosen, he, hf⟩ := go_ok env fuel rest sup' (acc ++ g) groups h
          exact ⟨g :: chosen, by rw [he]; simp, .cons ⟨sup, cands, sup', hs, hg⟩ hf⟩

/-- the environment `parseGroups` builds -/
def parseEnv (rawItems : List T) : Env :=
  let buckets := mkBuckets (rawItems.map mkBlk)
  ⟨buckets, (makeSets (buckets.map (·.1))).2⟩

def parseFuel (rawItems : List T) : Nat :=
  (rawItems.map mkBlk).length + ((mkBuckets (rawItems.map mkBlk)).map (·.1)).length + 2

def parseRoots (rawItems : List T) : List T :=
  (((makeSets ((mkBuckets (rawItems.map mkBlk)).map (·.1))).1).filter (fun e => e.2 == 0)).map (·.1)

theorem parseGroups_ok {rawItems : List T} {groups : Groups} (h : parseGroups rawItems = .ok groups) :
    ∃ chosen : List Groups, groups = chosen.flatten ∧
      Forall2 (Chosen (parseEnv rawItems) (parseFuel rawItems)) (parseRoots rawItems) chosen := by
  unfold parseGroups at h
  simp only at h
  obtain ⟨chosen, he, hf⟩ := go_ok _ _ _ _ _ _ h
  exact ⟨chosen, by simpa using he, hf⟩

theorem forall₂_right {α β : Type} {R : α → β → Prop} {l1 : List α} {l2 : List β} (h : Forall2 R l1 l2) :
    ∀ b ∈ l2, ∃ a ∈ l1, R a b := by
  induction h with
  | nil => intro b hb; cases hb
  | cons hab _ ih =>
    intro b hb
    rcases List.mem_cons.1 hb with rfl | hb
    · exact ⟨_, by simp, hab⟩
    · obtain ⟨a, ha, hr⟩ := ih b hb
      exact ⟨a, List.mem_cons_of_mem _ ha, hr⟩

/-- every group of an accepted grouping comes out of the candidate filter applied to a search result -/
theorem parseGroups_group {rawItems : List T} {groups : Groups} (h : parseGroups rawItems = .ok groups)
    {e : T × ABG × List Blk} (he : e ∈ groups) :
    ∃ r sup cands sup' cand p, searchRec (parseEnv rawItems) (2 * parseFuel rawItems) r ((parseEnv rawItems).impls r) sup [] = .ok (cands, sup') ∧
      cand ∈ cands ∧ filterCandidate cand = some p ∧ e ∈ p := by
  obtain ⟨chosen, rfl, hf⟩ := parseGroups_ok h
  obtain ⟨g, hg, heg⟩ := List.mem_flatten.1 he
  obtain ⟨r, _, sup, cands, sup', hs, hc⟩ := forall₂_right hf g hg
  obtain ⟨cand, hcand, hfc⟩ := List.mem_filterMap.1 (chooseCandidate_mem hc)
  exact ⟨r, sup, cands, sup', cand, g, hs, hcand, hfc, heg⟩


/-! ### Invariants of the search -/

/-- a property of the ok-states is kept by a fold that threads errors -/
theorem foldl_except_inv {α σ ε : Type} (f : Except ε σ → α → Except ε σ) (I : σ → Prop) :
    ∀ (l : List α), (∀ a ∈ l, ∀ s, I s → ∀ s', f (.ok s) a = .ok s' → I s') →
      (∀ a e, f (.error e) a = .error e) →
      ∀ st, (∀ s, st = .ok s → I s) → ∀ s', l.foldl f st = .ok s' → I s'
  | [], _, _, st, hst, s', h => hst s' h
  | a :: l, hf, herr, st, hst, s', h => by
      rw [List.foldl_cons] at h
      refine foldl_except_inv f I l (fun b hb => hf b (List.mem_cons_of_mem _ hb)) herr (f st a) ?_ s' h
      intro s hs
      cases st with
      | error e => rw [herr] at hs; cases hs
      | ok s0 => exact hf a (by simp) s0 (hst s0 rfl) s hs

theorem mem_setGroup {gs : Groups} {id : T} {v : ABG × List Blk} {e : T × ABG × List Blk}
    (h : e ∈ setGroup gs id v) : e ∈ gs ∨ e = (id, v) := by
  simp only [setGroup, List.mem_map] at h
  obtain ⟨e0, he0, rfl⟩ := h
  by_cases hc : (e0.1 == id) = true
  · rw [if_pos hc]; exact Or.inr (by rw [eq_of_beq hc])
  · rw [if_neg hc]; exact Or.inl he0

/-- what a per-group property `GP` and a per-block precondition `BP` must satisfy to be carried by the search -/
structure SearchInv (env : Env) (GP : T × ABG × List Blk → Prop) (BP : T → Blk → Prop) : Prop where
  fresh : ∀ id b, BP id b → GP (id, ABG.new b, [b])
  join : ∀ gid abg ms currId curr σ inter, GP (gid, abg, ms) → BP currId curr →
    ((∃ σ', (currId, σ') ∈ env.subsets.get gid) ∨ gid = currId) → inter ∈ abg.intersection curr σ →
    GP (gid, inter, ms ++ [curr])
  impls : ∀ id, ∀ b ∈ env.impls id, BP id b

def GoodCands (GP : T × ABG × List Blk → Prop) (cs : List Groups) : Prop := ∀ g ∈ cs, ∀ e ∈ g, GP e

theorem search_inv {env : Env} {GP : T × ABG × List Blk → Prop} {BP : T → Blk → Prop} (H : SearchInv env GP BP) :
    ∀ fuel : Nat,
      (∀ currId impls sup groups res sup', searchRec env fuel currId impls sup groups = .ok (res, sup') →
        (∀ b ∈ impls, BP currId b) → (∀ e ∈ groups, GP e) → GoodCands GP res) ∧
      (∀ currId subs sup acc res sup', searchUnlock env fuel currId subs sup acc = .ok (res, sup') →
        GoodCands GP acc → GoodCands GP res)
  | 0 => by
      constructor
      · intro currId impls sup groups res sup' h; rw [searchRec] at h; cases h
      · intro currId subs sup acc res sup' h; rw [searchUnlock] at h; cases h
  | fuel + 1 => by
      obtain ⟨ihR, ihU⟩ := search_inv H fuel
      constructor
      · intro currId impls sup groups res sup' h hB hG
        cases impls with
        | nil =>
          rw [searchRec] at h
          exact ihU _ _ _ _ _ _ h (fun g hg e he => by
            simp only [List.mem_singleton] at hg; subst hg; exact hG e he)
        | cons curr other =>
          rw [searchRec] at h
          dsimp only at h
          have hcurr : BP currId curr := hB curr (by simp)
          have hother : ∀ b ∈ other, BP currId b := fun b hb => hB b (List.mem_cons_of_mem _ hb)
          generalize htry : List.foldl _ _ groups = tryG at h
          have hgood1 : ∀ s, tryG = .ok s → GoodCands GP s.1 := by
            rw [← htry]
            refine foldl_except_inv _ (fun (s : List Groups × Supersets × Bool) => GoodCands GP s.1) groups ?_ ?_ _ ?_
            · intro ge hge s hs s' hs'
              obtain ⟨acc, newSup, any⟩ := s
              dsimp only at hs'
              -- which substitution, if any, lets the current block join this group
              split at hs'
              · cases hs'
              · cases hs'; exact hs
              · next σ hsubs =>
                  have hjoin : (∃ σ', (currId, σ') ∈ env.subsets.get ge.1) ∨ ge.1 = currId := by
                    split at hsubs
                    · next e he =>
                      have h1 := List.find?_some he
                      have h2 := List.mem_of_find?_eq_some he
                      refine Or.inl ⟨e.2, ?_⟩
                      rw [← eq_of_beq h1]; exact h2
                    · split at hsubs
                      · next hc => exact Or.inr (eq_of_beq hc)
                      · cases hsubs
                  revert hs'
                  refine foldl_except_inv _ (fun (s : List Groups × Supersets × Bool) => GoodCands GP s.1)
                    (ge.2.1.intersection curr σ) ?_ ?_ _ ?_ s'
                  · intro inter hinter s2 hs2 s2' hs2'
                    obtain ⟨acc2, newSup2, any2⟩ := s2
                    dsimp only at hs2'
                    split at hs2'
                    · cases hs2'
                    · next r sp' hr =>
                      have hr' := ihR _ _ _ _ _ _ hr hother (fun e he => by
                        rcases mem_setGroup he with he | he
                        · exact hG e he
                        · rw [he]
                          exact H.join ge.1 ge.2.1 ge.2.2 currId curr σ inter (hG ge hge) hcurr hjoin hinter)
                      split at hs2'
                      · cases hs2'; exact hs2
                      · cases hs2'
                        intro g hg
                        rcases List.mem_append.1 hg with h1 | h1
                        · exact hs2 g h1
                        · exact hr' g h1
                  · intro a e; rfl
                  · intro s0 hs0; cases hs0; exact hs
            · intro a e; rfl
            · intro s hs; cases hs; intro g hg; cases hg
          split at h
          · cases h
          · next x acc newSup any =>
            have hacc : GoodCands GP acc := hgood1 _ rfl
            split at h
            · cases h
            · next x2 acc2 newSup2 any2 hfresh =>
              cases h
              split at hfresh
              · cases hfresh; exact hacc
              · split at hfresh
                · cases hfresh
                · next r sp' hr =>
                  have hr' := ihR _ _ _ _ _ _ hr hother (fun e he => by
                    rcases List.mem_append.1 he with he | he
                    · exact hG e he
                    · simp only [List.mem_singleton] at he
                      rw [he]; exact H.fresh currId curr hcurr)
                  split at hfresh
                  · cases hfresh; exact hacc
                  · cases hfresh
                    intro g hg
                    rcases List.mem_append.1 hg with h1 | h1
                    · exact hacc g h1
                    · exact hr' g h1
      · intro currId subs sup acc res sup' h hA
        cases subs with
        | nil => rw [searchUnlock] at h; cases h; exact hA
        | cons s rest =>
          obtain ⟨subId, σs⟩ := s
          rw [searchUnlock] at h
          dsimp only at h
          split at h
          · generalize hstep : List.foldl _ _ acc = step at h
            have hgood : ∀ s', step = .ok s' → GoodCands GP s'.1 := by
              rw [← hstep]
              refine foldl_except_inv _ (fun (s : List Groups × Supersets) => GoodCands GP s.1) acc ?_ ?_ _ ?_
              · intro g hg s hs s' hs'
                obtain ⟨out, sp⟩ := s
                dsimp only at hs'
                split at hs'
                · cases hs'
                · next r sp' hr =>
                  cases hs'
                  intro g' hg'
                  rcases List.mem_append.1 hg' with h1 | h1
                  · exact hs g' h1
                  · exact ihR _ _ _ _ _ _ hr (H.impls subId) (hA g hg) g' h1
              · intro a e; rfl
              · intro s hs; cases hs; intro g hg; cases hg
            split at h
            · cases h
            · exact ihU _ _ _ _ _ _ h (hgood _ rfl)
          · exact ihU _ _ _ _ _ _ h hA


/-! ### `findKey`, `insertKey`, `cartesianG` -/

theorem findKey_mem {α : Type} : ∀ {bs : List (BKey × α)} {k : BKey} {v : α}, findKey bs k = some v → ∃ k', (k', v) ∈ bs
  | [], _, _, h => by simp [findKey] at h
  | (k', w) :: rest, k, v, h => by
      simp only [findKey] at h
      split at h
      · cases h; exact ⟨k', by simp⟩
      · obtain ⟨k'', hk⟩ := findKey_mem h; exact ⟨k'', List.mem_cons_of_mem _ hk⟩

theorem mem_insertKey {α : Type} {bs : List (BKey × α)} {k : BKey} {v : α} {e : BKey × α}
    (h : e ∈ insertKey bs k v) : e ∈ bs ∨ e.2 = v := by
  unfold insertKey at h
  split at h
  · obtain ⟨e0, he0, rfl⟩ := List.mem_map.1 h
    split
    · exact Or.inr rfl
    · exact Or.inl he0
  · rcases List.mem_append.1 h with h | h
    · exact Or.inl h
    · simp only [List.mem_singleton] at h; rw [h]; exact Or.inr rfl

theorem mem_foldl_insertKey {α : Type} : ∀ (es : List (BKey × α)) (acc : List (BKey × α)) (e : BKey × α),
    e ∈ es.foldl (fun acc x => insertKey acc x.1 x.2) acc → e ∈ acc ∨ ∃ x ∈ es, e.2 = x.2
  | [], acc, e, h => Or.inl h
  | x :: es, acc, e, h => by
      rw [List.foldl_cons] at h
      rcases mem_foldl_insertKey es _ e h with h | ⟨y, hy, he⟩
      · rcases mem_insertKey h with h | h
        · exact Or.inl h
        · exact Or.inr ⟨x, by simp, h⟩
      · exact Or.inr ⟨y, List.mem_cons_of_mem _ hy, he⟩

theorem mem_cartesianG {α : Type} : ∀ {xss : List (List α)} {combo : List α}, combo ∈ cartesianG xss →
    ∀ x ∈ combo, ∃ xs ∈ xss, x ∈ xs
  | [], combo, h, x, hx => by
      simp only [cartesianG, List.mem_singleton] at h; subst h; cases hx
  | xs :: rest, combo, h, x, hx => by
      simp only [cartesianG, List.mem_flatMap, List.mem_map] at h
      obtain ⟨y, hy, tl, htl, rfl⟩ := h
      rcases List.mem_cons.1 hx with rfl | hx
      · exact ⟨xs, by simp, hy⟩
      · obtain ⟨ys, hys, hxy⟩ := mem_cartesianG htl x hx
        exact ⟨ys, List.mem_cons_of_mem _ hys, hxy⟩

/-- every key of an intersection carries the rows of a key of the group plus one new row -/
theorem intersection_rows {g : ABG} {other : Blk} {σ : Subst} {inter : ABG} (h : inter ∈ g.intersection other σ) :
    ∀ kr ∈ inter.bounds, ∃ k' rows r, (k', rows) ∈ g.bounds ∧ kr.2 = rows ++ [r] := by
  unfold ABG.intersection at h
  simp only [List.mem_map] at h
  obtain ⟨combo, hcombo, rfl⟩ := h
  intro kr hkr
  rcases mem_foldl_insertKey _ _ kr hkr with h | ⟨x, hx, hkx⟩
  · cases h
  · simp only [List.mem_filterMap, id] at hx
    obtain ⟨ox, hox, rfl⟩ := hx
    obtain ⟨xs, hxs, hmem⟩ := mem_cartesianG hcombo (some x) hox
    obtain ⟨e, _, rfl⟩ := List.mem_map.1 hxs
    obtain ⟨sk, _, hsk⟩ := List.mem_map.1 hmem
    split at hsk
    · next rows hf =>
      cases hsk
      obtain ⟨k', hk'⟩ := findKey_mem hf
      exact ⟨k', rows, e.2, hk', hkx⟩
    · cases hsk

/-- `ABG.new`: one row per key -/
theorem new_rows (b : Blk) : ∀ kr ∈ (ABG.new b).bounds, kr.2.length = 1 := by
  unfold ABG.new
  simp only
  suffices h : ∀ (raw : List RawBound) (acc : List (BKey × List Row)), (∀ kr ∈ acc, kr.2.length = 1) →
      ∀ kr ∈ raw.foldl (fun (acc : List (BKey × List Row)) rb =>
        match findKey acc (rb.bounded, rb.tr) with
        | some (r0 :: rest) => insertKey acc (rb.bounded, rb.tr) (Row.extend r0 rb.binds :: rest)
        | some [] => insertKey acc (rb.bounded, rb.tr) [Row.extend [] rb.binds]
        | none => acc ++ [((rb.bounded, rb.tr), [Row.extend [] rb.binds])]) acc, kr.2.length = 1 from
    h b.raw [] (fun kr hkr => by cases hkr)
  intro raw
  induction raw with
  | nil => intro acc h; exact h
  | cons rb raw ih =>
    intro acc hacc
    rw [List.foldl_cons]
    apply ih
    intro kr hkr
    split at hkr
    · next r0 rest hf =>
      obtain ⟨k', hk'⟩ := findKey_mem hf
      have hl := hacc _ hk'
      rcases mem_insertKey hkr with h | h
      · exact hacc kr h
      · rw [h]; simpa using hl
    · rcases mem_insertKey hkr with h | h
      · exact hacc kr h
      · rw [h]; rfl
    · rcases List.mem_append.1 hkr with h | h
      · exact hacc kr h
      · simp only [List.mem_singleton] at h; rw [h]; rfl


/-! ### Buckets -/

/-- every block sits in the bucket of its own header -/
def BucketsWF (buckets : List (T × List Blk)) : Prop := ∀ bk ∈ buckets, ∀ b ∈ bk.2, groupIdOf b.item = bk.1

theorem mkBuckets_wf (blocks : List Blk) : BucketsWF (mkBuckets blocks) := by
  unfold mkBuckets
  suffices h : ∀ (bs : List Blk) (acc : List (T × List Blk)), BucketsWF acc →
      BucketsWF (bs.foldl (fun acc b =>
        let id := groupIdOf b.item
        match acc.find? (fun e => e.1 == id) with
        | some _ => acc.map (fun e => if e.1 == id then
            (e.1, if e.2.any (fun x => x.item == b.item) then e.2.map (fun x => if x.item == b.item then b else x) else e.2 ++ [b]) else e)
        | none => acc ++ [(id, [b])]) acc) from h blocks [] (fun bk hbk => by cases hbk)
  intro bs
  induction bs with
  | nil => intro acc h; exact h
  | cons b bs ih =>
    intro acc hacc
    rw [List.foldl_cons]
    apply ih
    dsimp only
    split
    · intro bk hbk x hx
      obtain ⟨e, he, rfl⟩ := List.mem_map.1 hbk
      by_cases hid : (e.1 == groupIdOf b.item) = true
      · rw [if_pos hid] at hx ⊢
        dsimp only at hx ⊢
        split at hx
        · obtain ⟨y, hy, rfl⟩ := List.mem_map.1 hx
          split
          · exact (eq_of_beq hid).symm
          · exact hacc e he y hy
        · rcases List.mem_append.1 hx with hx | hx
          · exact hacc e he x hx
          · simp only [List.mem_singleton] at hx; rw [hx]; exact (eq_of_beq hid).symm
      · rw [if_neg hid] at hx ⊢; exact hacc e he x hx
    · intro bk hbk x hx
      rcases List.mem_append.1 hbk with hbk | hbk
      · exact hacc bk hbk x hx
      · simp only [List.mem_singleton] at hbk
        rw [hbk] at hx ⊢
        simp only [List.mem_singleton] at hx
        rw [hx]

theorem impls_mem {env : Env} {id : T} {b : Blk} (h : b ∈ env.impls id) :
    ∃ bk ∈ env.buckets, bk.1 = id ∧ b ∈ bk.2 := by
  unfold Env.impls at h
  split at h
  · next bk hf =>
    have hp : (bk.1 == id) = true := by simpa using List.find?_some hf
    exact ⟨bk, List.mem_of_find?_eq_some hf, eq_of_beq hp, h⟩
  · cases h

/-! ### The three invariants -/

/-- rows are aligned with members: every key of the group has one row per member -/
def RowsAligned (e : T × ABG × List Blk) : Prop := ∀ kr ∈ e.2.1.bounds, kr.2.length = e.2.2.length

theorem rowsAligned_inv (env : Env) : SearchInv env RowsAligned (fun _ _ => True) where
  fresh id b _ := by intro kr hkr; simpa using new_rows b kr hkr
  join gid abg ms currId curr σ inter hg _ _ hinter := by
    intro kr hkr
    obtain ⟨k', rows, r, hk', he⟩ := intersection_rows hinter kr hkr
    have := hg _ hk'
    simp only at this ⊢
    rw [he]; simp [this]
  impls _ _ _ := trivial

/-- every member's header is the group's header or one the group's header generalises (recorded in `subsets`) -/
def MembersGeneralised (env : Env) (e : T × ABG × List Blk) : Prop :=
  ∀ b ∈ e.2.2, groupIdOf b.item = e.1 ∨ ∃ σ, (groupIdOf b.item, σ) ∈ env.subsets.get e.1

theorem membersGeneralised_inv (env : Env) (hw : BucketsWF env.buckets) :
    SearchInv env (MembersGeneralised env) (fun id b => groupIdOf b.item = id) where
  fresh id b hb := by
    intro x hx
    simp only [List.mem_singleton] at hx
    rw [hx]; exact Or.inl hb
  join gid abg ms currId curr σ inter hg hb hjoin _ := by
    intro x hx
    simp only at hx ⊢
    rcases List.mem_append.1 hx with hx | hx
    · exact hg x hx
    · simp only [List.mem_singleton] at hx
      rw [hx, hb]
      rcases hjoin with ⟨σ', hσ'⟩ | h
      · exact Or.inr ⟨σ', hσ'⟩
      · exact Or.inl h.symm
  impls id b hb := by
    obtain ⟨bk, hbk, hid, hmem⟩ := impls_mem hb
    rw [← hid]; exact hw bk hbk b hmem

/-- every member is a block of some bucket -/
def MembersFromBuckets (env : Env) (e : T × ABG × List Blk) : Prop := ∀ b ∈ e.2.2, ∃ bk ∈ env.buckets, b ∈ bk.2

theorem membersFromBuckets_inv (env : Env) :
    SearchInv env (MembersFromBuckets env) (fun _ b => ∃ bk ∈ env.buckets, b ∈ bk.2) where
  fresh id b hb := by
    intro x hx
    simp only [List.mem_singleton] at hx
    rw [hx]; exact hb
  join gid abg ms currId curr σ inter hg hb _ _ := by
    intro x hx
    simp only at hx
    rcases List.mem_append.1 hx with hx | hx
    · exact hg x hx
    · simp only [List.mem_singleton] at hx
      rw [hx]; exact hb
  impls id b hb := by
    obtain ⟨bk, hbk, _, hmem⟩ := impls_mem hb
    exact ⟨bk, hbk, hmem⟩

/-- a search from a root with no groups yet: every candidate satisfies the invariant -/
theorem search_root_inv {env : Env} {GP BP} (H : SearchInv env GP BP) {fuel : Nat} {r : T} {sup : Supersets}
    {cands : List Groups} {sup' : Supersets} (h : searchRec env fuel r (env.impls r) sup [] = .ok (cands, sup')) :
    GoodCands GP cands :=
  (search_inv H fuel).1 _ _ _ _ _ _ h (H.impls r) (fun e he => by cases he)


/-- `make_sets` records a pair only when the matcher said yes -/
theorem makeSets_subsets {ids : List T} {g1 g2 : T} {σ : Subst} (h : (g2, σ) ∈ (makeSets ids).2.get g1) :
    g1 ≠ g2 ∧ ∃ l, sup g1 g2 = .yes σ l := by
  unfold Subsets.get at h
  split at h
  · next e hf =>
    have he := List.mem_of_find?_eq_some hf
    have hid : (e.1 == g1) = true := by simpa using List.find?_some hf
    simp only [makeSets, List.mem_map] at he
    obtain ⟨id, _, rfl⟩ := he
    simp only [List.mem_map, List.mem_filter] at h
    obtain ⟨p, ⟨hp, hp1⟩, hp2⟩ := h
    simp only [List.mem_flatMap, List.mem_filterMap] at hp
    obtain ⟨a, _, b, _, hab⟩ := hp
    split at hab
    · cases hab
    · next hne =>
      split at hab
      · next σ' l hs =>
        split at hab
        · cases hab
        · cases hab
          simp only [Prod.mk.injEq] at hp2
          obtain ⟨rfl, rfl⟩ := hp2
          have : a.1 = g1 := (eq_of_beq hp1).trans (eq_of_beq hid)
          subst this
          exact ⟨by simpa using hne, l, hs⟩
      · cases hab
  · cases h

/-- a group of an accepted grouping is a pruned group of a search candidate that passed the filter -/
theorem parseGroups_group' {rawItems : List T} {groups : Groups} (h : parseGroups rawItems = .ok groups)
    {e : T × ABG × List Blk} (he : e ∈ groups) {GP BP} (H : SearchInv (parseEnv rawItems) GP BP) :
    ∃ e0, GP e0 ∧ e = (e0.1, e0.2.1.prune, e0.2.2) ∧ e.2.1.bounds ≠ [] ∧ e.2.1.isOverlapping = false := by
  obtain ⟨r, sup, cands, sup', cand, p, hs, hcand, hfc, hep⟩ := parseGroups_group h he
  obtain ⟨hp, hfilt⟩ := filterCandidate_some hfc
  rw [hp] at hep
  obtain ⟨e0, he0, rfl⟩ := List.mem_map.1 hep
  have := hfilt _ (by rw [hp]; exact List.mem_map.2 ⟨e0, he0, rfl⟩)
  exact ⟨e0, search_root_inv H hs cand hcand e0 he0, rfl, this⟩

theorem isOverlapping_false {g : ABG} (h : g.isOverlapping = false) :
    ∀ (i j : Nat) (a b : List (Option T)), i ≠ j → g.payloads[i]? = some a → g.payloads[j]? = some b → rowGeneralises a b = false := by
  intro i j a b hij ha hb
  unfold ABG.isOverlapping at h
  simp only [List.any_eq_false, List.mem_range, Bool.and_eq_true, bne_iff_ne, ne_eq, not_and,
    Bool.not_eq_true] at h
  have hi : i < g.payloads.length := by
    rcases Nat.lt_or_ge i g.payloads.length with h1 | h1
    · exact h1
    · rw [List.getElem?_eq_none h1] at ha; cases ha
  have hj : j < g.payloads.length := by
    rcases Nat.lt_or_ge j g.payloads.length with h1 | h1
    · exact h1
    · rw [List.getElem?_eq_none h1] at hb; cases hb
  have := h i hi j hj hij
  rw [ha, hb] at this
  exact this


/-! ### Partition: every block placed exactly once (inputs without nested headers) -/

def Groups.mem (g : Groups) : List Blk := g.flatMap (fun e => e.2.2)
def Groups.ids (g : Groups) : List T := g.map (fun e => e.1)

theorem setGroup_ids (gs : Groups) (id : T) (v : ABG × List Blk) : (setGroup gs id v).ids = gs.ids := by
  simp only [Groups.ids, setGroup, List.map_map]
  apply List.map_congr_left
  intro e _
  simp only [Function.comp]
  split <;> rfl

theorem setGroup_noop : ∀ (gs : Groups) (id : T) (v : ABG × List Blk), id ∉ gs.ids → setGroup gs id v = gs
  | [], _, _, _ => rfl
  | e :: gs, id, v, h => by
      simp only [Groups.ids, List.map_cons, List.mem_cons, not_or] at h
      simp only [setGroup, List.map_cons]
      rw [if_neg (by intro hc; exact h.1 (eq_of_beq hc).symm)]
      have := setGroup_noop gs id v h.2
      simp only [setGroup] at this
      rw [this]

theorem setGroup_mem_perm : ∀ (gs : Groups) (ge : T × ABG × List Blk) (x : ABG) (curr : Blk),
    gs.ids.Nodup → ge ∈ gs → (setGroup gs ge.1 (x, ge.2.2 ++ [curr])).mem.Perm (gs.mem ++ [curr])
  | [], _, _, _, _, h => by cases h
  | e :: gs, ge, x, curr, hn, hge => by
      simp only [Groups.ids, List.map_cons, List.nodup_cons] at hn
      by_cases hid : e.1 = ge.1
      · -- the head is the group
        have hee : ge = e := by
          rcases List.mem_cons.1 hge with h | h
          · exact h
          · exact absurd (List.mem_map.2 ⟨ge, h, hid.symm⟩) hn.1
        subst hee
        have hrest : setGroup gs ge.1 (x, ge.2.2 ++ [curr]) = gs := setGroup_noop gs _ _ hn.1
        have : setGroup (ge :: gs) ge.1 (x, ge.2.2 ++ [curr]) = (ge.1, x, ge.2.2 ++ [curr]) :: gs := by
          have h2 := hrest
          simp only [setGroup] at h2 ⊢
          rw [List.map_cons, h2]; simp
        rw [this]
        simp only [Groups.mem, List.flatMap_cons, List.append_assoc]
        exact List.Perm.append_left _ List.perm_append_comm
      · have hge' : ge ∈ gs := by
          rcases List.mem_cons.1 hge with h | h
          · exact absurd (by rw [h]) hid
          · exact h
        have ih := setGroup_mem_perm gs ge x curr hn.2 hge'
        have : setGroup (e :: gs) ge.1 (x, ge.2.2 ++ [curr]) = e :: setGroup gs ge.1 (x, ge.2.2 ++ [curr]) := by
          simp only [setGroup, List.map_cons]
          rw [if_neg (by intro hc; exact hid (eq_of_beq hc))]
        rw [this]
        simp only [Groups.mem, List.flatMap_cons, List.append_assoc] at ih ⊢
        exact List.Perm.append_left _ ih

/-- a candidate that keeps the ids distinct and places exactly the given blocks -/
def Placed (groups : Groups) (impls : List Blk) (g : Groups) : Prop :=
  g.ids.Nodup ∧ g.mem.Perm (groups.mem ++ impls)

theorem searchRec_placed (env : Env) (hns : ∀ id, env.subsets.get id = []) :
    ∀ (fuel : Nat) (currId : T) (impls : List Blk) (sup : Supersets) (groups : Groups) (res : List Groups)
      (sup' : Supersets), searchRec env fuel currId impls sup groups = .ok (res, sup') → groups.ids.Nodup →
      ∀ g ∈ res, Placed groups impls g
  | 0, _, _, _, _, _, _, h, _ => by rw [searchRec] at h; cases h
  | fuel + 1, currId, [], sup, groups, res, sup', h, hn => by
      rw [searchRec, hns] at h
      cases fuel with
      | zero => rw [searchUnlock] at h; cases h
      | succ f =>
        rw [searchUnlock] at h
        cases h
        intro g hg
        simp only [List.mem_singleton] at hg
        subst hg
        exact ⟨hn, by simp⟩
  | fuel + 1, currId, curr :: other, sup, groups, res, sup', h, hn => by
      have ih := searchRec_placed env hns fuel
      rw [searchRec] at h
      dsimp only at h
      -- a candidate for the rest, found after placing `curr` into `gs'`
      have key : ∀ (gs' : Groups) r sp', searchRec env fuel currId other sup gs' = .ok (r, sp') →
          gs'.ids.Nodup → gs'.mem.Perm (groups.mem ++ [curr]) → ∀ g ∈ r, Placed groups (curr :: other) g := by
        intro gs' r sp' hr hn' hp g hg
        obtain ⟨h1, h2⟩ := ih _ _ _ _ _ _ hr hn' g hg
        refine ⟨h1, h2.trans ?_⟩
        have := List.Perm.append_right other hp
        simpa using this
      generalize htry : List.foldl _ _ groups = tryG at h
      have hgood1 : ∀ s, tryG = .ok s → ∀ g ∈ s.1, Placed groups (curr :: other) g := by
        rw [← htry]
        refine foldl_except_inv _ (fun (s : List Groups × Supersets × Bool) => ∀ g ∈ s.1, Placed groups (curr :: other) g)
          groups ?_ ?_ _ ?_
        · intro ge hge s hs s' hs'
          obtain ⟨acc, newSup, any⟩ := s
          dsimp only at hs'
          split at hs'
          · cases hs'
          · cases hs'; exact hs
          · next σ _ =>
            revert hs'
            refine foldl_except_inv _ (fun (s : List Groups × Supersets × Bool) => ∀ g ∈ s.1, Placed groups (curr :: other) g)
              (ge.2.1.intersection curr σ) ?_ ?_ _ ?_ s'
            · intro inter _ s2 hs2 s2' hs2'
              obtain ⟨acc2, newSup2, any2⟩ := s2
              dsimp only at hs2'
              split at hs2'
              · cases hs2'
              · next r sp' hr =>
                have hr' := key _ r sp' hr (by rw [setGroup_ids]; exact hn)
                  (setGroup_mem_perm groups ge inter curr hn hge)
                split at hs2'
                · cases hs2'; exact hs2
                · cases hs2'
                  intro g hg
                  rcases List.mem_append.1 hg with h1 | h1
                  · exact hs2 g h1
                  · exact hr' g h1
            · intro a e; rfl
            · intro s0 hs0; cases hs0; exact hs
        · intro a e; rfl
        · intro s hs; cases hs; intro g hg; cases hg
      split at h
      · cases h
      · next x acc newSup any =>
        have hacc := hgood1 _ rfl
        split at h
        · cases h
        · next x2 acc2 newSup2 any2 hfresh =>
          cases h
          split at hfresh
          · cases hfresh; exact hacc
          · next hnone =>
            split at hfresh
            · cases hfresh
            · next r sp' hr =>
              have hfreshId : currId ∉ groups.ids := by
                intro hm
                obtain ⟨e, he, rfl⟩ := List.mem_map.1 hm
                apply hnone
                exact List.any_eq_true.2 ⟨e, he, by simp⟩
              have hr' := key _ r sp' hr (by
                  simp only [Groups.ids, List.map_append, List.map_cons, List.map_nil]
                  rw [List.nodup_append]
                  refine ⟨hn, by simp, ?_⟩
                  intro a ha b hb
                  simp only [List.mem_singleton] at hb
                  rw [hb]; intro e; rw [e] at ha; exact hfreshId ha)
                (by simp [Groups.mem])
              split at hfresh
              · cases hfresh; exact hacc
              · cases hfresh
                intro g hg
                rcases List.mem_append.1 hg with h1 | h1
                · exact hacc g h1
                · exact hr' g h1


theorem mkBuckets_ids_nodup (blocks : List Blk) : ((mkBuckets blocks).map (·.1)).Nodup := by
  unfold mkBuckets
  suffices h : ∀ (bs : List Blk) (acc : List (T × List Blk)), (acc.map (·.1)).Nodup →
      ((bs.foldl (fun acc b =>
        let id := groupIdOf b.item
        match acc.find? (fun e => e.1 == id) with
        | some _ => acc.map (fun e => if e.1 == id then
            (e.1, if e.2.any (fun x => x.item == b.item) then e.2.map (fun x => if x.item == b.item then b else x) else e.2 ++ [b]) else e)
        | none => acc ++ [(id, [b])]) acc).map (·.1)).Nodup from h blocks [] (by simp)
  intro bs
  induction bs with
  | nil => intro acc h; exact h
  | cons b bs ih =>
    intro acc hacc
    rw [List.foldl_cons]
    apply ih
    dsimp only
    split
    · have : (acc.map (fun e => if e.1 == groupIdOf b.item then
          (e.1, if e.2.any (fun x => x.item == b.item) then e.2.map (fun x => if x.item == b.item then b else x) else e.2 ++ [b]) else e)).map (·.1)
          = acc.map (·.1) := by
        rw [List.map_map]; apply List.map_congr_left; intro e _; simp only [Function.comp]; split <;> rfl
      rw [this]; exact hacc
    · next hnone =>
      rw [List.map_append, List.nodup_append]
      refine ⟨hacc, by simp, ?_⟩
      intro a ha c hc
      simp only [List.map_cons, List.map_nil, List.mem_singleton] at hc
      rw [hc]
      intro e
      obtain ⟨x, hx, rfl⟩ := List.mem_map.1 ha
      have := List.find?_eq_none.1 hnone x hx
      exact this (by rw [e]; simp)

theorem find_bucket {l : List (T × List Blk)} (hn : (l.map (·.1)).Nodup) {bk : T × List Blk} (hb : bk ∈ l) :
    l.find? (fun b => b.1 == bk.1) = some bk := by
  induction l with
  | nil => cases hb
  | cons e l ih =>
    simp only [List.map_cons, List.nodup_cons] at hn
    rw [List.find?_cons]
    rcases List.mem_cons.1 hb with h | h
    · rw [h]; simp
    · have : (e.1 == bk.1) = false := by
        cases hc : (e.1 == bk.1) with
        | false => rfl
        | true => exact absurd (List.mem_map.2 ⟨bk, h, (eq_of_beq hc).symm⟩) hn.1
      rw [this]; exact ih hn.2 h

theorem impls_of_bucket {env : Env} (hn : (env.buckets.map (·.1)).Nodup) {bk : T × List Blk} (hb : bk ∈ env.buckets) :
    env.impls bk.1 = bk.2 := by
  unfold Env.impls
  rw [find_bucket hn hb]

/-- the generalisation pairs `make_sets` computes -/
def msPairs (ids : List T) : List (T × T × Subst) :=
  ids.zipIdx.flatMap (fun g1 => ids.zipIdx.filterMap (fun g2 =>
    if g1.1 == g2.1 then none else match sup g1.1 g2.1 with
      | .yes σ _ => if g1.2 > g2.2 && supYes g2.1 g1.1 then none else some (g1.1, g2.1, σ)
      | _ => none))

theorem makeSets_eq (ids : List T) : makeSets ids =
    (ids.map (fun id => (id, ((msPairs ids).filter (fun p => p.2.1 == id)).length)),
     ids.map (fun id => (id, ((msPairs ids).filter (fun p => p.1 == id)).map (fun p => (p.2.1, p.2.2))))) := rfl

theorem msPairs_fst_mem {ids : List T} {p : T × T × Subst} (h : p ∈ msPairs ids) : p.1 ∈ ids := by
  simp only [msPairs, List.mem_flatMap, List.mem_filterMap] at h
  obtain ⟨g1, hg1, g2, _, hp⟩ := h
  split at hp
  · cases hp
  · split at hp
    · split at hp
      · cases hp
      · cases hp; exact (List.mem_zipIdx' hg1).2 ▸ List.getElem_mem _
    · cases hp

/-- no header generalises another one: `make_sets` finds no pair -/
theorem msPairs_nil_of_no_subsets {ids : List T} (h : ∀ id, (makeSets ids).2.get id = []) : msPairs ids = [] := by
  apply List.eq_nil_iff_forall_not_mem.2
  intro p hp
  have hmem := msPairs_fst_mem hp
  have := h p.1
  rw [makeSets_eq] at this
  unfold Subsets.get at this
  simp only at this
  cases hf : List.find? (fun e => e.1 == p.1) (ids.map (fun id => (id, ((msPairs ids).filter (fun q => q.1 == id)).map (fun q => (q.2.1, q.2.2))))) with
  | none =>
    have := List.find?_eq_none.1 hf (p.1, _) (List.mem_map.2 ⟨p.1, hmem, rfl⟩)
    simp at this
  | some e =>
    rw [hf] at this
    simp only at this
    have he := List.mem_of_find?_eq_some hf
    have hid : (e.1 == p.1) = true := by simpa using List.find?_some hf
    obtain ⟨id, _, rfl⟩ := List.mem_map.1 he
    simp only at this hid
    have hp' : (p.2.1, p.2.2) ∈ ((msPairs ids).filter (fun q => q.1 == id)).map (fun q => (q.2.1, q.2.2)) :=
      List.mem_map.2 ⟨p, List.mem_filter.2 ⟨hp, by rw [eq_of_beq hid]; simp⟩, rfl⟩
    rw [this] at hp'
    cases hp'

theorem roots_of_no_subsets {ids : List T} (h : ∀ id, (makeSets ids).2.get id = []) :
    (((makeSets ids).1).filter (fun e => e.2 == 0)).map (·.1) = ids := by
  rw [makeSets_eq, msPairs_nil_of_no_subsets h]
  simp only [List.filter_nil, List.length_nil]
  rw [List.filter_eq_self.2 (by intro a ha; obtain ⟨id, _, rfl⟩ := List.mem_map.1 ha; rfl), List.map_map]
  exact List.map_id _


theorem filterCandidate_mem {cand p : Groups} (h : filterCandidate cand = some p) : p.mem = cand.mem := by
  rw [(filterCandidate_some h).1]
  simp [Groups.mem, List.flatMap_map]

theorem chosen_mem_perm {env : Env} (hns : ∀ id, env.subsets.get id = []) {fuel : Nat} :
    ∀ {roots : List T} {chosen : List Groups}, Forall2 (Chosen env fuel) roots chosen →
      (Groups.mem chosen.flatten).Perm (roots.flatMap env.impls)
  | _, _, .nil => by simp [Groups.mem]
  | _, _, .cons (a := r) (b := g) (l2 := l2) ⟨sup, cands, sup', hs, hc⟩ hrest => by
      obtain ⟨cand, hcand, hfc⟩ := List.mem_filterMap.1 (chooseCandidate_mem hc)
      have hp := (searchRec_placed env hns _ _ _ _ _ _ _ hs (by simp [Groups.ids]) cand hcand).2
      have hg : g.mem.Perm (env.impls r) := by
        rw [filterCandidate_mem hfc]; simpa [Groups.mem] using hp
      have ih := chosen_mem_perm hns hrest
      simp only [List.flatten_cons, List.flatMap_cons]
      have : Groups.mem (g ++ l2.flatten) = g.mem ++ Groups.mem l2.flatten := by
        simp [Groups.mem]
      rw [this]
      exact List.Perm.append hg ih

/-- without nested headers every block is placed exactly once -/
theorem parseGroups_partition_partial {rawItems : List T} {groups : Groups} (h : parseGroups rawItems = .ok groups)
    (hns : ∀ id, (parseEnv rawItems).subsets.get id = []) :
    (groups.flatMap (fun e => e.2.2)).Perm ((mkBuckets (rawItems.map mkBlk)).flatMap (fun bk => bk.2)) := by
  obtain ⟨chosen, rfl, hf⟩ := parseGroups_ok h
  have h1 := chosen_mem_perm hns hf
  have hroots : parseRoots rawItems = (mkBuckets (rawItems.map mkBlk)).map (·.1) := roots_of_no_subsets hns
  rw [hroots] at h1
  refine h1.trans ?_
  rw [List.flatMap_map]
  have hn := mkBuckets_ids_nodup (rawItems.map mkBlk)
  have : ∀ bk ∈ mkBuckets (rawItems.map mkBlk), (parseEnv rawItems).impls bk.1 = bk.2 :=
    fun bk hbk => impls_of_bucket (env := parseEnv rawItems) hn hbk
  have hcongr : ∀ (l : List (T × List Blk)), (∀ bk ∈ l, (parseEnv rawItems).impls bk.1 = bk.2) →
      l.flatMap (fun a => (parseEnv rawItems).impls a.1) = l.flatMap (fun bk => bk.2) := by
    intro l hl
    induction l with
    | nil => rfl
    | cons a l ih =>
      rw [List.flatMap_cons, List.flatMap_cons, hl a (by simp), ih (fun bk hbk => hl bk (List.mem_cons_of_mem _ hbk))]
  rw [hcongr _ this]


/-! ### One bucket, one key (C03) -/

theorem substituteBound_identity (σ : Subst) (h : allIdentity σ = true) (b tr : T) :
    substituteBound σ b tr = [(b, tr)] := by
  have hr : ∀ t, revSub (reverseMap σ) t = [t] :=
    revSub_of_no_hit _ (fun _ hv => reverseMap_find_identity h hv)
  simp [substituteBound, hr]

theorem keyEq_self {bounded tr : T} (h : wfPath tr = true) : keyEq (bounded, tr) (bounded, tr) = true := by
  have : tbEq tr tr = .t := by rw [tbEq_eq h h]; simp
  simp [keyEq, this]

/-- the block has exactly one trait bound `bounded: tr<a = p>` -/
def SingleBound (bounded tr : T) (a : String) (p : T) (b : Blk) : Prop :=
  ∃ mb, b.raw = [⟨bounded, tr, [(a, p)], mb⟩]

theorem new_single {bounded tr : T} {a : String} {p : T} {b : Blk} (h : SingleBound bounded tr a p b) :
    ABG.new b = ⟨[((bounded, tr), [[(a, p)]])], b.unsized⟩ := by
  obtain ⟨mb, hraw⟩ := h
  simp [ABG.new, hraw, findKey, Row.extend, Row.insert]

theorem intersection_single {bounded tr0 tr1 : T} {a : String} {p : T} {curr : Blk} {σ : Subst} {rows : List Row}
    {u : List T} (h : SingleBound bounded tr1 a p curr) (hσ : allIdentity σ = true)
    (hk : keyEq (bounded, tr0) (bounded, tr1) = true) :
    ∃ u', (ABG.mk [((bounded, tr0), rows)] u).intersection curr σ = [⟨[((bounded, tr1), rows ++ [[(a, p)]])], u'⟩] := by
  obtain ⟨mb, hraw⟩ := h
  refine ⟨((u ++ curr.unsized).eraseDups).filter (fun q => [bounded].contains q), ?_⟩
  simp [ABG.intersection, hraw, findKey, Row.extend, Row.insert, substituteBound_identity σ hσ, hk, cartesianG,
    insertKey]

/-- the trait path stored with the key after the blocks have joined: the one of the last block -/
def lastTr (trOf : Blk → T) : T → List Blk → T
  | tr0, [] => tr0
  | _, b :: rest => lastTr trOf (trOf b) rest

theorem lastTr_mem (trOf : Blk → T) : ∀ (tr0 : T) (impls : List Blk), lastTr trOf tr0 impls ∈ tr0 :: impls.map trOf
  | tr0, [] => by simp [lastTr]
  | tr0, b :: rest => by
      have := lastTr_mem trOf (trOf b) rest
      simp only [lastTr, List.map_cons]
      exact List.mem_cons_of_mem _ this

theorem searchRec_single {env : Env} {gid bounded : T} {a : String} (trOf pay : Blk → T) {σ : Subst} {l : Bool}
    (hsub : env.subsets.get gid = []) (hself : sup gid gid = .yes σ l) (hσ : allIdentity σ = true) :
    ∀ (impls : List Blk) (fuel : Nat) (sp : Supersets) (tr0 : T) (rows : List Row) (u : List T) (ms : List Blk),
      (∀ b ∈ impls, SingleBound bounded (trOf b) a (pay b) b) →
      (∀ t1 ∈ tr0 :: impls.map trOf, ∀ t2 ∈ tr0 :: impls.map trOf, keyEq (bounded, t1) (bounded, t2) = true) →
      impls.length + 2 ≤ fuel →
      ∃ u', searchRec env fuel gid impls sp [(gid, ⟨[((bounded, tr0), rows)], u⟩, ms)] =
        .ok ([[(gid, ⟨[((bounded, lastTr trOf tr0 impls), rows ++ impls.map (fun b => [(a, pay b)]))], u'⟩, ms ++ impls)]], sp)
  | [], fuel, sp, tr0, rows, u, ms, _, _, hf => by
      obtain ⟨f, rfl⟩ : ∃ f, fuel = f + 2 := ⟨fuel - 2, by simp at hf; omega⟩
      refine ⟨u, ?_⟩
      rw [searchRec, hsub, searchUnlock]
      simp [lastTr]
  | curr :: other, fuel, sp, tr0, rows, u, ms, hb, hK, hf => by
      obtain ⟨f, rfl⟩ : ∃ f, fuel = f + 1 := ⟨fuel - 1, by simp at hf; omega⟩
      have hk : keyEq (bounded, tr0) (bounded, trOf curr) = true := hK tr0 (by simp) (trOf curr) (by simp)
      obtain ⟨u1, hinter⟩ := intersection_single (rows := rows) (u := u) (hb curr (by simp)) hσ hk
      obtain ⟨u2, hrec⟩ := searchRec_single trOf pay hsub hself hσ other f sp (trOf curr) (rows ++ [[(a, pay curr)]]) u1
        (ms ++ [curr]) (fun b hb' => hb b (List.mem_cons_of_mem _ hb'))
        (fun t1 h1 t2 h2 => hK t1 (List.mem_cons_of_mem _ (by simpa using h1)) t2 (List.mem_cons_of_mem _ (by simpa using h2)))
        (by simp at hf ⊢; omega)
      refine ⟨u2, ?_⟩
      rw [searchRec]
      simp [hsub, hself, hinter, setGroup, hrec, lastTr]

theorem searchRec_single_root {env : Env} {gid bounded : T} {a : String} (trOf pay : Blk → T) {σ : Subst} {l : Bool}
    (hsub : env.subsets.get gid = []) (hself : sup gid gid = .yes σ l) (hσ : allIdentity σ = true)
    (b1 : Blk) (other : List Blk) (fuel : Nat) (sp : Supersets)
    (hb : ∀ b ∈ b1 :: other, SingleBound bounded (trOf b) a (pay b) b)
    (hK : ∀ t1 ∈ (b1 :: other).map trOf, ∀ t2 ∈ (b1 :: other).map trOf, keyEq (bounded, t1) (bounded, t2) = true)
    (hf : (b1 :: other).length + 2 ≤ fuel) :
    ∃ u', searchRec env fuel gid (b1 :: other) sp [] =
      .ok ([[(gid, ⟨[((bounded, lastTr trOf (trOf b1) other), (b1 :: other).map (fun b => [(a, pay b)]))], u'⟩, b1 :: other)]], sp) := by
  obtain ⟨f, rfl⟩ : ∃ f, fuel = f + 1 := ⟨fuel - 1, by simp at hf; omega⟩
  obtain ⟨u2, hrec⟩ := searchRec_single trOf pay hsub hself hσ other f sp (trOf b1) [[(a, pay b1)]] b1.unsized [b1]
    (fun b hb' => hb b (List.mem_cons_of_mem _ hb')) (by simpa using hK) (by simp at hf ⊢; omega)
  refine ⟨u2, ?_⟩
  rw [searchRec]
  simp [new_single (hb b1 (by simp)), hrec]

theorem dedupStr_const {a : String} : ∀ (l : List String), (∀ x ∈ l, x = a) → l ≠ [] → dedupStr l = [a] := by
  intro l hl hne
  have key : ∀ (l : List String), (∀ x ∈ l, x = a) →
      l.foldl (fun acc x => if acc.contains x then acc else acc ++ [x]) [a] = [a] := by
    intro l
    induction l with
    | nil => intro _; rfl
    | cons x l ih =>
      intro h
      rw [List.foldl_cons, h x (by simp)]
      simp only [List.contains_cons, beq_self_eq_true, Bool.true_or, if_true]
      exact ih (fun y hy => h y (List.mem_cons_of_mem _ hy))
  cases l with
  | nil => exact absurd rfl hne
  | cons x l =>
    unfold dedupStr
    rw [List.foldl_cons, hl x (by simp)]
    simp only [List.contains_nil, Bool.false_eq_true, if_false, List.nil_append]
    exact key l (fun y hy => hl y (List.mem_cons_of_mem _ hy))

theorem payloads_single {bounded tr : T} {a : String} {u : List T} (hk : keyEq (bounded, tr) (bounded, tr) = true)
    (ps : List T) (hne : ps ≠ []) :
    (ABG.mk [((bounded, tr), ps.map (fun p => [(a, p)]))] u).payloads = ps.map (fun p => [some p]) := by
  have hid : (ABG.mk [((bounded, tr), ps.map (fun p => [(a, p)]))] u).idents = [((bounded, tr), a)] := by
    simp only [ABG.idents, List.flatMap_cons, List.flatMap_nil, List.append_nil]
    rw [dedupStr_const (a := a)]
    · rfl
    · intro x hx
      simp only [List.mem_flatMap, List.mem_map] at hx
      obtain ⟨r, ⟨p, _, rfl⟩, e, he, rfl⟩ := hx
      simp only [List.mem_singleton] at he
      rw [he]
    · cases ps with
      | nil => exact absurd rfl hne
      | cons p ps => simp
  unfold ABG.payloads
  simp only [hid, List.map_cons, List.map_nil, findKey, hk, if_true, List.length_map]
  apply List.ext_getElem
  · simp
  · intro i h1 h2
    simp only [List.getElem_map, List.getElem_range]
    simp only [List.length_map, List.length_range] at h1
    rw [List.getElem?_eq_getElem (by simpa using h1)]
    simp [rowLookup]

/-- no payload generalises another one -/
def NonGen (ps : List T) : Prop :=
  ∀ (i j : Nat) (x y : T), i ≠ j → ps[i]? = some x → ps[j]? = some y →
    (match sup x y with | .yes _ _ => true | _ => false) = false

theorem filterCandidate_single {gid bounded tr : T} {a : String} {u : List T} {ms : List Blk}
    (hk : keyEq (bounded, tr) (bounded, tr) = true) (ps : List T) (hne : ps ≠ []) (hng : NonGen ps) :
    filterCandidate [(gid, ABG.mk [((bounded, tr), ps.map (fun p => [(a, p)]))] u, ms)] =
      some [(gid, ABG.mk [((bounded, tr), ps.map (fun p => [(a, p)]))] u, ms)] := by
  have hprune : (ABG.mk [((bounded, tr), ps.map (fun p => [(a, p)]))] u).prune =
      ABG.mk [((bounded, tr), ps.map (fun p => [(a, p)]))] u := by
    cases ps with
    | nil => exact absurd rfl hne
    | cons p ps => simp [ABG.prune]
  have hover : (ABG.mk [((bounded, tr), ps.map (fun p => [(a, p)]))] u).isOverlapping = false := by
    unfold ABG.isOverlapping
    simp only [payloads_single hk ps hne]
    simp only [List.any_eq_false, List.mem_range, List.length_map, Bool.and_eq_true, bne_iff_ne, ne_eq, not_and,
      Bool.not_eq_true]
    intro i hi j hj hij
    rw [List.getElem?_eq_getElem (by simpa using hi), List.getElem?_eq_getElem (by simpa using hj)]
    have := hng i j ps[i] ps[j] hij (List.getElem?_eq_getElem hi) (List.getElem?_eq_getElem hj)
    simp only [List.getElem_map, rowGeneralises, List.length_cons, List.length_nil, beq_self_eq_true, List.zip_cons_cons,
      List.zip_nil_right, List.all_cons, List.all_nil, Bool.and_true, Bool.true_and]
    exact this
  unfold filterCandidate
  simp [hprune, hover]

theorem chooseCandidate_single (g : Groups) : chooseCandidate [g] = some g := rfl

theorem mkBuckets_single_aux {gid : T} : ∀ (rest pre : List Blk), (∀ b ∈ rest, groupIdOf b.item = gid) →
    (∀ b ∈ rest, ∀ x ∈ pre, x.item ≠ b.item) → (rest.map (·.item)).Nodup →
    rest.foldl (fun acc b =>
        let id := groupIdOf b.item
        match acc.find? (fun e => e.1 == id) with
        | some _ => acc.map (fun e => if e.1 == id then
            (e.1, if e.2.any (fun x => x.item == b.item) then e.2.map (fun x => if x.item == b.item then b else x) else e.2 ++ [b]) else e)
        | none => acc ++ [(id, [b])]) [(gid, pre)] = [(gid, pre ++ rest)]
  | [], pre, _, _, _ => by simp
  | b :: rest, pre, hid, hne, hnd => by
      rw [List.foldl_cons]
      have hb : groupIdOf b.item = gid := hid b (by simp)
      simp only [List.map_cons, List.nodup_cons] at hnd
      have step : (let id := groupIdOf b.item
        match List.find? (fun e => e.1 == id) [(gid, pre)] with
        | some _ => [(gid, pre)].map (fun e => if e.1 == id then
            (e.1, if e.2.any (fun x => x.item == b.item) then e.2.map (fun x => if x.item == b.item then b else x) else e.2 ++ [b]) else e)
        | none => [(gid, pre)] ++ [(id, [b])]) = [(gid, pre ++ [b])] := by
        simp [hb]
        intro x hx e
        exact absurd e (hne b (by simp) x hx)
      rw [step]
      have := mkBuckets_single_aux rest (pre ++ [b]) (fun x hx => hid x (List.mem_cons_of_mem _ hx))
        (by
          intro x hx y hy
          rcases List.mem_append.1 hy with hy | hy
          · exact hne x (List.mem_cons_of_mem _ hx) y hy
          · simp only [List.mem_singleton] at hy
            rw [hy]; intro e
            exact hnd.1 (List.mem_map.2 ⟨x, hx, e.symm⟩))
        hnd.2
      simpa using this

theorem mkBuckets_single {gid : T} (b1 : Blk) (other : List Blk) (hid : ∀ b ∈ b1 :: other, groupIdOf b.item = gid)
    (hnd : ((b1 :: other).map (·.item)).Nodup) : mkBuckets (b1 :: other) = [(gid, b1 :: other)] := by
  unfold mkBuckets
  rw [List.foldl_cons]
  simp only [List.find?_nil, List.nil_append, hid b1 (by simp)]
  simp only [List.map_cons, List.nodup_cons] at hnd
  have := mkBuckets_single_aux (gid := gid) other [b1] (fun b hb => hid b (List.mem_cons_of_mem _ hb))
    (by
      intro x hx y hy
      simp only [List.mem_singleton] at hy
      rw [hy]; intro e
      exact hnd.1 (List.mem_map.2 ⟨x, hx, e.symm⟩))
    hnd.2
  exact this

/-- the selfmatch hypothesis as an executable check: `sup id id` answers yes with identity bindings only -/
def selfIdentity (id : T) : Bool := match sup id id with | .yes σ _ => allIdentity σ | _ => false

/-- one bucket, one key, one binding per block, pairwise non-generalising payloads: accepted as one family -/
theorem parseGroups_single_bucket (items : List T) (gid bounded : T) (a : String) (trOf pay : Blk → T)
    (b1 : Blk) (other : List Blk) (hB : items.map mkBlk = b1 :: other)
    (hid : ∀ b ∈ b1 :: other, groupIdOf b.item = gid) (hnd : ((b1 :: other).map (·.item)).Nodup)
    (hsb : ∀ b ∈ b1 :: other, SingleBound bounded (trOf b) a (pay b) b)
    (htr : ∀ b ∈ b1 :: other, ∀ b' ∈ b1 :: other, tbEq (trOf b) (trOf b') = .t)
    (hself : selfIdentity gid = true) (hng : NonGen ((b1 :: other).map pay)) :
    ∃ u, parseGroups items = .ok [(gid, ⟨[((bounded, lastTr trOf (trOf b1) other),
      (b1 :: other).map (fun b => [(a, pay b)]))], u⟩, b1 :: other)] := by
  have hK : ∀ t1 ∈ (b1 :: other).map trOf, ∀ t2 ∈ (b1 :: other).map trOf, keyEq (bounded, t1) (bounded, t2) = true := by
    intro t1 h1 t2 h2
    obtain ⟨x, hx, rfl⟩ := List.mem_map.1 h1
    obtain ⟨y, hy, rfl⟩ := List.mem_map.1 h2
    simp [keyEq, htr x hx y hy]
  have hk : keyEq (bounded, lastTr trOf (trOf b1) other) (bounded, lastTr trOf (trOf b1) other) = true := by
    have hm : lastTr trOf (trOf b1) other ∈ (b1 :: other).map trOf := by
      simpa using lastTr_mem trOf (trOf b1) other
    exact hK _ hm _ hm
  obtain ⟨σ, l, hs, hσ⟩ : ∃ σ l, sup gid gid = .yes σ l ∧ allIdentity σ = true := by
    unfold selfIdentity at hself
    split at hself
    · next σ l h => exact ⟨σ, l, h, hself⟩
    · cases hself
  have hms : makeSets [gid] = ([(gid, 0)], [(gid, [])]) := by simp [makeSets]
  let env : Env := ⟨[(gid, b1 :: other)], [(gid, [])]⟩
  have hsub : env.subsets.get gid = [] := by simp [env, Subsets.get]
  have himpls : env.impls gid = b1 :: other := by simp [env, Env.impls]
  obtain ⟨u, hsearch⟩ := searchRec_single_root (env := env) trOf pay hsub hs hσ b1 other
    (2 * ((b1 :: other).length + 1 + 2)) [(gid, 0)] hsb hK (by simp; omega)
  refine ⟨u, ?_⟩
  have hrows : (b1 :: other).map (fun b => [(a, pay b)]) = ((b1 :: other).map pay).map (fun p => [(a, p)]) := by
    simp
  unfold parseGroups
  simp only [hB, mkBuckets_single b1 other hid hnd, List.map_cons, List.map_nil, hms]
  simp only [List.filter_cons, List.filter_nil, beq_self_eq_true, if_true, List.map_cons, List.map_nil,
    List.length_cons, List.length_nil]
  rw [parseGroups.go]
  show (match searchRec env _ gid (env.impls gid) [(gid, 0)] [] with
    | .error e => ParseResult.panic e
    | .ok (cands, sup') => _) = _
  rw [himpls]
  have hfuel : 2 * (other.length + 1 + (0 + 1) + 2) = 2 * ((b1 :: other).length + 1 + 2) := by simp
  rw [hfuel, hsearch]
  have hfc := filterCandidate_single (gid := gid) (a := a) (u := u) (ms := b1 :: other) hk
    ((b1 :: other).map pay) (by simp) hng
  rw [← hrows] at hfc
  simp only [List.filterMap_cons, List.filterMap_nil, hfc, chooseCandidate_single, List.nil_append]
  rw [parseGroups.go]
  simp

/-- executable form of `NonGen` -/
def nonGenB (ps : List T) : Bool :=
  (List.range ps.length).all (fun i => (List.range ps.length).all (fun j => i == j ||
    (match ps[i]?, ps[j]? with
     | some x, some y => !(match sup x y with | .yes _ _ => true | _ => false)
     | _, _ => true)))

theorem nonGen_of_nonGenB {ps : List T} (h : nonGenB ps = true) : NonGen ps := by
  intro i j x y hij hx hy
  have hi : i < ps.length := by
    rcases Nat.lt_or_ge i ps.length with h1 | h1
    · exact h1
    · rw [List.getElem?_eq_none h1] at hx; cases hx
  have hj : j < ps.length := by
    rcases Nat.lt_or_ge j ps.length with h1 | h1
    · exact h1
    · rw [List.getElem?_eq_none h1] at hy; cases hy
  simp only [nonGenB, List.all_eq_true, List.mem_range, Bool.or_eq_true, beq_iff_eq] at h
  rcases h i hi j hj with h1 | h1
  · exact absurd h1 hij
  · rw [hx, hy] at h1
    simpa using h1


/-! ### Buckets do not depend on the order of the blocks (C05) -/

/-- what `mkBuckets` computes from a duplicate-free list: the bucket of a header holds the blocks with that header,
    in order, and the headers are those of the blocks -/
def BucketsChar (pre : List Blk) (acc : List (T × List Blk)) : Prop :=
  (∀ e ∈ acc, e.2 = pre.filter (fun b => groupIdOf b.item == e.1)) ∧
  (∀ id, id ∈ acc.map (·.1) ↔ ∃ b ∈ pre, groupIdOf b.item = id)

theorem mkBuckets_char_aux : ∀ (rest pre : List Blk) (acc : List (T × List Blk)), BucketsChar pre acc →
    (∀ b ∈ rest, ∀ x ∈ pre, x.item ≠ b.item) → (rest.map (·.item)).Nodup →
    BucketsChar (pre ++ rest) (rest.foldl (fun acc b =>
        let id := groupIdOf b.item
        match acc.find? (fun e => e.1 == id) with
        | some _ => acc.map (fun e => if e.1 == id then
            (e.1, if e.2.any (fun x => x.item == b.item) then e.2.map (fun x => if x.item == b.item then b else x) else e.2 ++ [b]) else e)
        | none => acc ++ [(id, [b])]) acc)
  | [], pre, acc, h, _, _ => by simpa using h
  | b :: rest, pre, acc, ⟨hc1, hc2⟩, hne, hnd => by
      rw [List.foldl_cons]
      simp only [List.map_cons, List.nodup_cons] at hnd
      have hrec := fun acc' (h' : BucketsChar (pre ++ [b]) acc') =>
        mkBuckets_char_aux rest (pre ++ [b]) acc' h'
          (by
            intro x hx y hy
            rcases List.mem_append.1 hy with hy | hy
            · exact hne x (List.mem_cons_of_mem _ hx) y hy
            · simp only [List.mem_singleton] at hy
              rw [hy]; intro e
              exact hnd.1 (List.mem_map.2 ⟨x, hx, e.symm⟩))
          hnd.2
      have happ : pre ++ b :: rest = (pre ++ [b]) ++ rest := by simp
      rw [happ]
      apply hrec
      dsimp only
      have hfresh : ∀ x ∈ pre, x.item ≠ b.item := hne b (by simp)
      cases hf : acc.find? (fun e => e.1 == groupIdOf b.item) with
      | some e0 =>
        simp only
        constructor
        · intro e he
          obtain ⟨e1, he1, rfl⟩ := List.mem_map.1 he
          by_cases hid : (e1.1 == groupIdOf b.item) = true
          · rw [if_pos hid]
            have hany : e1.2.any (fun x => x.item == b.item) = false := by
              simp only [List.any_eq_false, beq_iff_eq]
              intro x hx
              rw [hc1 e1 he1] at hx
              exact hfresh x (List.mem_filter.1 hx).1
            simp only [hany, Bool.false_eq_true, if_false]
            rw [List.filter_append, hc1 e1 he1]
            simp [(eq_of_beq hid).symm]
          · rw [if_neg hid]
            rw [List.filter_append, hc1 e1 he1]
            have : (groupIdOf b.item == e1.1) = false := by
              cases hc : (groupIdOf b.item == e1.1) with
              | false => rfl
              | true => exact absurd (by rw [eq_of_beq hc]; simp) hid
            simp [this]
        · intro id
          have hids : (acc.map (fun e => if e.1 == groupIdOf b.item then
              (e.1, if e.2.any (fun x => x.item == b.item) then e.2.map (fun x => if x.item == b.item then b else x) else e.2 ++ [b]) else e)).map (·.1)
              = acc.map (·.1) := by
            rw [List.map_map]; apply List.map_congr_left; intro e _; simp only [Function.comp]; split <;> rfl
          rw [hids, hc2]
          constructor
          · rintro ⟨x, hx, rfl⟩; exact ⟨x, List.mem_append.2 (Or.inl hx), rfl⟩
          · rintro ⟨x, hx, rfl⟩
            rcases List.mem_append.1 hx with hx | hx
            · exact ⟨x, hx, rfl⟩
            · simp only [List.mem_singleton] at hx
              rw [hx]
              have h0 := List.mem_of_find?_eq_some hf
              have hp : (e0.1 == groupIdOf b.item) = true := by simpa using List.find?_some hf
              exact (hc2 _).1 (List.mem_map.2 ⟨e0, h0, eq_of_beq hp⟩)
      | none =>
        simp only
        have hnoid : ∀ x ∈ pre, groupIdOf x.item ≠ groupIdOf b.item := by
          intro x hx e
          have := (hc2 (groupIdOf b.item)).2 ⟨x, hx, e⟩
          obtain ⟨e1, he1, he1id⟩ := List.mem_map.1 this
          have := List.find?_eq_none.1 hf e1 he1
          exact this (by rw [he1id]; simp)
        constructor
        · intro e he
          rcases List.mem_append.1 he with he | he
          · rw [List.filter_append, hc1 e he]
            have : (groupIdOf b.item == e.1) = false := by
              cases hc : (groupIdOf b.item == e.1) with
              | false => rfl
              | true =>
                have := List.find?_eq_none.1 hf e he
                exact absurd (by rw [eq_of_beq hc]; simp) this
            simp [this]
          · simp only [List.mem_singleton] at he
            rw [he, List.filter_append]
            have : pre.filter (fun x => groupIdOf x.item == groupIdOf b.item) = [] := by
              apply List.filter_eq_nil_iff.2
              intro x hx hc
              exact hnoid x hx (eq_of_beq hc)
            simp [this]
        · intro id
          rw [List.map_append, List.mem_append, hc2]
          constructor
          · rintro (⟨x, hx, rfl⟩ | h)
            · exact ⟨x, List.mem_append.2 (Or.inl hx), rfl⟩
            · simp only [List.map_cons, List.map_nil, List.mem_singleton] at h
              exact ⟨b, by simp, h.symm⟩
          · rintro ⟨x, hx, rfl⟩
            rcases List.mem_append.1 hx with hx | hx
            · exact Or.inl ⟨x, hx, rfl⟩
            · simp only [List.mem_singleton] at hx
              rw [hx]; exact Or.inr (by simp)

theorem mkBuckets_char (bs : List Blk) (hnd : (bs.map (·.item)).Nodup) : BucketsChar bs (mkBuckets bs) := by
  have h0 : BucketsChar [] [] := ⟨fun e he => (by cases he), fun id => (by simp)⟩
  have := mkBuckets_char_aux bs [] [] h0 (fun _ _ x hx => by cases hx) hnd
  rw [List.nil_append] at this
  exact this

/-- the buckets of a permutation of the blocks: the same headers, and under each header the same blocks, up to order -/
theorem mkBuckets_perm {bs bs' : List Blk} (hp : bs.Perm bs') (hnd : (bs.map (·.item)).Nodup) :
    ((mkBuckets bs).map (·.1)).Perm ((mkBuckets bs').map (·.1)) ∧
    ∀ id blks blks', (id, blks) ∈ mkBuckets bs → (id, blks') ∈ mkBuckets bs' → blks.Perm blks' := by
  have hnd' : (bs'.map (·.item)).Nodup := (hp.map _).nodup_iff.1 hnd
  obtain ⟨c1, c2⟩ := mkBuckets_char bs hnd
  obtain ⟨c1', c2'⟩ := mkBuckets_char bs' hnd'
  constructor
  · apply (List.perm_ext_iff_of_nodup (mkBuckets_ids_nodup bs) (mkBuckets_ids_nodup bs')).2
    intro id
    rw [c2, c2']
    constructor
    · rintro ⟨b, hb, h⟩; exact ⟨b, hp.mem_iff.1 hb, h⟩
    · rintro ⟨b, hb, h⟩; exact ⟨b, hp.mem_iff.2 hb, h⟩
  · intro id blks blks' h1 h2
    have e1 := c1 _ h1
    have e2 := c1' _ h2
    simp only at e1 e2
    rw [e1, e2]
    exact hp.filter _


/-! ### The order in which headers are processed, as a function of the counters alone -/

mutual
/-- mirror of `searchRec` that only follows the counters: which headers get unlocked, and the counters afterwards -/
def traceRec (env : Env) : Nat → T → Nat → Supersets → Option (List T × Supersets)
  | 0, _, _, _ => none
  | fuel + 1, currId, 0, sup => traceUnlock env fuel currId (env.subsets.get currId) sup
  | fuel + 1, currId, n + 1, sup => traceRec env fuel currId n sup
def traceUnlock (env : Env) : Nat → T → List (T × Subst) → Supersets → Option (List T × Supersets)
  | 0, _, _, _ => none
  | _ + 1, _, [], sup => some ([], sup)
  | fuel + 1, currId, (subId, _) :: rest, sup =>
      let sup1 := sup.dec subId
      if sup1.get subId == 0 then
        match traceRec env fuel subId (env.impls subId).length sup1 with
        | none => none
        | some (ids1, sup') =>
          match traceUnlock env fuel currId rest sup' with
          | none => none
          | some (ids2, sup'') => some (subId :: ids1 ++ ids2, sup'')
      else traceUnlock env fuel currId rest sup1
end

theorem cartesianG_ne_nil {α : Type} : ∀ (xss : List (List α)), (∀ xs ∈ xss, xs ≠ []) → cartesianG xss ≠ []
  | [], _ => by simp [cartesianG]
  | xs :: rest, h => by
      have h1 : xs ≠ [] := h xs (by simp)
      have h2 := cartesianG_ne_nil rest (fun ys hy => h ys (List.mem_cons_of_mem _ hy))
      obtain ⟨x, hx⟩ := List.exists_mem_of_ne_nil _ h1
      obtain ⟨tl, htl⟩ := List.exists_mem_of_ne_nil _ h2
      apply List.ne_nil_of_mem (a := x :: tl)
      simp only [cartesianG, List.mem_flatMap, List.mem_map]
      exact ⟨x, hx, tl, htl, rfl⟩

theorem substituteBound_ne_nil (σ : Subst) (b tr : T) : substituteBound σ b tr ≠ [] := by
  obtain ⟨x, hx⟩ := List.exists_mem_of_ne_nil _ (revSub_ne_nil (reverseMap σ) b)
  obtain ⟨y, hy⟩ := List.exists_mem_of_ne_nil _ (revSub_ne_nil (reverseMap σ) tr)
  apply List.ne_nil_of_mem (a := (x, y))
  simp only [substituteBound, List.mem_flatMap, List.mem_map]
  exact ⟨x, hx, y, hy, rfl⟩

theorem intersection_ne_nil (g : ABG) (other : Blk) (σ : Subst) : g.intersection other σ ≠ [] := by
  unfold ABG.intersection
  simp only [ne_eq, List.map_eq_nil_iff]
  apply cartesianG_ne_nil
  intro xs hxs
  obtain ⟨e, _, rfl⟩ := List.mem_map.1 hxs
  simp only [ne_eq, List.map_eq_nil_iff]
  exact substituteBound_ne_nil σ _ _

/-- fold with error threading: an invariant that may mention the prefix already processed -/
theorem foldl_except_pre {α σ ε : Type} (f : Except ε σ → α → Except ε σ) (I : List α → σ → Prop) :
    ∀ (l pre : List α), (∀ a ∈ l, ∀ pre' s, I pre' s → ∀ s', f (.ok s) a = .ok s' → I (pre' ++ [a]) s') →
      (∀ a e, f (.error e) a = .error e) →
      ∀ st, (∀ s, st = .ok s → I pre s) → ∀ s', l.foldl f st = .ok s' → I (pre ++ l) s'
  | [], pre, _, _, st, hst, s', h => by simpa using hst s' h
  | a :: l, pre, hf, herr, st, hst, s', h => by
      rw [List.foldl_cons] at h
      have := foldl_except_pre f I l (pre ++ [a]) (fun b hb => hf b (List.mem_cons_of_mem _ hb)) herr (f st a) (by
        intro s hs
        cases st with
        | error e => rw [herr] at hs; cases hs
        | ok s0 => exact hf a (by simp) pre s0 (hst s0 rfl) s hs) s' h
      simpa using this


/-- the candidate keeps the headers distinct and places exactly the given blocks and those of the unlocked headers -/
def Placed2 (env : Env) (groups : Groups) (impls : List Blk) (ids : List T) (g : Groups) : Prop :=
  g.ids.Nodup ∧ g.mem.Perm (groups.mem ++ impls ++ ids.flatMap env.impls)

def RecTrace (env : Env) (fuel : Nat) : Prop :=
  ∀ currId impls sup groups res sup', searchRec env fuel currId impls sup groups = .ok (res, sup') →
    groups.ids.Nodup →
    ∃ ids, traceRec env fuel currId impls.length sup = some (ids, sup') ∧ res ≠ [] ∧
      ∀ g ∈ res, Placed2 env groups impls ids g

def UnlockTrace (env : Env) (fuel : Nat) : Prop :=
  ∀ currId subs sup acc res sup' (M : List Blk), searchUnlock env fuel currId subs sup acc = .ok (res, sup') →
    acc ≠ [] → (∀ g ∈ acc, g.ids.Nodup ∧ g.mem.Perm M) →
    ∃ ids, traceUnlock env fuel currId subs sup = some (ids, sup') ∧ res ≠ [] ∧
      ∀ g ∈ res, g.ids.Nodup ∧ g.mem.Perm (M ++ ids.flatMap env.impls)

theorem unlockTrace_step {env : Env} {fuel : Nat} (ihR : RecTrace env fuel) (ihU : UnlockTrace env fuel) :
    UnlockTrace env (fuel + 1) := by
  intro currId subs sup acc res sup' M h hne hacc
  cases subs with
  | nil =>
    rw [searchUnlock] at h; cases h
    exact ⟨[], by rw [traceUnlock], hne, fun g hg => by simpa using hacc g hg⟩
  | cons s rest =>
    obtain ⟨subId, σs⟩ := s
    rw [searchUnlock] at h
    rw [traceUnlock]
    dsimp only at h ⊢
    split at h
    · next hz =>
      rw [if_pos hz]
      generalize hstep : List.foldl _ _ acc = step at h
      have hgood : ∀ s', step = .ok s' →
          ∃ ids1, traceRec env fuel subId (env.impls subId).length (sup.dec subId) = some (ids1, s'.2) ∧ s'.1 ≠ [] ∧
            ∀ g ∈ s'.1, g.ids.Nodup ∧ g.mem.Perm (M ++ env.impls subId ++ ids1.flatMap env.impls) := by
        intro s' hs'
        rw [← hstep] at hs'
        have := foldl_except_pre _ (fun (pre : List Groups) (s : List Groups × Supersets) =>
            (pre = [] → s.1 = []) ∧ (pre ≠ [] →
              ∃ ids1, traceRec env fuel subId (env.impls subId).length (sup.dec subId) = some (ids1, s.2) ∧ s.1 ≠ [] ∧
                ∀ g ∈ s.1, g.ids.Nodup ∧ g.mem.Perm (M ++ env.impls subId ++ ids1.flatMap env.impls)))
          acc [] ?_ ?_ _ ?_ s' hs'
        · exact this.2 (by simpa using hne)
        · intro g hg pre s hs s2 hs2
          obtain ⟨out, sp⟩ := s
          dsimp only at hs2
          split at hs2
          · cases hs2
          · next r sp' hr =>
            cases hs2
            obtain ⟨ids1, ht, hrne, hpl⟩ := ihR _ _ _ _ _ _ hr (hacc g hg).1
            refine ⟨fun h0 => by simp at h0, fun _ => ⟨ids1, ht, ?_, ?_⟩⟩
            · intro h0
              exact hrne (List.append_eq_nil_iff.1 h0).2
            · intro g' hg'
              rcases List.mem_append.1 hg' with h1 | h1
              · by_cases hpre : pre = []
                · have := hs.1 hpre
                  dsimp only at this
                  rw [this] at h1; cases h1
                · obtain ⟨ids0, ht0, _, hpl0⟩ := hs.2 hpre
                  rw [ht] at ht0
                  cases ht0
                  exact hpl0 g' h1
              · obtain ⟨hn, hp⟩ := hpl g' h1
                exact ⟨hn, hp.trans (List.Perm.append_right _ (List.Perm.append_right _ (hacc g hg).2))⟩
        · intro a e; rfl
        · intro s hs; cases hs; exact ⟨fun _ => rfl, fun h0 => absurd rfl h0⟩
      split at h
      · cases h
      · next acc' sp1 hst =>
        obtain ⟨ids1, ht1, hne1, hpl1⟩ := hgood _ rfl
        obtain ⟨ids2, ht2, hne2, hpl2⟩ := ihU _ _ _ _ _ _ (M ++ env.impls subId ++ ids1.flatMap env.impls) h hne1 hpl1
        dsimp only at ht1
        rw [ht1]
        dsimp only
        rw [ht2]
        refine ⟨subId :: ids1 ++ ids2, rfl, hne2, fun g hg => ?_⟩
        obtain ⟨hn, hp⟩ := hpl2 g hg
        refine ⟨hn, hp.trans ?_⟩
        simp [List.flatMap_cons, List.flatMap_append, List.append_assoc]
    · next hz =>
      rw [if_neg hz]
      exact ihU _ _ _ _ _ _ M h hne hacc

theorem recTrace_step {env : Env} {fuel : Nat} (ihR : RecTrace env fuel) (ihU : UnlockTrace env fuel) :
    RecTrace env (fuel + 1) := by
  intro currId impls sup groups res sup' h hn
  cases impls with
  | nil =>
    rw [searchRec] at h
    obtain ⟨ids, ht, hne, hpl⟩ := ihU _ _ _ _ _ _ groups.mem h (by simp) (by
      intro g hg; simp only [List.mem_singleton] at hg; subst hg; exact ⟨hn, List.Perm.refl _⟩)
    refine ⟨ids, by rw [List.length_nil, traceRec]; exact ht, hne, fun g hg => ?_⟩
    obtain ⟨h1, h2⟩ := hpl g hg
    exact ⟨h1, by simpa using h2⟩
  | cons curr other =>
    rw [searchRec] at h
    rw [List.length_cons, traceRec]
    dsimp only at h
    -- a candidate for the rest, found after placing `curr` into `gs'`
    have key : ∀ (gs' : Groups) r sp', searchRec env fuel currId other sup gs' = .ok (r, sp') →
        gs'.ids.Nodup → gs'.mem.Perm (groups.mem ++ [curr]) →
        ∃ ids, traceRec env fuel currId other.length sup = some (ids, sp') ∧ r ≠ [] ∧
          ∀ g ∈ r, Placed2 env groups (curr :: other) ids g := by
      intro gs' r sp' hr hn' hp
      obtain ⟨ids, ht, hne, hpl⟩ := ihR _ _ _ _ _ _ hr hn'
      refine ⟨ids, ht, hne, fun g hg => ?_⟩
      obtain ⟨h1, h2⟩ := hpl g hg
      refine ⟨h1, h2.trans ?_⟩
      have := List.Perm.append_right (other ++ ids.flatMap env.impls) hp
      simpa [List.append_assoc] using this
    -- the invariant of the two folds
    let Good : Groups → Prop := fun g => ∃ ids sp, traceRec env fuel currId other.length sup = some (ids, sp) ∧
      Placed2 env groups (curr :: other) ids g
    let St : List Groups × Supersets × Bool → Prop := fun s => (∀ g ∈ s.1, Good g) ∧
      (s.2.2 = true → s.1 ≠ [] ∧ ∃ ids, traceRec env fuel currId other.length sup = some (ids, s.2.1))
    have addRes : ∀ (acc : List Groups) (ns : Supersets) (any : Bool) (gs' : Groups) r sp',
        St (acc, ns, any) → searchRec env fuel currId other sup gs' = .ok (r, sp') →
        gs'.ids.Nodup → gs'.mem.Perm (groups.mem ++ [curr]) →
        r.isEmpty = false ∧ St (acc ++ r, sp', true) := by
      intro acc ns any gs' r sp' hst hr hn' hp
      obtain ⟨ids, ht, hne, hpl⟩ := key gs' r sp' hr hn' hp
      refine ⟨by simpa using hne, ?_, fun _ => ⟨?_, ids, ht⟩⟩
      · intro g hg
        rcases List.mem_append.1 hg with h1 | h1
        · exact hst.1 g h1
        · exact ⟨ids, sp', ht, hpl g h1⟩
      · intro h0; exact hne (List.append_eq_nil_iff.1 h0).2
    generalize htry : List.foldl _ _ groups = tryG at h
    have hgood1 : ∀ s, tryG = .ok s → St s ∧ ((∃ ge ∈ groups, ge.1 = currId) → s.2.2 = true) := by
      intro s hs
      rw [← htry] at hs
      have := foldl_except_pre _ (fun (pre : Groups) (s : List Groups × Supersets × Bool) =>
          St s ∧ ((∃ ge ∈ pre, ge.1 = currId) → s.2.2 = true)) groups [] ?_ ?_ _ ?_ s hs
      · simpa using this
      · intro ge hge pre s0 hs0 s1 hs1
        obtain ⟨acc, newSup, any⟩ := s0
        dsimp only at hs1
        split at hs1
        · cases hs1
        · next hnone =>
          cases hs1
          refine ⟨hs0.1, ?_⟩
          rintro ⟨ge', hge', hid⟩
          rcases List.mem_append.1 hge' with h1 | h1
          · exact hs0.2 ⟨ge', h1, hid⟩
          · simp only [List.mem_singleton] at h1
            subst h1
            -- the group with the current header always offers a substitution
            exfalso
            split at hnone
            · cases hnone
            · rw [if_pos (by simp [hid])] at hnone
              split at hnone <;> cases hnone
        · next σ _ =>
          have hinner := foldl_except_pre _ (fun (pre2 : List ABG) (s : List Groups × Supersets × Bool) =>
              St s ∧ (pre2 ≠ [] → s.2.2 = true)) (ge.2.1.intersection curr σ) [] ?_ ?_ _ ?_ s1 hs1
          · refine ⟨hinner.1, fun _ => hinner.2 (by simpa using intersection_ne_nil _ _ _)⟩
          · intro inter _ pre2 s2 hs2 s2' hs2'
            obtain ⟨acc2, newSup2, any2⟩ := s2
            dsimp only at hs2'
            split at hs2'
            · cases hs2'
            · next r sp' hr =>
              obtain ⟨hre, hst'⟩ := addRes acc2 newSup2 any2 _ r sp' hs2.1 hr (by rw [setGroup_ids]; exact hn)
                (setGroup_mem_perm groups ge inter curr hn hge)
              rw [hre] at hs2'
              simp only [Bool.false_eq_true, if_false] at hs2'
              cases hs2'
              exact ⟨hst', fun _ => rfl⟩
          · intro a e; rfl
          · intro s0' hs0'; cases hs0'; exact ⟨hs0.1, fun h0 => absurd rfl h0⟩
      · intro a e; rfl
      · intro s0 hs0; cases hs0
        exact ⟨⟨fun g hg => (by cases hg), fun h0 => (by cases h0)⟩, fun ⟨ge, hge, _⟩ => (by cases hge)⟩
    split at h
    · cases h
    · next x acc newSup any =>
      obtain ⟨hst, hany⟩ := hgood1 _ rfl
      split at h
      · cases h
      · next x2 acc2 newSup2 any2 hfresh =>
        have hres : acc2 = res ∧ (if any2 = true then newSup2 else sup) = sup' := by
          simpa using h
        have hfin : St (acc2, newSup2, any2) ∧ any2 = true := by
          split at hfresh
          · next hex =>
            cases hfresh
            refine ⟨hst, hany ?_⟩
            obtain ⟨ge, hge, hid⟩ := List.any_eq_true.1 hex
            exact ⟨ge, hge, eq_of_beq hid⟩
          · next hnone =>
            split at hfresh
            · cases hfresh
            · next r sp' hr =>
              have hfreshId : currId ∉ groups.ids := by
                intro hm
                obtain ⟨e, he, rfl⟩ := List.mem_map.1 hm
                apply hnone
                exact List.any_eq_true.2 ⟨e, he, by simp⟩
              obtain ⟨hre, hst'⟩ := addRes acc newSup any _ r sp' hst hr (by
                  simp only [Groups.ids, List.map_append, List.map_cons, List.map_nil]
                  rw [List.nodup_append]
                  refine ⟨hn, by simp, ?_⟩
                  intro a ha b hb
                  simp only [List.mem_singleton] at hb
                  rw [hb]; intro e; rw [e] at ha; exact hfreshId ha)
                (by simp [Groups.mem])
              rw [hre] at hfresh
              simp only [Bool.false_eq_true, if_false] at hfresh
              cases hfresh
              exact ⟨hst', rfl⟩
        obtain ⟨⟨hgoodAll, hsome⟩, hany2⟩ := hfin
        subst hany2
        simp only [if_true] at hres
        obtain ⟨rfl, rfl⟩ := hres
        obtain ⟨hne, ids, ht⟩ := hsome rfl
        refine ⟨ids, by simpa using ht, hne, fun g hg => ?_⟩
        obtain ⟨ids', sp', ht', hpl⟩ := hgoodAll g hg
        dsimp only at ht
        rw [ht] at ht'
        cases ht'
        exact hpl

theorem search_trace (env : Env) : ∀ fuel, RecTrace env fuel ∧ UnlockTrace env fuel
  | 0 => by
      constructor
      · intro currId impls sup groups res sup' h; rw [searchRec] at h; cases h
      · intro currId subs sup acc res sup' M h; rw [searchUnlock] at h; cases h
  | fuel + 1 => by
      obtain ⟨ihR, ihU⟩ := search_trace env fuel
      exact ⟨recTrace_step ihR ihU, unlockTrace_step ihR ihU⟩


/-- the headers processed by the driver loop, root by root, with the counters threaded -/
def traceGo (env : Env) (fuel : Nat) : List T → Supersets → Option (List T)
  | [], _ => some []
  | r :: rest, sup =>
      match traceRec env (2 * fuel) r (env.impls r).length sup with
      | none => none
      | some (ids, sup') => (traceGo env fuel rest sup').map (fun tl => r :: ids ++ tl)

theorem go_trace (env : Env) (fuel : Nat) : ∀ (roots : List T) (sup : Supersets) (acc groups : Groups),
    parseGroups.go env fuel roots sup acc = .ok groups →
    ∃ tr, traceGo env fuel roots sup = some tr ∧ groups.mem.Perm (acc.mem ++ tr.flatMap env.impls)
  | [], sup, acc, groups, h => by
      rw [parseGroups.go] at h
      cases h
      exact ⟨[], rfl, by simp⟩
  | r :: rest, sup, acc, groups, h => by
      rw [parseGroups.go] at h
      split at h
      · cases h
      · next cands sup' hs =>
        split at h
        · cases h
        · next g hg =>
          obtain ⟨ids, ht, _, hpl⟩ := (search_trace env _).1 _ _ _ _ _ _ hs (by simp [Groups.ids])
          obtain ⟨cand, hcand, hfc⟩ := List.mem_filterMap.1 (chooseCandidate_mem hg)
          have hgm : g.mem.Perm (env.impls r ++ ids.flatMap env.impls) := by
            rw [filterCandidate_mem hfc]
            simpa [Groups.mem] using (hpl cand hcand).2
          obtain ⟨tl, htl, hp⟩ := go_trace env fuel rest sup' (acc ++ g) groups h
          refine ⟨r :: ids ++ tl, by simp [traceGo, ht, htl], hp.trans ?_⟩
          have e1 : Groups.mem (acc ++ g) = acc.mem ++ g.mem := by simp [Groups.mem]
          rw [e1]
          simp only [List.cons_append, List.flatMap_cons, List.flatMap_append, List.append_assoc]
          exact List.Perm.append_left _ (List.Perm.append_right _ hgm |>.trans (by simp))

/-- the order in which `parseGroups` processes the headers (`none`: out of fuel) -/
def parseTrace (rawItems : List T) : Option (List T) :=
  traceGo (parseEnv rawItems) (parseFuel rawItems) (parseRoots rawItems)
    (makeSets ((mkBuckets (rawItems.map mkBlk)).map (·.1))).1

theorem parseGroups_trace {rawItems : List T} {groups : Groups} (h : parseGroups rawItems = .ok groups) :
    ∃ tr, parseTrace rawItems = some tr ∧
      (groups.flatMap (fun e => e.2.2)).Perm (tr.flatMap (parseEnv rawItems).impls) := by
  unfold parseGroups at h
  simp only at h
  obtain ⟨tr, ht, hp⟩ := go_trace _ _ _ _ _ _ h
  refine ⟨tr, ht, ?_⟩
  have hp2 := hp
  simp only [Groups.mem, List.flatMap_nil, List.nil_append] at hp2
  exact hp2

/-- executable check: the processed headers are exactly the headers of the buckets, each once -/
def traceCovers (rawItems : List T) : Bool :=
  match parseTrace rawItems with
  | some tr => tr.isPerm ((mkBuckets (rawItems.map mkBlk)).map (·.1))
  | none => false

/-- partition, reduced to the counters: if every header is processed exactly once, every block is placed exactly once -/
theorem parseGroups_partition_of_trace {rawItems : List T} {groups : Groups} (h : parseGroups rawItems = .ok groups)
    (hc : traceCovers rawItems = true) :
    (groups.flatMap (fun e => e.2.2)).Perm ((mkBuckets (rawItems.map mkBlk)).flatMap (fun bk => bk.2)) := by
  obtain ⟨tr, ht, hp⟩ := parseGroups_trace h
  unfold traceCovers at hc
  rw [ht] at hc
  have hperm := List.isPerm_iff.1 hc
  refine hp.trans ((List.Perm.flatMap_right _ hperm).trans ?_)
  rw [List.flatMap_map]
  have hn := mkBuckets_ids_nodup (rawItems.map mkBlk)
  have : ∀ (l : List (T × List Blk)), (∀ bk ∈ l, (parseEnv rawItems).impls bk.1 = bk.2) →
      l.flatMap (fun a => (parseEnv rawItems).impls a.1) = l.flatMap (fun bk => bk.2) := by
    intro l hl
    induction l with
    | nil => rfl
    | cons a l ih =>
      rw [List.flatMap_cons, List.flatMap_cons, hl a (by simp), ih (fun bk hbk => hl bk (List.mem_cons_of_mem _ hbk))]
  rw [this (mkBuckets (rawItems.map mkBlk)) (fun bk hbk => impls_of_bucket (env := parseEnv rawItems) hn hbk)]


/-! ### The search without nested headers, as a plain recursion over the blocks of one bucket -/

/-- both sides fail alike, or both succeed with related states -/
def ExRel {ε σ τ : Type} (R : σ → τ → Prop) : Except ε σ → Except ε τ → Prop
  | .ok s, .ok t => R s t
  | .error e, .error e' => e = e'
  | _, _ => False

theorem foldl_sim {α σ τ ε : Type} (F : Except ε σ → α → Except ε σ) (G : Except ε τ → α → Except ε τ)
    (R : σ → τ → Prop) : ∀ (l : List α),
      (∀ a ∈ l, ∀ s t, R s t → ExRel R (F (.ok s) a) (G (.ok t) a)) →
      (∀ a e, F (.error e) a = .error e) → (∀ a e, G (.error e) a = .error e) →
      ∀ st tt, ExRel R st tt → ExRel R (l.foldl F st) (l.foldl G tt)
  | [], _, _, _, st, tt, h => h
  | a :: l, hs, hF, hG, st, tt, h => by
      rw [List.foldl_cons, List.foldl_cons]
      apply foldl_sim F G R l (fun b hb => hs b (List.mem_cons_of_mem _ hb)) hF hG
      cases st with
      | error e =>
        cases tt with
        | error e' => rw [hF, hG]; exact h
        | ok t => exact absurd h (by simp [ExRel])
      | ok s =>
        cases tt with
        | error e' => exact absurd h (by simp [ExRel])
        | ok t => exact hs a (by simp) s t h

/-- the candidates for one bucket when no header generalises another one -/
def flatSearch (c : T) : List Blk → Groups → Except SearchErr (List Groups)
  | [], groups => .ok [groups]
  | curr :: other, groups =>
      let tryGroups := groups.foldl (fun (st : Except SearchErr (List Groups)) ge =>
        match st with
        | .error e => .error e
        | .ok acc =>
          if ge.1 == c then
            (match sup ge.1 c with
             | .yes σ _ =>
                (ge.2.1.intersection curr σ).foldl (fun (st2 : Except SearchErr (List Groups)) inter =>
                  match st2 with
                  | .error e => .error e
                  | .ok acc2 =>
                    match flatSearch c other (setGroup groups ge.1 (inter, ge.2.2 ++ [curr])) with
                    | .error e => .error e
                    | .ok res => .ok (acc2 ++ res)) (.ok acc)
             | _ => .error .unwrapNone)
          else .ok acc) (.ok [])
      match tryGroups with
      | .error e => .error e
      | .ok acc =>
        if groups.any (fun ge => ge.1 == c) then .ok acc
        else match flatSearch c other (groups ++ [(c, ABG.new curr, [curr])]) with
          | .error e => .error e
          | .ok res => .ok (acc ++ res)

def withSup (sup : Supersets) : Except SearchErr (List Groups) → Except SearchErr (List Groups × Supersets)
  | .ok res => .ok (res, sup)
  | .error e => .error e

/-- states of the two folds agree: same candidates, counters untouched -/
def FlatRel (sup : Supersets) (s : List Groups × Supersets × Bool) (acc' : List Groups) : Prop :=
  s.1 = acc' ∧ s.2.1 = sup

theorem inner_sim (sup : Supersets) (rec : Groups → Except SearchErr (List Groups × Supersets))
    (recF : Groups → Except SearchErr (List Groups)) (hrec : ∀ g, rec g = withSup sup (recF g))
    (mk : ABG → Groups) (inters : List ABG) (s : List Groups × Supersets × Bool) (acc' : List Groups)
    (h : FlatRel sup s acc') :
    ExRel (FlatRel sup)
      (inters.foldl (fun (st2 : Except SearchErr (List Groups × Supersets × Bool)) inter =>
        match st2 with
        | .error e => .error e
        | .ok (acc2, newSup2, any2) =>
          match rec (mk inter) with
          | .error e => .error e
          | .ok (res, sup') => if res.isEmpty then .ok (acc2, newSup2, any2) else .ok (acc2 ++ res, sup', true)) (.ok s))
      (inters.foldl (fun (st2 : Except SearchErr (List Groups)) inter =>
        match st2 with
        | .error e => .error e
        | .ok acc2 =>
          match recF (mk inter) with
          | .error e => .error e
          | .ok res => .ok (acc2 ++ res)) (.ok acc')) := by
  apply foldl_sim
  · intro inter _ s2 t2 hr
    obtain ⟨acc2, ns2, any2⟩ := s2
    obtain ⟨h1, h2⟩ := hr
    dsimp only at h1 h2 ⊢
    rw [hrec]
    cases recF (mk inter) with
    | error e => simp [withSup, ExRel]
    | ok res =>
      simp only [withSup]
      by_cases he : res.isEmpty = true
      · rw [if_pos he]
        have : res = [] := by simpa using he
        simp [ExRel, FlatRel, h1, h2, this]
      · rw [if_neg he]
        simp [ExRel, FlatRel, h1]
  · intro a e; rfl
  · intro a e; rfl
  · exact h

theorem searchRec_flat {env : Env} (hns : ∀ id, env.subsets.get id = []) (c : T) :
    ∀ (impls : List Blk) (f : Nat) (sup : Supersets) (groups : Groups), impls.length + 2 ≤ f →
      searchRec env f c impls sup groups = withSup sup (flatSearch c impls groups)
  | [], f, sup, groups, hf => by
      obtain ⟨f0, rfl⟩ : ∃ f0, f = f0 + 2 := ⟨f - 2, by simp at hf; omega⟩
      rw [searchRec, hns, searchUnlock, flatSearch]
      rfl
  | curr :: other, f, sup, groups, hf => by
      obtain ⟨f0, rfl⟩ : ∃ f0, f = f0 + 1 := ⟨f - 1, by simp at hf; omega⟩
      have ih : ∀ g, searchRec env f0 c other sup g = withSup sup (flatSearch c other g) :=
        fun g => searchRec_flat hns c other f0 sup g (by simp at hf ⊢; omega)
      rw [searchRec, flatSearch]
      dsimp only
      -- the fold over the existing groups
      have hfold : ExRel (FlatRel sup)
          (groups.foldl (fun (st : Except SearchErr (List Groups × Supersets × Bool)) ge =>
            match st with
            | .error e => .error e
            | .ok (acc, newSup, any) =>
              let gid := ge.1
              let subs? : Except SearchErr (Option Subst) :=
                match (env.subsets.get gid).find? (fun e => e.1 == c) with
                | some e => .ok (some e.2)
                | none => if gid == c then
                    (match DI.sup gid c with
                     | .yes σ _ => .ok (some σ)
                     | _ => .error .unwrapNone)
                  else .ok none
              match subs? with
              | .error e => .error e
              | .ok none => .ok (acc, newSup, any)
              | .ok (some σ) =>
                (ge.2.1.intersection curr σ).foldl (fun (st2 : Except SearchErr (List Groups × Supersets × Bool)) inter =>
                  match st2 with
                  | .error e => .error e
                  | .ok (acc2, newSup2, any2) =>
                    match searchRec env f0 c other sup (setGroup groups gid (inter, ge.2.2 ++ [curr])) with
                    | .error e => .error e
                    | .ok (res, sup') => if res.isEmpty then .ok (acc2, newSup2, any2) else .ok (acc2 ++ res, sup', true))
                  (.ok (acc, newSup, any))) (.ok ([], sup, false)))
          (groups.foldl (fun (st : Except SearchErr (List Groups)) ge =>
            match st with
            | .error e => .error e
            | .ok acc =>
              if ge.1 == c then
                (match DI.sup ge.1 c with
                 | .yes σ _ =>
                    (ge.2.1.intersection curr σ).foldl (fun (st2 : Except SearchErr (List Groups)) inter =>
                      match st2 with
                      | .error e => .error e
                      | .ok acc2 =>
                        match flatSearch c other (setGroup groups ge.1 (inter, ge.2.2 ++ [curr])) with
                        | .error e => .error e
                        | .ok res => .ok (acc2 ++ res)) (.ok acc)
                 | _ => .error .unwrapNone)
              else .ok acc) (.ok [])) := by
        apply foldl_sim
        · intro ge _ s t hr
          obtain ⟨acc, ns, any⟩ := s
          dsimp only
          rw [hns, List.find?_nil]
          dsimp only
          by_cases hc : (ge.1 == c) = true
          · rw [if_pos hc, if_pos hc]
            cases hsup : DI.sup ge.1 c with
            | yes σ l =>
              dsimp only
              exact inner_sim sup (fun g => searchRec env f0 c other sup g) (fun g => flatSearch c other g) ih
                (fun inter => setGroup groups ge.1 (inter, ge.2.2 ++ [curr])) _ _ _ hr
            | no => simp [ExRel]
            | panic => simp [ExRel]
          · rw [if_neg hc, if_neg hc]
            exact hr
        · intro a e; rfl
        · intro a e; rfl
        · exact ⟨rfl, rfl⟩
      revert hfold
      generalize List.foldl _ _ groups = X
      generalize List.foldl _ _ groups = Y
      intro hfold
      cases X with
      | error e =>
        cases Y with
        | error e' => simp only [ExRel] at hfold; subst hfold; rfl
        | ok t => exact absurd hfold (by simp [ExRel])
      | ok s =>
        cases Y with
        | error e' => exact absurd hfold (by simp [ExRel])
        | ok t =>
          obtain ⟨acc, ns, any⟩ := s
          obtain ⟨h1, h2⟩ := hfold
          dsimp only at h1 h2 ⊢
          subst h1 h2
          by_cases hany : (groups.any fun ge => ge.1 == c) = true
          · simp only [hany, if_true]
            cases any <;> rfl
          · simp only [hany, Bool.false_eq_true, if_false]
            rw [ih]
            cases flatSearch c other (groups ++ [(c, ABG.new curr, [curr])]) with
            | error e => rfl
            | ok res =>
              simp only [withSup]
              by_cases he : res.isEmpty = true
              · have : res = [] := by simpa using he
                subst this
                cases any <;> simp
              · simp [he]


/-- the driver loop without nested headers: bucket by bucket -/
def goFlat : List (T × List Blk) → Groups → ParseResult
  | [], acc => .ok acc
  | (r, blks) :: rest, acc =>
      match flatSearch r blks [] with
      | .error e => .panic e
      | .ok cands =>
        match chooseCandidate (cands.filterMap filterCandidate) with
        | none => .unableToForm r
        | some g => goFlat rest (acc ++ g)

theorem go_flat {env : Env} (hns : ∀ id, env.subsets.get id = []) (fuel : Nat) :
    ∀ (l : List (T × List Blk)) (sup : Supersets) (acc : Groups),
      (∀ bk ∈ l, env.impls bk.1 = bk.2 ∧ bk.2.length + 2 ≤ 2 * fuel) →
      parseGroups.go env fuel (l.map (·.1)) sup acc = goFlat l acc
  | [], sup, acc, _ => by rw [List.map_nil, parseGroups.go, goFlat]
  | (r, blks) :: rest, sup, acc, h => by
      obtain ⟨h1, h2⟩ := h (r, blks) (by simp)
      simp only at h1 h2
      rw [List.map_cons, parseGroups.go, goFlat, h1, searchRec_flat hns r blks _ sup [] h2]
      cases flatSearch r blks [] with
      | error e => rfl
      | ok cands =>
        simp only [withSup]
        cases chooseCandidate (cands.filterMap filterCandidate) with
        | none => rfl
        | some g => exact go_flat hns fuel rest sup (acc ++ g) (fun bk hbk => h bk (List.mem_cons_of_mem _ hbk))

theorem mkBuckets_len (blocks : List Blk) : ∀ bk ∈ mkBuckets blocks, bk.2.length ≤ blocks.length := by
  unfold mkBuckets
  suffices h : ∀ (bs : List Blk) (acc : List (T × List Blk)) (n : Nat), (∀ bk ∈ acc, bk.2.length ≤ n) →
      ∀ bk ∈ bs.foldl (fun acc b =>
        let id := groupIdOf b.item
        match acc.find? (fun e => e.1 == id) with
        | some _ => acc.map (fun e => if e.1 == id then
            (e.1, if e.2.any (fun x => x.item == b.item) then e.2.map (fun x => if x.item == b.item then b else x) else e.2 ++ [b]) else e)
        | none => acc ++ [(id, [b])]) acc, bk.2.length ≤ n + bs.length from by
    intro bk hbk
    have := h blocks [] 0 (fun bk hbk => by cases hbk) bk hbk
    simpa using this
  intro bs
  induction bs with
  | nil => intro acc n h; simpa using h
  | cons b bs ih =>
    intro acc n hacc bk hbk
    rw [List.foldl_cons] at hbk
    have := ih _ (n + 1) ?_ bk hbk
    · simp only [List.length_cons]; omega
    · intro bk' hbk'
      dsimp only at hbk'
      split at hbk'
      · obtain ⟨e, he, rfl⟩ := List.mem_map.1 hbk'
        have hl := hacc e he
        split
        · dsimp only
          split
          · simp only [List.length_map]; omega
          · simp only [List.length_append, List.length_cons, List.length_nil]; omega
        · omega
      · rcases List.mem_append.1 hbk' with h1 | h1
        · have := hacc bk' h1; omega
        · simp only [List.mem_singleton] at h1
          rw [h1]; simp

/-- without nested headers `parseGroups` is the bucket-by-bucket loop -/
theorem parseGroups_flat (rawItems : List T) (hns : ∀ id, (parseEnv rawItems).subsets.get id = []) :
    parseGroups rawItems = goFlat (mkBuckets (rawItems.map mkBlk)) [] := by
  have hroots : parseRoots rawItems = (mkBuckets (rawItems.map mkBlk)).map (·.1) := roots_of_no_subsets hns
  have hn := mkBuckets_ids_nodup (rawItems.map mkBlk)
  have := go_flat (env := parseEnv rawItems) hns (parseFuel rawItems) (mkBuckets (rawItems.map mkBlk))
    (makeSets ((mkBuckets (rawItems.map mkBlk)).map (·.1))).1 [] (by
      intro bk hbk
      refine ⟨impls_of_bucket (env := parseEnv rawItems) hn hbk, ?_⟩
      have := mkBuckets_len _ bk hbk
      simp only [parseFuel]
      omega)
  rw [← this]
  have hgo : parseGroups rawItems = parseGroups.go (parseEnv rawItems) (parseFuel rawItems) (parseRoots rawItems)
      (makeSets ((mkBuckets (rawItems.map mkBlk)).map (·.1))).1 [] := by
    unfold parseGroups
    rfl
  rw [hgo, hroots]


/-- one step of `mkBuckets` -/
def bucketStep (acc : List (T × List Blk)) (b : Blk) : List (T × List Blk) :=
  let id := groupIdOf b.item
  match acc.find? (fun e => e.1 == id) with
  | some _ => acc.map (fun e => if e.1 == id then
      (e.1, if e.2.any (fun x => x.item == b.item) then e.2.map (fun x => if x.item == b.item then b else x) else e.2 ++ [b]) else e)
  | none => acc ++ [(id, [b])]

theorem mkBuckets_eq (blocks : List Blk) : mkBuckets blocks = blocks.foldl bucketStep [] := rfl

theorem bucketStep_append (acc0 acc : List (T × List Blk)) (b : Blk)
    (h : ∀ e ∈ acc0, e.1 ≠ groupIdOf b.item) : bucketStep (acc0 ++ acc) b = acc0 ++ bucketStep acc b := by
  have hfind : (acc0 ++ acc).find? (fun e => e.1 == groupIdOf b.item) = acc.find? (fun e => e.1 == groupIdOf b.item) := by
    rw [List.find?_append]
    have : acc0.find? (fun e => e.1 == groupIdOf b.item) = none := by
      apply List.find?_eq_none.2
      intro e he hc
      exact h e he (eq_of_beq hc)
    rw [this]; rfl
  have hmap : ∀ f : T × List Blk → T × List Blk, (∀ e ∈ acc0, f e = e) → (acc0 ++ acc).map f = acc0 ++ acc.map f := by
    intro f hf
    rw [List.map_append]
    congr 1
    rw [List.map_congr_left hf, List.map_id']
  unfold bucketStep
  dsimp only
  rw [hfind]
  cases acc.find? (fun e => e.1 == groupIdOf b.item) with
  | some x =>
    dsimp only
    apply hmap
    intro e he
    rw [if_neg (by intro hc; exact h e he (eq_of_beq hc))]
  | none => simp

theorem foldl_bucketStep_append : ∀ (bs : List Blk) (acc0 acc : List (T × List Blk)),
    (∀ b ∈ bs, ∀ e ∈ acc0, e.1 ≠ groupIdOf b.item) →
    bs.foldl bucketStep (acc0 ++ acc) = acc0 ++ bs.foldl bucketStep acc
  | [], _, _, _ => rfl
  | b :: bs, acc0, acc, h => by
      rw [List.foldl_cons, List.foldl_cons, bucketStep_append acc0 acc b (h b (by simp))]
      exact foldl_bucketStep_append bs acc0 _ (fun x hx => h x (List.mem_cons_of_mem _ hx))

theorem bucketStep_ids (acc : List (T × List Blk)) (b : Blk) :
    ∀ e ∈ bucketStep acc b, e.1 = groupIdOf b.item ∨ ∃ e0 ∈ acc, e0.1 = e.1 := by
  intro e he
  unfold bucketStep at he
  dsimp only at he
  split at he
  · obtain ⟨e0, he0, rfl⟩ := List.mem_map.1 he
    right
    refine ⟨e0, he0, ?_⟩
    split <;> rfl
  · rcases List.mem_append.1 he with h | h
    · exact Or.inr ⟨e, h, rfl⟩
    · simp only [List.mem_singleton] at h; rw [h]; exact Or.inl rfl

theorem foldl_bucketStep_ids : ∀ (bs : List Blk) (acc : List (T × List Blk)),
    ∀ e ∈ bs.foldl bucketStep acc, (∃ b ∈ bs, groupIdOf b.item = e.1) ∨ ∃ e0 ∈ acc, e0.1 = e.1
  | [], acc, e, he => Or.inr ⟨e, he, rfl⟩
  | b :: bs, acc, e, he => by
      rw [List.foldl_cons] at he
      rcases foldl_bucketStep_ids bs _ e he with ⟨x, hx, h⟩ | ⟨e0, he0, h⟩
      · exact Or.inl ⟨x, List.mem_cons_of_mem _ hx, h⟩
      · rcases bucketStep_ids acc b e0 he0 with h1 | ⟨e1, he1, h1⟩
        · exact Or.inl ⟨b, by simp, by rw [← h1, h]⟩
        · exact Or.inr ⟨e1, he1, h1.trans h⟩

/-- blocks with disjoint sets of headers are bucketed independently -/
theorem mkBuckets_append (bs1 bs2 : List Blk)
    (h : ∀ b1 ∈ bs1, ∀ b2 ∈ bs2, groupIdOf b1.item ≠ groupIdOf b2.item) :
    mkBuckets (bs1 ++ bs2) = mkBuckets bs1 ++ mkBuckets bs2 := by
  rw [mkBuckets_eq, List.foldl_append, ← mkBuckets_eq]
  have := foldl_bucketStep_append bs2 (mkBuckets bs1) [] (by
    intro b hb e he heq
    rcases foldl_bucketStep_ids bs1 [] e (by rw [← mkBuckets_eq]; exact he) with ⟨x, hx, hxe⟩ | ⟨e0, he0, _⟩
    · exact h x hx b hb (hxe.trans heq)
    · cases he0)
  simpa [mkBuckets_eq] using this


/-- put `acc` in front of an accepted grouping -/
def ParseResult.prepend (acc : Groups) : ParseResult → ParseResult
  | .ok g => .ok (acc ++ g)
  | r => r

theorem goFlat_acc : ∀ (l : List (T × List Blk)) (acc : Groups), goFlat l acc = (goFlat l []).prepend acc
  | [], acc => by simp [goFlat, ParseResult.prepend]
  | (r, blks) :: rest, acc => by
      rw [goFlat, goFlat]
      cases flatSearch r blks [] with
      | error e => rfl
      | ok cands =>
        dsimp only
        cases chooseCandidate (cands.filterMap filterCandidate) with
        | none => rfl
        | some g =>
          dsimp only
          rw [goFlat_acc rest (acc ++ g), goFlat_acc rest ([] ++ g)]
          cases goFlat rest [] with
          | ok g' => simp [ParseResult.prepend]
          | unableToForm _ => rfl
          | panic _ => rfl

theorem goFlat_append : ∀ (l1 l2 : List (T × List Blk)) (acc : Groups),
    goFlat (l1 ++ l2) acc = (match goFlat l1 acc with | .ok a => goFlat l2 a | r => r)
  | [], l2, acc => by simp [goFlat]
  | (r, blks) :: rest, l2, acc => by
      rw [List.cons_append, goFlat, goFlat]
      cases flatSearch r blks [] with
      | error e => rfl
      | ok cands =>
        dsimp only
        cases chooseCandidate (cands.filterMap filterCandidate) with
        | none => rfl
        | some g => exact goFlat_append rest l2 (acc ++ g)

theorem mem_zipIdx_of_mem {l : List T} {x : T} (h : x ∈ l) : ∃ i, (x, i) ∈ l.zipIdx := by
  obtain ⟨i, hi⟩ := List.mem_iff_getElem?.1 h
  exact ⟨i, List.mem_zipIdx_iff_getElem?.2 hi⟩

theorem mem_of_mem_zipIdx {l : List T} {x : T × Nat} (h : x ∈ l.zipIdx) : x.1 ∈ l :=
  List.mem_iff_getElem?.2 ⟨x.2, List.mem_zipIdx_iff_getElem?.1 h⟩

/-- `make_sets` records no pair iff no header generalises a different one -/
theorem msPairs_nil_iff {ids : List T} :
    msPairs ids = [] ↔ ∀ g1 ∈ ids, ∀ g2 ∈ ids, (g1 == g2) = false → supYes g1 g2 = false := by
  constructor
  · intro hn g1 h1 g2 h2 hne
    cases hs : supYes g1 g2 with
    | false => rfl
    | true =>
      exfalso
      obtain ⟨i1, hi1⟩ := mem_zipIdx_of_mem h1
      obtain ⟨i2, hi2⟩ := mem_zipIdx_of_mem h2
      unfold supYes at hs
      split at hs
      · next σ l hσ =>
        by_cases hc : (decide (i1 > i2) && supYes g2 g1) = true
        · -- the reverse pair is recorded
          have hs2 : supYes g2 g1 = true := by
            cases h : supYes g2 g1 <;> simp_all
          unfold supYes at hs2
          split at hs2
          · next σ' l' hσ' =>
            have hlt : ¬ (i2 > i1) := by
              have : i1 > i2 := by
                cases h : decide (i1 > i2) <;> simp_all
              omega
            have hne' : (g2 == g1) = false := by
              cases h : (g2 == g1) with
              | false => rfl
              | true => have := eq_of_beq h; subst this; simp at hne
            have : (g2, g1, σ') ∈ msPairs ids := by
              simp only [msPairs, List.mem_flatMap, List.mem_filterMap]
              refine ⟨(g2, i2), hi2, (g1, i1), hi1, ?_⟩
              simp only [hne', hσ']
              simp [hlt]
            rw [hn] at this; cases this
          · cases hs2
        · have : (g1, g2, σ) ∈ msPairs ids := by
            simp only [msPairs, List.mem_flatMap, List.mem_filterMap]
            refine ⟨(g1, i1), hi1, (g2, i2), hi2, ?_⟩
            simp only [hne, hσ]
            simp only [Bool.not_eq_true] at hc
            simp [hc]
          rw [hn] at this; cases this
      · cases hs
  · intro h
    apply List.eq_nil_iff_forall_not_mem.2
    intro p hp
    simp only [msPairs, List.mem_flatMap, List.mem_filterMap] at hp
    obtain ⟨g1, hg1, g2, hg2, he⟩ := hp
    split at he
    · cases he
    · next hne =>
      split at he
      · next σ l hσ =>
        have := h g1.1 (mem_of_mem_zipIdx hg1) g2.1 (mem_of_mem_zipIdx hg2) (by simpa using hne)
        simp [supYes, hσ] at this
      · cases he

theorem msPairs_nil_sub {ids1 ids : List T} (h : ∀ x ∈ ids1, x ∈ ids) (hn : msPairs ids = []) : msPairs ids1 = [] :=
  msPairs_nil_iff.2 (fun g1 h1 g2 h2 hne => msPairs_nil_iff.1 hn g1 (h g1 h1) g2 (h g2 h2) hne)

theorem no_subsets_of_msPairs_nil {items : List T}
    (hp : msPairs ((mkBuckets (items.map mkBlk)).map (·.1)) = []) : ∀ id, (parseEnv items).subsets.get id = [] := by
  intro id
  simp only [parseEnv, makeSets_eq, hp, List.filter_nil, List.map_nil]
  unfold Subsets.get
  split
  · next e hf =>
    have := List.mem_of_find?_eq_some hf
    obtain ⟨x, _, rfl⟩ := List.mem_map.1 this
    rfl
  · rfl

/-- families with unrelated headers are independent: for two lists of blocks with disjoint sets of headers, none of
    which generalises another one, the grouping of the concatenation is the concatenation of the groupings -/
theorem parseGroups_independent (items1 items2 : List T)
    (hdisj : ∀ b1 ∈ items1.map mkBlk, ∀ b2 ∈ items2.map mkBlk, groupIdOf b1.item ≠ groupIdOf b2.item)
    (hp : msPairs ((mkBuckets ((items1 ++ items2).map mkBlk)).map (·.1)) = []) :
    parseGroups (items1 ++ items2) =
      (match parseGroups items1 with
       | .ok g1 => (parseGroups items2).prepend g1
       | r => r) := by
  have hb : mkBuckets ((items1 ++ items2).map mkBlk) = mkBuckets (items1.map mkBlk) ++ mkBuckets (items2.map mkBlk) := by
    rw [List.map_append]; exact mkBuckets_append _ _ hdisj
  have hp1 : msPairs ((mkBuckets (items1.map mkBlk)).map (·.1)) = [] :=
    msPairs_nil_sub (ids := (mkBuckets ((items1 ++ items2).map mkBlk)).map (·.1)) (by
      intro x hx; rw [hb, List.map_append]; exact List.mem_append.2 (Or.inl hx)) hp
  have hp2 : msPairs ((mkBuckets (items2.map mkBlk)).map (·.1)) = [] :=
    msPairs_nil_sub (ids := (mkBuckets ((items1 ++ items2).map mkBlk)).map (·.1)) (by
      intro x hx; rw [hb, List.map_append]; exact List.mem_append.2 (Or.inr hx)) hp
  rw [parseGroups_flat _ (no_subsets_of_msPairs_nil hp), parseGroups_flat _ (no_subsets_of_msPairs_nil hp1),
    parseGroups_flat _ (no_subsets_of_msPairs_nil hp2), hb, goFlat_append]
  cases goFlat (mkBuckets (items1.map mkBlk)) [] with
  | ok g1 => exact goFlat_acc _ g1
  | unableToForm _ => rfl
  | panic _ => rfl

/-! ### One bucket, several keys (C03) -/

def Blk.ks (b : Blk) : List BKey := b.raw.map (fun rb => (rb.bounded, rb.tr))
def Blk.rs (b : Blk) : List Row := b.raw.map (fun rb => Row.extend [] rb.binds)

/-- no key of the list is `keyEq` to a later one -/
def DistinctKeys (ks : List BKey) : Prop := ks.Pairwise (fun a b => keyEq a b = false)

/-- position by position the keys match, and no key matches a later key of the other list -/
inductive AlignedK : List BKey → List BKey → Prop
  | nil : AlignedK [] []
  | cons {k k' ks ks'} : keyEq k k' = true → (∀ k'' ∈ ks', keyEq k k'' = false) → AlignedK ks ks' →
      AlignedK (k :: ks) (k' :: ks')

theorem AlignedK.length_eq {ks ks' : List BKey} (h : AlignedK ks ks') : ks.length = ks'.length := by
  induction h with
  | nil => rfl
  | cons _ _ _ ih => simp [ih]

theorem findKey_none_of {α : Type} : ∀ {bs : List (BKey × α)} {k : BKey}, (∀ e ∈ bs, keyEq e.1 k = false) → findKey bs k = none
  | [], _, _ => rfl
  | (k', v) :: rest, k, h => by
      simp only [findKey, h (k', v) (by simp), Bool.false_eq_true, if_false]
      exact findKey_none_of (fun e he => h e (List.mem_cons_of_mem _ he))

theorem insertKey_fresh {α : Type} {bs : List (BKey × α)} {k : BKey} (v : α) (h : ∀ e ∈ bs, keyEq e.1 k = false) :
    insertKey bs k v = bs ++ [(k, v)] := by
  unfold insertKey
  rw [if_neg]
  simp only [List.any_eq_true, not_exists, not_and, Bool.not_eq_true]
  exact h

/-- with pairwise different keys the fold of `ABG.new` just lists the bounds, one row each -/
theorem new_bounds_distinct (b : Blk) (hd : DistinctKeys b.ks) :
    (ABG.new b).bounds = (b.ks.zip b.rs).map (fun e => (e.1, [e.2])) := by
  unfold ABG.new
  simp only
  suffices h : ∀ (raw : List RawBound) (pre : List RawBound),
      ((pre ++ raw).map (fun rb => ((rb.bounded, rb.tr) : BKey))).Pairwise (fun a b => keyEq a b = false) →
      raw.foldl (fun (acc : List (BKey × List Row)) rb =>
        match findKey acc (rb.bounded, rb.tr) with
        | some (r0 :: rest) => insertKey acc (rb.bounded, rb.tr) (Row.extend r0 rb.binds :: rest)
        | some [] => insertKey acc (rb.bounded, rb.tr) [Row.extend [] rb.binds]
        | none => acc ++ [((rb.bounded, rb.tr), [Row.extend [] rb.binds])])
        (pre.map (fun rb => ((rb.bounded, rb.tr), [Row.extend [] rb.binds]))) =
      (pre ++ raw).map (fun rb => ((rb.bounded, rb.tr), [Row.extend [] rb.binds])) by
    have := h b.raw [] (by simpa [DistinctKeys, Blk.ks] using hd)
    simp only [List.map_nil, List.nil_append] at this
    refine Eq.trans this ?_
    simp [Blk.ks, Blk.rs, List.zip_map', List.map_map]
  intro raw
  induction raw with
  | nil => intro pre _; simp
  | cons rb raw ih =>
    intro pre hp
    rw [List.foldl_cons]
    have hnone : findKey (pre.map (fun rb => (((rb.bounded, rb.tr) : BKey), [Row.extend [] rb.binds]))) (rb.bounded, rb.tr) = none := by
      apply findKey_none_of
      intro e he
      obtain ⟨x, hx, rfl⟩ := List.mem_map.1 he
      simp only [List.map_append, List.map_cons, List.pairwise_append] at hp
      exact hp.2.2 _ (List.mem_map.2 ⟨x, hx, rfl⟩) _ (by simp)
    rw [hnone]
    have := ih (pre ++ [rb]) (by simpa using hp)
    simpa using this

theorem findKey_cons_ne {α : Type} {k k' : BKey} {v : α} {rest : List (BKey × α)} (h : keyEq k k' = false) :
    findKey ((k, v) :: rest) k' = findKey rest k' := by
  simp [findKey, h]

theorem findKey_cons_eq {α : Type} {k k' : BKey} {v : α} {rest : List (BKey × α)} (h : keyEq k k' = true) :
    findKey ((k, v) :: rest) k' = some v := by
  simp [findKey, h]

/-- looking up the aligned keys of a block in the group, position by position -/
theorem aligned_lookup : ∀ {ks ks' : List BKey}, AlignedK ks ks' → ∀ (rowss : List (List Row)) (rs : List Row),
    rowss.length = ks.length → rs.length = ks'.length →
    (ks'.zip rs).map (fun e => match findKey (ks.zip rowss) e.1 with
      | some rows => some (e.1, rows ++ [e.2])
      | none => none) = (ks'.zip (List.zipWith (fun rows r => rows ++ [r]) rowss rs)).map some
  | _, _, .nil, rowss, rs, _, _ => by simp
  | _, _, .cons (k := k) (k' := k') (ks := ks) (ks' := ks') hk hlater hrest, rowss, rs, h1, h2 => by
      cases rowss with
      | nil => simp at h1
      | cons rows rowss =>
        cases rs with
        | nil => simp at h2
        | cons r rs =>
          simp only [List.zip_cons_cons, List.map_cons, List.zipWith_cons_cons, findKey_cons_eq hk]
          congr 1
          rw [← aligned_lookup hrest rowss rs (by simpa using h1) (by simpa using h2)]
          apply List.map_congr_left
          intro e he
          have : e.1 ∈ ks' := (List.of_mem_zip he).1
          rw [findKey_cons_ne (hlater e.1 this)]

theorem cartesianG_singletons {α : Type} : ∀ (l : List α), cartesianG (l.map (fun x => [x])) = [l]
  | [] => by simp [cartesianG]
  | x :: l => by simp [cartesianG, cartesianG_singletons l]

theorem foldl_insertKey_distinct {α : Type} : ∀ (l acc : List (BKey × α)),
    ((acc ++ l).map (·.1)).Pairwise (fun a b => keyEq a b = false) →
    l.foldl (fun acc e => insertKey acc e.1 e.2) acc = acc ++ l
  | [], acc, _ => by simp
  | e :: l, acc, h => by
      rw [List.foldl_cons, insertKey_fresh]
      · have := foldl_insertKey_distinct l (acc ++ [(e.1, e.2)]) (by simpa using h)
        simpa using this
      · intro x hx
        simp only [List.map_append, List.map_cons, List.pairwise_append] at h
        exact h.2.2 _ (List.mem_map.2 ⟨x, hx, rfl⟩) _ (by simp)

/-- the other block's bounds folded into a map key ↦ row (first step of `intersection`) -/
def otherFold (b : Blk) : List (BKey × Row) :=
  b.raw.foldl (fun acc rb =>
    let k : BKey := (rb.bounded, rb.tr)
    match findKey acc k with
    | some r => insertKey acc k (Row.extend r rb.binds)
    | none => acc ++ [(k, Row.extend [] rb.binds)]) []

/-- the rest of `intersection`, given the folded bounds of the other block -/
def interWith (g : ABG) (other' : List (BKey × Row)) (ou : List T) (σ : Subst) : List ABG :=
  let unsized := (g.unsized ++ ou).eraseDups
  let perKey : List (List (Option (BKey × List Row))) := other'.map (fun e =>
    (substituteBound σ e.1.1 e.1.2).map (fun sk =>
      match findKey g.bounds sk with
      | some rows => some (sk, rows ++ [e.2])
      | none => none))
  (cartesianG perKey).map (fun combo =>
    let bounds := (combo.filterMap id).foldl (fun (acc : List (BKey × List Row)) e => insertKey acc e.1 e.2) []
    let params := bounds.map (fun e => e.1.1)
    ⟨bounds, unsized.filter (fun p => params.contains p)⟩)

theorem intersection_eq (g : ABG) (other : Blk) (σ : Subst) :
    g.intersection other σ = interWith g (otherFold other) other.unsized σ := rfl

/-- with pairwise different keys the other block's bounds are listed as they are -/
theorem other_fold_distinct (b : Blk) (hd : DistinctKeys b.ks) : otherFold b = b.ks.zip b.rs := by
  unfold otherFold
  suffices h : ∀ (raw : List RawBound) (pre : List RawBound),
      ((pre ++ raw).map (fun rb => ((rb.bounded, rb.tr) : BKey))).Pairwise (fun a b => keyEq a b = false) →
      raw.foldl (fun (acc : List (BKey × Row)) rb =>
        let k : BKey := (rb.bounded, rb.tr)
        match findKey acc k with
        | some r => insertKey acc k (Row.extend r rb.binds)
        | none => acc ++ [(k, Row.extend [] rb.binds)])
        (pre.map (fun rb => ((rb.bounded, rb.tr), Row.extend [] rb.binds))) =
      (pre ++ raw).map (fun rb => ((rb.bounded, rb.tr), Row.extend [] rb.binds)) by
    have := h b.raw [] (by simpa [DistinctKeys, Blk.ks] using hd)
    simp only [List.map_nil, List.nil_append] at this
    refine Eq.trans this ?_
    simp [Blk.ks, Blk.rs, List.zip_map']
  intro raw
  induction raw with
  | nil => intro pre _; simp
  | cons rb raw ih =>
    intro pre hp
    rw [List.foldl_cons]
    have hnone : findKey (pre.map (fun rb => (((rb.bounded, rb.tr) : BKey), Row.extend [] rb.binds))) (rb.bounded, rb.tr) = none := by
      apply findKey_none_of
      intro e he
      obtain ⟨x, hx, rfl⟩ := List.mem_map.1 he
      simp only [List.map_append, List.map_cons, List.pairwise_append] at hp
      exact hp.2.2 _ (List.mem_map.2 ⟨x, hx, rfl⟩) _ (by simp)
    dsimp only
    rw [hnone]
    have := ih (pre ++ [rb]) (by simpa using hp)
    simpa using this

theorem intersection_multi {ks : List BKey} {rowss : List (List Row)} {u : List T} {curr : Blk} {σ : Subst}
    (hσ : allIdentity σ = true) (hd : DistinctKeys curr.ks) (hal : AlignedK ks curr.ks)
    (hlen : rowss.length = ks.length) :
    ∃ u', (ABG.mk (ks.zip rowss) u).intersection curr σ =
      [⟨curr.ks.zip (List.zipWith (fun rows r => rows ++ [r]) rowss curr.rs), u'⟩] := by
  refine ⟨((u ++ curr.unsized).eraseDups).filter (fun p =>
    ((curr.ks.zip (List.zipWith (fun rows r => rows ++ [r]) rowss curr.rs)).map (fun e => e.1.1)).contains p), ?_⟩
  rw [intersection_eq, other_fold_distinct curr hd]
  unfold interWith
  have hper : (curr.ks.zip curr.rs).map (fun e => (substituteBound σ e.1.1 e.1.2).map (fun sk =>
      match findKey (ks.zip rowss) sk with
      | some rows => some (sk, rows ++ [e.2])
      | none => none)) =
      ((curr.ks.zip (List.zipWith (fun rows r => rows ++ [r]) rowss curr.rs)).map some).map (fun x => [x]) := by
    rw [← aligned_lookup hal rowss curr.rs hlen (by simp [Blk.ks, Blk.rs]), List.map_map]
    apply List.map_congr_left
    intro e _
    simp [substituteBound_identity σ hσ]
  dsimp only
  rw [hper, cartesianG_singletons]
  simp only [List.map_cons, List.map_nil, List.filterMap_map, Function.comp_def, id, List.filterMap_some]
  rw [foldl_insertKey_distinct _ [] (by
    simp only [List.nil_append]
    have : (curr.ks.zip (List.zipWith (fun rows r => rows ++ [r]) rowss curr.rs)).map (·.1) = curr.ks := by
      rw [List.map_fst_zip]
      simp [Blk.ks, Blk.rs, hal.length_eq ▸ hlen]
    rw [this]; exact hd)]
  rfl


/-- the keys stored with the family after the blocks have joined: those of the last block -/
def lastKs : List BKey → List Blk → List BKey
  | ks, [] => ks
  | _, b :: rest => lastKs b.ks rest

/-- one more row per key for every block that joins -/
def addRows : List (List Row) → List Blk → List (List Row)
  | rowss, [] => rowss
  | rowss, b :: rest => addRows (List.zipWith (fun rows r => rows ++ [r]) rowss b.rs) rest

/-- consecutive blocks carry the same keys in the same order, and no block repeats a key -/
def AlignedChain : List BKey → List Blk → Prop
  | _, [] => True
  | ks, b :: rest => AlignedK ks b.ks ∧ DistinctKeys b.ks ∧ AlignedChain b.ks rest

theorem flatSearch_multi {c : T} {σ : Subst} {l : Bool} (hself : sup c c = .yes σ l) (hσ : allIdentity σ = true) :
    ∀ (impls : List Blk) (ks : List BKey) (rowss : List (List Row)) (u : List T) (ms : List Blk),
      AlignedChain ks impls → rowss.length = ks.length →
      ∃ u', flatSearch c impls [(c, ⟨ks.zip rowss, u⟩, ms)] =
        .ok [[(c, ⟨(lastKs ks impls).zip (addRows rowss impls), u'⟩, ms ++ impls)]]
  | [], ks, rowss, u, ms, _, _ => ⟨u, by simp [flatSearch, lastKs, addRows]⟩
  | curr :: other, ks, rowss, u, ms, ⟨hal, hd, hrest⟩, hlen => by
      obtain ⟨u1, hinter⟩ := intersection_multi (u := u) hσ hd hal hlen
      have hlen' : (List.zipWith (fun rows r => rows ++ [r]) rowss curr.rs).length = curr.ks.length := by
        simp [Blk.ks, Blk.rs, hal.length_eq ▸ hlen]
      obtain ⟨u2, hrec⟩ := flatSearch_multi hself hσ other curr.ks _ u1 (ms ++ [curr]) hrest hlen'
      refine ⟨u2, ?_⟩
      rw [flatSearch]
      simp [hself, hinter, setGroup, hrec, lastKs, addRows]

theorem flatSearch_multi_root {c : T} {σ : Subst} {l : Bool} (hself : sup c c = .yes σ l) (hσ : allIdentity σ = true)
    (b1 : Blk) (other : List Blk) (hd : DistinctKeys b1.ks) (hch : AlignedChain b1.ks other) :
    ∃ u', flatSearch c (b1 :: other) [] =
      .ok [[(c, ⟨(lastKs b1.ks other).zip (addRows (b1.rs.map (fun r => [r])) other), u'⟩, b1 :: other)]] := by
  have hnew : ABG.new b1 = ⟨b1.ks.zip (b1.rs.map (fun r => [r])), b1.unsized⟩ := by
    have h1 := new_bounds_distinct b1 hd
    have h2 : (b1.ks.zip b1.rs).map (fun e => (e.1, [e.2])) = b1.ks.zip (b1.rs.map (fun r => [r])) := by
      rw [List.zip_map_right]
      apply List.map_congr_left
      intro e _; rfl
    rw [h2] at h1
    have h3 : (ABG.new b1).unsized = b1.unsized := rfl
    cases hg : ABG.new b1 with
    | mk bd un => rw [hg] at h1 h3; simp only at h1 h3; rw [h1, h3]
  obtain ⟨u2, hrec⟩ := flatSearch_multi hself hσ other b1.ks (b1.rs.map (fun r => [r])) b1.unsized [b1] hch
    (by simp [Blk.ks, Blk.rs])
  refine ⟨u2, ?_⟩
  rw [flatSearch]
  simp [hnew, hrec]

theorem filterCandidate_of_checks (gid : T) (FB : List (BKey × List Row)) (u : List T) (ms : List Blk)
    (h1 : ∀ kr ∈ FB, kr.2.any (fun r => !r.isEmpty) = true) (h2 : FB ≠ [])
    (h3 : (ABG.mk FB []).isOverlapping = false) :
    filterCandidate [(gid, ABG.mk FB u, ms)] = some [(gid, ABG.mk FB u, ms)] := by
  have hprune : (ABG.mk FB u).prune = ABG.mk FB u := by
    simp only [ABG.prune]
    congr 1
    exact List.filter_eq_self.2 h1
  have hov : (ABG.mk FB u).isOverlapping = false := h3
  unfold filterCandidate
  simp only [List.map_cons, List.map_nil, hprune, List.any_cons, List.any_nil, hov, Bool.or_false]
  have : FB.isEmpty = false := by cases FB with
    | nil => exact absurd rfl h2
    | cons _ _ => rfl
  simp [this]

/-- one bucket, several keys: blocks with the same header that all carry the same keys in the same order (no key
    repeated inside a block), whose rows pass the candidate filter, are accepted as one family -/
theorem parseGroups_multi_key (items : List T) (gid : T) (b1 : Blk) (other : List Blk)
    (hB : items.map mkBlk = b1 :: other)
    (hid : ∀ b ∈ b1 :: other, groupIdOf b.item = gid) (hnd : ((b1 :: other).map (·.item)).Nodup)
    (hd : DistinctKeys b1.ks) (hch : AlignedChain b1.ks other) (hself : selfIdentity gid = true)
    (h1 : ∀ kr ∈ (lastKs b1.ks other).zip (addRows (b1.rs.map (fun r => [r])) other), kr.2.any (fun r => !r.isEmpty) = true)
    (h2 : (lastKs b1.ks other).zip (addRows (b1.rs.map (fun r => [r])) other) ≠ [])
    (h3 : (ABG.mk ((lastKs b1.ks other).zip (addRows (b1.rs.map (fun r => [r])) other)) []).isOverlapping = false) :
    ∃ u, parseGroups items =
      .ok [(gid, ⟨(lastKs b1.ks other).zip (addRows (b1.rs.map (fun r => [r])) other), u⟩, b1 :: other)] := by
  obtain ⟨σ, l, hs, hσ⟩ : ∃ σ l, sup gid gid = .yes σ l ∧ allIdentity σ = true := by
    unfold selfIdentity at hself
    split at hself
    · next σ l h => exact ⟨σ, l, h, hself⟩
    · cases hself
  have hbk : mkBuckets (items.map mkBlk) = [(gid, b1 :: other)] := by rw [hB]; exact mkBuckets_single b1 other hid hnd
  have hp : msPairs ((mkBuckets (items.map mkBlk)).map (·.1)) = [] := by
    rw [hbk]
    apply msPairs_nil_iff.2
    intro a ha b hb hab
    simp only [List.map_cons, List.map_nil, List.mem_singleton] at ha hb
    rw [ha, hb] at hab
    simp at hab
  obtain ⟨u, hsearch⟩ := flatSearch_multi_root hs hσ b1 other hd hch
  refine ⟨u, ?_⟩
  rw [parseGroups_flat items (no_subsets_of_msPairs_nil hp), hbk, goFlat, hsearch]
  simp only [List.filterMap_cons, List.filterMap_nil, filterCandidate_of_checks gid _ u (b1 :: other) h1 h2 h3,
    chooseCandidate_single]
  rw [goFlat]
  simp

/-! executable forms of the key hypotheses -/

def distinctKeysB : List BKey → Bool
  | [] => true
  | k :: ks => ks.all (fun k' => !keyEq k k') && distinctKeysB ks

theorem distinctKeys_of_B : ∀ {ks : List BKey}, distinctKeysB ks = true → DistinctKeys ks
  | [], _ => List.Pairwise.nil
  | k :: ks, h => by
      simp only [distinctKeysB, Bool.and_eq_true, List.all_eq_true, Bool.not_eq_true'] at h
      exact List.Pairwise.cons h.1 (distinctKeys_of_B h.2)

def alignedKB : List BKey → List BKey → Bool
  | [], [] => true
  | k :: ks, k' :: ks' => keyEq k k' && ks'.all (fun k'' => !keyEq k k'') && alignedKB ks ks'
  | _, _ => false

theorem alignedK_of_B : ∀ {ks ks' : List BKey}, alignedKB ks ks' = true → AlignedK ks ks'
  | [], [], _ => .nil
  | k :: ks, k' :: ks', h => by
      simp only [alignedKB, Bool.and_eq_true, List.all_eq_true, Bool.not_eq_true'] at h
      exact .cons h.1.1 h.1.2 (alignedK_of_B h.2)
  | [], _ :: _, h => by simp [alignedKB] at h
  | _ :: _, [], h => by simp [alignedKB] at h

def alignedChainB : List BKey → List Blk → Bool
  | _, [] => true
  | ks, b :: rest => alignedKB ks b.ks && distinctKeysB b.ks && alignedChainB b.ks rest

theorem alignedChain_of_B : ∀ {ks : List BKey} {bs : List Blk}, alignedChainB ks bs = true → AlignedChain ks bs
  | _, [], _ => trivial
  | ks, b :: rest, h => by
      simp only [alignedChainB, Bool.and_eq_true] at h
      exact ⟨alignedK_of_B h.1.1, distinctKeys_of_B h.1.2, alignedChain_of_B h.2⟩


/-! ### Counting the decrements: what the counters-only trace does to every header -/

theorem Supersets.get_dec (s : Supersets) (id x : T) :
    (s.dec id).get x = if x == id then s.get x - 1 else s.get x := by
  induction s with
  | nil => simp [Supersets.dec, Supersets.get]
  | cons e s ih =>
    simp only [Supersets.dec, Supersets.get, List.map_cons, List.find?_cons] at ih ⊢
    by_cases hex : (e.1 == x) = true
    · have hx : e.1 = x := eq_of_beq hex
      by_cases hid : (e.1 == id) = true
      · have : (x == id) = true := by rw [← hx]; exact hid
        simp [hex, hid, this]
      · have : (x == id) = false := by rw [← hx]; simpa using hid
        simp [hex, hid, this]
    · have hex' : (e.1 == x) = false := by simpa using hex
      by_cases hid : (e.1 == id) = true
      · simp only [hid, if_true, hex']
        exact ih
      · simp only [hid, Bool.false_eq_true, if_false, hex']
        exact ih

/-- the headers a header generalises, as recorded by `make_sets` -/
def subsIds (env : Env) (g : T) : List T := (env.subsets.get g).map (·.1)

/-- number of visits at which a counter starting at `a` is found to be 0 during `n` decrements -/
def Z (a n : Nat) : Nat := if a = 0 then n else n + 1 - a

/-- the effect of a traced unlock on every header `x`: its counter went down by the number `D x` of decrements, and
    `x` was unlocked once for every decrement that found the counter at 0 -/
def Eff (env : Env) (subs : List (T × Subst)) (sup : Supersets) (ids : List T) (sup' : Supersets) : Prop :=
  ∀ x, sup'.get x = sup.get x - (subs.map (·.1) ++ ids.flatMap (subsIds env)).count x ∧
    ids.count x = Z (sup.get x) ((subs.map (·.1) ++ ids.flatMap (subsIds env)).count x)

theorem trace_eff (env : Env) : ∀ fuel,
    (∀ currId n sup ids sup', traceRec env fuel currId n sup = some (ids, sup') →
      Eff env (env.subsets.get currId) sup ids sup') ∧
    (∀ currId subs sup ids sup', traceUnlock env fuel currId subs sup = some (ids, sup') →
      Eff env subs sup ids sup')
  | 0 => by
      constructor
      · intro currId n sup ids sup' h; rw [traceRec] at h; cases h
      · intro currId subs sup ids sup' h; rw [traceUnlock] at h; cases h
  | fuel + 1 => by
      obtain ⟨ihR, ihU⟩ := trace_eff env fuel
      constructor
      · intro currId n sup ids sup' h
        cases n with
        | zero => rw [traceRec] at h; exact ihU _ _ _ _ _ h
        | succ n => rw [traceRec] at h; exact ihR _ _ _ _ _ h
      · intro currId subs sup ids sup' h
        cases subs with
        | nil =>
          rw [traceUnlock] at h; cases h
          intro x; simp only [Z, List.map_nil, List.flatMap_nil, List.append_nil, List.count_nil, Nat.sub_zero, true_and]
          split <;> omega
        | cons s rest =>
          obtain ⟨subId, σs⟩ := s
          rw [traceUnlock] at h
          split at h
          · next hz =>
            split at h
            · cases h
            · next ids1 sp1 h1 =>
              split at h
              · cases h
              · next ids2 sp2 h2 =>
                cases h
                have e1 := ihR _ _ _ _ _ h1
                have e2 := ihU _ _ _ _ _ h2
                intro x
                obtain ⟨a1, b1⟩ := e1 x
                obtain ⟨a2, b2⟩ := e2 x
                have hz' : (sup.dec subId).get subId = 0 := by simpa using hz
                rw [Supersets.get_dec] at a1 b1
                rw [Supersets.get_dec] at hz'
                simp only [beq_self_eq_true, if_true] at hz'
                simp only [List.map_cons, List.cons_append, List.flatMap_cons, List.flatMap_append, List.count_cons,
                  List.count_append, subsIds] at a1 b1 a2 b2 ⊢
                rw [a1] at a2 b2
                by_cases hx : (x == subId) = true
                · have hxe : x = subId := eq_of_beq hx
                  subst hxe
                  simp only [beq_self_eq_true, if_true] at a1 b1 a2 b2 ⊢
                  simp only [Z] at b1 b2 ⊢
                  split at b1 <;> split at b2 <;> split <;> omega
                · have hx' : (subId == x) = false := by
                    cases hc : (subId == x) with
                    | false => rfl
                    | true => exact absurd (by rw [eq_of_beq hc]; simp) hx
                  simp only [hx, Bool.false_eq_true, if_false] at a1 b1 a2 b2
                  simp only [hx', Bool.false_eq_true, if_false]
                  simp only [Z] at b1 b2 ⊢
                  split at b1 <;> split at b2 <;> split <;> omega
          · next hz =>
            have e2 := ihU _ _ _ _ _ h
            intro x
            obtain ⟨a2, b2⟩ := e2 x
            have hz' : (sup.dec subId).get subId ≠ 0 := by simpa using hz
            rw [Supersets.get_dec] at a2 b2 hz'
            simp only [beq_self_eq_true, if_true] at hz'
            simp only [List.map_cons, List.cons_append, List.count_cons, List.count_append] at a2 b2 ⊢
            by_cases hx : (x == subId) = true
            · have hxe : x = subId := eq_of_beq hx
              subst hxe
              simp only [beq_self_eq_true, if_true] at a2 b2 ⊢
              simp only [Z] at b2 ⊢
              split at b2 <;> split <;> omega
            · have hx' : (subId == x) = false := by
                cases hc : (subId == x) with
                | false => rfl
                | true => exact absurd (by rw [eq_of_beq hc]; simp) hx
              simp only [hx, Bool.false_eq_true, if_false] at a2 b2
              simp only [hx', Bool.false_eq_true, if_false]
              simp only [Z] at b2 ⊢
              split at b2 <;> split <;> omega


theorem Z_add (a n1 n2 : Nat) : Z a (n1 + n2) = Z a n1 + Z (a - n1) n2 := by
  simp only [Z]
  split <;> split <;> omega

/-- the driver loop: every header `x` is listed once per root occurrence, plus once for every decrement that found
    its counter at 0 -/
theorem traceGo_eff (env : Env) (fuel : Nat) : ∀ (roots : List T) (sup : Supersets) (tr : List T),
    traceGo env fuel roots sup = some tr →
    ∀ x, tr.count x = roots.count x + Z (sup.get x) ((tr.flatMap (subsIds env)).count x)
  | [], sup, tr, h, x => by
      simp only [traceGo, Option.some.injEq] at h
      subst h
      simp [Z]
      omega
  | r :: rest, sup, tr, h, x => by
      rw [traceGo] at h
      split at h
      · cases h
      · next ids sup1 h1 =>
        cases htl : traceGo env fuel rest sup1 with
        | none => rw [htl] at h; cases h
        | some tl =>
          rw [htl] at h
          simp only [Option.map_some, Option.some.injEq] at h
          subst h
          obtain ⟨a1, b1⟩ := (trace_eff env _).1 _ _ _ _ _ h1 x
          have ih := traceGo_eff env fuel rest sup1 tl htl x
          rw [a1] at ih
          simp only [List.cons_append, List.flatMap_cons, List.flatMap_append, List.count_cons, List.count_append,
            subsIds] at a1 b1 ih ⊢
          generalize List.count x (List.map (fun x => x.fst) (env.subsets.get r)) = k1 at *
          generalize List.count x (List.flatMap (subsIds env) ids) = k2 at *
          generalize List.count x (List.flatMap (subsIds env) tl) = k3 at *
          have hz := Z_add (sup.get x) (k1 + k2) k3
          rw [ih, b1]
          have : k1 + (k2 + k3) = k1 + k2 + k3 := by omega
          rw [this, hz]
          omega


/-! ### Acyclic header relation ⇒ every header is processed exactly once (Kahn's argument) -/

theorem msPairs_snd_mem {ids : List T} {p : T × T × Subst} (h : p ∈ msPairs ids) : p.2.1 ∈ ids := by
  simp only [msPairs, List.mem_flatMap, List.mem_filterMap] at h
  obtain ⟨g1, _, g2, hg2, hp⟩ := h
  split at hp
  · cases hp
  · split at hp
    · split at hp
      · cases hp
      · cases hp; exact mem_of_mem_zipIdx hg2
    · cases hp

theorem subsets_get_makeSets (ids : List T) (g : T) :
    ((makeSets ids).2.get g).map (·.1) = ((msPairs ids).filter (fun p => p.1 == g)).map (fun p => p.2.1) := by
  rw [makeSets_eq]
  unfold Subsets.get
  simp only
  cases hf : List.find? (fun e => e.1 == g)
      (ids.map (fun id => (id, ((msPairs ids).filter (fun p => p.1 == id)).map (fun p => (p.2.1, p.2.2))))) with
  | some e =>
    simp only
    have he := List.mem_of_find?_eq_some hf
    have hid : (e.1 == g) = true := by simpa using List.find?_some hf
    obtain ⟨id, _, rfl⟩ := List.mem_map.1 he
    simp only at hid ⊢
    rw [eq_of_beq hid, List.map_map]
    rfl
  | none =>
    simp only [List.map_nil]
    have hnot : g ∉ ids := by
      intro hg
      have := List.find?_eq_none.1 hf (g, _) (List.mem_map.2 ⟨g, hg, rfl⟩)
      simp at this
    have : (msPairs ids).filter (fun p => p.1 == g) = [] := by
      apply List.filter_eq_nil_iff.2
      intro p hp hc
      exact hnot (eq_of_beq hc ▸ msPairs_fst_mem hp)
    rw [this]; rfl

theorem supersets_get_makeSets (ids : List T) (x : T) :
    (makeSets ids).1.get x = if x ∈ ids then ((msPairs ids).filter (fun p => p.2.1 == x)).length else 0 := by
  rw [makeSets_eq]
  unfold Supersets.get
  simp only
  cases hf : List.find? (fun e => e.1 == x)
      (ids.map (fun id => (id, ((msPairs ids).filter (fun p => p.2.1 == id)).length))) with
  | some e =>
    simp only
    have he := List.mem_of_find?_eq_some hf
    have hid : (e.1 == x) = true := by simpa using List.find?_some hf
    obtain ⟨id, hidm, rfl⟩ := List.mem_map.1 he
    simp only at hid ⊢
    have := eq_of_beq hid
    subst this
    simp [hidm]
  | none =>
    simp only
    have hnot : x ∉ ids := by
      intro hg
      have := List.find?_eq_none.1 hf (x, _) (List.mem_map.2 ⟨x, hg, rfl⟩)
      simp at this
    simp [hnot]

theorem sum_map_add {β : Type} (f g : β → Nat) : ∀ (L : List β),
    (L.map (fun b => f b + g b)).sum = (L.map f).sum + (L.map g).sum
  | [] => by simp
  | b :: L => by simp only [List.map_cons, List.sum_cons, sum_map_add f g L]; omega

theorem sum_map_ite {β : Type} (q : β → Bool) : ∀ (L : List β),
    (L.map (fun b => if q b then 1 else 0)).sum = L.countP q
  | [] => by simp
  | b :: L => by
      simp only [List.map_cons, List.sum_cons, sum_map_ite q L, List.countP_cons]
      omega

/-- exchanging the order of a double count -/
theorem double_count {α β : Type} (r : α → β → Bool) (B : List β) : ∀ (A : List α),
    (A.map (fun a => B.countP (r a))).sum = (B.map (fun b => A.countP (fun a => r a b))).sum
  | [] => by
      simp only [List.map_nil, List.sum_nil, List.countP_nil]
      induction B with
      | nil => rfl
      | cons b B ih => simp only [List.map_cons, List.sum_cons]; omega
  | a :: A => by
      rw [List.map_cons, List.sum_cons, double_count r B A]
      have : (B.map (fun b => (a :: A).countP (fun a => r a b))) =
          B.map (fun b => A.countP (fun a => r a b) + (if r a b then 1 else 0)) := by
        apply List.map_congr_left
        intro b _
        rw [List.countP_cons]
      rw [this, sum_map_add, sum_map_ite]
      omega

/-- double counting: decrements of `x` caused by the processed headers = processed occurrences of the recorded
    generalisers of `x` -/
theorem count_flatMap_pairs (E : List (T × T × Subst)) (x : T) (tr : List T) :
    (tr.flatMap (fun g => (E.filter (fun p => p.1 == g)).map (fun p => p.2.1))).count x =
      ((E.filter (fun p => p.2.1 == x)).map (fun p => tr.count p.1)).sum := by
  rw [List.count_flatMap]
  have h1 : ∀ g, (List.count x ∘ fun g => (E.filter (fun p => p.1 == g)).map (fun p => p.2.1)) g =
      (E.filter (fun p => p.2.1 == x)).countP (fun p => p.1 == g) := by
    intro g
    simp only [Function.comp]
    induction E with
    | nil => rfl
    | cons p E ih =>
      cases a1 : (p.1 == g) <;> cases a2 : (p.2.1 == x) <;>
        simp only [List.filter_cons, a1, a2, Bool.false_eq_true, if_false, if_true, List.map_cons, List.count_cons,
          List.countP_cons, ih] <;> omega
  rw [List.map_congr_left (fun g _ => h1 g)]
  rw [double_count (fun g (p : T × T × Subst) => p.1 == g)]
  apply congrArg
  apply List.map_congr_left
  intro p _
  rw [List.count_eq_countP]
  apply List.countP_congr
  intro g _
  constructor
  · intro h; rw [eq_of_beq h]; simp
  · intro h; have := eq_of_beq h; rw [this]; simp

def predsOf (E : List (T × T × Subst)) (x : T) : List T := (E.filter (fun p => p.2.1 == x)).map (·.1)

/-- one layer of Kahn's algorithm: drop the headers none of whose recorded generalisers is still there -/
def kahnStep (E : List (T × T × Subst)) (R : List T) : List T :=
  R.filter (fun x => (predsOf E x).any (fun g => R.contains g))

def kahnIter (E : List (T × T × Subst)) : Nat → List T → List T
  | 0, R => R
  | n + 1, R => kahnIter E n (kahnStep E R)

/-- executable acyclicity of the recorded generalisation relation: peeling off minimal headers `|ids|` times
    leaves nothing -/
def acyclicIds (ids : List T) : Bool := (kahnIter (msPairs ids) ids.length ids).isEmpty


def indeg (E : List (T × T × Subst)) (x : T) : Nat := (E.filter (fun p => p.2.1 == x)).length

theorem roots_count (ids : List T) (hn : ids.Nodup) (x : T) :
    ((((makeSets ids).1).filter (fun e => e.2 == 0)).map (·.1)).count x =
      if x ∈ ids ∧ indeg (msPairs ids) x = 0 then 1 else 0 := by
  rw [makeSets_eq]
  simp only
  have h1 : ((ids.map (fun id => (id, ((msPairs ids).filter (fun p => p.2.1 == id)).length))).filter
      (fun e => e.2 == 0)).map (·.1) = ids.filter (fun id => indeg (msPairs ids) id == 0) := by
    rw [List.filter_map, List.map_map]
    have : ((fun x => x.1) ∘ fun id => (id, ((msPairs ids).filter (fun p => p.2.1 == id)).length)) = id := rfl
    rw [this, List.map_id]
    rfl
  rw [h1]
  have hn' : (ids.filter (fun id => indeg (msPairs ids) id == 0)).Nodup := hn.sublist List.filter_sublist
  rw [hn'.count]
  simp only [List.mem_filter, beq_iff_eq]

/-- the trace formula in terms of the recorded pairs -/
theorem trace_count_formula (items : List T) (tr : List T) (h : parseTrace items = some tr) (x : T) :
    let ids := (mkBuckets (items.map mkBlk)).map (·.1)
    let E := msPairs ids
    tr.count x = (if x ∈ ids ∧ indeg E x = 0 then 1 else 0) +
      Z (if x ∈ ids then indeg E x else 0) (((E.filter (fun p => p.2.1 == x)).map (fun p => tr.count p.1)).sum) := by
  intro ids E
  have hn : ids.Nodup := mkBuckets_ids_nodup _
  have := traceGo_eff _ _ _ _ _ h x
  rw [show parseRoots items = (((makeSets ids).1).filter (fun e => e.2 == 0)).map (·.1) from rfl,
    roots_count ids hn x, supersets_get_makeSets ids x] at this
  have hsub : subsIds (parseEnv items) = fun g => (E.filter (fun p => p.1 == g)).map (fun p => p.2.1) := by
    funext g
    exact subsets_get_makeSets ids g
  rw [hsub, count_flatMap_pairs] at this
  exact this

theorem sum_map_const_one {β : Type} (f : β → Nat) : ∀ (L : List β), (∀ b ∈ L, f b = 1) → (L.map f).sum = L.length
  | [], _ => rfl
  | b :: L, h => by
      simp only [List.map_cons, List.sum_cons, List.length_cons, h b (by simp),
        sum_map_const_one f L (fun c hc => h c (List.mem_cons_of_mem _ hc))]
      omega

theorem kahn_step_count (items : List T) (tr : List T) (h : parseTrace items = some tr) (R : List T)
    (H : ∀ x ∈ (mkBuckets (items.map mkBlk)).map (·.1), x ∉ R → tr.count x = 1) :
    ∀ x ∈ (mkBuckets (items.map mkBlk)).map (·.1),
      x ∉ kahnStep (msPairs ((mkBuckets (items.map mkBlk)).map (·.1))) R → tr.count x = 1 := by
  intro x hx hnot
  by_cases hR : x ∈ R
  · have hpreds : ∀ p ∈ (msPairs ((mkBuckets (items.map mkBlk)).map (·.1))).filter (fun p => p.2.1 == x),
        tr.count p.1 = 1 := by
      intro p hp
      have hpE := (List.mem_filter.1 hp).1
      apply H p.1 (msPairs_fst_mem hpE)
      intro hpR
      apply hnot
      simp only [kahnStep, List.mem_filter, List.any_eq_true, List.contains_iff_mem]
      exact ⟨hR, p.1, List.mem_map.2 ⟨p, hp, rfl⟩, hpR⟩
    have := trace_count_formula items tr h x
    simp only at this
    rw [sum_map_const_one _ _ hpreds] at this
    rw [this]
    simp only [hx, true_and, if_true, indeg, Z]
    split <;> omega
  · exact H x hx hR

theorem kahn_iter_count (items : List T) (tr : List T) (h : parseTrace items = some tr) : ∀ (n : Nat) (R : List T),
    (∀ x ∈ (mkBuckets (items.map mkBlk)).map (·.1), x ∉ R → tr.count x = 1) →
    ∀ x ∈ (mkBuckets (items.map mkBlk)).map (·.1),
      x ∉ kahnIter (msPairs ((mkBuckets (items.map mkBlk)).map (·.1))) n R → tr.count x = 1
  | 0, R, H => H
  | n + 1, R, H => by
      rw [kahnIter]
      exact kahn_iter_count items tr h n _ (kahn_step_count items tr h R H)

/-- executable acyclicity of the recorded generalisation relation between the bucket headers -/
def acyclicB (items : List T) : Bool := acyclicIds ((mkBuckets (items.map mkBlk)).map (·.1))

/-- with an acyclic header relation the counters unlock every header exactly once -/
theorem traceCovers_of_acyclic (items : List T) (tr : List T) (h : parseTrace items = some tr)
    (ha : acyclicB items = true) : traceCovers items = true := by
  have hn : ((mkBuckets (items.map mkBlk)).map (·.1)).Nodup := mkBuckets_ids_nodup _
  have hempty : kahnIter (msPairs ((mkBuckets (items.map mkBlk)).map (·.1)))
      ((mkBuckets (items.map mkBlk)).map (·.1)).length ((mkBuckets (items.map mkBlk)).map (·.1)) = [] := by
    simpa [acyclicB, acyclicIds] using ha
  have hone : ∀ x ∈ (mkBuckets (items.map mkBlk)).map (·.1), tr.count x = 1 := by
    intro x hx
    apply kahn_iter_count items tr h _ _ (fun y _ hy => absurd ‹_› hy) x hx
    rw [hempty]; simp
  unfold traceCovers
  rw [h]
  apply List.isPerm_iff.2
  apply List.perm_iff_count.2
  intro x
  rw [hn.count]
  by_cases hx : x ∈ (mkBuckets (items.map mkBlk)).map (·.1)
  · rw [if_pos hx]; exact hone x hx
  · rw [if_neg hx]
    have := trace_count_formula items tr h x
    simp only [hx, false_and, if_false] at this
    have hnil : (msPairs ((mkBuckets (items.map mkBlk)).map (·.1))).filter (fun p => p.2.1 == x) = [] := by
      apply List.filter_eq_nil_iff.2
      intro p hp hc
      exact hx (eq_of_beq hc ▸ msPairs_snd_mem hp)
    rw [hnil] at this
    simpa [Z] using this

/-- partition for nested headers under executable acyclicity -/
theorem parseGroups_partition_acyclic {rawItems : List T} {groups : Groups} (h : parseGroups rawItems = .ok groups)
    (ha : acyclicB rawItems = true) :
    (groups.flatMap (fun e => e.2.2)).Perm ((mkBuckets (rawItems.map mkBlk)).flatMap (fun bk => bk.2)) := by
  obtain ⟨tr, ht, _⟩ := parseGroups_trace h
  exact parseGroups_partition_of_trace h (traceCovers_of_acyclic rawItems tr ht ha)

end DI
