/-
  Helper lemmas for the C12 theorems (`Props/C12.lean`) over the model of the dispatch-key identity
  (`Key.lean`): well-formed trait paths, the key in closed form, the hasher feed as a function of the
  key, and `stripBindings`. Core-only.
-/
import DisjointImpls.Key
namespace DI

/-! ### Accessors and well-formed trait paths -/

def lastSeg (p : T) : Option T := (pathSegments p).getLast?
def initSegs (p : T) : List T := (pathSegments p).dropLast
def lastIdent (p : T) : Option String := (lastSeg p).bind segIdent
/-- the generic arguments of the last segment (`[]` when there are none) -/
def lastArgs (p : T) : List T :=
  match lastSeg p with
  | some l => (match segArgs l with | .angle args => args | _ => [])
  | none => []

/-- the parenthesized argument node of the last segment (`Fn(A) -> B`), `none` for `Tr` and `Tr<..>` -/
def lastParen (p : T) : Option T :=
  match lastSeg p with
  | some l => (match segArgs l with | .paren x => some x | _ => none)
  | none => none

/-- no or angle-bracketed arguments (used for the LEADING segments and wherever a parenthesized list is not handled) -/
def goodArgs : SegArgs → Bool
  | .none => true
  | .angle _ => true
  | _ => false

/-- one of the three forms of `syn::PathArguments`: none, angle-bracketed, parenthesized -/
def cmpArgs : SegArgs → Bool
  | .bad => false
  | _ => true

theorem cmpArgs_of_goodArgs {a : SegArgs} (h : goodArgs a = true) : cmpArgs a = true := by
  cases a <;> simp_all [goodArgs, cmpArgs]

/-- a trait path `TraitBound::eq` / `hash` can handle: at least one segment, and the last segment has one of the three
    argument forms None / AngleBracketed / Parenthesized (since /repo 94aac73 `Fn(A) -> B` is compared by its printed
    arguments instead of hitting `unreachable!()`, lib.rs:97-153). Exactly the paths that have a dispatch key
    (`keyOf_isSome`). -/
def cmpPath (p : T) : Bool :=
  match lastSeg p with
  | some l => cmpArgs (segArgs l)
  | none => false

/-- a trait path as `syn` produces it: comparable (`cmpPath`) and every segment has an identifier -/
def wfPath (p : T) : Bool :=
  cmpPath p && (pathSegments p).all (fun s => (segIdent s).isSome)

theorem cmpPath_of_wfPath {p : T} (h : wfPath p = true) : cmpPath p = true := by
  unfold wfPath at h
  simp only [Bool.and_eq_true] at h
  exact h.1

/-- no generic argument of the last segment is itself a `PathArguments::Parenthesized` node (`syn` never produces
    such an argument: the arguments of an angle-bracketed list are `GenericArgument::…` nodes). Needed only for
    "equal hasher feeds ⇒ equal keys" (`C12_hash_iff`). -/
def noParenArg (p : T) : Bool :=
  (lastArgs p).all (fun a => match a with
    | .node "PathArguments::Parenthesized" _ _ => false
    | _ => true)

theorem reverse_eq_cons {α : Type} {l : List α} {x : α} {i : List α} (h : l.reverse = x :: i) :
    l = i.reverse ++ [x] := by
  have := congrArg List.reverse h
  simpa using this

theorem rev_of_lastSeg {p : T} {l : T} (h : lastSeg p = some l) :
    (pathSegments p).reverse = l :: (initSegs p).reverse := by
  unfold lastSeg at h
  unfold initSegs
  generalize pathSegments p = segs at h
  rcases List.eq_nil_or_concat segs with rfl | ⟨i, x, rfl⟩
  · simp at h
  · simp at h; subst h; simp

theorem lastSeg_of_rev {p : T} {l : T} {i : List T} (h : (pathSegments p).reverse = l :: i) :
    lastSeg p = some l ∧ initSegs p = i.reverse := by
  unfold lastSeg initSegs
  rw [reverse_eq_cons h]
  simp

theorem lastSeg_none {p : T} (h : lastSeg p = none) : (pathSegments p).reverse = [] := by
  unfold lastSeg at h
  simpa using h

theorem cmpPath_last {p : T} (h : cmpPath p = true) :
    ∃ l, lastSeg p = some l ∧ cmpArgs (segArgs l) = true := by
  unfold cmpPath at h
  cases hl : lastSeg p with
  | none => rw [hl] at h; simp at h
  | some l => rw [hl] at h; exact ⟨l, rfl, h⟩

theorem wfPath_last {p : T} (h : wfPath p = true) :
    ∃ l, lastSeg p = some l ∧ cmpArgs (segArgs l) = true := cmpPath_last (cmpPath_of_wfPath h)

/-- the key in closed form -/
def keyOf' (p : T) : TraitKey := ⟨initSegs p, lastIdent p, nonAssoc (lastArgs p), lastParen p⟩

theorem keyOf_eq_of_cmp {p : T} (h : cmpPath p = true) : keyOf p = some (keyOf' p) := by
  obtain ⟨l, hl, hg⟩ := cmpPath_last h
  unfold keyOf keyOf' lastIdent lastArgs lastParen
  rw [rev_of_lastSeg hl, hl]
  cases hs : segArgs l <;> simp_all [cmpArgs, nonAssoc]


theorem keyOf_eq {p : T} (h : wfPath p = true) : keyOf p = some (keyOf' p) := keyOf_eq_of_cmp (cmpPath_of_wfPath h)

/-- the paths with a dispatch key are exactly the comparable ones -/
theorem keyOf_isSome (p : T) : (keyOf p).isSome = cmpPath p := by
  cases hc : cmpPath p with
  | true => rw [keyOf_eq_of_cmp hc]; rfl
  | false =>
    unfold cmpPath at hc
    unfold keyOf
    cases hl : lastSeg p with
    | none => rw [lastSeg_none hl]; rfl
    | some l =>
      rw [hl] at hc
      rw [rev_of_lastSeg hl]
      simp only at hc ⊢
      cases hs : segArgs l <;> rw [hs] at hc <;> simp [cmpArgs] at hc ⊢

theorem keyOf_some {p : T} {k : TraitKey} (h : keyOf p = some k) : cmpPath p = true ∧ k = keyOf' p := by
  have hc : cmpPath p = true := by rw [← keyOf_isSome, h]; rfl
  rw [keyOf_eq_of_cmp hc] at h
  exact ⟨hc, (Option.some.inj h).symm⟩

theorem nonAssoc_eq_nil (args : List T) :
    (!(args.any (fun a => !isAssocType a))) = true ↔ nonAssoc args = [] := by
  simp [nonAssoc, List.filter_eq_nil_iff]

theorem tbEq_eq_of_cmp {p q : T} (hp : cmpPath p = true) (hq : cmpPath q = true) :
    tbEq p q = if keyOf' p = keyOf' q then .t else .f := by
  obtain ⟨lp, hlp, hgp⟩ := cmpPath_last hp
  obtain ⟨lq, hlq, hgq⟩ := cmpPath_last hq
  unfold tbEq keyOf' lastIdent lastArgs lastParen
  rw [rev_of_lastSeg hlp, rev_of_lastSeg hlq, hlp, hlq]
  simp only [List.reverse_reverse, Option.bind_some, TraitKey.mk.injEq]
  by_cases hi : initSegs p = initSegs q
  · by_cases hid : segIdent lp = segIdent lq
    · simp only [hi, hid, bne_self_eq_false, Bool.false_eq_true, if_false, true_and]
      cases hsp : segArgs lp <;> cases hsq : segArgs lq <;> simp_all [cmpArgs, B3.ofBool, nonAssoc]
      rename_i a1 a2
      by_cases he : List.filter (fun a => !isAssocType a) a1 = List.filter (fun a => !isAssocType a) a2
      · simp [he]
      · simp [he]
    · simp [hi, hid]
  · simp [hi]


theorem tbEq_eq {p q : T} (hp : wfPath p = true) (hq : wfPath q = true) :
    tbEq p q = if keyOf' p = keyOf' q then .t else .f := tbEq_eq_of_cmp (cmpPath_of_wfPath hp) (cmpPath_of_wfPath hq)

/-- `TraitBound::eq` is symmetric, panics included — no side condition -/
theorem tbEq_symm (p q : T) : tbEq p q = tbEq q p := by
  unfold tbEq
  cases hp : (pathSegments p).reverse with
  | nil => cases hq : (pathSegments q).reverse <;> rfl
  | cons lp ip =>
    cases hq : (pathSegments q).reverse with
    | nil => rfl
    | cons lq iq =>
      simp only
      by_cases hi : ip.reverse = iq.reverse
      · by_cases hid : segIdent lp = segIdent lq
        · simp only [hi, hid, bne_self_eq_false, Bool.false_eq_true, if_false]
          cases hsp : segArgs lp <;> cases hsq : segArgs lq <;> simp only [B3.ofBool]
          · rename_i a1 a2
            by_cases hl : (nonAssoc a1).length = (nonAssoc a2).length
            · have e : (nonAssoc a1 == nonAssoc a2) = (nonAssoc a2 == nonAssoc a1) := by
                rw [Bool.eq_iff_iff]; simp only [beq_iff_eq]; exact eq_comm
              simp [hl, e]
            · have hl' : ¬ (nonAssoc a2).length = (nonAssoc a1).length := fun e => hl e.symm
              simp [hl, hl']
          · rename_i x y
            have e : (x == y) = (y == x) := by
              rw [Bool.eq_iff_iff]; simp only [beq_iff_eq]; exact eq_comm
            rw [e]
        · have h1 : (segIdent lp != segIdent lq) = true := by simpa using hid
          have h2 : (segIdent lq != segIdent lp) = true := by simpa using fun e => hid e.symm
          simp [hi, h1, h2]
      · have h1 : (ip.reverse != iq.reverse) = true := bne_iff_ne.2 hi
        have h2 : (iq.reverse != ip.reverse) = true := bne_iff_ne.2 (fun e => hi e.symm)
        simp only [h1, h2, if_true]

/-- comparing a path with itself: "equal" when it is comparable, a panic otherwise -/
theorem tbEq_self (p : T) : tbEq p p = if cmpPath p then .t else .panic := by
  cases hc : cmpPath p with
  | true =>
    rw [tbEq_eq_of_cmp hc hc]; simp
  | false =>
    unfold cmpPath at hc
    unfold tbEq
    cases hl : lastSeg p with
    | none => rw [lastSeg_none hl]; rfl
    | some l =>
      rw [hl] at hc
      rw [rev_of_lastSeg hl]
      simp only [bne_self_eq_false, Bool.false_eq_true, if_false] at hc ⊢
      cases hs : segArgs l <;> rw [hs] at hc <;> simp [cmpArgs] at hc ⊢

theorem cmpPath_of_lastParen {p x : T} (h : lastParen p = some x) : cmpPath p = true := by
  unfold lastParen at h
  unfold cmpPath
  cases hl : lastSeg p with
  | none => rw [hl] at h; cases h
  | some l =>
    rw [hl] at h
    simp only at h ⊢
    cases hs : segArgs l <;> rw [hs] at h <;> simp [cmpArgs] at h ⊢

/-! ### The hasher feed is a function of the key, injective up to the angle/parenthesized distinction -/

/-- the part of the feed that precedes a parenthesized argument list -/
def feedFront (k : TraitKey) : List Feed :=
  k.init.map Feed.seg ++ Feed.ident k.ident :: k.args.map Feed.arg

def feedOf (k : TraitKey) : List Feed := feedFront k ++ k.paren.toList.map Feed.arg

theorem hashFeed_eq_map (p : T) : hashFeed p = (keyOf p).map feedOf := by
  unfold hashFeed keyOf feedOf feedFront
  split
  · next l i _ => cases segArgs l <;> simp
  · rfl

theorem map_arg_inj : ∀ {a a' : List T}, a.map Feed.arg = a'.map Feed.arg → a = a'
  | [], [], _ => rfl
  | [], _ :: _, h => by simp at h
  | _ :: _, [], h => by simp at h
  | x :: xs, y :: ys, h => by
      simp only [List.map_cons, List.cons.injEq, Feed.arg.injEq] at h
      rw [h.1, map_arg_inj h.2]

/-- the front part of the feed (leading segments, identifier, arguments) determines these three components -/
theorem feedFront_inj' : ∀ {i i' : List T} {x x' : Option String} {a a' : List T},
    i.map Feed.seg ++ Feed.ident x :: a.map Feed.arg = i'.map Feed.seg ++ Feed.ident x' :: a'.map Feed.arg →
    i = i' ∧ x = x' ∧ a = a'
  | [], [], _, _, _, _, h => by
      simp only [List.map_nil, List.nil_append, List.cons.injEq, Feed.ident.injEq] at h
      exact ⟨rfl, h.1, map_arg_inj h.2⟩
  | [], _ :: _, _, _, _, _, h => by simp at h
  | _ :: _, [], _, _, _, _, h => by simp at h
  | y :: ys, y' :: ys', _, _, _, _, h => by
      simp only [List.map_cons, List.cons_append, List.cons.injEq, Feed.seg.injEq] at h
      obtain ⟨h1, h2, h3⟩ := feedFront_inj' h.2
      exact ⟨by rw [h.1, h1], h2, h3⟩

/-- the feed determines the key among keys of the same argument form -/
theorem feedOf_inj {k k' : TraitKey} (h : feedOf k = feedOf k') (hp : k.paren = k'.paren) : k = k' := by
  obtain ⟨i, x, a, o⟩ := k
  obtain ⟨i', x', a', o'⟩ := k'
  simp only at hp
  subst hp
  unfold feedOf at h
  have h' := List.append_cancel_right h
  unfold feedFront at h'
  obtain ⟨h1, h2, h3⟩ := feedFront_inj' h'
  simp only at h1 h2 h3
  rw [h1, h2, h3]

/-- the keys `keyOf` produces have arguments or a parenthesized node, never both -/
theorem lastArgs_nil_of_lastParen {p : T} {x : T} (h : lastParen p = some x) : lastArgs p = [] := by
  unfold lastParen at h
  unfold lastArgs
  cases hl : lastSeg p with
  | none => rfl
  | some l =>
    rw [hl] at h
    simp only at h ⊢
    cases hs : segArgs l <;> rw [hs] at h <;> simp at h ⊢

theorem segArgs_paren_inv {l x : T} (h : segArgs l = .paren x) :
    ∃ id as ks, l = .node "PathSegment" [] [id, .node "PathArguments::Parenthesized" as ks] ∧
      x = .node "PathArguments::Parenthesized" as ks := by
  unfold segArgs at h
  split at h
  · cases h
  · cases h
  · next id as ks => cases h; exact ⟨id, as, ks, rfl, rfl⟩
  · cases h

theorem lastParen_isParenNode {p x : T} (h : lastParen p = some x) :
    ∃ as ks, x = .node "PathArguments::Parenthesized" as ks := by
  unfold lastParen at h
  cases hl : lastSeg p with
  | none => rw [hl] at h; cases h
  | some l =>
    rw [hl] at h
    simp only at h
    cases hs : segArgs l with
    | paren y =>
      rw [hs] at h
      simp only [Option.some.injEq] at h
      obtain ⟨_, as, ks, _, hy⟩ := segArgs_paren_inv hs
      exact ⟨as, ks, by rw [← h, hy]⟩
    | _ => rw [hs] at h; cases h

theorem getLast?_feedFront (k : TraitKey) :
    (feedFront k).getLast? = some (match k.args.getLast? with | some y => Feed.arg y | none => Feed.ident k.ident) := by
  unfold feedFront
  rcases List.eq_nil_or_concat k.args with h | ⟨a0, y, h⟩
  · rw [h]; simp
  · rw [h, List.concat_eq_append]
    have : List.map Feed.seg k.init ++ Feed.ident k.ident :: List.map Feed.arg (a0 ++ [y]) =
        (List.map Feed.seg k.init ++ Feed.ident k.ident :: List.map Feed.arg a0) ++ [Feed.arg y] := by simp
    rw [this, List.getLast?_concat, List.getLast?_concat]

/-- equal feeds of two paths whose generic arguments are not parenthesized-argument nodes: the same argument form -/
theorem lastParen_eq_of_feed {p q : T} (hnp : noParenArg p = true) (hnq : noParenArg q = true)
    (h : feedOf (keyOf' p) = feedOf (keyOf' q)) : lastParen p = lastParen q := by
  have key : ∀ {p q : T} {x : T}, noParenArg q = true → lastParen p = some x →
      feedOf (keyOf' p) = feedOf (keyOf' q) → lastParen q = some x := by
    intro p q x hnq hx h
    have hl := congrArg List.getLast? h
    have hpx : feedOf (keyOf' p) = feedFront (keyOf' p) ++ [Feed.arg x] := by
      simp only [feedOf, keyOf', hx, Option.toList_some, List.map_cons, List.map_nil]
    rw [hpx, List.getLast?_concat] at hl
    cases hq : lastParen q with
    | some y =>
      have hqy : feedOf (keyOf' q) = feedFront (keyOf' q) ++ [Feed.arg y] := by
        simp only [feedOf, keyOf', hq, Option.toList_some, List.map_cons, List.map_nil]
      rw [hqy, List.getLast?_concat] at hl
      simp only [Option.some.injEq, Feed.arg.injEq] at hl
      rw [hl]
    | none =>
      exfalso
      have hqy : feedOf (keyOf' q) = feedFront (keyOf' q) := by
        simp only [feedOf, keyOf', hq, Option.toList_none, List.map_nil, List.append_nil]
      rw [hqy, getLast?_feedFront] at hl
      cases hlast : (keyOf' q).args.getLast? with
      | none => rw [hlast] at hl; simp at hl
      | some y =>
        rw [hlast] at hl
        simp only [Option.some.injEq, Feed.arg.injEq] at hl
        have hy : y ∈ lastArgs q := (List.mem_filter.1 (List.mem_of_getLast? hlast)).1
        obtain ⟨as, ks, hx'⟩ := lastParen_isParenNode hx
        unfold noParenArg at hnq
        have := List.all_eq_true.1 hnq y hy
        rw [← hl, hx'] at this
        simp at this
  cases hp : lastParen p with
  | some x => rw [key hnq hp h]
  | none =>
    cases hq : lastParen q with
    | none => rfl
    | some y =>
      have := key hnp hq h.symm
      rw [hp] at this; cases this

/-! ### `stripBindings` -/

def angleSeg (id c2 : T) (args : List T) : T :=
  .node "PathSegment" [] [id, .node "PathArguments::AngleBracketed" [] [c2, .node "List" [] args]]

theorem segArgs_angle_inv {l : T} {args : List T} (h : segArgs l = .angle args) :
    ∃ id c2, l = angleSeg id c2 args := by
  unfold segArgs at h
  split at h
  · cases h
  · next id c2 a => cases h; exact ⟨id, c2, rfl⟩
  · cases h
  · cases h

theorem segArgs_angleSeg (id c2 : T) (args : List T) : segArgs (angleSeg id c2 args) = .angle args := by
  simp [segArgs, angleSeg]

theorem segIdent_angleSeg (id c2 : T) (args args' : List T) :
    segIdent (angleSeg id c2 args) = segIdent (angleSeg id c2 args') := by
  unfold segIdent angleSeg
  split <;> simp_all

theorem nonAssoc_idem (args : List T) : nonAssoc (nonAssoc args) = nonAssoc args := by
  simp [nonAssoc, List.filter_filter]

def mkPath (lc : T) (segs : List T) : T := .node "Path" [] [lc, .node "List" [] segs]

theorem pathSegments_mkPath (lc : T) (segs : List T) : pathSegments (mkPath lc segs) = segs := by
  simp [pathSegments, mkPath]

theorem pathSegments_ne_nil_inv {p : T} (h : pathSegments p ≠ []) : ∃ lc segs, p = mkPath lc segs := by
  unfold pathSegments at h
  split at h
  · next lc segs => exact ⟨lc, segs, rfl⟩
  · exact absurd rfl h

theorem stripBindings_angle (lc : T) (i : List T) (id c2 : T) (args : List T) :
    stripBindings (mkPath lc (i ++ [angleSeg id c2 args])) = mkPath lc (i ++ [angleSeg id c2 (nonAssoc args)]) := by
  simp [stripBindings, mkPath, angleSeg]

/-- either the last segment has angle-bracketed arguments, which are filtered, or nothing changes -/
theorem stripBindings_cases (p : T) :
    (∃ lc i id c2 args, p = mkPath lc (i ++ [angleSeg id c2 args])) ∨
    (stripBindings p = p ∧ ∀ l args, lastSeg p = some l → segArgs l ≠ .angle args) := by
  by_cases h : ∃ l args, lastSeg p = some l ∧ segArgs l = .angle args
  · obtain ⟨l, args, hl, hs⟩ := h
    obtain ⟨id, c2, rfl⟩ := segArgs_angle_inv hs
    have hne : pathSegments p ≠ [] := by
      intro e; unfold lastSeg at hl; rw [e] at hl; cases hl
    obtain ⟨lc, segs, rfl⟩ := pathSegments_ne_nil_inv hne
    have := reverse_eq_cons (rev_of_lastSeg hl)
    rw [pathSegments_mkPath] at this
    exact Or.inl ⟨lc, _, id, c2, args, by rw [this]⟩
  · refine Or.inr ⟨?_, fun l args hl hs => h ⟨l, args, hl, hs⟩⟩
    unfold stripBindings
    split
    · next lc segs =>
      split
      · next id c2 args i hrev =>
        exfalso
        apply h
        refine ⟨angleSeg id c2 args, args, ?_, segArgs_angleSeg _ _ _⟩
        have := (lastSeg_of_rev (p := mkPath lc segs) (by rw [pathSegments_mkPath]; exact hrev)).1
        exact this
      · rfl
    · rfl

theorem lastSeg_mkPath (lc : T) (i : List T) (l : T) : lastSeg (mkPath lc (i ++ [l])) = some l := by
  simp [lastSeg, pathSegments_mkPath]
theorem initSegs_mkPath (lc : T) (i : List T) (l : T) : initSegs (mkPath lc (i ++ [l])) = i := by
  simp [initSegs, pathSegments_mkPath]

/-- what `stripBindings` does to the three components of a path -/
theorem stripBindings_parts (p : T) :
    initSegs (stripBindings p) = initSegs p ∧ lastIdent (stripBindings p) = lastIdent p ∧
    lastArgs (stripBindings p) = nonAssoc (lastArgs p) := by
  rcases stripBindings_cases p with ⟨lc, i, id, c2, args, rfl⟩ | ⟨he, hno⟩
  · rw [stripBindings_angle]
    simp only [initSegs_mkPath, lastIdent, lastArgs, lastSeg_mkPath, Option.bind_some, segArgs_angleSeg,
      true_and]
    exact ⟨segIdent_angleSeg _ _ _ _, trivial⟩
  · rw [he]
    refine ⟨rfl, rfl, ?_⟩
    unfold lastArgs
    cases hl : lastSeg p with
    | none => simp [nonAssoc]
    | some l =>
      simp only
      cases hs : segArgs l with
      | angle args => exact absurd hs (hno l args hl)
      | _ => simp [nonAssoc]

theorem wfPath_stripBindings (p : T) : wfPath (stripBindings p) = wfPath p := by
  rcases stripBindings_cases p with ⟨lc, i, id, c2, args, rfl⟩ | ⟨he, _⟩
  · rw [stripBindings_angle]
    simp only [wfPath, cmpPath, lastSeg_mkPath, segArgs_angleSeg, pathSegments_mkPath, List.all_append, List.all_cons,
      List.all_nil, Bool.and_true, segIdent_angleSeg id c2 (nonAssoc args) args, cmpArgs]
  · rw [he]

theorem cmpPath_stripBindings (p : T) : cmpPath (stripBindings p) = cmpPath p := by
  rcases stripBindings_cases p with ⟨lc, i, id, c2, args, rfl⟩ | ⟨he, _⟩
  · rw [stripBindings_angle]
    simp only [cmpPath, lastSeg_mkPath, segArgs_angleSeg, cmpArgs]
  · rw [he]

theorem lastParen_stripBindings (p : T) : lastParen (stripBindings p) = lastParen p := by
  rcases stripBindings_cases p with ⟨lc, i, id, c2, args, rfl⟩ | ⟨he, _⟩
  · rw [stripBindings_angle]
    simp only [lastParen, lastSeg_mkPath, segArgs_angleSeg]
  · rw [he]

theorem keyOf_stripBindings (p : T) : keyOf (stripBindings p) = keyOf p := by
  rcases stripBindings_cases p with ⟨lc, i, id, c2, args, rfl⟩ | ⟨he, _⟩
  · rw [stripBindings_angle]
    simp only [keyOf, pathSegments_mkPath, List.reverse_append, List.reverse_cons, List.reverse_nil,
      List.nil_append, List.singleton_append, segArgs_angleSeg, nonAssoc_idem,
      segIdent_angleSeg id c2 (nonAssoc args) args]
  · rw [he]

theorem stripBindings_idem (p : T) : stripBindings (stripBindings p) = stripBindings p := by
  rcases stripBindings_cases p with ⟨lc, i, id, c2, args, rfl⟩ | ⟨he, _⟩
  · rw [stripBindings_angle, stripBindings_angle, nonAssoc_idem]
  · rw [he, he]

end DI
