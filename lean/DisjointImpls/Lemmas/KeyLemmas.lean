/-
  Helper lemmas for the C12 theorems (`Props/C12.lean`) over the model of the dispatch-key identity
  (`Key.lean`): well-formed trait paths, the key in closed form, the hasher feed as a function of the
  key, and `stripBindings`. Core-only.
-/
import DisjointImpls.Key
namespace DI

/-! ### Accessors and well-formed trait paths -/

def lastSeg (p : T) : Option T := (pathSegments p).getLast?
def initSegs (p : T) : List T := (pathSegments p).dropLast
def lastIdent (p : T) : Option String := (lastSeg p).bind segIdent
/-- the generic arguments of the last segment (`[]` when there are none) -/
def lastArgs (p : T) : List T :=
  match lastSeg p with
  | some l => (match segArgs l with | .angle args => args | _ => [])
  | none => []

def goodArgs : SegArgs → Bool
  | .none => true
  | .angle _ => true
  | _ => false

/-- a trait path the code can compare: at least one segment, every segment has an identifier, and the last
    segment has no parenthesized arguments (`Fn(A) -> B` hits `unreachable!()`, lib.rs:95-153) -/
def wfPath (p : T) : Bool :=
  (match lastSeg p with
   | some l => goodArgs (segArgs l)
   | none => false) &&
  (pathSegments p).all (fun s => (segIdent s).isSome)

theorem reverse_eq_cons {α : Type} {l : List α} {x : α} {i : List α} (h : l.reverse = x :: i) :
    l = i.reverse ++ [x] := by
  have := congrArg List.reverse h
  simpa using this

theorem rev_of_lastSeg {p : T} {l : T} (h : lastSeg p = some l) :
    (pathSegments p).reverse = l :: (initSegs p).reverse := by
  unfold lastSeg at h
  unfold initSegs
  generalize pathSegments p = segs at h
  rcases List.eq_nil_or_concat segs with rfl | ⟨i, x, rfl⟩
  · simp at h
  · simp at h; subst h; simp

theorem lastSeg_of_rev {p : T} {l : T} {i : List T} (h : (pathSegments p).reverse = l :: i) :
    lastSeg p = some l ∧ initSegs p = i.reverse := by
  unfold lastSeg initSegs
  rw [reverse_eq_cons h]
  simp

theorem lastSeg_none {p : T} (h : lastSeg p = none) : (pathSegments p).reverse = [] := by
  unfold lastSeg at h
  simpa using h

theorem wfPath_last {p : T} (h : wfPath p = true) :
    ∃ l, lastSeg p = some l ∧ goodArgs (segArgs l) = true := by
  unfold wfPath at h
  simp only [Bool.and_eq_true] at h
  cases hl : lastSeg p with
  | none => rw [hl] at h; simp at h
  | some l => rw [hl] at h; exact ⟨l, rfl, h.1⟩

/-- the key in closed form -/
def keyOf' (p : T) : TraitKey := ⟨initSegs p, lastIdent p, nonAssoc (lastArgs p)⟩

theorem keyOf_eq {p : T} (h : wfPath p = true) : keyOf p = some (keyOf' p) := by
  obtain ⟨l, hl, hg⟩ := wfPath_last h
  unfold keyOf keyOf' lastIdent lastArgs
  rw [rev_of_lastSeg hl, hl]
  cases hs : segArgs l <;> simp_all [goodArgs, nonAssoc]


theorem nonAssoc_eq_nil (args : List T) :
    (!(args.any (fun a => !isAssocType a))) = true ↔ nonAssoc args = [] := by
  simp [nonAssoc, List.filter_eq_nil_iff]

theorem tbEq_eq {p q : T} (hp : wfPath p = true) (hq : wfPath q = true) :
    tbEq p q = if keyOf' p = keyOf' q then .t else .f := by
  obtain ⟨lp, hlp, hgp⟩ := wfPath_last hp
  obtain ⟨lq, hlq, hgq⟩ := wfPath_last hq
  unfold tbEq keyOf' lastIdent lastArgs
  rw [rev_of_lastSeg hlp, rev_of_lastSeg hlq, hlp, hlq]
  simp only [List.reverse_reverse, Option.bind_some, TraitKey.mk.injEq]
  by_cases hi : initSegs p = initSegs q
  · by_cases hid : segIdent lp = segIdent lq
    · simp only [hi, hid, bne_self_eq_false, Bool.false_eq_true, if_false, true_and]
      cases hsp : segArgs lp <;> cases hsq : segArgs lq <;> simp_all [goodArgs, B3.ofBool, nonAssoc]
      rename_i a1 a2
      by_cases he : List.filter (fun a => !isAssocType a) a1 = List.filter (fun a => !isAssocType a) a2
      · simp [he]
      · simp only [he, if_false]; split <;> rfl
    · simp [hi, hid]
  · simp [hi]


/-! ### The hasher feed is an injective function of the key -/

def feedOf (k : TraitKey) : List Feed :=
  k.init.map Feed.seg ++ [Feed.ident k.ident] ++ k.args.map Feed.arg

theorem hashFeed_eq_map (p : T) : hashFeed p = (keyOf p).map feedOf := by
  unfold hashFeed keyOf feedOf
  split
  · next l i _ => cases segArgs l <;> simp
  · rfl

theorem map_arg_inj : ∀ {a a' : List T}, a.map Feed.arg = a'.map Feed.arg → a = a'
  | [], [], _ => rfl
  | [], _ :: _, h => by simp at h
  | _ :: _, [], h => by simp at h
  | x :: xs, y :: ys, h => by
      simp only [List.map_cons, List.cons.injEq, Feed.arg.injEq] at h
      rw [h.1, map_arg_inj h.2]

theorem feedOf_inj : ∀ {k k' : TraitKey}, feedOf k = feedOf k' → k = k' := by
  intro ⟨i, x, a⟩ ⟨i', x', a'⟩ h
  simp only [feedOf, List.append_assoc, List.singleton_append] at h
  induction i generalizing i' with
  | nil =>
    cases i' with
    | nil =>
      simp only [List.map_nil, List.nil_append, List.cons.injEq, Feed.ident.injEq] at h
      have := map_arg_inj h.2
      simp [h.1, this]
    | cons _ _ => simp at h
  | cons y ys ih =>
    cases i' with
    | nil => simp at h
    | cons y' ys' =>
      simp only [List.map_cons, List.cons_append, List.cons.injEq, Feed.seg.injEq] at h
      have := ih ys' h.2
      simp only [TraitKey.mk.injEq] at this ⊢
      exact ⟨by rw [h.1, this.1], this.2⟩

/-! ### `stripBindings` -/

def angleSeg (id c2 : T) (args : List T) : T :=
  .node "PathSegment" [] [id, .node "PathArguments::AngleBracketed" [] [c2, .node "List" [] args]]

theorem segArgs_angle_inv {l : T} {args : List T} (h : segArgs l = .angle args) :
    ∃ id c2, l = angleSeg id c2 args := by
  unfold segArgs at h
  split at h
  · cases h
  · next id c2 a => cases h; exact ⟨id, c2, rfl⟩
  · cases h
  · cases h

theorem segArgs_angleSeg (id c2 : T) (args : List T) : segArgs (angleSeg id c2 args) = .angle args := by
  simp [segArgs, angleSeg]

theorem segIdent_angleSeg (id c2 : T) (args args' : List T) :
    segIdent (angleSeg id c2 args) = segIdent (angleSeg id c2 args') := by
  unfold segIdent angleSeg
  split <;> simp_all

theorem nonAssoc_idem (args : List T) : nonAssoc (nonAssoc args) = nonAssoc args := by
  simp [nonAssoc, List.filter_filter]

def mkPath (lc : T) (segs : List T) : T := .node "Path" [] [lc, .node "List" [] segs]

theorem pathSegments_mkPath (lc : T) (segs : List T) : pathSegments (mkPath lc segs) = segs := by
  simp [pathSegments, mkPath]

theorem pathSegments_ne_nil_inv {p : T} (h : pathSegments p ≠ []) : ∃ lc segs, p = mkPath lc segs := by
  unfold pathSegments at h
  split at h
  · next lc segs => exact ⟨lc, segs, rfl⟩
  · exact absurd rfl h

theorem stripBindings_angle (lc : T) (i : List T) (id c2 : T) (args : List T) :
    stripBindings (mkPath lc (i ++ [angleSeg id c2 args])) = mkPath lc (i ++ [angleSeg id c2 (nonAssoc args)]) := by
  simp [stripBindings, mkPath, angleSeg]

/-- either the last segment has angle-bracketed arguments, which are filtered, or nothing changes -/
theorem stripBindings_cases (p : T) :
    (∃ lc i id c2 args, p = mkPath lc (i ++ [angleSeg id c2 args])) ∨
    (stripBindings p = p ∧ ∀ l args, lastSeg p = some l → segArgs l ≠ .angle args) := by
  by_cases h : ∃ l args, lastSeg p = some l ∧ segArgs l = .angle args
  · obtain ⟨l, args, hl, hs⟩ := h
    obtain ⟨id, c2, rfl⟩ := segArgs_angle_inv hs
    have hne : pathSegments p ≠ [] := by
      intro e; unfold lastSeg at hl; rw [e] at hl; cases hl
    obtain ⟨lc, segs, rfl⟩ := pathSegments_ne_nil_inv hne
    have := reverse_eq_cons (rev_of_lastSeg hl)
    rw [pathSegments_mkPath] at this
    exact Or.inl ⟨lc, _, id, c2, args, by rw [this]⟩
  · refine Or.inr ⟨?_, fun l args hl hs => h ⟨l, args, hl, hs⟩⟩
    unfold stripBindings
    split
    · next lc segs =>
      split
      · next id c2 args i hrev =>
        exfalso
        apply h
        refine ⟨angleSeg id c2 args, args, ?_, segArgs_angleSeg _ _ _⟩
        have := (lastSeg_of_rev (p := mkPath lc segs) (by rw [pathSegments_mkPath]; exact hrev)).1
        exact this
      · rfl
    · rfl

theorem lastSeg_mkPath (lc : T) (i : List T) (l : T) : lastSeg (mkPath lc (i ++ [l])) = some l := by
  simp [lastSeg, pathSegments_mkPath]
theorem initSegs_mkPath (lc : T) (i : List T) (l : T) : initSegs (mkPath lc (i ++ [l])) = i := by
  simp [initSegs, pathSegments_mkPath]

/-- what `stripBindings` does to the three components of a path -/
theorem stripBindings_parts (p : T) :
    initSegs (stripBindings p) = initSegs p ∧ lastIdent (stripBindings p) = lastIdent p ∧
    lastArgs (stripBindings p) = nonAssoc (lastArgs p) := by
  rcases stripBindings_cases p with ⟨lc, i, id, c2, args, rfl⟩ | ⟨he, hno⟩
  · rw [stripBindings_angle]
    simp only [initSegs_mkPath, lastIdent, lastArgs, lastSeg_mkPath, Option.bind_some, segArgs_angleSeg,
      true_and]
    exact ⟨segIdent_angleSeg _ _ _ _, trivial⟩
  · rw [he]
    refine ⟨rfl, rfl, ?_⟩
    unfold lastArgs
    cases hl : lastSeg p with
    | none => simp [nonAssoc]
    | some l =>
      simp only
      cases hs : segArgs l with
      | angle args => exact absurd hs (hno l args hl)
      | _ => simp [nonAssoc]

theorem wfPath_stripBindings (p : T) : wfPath (stripBindings p) = wfPath p := by
  rcases stripBindings_cases p with ⟨lc, i, id, c2, args, rfl⟩ | ⟨he, _⟩
  · rw [stripBindings_angle]
    simp only [wfPath, lastSeg_mkPath, segArgs_angleSeg, pathSegments_mkPath, List.all_append, List.all_cons,
      List.all_nil, Bool.and_true, segIdent_angleSeg id c2 (nonAssoc args) args, goodArgs]
  · rw [he]

theorem keyOf_stripBindings (p : T) : keyOf (stripBindings p) = keyOf p := by
  rcases stripBindings_cases p with ⟨lc, i, id, c2, args, rfl⟩ | ⟨he, _⟩
  · rw [stripBindings_angle]
    simp only [keyOf, pathSegments_mkPath, List.reverse_append, List.reverse_cons, List.reverse_nil,
      List.nil_append, List.singleton_append, segArgs_angleSeg, nonAssoc_idem,
      segIdent_angleSeg id c2 (nonAssoc args) args]
  · rw [he]

theorem stripBindings_idem (p : T) : stripBindings (stripBindings p) = stripBindings p := by
  rcases stripBindings_cases p with ⟨lc, i, id, c2, args, rfl⟩ | ⟨he, _⟩
  · rw [stripBindings_angle, stripBindings_angle, nonAssoc_idem]
  · rw [he, he]

end DI
