/-
  Acyclicity of the header relation recorded by `make_sets` (`Props/C11.lean`, `C11_acyclic_of_headersWF`):
  if "the matcher answers yes" is transitive on the bucket headers, the recorded relation is contained in a strict
  partial order (mutually generalising headers are ordered by their index), every header has a rank below the number
  of headers, and Kahn's iteration `acyclicIds` peels everything off. Transitivity on the headers comes from
  `sup_trans_tr` (`Lemmas/MatchTrans.lean`) under the executable condition `headersWFIds`. Core-only.
-/
import DisjointImpls.Lemmas.GroupLemmas
import DisjointImpls.Lemmas.MatchTrans
namespace DI

/-- "answers yes" is transitive on the list of headers -/
def TransOn_tr (ids : List T) : Prop :=
  ∀ a ∈ ids, ∀ b ∈ ids, ∀ c ∈ ids, supYes a b = true → supYes b c = true → supYes a c = true

/-- the strict order containing the recorded relation: `y` generalises `x`, they are different, and if `x`
    generalises `y` too then `y` comes first -/
def lt_tr (ids : List T) (y x : T) : Bool :=
  supYes y x && (y != x) && (!supYes x y || decide (ids.idxOf y < ids.idxOf x))

theorem lt_irrefl_tr (ids : List T) (x : T) : lt_tr ids x x = false := by
  simp [lt_tr]

theorem lt_trans_tr {ids : List T} (hT : TransOn_tr ids) {y x z : T} (hy : y ∈ ids) (hx : x ∈ ids) (hz : z ∈ ids)
    (h1 : lt_tr ids y x = true) (h2 : lt_tr ids x z = true) : lt_tr ids y z = true := by
  simp only [lt_tr, Bool.and_eq_true, Bool.or_eq_true, Bool.not_eq_true', bne_iff_ne, ne_eq, decide_eq_true_eq] at h1 h2 ⊢
  obtain ⟨⟨a1, a2⟩, a3⟩ := h1
  obtain ⟨⟨b1, b2⟩, b3⟩ := h2
  have hyz : supYes y z = true := hT y hy x hx z hz a1 b1
  -- if z generalises y, all three generalise each other and the indices are ordered
  have key : supYes z y = true → ids.idxOf y < ids.idxOf x ∧ ids.idxOf x < ids.idxOf z := by
    intro hzy
    have hxy : supYes x y = true := hT x hx z hz y hy b1 hzy
    have hzx : supYes z x = true := hT z hz y hy x hx hzy a1
    refine ⟨?_, ?_⟩
    · rcases a3 with h | h
      · rw [hxy] at h; cases h
      · exact h
    · rcases b3 with h | h
      · rw [hzx] at h; cases h
      · exact h
  refine ⟨⟨hyz, ?_⟩, ?_⟩
  · intro e
    subst e
    have := key hyz
    omega
  · cases hzy : supYes z y with
    | false => exact Or.inl rfl
    | true => have := key hzy; exact Or.inr (by omega)

theorem countP_lt_tr {α : Type} {p q : α → Bool} : ∀ {l : List α}, (∀ a ∈ l, p a = true → q a = true) →
    (∃ a ∈ l, q a = true ∧ p a = false) → l.countP p < l.countP q
  | [], _, ⟨_, h, _⟩ => by cases h
  | x :: xs, hpq, ⟨a, ha, hqa, hpa⟩ => by
      have hmono : xs.countP p ≤ xs.countP q :=
        List.countP_mono_left (fun a ha h => hpq a (List.mem_cons_of_mem _ ha) h)
      rcases List.mem_cons.1 ha with rfl | ha'
      · rw [List.countP_cons, List.countP_cons]
        simp only [hqa, hpa, if_true, Bool.false_eq_true, if_false]
        omega
      · have ih := countP_lt_tr (l := xs) (fun a ha h => hpq a (List.mem_cons_of_mem _ ha) h) ⟨a, ha', hqa, hpa⟩
        rw [List.countP_cons, List.countP_cons]
        cases hpx : p x with
        | false => simp only [Bool.false_eq_true, if_false]; split <;> omega
        | true =>
          have hqx := hpq x (by simp) hpx
          simp only [hqx, if_true]; omega

/-- number of headers strictly before `x` -/
def rank_tr (ids : List T) (x : T) : Nat := ids.countP (fun y => lt_tr ids y x)

theorem rank_lt_tr {ids : List T} (hT : TransOn_tr ids) {y x : T} (hy : y ∈ ids) (hx : x ∈ ids)
    (h : lt_tr ids y x = true) : rank_tr ids y < rank_tr ids x := by
  apply countP_lt_tr
  · intro a ha h1
    exact lt_trans_tr hT ha hy hx h1 h
  · exact ⟨y, hy, h, lt_irrefl_tr ids y⟩

theorem rank_lt_length_tr {ids : List T} {x : T} (hx : x ∈ ids) : rank_tr ids x < ids.length := by
  have := countP_lt_tr (p := fun y => lt_tr ids y x) (q := fun _ => true) (l := ids) (fun _ _ _ => rfl)
    ⟨x, hx, rfl, lt_irrefl_tr ids x⟩
  simpa [rank_tr] using this

/-! ### Kahn's iteration on a relation with a rank -/

theorem kahnStep_rank_tr {E : List (T × T × Subst)} {rk : T → Nat} (hE : ∀ p ∈ E, rk p.1 < rk p.2.1)
    {R : List T} {m : Nat} (hR : ∀ x ∈ R, m ≤ rk x) : ∀ x ∈ kahnStep E R, m + 1 ≤ rk x := by
  intro x hx
  simp only [kahnStep, predsOf, List.mem_filter, List.any_eq_true, List.mem_map, List.contains_iff_mem] at hx
  obtain ⟨_, g, ⟨p, ⟨hp, hpx⟩, rfl⟩, hg⟩ := hx
  have h1 := hE p hp
  have h2 := hR _ hg
  rw [eq_of_beq hpx] at h1
  omega

theorem kahnIter_rank_tr {E : List (T × T × Subst)} {rk : T → Nat} (hE : ∀ p ∈ E, rk p.1 < rk p.2.1) :
    ∀ (n : Nat) (R : List T) (m : Nat), (∀ x ∈ R, m ≤ rk x) → ∀ x ∈ kahnIter E n R, m + n ≤ rk x
  | 0, R, m, hR => by intro x hx; rw [kahnIter] at hx; simpa using hR x hx
  | n + 1, R, m, hR => by
      intro x hx
      rw [kahnIter] at hx
      have := kahnIter_rank_tr hE n (kahnStep E R) (m + 1) (kahnStep_rank_tr hE hR) x hx
      omega

theorem kahnIter_sub_tr (E : List (T × T × Subst)) : ∀ (n : Nat) (R : List T), ∀ x ∈ kahnIter E n R, x ∈ R
  | 0, R => by intro x hx; rw [kahnIter] at hx; exact hx
  | n + 1, R => by
      intro x hx
      rw [kahnIter] at hx
      have := kahnIter_sub_tr E n _ x hx
      simp only [kahnStep, List.mem_filter] at this
      exact this.1

/-! ### The recorded pairs are ordered -/

theorem msPairs_lt_tr {ids : List T} (hn : ids.Nodup) {p : T × T × Subst} (h : p ∈ msPairs ids) :
    lt_tr ids p.1 p.2.1 = true := by
  simp only [msPairs, List.mem_flatMap, List.mem_filterMap] at h
  obtain ⟨g1, hg1, g2, hg2, hp⟩ := h
  obtain ⟨x, i⟩ := g1
  obtain ⟨y, j⟩ := g2
  obtain ⟨hi, hxi⟩ := List.mem_zipIdx' hg1
  obtain ⟨hj, hyj⟩ := List.mem_zipIdx' hg2
  have ei : ids.idxOf x = i := by rw [hxi]; exact hn.idxOf_getElem i hi
  have ej : ids.idxOf y = j := by rw [hyj]; exact hn.idxOf_getElem j hj
  simp only at hp
  split at hp
  · cases hp
  · next hne =>
    split at hp
    · next σ l hs =>
      split at hp
      · cases hp
      · next hc =>
        cases hp
        simp only [lt_tr, Bool.and_eq_true, Bool.or_eq_true, Bool.not_eq_true', bne_iff_ne, ne_eq, decide_eq_true_eq]
        have hxy : x ≠ y := by simpa using hne
        refine ⟨⟨by simp [supYes, hs], hxy⟩, ?_⟩
        cases hyx : supYes y x with
        | false => exact Or.inl rfl
        | true =>
          right
          rw [ei, ej]
          have hij : ¬ (i > j) := by
            intro hgt
            apply hc
            simp [hgt, hyx]
          have : i ≠ j := by
            intro e
            apply hxy
            rw [hxi, hyj]
            subst e; rfl
          omega
    · cases hp

/-- acyclicity from transitivity -/
theorem acyclicIds_of_trans_tr {ids : List T} (hn : ids.Nodup) (hT : TransOn_tr ids) : acyclicIds ids = true := by
  have hE : ∀ p ∈ msPairs ids, rank_tr ids p.1 < rank_tr ids p.2.1 := fun p hp =>
    rank_lt_tr hT (msPairs_fst_mem hp) (msPairs_snd_mem hp) (msPairs_lt_tr hn hp)
  unfold acyclicIds
  rw [List.isEmpty_iff]
  apply List.eq_nil_iff_forall_not_mem.2
  intro x hx
  have h1 := kahnIter_rank_tr hE ids.length ids 0 (fun _ _ => Nat.zero_le _) x hx
  have h2 := rank_lt_length_tr (kahnIter_sub_tr _ _ _ x hx)
  omega

/-! ### Transitivity on well-formed headers -/

/-- executable per-input condition: every header lies in the fragment of `sup_trans_tr` and uses presentation
    consistently; and whenever one header generalises another one, its ignored children face ignored children -/
def headersWFIds (ids : List T) : Bool :=
  ids.all (fun g => okT_tr g && presInj_tr g) &&
  ids.all (fun g1 => ids.all (fun g2 => !supYes g1 g2 || faces_tr g1 (stripTop g2)))

theorem supYes_iff_tr {a b : T} : supYes a b = true ↔ ∃ σ l, sup a b = .yes σ l := by
  unfold supYes
  constructor
  · intro h
    split at h
    · next σ l hs => exact ⟨σ, l, hs⟩
    · cases h
  · rintro ⟨σ, l, hs⟩; rw [hs]

theorem transOn_of_headersWF_tr {ids : List T} (h : headersWFIds ids = true) : TransOn_tr ids := by
  simp only [headersWFIds, Bool.and_eq_true, List.all_eq_true, Bool.or_eq_true, Bool.not_eq_true'] at h
  obtain ⟨hok, hfaces⟩ := h
  intro a ha b hb c hc hab hbc
  obtain ⟨σ, l1, h1⟩ := supYes_iff_tr.1 hab
  obtain ⟨τ, l2, h2⟩ := supYes_iff_tr.1 hbc
  have hf : faces_tr b (stripTop c) = true := by
    rcases hfaces b hb c hc with h | h
    · rw [hbc] at h; cases h
    · exact h
  obtain ⟨ρ, l, hρ⟩ := sup_trans_tr a b c σ τ l1 l2 (hok a ha).1 (hok b hb).1 (hok c hc).1 hf (hok c hc).2 h1 h2
  exact supYes_iff_tr.2 ⟨ρ, l, hρ⟩

theorem acyclicIds_of_headersWF_tr {ids : List T} (hn : ids.Nodup) (h : headersWFIds ids = true) :
    acyclicIds ids = true :=
  acyclicIds_of_trans_tr hn (transOn_of_headersWF_tr h)

end DI
