/-
  From the grouping the model computes (`parseGroups`, Group.lean) to the hypotheses of the refinement theorems
  (`memberOK`, `thetaCoversB`, Sem.lean / Lemmas/Refine.lean), for invocations without nested headers.

  `familyOfGroup` abstracts a model group `(header, ABG, members)` into a `Family` the way `Bounds.mkFamily` abstracts
  the wire representation. The bridge is the invariant `RowsOwn` (Lemmas/RowsOwn.lean): every payload of a member is
  what the member's own folded row binds.
-/
import DisjointImpls.Lemmas.RowsOwn
import DisjointImpls.Lemmas.Refine
namespace DI

/-! ### Identity substitutions -/

theorem lookup_allIdentity {σ : Subst} (h : allIdentity σ = true) (n : String) :
    lookup σ n = none ∨ lookup σ n = some .identity := by
  induction σ with
  | nil => exact Or.inl rfl
  | cons p σ ih =>
    obtain ⟨m, v⟩ := p
    simp only [allIdentity, List.all_cons, Bool.and_eq_true, beq_iff_eq] at h
    simp only [lookup]
    split
    · right; rw [h.1]
    · exact ih (by simpa [allIdentity] using h.2)

mutual
theorem inst_identity {σ : Subst} (h : allIdentity σ = true) : ∀ t : T, inst σ t = t
  | .tparam n => by
      rcases lookup_allIdentity h n with h1 | h1 <;> simp [inst, h1]
  | .eparam n => by
      rcases lookup_allIdentity h n with h1 | h1 <;> simp [inst, h1]
  | .node k as ks => by
      cases hg : isGA k as ks with
      | some n =>
        obtain ⟨rfl, rfl, rfl⟩ := isGA_some hg
        rcases lookup_allIdentity h n with h1 | h1
        · exact instGa_none h1
        · exact instGa_id h1
      | none =>
        rw [inst_other σ hg, instL_identity h ks]
theorem instL_identity {σ : Subst} (h : allIdentity σ = true) : ∀ ts : List T, instL σ ts = ts
  | [] => rfl
  | t :: ts => by rw [instL, inst_identity h t, instL_identity h ts]
end

mutual
/-- an identity substitution respects the kinds of exactly the trees the empty substitution does (those without a
    `GenericArgument::Type [eparam]` node) -/
theorem kindOK_identity {σ : Subst} (h : allIdentity σ = true) : ∀ t : T, kindOK σ t = kindOK [] t
  | .tparam n => by
      rw [kindOK, kindOK, nonEx, nonEx]
      rcases lookup_allIdentity h n with h1 | h1 <;> simp [h1, lookup]
  | .eparam n => by
      rw [kindOK, kindOK]
      rcases lookup_allIdentity h n with h1 | h1 <;> simp [h1, lookup]
  | .node k as ks => by
      unfold kindOK
      split
      · rfl
      · rfl
      · exact kindOKL_identity h ks
theorem kindOKL_identity {σ : Subst} (h : allIdentity σ = true) : ∀ ts : List T, kindOKL σ ts = kindOKL [] ts
  | [] => by rw [kindOKL, kindOKL]
  | t :: ts => by rw [kindOKL, kindOKL, kindOK_identity h t, kindOKL_identity h ts]
end

/-! ### `normTr` on well-formed trait paths -/

def normSeg (s : T) : T := match s with
  | .node "PathSegment" [] [id, .node "PathArguments::AngleBracketed" [] [_, .node "List" [] []]] =>
      .node "PathSegment" [] [id, .node "PathArguments::None" [] []]
  | .node "PathSegment" [] [id, .node "PathArguments::AngleBracketed" [] [_, args]] =>
      .node "PathSegment" [] [id, .node "PathArguments::AngleBracketed" [] [.node "Ign" [] [], args]]
  | s => s

theorem normTr_of_strip {p lc : T} {segs : List T} (h : stripBindings p = mkPath lc segs) :
    normTr p = mkPath lc (segs.map normSeg) := by
  unfold normTr
  rw [h]
  rfl

/-- the leading-colon child of a path -/
def lcOf : T → T
  | .node "Path" [] [lc, _] => lc
  | t => t

/-- the last segment of a normalised trait path, from the identifier and the non-binding arguments -/
def lastNorm (n : String) (args : List T) : T :=
  match args with
  | [] => .node "PathSegment" [] [.node "Ident" [n] [], .node "PathArguments::None" [] []]
  | _ => .node "PathSegment" [] [.node "Ident" [n] [],
      .node "PathArguments::AngleBracketed" [] [.node "Ign" [] [], .node "List" [] args]]

/-- … or, for a parenthesized argument list (`Fn(A) -> B`), from the identifier and the argument node (kept as it is) -/
def lastNormK (n : String) (args : List T) (paren : Option T) : T :=
  match paren with
  | some x => .node "PathSegment" [] [.node "Ident" [n] [], x]
  | none => lastNorm n args

theorem segIdent_some_inv {s : T} {n : String} (h : segIdent s = some n) :
    ∃ x, s = .node "PathSegment" [] [.node "Ident" [n] [], x] := by
  unfold segIdent at h
  split at h
  · cases h; exact ⟨_, rfl⟩
  · cases h

/-- the normalised trait path of a well-formed path is a function of its leading colon and its dispatch key -/
theorem normTr_wf {p : T} (hp : wfPath p = true) :
    ∃ n, lastIdent p = some n ∧
      normTr p = mkPath (lcOf p) ((initSegs p).map normSeg ++
        [lastNormK n (nonAssoc (lastArgs p)) (lastParen p)]) := by
  obtain ⟨l, hl, hg⟩ := wfPath_last hp
  have hne : pathSegments p ≠ [] := by
    intro e; unfold lastSeg at hl; rw [e] at hl; cases hl
  obtain ⟨lc, segs, rfl⟩ := pathSegments_ne_nil_inv hne
  have hsegs : segs = initSegs (mkPath lc segs) ++ [l] := by
    have := reverse_eq_cons (rev_of_lastSeg hl)
    rw [pathSegments_mkPath] at this
    simpa using this
  have hid : (segIdent l).isSome = true := by
    unfold wfPath at hp
    simp only [Bool.and_eq_true, List.all_eq_true, pathSegments_mkPath] at hp
    exact hp.2 l (by rw [hsegs]; simp)
  obtain ⟨n, hn⟩ := Option.isSome_iff_exists.1 hid
  obtain ⟨x, rfl⟩ := segIdent_some_inv hn
  refine ⟨n, by simp [lastIdent, hl, hn], ?_⟩
  generalize hi : initSegs (mkPath lc segs) = i at hsegs
  have hlc : lcOf (mkPath lc segs) = lc := rfl
  rw [hlc]
  cases hs : segArgs (.node "PathSegment" [] [.node "Ident" [n] [], x]) with
  | none =>
    have hx : x = .node "PathArguments::None" [] [] := by
      unfold segArgs at hs
      split at hs <;> first | cases hs | skip
      next h => injection h with _ _ h; injection h with _ h; injection h with h _
    subst hx
    have hstrip : stripBindings (mkPath lc segs) = mkPath lc segs := by
      rcases stripBindings_cases (mkPath lc segs) with ⟨lc', i', id, c2, args, he⟩ | ⟨he, _⟩
      · exfalso
        have h1 := lastSeg_mkPath lc' i' (angleSeg id c2 args)
        rw [← he, hl] at h1
        injection h1 with h1
        rw [h1, segArgs_angleSeg] at hs
        cases hs
      · exact he
    rw [normTr_of_strip hstrip]
    have hla : lastArgs (mkPath lc segs) = [] := by simp [lastArgs, hl, hs]
    have hlp : lastParen (mkPath lc segs) = none := by simp [lastParen, hl, hs]
    rw [hla, hlp, hsegs]
    simp [nonAssoc, lastNorm, lastNormK, normSeg]
  | angle args =>
    have hx : ∃ c2, x = .node "PathArguments::AngleBracketed" [] [c2, .node "List" [] args] := by
      obtain ⟨id, c2, he⟩ := segArgs_angle_inv hs
      unfold angleSeg at he
      injection he with _ _ he; injection he with _ he; injection he with he _
      exact ⟨c2, he⟩
    obtain ⟨c2, rfl⟩ := hx
    have hstrip : stripBindings (mkPath lc segs) =
        mkPath lc (i ++ [angleSeg (.node "Ident" [n] []) c2 (nonAssoc args)]) := by
      rw [hsegs]; exact stripBindings_angle lc i _ c2 args
    rw [normTr_of_strip hstrip]
    have hla : lastArgs (mkPath lc segs) = args := by simp [lastArgs, hl, hs]
    have hlp : lastParen (mkPath lc segs) = none := by simp [lastParen, hl, hs]
    rw [hla, hlp]
    simp only [List.map_append, List.map_cons, List.map_nil, lastNormK]
    congr 3
    cases nonAssoc args with
    | nil => rfl
    | cons a as => rfl
  | paren y =>
    obtain ⟨id, as, ks, he, hy⟩ := segArgs_paren_inv hs
    have hx : x = .node "PathArguments::Parenthesized" as ks := by
      injection he with _ _ he; injection he with _ he; injection he with he _
    subst hx
    have hstrip : stripBindings (mkPath lc segs) = mkPath lc segs := by
      rcases stripBindings_cases (mkPath lc segs) with ⟨lc', i', id, c2, args, he⟩ | ⟨he, _⟩
      · exfalso
        have h1 := lastSeg_mkPath lc' i' (angleSeg id c2 args)
        rw [← he, hl] at h1
        injection h1 with h1
        rw [h1, segArgs_angleSeg] at hs
        cases hs
      · exact he
    rw [normTr_of_strip hstrip]
    have hla : lastArgs (mkPath lc segs) = [] := by simp [lastArgs, hl, hs]
    have hlp : lastParen (mkPath lc segs) = some y := by simp [lastParen, hl, hs]
    rw [hla, hlp, hsegs, hy]
    simp [lastNormK, normSeg]
  | bad => rw [hs] at hg; cases hg

theorem normTr_eq_of_sameKey {p q : T} (hp : wfPath p = true) (hq : wfPath q = true)
    (hk : keyOf p = keyOf q) (hlc : lcOf p = lcOf q) : normTr p = normTr q := by
  obtain ⟨n, hn, e1⟩ := normTr_wf hp
  obtain ⟨m, hm, e2⟩ := normTr_wf hq
  rw [keyOf_eq hp, keyOf_eq hq, Option.some.injEq] at hk
  simp only [keyOf', TraitKey.mk.injEq] at hk
  have : n = m := by
    have := hk.2.1; rw [hn, hm] at this; exact Option.some.inj this
  subst this
  rw [e1, e2, hlc, hk.1, hk.2.2.1, hk.2.2.2]

/-! ### The abstraction of a model group -/

/-- the member of a family as `Bounds.mkMember` builds it, from the model block and its row of payloads -/
def memberOfGroup (gid : T) (b : Blk) (row : List (Option T)) : Member :=
  let blk := mkBlock b.item
  let θ := match sup gid blk.hdr with
    | .yes σ _ => σ
    | _ => []
  ⟨blk, θ, row⟩

theorem memberOfGroup_eq_mkMember (gid : T) (b : Blk) (row : T) :
    memberOfGroup gid b (decodeRow row) = mkMember gid row b.item := rfl

/-- the abstraction of a model group `(header, keys with rows, members)` into a `Family` (compare `Bounds.mkFamily`,
    which does the same from the wire representation): header, one key per (bound key, associated type) pair of
    `ABG.idents` with the trait path normalised, one member per block with its row of `ABG.payloads` -/
def familyOfGroup (sizedParams : List String) (e : T × ABG × List Blk) : Family :=
  { hdr := e.1
    keys := e.2.1.idents.map (fun kx => ⟨kx.1.1, normTr kx.1.2, kx.2⟩)
    sizedParams := sizedParams
    members := (List.zip e.2.2 e.2.1.payloads).map (fun bp => memberOfGroup e.1 bp.1 bp.2) }

/-! #### … is `Bounds.mkFamily` on the wire encoding of the group -/

/-- the wire encoding of the keys: `List [Tuple [Bounded [b], TraitBound [p], Ident [a]] …]` -/
def encKeys (idents : List (BKey × String)) : T :=
  .node "List" [] (idents.map (fun kx =>
    .node "Tuple" [] [.node "Bounded" [] [kx.1.1], .node "TraitBound" [] [kx.1.2], .node "Ident" [kx.2] []]))

/-- the wire encoding of one row of payloads: `List [Some [p] | None …]` -/
def encRow (ps : List (Option T)) : T :=
  .node "List" [] (ps.map (fun o => match o with
    | some p => .node "Some" [] [p]
    | none => .node "None" [] []))

def encRows (pss : List (List (Option T))) : T := .node "List" [] (pss.map encRow)

theorem decodeRow_encRow (ps : List (Option T)) : decodeRow (encRow ps) = ps := by
  unfold decodeRow encRow
  simp only [List.map_map]
  conv => rhs; rw [← List.map_id ps]
  apply List.map_congr_left
  intro o _
  cases o <;> rfl

theorem zip_map_swap {α β γ δ : Type} (f : β → γ) (F : γ × α → δ) : ∀ (l1 : List α) (l2 : List β),
    (List.zip (l2.map f) l1).map F = (List.zip l1 l2).map (fun p => F (f p.2, p.1))
  | [], l2 => by simp
  | _ :: _, [] => by simp
  | a :: l1, b :: l2 => by simp [zip_map_swap f F l1 l2]

theorem zip_members_enc (gid : T) : ∀ (ms : List Blk) (pss : List (List (Option T))),
    (List.zip (ms.map (·.item)) pss).map (fun p => mkMember gid (encRow p.2) p.1) =
      (List.zip ms pss).map (fun bp => memberOfGroup gid bp.1 bp.2)
  | [], _ => by simp
  | _ :: _, [] => by simp
  | b :: ms, ps :: pss => by
      simp only [List.map_cons, List.zip_cons_cons, List.cons.injEq]
      refine ⟨?_, zip_members_enc gid ms pss⟩
      rw [← memberOfGroup_eq_mkMember, decodeRow_encRow]

/-- the abstraction of a model group is what `Bounds.mkFamily` (used by the driver's `family` command on the
    implementation's real grouping) computes from the wire encoding of the same group; the `Sized` parameters are
    those of the main impl handed to `mkFamily` -/
theorem familyOfGroup_eq_mkFamily (e : T × ABG × List Blk) (mainImpl : T) :
    mkFamily e.1 (encKeys e.2.1.idents) (encRows e.2.1.payloads) mainImpl (e.2.2.map (·.item)) =
      familyOfGroup (match mainImpl with
        | .node "Some" [] [item] => mkBlock item
        | _ => ⟨.node "?" [] [], [], []⟩).sizedParams e := by
  unfold mkFamily familyOfGroup encKeys encRows
  simp only [List.filterMap_map]
  congr 1
  · induction e.2.1.idents with
    | nil => rfl
    | cons kx rest ih => simp only [List.filterMap_cons, Function.comp, decodeKey, List.map_cons, ih]
  · rw [zip_map_swap encRow (fun rm => mkMember e.1 rm.1 rm.2)]
    exact zip_members_enc e.1 e.2.2 e.2.1.payloads

/-- the header matches itself with identity bindings only and without any lenient arm -/
def selfClean (gid : T) : Bool := match sup gid gid with | .yes σ l => allIdentity σ && !l | _ => false

theorem selfClean_spec {gid : T} (h : selfClean gid = true) : ∃ σ, sup gid gid = .yes σ false ∧ allIdentity σ = true := by
  unfold selfClean at h
  split at h
  · next σ l hs =>
    simp only [Bool.and_eq_true, Bool.not_eq_true'] at h
    rw [h.2] at hs
    exact ⟨σ, hs, h.1⟩
  · cases h

theorem selfIdentity_spec {gid : T} (h : selfIdentity gid = true) :
    ∃ σ l, sup gid gid = .yes σ l ∧ allIdentity σ = true := by
  unfold selfIdentity at h
  split at h
  · next σ l hs => exact ⟨σ, l, hs, h⟩
  · cases h

/-- executable side condition of the flat end-to-end theorem on one group: the header matches itself with identity
    bindings only (`selfIdentity`, as in C03); every
    dispatch key has a well-formed trait path; and every trait bound of every member that has the same dispatch key
    as a key of the family is well-formed, agrees with it on the leading `::` (which `normTr` keeps and `TraitBound::eq`
    ignores) and is not a relaxed (`?Trait`) bound (those are no clauses of the block) -/
def flatGroupOK (e : T × ABG × List Blk) : Bool :=
  selfIdentity e.1 &&
  e.2.1.bounds.all (fun kr => wfPath kr.1.2 && e.2.2.all (fun b => b.raw.all (fun rb =>
    !sameKey (rb.bounded, rb.tr) kr.1 || (wfPath rb.tr && lcOf rb.tr == lcOf kr.1.2 && !rb.maybe))))

/-- executable side condition for `thetaCoversB`: the header matches itself without any lenient arm (`selfClean`) and
    is well-formed for the matcher (`wf`, C09), every
    parameter occurrence of the header and of the keys is one the matcher sees in the header (`params`), and no
    expression parameter sits in a type-argument position -/
def hdrCoversB (F : Family) : Bool :=
  selfClean F.hdr && wf F.hdr && kindOK [] F.hdr && (allParams F.hdr).all (fun n => (params F.hdr).contains n) &&
  F.keys.all (fun k => kindOK [] k.bounded && kindOK [] k.tr &&
    (allParams k.bounded).all (fun n => (params F.hdr).contains n) &&
    (allParams k.tr).all (fun n => (params F.hdr).contains n))

theorem memberOfGroup_flat {gid : T} {b : Blk} {ps : List (Option T)} {σ : Subst} {l : Bool}
    (hgid : groupIdOf b.item = gid) (hs : sup gid gid = .yes σ l) :
    memberOfGroup gid b ps = ⟨mkBlock b.item, σ, ps⟩ := by
  have hh : (mkBlock b.item).hdr = gid := hgid
  unfold memberOfGroup
  simp only [hh, hs]

theorem reexpr_flat {env : Env} (hns : ∀ id, env.subsets.get id = []) {gid : T} {b : Blk} {σ : Subst} {l : Bool}
    (hgid : groupIdOf b.item = gid) (hs : sup gid gid = .yes σ l) (hσ : allIdentity σ = true) (i : Nat) (k' : BKey) :
    reexpr env gid i b k' = [k'] := by
  unfold reexpr
  split
  · rfl
  · unfold memberSubst
    rw [hns, hgid]
    simp only [List.find?_nil, beq_self_eq_true, if_true, hs]
    exact substituteBound_identity σ hσ k'.1 k'.2

/-- without nested headers every member has the family's own header -/
theorem rowsOwn_flat_header {env : Env} (hns : ∀ id, env.subsets.get id = []) {e : T × ABG × List Blk}
    (hown : RowsOwn env e) {i : Nat} {b : Blk} (hb : e.2.2[i]? = some b) : groupIdOf b.item = e.1 := by
  have := hown.2.1 i b hb
  split at this
  · exact this
  · unfold memberSubst at this
    rw [hns] at this
    simp only [List.find?_nil] at this
    split at this
    · next hc => exact (eq_of_beq hc).symm
    · cases this

theorem payloads_length_e2e {g : ABG} {ps : List (Option T)} (h : ps ∈ g.payloads) : ps.length = g.idents.length := by
  unfold ABG.payloads at h
  split at h
  · cases h
  · obtain ⟨i, _, rfl⟩ := List.mem_map.1 h
    simp

theorem flatGroupOK_spec {e : T × ABG × List Blk} (h : flatGroupOK e = true) :
    selfIdentity e.1 = true ∧ ∀ kr ∈ e.2.1.bounds, wfPath kr.1.2 = true ∧ ∀ b ∈ e.2.2, ∀ rb ∈ b.raw,
      sameKey (rb.bounded, rb.tr) kr.1 = true → wfPath rb.tr = true ∧ lcOf rb.tr = lcOf kr.1.2 ∧ rb.maybe = false := by
  unfold flatGroupOK at h
  simp only [Bool.and_eq_true, List.all_eq_true] at h
  refine ⟨h.1, fun kr hkr => ⟨(h.2 kr hkr).1, fun b hb rb hrb hs => ?_⟩⟩
  have := (h.2 kr hkr).2 b hb rb hrb
  rw [hs] at this
  simp only [Bool.not_true, Bool.false_or, Bool.and_eq_true, beq_iff_eq, Bool.not_eq_true'] at this
  exact ⟨this.1.1, this.1.2, this.2⟩

/-! ### `flatGroupOK` from a check on the input alone -/

/-- executable side condition on the INPUT: every header matches itself with identity bindings only, and for any two
    blocks with the same header, a trait bound `rb` of one that has the same dispatch key as a trait bound `rb'` of the
    other that carries bindings (so the key may be dispatched on) is not relaxed, both trait paths are well-formed and
    they agree on the leading `::` -/
def flatInputOK (items : List T) : Bool :=
  let bs := items.map mkBlk
  bs.all (fun b => selfIdentity (groupIdOf b.item) && bs.all (fun b' =>
    groupIdOf b.item != groupIdOf b'.item || b.raw.all (fun rb => b'.raw.all (fun rb' =>
      !sameKey (rb.bounded, rb.tr) (rb'.bounded, rb'.tr) || rb'.binds.isEmpty ||
        (wfPath rb.tr && wfPath rb'.tr && lcOf rb.tr == lcOf rb'.tr && !rb.maybe)))))

theorem flatInputOK_spec {items : List T} (h : flatInputOK items = true) :
    ∀ b ∈ items.map mkBlk, selfIdentity (groupIdOf b.item) = true ∧ ∀ b' ∈ items.map mkBlk,
      groupIdOf b.item = groupIdOf b'.item → ∀ rb ∈ b.raw, ∀ rb' ∈ b'.raw,
        sameKey (rb.bounded, rb.tr) (rb'.bounded, rb'.tr) = true → rb'.binds ≠ [] →
          wfPath rb.tr = true ∧ wfPath rb'.tr = true ∧ lcOf rb.tr = lcOf rb'.tr ∧ rb.maybe = false := by
  unfold flatInputOK at h
  simp only [List.all_eq_true, Bool.and_eq_true] at h
  intro b hb
  refine ⟨(h b hb).1, fun b' hb' hid rb hrb rb' hrb' hs hne => ?_⟩
  have := (h b hb).2 b' hb'
  rw [hid] at this
  simp only [bne_self_eq_false, Bool.false_or, List.all_eq_true] at this
  have := this rb hrb rb' hrb'
  rw [hs] at this
  have hemp : rb'.binds.isEmpty = false := by
    cases hbb : rb'.binds with
    | nil => exact absurd hbb hne
    | cons _ _ => rfl
  rw [hemp] at this
  simp only [Bool.not_true, Bool.false_or, Bool.and_eq_true, beq_iff_eq, Bool.not_eq_true'] at this
  exact ⟨this.1.1.1, this.1.1.2, this.1.2, this.2⟩

/-- for an accepted un-nested invocation the check on the input implies the check on every group -/
theorem flatGroupOK_of_input {items : List T} {groups : Groups} (h : parseGroups items = .ok groups)
    (hns : ∀ id, (parseEnv items).subsets.get id = []) (hin : flatInputOK items = true)
    {e : T × ABG × List Blk} (he : e ∈ groups) : flatGroupOK e = true := by
  have hown := parseGroups_rowsOwn h he
  have hspec := flatInputOK_spec hin
  have hmemin := parseGroups_member_input h he
  -- the founding member gives the header's self-match
  obtain ⟨b0, ms0, hms0⟩ : ∃ b0 ms0, e.2.2 = b0 :: ms0 := by
    cases hm : e.2.2 with
    | nil => exact absurd hm hown.1
    | cons b0 ms0 => exact ⟨b0, ms0, rfl⟩
  have hb0 : e.2.2[0]? = some b0 := by rw [hms0]; rfl
  have hgid0 : groupIdOf b0.item = e.1 := rowsOwn_flat_header hns hown hb0
  have hself : selfIdentity e.1 = true := by
    rw [← hgid0]; exact (hspec b0 (hmemin b0 (List.mem_of_getElem? hb0))).1
  obtain ⟨σ, l, hs, hσ⟩ := selfIdentity_spec hself
  unfold flatGroupOK
  simp only [Bool.and_eq_true, List.all_eq_true]
  refine ⟨hself, fun kr hkr => ?_⟩
  -- some member has a binding under this key (the key survived pruning) …
  have hbind : ∃ b1 ∈ e.2.2, ∃ rb1 ∈ b1.raw, rb1.binds ≠ [] ∧ sameKey (rb1.bounded, rb1.tr) kr.1 = true := by
    obtain ⟨e0, _, hee, _, _⟩ := parseGroups_group' h he (rowsAligned_inv _)
    have hkr' := hkr
    rw [hee] at hkr'
    simp only [ABG.prune, List.mem_filter, List.any_eq_true, Bool.not_eq_true', List.isEmpty_eq_false_iff] at hkr'
    obtain ⟨_, r, hr, hrne⟩ := hkr'
    obtain ⟨i, hi, hri⟩ := List.mem_iff_getElem.1 hr
    obtain ⟨hlen, hrows, _⟩ := hown.2.2 kr hkr
    have hi' : i < e.2.2.length := by rw [← hlen]; exact hi
    obtain ⟨k', hk', sk, hsk, hsame⟩ := hrows i e.2.2[i] r (List.getElem?_eq_getElem hi')
      (by rw [List.getElem?_eq_getElem hi, hri])
    have hgid : groupIdOf (e.2.2[i]).item = e.1 := rowsOwn_flat_header hns hown (List.getElem?_eq_getElem hi')
    rw [reexpr_flat hns hgid hs hσ, List.mem_singleton] at hsk
    subst hsk
    cases r with
    | nil => exact absurd rfl hrne
    | cons ap rest =>
      obtain ⟨a, p⟩ := ap
      obtain ⟨rb1, hrb1, hap, hs1⟩ := (otherFold_spec _ (sk, (a, p) :: rest) hk').2 a p (by simp [rowLookup])
      have hne : rb1.binds ≠ [] := by
        intro hnil; rw [hnil] at hap; cases hap
      exact ⟨e.2.2[i], List.getElem_mem hi', rb1, hrb1, hne, sameKey_trans hs1 hsame⟩
  obtain ⟨b1, hb1, rb1, hrb1, hne1, hs1⟩ := hbind
  have hhdr : ∀ b ∈ e.2.2, groupIdOf b.item = e.1 := by
    intro b hb
    obtain ⟨i, hi, hbi⟩ := List.mem_iff_getElem.1 hb
    exact rowsOwn_flat_header hns hown (by rw [List.getElem?_eq_getElem hi, hbi])
  -- … and the stored key is a bound of some member
  obtain ⟨_, _, iS, bS, kS, rS, hbS, hkS, hkrS⟩ := hown.2.2 kr hkr
  have hbSm : bS ∈ e.2.2 := List.mem_of_getElem? hbS
  rw [reexpr_flat hns (hhdr bS hbSm) hs hσ, List.mem_singleton] at hkrS
  obtain ⟨rbS, hrbS, hkSeq⟩ := (otherFold_spec _ (kS, rS) hkS).1
  simp only at hkSeq
  have hkr1 : kr.1 = (rbS.bounded, rbS.tr) := hkrS.trans hkSeq
  have pairS := (hspec bS (hmemin bS hbSm)).2 b1 (hmemin b1 hb1) ((hhdr bS hbSm).trans (hhdr b1 hb1).symm)
    rbS hrbS rb1 hrb1 (by rw [← hkr1]; exact sameKey_symm hs1) hne1
  refine ⟨by rw [hkr1]; exact pairS.1, fun b hb rb hrb => ?_⟩
  cases hsk : sameKey (rb.bounded, rb.tr) kr.1 with
  | false => rfl
  | true =>
    have pair := (hspec b (hmemin b hb)).2 b1 (hmemin b1 hb1) ((hhdr b hb).trans (hhdr b1 hb1).symm)
      rb hrb rb1 hrb1 (sameKey_trans hsk (sameKey_symm hs1)) hne1
    simp only [Bool.not_true, Bool.false_or, Bool.and_eq_true, beq_iff_eq, Bool.not_eq_true']
    refine ⟨⟨pair.1, ?_⟩, pair.2.2.2⟩
    rw [hkr1]
    exact pair.2.2.1.trans pairS.2.2.1.symm

/-- members of the abstraction, by index -/
theorem familyOfGroup_member {sp : List String} {e : T × ABG × List Blk} {m : Member}
    (hm : m ∈ (familyOfGroup sp e).members) :
    ∃ (i : Nat) (b : Blk) (ps : List (Option T)), e.2.2[i]? = some b ∧ e.2.1.payloads[i]? = some ps ∧
      m = memberOfGroup e.1 b ps := by
  simp only [familyOfGroup, List.mem_map] at hm
  obtain ⟨⟨b, ps⟩, hbp, rfl⟩ := hm
  obtain ⟨i, hi⟩ := List.mem_iff_getElem?.1 hbp
  rw [List.getElem?_zip_eq_some] at hi
  exact ⟨i, b, ps, hi.1, hi.2, rfl⟩

/-- FLAT END-TO-END, `memberOK`: in an accepted grouping of an invocation without nested headers, every member of
    the abstraction of a group that passes `flatGroupOK` satisfies the hypothesis `memberOK` of the refinement -/
theorem flat_memberOK {items : List T} {groups : Groups} (h : parseGroups items = .ok groups)
    (hns : ∀ id, (parseEnv items).subsets.get id = []) (sp : List String) {e : T × ABG × List Blk}
    (he : e ∈ groups) (hok : flatGroupOK e = true) :
    ∀ m ∈ (familyOfGroup sp e).members, memberOK (familyOfGroup sp e) m = true := by
  intro m hm
  have hown := parseGroups_rowsOwn h he
  obtain ⟨hself, hkeys⟩ := flatGroupOK_spec hok
  obtain ⟨σ, l, hs, hσ⟩ := selfIdentity_spec hself
  obtain ⟨i, b, ps, hb, hp, rfl⟩ := familyOfGroup_member hm
  have hgid : groupIdOf b.item = e.1 := rowsOwn_flat_header hns hown hb
  have hbmem : b ∈ e.2.2 := List.mem_of_getElem? hb
  have hcan : b.canonical := mem_map_mkBlk_canonical (parseGroups_member_input h he b hbmem)
  rw [memberOfGroup_flat hgid hs]
  unfold memberOK
  simp only [Bool.and_eq_true, beq_iff_eq, List.all_eq_true]
  refine ⟨⟨?_, ?_⟩, ?_⟩
  · -- the header
    show inst σ e.1 = (mkBlock b.item).hdr
    rw [inst_identity hσ]; exact hgid.symm
  · -- one payload per key
    show ps.length = (e.2.1.idents.map _).length
    rw [List.length_map]
    exact payloads_length_e2e (List.mem_of_getElem? hp)
  · -- every payload is backed by a clause of the block
    intro kr hkr
    obtain ⟨j, hj⟩ := List.mem_iff_getElem?.1 hkr
    rw [List.getElem?_zip_eq_some] at hj
    obtain ⟨hkj, hpj⟩ := hj
    simp only [familyOfGroup, List.getElem?_map, Option.map_eq_some_iff] at hkj
    obtain ⟨⟨k, a⟩, hx, hkr1⟩ := hkj
    obtain ⟨entry, hent, hcase⟩ := rowsOwn_payload hown hp hx hb
    rw [hpj] at hent
    have hent' : kr.2 = entry := Option.some.inj hent
    obtain ⟨rows, hrows⟩ := idents_mem (List.mem_of_getElem? hx)
    obtain ⟨hwk, hmembers⟩ := hkeys (k, rows) hrows
    simp only at hwk hmembers
    rcases hcase with ⟨hnone, _⟩ | ⟨k', r, hk', ⟨sk, hsk, hsame⟩, hentry⟩
    · rw [keyOf_eq hwk] at hnone; cases hnone
    · rw [reexpr_flat hns hgid hs hσ, List.mem_singleton] at hsk
      subst hsk
      -- a bound of the block with this dispatch key, carrying the binding if there is one
      have hrb : ∃ rb ∈ b.raw, sameKey (rb.bounded, rb.tr) k = true ∧ ∀ p, entry = some p → (a, p) ∈ rb.binds := by
        obtain ⟨⟨rb0, hrb0, hk0⟩, hbinds⟩ := otherFold_spec b (sk, r) hk'
        cases hentry' : entry with
        | none => exact ⟨rb0, hrb0, by rw [← hk0]; exact hsame, fun p hp => by cases hp⟩
        | some p =>
          obtain ⟨rb, hrb, hap, hs1⟩ := hbinds a p (by rw [← hentry, hentry'])
          exact ⟨rb, hrb, sameKey_trans hs1 hsame, fun p' hp' => by cases hp'; exact hap⟩
      obtain ⟨rb, hrb, hrk, hbind⟩ := hrb
      obtain ⟨hwrb, hlc, hmaybe⟩ := hmembers b hbmem rb hrb hrk
      have hkk : rb.bounded = k.1 ∧ keyOf rb.tr = keyOf k.2 := by
        simpa [sameKey] using hrk
      unfold clauseFor
      rw [List.any_eq_true]
      refine ⟨⟨rb.bounded, normTr rb.tr, rb.binds⟩, ?_, ?_⟩
      · show _ ∈ (mkBlock b.item).clauses
        rw [mkBlock_clauses hcan]
        exact List.mem_map.2 ⟨rb, List.mem_filter.2 ⟨hrb, by simp [hmaybe]⟩, rfl⟩
      · simp only [Bool.and_eq_true, beq_iff_eq]
        rw [← hkr1]
        simp only [inst_identity hσ]
        refine ⟨⟨hkk.1, normTr_eq_of_sameKey hwrb hwk hkk.2 hlc⟩, ?_⟩
        rw [hent']
        cases hentry' : entry with
        | none => rfl
        | some p =>
          simp only [List.contains_iff_mem]
          exact hbind p hentry'

/-- FLAT END-TO-END, `thetaCoversB`: … and the hypothesis `ThetaCovers`, when the header and the keys pass
    `hdrCoversB` -/
theorem flat_thetaCovers {items : List T} {groups : Groups} (h : parseGroups items = .ok groups)
    (hns : ∀ id, (parseEnv items).subsets.get id = []) (sp : List String) {e : T × ABG × List Blk}
    (he : e ∈ groups) (hcov : hdrCoversB (familyOfGroup sp e) = true) :
    ∀ m ∈ (familyOfGroup sp e).members, thetaCoversB (familyOfGroup sp e) m = true := by
  intro m hm
  have hown := parseGroups_rowsOwn h he
  unfold hdrCoversB at hcov
  simp only [Bool.and_eq_true, List.all_eq_true, List.contains_iff_mem] at hcov
  obtain ⟨⟨⟨⟨hclean, hwf⟩, hk0⟩, hp0⟩, hkeys⟩ := hcov
  obtain ⟨σ, hs, hσ⟩ := selfClean_spec hclean
  obtain ⟨i, b, ps, hb, hp, rfl⟩ := familyOfGroup_member hm
  have hgid : groupIdOf b.item = e.1 := rowsOwn_flat_header hns hown hb
  rw [memberOfGroup_flat hgid hs]
  have hbinds : ∀ n ∈ params e.1, (lookup σ n).isSome = true :=
    (supS_good e.1 (stripTop e.1) σ hwf hs).1
  unfold thetaCoversB boundAll
  simp only [Bool.and_eq_true, List.all_eq_true, kindOK_identity hσ]
  refine ⟨⟨hk0, fun n hn => hbinds n (hp0 n hn)⟩, fun k hk => ?_⟩
  obtain ⟨⟨⟨h1, h2⟩, h3⟩, h4⟩ := hkeys k hk
  exact ⟨⟨⟨h1, h2⟩, fun n hn => hbinds n (h3 n hn)⟩, fun n hn => hbinds n (h4 n hn)⟩

theorem payloads_len {g : ABG} {n : Nat} (hne : g.bounds ≠ []) (hlen : ∀ kr ∈ g.bounds, kr.2.length = n) :
    g.payloads.length = n := by
  unfold ABG.payloads
  split
  · next hb => exact absurd hb hne
  · next first rest hb =>
    simp only [List.length_map, List.length_range]
    exact hlen first (by rw [hb]; simp)

/-- every member block of a family of an accepted grouping is a member of its abstraction -/
theorem familyOfGroup_has_member {items : List T} {groups : Groups} (h : parseGroups items = .ok groups)
    (sp : List String) {e : T × ABG × List Blk} (he : e ∈ groups) {b : Blk} (hb : b ∈ e.2.2) :
    ∃ m ∈ (familyOfGroup sp e).members, m.blk = mkBlock b.item := by
  have hown := parseGroups_rowsOwn h he
  obtain ⟨_, _, _, hne, _⟩ := parseGroups_group' h he (rowsAligned_inv _)
  have hpl : e.2.1.payloads.length = e.2.2.length := payloads_len hne (fun kr hkr => (hown.2.2 kr hkr).1)
  obtain ⟨i, hi, hbi⟩ := List.mem_iff_getElem.1 hb
  have hi' : i < e.2.1.payloads.length := by rw [hpl]; exact hi
  refine ⟨memberOfGroup e.1 b e.2.1.payloads[i], ?_, rfl⟩
  simp only [familyOfGroup, List.mem_map]
  refine ⟨(b, e.2.1.payloads[i]), ?_, rfl⟩
  rw [List.mem_iff_getElem?]
  refine ⟨i, ?_⟩
  rw [List.getElem?_zip_eq_some]
  exact ⟨by rw [List.getElem?_eq_getElem hi, hbi], List.getElem?_eq_getElem hi'⟩

/-! ### Every input block is in a bucket -/

theorem bucketStep_keeps {whole : List Blk} (hinj : ∀ x ∈ whole, ∀ y ∈ whole, x.item = y.item → x = y)
    {acc : List (T × List Blk)} {b : Blk} (hb : b ∈ whole) (hsub : ∀ bk ∈ acc, ∀ x ∈ bk.2, x ∈ whole) :
    (∀ bk ∈ acc, ∀ x ∈ bk.2, ∃ bk' ∈ bucketStep acc b, x ∈ bk'.2) ∧ ∃ bk' ∈ bucketStep acc b, b ∈ bk'.2 := by
  unfold bucketStep
  dsimp only
  split
  · next e0 hf =>
    have he0 : e0 ∈ acc := List.mem_of_find?_eq_some hf
    have hid0 : (e0.1 == groupIdOf b.item) = true := by simpa using List.find?_some hf
    constructor
    · intro bk hbk x hx
      refine ⟨_, List.mem_map.2 ⟨bk, hbk, rfl⟩, ?_⟩
      split
      · dsimp only
        split
        · refine List.mem_map.2 ⟨x, hx, ?_⟩
          split
          · next hxi =>
            exact (hinj x (hsub bk hbk x hx) b hb (eq_of_beq hxi)).symm
          · rfl
        · exact List.mem_append_left _ hx
      · exact hx
    · refine ⟨_, List.mem_map.2 ⟨e0, he0, rfl⟩, ?_⟩
      rw [if_pos hid0]
      dsimp only
      split
      · next hany =>
        obtain ⟨x, hx, hxi⟩ := List.any_eq_true.1 hany
        exact List.mem_map.2 ⟨x, hx, by rw [if_pos hxi]⟩
      · exact List.mem_append_right _ (by simp)
  · constructor
    · intro bk hbk x hx
      exact ⟨bk, List.mem_append_left _ hbk, hx⟩
    · exact ⟨(groupIdOf b.item, [b]), List.mem_append_right _ (by simp), by simp⟩

theorem foldl_bucketStep_holds {whole : List Blk} (hinj : ∀ x ∈ whole, ∀ y ∈ whole, x.item = y.item → x = y) :
    ∀ (bs : List Blk) (acc : List (T × List Blk)), (∀ b ∈ bs, b ∈ whole) → (∀ bk ∈ acc, ∀ x ∈ bk.2, x ∈ whole) →
      (∀ bk ∈ acc, ∀ x ∈ bk.2, ∃ bk' ∈ bs.foldl bucketStep acc, x ∈ bk'.2) ∧
      ∀ b ∈ bs, ∃ bk' ∈ bs.foldl bucketStep acc, b ∈ bk'.2
  | [], acc, _, _ => ⟨fun bk hbk x hx => ⟨bk, hbk, hx⟩, fun b hb => by cases hb⟩
  | b :: bs, acc, hbs, hsub => by
      rw [List.foldl_cons]
      have hb : b ∈ whole := hbs b (by simp)
      obtain ⟨k1, k2⟩ := bucketStep_keeps hinj hb hsub
      have hsub' : ∀ bk ∈ bucketStep acc b, ∀ x ∈ bk.2, x ∈ whole :=
        bucketStep_all (fun x => x ∈ whole) acc b hb hsub
      obtain ⟨r1, r2⟩ := foldl_bucketStep_holds hinj bs (bucketStep acc b)
        (fun x hx => hbs x (List.mem_cons_of_mem _ hx)) hsub'
      constructor
      · intro bk hbk x hx
        obtain ⟨bk', hbk', hx'⟩ := k1 bk hbk x hx
        exact r1 bk' hbk' x hx'
      · intro x hx
        rcases List.mem_cons.1 hx with rfl | hx
        · obtain ⟨bk', hbk', hx'⟩ := k2
          exact r1 bk' hbk' _ hx'
        · exact r2 x hx

/-- every input block is in some bucket (a textually identical later block replaces the earlier one, but blocks made
    by `mkBlk` with the same text are the same block) -/
theorem mkBuckets_holds_input (items : List T) : ∀ b ∈ items.map mkBlk, ∃ bk ∈ mkBuckets (items.map mkBlk), b ∈ bk.2 := by
  have hinj : ∀ x ∈ items.map mkBlk, ∀ y ∈ items.map mkBlk, x.item = y.item → x = y := by
    intro x hx y hy hxy
    have cx := mem_map_mkBlk_canonical hx
    have cy := mem_map_mkBlk_canonical hy
    unfold Blk.canonical at cx cy
    cases x with | mk xi xr =>
    cases y with | mk yi yr =>
    simp only at hxy cx cy
    subst hxy
    rw [cx, cy]
  rw [mkBuckets_eq]
  exact (foldl_bucketStep_holds hinj (items.map mkBlk) [] (fun b hb => hb) (fun bk hbk => by cases hbk)).2

/-- FLAT END-TO-END, coverage: for an invocation without nested headers whose groups pass the executable checks,
    in every world in which the dispatch traits define their associated types (`WorldTotal`) and the `Sized`
    requirements are compatible (`SizedCompat`, finding D7), the grouping the model computes implements the trait for
    a query exactly when one of the input blocks applies to it (textually identical blocks — finding D12 — are one
    block here, so no distinctness hypothesis is needed) -/
theorem flat_coverage {items : List T} {groups : Groups} (h : parseGroups items = .ok groups)
    (hns : ∀ id, (parseEnv items).subsets.get id = []) (sp : List String)
    (hok : ∀ e ∈ groups, flatGroupOK e = true ∧ hdrCoversB (familyOfGroup sp e) = true)
    (W : World) (hw : ∀ e ∈ groups, WorldTotal W (familyOfGroup sp e))
    (hsz : ∀ e ∈ groups, ∀ m ∈ (familyOfGroup sp e).members, SizedCompat W (familyOfGroup sp e) m) (q : T) :
    (∃ e ∈ groups, ∃ m ∈ (familyOfGroup sp e).members, genSel W (familyOfGroup sp e) m q) ↔
    (∃ it ∈ items, applies W (mkBlock (canon it)) q) := by
  constructor
  · rintro ⟨e, he, m, hm, hsel⟩
    have happ := gen_sub_spec W _ m q hsel
    obtain ⟨i, b, ps, hb, _, rfl⟩ := familyOfGroup_member hm
    have hin := parseGroups_member_input h he b (List.mem_of_getElem? hb)
    obtain ⟨it, hit, rfl⟩ := List.mem_map.1 hin
    exact ⟨it, hit, happ⟩
  · rintro ⟨it, hit, happ⟩
    have hbin : mkBlk it ∈ items.map mkBlk := List.mem_map.2 ⟨it, hit, rfl⟩
    -- the block is in a bucket …
    obtain ⟨bk, hbk, hbbk⟩ := mkBuckets_holds_input items (mkBlk it) hbin
    -- … hence, by the partition, a member of some family
    have hperm := parseGroups_partition_partial h hns
    have hmem : mkBlk it ∈ groups.flatMap (fun e => e.2.2) :=
      hperm.mem_iff.2 (List.mem_flatMap.2 ⟨bk, hbk, hbbk⟩)
    obtain ⟨e, he, hbe⟩ := List.mem_flatMap.1 hmem
    obtain ⟨m, hm, hblk⟩ := familyOfGroup_has_member h sp he hbe
    refine ⟨e, he, m, hm, ?_⟩
    obtain ⟨ok1, ok2⟩ := hok e he
    refine spec_sub_gen W _ m q (flat_memberOK h hns sp he ok1 m hm) (hw e he)
      ((thetaCoversB_iff _ m).1 (flat_thetaCovers h hns sp he ok2 m hm)) (hsz e he m hm) ?_
    rw [hblk]
    exact happ

/-! ### Executable sufficient check for `applies` (for closed examples) -/

def holdsB (W : World) (ρ : Subst) (c : Clause) : Bool :=
  match W.disp (inst ρ c.tr) (inst ρ c.bounded) with
  | some bs => c.binds.all (fun ap => assoc bs ap.1 == some (inst ρ ap.2))
  | none => false

theorem holds_of_B {W : World} {ρ : Subst} {c : Clause} (h : holdsB W ρ c = true) : holds W ρ c := by
  unfold holdsB at h
  split at h
  · next bs hbs =>
    refine ⟨bs, hbs, fun a p hap => ?_⟩
    rw [List.all_eq_true] at h
    simpa using h (a, p) hap
  · cases h

/-- `ρ` witnesses that block `b` applies to `q` -/
def appliesB (W : World) (ρ : Subst) (b : Block) (q : T) : Bool :=
  wkB ρ b && inst ρ b.hdr == q && b.clauses.all (holdsB W ρ) &&
  b.sizedParams.all (fun p => W.sized (inst ρ (.tparam p)))

theorem applies_of_B {W : World} {ρ : Subst} {b : Block} {q : T} (h : appliesB W ρ b q = true) : applies W b q := by
  unfold appliesB at h
  simp only [Bool.and_eq_true, beq_iff_eq, List.all_eq_true] at h
  exact ⟨ρ, h.1.1.1, h.1.1.2, fun c hc => holds_of_B (h.1.2 c hc), fun p hp => h.2 p hp⟩

end DI
