/-
  From the grouping the model computes (`parseGroups`, Group.lean) to the hypotheses of the refinement theorems
  (`memberOK`, `thetaCoversB`, Sem.lean / Lemmas/Refine.lean), for ARBITRARY accepted invocations — including nested
  headers (`impl<T: D<G = A>> Kita for T` + `impl<T> Kita for Vec<T> where Vec<T>: D<G = B>`).

  The bridge is again `RowsOwn` (Lemmas/RowsOwn.lean): the payload of member `i` under a key `k` of the family is what
  the member's own folded row binds for one of its own keys `k'`, one of whose re-expressions `sk` under the member's
  substitution is (`sameKey`) `k`. For a nested member the substitution is not the identity; what is needed on top of the
  flat case is
  * the substitution `mkMember` computes (`sup gid hdr`) IS the one the search used (`memberSubst`): `memberTheta_eq_nst`;
  * re-expression followed by instantiation is the identity (`C10_bound_roundtrip`, under `untouched` — the D4 condition);
  * `normTr` commutes with `inst` on the re-expressed trait path (`normTr_inst_nst`, under `instCommOK_nst`).
-/
import DisjointImpls.Lemmas.EndToEnd
import DisjointImpls.Lemmas.MatchSound
import DisjointImpls.Lemmas.RevSubLemmas
namespace DI

/-! ### `inst` on the nodes of a trait path -/

theorem inst_node_ne_nst (θ : Subst) {k : String} (as : List String) (ks : List T)
    (hk : k ≠ "GenericArgument::Type") : inst θ (.node k as ks) = .node k as (instL θ ks) := by
  unfold inst
  split
  · exact absurd rfl hk
  · rfl

theorem inst_mkPath_nst (θ : Subst) (lc : T) (segs : List T) :
    inst θ (mkPath lc segs) = mkPath (inst θ lc) (instL θ segs) := by
  unfold mkPath
  rw [inst_node_ne_nst θ _ _ (by decide)]
  simp only [instL]
  rw [inst_node_ne_nst θ _ _ (by decide)]

theorem inst_angleSeg_nst (θ : Subst) (id c2 : T) (args : List T) :
    inst θ (angleSeg id c2 args) = angleSeg (inst θ id) (inst θ c2) (instL θ args) := by
  unfold angleSeg
  rw [inst_node_ne_nst θ _ _ (by decide)]
  simp only [instL]
  rw [inst_node_ne_nst θ _ _ (by decide)]
  simp only [instL]
  rw [inst_node_ne_nst θ _ _ (by decide)]

theorem instL_append_nst (θ : Subst) : ∀ (xs ys : List T), instL θ (xs ++ ys) = instL θ xs ++ instL θ ys
  | [], ys => rfl
  | x :: xs, ys => by simp only [List.cons_append, instL, instL_append_nst θ xs ys]

theorem instL_eq_map_nst (θ : Subst) : ∀ (xs : List T), instL θ xs = xs.map (inst θ)
  | [] => rfl
  | x :: xs => by simp only [instL, List.map_cons, instL_eq_map_nst θ xs]

/-! ### `normTr` commutes with `inst` -/

def isNode_nst : T → Bool
  | .node _ _ _ => true
  | _ => false

/-- executable side condition under which `normTr` commutes with every instantiation: the path is well-formed
    (`wfPath`), EVERY segment has no or angle-bracketed arguments of the shape `syn` produces
    (`PathArguments::None` / `PathArguments::AngleBracketed [_, List args]`), and no generic argument of the last segment
    is a bare parameter occurrence (in a `syn` tree every generic argument is a `GenericArgument::…` node; a bare
    parameter could be instantiated to an associated-type binding, which `normTr` removes) -/
def instCommOK_nst (p : T) : Bool :=
  wfPath p && (pathSegments p).all (fun s => goodArgs (segArgs s)) && (lastArgs p).all isNode_nst

theorem normSeg_none_nst (x : T) :
    normSeg (.node "PathSegment" [] [x, .node "PathArguments::None" [] []]) =
      .node "PathSegment" [] [x, .node "PathArguments::None" [] []] := rfl

theorem normSeg_angle_nil_nst (x c2 : T) :
    normSeg (angleSeg x c2 []) = .node "PathSegment" [] [x, .node "PathArguments::None" [] []] := rfl

theorem normSeg_angle_cons_nst (x c2 a : T) (as : List T) :
    normSeg (angleSeg x c2 (a :: as)) = angleSeg x (.node "Ign" [] []) (a :: as) := rfl

theorem inst_noneSeg_nst (θ : Subst) (x : T) :
    inst θ (.node "PathSegment" [] [x, .node "PathArguments::None" [] []]) =
      .node "PathSegment" [] [inst θ x, .node "PathArguments::None" [] []] := by
  rw [inst_node_ne_nst θ _ _ (by decide)]
  simp only [instL]
  rw [inst_node_ne_nst θ (k := "PathArguments::None") [] [] (by decide)]
  simp only [instL]

theorem inst_normSeg_nst (θ : Subst) {s : T} (h : goodArgs (segArgs s) = true) :
    normSeg (inst θ s) = inst θ (normSeg s) := by
  unfold segArgs at h
  split at h
  · next x =>
    rw [inst_noneSeg_nst, normSeg_none_nst, normSeg_none_nst, inst_noneSeg_nst]
  · next x c2 args =>
    show normSeg (inst θ (angleSeg x c2 args)) = inst θ (normSeg (angleSeg x c2 args))
    rw [inst_angleSeg_nst]
    cases args with
    | nil =>
      simp only [instL]
      rw [normSeg_angle_nil_nst, normSeg_angle_nil_nst, inst_noneSeg_nst]
    | cons a as =>
      simp only [instL]
      rw [normSeg_angle_cons_nst, normSeg_angle_cons_nst, inst_angleSeg_nst]
      simp only [instL]
      rw [inst_node_ne_nst θ (k := "Ign") [] [] (by decide)]
      simp only [instL]
  · cases h
  · cases h

theorem map_normSeg_instL_nst (θ : Subst) : ∀ (segs : List T), (∀ s ∈ segs, goodArgs (segArgs s) = true) →
    (instL θ segs).map normSeg = instL θ (segs.map normSeg)
  | [], _ => rfl
  | s :: segs, h => by
      simp only [instL, List.map_cons]
      rw [inst_normSeg_nst θ (h s (by simp)), map_normSeg_instL_nst θ segs (fun x hx => h x (List.mem_cons_of_mem _ hx))]

theorem isAssocType_node_nst (k : String) (as : List String) (ks : List T) :
    isAssocType (.node k as ks) = (k == "GenericArgument::AssocType") := by
  unfold isAssocType
  split
  · next h => cases h; rfl
  · next hne =>
    symm
    rw [beq_eq_false_iff_ne]
    intro hk
    exact hne as ks (by rw [hk])

theorem isAssocType_inst_nst (θ : Subst) {a : T} (h : isNode_nst a = true) : isAssocType (inst θ a) = isAssocType a := by
  cases a with
  | tparam n => cases h
  | eparam n => cases h
  | node k as ks =>
    cases hg : isGA k as ks with
    | some n =>
      obtain ⟨rfl, rfl, rfl⟩ := isGA_some hg
      have := instGa θ n
      unfold gaNode at this
      rw [this]
      rcases lookup θ n with _ | (t | e | _) <;> rfl
    | none =>
      rw [inst_other θ hg, isAssocType_node_nst, isAssocType_node_nst]

theorem nonAssoc_instL_nst (θ : Subst) : ∀ (args : List T), args.all isNode_nst = true →
    nonAssoc (instL θ args) = instL θ (nonAssoc args)
  | [], _ => rfl
  | a :: args, h => by
      simp only [List.all_cons, Bool.and_eq_true] at h
      have ih := nonAssoc_instL_nst θ args h.2
      unfold nonAssoc at ih ⊢
      simp only [instL, List.filter_cons, isAssocType_inst_nst θ h.1]
      split
      · simp only [instL, ih]
      · exact ih

theorem stripBindings_lastNone_nst {p l : T} (hl : lastSeg p = some l) (hs : segArgs l = .none) : stripBindings p = p := by
  rcases stripBindings_cases p with ⟨lc', i', id, c2, args, he⟩ | ⟨he, _⟩
  · exfalso
    have h1 := lastSeg_mkPath lc' i' (angleSeg id c2 args)
    rw [← he, hl] at h1
    injection h1 with h1
    rw [h1, segArgs_angleSeg] at hs
    cases hs
  · exact he

/-- `normTr` commutes with instantiation on trait paths that pass `instCommOK_nst` -/
theorem normTr_inst_nst (θ : Subst) {p : T} (h : instCommOK_nst p = true) : normTr (inst θ p) = inst θ (normTr p) := by
  unfold instCommOK_nst at h
  simp only [Bool.and_eq_true, List.all_eq_true] at h
  obtain ⟨⟨hp, hsegs⟩, hargs⟩ := h
  obtain ⟨l, hl, hg⟩ := wfPath_last hp
  have hne : pathSegments p ≠ [] := by
    intro e; unfold lastSeg at hl; rw [e] at hl; cases hl
  obtain ⟨lc, segs, rfl⟩ := pathSegments_ne_nil_inv hne
  rw [pathSegments_mkPath] at hsegs
  have hsplit : segs = initSegs (mkPath lc segs) ++ [l] := by
    have := reverse_eq_cons (rev_of_lastSeg hl)
    rw [pathSegments_mkPath] at this
    simpa using this
  generalize initSegs (mkPath lc segs) = i at hsplit
  cases hs : segArgs l with
  | none =>
    have hstrip : stripBindings (mkPath lc segs) = mkPath lc segs := stripBindings_lastNone_nst hl hs
    rw [normTr_of_strip hstrip, inst_mkPath_nst, inst_mkPath_nst]
    have hl' : lastSeg (mkPath (inst θ lc) (instL θ segs)) = some (inst θ l) := by
      rw [hsplit, instL_append_nst]; exact lastSeg_mkPath _ _ _
    have hs' : segArgs (inst θ l) = .none := by
      unfold segArgs at hs
      split at hs <;> first | cases hs | skip
      rw [inst_node_ne_nst θ _ _ (by decide)]
      simp only [instL]
      rw [inst_node_ne_nst θ (k := "PathArguments::None") [] [] (by decide)]
      simp only [instL, segArgs]
    rw [normTr_of_strip (stripBindings_lastNone_nst hl' hs'), map_normSeg_instL_nst θ segs hsegs]
  | angle args =>
    obtain ⟨id, c2, rfl⟩ := segArgs_angle_inv hs
    have hla : lastArgs (mkPath lc segs) = args := by simp [lastArgs, hl, hs]
    rw [hla] at hargs
    have hargs' : args.all isNode_nst = true := List.all_eq_true.2 hargs
    have hstrip : stripBindings (mkPath lc segs) = mkPath lc (i ++ [angleSeg id c2 (nonAssoc args)]) := by
      rw [hsplit]; exact stripBindings_angle lc i _ c2 args
    have hstrip' : stripBindings (inst θ (mkPath lc segs)) =
        mkPath (inst θ lc) (instL θ i ++ [angleSeg (inst θ id) (inst θ c2) (instL θ (nonAssoc args))]) := by
      rw [inst_mkPath_nst, hsplit, instL_append_nst]
      simp only [instL]
      rw [inst_angleSeg_nst, stripBindings_angle, nonAssoc_instL_nst θ args hargs']
    rw [normTr_of_strip hstrip, normTr_of_strip hstrip', inst_mkPath_nst]
    have hgood : ∀ s ∈ i ++ [angleSeg id c2 (nonAssoc args)], goodArgs (segArgs s) = true := by
      intro s hs'
      rcases List.mem_append.1 hs' with h1 | h1
      · exact hsegs s (by rw [hsplit]; exact List.mem_append_left _ h1)
      · simp only [List.mem_singleton] at h1
        rw [h1, segArgs_angleSeg]; rfl
    rw [← map_normSeg_instL_nst θ _ hgood, instL_append_nst]
    simp only [instL]
    rw [inst_angleSeg_nst]
  | paren y =>
    -- excluded by the all-segments condition of `instCommOK_nst` (not by `wfPath`, which accepts `Fn(A) -> B`)
    have := hsegs l (by rw [hsplit]; simp)
    rw [hs] at this; cases this
  | bad => rw [hs] at hg; cases hg

/-! ### The substitution `mkMember` computes is the one the search used -/

/-- the substitution of the member as `Bounds.mkMember` / `memberOfGroup` compute it: the answer of the matcher on the
    family's header against the member's header (`[]` when the matcher says no) -/
def memberTheta_nst (gid : T) (b : Blk) : Subst := (memberOfGroup gid b []).θ

theorem memberOfGroup_theta_nst (gid : T) (b : Blk) (ps : List (Option T)) :
    memberOfGroup gid b ps = ⟨mkBlock b.item, memberTheta_nst gid b, ps⟩ := rfl

/-- in the environment of `parseGroups`, the substitution with which the search lets a block join a family is the answer
    of the matcher on the two headers -/
theorem memberSubst_sup_nst {items : List T} {gid hdr : T} {σ : Subst}
    (h : memberSubst (parseEnv items) gid hdr = some σ) : ∃ l, sup gid hdr = .yes σ l := by
  unfold memberSubst at h
  split at h
  · next e he =>
    cases h
    have h1 := List.find?_some he
    have h2 := List.mem_of_find?_eq_some he
    have : (hdr, e.2) ∈ (parseEnv items).subsets.get gid := by
      rw [← eq_of_beq h1]; exact h2
    exact (makeSets_subsets this).2
  · split at h
    · next hc =>
      have hc' := eq_of_beq hc
      subst hc'
      split at h
      · next σ' l hs => cases h; exact ⟨l, hs⟩
      · cases h
    · cases h

/-- … hence it is the substitution of the member in the abstraction, and it has distinct keys (C09, `C09_functional`) -/
theorem memberTheta_eq_nst {items : List T} {gid : T} {b : Blk} {σ : Subst}
    (h : memberSubst (parseEnv items) gid (groupIdOf b.item) = some σ) :
    memberTheta_nst gid b = σ ∧ (σ.map Prod.fst).Nodup := by
  obtain ⟨l, hl⟩ := memberSubst_sup_nst h
  refine ⟨?_, (supS_light _ (stripTop _) σ l hl).1⟩
  have hh : (mkBlock b.item).hdr = groupIdOf b.item := rfl
  unfold memberTheta_nst memberOfGroup
  simp only [hh, hl]

/-! ### The executable side condition -/

/-- executable side condition of the end-to-end theorem on member `i` (block `b`) of the group `e`, with
    `θ = memberTheta_nst e.1 b` the member's substitution (the matcher's answer on the two headers):
    * the member's header is EXACTLY the instance of the family's header under `θ` (`C09_sound_wf` gives this only modulo
      `erase`, i.e. up to presentation; the exact equality is checked);
    * the founding member (`i = 0`) has an identity substitution (`selfIdentity` of the flat theorem);
    * for every own key `k'` of the member (key of `otherFold b`) and every re-expression `sk` of it
      (`reexpr env e.1 i b k'`) that is — `sameKey` — a key `kr` of the family:
      - `θ` is the identity, or both components of `k'` are `untouched θ` (the D4 condition: every parameter of `k'` that
        reverse substitution leaves in place is fixed by `θ`) and `normTr` commutes with `inst` on the re-expressed
        trait path (`instCommOK_nst sk.2`);
      - the trait paths of `sk`, of `k'` are `wfPath`, `sk` agrees with the family's key on the leading `::`;
      - every trait bound of the block with the same dispatch key as `k'` is `wfPath`, agrees with `k'` on the leading
        `::` and is not a relaxed `?Trait` bound. -/
def nestedMemberOK (env : Env) (e : T × ABG × List Blk) (i : Nat) (b : Blk) : Bool :=
  let θ := memberTheta_nst e.1 b
  (inst θ e.1 == groupIdOf b.item) &&
  (i != 0 || allIdentity θ) &&
  (otherFold b).all (fun k'r => (reexpr env e.1 i b k'r.1).all (fun sk => e.2.1.bounds.all (fun kr =>
     !sameKey sk kr.1 ||
       ((allIdentity θ || (untouched θ k'r.1.1 && untouched θ k'r.1.2 && instCommOK_nst sk.2)) &&
        wfPath sk.2 && wfPath k'r.1.2 && lcOf sk.2 == lcOf kr.1.2 &&
        b.raw.all (fun rb => !sameKey (rb.bounded, rb.tr) k'r.1 ||
          (wfPath rb.tr && lcOf rb.tr == lcOf k'r.1.2 && !rb.maybe))))))

/-- executable side condition of the end-to-end theorem on one group: every dispatch key has a well-formed trait path
    and every member passes `nestedMemberOK` -/
def nestedGroupOK (env : Env) (e : T × ABG × List Blk) : Bool :=
  e.2.1.bounds.all (fun kr => wfPath kr.1.2) &&
  (List.range e.2.2.length).all (fun i => match e.2.2[i]? with
    | some b => nestedMemberOK env e i b
    | none => true)

theorem nestedGroupOK_member_nst {env : Env} {e : T × ABG × List Blk} (h : nestedGroupOK env e = true) {i : Nat} {b : Blk}
    (hb : e.2.2[i]? = some b) : nestedMemberOK env e i b = true := by
  unfold nestedGroupOK at h
  simp only [Bool.and_eq_true, List.all_eq_true, List.mem_range] at h
  have hi : i < e.2.2.length := by
    rcases Nat.lt_or_ge i e.2.2.length with h1 | h1
    · exact h1
    · rw [List.getElem?_eq_none h1] at hb; cases hb
  have := h.2 i hi
  rw [hb] at this
  exact this

/-- what `nestedMemberOK` says about one (own key, re-expression, family key) triple -/
theorem nestedMemberOK_spec_nst {env : Env} {e : T × ABG × List Blk} {i : Nat} {b : Blk}
    (h : nestedMemberOK env e i b = true) :
    inst (memberTheta_nst e.1 b) e.1 = groupIdOf b.item ∧ (i = 0 → allIdentity (memberTheta_nst e.1 b) = true) ∧
    ∀ k'r ∈ otherFold b, ∀ sk ∈ reexpr env e.1 i b k'r.1, ∀ kr ∈ e.2.1.bounds, sameKey sk kr.1 = true →
      (allIdentity (memberTheta_nst e.1 b) = true ∨
        (untouched (memberTheta_nst e.1 b) k'r.1.1 = true ∧ untouched (memberTheta_nst e.1 b) k'r.1.2 = true ∧
          instCommOK_nst sk.2 = true)) ∧
      wfPath sk.2 = true ∧ wfPath k'r.1.2 = true ∧ lcOf sk.2 = lcOf kr.1.2 ∧
      ∀ rb ∈ b.raw, sameKey (rb.bounded, rb.tr) k'r.1 = true →
        wfPath rb.tr = true ∧ lcOf rb.tr = lcOf k'r.1.2 ∧ rb.maybe = false := by
  unfold nestedMemberOK at h
  simp only [Bool.and_eq_true, List.all_eq_true, beq_iff_eq] at h
  obtain ⟨⟨h1, h2⟩, h3⟩ := h
  refine ⟨h1, fun hi => ?_, fun k'r hk' sk hsk kr hkr hs => ?_⟩
  · subst hi; simpa using h2
  · have := h3 k'r hk' sk hsk kr hkr
    rw [hs] at this
    simp only [Bool.not_true, Bool.false_or, Bool.and_eq_true, Bool.or_eq_true, beq_iff_eq, List.all_eq_true] at this
    obtain ⟨⟨⟨⟨a1, a2⟩, a3⟩, a4⟩, a5⟩ := this
    refine ⟨?_, a2, a3, a4, fun rb hrb hsr => ?_⟩
    · rcases a1 with a1 | a1
      · exact Or.inl a1
      · exact Or.inr ⟨a1.1.1, a1.1.2, a1.2⟩
    · have := a5 rb hrb
      rw [hsr] at this
      simp only [Bool.not_true, Bool.false_eq_true, false_or, Bool.not_eq_true'] at this
      exact ⟨this.1.1, this.1.2, this.2⟩

/-! ### The family's keys instantiate to the member's own keys -/

/-- THE KEYS OF A FAMILY, SEEN THROUGH A MEMBER'S SUBSTITUTION, ARE THE MEMBER'S OWN KEYS: in a group that passes
    `nestedGroupOK`, if a re-expression `sk` of an own key `k'` of member `i` is (`sameKey`) the family's key `k`, then
    instantiating `k` with the member's substitution gives `k'` back — the bounded type exactly, the trait path up to
    `normTr` (bindings, `Tr<>` vs `Tr`, turbofish) -/
theorem nested_key_instance {items : List T} {groups : Groups} (h : parseGroups items = .ok groups)
    {e : T × ABG × List Blk} (he : e ∈ groups) (hok : nestedGroupOK (parseEnv items) e = true)
    {i : Nat} {b : Blk} (hb : e.2.2[i]? = some b) {k : BKey} {rows : List Row} (hrows : (k, rows) ∈ e.2.1.bounds)
    {k' : BKey} {r : Row} (hk' : (k', r) ∈ otherFold b) {sk : BKey} (hsk : sk ∈ reexpr (parseEnv items) e.1 i b k')
    (hsame : sameKey sk k = true) :
    inst (memberTheta_nst e.1 b) k.1 = k'.1 ∧ inst (memberTheta_nst e.1 b) (normTr k.2) = normTr k'.2 := by
  have hown := parseGroups_rowsOwn h he
  obtain ⟨_, hfirst, htrip⟩ := nestedMemberOK_spec_nst (nestedGroupOK_member_nst hok hb)
  have hwk : wfPath k.2 = true := by
    unfold nestedGroupOK at hok
    simp only [Bool.and_eq_true, List.all_eq_true] at hok
    exact hok.1 (k, rows) hrows
  obtain ⟨hcaseθ, hwsk, hwk', hlcsk, _⟩ := htrip (k', r) hk' sk hsk (k, rows) hrows hsame
  simp only at hcaseθ hwk' hlcsk
  generalize hθ : memberTheta_nst e.1 b = θ at hfirst hcaseθ
  -- re-expression followed by instantiation is the identity, and `normTr` commutes with it
  have hA : inst θ sk.1 = k'.1 ∧ inst θ sk.2 = k'.2 ∧ normTr (inst θ sk.2) = inst θ (normTr sk.2) := by
    have hlater : i ≠ 0 → ∃ σ, memberSubst (parseEnv items) e.1 (groupIdOf b.item) = some σ ∧
        sk ∈ substituteBound σ k'.1 k'.2 := by
      intro hi
      have := hown.2.1 i b hb
      rw [if_neg hi] at this
      obtain ⟨σ, hσ⟩ := Option.isSome_iff_exists.1 this
      refine ⟨σ, hσ, ?_⟩
      simpa [reexpr, hi, hσ] using hsk
    have hidcase : allIdentity θ = true → sk = k' := by
      intro hid
      by_cases hi : i = 0
      · subst hi
        simpa [reexpr] using hsk
      · obtain ⟨σ, hσ, hsk'⟩ := hlater hi
        have := (memberTheta_eq_nst hσ).1
        rw [hθ] at this
        subst this
        rw [substituteBound_identity θ hid, List.mem_singleton] at hsk'
        exact hsk'
    rcases hcaseθ with hid | ⟨hu1, hu2, hcomm⟩
    · have := hidcase hid
      subst this
      simp only [inst_identity hid, and_self]
    · by_cases hi : i = 0
      · have hid := hfirst hi
        have := hidcase hid
        subst this
        simp only [inst_identity hid, and_self]
      · obtain ⟨σ, hσ, hsk'⟩ := hlater hi
        obtain ⟨hθσ, hnd⟩ := memberTheta_eq_nst hσ
        rw [hθ] at hθσ
        subst hθσ
        simp only [substituteBound, List.mem_flatMap, List.mem_map] at hsk'
        obtain ⟨x, hx, y, hy, rfl⟩ := hsk'
        exact ⟨roundtrip_all hnd k'.1 hu1 x hx, roundtrip_all hnd k'.2 hu2 y hy, normTr_inst_nst θ hcomm⟩
  obtain ⟨hA1, hA2, hA3⟩ := hA
  have hsk2 : sk.1 = k.1 ∧ keyOf sk.2 = keyOf k.2 := by
    simpa [sameKey] using hsame
  refine ⟨by rw [← hsk2.1]; exact hA1, ?_⟩
  rw [← normTr_eq_of_sameKey hwsk hwk hsk2.2 hlcsk, ← hA3, hA2]

/-! ### `memberOK` for every member of every family -/

/-- END TO END, `memberOK`: in an accepted grouping (nested headers or not), every member of the abstraction of a group
    that passes `nestedGroupOK` satisfies the hypothesis `memberOK` of the refinement -/
theorem nested_memberOK {items : List T} {groups : Groups} (h : parseGroups items = .ok groups)
    (sp : List String) {e : T × ABG × List Blk} (he : e ∈ groups) (hok : nestedGroupOK (parseEnv items) e = true) :
    ∀ m ∈ (familyOfGroup sp e).members, memberOK (familyOfGroup sp e) m = true := by
  intro m hm
  have hown := parseGroups_rowsOwn h he
  obtain ⟨i, b, ps, hb, hp, rfl⟩ := familyOfGroup_member hm
  have hmem := nestedGroupOK_member_nst hok hb
  obtain ⟨hhdr, hfirst, htrip⟩ := nestedMemberOK_spec_nst hmem
  have hkeyswf : ∀ kr ∈ e.2.1.bounds, wfPath kr.1.2 = true := by
    unfold nestedGroupOK at hok
    simp only [Bool.and_eq_true, List.all_eq_true] at hok
    exact hok.1
  have hbmem : b ∈ e.2.2 := List.mem_of_getElem? hb
  have hcan : b.canonical := mem_map_mkBlk_canonical (parseGroups_member_input h he b hbmem)
  rw [memberOfGroup_theta_nst]
  generalize hθ : memberTheta_nst e.1 b = θ at hhdr hfirst htrip
  unfold memberOK
  simp only [Bool.and_eq_true, beq_iff_eq, List.all_eq_true]
  refine ⟨⟨?_, ?_⟩, ?_⟩
  · -- the header
    exact hhdr
  · -- one payload per key
    show ps.length = (e.2.1.idents.map _).length
    rw [List.length_map]
    exact payloads_length_e2e (List.mem_of_getElem? hp)
  · -- every payload is backed by a clause of the block
    intro kr hkr
    obtain ⟨j, hj⟩ := List.mem_iff_getElem?.1 hkr
    rw [List.getElem?_zip_eq_some] at hj
    obtain ⟨hkj, hpj⟩ := hj
    simp only [familyOfGroup, List.getElem?_map, Option.map_eq_some_iff] at hkj
    obtain ⟨⟨k, a⟩, hx, hkr1⟩ := hkj
    obtain ⟨entry, hent, hcase⟩ := rowsOwn_payload hown hp hx hb
    rw [hpj] at hent
    have hent' : kr.2 = entry := Option.some.inj hent
    obtain ⟨rows, hrows⟩ := idents_mem (List.mem_of_getElem? hx)
    have hwk : wfPath k.2 = true := hkeyswf (k, rows) hrows
    rcases hcase with ⟨hnone, _⟩ | ⟨k', r, hk', ⟨sk, hsk, hsame⟩, hentry⟩
    · rw [keyOf_eq hwk] at hnone; cases hnone
    · obtain ⟨hcaseθ, hwsk, hwk', hlcsk, hraw⟩ := htrip (k', r) hk' sk hsk (k, rows) hrows hsame
      simp only at hcaseθ hwk' hlcsk hraw
      obtain ⟨hI1, hI2⟩ := nested_key_instance h he hok hb hrows hk' hsk hsame
      rw [hθ] at hI1 hI2
      -- a bound of the block with the dispatch key of `k'`, carrying the binding if there is one
      have hrb : ∃ rb ∈ b.raw, sameKey (rb.bounded, rb.tr) k' = true ∧ ∀ p, entry = some p → (a, p) ∈ rb.binds := by
        obtain ⟨⟨rb0, hrb0, hk0⟩, hbinds⟩ := otherFold_spec b (k', r) hk'
        cases hentry' : entry with
        | none => exact ⟨rb0, hrb0, by rw [← hk0]; exact sameKey_refl _, fun p hp => by cases hp⟩
        | some p =>
          obtain ⟨rb, hrb, hap, hs1⟩ := hbinds a p (by rw [← hentry, hentry'])
          exact ⟨rb, hrb, hs1, fun p' hp' => by cases hp'; exact hap⟩
      obtain ⟨rb, hrb, hrk, hbind⟩ := hrb
      obtain ⟨hwrb, hlc, hmaybe⟩ := hraw rb hrb hrk
      have hkk : rb.bounded = k'.1 ∧ keyOf rb.tr = keyOf k'.2 := by
        simpa [sameKey] using hrk
      unfold clauseFor
      rw [List.any_eq_true]
      refine ⟨⟨rb.bounded, normTr rb.tr, rb.binds⟩, ?_, ?_⟩
      · show _ ∈ (mkBlock b.item).clauses
        rw [mkBlock_clauses hcan]
        exact List.mem_map.2 ⟨rb, List.mem_filter.2 ⟨hrb, by simp [hmaybe]⟩, rfl⟩
      · simp only [Bool.and_eq_true, beq_iff_eq]
        rw [← hkr1]
        refine ⟨⟨?_, ?_⟩, ?_⟩
        · show rb.bounded = inst θ k.1
          rw [hkk.1, hI1]
        · show normTr rb.tr = inst θ (normTr k.2)
          rw [normTr_eq_of_sameKey hwrb hwk' hkk.2 hlc, hI2]
        · rw [hent']
          cases hentry' : entry with
          | none => rfl
          | some p =>
            simp only [List.contains_iff_mem]
            exact hbind p hentry'

/-! ### The flat theorem is a special case -/

/-- for an invocation without nested headers, `flatGroupOK` implies `nestedGroupOK` (so `flat_memberOK` is the special
    case of `nested_memberOK` in which every member's substitution is the identity) -/
theorem nestedGroupOK_of_flat {items : List T} {groups : Groups} (h : parseGroups items = .ok groups)
    (hns : ∀ id, (parseEnv items).subsets.get id = []) {e : T × ABG × List Blk} (he : e ∈ groups)
    (hok : flatGroupOK e = true) : nestedGroupOK (parseEnv items) e = true := by
  have hown := parseGroups_rowsOwn h he
  obtain ⟨hself, hkeys⟩ := flatGroupOK_spec hok
  obtain ⟨σ, l, hs, hσ⟩ := selfIdentity_spec hself
  unfold nestedGroupOK
  simp only [Bool.and_eq_true, List.all_eq_true, List.mem_range]
  refine ⟨fun kr hkr => (hkeys kr hkr).1, fun i hi => ?_⟩
  have hb : e.2.2[i]? = some e.2.2[i] := List.getElem?_eq_getElem hi
  rw [hb]
  simp only
  generalize e.2.2[i] = b at hb
  have hbmem : b ∈ e.2.2 := List.mem_of_getElem? hb
  have hgid : groupIdOf b.item = e.1 := rowsOwn_flat_header hns hown hb
  have hθ : memberTheta_nst e.1 b = σ := by
    unfold memberTheta_nst
    rw [memberOfGroup_flat hgid hs]
  unfold nestedMemberOK
  simp only [hθ, hσ, Bool.or_true, Bool.true_or, Bool.true_and, Bool.and_eq_true, List.all_eq_true, beq_iff_eq,
    inst_identity hσ, Bool.and_true]
  refine ⟨hgid.symm, fun k'r hk' sk hsk kr hkr => ?_⟩
  rw [reexpr_flat hns hgid hs hσ, List.mem_singleton] at hsk
  subst hsk
  cases hsame : sameKey k'r.1 kr.1 with
  | false => rfl
  | true =>
    obtain ⟨hwk, hmembers⟩ := hkeys kr hkr
    obtain ⟨⟨rb0, hrb0, hk0⟩, _⟩ := otherFold_spec b k'r hk'
    have h0 := hmembers b hbmem rb0 hrb0 (by rw [← hk0]; exact hsame)
    have hk02 : k'r.1.2 = rb0.tr := by rw [hk0]
    simp only [Bool.not_true, Bool.false_or, Bool.and_eq_true, beq_iff_eq, List.all_eq_true]
    refine ⟨⟨⟨by rw [hk02]; exact h0.1, by rw [hk02]; exact h0.1⟩, by rw [hk02]; exact h0.2.1⟩, fun rb hrb => ?_⟩
    cases hsr : sameKey (rb.bounded, rb.tr) k'r.1 with
    | false => rfl
    | true =>
      have h1 := hmembers b hbmem rb hrb (sameKey_trans hsr hsame)
      simp only [Bool.not_true, Bool.false_or, Bool.and_eq_true, beq_iff_eq, Bool.not_eq_true']
      exact ⟨⟨h1.1, by rw [hk02]; exact h1.2.1.trans h0.2.1.symm⟩, h1.2.2⟩

/-! ### `thetaCoversB` for nested members -/

/-- executable side condition for `thetaCoversB` of all members (nested or not): the header is well-formed for the
    matcher (`wf`, C09); every parameter occurrence of the header and of the keys is one the matcher sees in the header
    (`params`); every member's substitution is the answer of the matcher on the two headers, found WITHOUT any lenient
    arm (then `C09_binds_all_wf` applies: it binds every visible parameter), and respects the kinds of the parameter
    occurrences of the header and the keys (`kindOK`, checked) -/
def nestedCoversB (F : Family) : Bool :=
  wf F.hdr && (allParams F.hdr).all (fun n => (params F.hdr).contains n) &&
  F.keys.all (fun k => (allParams k.bounded).all (fun n => (params F.hdr).contains n) &&
    (allParams k.tr).all (fun n => (params F.hdr).contains n)) &&
  F.members.all (fun m => (match sup F.hdr m.blk.hdr with
      | .yes σ l => !l && σ == m.θ
      | _ => false) &&
    kindOK m.θ F.hdr && F.keys.all (fun k => kindOK m.θ k.bounded && kindOK m.θ k.tr))

/-- END TO END, `thetaCoversB`: every member of a family that passes `nestedCoversB` satisfies `ThetaCovers` -/
theorem nested_thetaCovers {F : Family} (hcov : nestedCoversB F = true) :
    ∀ m ∈ F.members, thetaCoversB F m = true := by
  intro m hm
  unfold nestedCoversB at hcov
  simp only [Bool.and_eq_true, List.all_eq_true, List.contains_iff_mem] at hcov
  obtain ⟨⟨⟨hwf, hp0⟩, hkeys⟩, hmem⟩ := hcov
  obtain ⟨⟨hsup, hk0⟩, hkk⟩ := hmem m hm
  have hbinds : ∀ n ∈ params F.hdr, (lookup m.θ n).isSome = true := by
    split at hsup
    · next σ l hs =>
      simp only [Bool.and_eq_true, Bool.not_eq_true', beq_iff_eq] at hsup
      obtain ⟨hl, hσ⟩ := hsup
      subst hl; subst hσ
      exact (supS_good F.hdr (stripTop m.blk.hdr) m.θ hwf hs).1
    · cases hsup
  unfold thetaCoversB boundAll
  simp only [Bool.and_eq_true, List.all_eq_true]
  refine ⟨⟨hk0, fun n hn => hbinds n (hp0 n hn)⟩, fun k hk => ?_⟩
  obtain ⟨h3, h4⟩ := hkeys k hk
  obtain ⟨h1, h2⟩ := hkk k hk
  exact ⟨⟨⟨h1, h2⟩, fun n hn => hbinds n (h3 n hn)⟩, fun n hn => hbinds n (h4 n hn)⟩

/-- `hdrCoversB` of the flat theorem is the special case in which every member has the family's own header -/
theorem nestedCoversB_of_flat {F : Family} (hcov : hdrCoversB F = true)
    (hθ : ∀ m ∈ F.members, m.blk.hdr = F.hdr ∧ m.θ = (match sup F.hdr m.blk.hdr with | .yes σ _ => σ | _ => [])) :
    nestedCoversB F = true := by
  unfold hdrCoversB at hcov
  simp only [Bool.and_eq_true, List.all_eq_true] at hcov
  obtain ⟨⟨⟨⟨hclean, hwf⟩, hk0⟩, hp0⟩, hkeys⟩ := hcov
  obtain ⟨σ, hs, hσ⟩ := selfClean_spec hclean
  unfold nestedCoversB
  simp only [Bool.and_eq_true, List.all_eq_true]
  refine ⟨⟨⟨hwf, hp0⟩, fun k hk => ⟨(hkeys k hk).1.2, (hkeys k hk).2⟩⟩, fun m hm => ?_⟩
  obtain ⟨h1, h2⟩ := hθ m hm
  rw [h1, hs] at h2
  simp only at h2
  rw [h1, hs, h2]
  simp only [Bool.not_false, beq_self_eq_true, Bool.and_self, true_and, kindOK_identity hσ]
  exact ⟨hk0, fun k hk => ⟨(hkeys k hk).1.1.1, (hkeys k hk).1.1.2⟩⟩

/-! ### Coverage -/

/-- END TO END, coverage, for ARBITRARY accepted invocations whose recorded header relation is acyclic (`acyclicB`: every
    block is then placed exactly once, `parseGroups_partition_acyclic`) and whose groups pass the executable checks: in
    every world in which the dispatch traits define their associated types (`WorldTotal`) and the `Sized` requirements
    are compatible (`SizedCompat`), the grouping the model computes implements the trait for a query exactly when one of
    the input blocks applies to it. (The direction ⇒ needs none of the side conditions.) -/
theorem nested_coverage {items : List T} {groups : Groups} (h : parseGroups items = .ok groups)
    (ha : acyclicB items = true) (sp : List String)
    (hok : ∀ e ∈ groups, nestedGroupOK (parseEnv items) e = true ∧ nestedCoversB (familyOfGroup sp e) = true)
    (W : World) (hw : ∀ e ∈ groups, WorldTotal W (familyOfGroup sp e))
    (hsz : ∀ e ∈ groups, ∀ m ∈ (familyOfGroup sp e).members, SizedCompat W (familyOfGroup sp e) m) (q : T) :
    (∃ e ∈ groups, ∃ m ∈ (familyOfGroup sp e).members, genSel W (familyOfGroup sp e) m q) ↔
    (∃ it ∈ items, applies W (mkBlock (canon it)) q) := by
  constructor
  · rintro ⟨e, he, m, hm, hsel⟩
    have happ := gen_sub_spec W _ m q hsel
    obtain ⟨i, b, ps, hb, _, rfl⟩ := familyOfGroup_member hm
    have hin := parseGroups_member_input h he b (List.mem_of_getElem? hb)
    obtain ⟨it, hit, rfl⟩ := List.mem_map.1 hin
    exact ⟨it, hit, happ⟩
  · rintro ⟨it, hit, happ⟩
    have hbin : mkBlk it ∈ items.map mkBlk := List.mem_map.2 ⟨it, hit, rfl⟩
    obtain ⟨bk, hbk, hbbk⟩ := mkBuckets_holds_input items (mkBlk it) hbin
    have hperm := parseGroups_partition_acyclic h ha
    have hmem : mkBlk it ∈ groups.flatMap (fun e => e.2.2) :=
      hperm.mem_iff.2 (List.mem_flatMap.2 ⟨bk, hbk, hbbk⟩)
    obtain ⟨e, he, hbe⟩ := List.mem_flatMap.1 hmem
    obtain ⟨m, hm, hblk⟩ := familyOfGroup_has_member h sp he hbe
    refine ⟨e, he, m, hm, ?_⟩
    obtain ⟨ok1, ok2⟩ := hok e he
    refine spec_sub_gen W _ m q (nested_memberOK h sp he ok1 m hm) (hw e he)
      ((thetaCoversB_iff _ m).1 (nested_thetaCovers ok2 m hm)) (hsz e he m hm) ?_
    rw [hblk]
    exact happ

/-! ### The flat coverage theorem is a special case -/

theorem kahnIter_nil_nst (E : List (T × T × Subst)) : ∀ n, kahnIter E n [] = []
  | 0 => rfl
  | n + 1 => by rw [kahnIter]; exact kahnIter_nil_nst E n

/-- no recorded generalisation pair at all: the header relation is acyclic -/
theorem acyclicB_of_no_pairs_nst (items : List T) (h : msPairs ((mkBuckets (items.map mkBlk)).map (·.1)) = []) :
    acyclicB items = true := by
  unfold acyclicB acyclicIds
  rw [h]
  cases hn : ((mkBuckets (items.map mkBlk)).map (·.1)).length with
  | zero =>
    have := List.eq_nil_of_length_eq_zero hn
    rw [this]; rfl
  | succ n =>
    rw [kahnIter]
    have : kahnStep [] ((mkBuckets (items.map mkBlk)).map (·.1)) = [] := by
      unfold kahnStep predsOf
      simp
    rw [this, kahnIter_nil_nst]; rfl

/-- for an un-nested invocation, `hdrCoversB` of the abstraction of a group implies `nestedCoversB` -/
theorem nestedCoversB_of_flat_group {items : List T} {groups : Groups} (h : parseGroups items = .ok groups)
    (hns : ∀ id, (parseEnv items).subsets.get id = []) (sp : List String) {e : T × ABG × List Blk} (he : e ∈ groups)
    (hcov : hdrCoversB (familyOfGroup sp e) = true) : nestedCoversB (familyOfGroup sp e) = true := by
  apply nestedCoversB_of_flat hcov
  intro m hm
  obtain ⟨i, b, ps, hb, _, rfl⟩ := familyOfGroup_member hm
  have hgid : groupIdOf b.item = e.1 := rowsOwn_flat_header hns (parseGroups_rowsOwn h he) hb
  exact ⟨hgid, rfl⟩

end DI
