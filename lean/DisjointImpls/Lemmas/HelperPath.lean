/-
  The helper trait is named by the LAST path segment only (/repo commit ccb06e8 "fix: helper traits are named by the last
  path segment only"): whatever qualifiers the user wrote on the trait path of a member (`self::Kita`, `::krate::Kita`) or
  on the self type of an inherent block (`meters::Wrapper<T>`), every helper impl names the helper trait by the single
  segment `_<Name><idx><…>` without a leading `::` (`helperImpl`, disjoint.rs: `*trait_ = path.clone().into()`), and the
  helper trait of inherent mode is declared under the identifier of the last segment (`helperTraitOfInherent`,
  helper_trait.rs). Used by `Props/C08.lean` (scope hygiene) and `Props/C17.lean`. Core-only.

  Every new top-level name carries the suffix `_hp`.
-/
import DisjointImpls.Lemmas.ExpandItems
import DisjointImpls.Validate
namespace DI

open XOK

/-- the path whose last segment names the helper trait of a helper impl: the generated inherent path when there is one
    (inherent mode), the member's own trait path otherwise (trait mode) -/
def helperSourcePath_hp (ip : Option T) (member : T) : Option T :=
  match ip with
  | some p => some p
  | none => implTraitPath member

/-- the arguments of the helper segment: the printed row in front of the old arguments of the last segment
    (`none`: parenthesised arguments, the generator aborts) -/
def helperSegArgs_hp (rowA : List T) : T → Option T
  | .node "PathArguments::None" [] [] => some (angle rowA)
  | .node "PathArguments::AngleBracketed" [] [c2, .node "List" [] old] =>
      some (.node "PathArguments::AngleBracketed" [] [c2, tList (rowA ++ old)])
  | _ => none

/-- the helper path: ONE segment, no leading `::` -/
def helperPathOf_hp (x : String) (idx : Nat) (na : T) : T :=
  pathNode noLead [.node "PathSegment" [] [tIdent (genIdentStr x idx), na]]

/-- executable: the trait path of the helper impl `h` is a single segment without a leading `::` whose identifier is
    `_<x><idx>`, `x` the identifier of the last segment of the source path (reads the given trees only) -/
def helperPathUnqualified_hp (idx : Nat) (ip : Option T) (member h : T) : Bool :=
  match (helperSourcePath_hp ip member).bind lastSegIdentOf, implTraitPath h with
  | some x, some (.node "Path" [] [lc, .node "List" [] [.node "PathSegment" [] [.node "Ident" [y] [], _]]]) =>
      lc == noLead && y == genIdentStr x idx
  | _, _ => false

/-- executable, without reference to the member: the trait path of `h` is a single segment without a leading `::` -/
def pathUnqualified_hp (h : T) : Bool :=
  match implTraitPath h with
  | some (.node "Path" [] [lc, .node "List" [] [.node "PathSegment" [] [.node "Ident" [_] [], _]]]) => lc == noLead
  | _ => false

theorem helperSegArgs_inv_hp {rowA : List T} {args na : T}
    (h : (match args with
      | .node "PathArguments::None" [] [] => some (angle rowA)
      | .node "PathArguments::AngleBracketed" [] [c2, .node "List" [] old] =>
          some (.node "PathArguments::AngleBracketed" [] [c2, tList (rowA ++ old)])
      | _ => none) = some na) : helperSegArgs_hp rowA args = some na := by
  unfold helperSegArgs_hp
  exact h

/-- inherent mode, any generated path: the helper impl is the member (visibilities removed) implementing the single
    segment `_<x><idx>`, `x` the identifier of the LAST segment of the generated path -/
theorem helperImpl_inherent_path_hp {idx : Nat} {p0 : T} {idents : List (BKey × String)} {row : List (Option T)}
    {member h : T} (hh : helperImpl idx (some p0) idents row member = some h) :
    ∃ x args na a d u g tr s items,
      lastSegOf p0 = some (.node "PathSegment" [] [.node "Ident" [x] [], args]) ∧
      helperSegArgs_hp (rowArgs idents row) args = some na ∧
      member = .node "ItemImpl" [] [a, d, u, g, tr, s, items] ∧
      h = .node "ItemImpl" [] [a, d, u, g, tSome (.node "Tuple" [] [tNone, helperPathOf_hp x idx na]), s,
        visErased_inh items] := by
  cases h7 : isImpl7_inh member with
  | false =>
    obtain ⟨e1, e2, e3⟩ := not_impl7_inh h7 setVisInherited p0
    unfold helperImpl at hh
    simp only [e1, e2, e3] at hh
    cases hh
  | true =>
    obtain ⟨a, d, u, g, tr, s, items, rfl⟩ := isImpl7_inv_inh h7
    unfold helperImpl at hh
    simp only [setImplTrait, mapImplItems_impl7_inh, implTraitPath, tSome] at hh
    cases hl : lastSegOf p0 with
    | none => rw [hl] at hh; cases hh
    | some l =>
      rw [hl] at hh
      split at hh
      · next x args heq =>
        cases heq
        split at hh
        · next na hna =>
          cases hh
          exact ⟨x, args, na, a, d, u, g, tr, s, items, rfl, helperSegArgs_inv_hp hna, rfl, rfl⟩
        · cases hh
      · cases hh

theorem helperSegArgs_of_cases_hp {rowA : List T} {args na : T}
    (h : (args = noArgs ∧ na = angle rowA) ∨
      (∃ c2 old, args = .node "PathArguments::AngleBracketed" [] [c2, .node "List" [] old] ∧
        na = .node "PathArguments::AngleBracketed" [] [c2, tList (rowA ++ old)])) :
    helperSegArgs_hp rowA args = some na := by
  rcases h with ⟨rfl, rfl⟩ | ⟨c2, old, rfl, rfl⟩
  · rfl
  · rfl

theorem implTraitPath_impl_hp (a d u g s items P : T) :
    implTraitPath (.node "ItemImpl" [] [a, d, u, g, tSome (.node "Tuple" [] [tNone, P]), s, items]) = some P := rfl

/-- both modes: the trait path of a helper impl is the single segment `_<x><idx><row ++ old arguments>` with no leading
    `::`, where `x` is the identifier of the LAST segment of the source path (`helperSourcePath_hp`: the member's trait
    path in trait mode, the generated self-type path in inherent mode) and the old arguments are those of that last
    segment; leading segments and a leading `::` of the source path do not reach the helper impl -/
theorem helperImpl_path_hp {idx : Nat} {ip : Option T} {idents : List (BKey × String)} {row : List (Option T)}
    {member h : T} (hh : helperImpl idx ip idents row member = some h) :
    ∃ p x args na, helperSourcePath_hp ip member = some p ∧
      lastSegOf p = some (.node "PathSegment" [] [.node "Ident" [x] [], args]) ∧
      helperSegArgs_hp (rowArgs idents row) args = some na ∧
      implTraitPath h = some (helperPathOf_hp x idx na) ∧ traitPathOf h = some (helperPathOf_hp x idx na) := by
  cases ip with
  | none =>
    obtain ⟨a, d, u, g, b, p, s, items, x, args, na, rfl, hl, hna, rfl⟩ := helperImpl_trait_inv_it hh
    exact ⟨p, x, args, na, rfl, hl, helperSegArgs_of_cases_hp hna, rfl, traitPathOf_impl_inh _ _ _ _ _ _ _⟩
  | some p0 =>
    obtain ⟨x, args, na, a, d, u, g, tr, s, items, hl, hna, rfl, rfl⟩ := helperImpl_inherent_path_hp hh
    exact ⟨p0, x, args, na, rfl, hl, hna, rfl, traitPathOf_impl_inh _ _ _ _ _ _ _⟩

theorem helperPathUnqualified_of_hp {idx : Nat} {ip : Option T} {idents : List (BKey × String)} {row : List (Option T)}
    {member h : T} (hh : helperImpl idx ip idents row member = some h) :
    helperPathUnqualified_hp idx ip member h = true ∧ pathUnqualified_hp h = true := by
  obtain ⟨p, x, args, na, hp, hl, _, hi, _⟩ := helperImpl_path_hp hh
  have hx : (helperSourcePath_hp ip member).bind lastSegIdentOf = some x := by
    rw [hp]; simp [lastSegIdentOf, hl]
  constructor
  · unfold helperPathUnqualified_hp
    rw [hx, hi]
    simp [helperPathOf_hp, pathNode, tList, tIdent]
  · unfold pathUnqualified_hp
    rw [hi]
    simp [helperPathOf_hp, pathNode, tList, tIdent]

/-- `helperImpls` read back in both modes: one call of `helperImpl` per (member, row) pair, all with the same inherent
    path -/
theorem helperImpls_inv_hp {idx : Nat} {g : T × ABG × List Blk} {hs : List T} (hh : helperImpls idx g = some hs) :
    ∃ ip, hs = ((List.zip (g.2.2.map (·.item)) g.2.1.payloads).map
      (fun mr => helperImpl idx ip g.2.1.idents mr.2 mr.1)).filterMap id := by
  unfold helperImpls at hh
  simp only at hh
  split at hh
  · next hnil =>
    cases hh
    exact ⟨none, by rw [hnil]; rfl⟩
  · next first rest hm =>
    split at hh
    · cases hh
    · next ip hip =>
      split at hh
      · cases hh; exact ⟨ip, by rw [hm]⟩
      · cases hh

/-- every helper impl `helperImpls` returns names its trait by a single unqualified segment -/
theorem helperImpls_unqualified_hp {idx : Nat} {g : T × ABG × List Blk} {hs : List T} (hh : helperImpls idx g = some hs) :
    hs.all pathUnqualified_hp = true := by
  obtain ⟨ip, rfl⟩ := helperImpls_inv_hp hh
  rw [List.all_eq_true]
  intro h hmem
  obtain ⟨oh, hoh, hid⟩ := List.mem_filterMap.1 hmem
  simp only [id] at hid
  subst hid
  obtain ⟨mr, _, hhi⟩ := List.mem_map.1 hoh
  exact (helperPathUnqualified_of_hp hhi).2

/-- the helper trait of inherent mode is declared under `_<x><idx>`, `x` the identifier of the LAST segment of the self
    type's path (an unqualified path type: no `<T as Tr>::`); leading segments and a leading `::` are not part of the name -/
theorem helperTraitOfInherent_name_hp {item : T} {idx nkeys : Nat} {ht : T}
    (h : helperTraitOfInherent item idx nkeys = .ok ht) :
    ∃ p x a, kid item 5 = .node "Type::Path" [] [tNone, p] ∧
      lastSegOf p = some (.node "PathSegment" [] [.node "Ident" [x] [], a]) ∧
      kid ht 5 = tIdent (genIdentStr x idx) ∧ traitName_inh ht = genIdentStr x idx ∧
      traitIdent ht = genIdentStr x idx := by
  obtain ⟨a, d, u, lt, ps, gt, wc, trr, st, items, x, its, lt', gt', rfl, hx, _, rfl⟩ :=
    helperTraitOfInherent_ok_inv_inh h
  obtain ⟨p, a0, rfl, hl⟩ := selfTraitIdent_inv_inh hx
  exact ⟨p, x, a0, rfl, hl, rfl, by simp [traitName_inh, kid, kids, atoms, tIdent], by simp [traitIdent, tIdent]⟩

end DI
