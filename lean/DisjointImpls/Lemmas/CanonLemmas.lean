/-
  Helper lemmas for the C13 theorems (`Props/C13.lean`) over the model of parameter canonicalisation
  (`Canon.lean`): every indexer traversal is a composition of primitive steps (`IxRel`), the invariants of
  the indexer, and the resolver. Proof file (imports `Lemmas/Names.lean`, which imports Std).
-/
import DisjointImpls.Canon
import DisjointImpls.Lemmas.MatchSound
import DisjointImpls.Lemmas.Names
namespace DI

/-! ### Every traversal of the indexer is a composition of primitive steps -/


/-- a relation between indexer states that every primitive step satisfies and that composes -/
structure IxRel (R : IxState → IxState → Prop) : Prop where
  refl : ∀ s, R s s
  trans : ∀ {s1 s2 s3}, R s1 s2 → R s2 s3 → R s1 s3
  lt : ∀ s x, R s (ltIdent s x)
  ty : ∀ s x, R s (tyIdent s x).1
  co : ∀ s x, R s (coIdent s x)

theorem IxRel.ex {R} (h : IxRel R) (s : IxState) (x : String) : R s (exIdent s x) := by
  unfold exIdent
  cases hh : (tyIdent s x).2 with
  | true => simp only [hh, if_true]; exact h.ty s x
  | false => simp only [hh]; exact h.trans (h.ty s x) (h.co _ x)

theorem ixL_rel {R} (h : IxRel R) : ∀ (ks : List T), (∀ t ∈ ks, ∀ s, R s (ixT s t)) → ∀ s, R s (ixL s ks)
  | [], _, s => by rw [ixL]; exact h.refl s
  | t :: ts, ih, s => by
      rw [ixL]
      exact h.trans (ih t (by simp) s) (ixL_rel h ts (fun t ht => ih t (List.mem_cons_of_mem _ ht)) _)

theorem ixT_rel {R} (h : IxRel R) : ∀ (t : T) (s : IxState), R s (ixT s t) := by
  apply T.ind
  · intro n s; rw [ixT]; exact h.ty s n
  · intro n s; rw [ixT]; exact h.ex s n
  · intro k as ks ih s
    unfold ixT
    split
    · next heq => cases heq
    · next heq => cases heq
    · exact h.refl s
    · exact h.refl s
    · exact h.refl s
    · exact h.lt s _
    · next qself path heq =>
      cases heq
      dsimp only
      refine h.trans (ih qself (by simp) s) (h.trans ?_ (ih path (by simp) _))
      split
      · exact h.ty _ _
      · exact h.refl _
    · next att qself path heq =>
      cases heq
      dsimp only
      refine h.trans (ih qself (by simp) s) (h.trans ?_ (ih path (by simp) _))
      split
      · exact h.ex _ _
      · exact h.refl _
    · next heq =>
      cases heq
      exact ixL_rel h ks ih s

theorem foldl_rel {R} (h : IxRel R) {α : Type} (f : IxState → α → IxState) (hf : ∀ s a, R s (f s a)) :
    ∀ (l : List α) (s : IxState), R s (l.foldl f s)
  | [], s => h.refl s
  | a :: l, s => h.trans (hf s a) (foldl_rel h f hf l _)

theorem ixRound_rel {R} (h : IxRel R) (s : IxState) (generics : T) : R s (ixRound s generics) := by
  have key : ∀ (l : List (Nat × T)) (s : IxState), R s (l.foldl (fun acc ip => match ip.2 with
      | .node _ [] [inner] => (match inner with
          | .node _ [] kids => ixL acc kids
          | _ => acc)
      | _ => acc) s) := by
    intro l s
    apply foldl_rel h
    intro acc ip
    split
    · split
      · exact ixL_rel h _ (fun t _ => ixT_rel h t) acc
      · exact h.refl acc
    · exact h.refl acc
  unfold ixRound
  dsimp only
  split
  · exact h.trans (key _ s) (ixT_rel h _ _)
  · exact key _ s

theorem ixLoop_rel {R} (h : IxRel R) : ∀ (fuel prev : Nat) (s : IxState) (generics : T),
    R s (ixLoop fuel prev s generics)
  | 0, _, s, _ => by rw [ixLoop]; exact h.refl s
  | fuel + 1, prev, s, generics => by
      rw [ixLoop]
      split
      · exact h.trans (ixRound_rel h s generics) (ixLoop_rel h fuel _ _ generics)
      · exact h.refl s

/-- the state the indexer starts from -/
def ixInit (item : T) : IxState :=
  let generics := (implGenerics item).getD (.node "?" [] [])
  ⟨kindNames generics "GenericParam::Lifetime", kindNames generics "GenericParam::Type",
   kindNames generics "GenericParam::Const", [], [], [], 0⟩

theorem indexImpl_rel {R} (h : IxRel R) (item : T) : R (ixInit item) (indexImpl item) := by
  unfold indexImpl
  exact h.trans (ixT_rel h item _) (ixLoop_rel h _ _ _ _)


/-! ### Invariants of the indexer -/

def IxState.idxs (s : IxState) : List Nat := s.ixLt.map Prod.snd ++ s.ixTy.map Prod.snd ++ s.ixCo.map Prod.snd
def IxState.namesLt (s : IxState) : List String := s.ixLt.map Prod.fst ++ s.unLt
def IxState.namesTy (s : IxState) : List String := s.ixTy.map Prod.fst ++ s.unTy
def IxState.namesCo (s : IxState) : List String := s.ixCo.map Prod.fst ++ s.unCo

/-- the indices handed out are exactly `0 … next-1`, each once, across the three kinds -/
def IdxInv (s : IxState) : Prop :=
  s.idxs.Nodup ∧ (∀ i, i ∈ s.idxs ↔ i < s.next) ∧ s.idxs.length = s.next

/-- invariant of the indexer: `IdxInv`, and per kind no name occurs twice among the indexed and the not yet
    indexed parameters (so a name is never both, and never indexed twice) -/
def IxInv (s : IxState) : Prop :=
  IdxInv s ∧ s.namesLt.Nodup ∧ s.namesTy.Nodup ∧ s.namesCo.Nodup

/-- the parameters of each kind stay the same, indexed or not -/
def SameNames (s s' : IxState) : Prop :=
  s'.namesLt.Perm s.namesLt ∧ s'.namesTy.Perm s.namesTy ∧ s'.namesCo.Perm s.namesCo

theorem names_step (ix : List (String × Nat)) (un : List String) (x : String) (n : Nat) (hx : x ∈ un) :
    ((ix ++ [(x, n)]).map Prod.fst ++ un.erase x).Perm (ix.map Prod.fst ++ un) := by
  simp only [List.map_append, List.map_cons, List.map_nil, List.append_assoc, List.singleton_append]
  exact List.Perm.append_left _ (List.perm_cons_erase hx).symm

theorem sameNames_rel : IxRel SameNames where
  refl s := ⟨List.Perm.refl _, List.Perm.refl _, List.Perm.refl _⟩
  trans h1 h2 := ⟨h2.1.trans h1.1, h2.2.1.trans h1.2.1, h2.2.2.trans h1.2.2⟩
  lt s x := by
    unfold ltIdent
    split
    · next h => exact ⟨names_step _ _ _ _ (by simpa using h), List.Perm.refl _, List.Perm.refl _⟩
    · exact ⟨List.Perm.refl _, List.Perm.refl _, List.Perm.refl _⟩
  ty s x := by
    unfold tyIdent
    split
    · next h => exact ⟨List.Perm.refl _, names_step _ _ _ _ (by simpa using h), List.Perm.refl _⟩
    · exact ⟨List.Perm.refl _, List.Perm.refl _, List.Perm.refl _⟩
  co s x := by
    unfold coIdent
    split
    · next h => exact ⟨List.Perm.refl _, List.Perm.refl _, names_step _ _ _ _ (by simpa using h)⟩
    · exact ⟨List.Perm.refl _, List.Perm.refl _, List.Perm.refl _⟩

theorem IdxInv.step {s s' : IxState} (h : IdxInv s) (hp : s'.idxs.Perm (s.next :: s.idxs))
    (hn : s'.next = s.next + 1) : IdxInv s' := by
  obtain ⟨h1, h2, h3⟩ := h
  refine ⟨hp.nodup_iff.2 (List.nodup_cons.2 ⟨fun hm => Nat.lt_irrefl _ ((h2 _).1 hm), h1⟩), ?_, ?_⟩
  · intro i
    rw [hp.mem_iff, List.mem_cons, h2, hn]
    omega
  · rw [hp.length_eq, List.length_cons, h3, hn]

theorem perm_ins1 (a b c : List Nat) (n : Nat) : ((a ++ [n]) ++ b ++ c).Perm (n :: (a ++ b ++ c)) := by
  have : (a ++ [n]) ++ b ++ c = a ++ n :: (b ++ c) := by simp
  rw [this, List.append_assoc]; exact List.perm_middle
theorem perm_ins2 (a b c : List Nat) (n : Nat) : (a ++ (b ++ [n]) ++ c).Perm (n :: (a ++ b ++ c)) := by
  have : a ++ (b ++ [n]) ++ c = (a ++ b) ++ n :: c := by simp
  rw [this]; exact List.perm_middle
theorem perm_ins3 (a b c : List Nat) (n : Nat) : (a ++ b ++ (c ++ [n])).Perm (n :: (a ++ b ++ c)) := by
  have : a ++ b ++ (c ++ [n]) = (a ++ b ++ c) ++ n :: [] := by simp
  rw [this]
  have := List.perm_middle (a := n) (l₁ := a ++ b ++ c) (l₂ := [])
  simpa using this

theorem idxInv_rel : IxRel (fun s s' => IdxInv s → IdxInv s') where
  refl _ h := h
  trans h1 h2 h := h2 (h1 h)
  lt s x h := by
    unfold ltIdent
    split
    · refine h.step ?_ rfl
      simp only [IxState.idxs, List.map_append, List.map_cons, List.map_nil]
      exact perm_ins1 _ _ _ _
    · exact h
  ty s x h := by
    unfold tyIdent
    split
    · refine h.step ?_ rfl
      simp only [IxState.idxs, List.map_append, List.map_cons, List.map_nil]
      exact perm_ins2 _ _ _ _
    · exact h
  co s x h := by
    unfold coIdent
    split
    · refine h.step ?_ rfl
      simp only [IxState.idxs, List.map_append, List.map_cons, List.map_nil]
      exact perm_ins3 _ _ _ _
    · exact h

/-- `IxInv` is preserved by everything the indexer does -/
theorem ixInv_rel : IxRel (fun s s' => IxInv s → IxInv s') where
  refl _ h := h
  trans h1 h2 h := h2 (h1 h)
  lt s x h := ⟨idxInv_rel.lt s x h.1, (sameNames_rel.lt s x).1.nodup_iff.2 h.2.1,
    (sameNames_rel.lt s x).2.1.nodup_iff.2 h.2.2.1, (sameNames_rel.lt s x).2.2.nodup_iff.2 h.2.2.2⟩
  ty s x h := ⟨idxInv_rel.ty s x h.1, (sameNames_rel.ty s x).1.nodup_iff.2 h.2.1,
    (sameNames_rel.ty s x).2.1.nodup_iff.2 h.2.2.1, (sameNames_rel.ty s x).2.2.nodup_iff.2 h.2.2.2⟩
  co s x h := ⟨idxInv_rel.co s x h.1, (sameNames_rel.co s x).1.nodup_iff.2 h.2.1,
    (sameNames_rel.co s x).2.1.nodup_iff.2 h.2.2.1, (sameNames_rel.co s x).2.2.nodup_iff.2 h.2.2.2⟩


/-! ### The resolver -/

theorem rsT_tparam (r : Renaming) (n : String) : rsT r (.tparam n) = .tparam ((rlookup r.ty n).getD n) := by
  rw [rsT]; cases rlookup r.ty n <;> rfl

theorem rsT_eparam (r : Renaming) (n : String) :
    rsT r (.eparam n) = .eparam (((rlookup r.ty n).or (rlookup r.co n)).getD n) := by
  rw [rsT]
  cases rlookup r.ty n with
  | some m => rfl
  | none => cases rlookup r.co n <;> rfl

theorem rsT_ign (r : Renaming) (as : List String) (ks : List T) : rsT r (.node "Ign" as ks) = .node "Ign" as ks := by
  rw [rsT]
theorem rsT_eq (r : Renaming) (as : List String) (ks : List T) : rsT r (.node "Eq" as ks) = .node "Eq" as ks := by
  rw [rsT]
theorem rsT_lifetime (r : Renaming) (as : List String) (x : String) :
    rsT r (.node "Lifetime" as [.node "Ident" [x] []]) = .node "Lifetime" as [.node "Ident" [(rlookup r.lt x).getD x] []] := by
  rw [rsT]
theorem rsT_typePath (r : Renaming) (as : List String) (q p : T) :
    rsT r (.node "Type::Path" as [q, p]) = rsTypePath r as (rsT r q) (rsT r p) := by
  rw [rsT]
theorem rsT_exprPath (r : Renaming) (as : List String) (a q p : T) :
    rsT r (.node "Expr::Path" as [a, q, p]) = rsExprPath r as (rsT r a) (rsT r q) (rsT r p) := by
  rw [rsT]

/-- every other kind is rebuilt around its rewritten children -/
theorem rsT_other (r : Renaming) {k : String} (as : List String) (ks : List T) (h1 : k ≠ "Ign") (h2 : k ≠ "Eq")
    (h3 : k ≠ "Lifetime") (h4 : k ≠ "Type::Path") (h5 : k ≠ "Expr::Path") :
    rsT r (.node k as ks) = .node k as (rsL r ks) := by
  unfold rsT
  split
  · next heq => cases heq
  · next heq => cases heq
  · next heq => cases heq; exact absurd rfl h1
  · next heq => cases heq; exact absurd rfl h2
  · next heq => cases heq; exact absurd rfl h3
  · next heq => cases heq; exact absurd rfl h4
  · next heq => cases heq; exact absurd rfl h5
  · next heq => cases heq; rfl

/-- the five ways `rsT` treats a node, as one case split -/
inductive RsNode (r : Renaming) (k : String) (as : List String) (ks : List T) : Prop
  | verbatim : (k = "Ign" ∨ k = "Eq") → rsT r (.node k as ks) = .node k as ks → RsNode r k as ks
  | lifetime (x : String) : k = "Lifetime" → ks = [.node "Ident" [x] []] →
      rsT r (.node k as ks) = .node "Lifetime" as [.node "Ident" [(rlookup r.lt x).getD x] []] → RsNode r k as ks
  | typePath (q p : T) : k = "Type::Path" → ks = [q, p] →
      rsT r (.node k as ks) = rsTypePath r as (rsT r q) (rsT r p) → RsNode r k as ks
  | exprPath (a q p : T) : k = "Expr::Path" → ks = [a, q, p] →
      rsT r (.node k as ks) = rsExprPath r as (rsT r a) (rsT r q) (rsT r p) → RsNode r k as ks
  | other : rsT r (.node k as ks) = .node k as (rsL r ks) → RsNode r k as ks

theorem rsT_node_cases (r : Renaming) (k : String) (as : List String) (ks : List T) : RsNode r k as ks := by
  have e : rsT r (.node k as ks) = rsT r (.node k as ks) := rfl
  conv at e => rhs; unfold rsT
  split at e
  · next heq => cases heq
  · next heq => cases heq
  · next heq => cases heq; exact .verbatim (Or.inl rfl) e
  · next heq => cases heq; exact .verbatim (Or.inr rfl) e
  · next x heq => cases heq; exact .lifetime x rfl rfl e
  · next q p heq => cases heq; exact .typePath q p rfl rfl e
  · next a q p heq => cases heq; exact .exprPath a q p rfl rfl e
  · next heq => cases heq; exact .other e

theorem rsL_eq_self {r : Renaming} : ∀ {ks : List T}, (∀ t ∈ ks, rsT r t = t) → rsL r ks = ks
  | [], _ => by rw [rsL]
  | t :: ts, h => by rw [rsL, h t (by simp), rsL_eq_self (fun t ht => h t (List.mem_cons_of_mem _ ht))]

theorem rlookup_nil (x : String) : rlookup [] x = none := rfl

/-- with the empty renaming nothing changes -/
theorem rsT_empty : ∀ t : T, rsT ⟨[], [], []⟩ t = t := by
  apply T.ind
  · intro n; rw [rsT_tparam]; rfl
  · intro n; rw [rsT_eparam]; rfl
  · intro k as ks ih
    cases rsT_node_cases ⟨[], [], []⟩ k as ks with
    | verbatim _ e => exact e
    | lifetime x hk hks e => rw [e, hk, hks]; rfl
    | typePath q p hk hks e =>
      subst hk hks
      rw [e, ih q (by simp), ih p (by simp)]
      unfold rsTypePath
      split
      · rfl
      · rfl
    | exprPath a q p hk hks e =>
      subst hk hks
      rw [e, ih a (by simp), ih q (by simp), ih p (by simp)]
      unfold rsExprPath
      split
      · rfl
      · rfl
    | other e => rw [e, rsL_eq_self ih]


/-! ### Identity renamings -/

/-- every entry maps a name to itself -/
def idMap (m : List (String × String)) : Bool := m.all (fun p => p.1 == p.2)
def Renaming.isId (r : Renaming) : Bool := idMap r.lt && idMap r.ty && idMap r.co

theorem rlookup_idMap : ∀ {m : List (String × String)} {x y : String}, idMap m = true → rlookup m x = some y → y = x
  | [], _, _, _, h => by cases h
  | (a, b) :: m, x, y, hid, h => by
      simp only [idMap, List.all_cons, Bool.and_eq_true, beq_iff_eq] at hid
      simp only [rlookup] at h
      split at h
      · next hax => cases h; rw [← hid.1, hax]
      · exact rlookup_idMap (by simpa [idMap] using hid.2) h

theorem getD_idMap {m : List (String × String)} (h : idMap m = true) (x : String) : (rlookup m x).getD x = x := by
  cases hl : rlookup m x with
  | none => rfl
  | some y => simp [rlookup_idMap h hl]

mutual
/-- no path whose first segment is a renamed name (those are rebuilt by the resolver, even by an identity
    renaming: `T::A` becomes `<T>::A`) -/
def rsStable (r : Renaming) : T → Bool
  | .tparam _ => true
  | .eparam _ => true
  | .node "Ign" _ _ => true
  | .node "Eq" _ _ => true
  | .node "Lifetime" _ [.node "Ident" [_] []] => true
  | .node "Type::Path" _ [qself, path] =>
      rsStable r qself && rsStable r path &&
      (match firstSegIdent path with | some x => (rlookup r.ty x).isNone | none => true)
  | .node "Expr::Path" _ [att, qself, path] =>
      rsStable r att && rsStable r qself && rsStable r path &&
      (match firstSegIdent path with | some x => (rlookup r.ty x).isNone && (rlookup r.co x).isNone | none => true)
  | .node _ _ ks => rsStableL r ks
def rsStableL (r : Renaming) : List T → Bool
  | [] => true
  | t :: ts => rsStable r t && rsStableL r ts
end

theorem rsStableL_iff {r : Renaming} : ∀ {ks : List T}, rsStableL r ks = true ↔ ∀ t ∈ ks, rsStable r t = true
  | [] => by simp [rsStableL]
  | t :: ts => by simp [rsStableL, rsStableL_iff (ks := ts)]

/-- a node the resolver (and `rsStable`) treats by the default arm -/
def NodeOther (k : String) (ks : List T) : Prop :=
  k ≠ "Ign" ∧ k ≠ "Eq" ∧ (∀ x, ¬ (k = "Lifetime" ∧ ks = [.node "Ident" [x] []])) ∧
  (∀ q p, ¬ (k = "Type::Path" ∧ ks = [q, p])) ∧ (∀ a q p, ¬ (k = "Expr::Path" ∧ ks = [a, q, p]))

theorem node_shape (k : String) (ks : List T) :
    (k = "Ign" ∨ k = "Eq") ∨ (∃ x, k = "Lifetime" ∧ ks = [.node "Ident" [x] []]) ∨
    (∃ q p, k = "Type::Path" ∧ ks = [q, p]) ∨ (∃ a q p, k = "Expr::Path" ∧ ks = [a, q, p]) ∨ NodeOther k ks := by
  by_cases h1 : k = "Ign" ∨ k = "Eq"
  · exact Or.inl h1
  by_cases h2 : ∃ x, k = "Lifetime" ∧ ks = [.node "Ident" [x] []]
  · exact Or.inr (Or.inl h2)
  by_cases h3 : ∃ q p, k = "Type::Path" ∧ ks = [q, p]
  · exact Or.inr (Or.inr (Or.inl h3))
  by_cases h4 : ∃ a q p, k = "Expr::Path" ∧ ks = [a, q, p]
  · exact Or.inr (Or.inr (Or.inr (Or.inl h4)))
  refine Or.inr (Or.inr (Or.inr (Or.inr ⟨fun e => h1 (Or.inl e), fun e => h1 (Or.inr e), ?_, ?_, ?_⟩)))
  · exact fun x hx => h2 ⟨x, hx⟩
  · exact fun q p hx => h3 ⟨q, p, hx⟩
  · exact fun a q p hx => h4 ⟨a, q, p, hx⟩

theorem rsT_of_other (r : Renaming) {k : String} (as : List String) {ks : List T} (h : NodeOther k ks) :
    rsT r (.node k as ks) = .node k as (rsL r ks) := by
  obtain ⟨h1, h2, h3, h4, h5⟩ := h
  unfold rsT
  split
  · next heq => cases heq
  · next heq => cases heq
  · next heq => cases heq; exact absurd rfl h1
  · next heq => cases heq; exact absurd rfl h2
  · next x heq => cases heq; exact absurd ⟨rfl, rfl⟩ (h3 x)
  · next q p heq => cases heq; exact absurd ⟨rfl, rfl⟩ (h4 q p)
  · next a q p heq => cases heq; exact absurd ⟨rfl, rfl⟩ (h5 a q p)
  · next heq => cases heq; rfl

theorem rsStable_of_other (r : Renaming) {k : String} (as : List String) {ks : List T} (h : NodeOther k ks) :
    rsStable r (.node k as ks) = rsStableL r ks := by
  obtain ⟨h1, h2, h3, h4, h5⟩ := h
  unfold rsStable
  split
  · next heq => cases heq
  · next heq => cases heq
  · next heq => cases heq; exact absurd rfl h1
  · next heq => cases heq; exact absurd rfl h2
  · next x heq => cases heq; exact absurd ⟨rfl, rfl⟩ (h3 x)
  · next q p heq => cases heq; exact absurd ⟨rfl, rfl⟩ (h4 q p)
  · next a q p heq => cases heq; exact absurd ⟨rfl, rfl⟩ (h5 a q p)
  · next heq => cases heq; rfl

/-- an identity renaming leaves a tree without renamed path heads unchanged -/
theorem rsT_id (r : Renaming) (hid : r.isId = true) : ∀ t : T, rsStable r t = true → rsT r t = t := by
  simp only [Renaming.isId, Bool.and_eq_true] at hid
  obtain ⟨⟨hlt, hty⟩, hco⟩ := hid
  apply T.ind
  · intro n _; rw [rsT_tparam, getD_idMap hty]
  · intro n _
    rw [rsT_eparam]
    cases h1 : rlookup r.ty n with
    | some y => simp [rlookup_idMap hty h1]
    | none =>
      cases h2 : rlookup r.co n with
      | some y => simp [rlookup_idMap hco h2]
      | none => rfl
  · intro k as ks ih hst
    rcases node_shape k ks with h | ⟨x, rfl, rfl⟩ | ⟨q, p, rfl, rfl⟩ | ⟨a, q, p, rfl, rfl⟩ | h
    · rcases h with rfl | rfl
      · exact rsT_ign r as ks
      · exact rsT_eq r as ks
    · rw [rsT_lifetime, getD_idMap hlt]
    · rw [rsStable] at hst
      simp only [Bool.and_eq_true] at hst
      obtain ⟨⟨hq, hp⟩, hf⟩ := hst
      rw [rsT_typePath, ih q (by simp) hq, ih p (by simp) hp]
      unfold rsTypePath
      cases hfs : firstSegIdent p with
      | none => rfl
      | some x =>
        rw [hfs] at hf
        simp only [Option.isNone_iff_eq_none] at hf
        simp only [hf]
    · rw [rsStable] at hst
      simp only [Bool.and_eq_true] at hst
      obtain ⟨⟨⟨ha, hq⟩, hp⟩, hf⟩ := hst
      rw [rsT_exprPath, ih a (by simp) ha, ih q (by simp) hq, ih p (by simp) hp]
      unfold rsExprPath
      cases hfs : firstSegIdent p with
      | none => rfl
      | some x =>
        rw [hfs] at hf
        simp only [Bool.and_eq_true, Option.isNone_iff_eq_none] at hf
        simp only [hf.1, hf.2]
    · rw [rsStable_of_other r as h] at hst
      rw [rsT_of_other r as h, rsL_eq_self (fun t ht => ih t ht (rsStableL_iff.1 hst t ht))]


theorem renameDecl_id (r : Renaming) (hid : r.isId = true) (t : T) : renameDecl r t = t := by
  simp only [Renaming.isId, Bool.and_eq_true] at hid
  unfold renameDecl
  split
  · rw [getD_idMap hid.1.2]
  · rw [getD_idMap hid.2]
  · rfl

theorem renameImplDecls_id (r : Renaming) (hid : r.isId = true) (t : T) : renameImplDecls r t = t := by
  unfold renameImplDecls
  split
  · next a d u g tr s items =>
    have : renameGenerics r g = g := by
      unfold renameGenerics
      split
      · next lt ps gt wc =>
        have : ps.map (renameDecl r) = ps := by
          rw [List.map_congr_left (g := id) (fun p _ => renameDecl_id r hid p), List.map_id]
        rw [this]
      · rfl
    rw [this]
  · rfl

/-- the declared names are already the canonical ones, in first-occurrence order, and no path starts with one
    of them (executable) -/
def alreadyCanonical (item : T) : Bool :=
  (indexImpl item).renaming.isId && rsStable (indexImpl item).renaming item

theorem canon_fixed (item : T) (h : alreadyCanonical item = true) : canon item = item := by
  simp only [alreadyCanonical, Bool.and_eq_true] at h
  unfold canon
  simp only
  rw [renameImplDecls_id _ h.1, rsT_id _ h.1 _ h.2]

/-! ### What the indexer establishes for an impl -/

theorem ixInit_inv (item : T)
    (hlt : (ixInit item).unLt.Nodup) (hty : (ixInit item).unTy.Nodup) (hco : (ixInit item).unCo.Nodup) :
    IxInv (ixInit item) := by
  refine ⟨⟨?_, ?_, ?_⟩, ?_, ?_, ?_⟩
  · simp [IxState.idxs, ixInit]
  · intro i; simp [IxState.idxs, ixInit]
  · simp [IxState.idxs, ixInit]
  · simpa [IxState.namesLt, ixInit] using hlt
  · simpa [IxState.namesTy, ixInit] using hty
  · simpa [IxState.namesCo, ixInit] using hco

theorem indexImpl_inv (item : T)
    (hlt : (ixInit item).unLt.Nodup) (hty : (ixInit item).unTy.Nodup) (hco : (ixInit item).unCo.Nodup) :
    IxInv (indexImpl item) :=
  indexImpl_rel ixInv_rel item (ixInit_inv item hlt hty hco)

/-- the index part needs no hypothesis -/
theorem indexImpl_idxInv (item : T) : IdxInv (indexImpl item) := by
  apply indexImpl_rel idxInv_rel item
  refine ⟨?_, ?_, ?_⟩
  · simp [IxState.idxs, ixInit]
  · intro i; simp [IxState.idxs, ixInit]
  · simp [IxState.idxs, ixInit]

theorem renaming_new_names (s : IxState) :
    (s.renaming.lt ++ s.renaming.ty ++ s.renaming.co).map Prod.snd = s.idxs.map genIndexedIdent := by
  simp [IxState.renaming, IxState.idxs, List.map_map, Function.comp_def]

theorem genIndexedIdent_inj {i j : Nat} (h : genIndexedIdent i = genIndexedIdent j) : i = j := by
  unfold genIndexedIdent at h
  exact toString_nat_inj ((String.append_right_inj _).1 h)

end DI
