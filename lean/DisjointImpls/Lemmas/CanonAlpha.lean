/-
  Alpha-invariance of parameter canonicalisation (C13 / C06): consistently respelling the declared generic parameters
  of an impl (`alphaRename π item`: declarations, lifetimes, lone type / expression paths, the first segment of longer
  paths — nothing else) does not change the canonical item. Statements: `Props/C13.lean` (`C13_alpha_*`).

  Indexing the respelled item from the state with respelled names is indexing the item and respelling the names of the
  resulting state (`indexImpl_commA`, the analogue of `indexImpl_comm` of `Lemmas/CanonIdem.lean` for the textual
  renaming), so the renaming computed for the respelled item sends the new spelling of a parameter to the canonical name
  of the parameter (`Comp`), and resolving the respelled item with it gives the same tree (`rsT_arT`).
-/
import DisjointImpls.CanonAlphaDefs
import DisjointImpls.Lemmas.CanonIdem
import DisjointImpls.Lemmas.CanonDeclOrder
namespace DI

/-! ### Shapes -/

theorem arT_tparam (π : Renaming) (n : String) : arT π (.tparam n) = .tparam (rn π.ty n) := by rw [arT]
theorem arT_eparam (π : Renaming) (n : String) : arT π (.eparam n) = .eparam (exW π n) := by rw [arT]; rfl
theorem arT_ign (π : Renaming) (as : List String) (ks : List T) : arT π (.node "Ign" as ks) = .node "Ign" as ks := by rw [arT]
theorem arT_eq (π : Renaming) (as : List String) (ks : List T) : arT π (.node "Eq" as ks) = .node "Eq" as ks := by rw [arT]
theorem arT_lifetime (π : Renaming) (as : List String) (x : String) :
    arT π (.node "Lifetime" as [.node "Ident" [x] []]) = .node "Lifetime" as [.node "Ident" [rn π.lt x] []] := by rw [arT]
theorem arT_typePath (π : Renaming) (as : List String) (q p : T) :
    arT π (.node "Type::Path" as [q, p]) = .node "Type::Path" as [arT π q, mapHead (rn π.ty) (arT π p)] := by rw [arT]
theorem arT_exprPath (π : Renaming) (as : List String) (a q p : T) :
    arT π (.node "Expr::Path" as [a, q, p]) =
      .node "Expr::Path" as [arT π a, arT π q, mapHead (exW π) (arT π p)] := by rw [arT]; rfl

theorem arT_of_other (π : Renaming) {k : String} (as : List String) {ks : List T} (h : NodeOther k ks) :
    arT π (.node k as ks) = .node k as (arL π ks) := by
  obtain ⟨h1, h2, h3, h4, h5⟩ := h
  unfold arT
  split
  · next heq => cases heq
  · next heq => cases heq
  · next heq => cases heq; exact absurd rfl h1
  · next heq => cases heq; exact absurd rfl h2
  · next x heq => cases heq; exact absurd ⟨rfl, rfl⟩ (h3 x)
  · next q p heq => cases heq; exact absurd ⟨rfl, rfl⟩ (h4 q p)
  · next a q p heq => cases heq; exact absurd ⟨rfl, rfl⟩ (h5 a q p)
  · next heq => cases heq; rfl

theorem arT_other (π : Renaming) {k : String} (as : List String) (ks : List T) (h1 : k ≠ "Ign") (h2 : k ≠ "Eq")
    (h3 : k ≠ "Lifetime") (h4 : k ≠ "Type::Path") (h5 : k ≠ "Expr::Path") :
    arT π (.node k as ks) = .node k as (arL π ks) :=
  arT_of_other π as (nodeOther_of_ne ks h1 h2 h3 h4 h5)

theorem alOK_of_other (c : CCtx) {k : String} (as : List String) {ks : List T} (h : NodeOther k ks) :
    alOK c (.node k as ks) = alOKL c ks := by
  obtain ⟨h1, h2, h3, h4, h5⟩ := h
  unfold alOK
  split
  · next heq => cases heq
  · next heq => cases heq
  · next heq => cases heq; exact absurd rfl h1
  · next heq => cases heq; exact absurd rfl h2
  · next x heq => cases heq; exact absurd ⟨rfl, rfl⟩ (h3 x)
  · next q p heq => cases heq; exact absurd ⟨rfl, rfl⟩ (h4 q p)
  · next a q p heq => cases heq; exact absurd ⟨rfl, rfl⟩ (h5 a q p)
  · next heq => cases heq; rfl

theorem alOK_node (c : CCtx) {k : String} (as : List String) (ks : List T) (h1 : k ≠ "Ign") (h2 : k ≠ "Eq")
    (h3 : k ≠ "Lifetime") (h4 : k ≠ "Type::Path") (h5 : k ≠ "Expr::Path") :
    alOK c (.node k as ks) = alOKL c ks :=
  alOK_of_other c as (nodeOther_of_ne ks h1 h2 h3 h4 h5)

theorem alOKL_nil (c : CCtx) : alOKL c [] = true := by rw [alOKL]
theorem alOKL_cons (c : CCtx) (t : T) (ts : List T) : alOKL c (t :: ts) = (alOK c t && alOKL c ts) := by rw [alOKL]

theorem alOKL_iff {c : CCtx} : ∀ {ks : List T}, alOKL c ks = true ↔ ∀ t ∈ ks, alOK c t = true
  | [] => by simp [alOKL]
  | t :: ts => by simp [alOKL, alOKL_iff (ks := ts)]

theorem alOK_typePath_inv {c : CCtx} {as : List String} {q p : T} (h : alOK c (.node "Type::Path" as [q, p]) = true) :
    alOK c q = true ∧ alOK c p = true ∧ ∀ x, firstSegIdent p = some x → okTy c x = true := by
  rw [alOK] at h
  simp only [Bool.and_eq_true] at h
  obtain ⟨⟨hq, hp⟩, hm⟩ := h
  refine ⟨hq, hp, fun x hx => ?_⟩
  rw [hx] at hm
  exact hm

theorem alOK_exprPath_inv {c : CCtx} {as : List String} {a q p : T}
    (h : alOK c (.node "Expr::Path" as [a, q, p]) = true) :
    alOK c a = true ∧ alOK c q = true ∧ alOK c p = true ∧ ∀ x, firstSegIdent p = some x → okEx c x = true := by
  rw [alOK] at h
  simp only [Bool.and_eq_true] at h
  obtain ⟨⟨⟨ha, hq⟩, hp⟩, hm⟩ := h
  refine ⟨ha, hq, hp, fun x hx => ?_⟩
  rw [hx] at hm
  exact hm

theorem arL_nil (π : Renaming) : arL π [] = [] := by rw [arL]
theorem arL_cons (π : Renaming) (t : T) (ts : List T) : arL π (t :: ts) = arT π t :: arL π ts := by rw [arL]

theorem arL_map (π : Renaming) : ∀ l : List T, arL π l = l.map (arT π)
  | [] => by rw [arL_nil]; rfl
  | t :: ts => by rw [arL_cons, arL_map π ts]; rfl

/-- a node of an ordinary kind comes from a node of that kind, rebuilt around its respelled children -/
theorem arT_inv {π : Renaming} {t : T} {k : String} {as : List String} {ks' : List T}
    (h1 : k ≠ "Ign") (h2 : k ≠ "Eq") (h3 : k ≠ "Lifetime") (h4 : k ≠ "Type::Path") (h5 : k ≠ "Expr::Path")
    (h : arT π t = .node k as ks') : ∃ ks, t = .node k as ks ∧ ks' = arL π ks := by
  cases t with
  | tparam n => rw [arT_tparam] at h; cases h
  | eparam n => rw [arT_eparam] at h; cases h
  | node k0 as0 ks0 =>
    rcases node_shape k0 ks0 with hh | ⟨x, rfl, rfl⟩ | ⟨q, p, rfl, rfl⟩ | ⟨a, q, p, rfl, rfl⟩ | hh
    · rcases hh with rfl | rfl
      · rw [arT_ign] at h; cases h; exact absurd rfl h1
      · rw [arT_eq] at h; cases h; exact absurd rfl h2
    · rw [arT_lifetime] at h; cases h; exact absurd rfl h3
    · rw [arT_typePath] at h; cases h; exact absurd rfl h4
    · rw [arT_exprPath] at h; cases h; exact absurd rfl h5
    · rw [arT_of_other π as0 hh] at h
      cases h
      exact ⟨ks0, rfl, rfl⟩

theorem arL_eq_nil {π : Renaming} {ks : List T} (h : arL π ks = []) : ks = [] := by
  cases ks with
  | nil => rfl
  | cons t ts => rw [arL_cons] at h; cases h

theorem arL_eq_cons {π : Renaming} {ks : List T} {t' : T} {ts' : List T} (h : arL π ks = t' :: ts') :
    ∃ t ts, ks = t :: ts ∧ arT π t = t' ∧ arL π ts = ts' := by
  cases ks with
  | nil => rw [arL_nil] at h; cases h
  | cons t ts => rw [arL_cons] at h; cases h; exact ⟨t, ts, rfl, rfl, rfl⟩

theorem arT_leaf (π : Renaming) {k : String} (as : List String) (h1 : k ≠ "Ign") (h2 : k ≠ "Eq") (h3 : k ≠ "Lifetime")
    (h4 : k ≠ "Type::Path") (h5 : k ≠ "Expr::Path") : arT π (.node k as []) = .node k as [] := by
  rw [arT_other π as [] h1 h2 h3 h4 h5, arL_nil]

theorem arT_identLeaf (π : Renaming) (x : String) : arT π (.node "Ident" [x] []) = .node "Ident" [x] [] :=
  arT_leaf π _ (by decide) (by decide) (by decide) (by decide) (by decide)
theorem arT_pathSegment (π : Renaming) (as : List String) (ks : List T) :
    arT π (.node "PathSegment" as ks) = .node "PathSegment" as (arL π ks) :=
  arT_other π as ks (by decide) (by decide) (by decide) (by decide) (by decide)
theorem arT_list (π : Renaming) (as : List String) (ks : List T) :
    arT π (.node "List" as ks) = .node "List" as (arL π ks) :=
  arT_other π as ks (by decide) (by decide) (by decide) (by decide) (by decide)
theorem arT_path (π : Renaming) (as : List String) (ks : List T) :
    arT π (.node "Path" as ks) = .node "Path" as (arL π ks) :=
  arT_other π as ks (by decide) (by decide) (by decide) (by decide) (by decide)

theorem headIdent_arL (π : Renaming) (segs : List T) : headIdent (arL π segs) = headIdent segs := by
  cases h : headIdent segs with
  | some x =>
    obtain ⟨b, rest, rfl⟩ := headIdent_some h
    rw [arL_cons, arT_pathSegment, arL_cons, arL_cons, arL_nil, arT_identLeaf]
    rfl
  | none =>
    cases h' : headIdent (arL π segs) with
    | none => rfl
    | some x =>
      exfalso
      obtain ⟨b', rest', e⟩ := headIdent_some h'
      obtain ⟨t, ts, rfl, e1, _⟩ := arL_eq_cons e
      obtain ⟨ks, rfl, e2⟩ := arT_inv (by decide) (by decide) (by decide) (by decide) (by decide) e1
      obtain ⟨i, ks2, rfl, e3, e4⟩ := arL_eq_cons e2.symm
      obtain ⟨b, ks3, rfl, _, e5⟩ := arL_eq_cons e4
      cases arL_eq_nil e5
      obtain ⟨ks4, rfl, e6⟩ := arT_inv (by decide) (by decide) (by decide) (by decide) (by decide) e3
      cases arL_eq_nil e6.symm
      simp [headIdent] at h

theorem firstSegIdent_arT (π : Renaming) (p : T) : firstSegIdent (arT π p) = firstSegIdent p := by
  cases h : firstSegIdent p with
  | some x =>
    obtain ⟨a, segs, rfl, hs⟩ := firstSegIdent_some h
    rw [arT_path, arL_cons, arL_cons, arL_nil, arT_list, firstSegIdent_eq, headIdent_arL, hs]
  | none =>
    cases h' : firstSegIdent (arT π p) with
    | none => rfl
    | some x =>
      exfalso
      obtain ⟨a', segs', e, hs⟩ := firstSegIdent_some h'
      obtain ⟨ks, rfl, e2⟩ := arT_inv (by decide) (by decide) (by decide) (by decide) (by decide) e
      obtain ⟨a, ks2, rfl, _, e4⟩ := arL_eq_cons e2.symm
      obtain ⟨l, ks3, rfl, e5, e6⟩ := arL_eq_cons e4
      cases arL_eq_nil e6
      obtain ⟨segs, rfl, e7⟩ := arT_inv (by decide) (by decide) (by decide) (by decide) (by decide) e5
      rw [firstSegIdent_eq, ← headIdent_arL π, ← e7, hs] at h
      cases h

theorem nodeOther_arL (π : Renaming) {k : String} {ks : List T} (h : NodeOther k ks) : NodeOther k (arL π ks) := by
  obtain ⟨h1, h2, h3, h4, h5⟩ := h
  refine ⟨h1, h2, ?_, ?_, ?_⟩
  · rintro x ⟨rfl, e⟩
    obtain ⟨t, ts, rfl, e1, e2⟩ := arL_eq_cons e
    cases arL_eq_nil e2
    obtain ⟨ks', rfl, e3⟩ := arT_inv (by decide) (by decide) (by decide) (by decide) (by decide) e1
    cases arL_eq_nil e3.symm
    exact h3 x ⟨rfl, rfl⟩
  · rintro q p ⟨rfl, e⟩
    obtain ⟨t, ts, rfl, _, e2⟩ := arL_eq_cons e
    obtain ⟨t2, ts2, rfl, _, e3⟩ := arL_eq_cons e2
    cases arL_eq_nil e3
    exact h4 _ _ ⟨rfl, rfl⟩
  · rintro a q p ⟨rfl, e⟩
    obtain ⟨t, ts, rfl, _, e2⟩ := arL_eq_cons e
    obtain ⟨t2, ts2, rfl, _, e3⟩ := arL_eq_cons e2
    obtain ⟨t3, ts3, rfl, _, e4⟩ := arL_eq_cons e3
    cases arL_eq_nil e4
    exact h5 _ _ _ ⟨rfl, rfl⟩

/-! ### `mapHead` -/

/-- a path with a first segment -/
theorem path_of_firstSeg {p : T} {x : String} (h : firstSegIdent p = some x) :
    ∃ a args rest, p = .node "Path" [] [a, .node "List" [] (.node "PathSegment" [] [.node "Ident" [x] [], args] :: rest)] := by
  obtain ⟨a, segs, rfl, hs⟩ := firstSegIdent_some h
  obtain ⟨b, rest, rfl⟩ := headIdent_some hs
  exact ⟨a, b, rest, rfl⟩

theorem mapHead_none (f : String → String) {p : T} (h : firstSegIdent p = none) : mapHead f p = p := by
  unfold mapHead
  split
  · next a x args rest => simp [firstSegIdent] at h
  · rfl

theorem firstSegIdent_mapHead (f : String → String) (p : T) :
    firstSegIdent (mapHead f p) = (firstSegIdent p).map f := by
  cases h : firstSegIdent p with
  | none => rw [mapHead_none f h, h]; rfl
  | some x => obtain ⟨a, args, rest, rfl⟩ := path_of_firstSeg h; rfl

theorem restSegments_mapHead (f : String → String) (p : T) : restSegments (mapHead f p) = restSegments p := by
  cases h : firstSegIdent p with
  | none => rw [mapHead_none f h]
  | some x => obtain ⟨a, args, rest, rfl⟩ := path_of_firstSeg h; rfl

theorem mapHead_id {f : String → String} {p : T} (h : ∀ x, firstSegIdent p = some x → f x = x) : mapHead f p = p := by
  cases hp : firstSegIdent p with
  | none => exact mapHead_none f hp
  | some x =>
    obtain ⟨a, args, rest, rfl⟩ := path_of_firstSeg hp
    show T.node "Path" [] [a, .node "List" [] (.node "PathSegment" [] [.node "Ident" [f x] [], args] :: rest)] = _
    rw [h x hp]

theorem ixT_seg (s : IxState) (x : String) (args : T) :
    ixT s (.node "PathSegment" [] [.node "Ident" [x] [], args]) = ixT s args := by
  rw [ixT_node _ [] _ (by decide) (by decide) (by decide) (by decide) (by decide) (by decide), ixL_cons, ixL_cons, ixL_nil,
    ixT_identLeaf]

theorem ixT_mapHead (f : String → String) (s : IxState) (p : T) : ixT s (mapHead f p) = ixT s p := by
  cases h : firstSegIdent p with
  | none => rw [mapHead_none f h]
  | some x =>
    obtain ⟨a, args, rest, rfl⟩ := path_of_firstSeg h
    show ixT s (.node "Path" [] [a, .node "List" [] (.node "PathSegment" [] [.node "Ident" [f x] [], args] :: rest)]) = _
    rw [ixT_pathNode, ixT_pathNode, ixL_cons, ixL_cons, ixT_seg, ixT_seg]

theorem rsT_mapHead (r : Renaming) (f : String → String) (p : T) : rsT r (mapHead f p) = mapHead f (rsT r p) := by
  cases h : firstSegIdent p with
  | none =>
    rw [mapHead_none f h, mapHead_none f (by rw [firstSegIdent_rsT, h])]
  | some x =>
    obtain ⟨a, args, rest, rfl⟩ := path_of_firstSeg h
    show rsT r (.node "Path" [] [a, .node "List" [] (.node "PathSegment" [] [.node "Ident" [f x] [], args] :: rest)]) = _
    rw [rsT_path, rsL_cons, rsL_cons, rsL_nil, rsT_list, rsL_cons, rsT_pathSegment, rsL_cons, rsL_cons, rsL_nil,
      rsT_identLeaf, rsT_path, rsL_cons, rsL_cons, rsL_nil, rsT_list, rsL_cons, rsT_pathSegment, rsL_cons, rsL_cons,
      rsL_nil, rsT_identLeaf]
    rfl

/-! ### Indexing commutes with the textual renaming -/

theorem ixL_commA_of {c : CCtx} : ∀ (ks : List T),
    (∀ t ∈ ks, alOK c t = true → ∀ s, Un c s → ixT (mapS c.r s) (arT c.r t) = mapS c.r (ixT s t)) →
    alOKL c ks = true → ∀ s, Un c s → ixL (mapS c.r s) (arL c.r ks) = mapS c.r (ixL s ks)
  | [], _, _, s, _ => by rw [arL_nil, ixL_nil, ixL_nil]
  | t :: ts, ih, hok, s, hu => by
      rw [arL_cons, ixL_cons, ixL_cons]
      have hok' := alOKL_iff.1 hok
      rw [ih t (by simp) (hok' t (by simp)) s hu]
      exact ixL_commA_of ts (fun t' ht' => ih t' (List.mem_cons_of_mem _ ht'))
        (alOKL_iff.2 (fun t' ht' => hok' t' (List.mem_cons_of_mem _ ht'))) _ (hu.ixT t)

/-- indexing the respelled tree from the state with respelled names is indexing the tree, then respelling the names
    of the state -/
theorem ixT_commA (c : CCtx) (st : Stat c) : ∀ t : T, alOK c t = true → ∀ s, Un c s →
    ixT (mapS c.r s) (arT c.r t) = mapS c.r (ixT s t) := by
  apply T.ind
  · intro n hok s hu
    rw [alOK] at hok
    rw [arT_tparam, ixT_tparam, ixT_tparam, tyIdent_comm c.r s n (rn c.r.ty n) (keyOK_ty st hu hok)]
  · intro n hok s hu
    rw [alOK] at hok
    rw [arT_eparam, ixT_eparam, ixT_eparam]
    obtain ⟨h1, h2⟩ := keyOK_ex st hu hok
    exact exIdent_comm c.r s n (exW c.r n) h1 h2
  · intro k as ks ih hok s hu
    rcases node_shape k ks with h | ⟨x, rfl, rfl⟩ | ⟨q, p, rfl, rfl⟩ | ⟨a, q, p, rfl, rfl⟩ | h
    · rcases h with rfl | rfl
      · rw [arT_ign, ixT_ign, ixT_ign]
      · rw [arT_eq, ixT_eq, ixT_eq]
    · rw [alOK] at hok
      rw [arT_lifetime, ixT_lifetime, ixT_lifetime]
      exact ltIdent_comm c.r s x _ (keyOK_lt st hu hok)
    · obtain ⟨hq, hp, hx⟩ := alOK_typePath_inv hok
      have ihq := ih q (by simp) hq
      have ihp := ih p (by simp) hp
      rw [arT_typePath, ixT_typePath, ixT_typePath, firstSegIdent_mapHead, firstSegIdent_arT, ixT_mapHead, ihq s hu]
      cases hf : firstSegIdent p with
      | none => exact ihp _ (hu.ixT q)
      | some x =>
        simp only [Option.map_some]
        rw [tyIdent_comm c.r (ixT s q) x (rn c.r.ty x) (keyOK_ty st (hu.ixT q) (hx x hf))]
        exact ihp _ ((hu.ixT q).ty x)
    · obtain ⟨_, hq, hp, hx⟩ := alOK_exprPath_inv hok
      have ihq := ih q (by simp) hq
      have ihp := ih p (by simp) hp
      rw [arT_exprPath, ixT_exprPath, ixT_exprPath, firstSegIdent_mapHead, firstSegIdent_arT, ixT_mapHead, ihq s hu]
      cases hf : firstSegIdent p with
      | none => exact ihp _ (hu.ixT q)
      | some x =>
        simp only [Option.map_some]
        obtain ⟨k1, k2⟩ := keyOK_ex st (hu.ixT q) (hx x hf)
        rw [exIdent_comm c.r (ixT s q) x (exW c.r x) k1 k2]
        exact ihp _ ((hu.ixT q).ex x)
    · by_cases hg : k = "Generics"
      · subst hg
        rw [arT_of_other c.r as h, ixT_generics, ixT_generics]
      · rw [alOK_of_other c as h] at hok
        rw [arT_of_other c.r as h, ixT_of_other _ as (nodeOther_arL c.r h) hg, ixT_of_other _ as h hg]
        exact ixL_commA_of ks ih hok s hu

theorem ixL_commA (c : CCtx) (st : Stat c) (ks : List T) (hok : alOKL c ks = true) (s : IxState) (hu : Un c s) :
    ixL (mapS c.r s) (arL c.r ks) = mapS c.r (ixL s ks) :=
  ixL_commA_of ks (fun t _ => ixT_commA c st t) hok s hu

/-! ### The declarations -/

/-- what the textual renaming does to a declared parameter -/
def declA (π : Renaming) (p : T) : T := arT π (renameDecl π p)

/-- everything the proof needs to know about a declared parameter of kind `k` named `y` -/
structure PShapeA (c : CCtx) (p : T) (k : PK) (y : String) : Prop where
  ident : paramIdent p = some y
  identA : paramIdent (declA c.r p) = some (c.ρ k y)
  sel : ∀ k', kindSel (kindStr k') p = if k' = k then some y else none
  selA : ∀ k', kindSel (kindStr k') (declA c.r p) = if k' = k then some (c.ρ k y) else none
  guard : ltGuard p = !k.ns
  guardA : ltGuard (declA c.r p) = !k.ns
  kids : ∃ K K2 kids kids', p = .node K [] [.node K2 [] kids] ∧ declA c.r p = .node K [] [.node K2 [] kids'] ∧
      (∀ s, ixL s kids' = ixL s (arL c.r kids)) ∧ (alOK c p = true → alOKL c kids = true)

theorem arT_gpType (π : Renaming) (ks : List T) :
    arT π (.node "GenericParam::Type" [] [.node "TypeParam" [] ks]) = .node "GenericParam::Type" [] [.node "TypeParam" [] (arL π ks)] := by
  rw [arT_other π _ _ (by decide) (by decide) (by decide) (by decide) (by decide), arL_cons, arL_nil,
    arT_other π _ _ (by decide) (by decide) (by decide) (by decide) (by decide)]
theorem arT_gpConst (π : Renaming) (ks : List T) :
    arT π (.node "GenericParam::Const" [] [.node "ConstParam" [] ks]) = .node "GenericParam::Const" [] [.node "ConstParam" [] (arL π ks)] := by
  rw [arT_other π _ _ (by decide) (by decide) (by decide) (by decide) (by decide), arL_cons, arL_nil,
    arT_other π _ _ (by decide) (by decide) (by decide) (by decide) (by decide)]
theorem arT_gpLt (π : Renaming) (ks : List T) :
    arT π (.node "GenericParam::Lifetime" [] [.node "LifetimeParam" [] ks]) = .node "GenericParam::Lifetime" [] [.node "LifetimeParam" [] (arL π ks)] := by
  rw [arT_other π _ _ (by decide) (by decide) (by decide) (by decide) (by decide), arL_cons, arL_nil,
    arT_other π _ _ (by decide) (by decide) (by decide) (by decide) (by decide)]

theorem alOK_two (c : CCtx) {K K2 : String} (kids : List T)
    (h1 : K ≠ "Ign") (h2 : K ≠ "Eq") (h3 : K ≠ "Lifetime") (h4 : K ≠ "Type::Path") (h5 : K ≠ "Expr::Path")
    (g1 : K2 ≠ "Ign") (g2 : K2 ≠ "Eq") (g3 : K2 ≠ "Lifetime") (g4 : K2 ≠ "Type::Path") (g5 : K2 ≠ "Expr::Path")
    (h : alOK c (.node K [] [.node K2 [] kids]) = true) : alOKL c kids = true := by
  rw [alOK_of_other c [] (nodeOther_of_ne _ h1 h2 h3 h4 h5)] at h
  have := alOKL_iff.1 h _ (List.mem_singleton.2 rfl)
  rwa [alOK_of_other c [] (nodeOther_of_ne _ g1 g2 g3 g4 g5)] at this

theorem declA_type (π : Renaming) (a : T) (x : String) (rest : List T) :
    declA π (.node "GenericParam::Type" [] [.node "TypeParam" [] (a :: .node "Ident" [x] [] :: rest)]) =
      .node "GenericParam::Type" [] [.node "TypeParam" [] (arT π a :: .node "Ident" [rn π.ty x] [] :: arL π rest)] := by
  unfold declA renameDecl
  simp only
  rw [arT_gpType, arL_cons, arL_cons, arT_identLeaf]
  rfl

theorem declA_const (π : Renaming) (a : T) (x : String) (rest : List T) :
    declA π (.node "GenericParam::Const" [] [.node "ConstParam" [] (a :: .node "Ident" [x] [] :: rest)]) =
      .node "GenericParam::Const" [] [.node "ConstParam" [] (arT π a :: .node "Ident" [rn π.co x] [] :: arL π rest)] := by
  unfold declA renameDecl
  simp only
  rw [arT_gpConst, arL_cons, arL_cons, arT_identLeaf]
  rfl

theorem renameDecl_lt (r : Renaming) (a : T) (x : String) (rest : List T) :
    renameDecl r (.node "GenericParam::Lifetime" [] [.node "LifetimeParam" [] (a :: .node "Lifetime" [] [.node "Ident" [x] []] :: rest)]) =
      .node "GenericParam::Lifetime" [] [.node "LifetimeParam" [] (a :: .node "Lifetime" [] [.node "Ident" [x] []] :: rest)] := by
  unfold renameDecl
  split
  · next heq => simp at heq
  · next heq => simp at heq
  · rfl

theorem declA_lt (π : Renaming) (a : T) (x : String) (rest : List T) :
    declA π (.node "GenericParam::Lifetime" [] [.node "LifetimeParam" [] (a :: .node "Lifetime" [] [.node "Ident" [x] []] :: rest)]) =
      .node "GenericParam::Lifetime" [] [.node "LifetimeParam" [] (arT π a :: .node "Lifetime" [] [.node "Ident" [rn π.lt x] []] :: arL π rest)] := by
  unfold declA
  rw [renameDecl_lt, arT_gpLt, arL_cons, arL_cons, arT_lifetime]

theorem param_casesA (c : CCtx) (p : T) (h : (paramIdent p).isSome = true) : ∃ k y, PShapeA c p k y := by
  unfold paramIdent at h
  split at h
  · next a x rest =>
    have eF := declA_type c.r a x rest
    refine ⟨.ty, x, ⟨rfl, by rw [eF]; rfl, ?_, ?_, rfl, by rw [eF]; rfl, ?_⟩⟩
    · intro k'; cases k' <;> simp [kindSel, kindStr, paramIdent]
    · intro k'; rw [eF]; cases k' <;> simp [kindSel, kindStr, paramIdent, CCtx.ρ, CCtx.m]
    · refine ⟨_, _, _, _, rfl, eF, ?_, alOK_two c _ (by decide) (by decide) (by decide) (by decide) (by decide)
        (by decide) (by decide) (by decide) (by decide) (by decide)⟩
      intro s
      rw [ixL_cons, ixL_cons, arL_cons, arL_cons, ixL_cons, ixL_cons, ixT_identLeaf, arT_identLeaf, ixT_identLeaf]
  · next a x rest =>
    have eF := declA_const c.r a x rest
    refine ⟨.co, x, ⟨rfl, by rw [eF]; rfl, ?_, ?_, rfl, by rw [eF]; rfl, ?_⟩⟩
    · intro k'; cases k' <;> simp [kindSel, kindStr, paramIdent]
    · intro k'; rw [eF]; cases k' <;> simp [kindSel, kindStr, paramIdent, CCtx.ρ, CCtx.m]
    · refine ⟨_, _, _, _, rfl, eF, ?_, alOK_two c _ (by decide) (by decide) (by decide) (by decide) (by decide)
        (by decide) (by decide) (by decide) (by decide) (by decide)⟩
      intro s
      rw [ixL_cons, ixL_cons, arL_cons, arL_cons, ixL_cons, ixL_cons, ixT_identLeaf, arT_identLeaf, ixT_identLeaf]
  · next a x rest =>
    have eF := declA_lt c.r a x rest
    refine ⟨.lt, x, ⟨rfl, by rw [eF]; rfl, ?_, ?_, rfl, by rw [eF]; rfl, ?_⟩⟩
    · intro k'; cases k' <;> simp [kindSel, kindStr, paramIdent]
    · intro k'; rw [eF]; cases k' <;> simp [kindSel, kindStr, paramIdent, CCtx.ρ, CCtx.m]
    · refine ⟨_, _, _, _, rfl, ?_, fun s => rfl, alOK_two c _ (by decide) (by decide) (by decide) (by decide) (by decide)
        (by decide) (by decide) (by decide) (by decide) (by decide)⟩
      rw [eF, arL_cons, arL_cons, arT_lifetime]
  · cases h

/-- the generic parameter list after the textual renaming -/
def genA (π : Renaming) (lt0 : T) (ps : List T) (gt0 wc : T) : T :=
  .node "Generics" [] [arT π lt0, .node "List" [] (ps.map (declA π)), arT π gt0, arT π wc]

theorem arT_renameGenerics (π : Renaming) (lt0 : T) (ps : List T) (gt0 wc : T) :
    arT π (renameGenerics π (.node "Generics" [] [lt0, .node "List" [] ps, gt0, wc])) = genA π lt0 ps gt0 wc := by
  unfold renameGenerics genA
  simp only
  rw [arT_other π _ _ (by decide) (by decide) (by decide) (by decide) (by decide), arL_cons, arL_cons, arL_cons, arL_cons,
    arL_nil, arT_list, arL_map, List.map_map]
  rfl

section DeclsA
variable (c : CCtx) (st : Stat c) (lt0 : T) (ps : List T) (gt0 wc : T)
  (hD : ∀ k, c.D k = kindNames (.node "Generics" [] [lt0, .node "List" [] ps, gt0, wc]) (kindStr k))
  (hps : ∀ p ∈ ps, (paramIdent p).isSome = true)

include hps in
theorem kindNames_genA (k : PK) :
    kindNames (genA c.r lt0 ps gt0 wc) (kindStr k) =
      (kindNames (.node "Generics" [] [lt0, .node "List" [] ps, gt0, wc]) (kindStr k)).map (c.ρ k) := by
  rw [kindNames_eq, kindNames_eq]
  show (ps.map (declA c.r)).filterMap _ = (ps.filterMap _).map _
  rw [List.filterMap_map, List.map_filterMap]
  apply filterMap_congr'
  intro p hp
  obtain ⟨kp, y, sh⟩ := param_casesA c p (hps p hp)
  show kindSel (kindStr k) (declA c.r p) = (kindSel (kindStr k) p).map (c.ρ k)
  rw [sh.sel k, sh.selA k]
  by_cases e : k = kp
  · subst e; simp
  · simp [e]

include hD in
theorem pshapeA_mem {p : T} (hp : p ∈ ps) {k : PK} {y : String} (sh : PShapeA c p k y) : y ∈ c.D k := by
  rw [hD k, kindNames_eq]
  show y ∈ ps.filterMap _
  rw [List.mem_filterMap]
  exact ⟨p, hp, by rw [sh.sel k]; simp⟩

include st hD hps in
theorem paramNode_commA {k0 : PK} (hk0 : k0.ns = false) {x : String} (hx : x ∈ c.D k0) :
    paramNode (genA c.r lt0 ps gt0 wc) (c.ρ k0 x) =
      (paramNode (.node "Generics" [] [lt0, .node "List" [] ps, gt0, wc]) x).map (declA c.r) := by
  rw [paramNode_eq, paramNode_eq]
  show (ps.map (declA c.r)).find? _ = (ps.find? _).map _
  rw [List.find?_map]
  congr 1
  apply find?_congr'
  intro p hp
  obtain ⟨kp, y, sh⟩ := param_casesA c p (hps p hp)
  have hy := pshapeA_mem c lt0 ps gt0 wc hD hp sh
  show (ltGuard (declA c.r p) && paramIdent (declA c.r p) == some (c.ρ k0 x)) = (ltGuard p && paramIdent p == some x)
  rw [sh.ident, sh.identA, sh.guard, sh.guardA]
  cases hkp : kp.ns with
  | true => rfl
  | false =>
    have hns : kp.ns = k0.ns := by rw [hkp, hk0]
    simp only [Bool.not_false, Bool.true_and]
    rw [Bool.eq_iff_iff]
    simp only [beq_iff_eq, Option.some.injEq]
    constructor
    · exact st.inj kp k0 hns y x hy hx
    · intro e
      subst e
      cases st.disj kp k0 hns y hy hx
      rfl

include st hD hps in
theorem roundNodes_commA (s : IxState) (hn : Nm c s) :
    roundNodes (mapS c.r s) (genA c.r lt0 ps gt0 wc) =
      (roundNodes s (.node "Generics" [] [lt0, .node "List" [] ps, gt0, wc])).map (fun ip => (ip.1, declA c.r ip.2)) := by
  unfold roundNodes
  rw [← foldr_insert_map]
  congr 1
  show ((s.ixTy.map _ ++ s.ixCo.map _).filterMap _) = _
  rw [List.filterMap_append, List.filterMap_append, List.map_append, List.filterMap_map, List.filterMap_map,
    List.map_filterMap, List.map_filterMap]
  congr 1
  · apply filterMap_congr'
    rintro ⟨x, i⟩ hxi
    have hx : x ∈ c.D .ty := hn .ty x (List.mem_append_left _ (List.mem_map.2 ⟨_, hxi, rfl⟩))
    have := paramNode_commA c st lt0 ps gt0 wc hD hps rfl hx
    simp only [Function.comp, CCtx.ρ, CCtx.m] at this ⊢
    rw [this]
    cases paramNode (.node "Generics" [] [lt0, .node "List" [] ps, gt0, wc]) x <;> rfl
  · apply filterMap_congr'
    rintro ⟨x, i⟩ hxi
    have hx : x ∈ c.D .co := hn .co x (List.mem_append_left _ (List.mem_map.2 ⟨_, hxi, rfl⟩))
    have := paramNode_commA c st lt0 ps gt0 wc hD hps rfl hx
    simp only [Function.comp, CCtx.ρ, CCtx.m] at this ⊢
    rw [this]
    cases paramNode (.node "Generics" [] [lt0, .node "List" [] ps, gt0, wc]) x <;> rfl

include st hps in
theorem rstep_commA (hok : ∀ p ∈ ps, alOK c p = true) (s : IxState) (hu : Un c s) (ip : Nat × T) (hp : ip.2 ∈ ps) :
    rstep (mapS c.r s) (ip.1, declA c.r ip.2) = mapS c.r (rstep s ip) := by
  obtain ⟨i, p⟩ := ip
  obtain ⟨kp, y, sh⟩ := param_casesA c p (hps p hp)
  obtain ⟨K, K2, kids, kids', e1, e2, e3, e4⟩ := sh.kids
  simp only at hp ⊢
  rw [e2]
  subst e1
  show ixL (mapS c.r s) kids' = mapS c.r (ixL s kids)
  rw [e3, ixL_commA c st kids (e4 (hok _ hp)) s hu]

include st hps in
theorem foldl_rstep_commA (hok : ∀ p ∈ ps, alOK c p = true) : ∀ (l : List (Nat × T)) (s : IxState), Un c s →
    (∀ ip ∈ l, ip.2 ∈ ps) →
    (l.map (fun ip => (ip.1, declA c.r ip.2))).foldl rstep (mapS c.r s) = mapS c.r (l.foldl rstep s)
  | [], _, _, _ => rfl
  | ip :: l, s, hu, hl => by
      rw [List.map_cons, List.foldl_cons, List.foldl_cons, rstep_commA c st ps hps hok s hu ip (hl ip (by simp))]
      exact foldl_rstep_commA hok l _ (hu.rstep c ip) (fun ip' h' => hl ip' (List.mem_cons_of_mem _ h'))

end DeclsA

theorem wcOf_arT (π : Renaming) (wc : T) : wcOf (arT π wc) = (wcOf wc).map (arT π) := by
  cases h : wcOf wc with
  | some w =>
    cases wcOf_some h
    rw [arT_other π _ _ (by decide) (by decide) (by decide) (by decide) (by decide), arL_cons, arL_nil]
    rfl
  | none =>
    cases h' : wcOf (arT π wc) with
    | none => rfl
    | some w' =>
      exfalso
      obtain ⟨ks, rfl, e⟩ := arT_inv (by decide) (by decide) (by decide) (by decide) (by decide) (wcOf_some h')
      obtain ⟨w, ks2, rfl, _, e2⟩ := arL_eq_cons e.symm
      cases arL_eq_nil e2
      simp [wcOf] at h

section RoundA
variable (c : CCtx) (st : Stat c) (lt0 : T) (ps : List T) (gt0 wc : T)
  (hD : ∀ k, c.D k = kindNames (.node "Generics" [] [lt0, .node "List" [] ps, gt0, wc]) (kindStr k))
  (hps : ∀ p ∈ ps, (paramIdent p).isSome = true)
  (hok : ∀ p ∈ ps, alOK c p = true) (hwc : alOK c wc = true)

include st hD hps hok hwc in
theorem ixRound_commA (s : IxState) (hn : Nm c s) :
    ixRound (mapS c.r s) (genA c.r lt0 ps gt0 wc) =
      mapS c.r (ixRound s (.node "Generics" [] [lt0, .node "List" [] ps, gt0, wc])) := by
  have hfold := foldl_rstep_commA c st ps hps hok
    (roundNodes s (.node "Generics" [] [lt0, .node "List" [] ps, gt0, wc])) s hn.un (fun ip h => mem_roundNodes h)
  have hnodes := roundNodes_commA c st lt0 ps gt0 wc hD hps s hn
  rw [ixRound_eq]
  unfold genA at hnodes ⊢
  rw [ixRound_eq, wcOf_arT, hnodes, hfold]
  cases h : wcOf wc with
  | none => rfl
  | some w =>
    cases wcOf_some h
    have hw : alOK c w = true := by
      rw [alOK_of_other c [] (nodeOther_of_ne _ (by decide) (by decide) (by decide) (by decide) (by decide))] at hwc
      exact alOKL_iff.1 hwc w (by simp)
    simp only [Option.map_some]
    refine ixT_commA c st w hw _ ?_
    intro k y hy
    refine hn.un k y ?_
    exact foldl_rel un_rel rstep (fun s ip => by
      unfold rstep
      split
      · split
        · exact ixL_rel un_rel _ (fun t _ => ixT_rel un_rel t) s
        · exact un_rel.refl s
      · exact un_rel.refl s) _ s k y hy

include st hD hps hok hwc in
theorem ixLoop_commA : ∀ (fuel prev : Nat) (s : IxState), Nm c s →
    ixLoop fuel prev (mapS c.r s) (genA c.r lt0 ps gt0 wc) =
      mapS c.r (ixLoop fuel prev s (.node "Generics" [] [lt0, .node "List" [] ps, gt0, wc]))
  | 0, _, s, _ => by rw [ixLoop, ixLoop]
  | fuel + 1, prev, s, hn => by
      rw [ixLoop, ixLoop, mapS_unindexed]
      split
      · rw [ixRound_commA c st lt0 ps gt0 wc hD hps hok hwc s hn]
        exact ixLoop_commA fuel _ _ (hn.of_same (ixRound_rel sameNames_rel s _))
      · rfl

end RoundA

/-! ### Indexing the respelled item -/

theorem alpha_shape (π : Renaming) (a d u lt0 : T) (ps : List T) (gt0 wc tr sf items : T) :
    alphaRename π (.node "ItemImpl" [] [a, d, u, .node "Generics" [] [lt0, .node "List" [] ps, gt0, wc], tr, sf, items]) =
      .node "ItemImpl" [] [arT π a, arT π d, arT π u, genA π lt0 ps gt0 wc, arT π tr, arT π sf, arT π items] := by
  unfold alphaRename renameImplDecls
  simp only
  rw [arT_other π _ _ (by decide) (by decide) (by decide) (by decide) (by decide), arL_cons, arL_cons, arL_cons, arL_cons,
    arL_cons, arL_cons, arL_cons, arL_nil, arT_renameGenerics]

theorem ixT_item_commA (c : CCtx) (st : Stat c) (a d u lt0 : T) (ps : List T) (gt0 wc tr sf items : T)
    (ha : alOK c a = true) (hd : alOK c d = true) (hu' : alOK c u = true) (htr : alOK c tr = true)
    (hsf : alOK c sf = true) (hit : alOK c items = true) (s : IxState) (hu : Un c s) :
    ixT (mapS c.r s) (.node "ItemImpl" [] [arT c.r a, arT c.r d, arT c.r u, genA c.r lt0 ps gt0 wc, arT c.r tr, arT c.r sf, arT c.r items]) =
      mapS c.r (ixT s (.node "ItemImpl" [] [a, d, u, .node "Generics" [] [lt0, .node "List" [] ps, gt0, wc], tr, sf, items])) := by
  rw [ixT_item _ _ _ _ (genA c.r lt0 ps gt0 wc) _ _ _ ⟨_, _, rfl⟩,
    ixT_item _ _ _ _ (.node "Generics" [] [lt0, .node "List" [] ps, gt0, wc]) _ _ _ ⟨_, _, rfl⟩]
  rw [ixT_commA c st a ha s hu, ixT_commA c st d hd _ (hu.ixT a), ixT_commA c st u hu' _ ((hu.ixT a).ixT d),
    ixT_commA c st tr htr _ (((hu.ixT a).ixT d).ixT u), ixT_commA c st sf hsf _ ((((hu.ixT a).ixT d).ixT u).ixT tr),
    ixT_commA c st items hit _ (((((hu.ixT a).ixT d).ixT u).ixT tr).ixT sf)]

/-- **indexing the respelled impl gives the state of the original indexing with the names respelled** (same indices,
    same order) -/
theorem indexImpl_commA (c : CCtx) (st : Stat c) (a d u lt0 : T) (ps : List T) (gt0 wc tr sf items : T)
    (hD : ∀ k, c.D k = kindNames (.node "Generics" [] [lt0, .node "List" [] ps, gt0, wc]) (kindStr k))
    (hps : ∀ p ∈ ps, (paramIdent p).isSome = true)
    (hok : alOK c (.node "ItemImpl" [] [a, d, u, .node "Generics" [] [lt0, .node "List" [] ps, gt0, wc], tr, sf, items]) = true) :
    indexImpl (alphaRename c.r (.node "ItemImpl" [] [a, d, u, .node "Generics" [] [lt0, .node "List" [] ps, gt0, wc], tr, sf, items])) =
      mapS c.r (indexImpl (.node "ItemImpl" [] [a, d, u, .node "Generics" [] [lt0, .node "List" [] ps, gt0, wc], tr, sf, items])) := by
  rw [alpha_shape]
  rw [alOK_of_other c [] (nodeOther_of_ne _ (by decide) (by decide) (by decide) (by decide) (by decide))] at hok
  have hk := alOKL_iff.1 hok
  have hg : alOK c (.node "Generics" [] [lt0, .node "List" [] ps, gt0, wc]) = true := hk _ (by simp)
  rw [alOK_of_other c [] (nodeOther_of_ne _ (by decide) (by decide) (by decide) (by decide) (by decide))] at hg
  have hgk := alOKL_iff.1 hg
  have hwc : alOK c wc = true := hgk _ (by simp)
  have hl : alOK c (.node "List" [] ps) = true := hgk _ (by simp)
  rw [alOK_of_other c [] (nodeOther_of_ne _ (by decide) (by decide) (by decide) (by decide) (by decide))] at hl
  have hpok := alOKL_iff.1 hl
  have h0 : (⟨kindNames (genA c.r lt0 ps gt0 wc) "GenericParam::Lifetime", kindNames (genA c.r lt0 ps gt0 wc) "GenericParam::Type",
      kindNames (genA c.r lt0 ps gt0 wc) "GenericParam::Const", [], [], [], 0⟩ : IxState) =
      mapS c.r ⟨kindNames (.node "Generics" [] [lt0, .node "List" [] ps, gt0, wc]) "GenericParam::Lifetime",
        kindNames (.node "Generics" [] [lt0, .node "List" [] ps, gt0, wc]) "GenericParam::Type",
        kindNames (.node "Generics" [] [lt0, .node "List" [] ps, gt0, wc]) "GenericParam::Const", [], [], [], 0⟩ := by
    have e1 := kindNames_genA c lt0 ps gt0 wc hps .lt
    have e2 := kindNames_genA c lt0 ps gt0 wc hps .ty
    have e3 := kindNames_genA c lt0 ps gt0 wc hps .co
    simp only [kindStr] at e1 e2 e3
    rw [e1, e2, e3]
    rfl
  have hn0 : Nm c ⟨kindNames (.node "Generics" [] [lt0, .node "List" [] ps, gt0, wc]) "GenericParam::Lifetime",
        kindNames (.node "Generics" [] [lt0, .node "List" [] ps, gt0, wc]) "GenericParam::Type",
        kindNames (.node "Generics" [] [lt0, .node "List" [] ps, gt0, wc]) "GenericParam::Const", [], [], [], 0⟩ := by
    intro k y hy
    rw [hD k]
    cases k <;> simpa [IxState.names, IxState.namesLt, IxState.namesTy, IxState.namesCo, kindStr] using hy
  unfold indexImpl
  simp only [implGenerics, Option.getD_some]
  rw [h0, ixT_item_commA c st a d u lt0 ps gt0 wc tr sf items (hk _ (by simp)) (hk _ (by simp)) (hk _ (by simp))
    (hk _ (by simp)) (hk _ (by simp)) (hk _ (by simp)) _ hn0.un, mapS_unindexed]
  exact ixLoop_commA c st lt0 ps gt0 wc hD hps hpok hwc _ _ _ (hn0.of_same (ixT_rel sameNames_rel _ _))

/-! ### Resolving the respelled tree -/

/-- `r'` resolves the new spelling of a name to what `r` resolves the name to; a name `r` does not resolve is not
    respelled -/
structure Comp (c : CCtx) (r r' : Renaming) : Prop where
  lt : ∀ n, okLt c n = true → rn r'.lt (rn c.r.lt n) = rn r.lt n
  ty : ∀ n, okTy c n = true → rlookup r'.ty (rn c.r.ty n) = rlookup r.ty n ∧ (rlookup r.ty n = none → rn c.r.ty n = n)
  ex : ∀ n, okEx c n = true → rlookup r'.ty (exW c.r n) = rlookup r.ty n ∧
    (rlookup r.ty n = none → rlookup r'.co (exW c.r n) = rlookup r.co n ∧ (rlookup r.co n = none → exW c.r n = n))
  co : ∀ n, n ∈ c.dCo → rn r'.co (rn c.r.co n) = rn r.co n

theorem rsTypePath_mapHead {r r' : Renaming} {f : String → String} (as : List String) (Q P : T)
    (h : ∀ x, firstSegIdent P = some x → rlookup r'.ty (f x) = rlookup r.ty x ∧ (rlookup r.ty x = none → f x = x)) :
    rsTypePath r' as Q (mapHead f P) = rsTypePath r as Q P := by
  cases hf : firstSegIdent P with
  | none => rw [mapHead_none f hf]; unfold rsTypePath; rw [hf]
  | some x =>
    obtain ⟨e1, e2⟩ := h x hf
    cases hl : rlookup r.ty x with
    | some m =>
      rw [hl] at e1
      unfold rsTypePath
      rw [firstSegIdent_mapHead, restSegments_mapHead, hf]
      simp only [Option.map_some, e1, hl]
    | none =>
      rw [mapHead_id (fun y hy => by rw [hf] at hy; cases hy; exact e2 hl)]
      have e1' : rlookup r'.ty x = none := by rw [← e2 hl, e1, hl]
      unfold rsTypePath
      rw [hf]
      simp only [e1', hl]

theorem mapHead_plainPath (f : String → String) (x : String) (rest : List T) :
    mapHead f (plainPath x rest) = plainPath (f x) rest := rfl

theorem rsExprPath_mapHead {r r' : Renaming} {f : String → String} (as : List String) (A Q P : T)
    (h : ∀ x, firstSegIdent P = some x → rlookup r'.ty (f x) = rlookup r.ty x ∧
      (rlookup r.ty x = none → rlookup r'.co (f x) = rlookup r.co x ∧ (rlookup r.co x = none → f x = x)))
    (hb : ∀ x m, firstSegIdent P = some x → rlookup r.ty x = none → rlookup r.co x = some m →
      Q = noneNode ∧ P = plainPath x []) :
    rsExprPath r' as A Q (mapHead f P) = rsExprPath r as A Q P := by
  cases hf : firstSegIdent P with
  | none => rw [mapHead_none f hf]; unfold rsExprPath; rw [hf]
  | some x =>
    obtain ⟨e1, e2⟩ := h x hf
    cases hl : rlookup r.ty x with
    | some m =>
      rw [hl] at e1
      unfold rsExprPath
      rw [firstSegIdent_mapHead, restSegments_mapHead, hf]
      simp only [Option.map_some, e1, hl]
    | none =>
      obtain ⟨e3, e4⟩ := e2 hl
      rw [hl] at e1
      cases hl2 : rlookup r.co x with
      | some m =>
        obtain ⟨rfl, rfl⟩ := hb x m hf hl hl2
        rw [hl2] at e3
        rw [mapHead_plainPath, rsExprPath_bare e1 e3, rsExprPath_bare hl hl2]
      | none =>
        rw [mapHead_id (fun y hy => by rw [hf] at hy; cases hy; exact e4 hl2)]
        have e1' : rlookup r'.ty x = none := by rw [← e4 hl2, e1]
        have e3' : rlookup r'.co x = none := by rw [← e4 hl2, e3, hl2]
        unfold rsExprPath
        rw [hf]
        simp only [e1', e3', hl, hl2]

theorem rsL_arL_of {c cc : CCtx} {r' : Renaming} : ∀ (ks : List T),
    (∀ t ∈ ks, alOK c t = true → rsOK cc t = true → rsT r' (arT c.r t) = rsT cc.r t) →
    alOKL c ks = true → rsOKL cc ks = true → rsL r' (arL c.r ks) = rsL cc.r ks
  | [], _, _, _ => by rw [arL_nil, rsL_nil, rsL_nil]
  | t :: ts, ih, h1, h2 => by
      have h1' := alOKL_iff.1 h1
      have h2' := rsOKL_iff.1 h2
      rw [arL_cons, rsL_cons, rsL_cons, ih t (by simp) (h1' t (by simp)) (h2' t (by simp)),
        rsL_arL_of ts (fun t' ht' => ih t' (List.mem_cons_of_mem _ ht'))
          (alOKL_iff.2 (fun t' ht' => h1' t' (List.mem_cons_of_mem _ ht')))
          (rsOKL_iff.2 (fun t' ht' => h2' t' (List.mem_cons_of_mem _ ht')))]

/-- **resolving the respelled tree with `r'` is resolving the tree with `r`** -/
theorem rsT_arT (c cc : CCtx) (r' : Renaming) (cp : Comp c cc.r r') : ∀ t : T, alOK c t = true → rsOK cc t = true →
    rsT r' (arT c.r t) = rsT cc.r t := by
  apply T.ind
  · intro n hok _
    rw [alOK] at hok
    obtain ⟨e1, e2⟩ := cp.ty n hok
    rw [arT_tparam, rsT_tparam, rsT_tparam, e1]
    cases hl : rlookup cc.r.ty n with
    | some m => rfl
    | none => simp only [Option.getD_none]; rw [e2 hl]
  · intro n hok _
    rw [alOK] at hok
    obtain ⟨e1, e2⟩ := cp.ex n hok
    rw [arT_eparam, rsT_eparam, rsT_eparam, e1]
    cases hl : rlookup cc.r.ty n with
    | some m => rfl
    | none =>
      obtain ⟨e3, e4⟩ := e2 hl
      rw [e3]
      cases hl2 : rlookup cc.r.co n with
      | some m => rfl
      | none => simp only [Option.or_none, Option.getD_none]; rw [e4 hl2]
  · intro k as ks ih hok hrs
    rcases node_shape k ks with h | ⟨x, rfl, rfl⟩ | ⟨q, p, rfl, rfl⟩ | ⟨a, q, p, rfl, rfl⟩ | h
    · rcases h with rfl | rfl
      · rw [arT_ign, rsT_ign, rsT_ign]
      · rw [arT_eq, rsT_eq, rsT_eq]
    · rw [alOK] at hok
      have := cp.lt x hok
      rw [arT_lifetime, rsT_lifetime, rsT_lifetime]
      show T.node "Lifetime" as [T.node "Ident" [rn r'.lt (rn c.r.lt x)] []] =
        T.node "Lifetime" as [T.node "Ident" [rn cc.r.lt x] []]
      rw [this]
    · obtain ⟨hq, hp, hx⟩ := alOK_typePath_inv hok
      obtain ⟨hq', hp', _⟩ := rsOK_typePath_inv hrs
      rw [arT_typePath, rsT_typePath, rsT_typePath, rsT_mapHead, ih q (by simp) hq hq', ih p (by simp) hp hp']
      apply rsTypePath_mapHead
      intro x hfx
      rw [firstSegIdent_rsT] at hfx
      exact cp.ty x (hx x hfx)
    · obtain ⟨ha, hq, hp, hx⟩ := alOK_exprPath_inv hok
      obtain ⟨ha', hq', hp', hx'⟩ := rsOK_exprPath_inv hrs
      rw [arT_exprPath, rsT_exprPath, rsT_exprPath, rsT_mapHead, ih a (by simp) ha ha', ih q (by simp) hq hq',
        ih p (by simp) hp hp']
      apply rsExprPath_mapHead
      · intro x hfx
        rw [firstSegIdent_rsT] at hfx
        exact cp.ex x (hx x hfx)
      · intro x m hfx hl hl2
        rw [firstSegIdent_rsT] at hfx
        obtain ⟨hplain, hemp⟩ := (hx' x hfx).2.2 hl m hl2
        obtain ⟨rfl, x', rest, rfl⟩ := plainHead_inv hplain
        cases (by simpa [firstSegIdent_plainPath] using hfx : x' = x)
        rw [restSegments_plainPath] at hemp
        cases rest with
        | cons _ _ => cases hemp
        | nil => rw [rsT_noneNode, rsT_plainPath, rsL_nil]; exact ⟨rfl, rfl⟩
    · rw [alOK_of_other c as h] at hok
      rw [rsOK_of_other cc as h] at hrs
      rw [arT_of_other c.r as h, rsT_of_other r' as (nodeOther_arL c.r h), rsT_of_other cc.r as h,
        rsL_arL_of ks ih hok hrs]

theorem rsL_arL (c cc : CCtx) (r' : Renaming) (cp : Comp c cc.r r') (ks : List T) (h1 : alOKL c ks = true)
    (h2 : rsOKL cc ks = true) : rsL r' (arL c.r ks) = rsL cc.r ks :=
  rsL_arL_of ks (fun t _ => rsT_arT c cc r' cp t) h1 h2

/-! ### … and the respelled declarations -/

theorem declF_type (r : Renaming) (a : T) (x : String) (rest : List T) :
    declF r (.node "GenericParam::Type" [] [.node "TypeParam" [] (a :: .node "Ident" [x] [] :: rest)]) =
      .node "GenericParam::Type" [] [.node "TypeParam" [] (rsT r a :: .node "Ident" [rn r.ty x] [] :: rsL r rest)] := by
  unfold declF renameDecl
  simp only
  rw [rsT_gpType, rsL_cons, rsL_cons, rsT_identLeaf]
  rfl

theorem declF_const (r : Renaming) (a : T) (x : String) (rest : List T) :
    declF r (.node "GenericParam::Const" [] [.node "ConstParam" [] (a :: .node "Ident" [x] [] :: rest)]) =
      .node "GenericParam::Const" [] [.node "ConstParam" [] (rsT r a :: .node "Ident" [rn r.co x] [] :: rsL r rest)] := by
  unfold declF renameDecl
  simp only
  rw [rsT_gpConst, rsL_cons, rsL_cons, rsT_identLeaf]
  rfl

theorem declF_lt (r : Renaming) (a : T) (x : String) (rest : List T) :
    declF r (.node "GenericParam::Lifetime" [] [.node "LifetimeParam" [] (a :: .node "Lifetime" [] [.node "Ident" [x] []] :: rest)]) =
      .node "GenericParam::Lifetime" [] [.node "LifetimeParam" [] (rsT r a :: .node "Lifetime" [] [.node "Ident" [rn r.lt x] []] :: rsL r rest)] := by
  unfold declF
  rw [renameDecl_lt, rsT_gpLt, rsL_cons, rsL_cons, rsT_lifetime]
  rfl

/-- canonicalising a respelled declaration with `r'` is canonicalising the declaration with `r` -/
theorem declF_declA (c cc : CCtx) (r' : Renaming) (cp : Comp c cc.r r') (ps : List T) (lt0 gt0 wc : T)
    (hD : ∀ k, c.D k = kindNames (.node "Generics" [] [lt0, .node "List" [] ps, gt0, wc]) (kindStr k))
    (p : T) (hp : p ∈ ps) (hid : (paramIdent p).isSome = true) (h1 : alOK c p = true) (h2 : rsOK cc p = true) :
    declF r' (declA c.r p) = declF cc.r p := by
  have hmem : ∀ k y, kindSel (kindStr k) p = some y → y ∈ c.D k := by
    intro k y hy
    rw [hD k, kindNames_eq]
    show y ∈ ps.filterMap _
    exact List.mem_filterMap.2 ⟨p, hp, hy⟩
  unfold paramIdent at hid
  split at hid
  · next a x rest =>
    have hx : x ∈ c.dTy := hmem .ty x (by simp [kindSel, kindStr, paramIdent])
    have k1 := alOK_two c _ (by decide) (by decide) (by decide) (by decide) (by decide)
        (by decide) (by decide) (by decide) (by decide) (by decide) h1
    have k2 := rsOK_two cc _ (by decide) (by decide) (by decide) (by decide) (by decide)
        (by decide) (by decide) (by decide) (by decide) (by decide) h2
    rw [alOKL_cons, alOKL_cons, Bool.and_eq_true, Bool.and_eq_true] at k1
    rw [rsOKL_cons, rsOKL_cons, Bool.and_eq_true, Bool.and_eq_true] at k2
    have hok : okTy c x = true := by simp [okTy, hx]
    obtain ⟨e1, e2⟩ := cp.ty x hok
    have e : rn r'.ty (rn c.r.ty x) = rn cc.r.ty x := by
      unfold rn at e1 e2 ⊢
      rw [e1]
      cases hl : rlookup cc.r.ty x with
      | some m => rfl
      | none => simp only [Option.getD_none]; exact e2 hl
    rw [declA_type, declF_type, declF_type, rsT_arT c cc r' cp a k1.1 k2.1, rsL_arL c cc r' cp rest k1.2.2 k2.2.2, e]
  · next a x rest =>
    have hx : x ∈ c.dCo := hmem .co x (by simp [kindSel, kindStr, paramIdent])
    have k1 := alOK_two c _ (by decide) (by decide) (by decide) (by decide) (by decide)
        (by decide) (by decide) (by decide) (by decide) (by decide) h1
    have k2 := rsOK_two cc _ (by decide) (by decide) (by decide) (by decide) (by decide)
        (by decide) (by decide) (by decide) (by decide) (by decide) h2
    rw [alOKL_cons, alOKL_cons, Bool.and_eq_true, Bool.and_eq_true] at k1
    rw [rsOKL_cons, rsOKL_cons, Bool.and_eq_true, Bool.and_eq_true] at k2
    rw [declA_const, declF_const, declF_const, rsT_arT c cc r' cp a k1.1 k2.1, rsL_arL c cc r' cp rest k1.2.2 k2.2.2,
      cp.co x hx]
  · next a x rest =>
    have hx : x ∈ c.dLt := hmem .lt x (by simp [kindSel, kindStr, paramIdent])
    have k1 := alOK_two c _ (by decide) (by decide) (by decide) (by decide) (by decide)
        (by decide) (by decide) (by decide) (by decide) (by decide) h1
    have k2 := rsOK_two cc _ (by decide) (by decide) (by decide) (by decide) (by decide)
        (by decide) (by decide) (by decide) (by decide) (by decide) h2
    rw [alOKL_cons, alOKL_cons, Bool.and_eq_true, Bool.and_eq_true] at k1
    rw [rsOKL_cons, rsOKL_cons, Bool.and_eq_true, Bool.and_eq_true] at k2
    have hok : okLt c x = true := by simp [okLt, hx]
    rw [declA_lt, declF_lt, declF_lt, rsT_arT c cc r' cp a k1.1 k2.1, rsL_arL c cc r' cp rest k1.2.2 k2.2.2,
      cp.lt x hok]
  · cases hid

/-! ### The static facts from the executable conditions -/

theorem nodup_map_inj {α β : Type} {f : α → β} : ∀ {l : List α}, (l.map f).Nodup → ∀ {y x : α}, y ∈ l → x ∈ l →
    f y = f x → y = x
  | [], _, _, _, hy, _, _ => by cases hy
  | a :: l, hn, y, x, hy, hx, e => by
      rw [List.map_cons, List.nodup_cons] at hn
      rcases List.mem_cons.1 hy with hy' | hy'
      · rcases List.mem_cons.1 hx with hx' | hx'
        · rw [hy', hx']
        · subst hy'
          exact absurd (List.mem_map.2 ⟨x, hx', e.symm⟩) hn.1
      · rcases List.mem_cons.1 hx with hx' | hx'
        · subst hx'
          exact absurd (List.mem_map.2 ⟨y, hy', e⟩) hn.1
        · exact nodup_map_inj hn.2 hy' hx' e

theorem alphaCtx_D (π : Renaming) (item : T) (k : PK) : (alphaCtx π item).D k = (canonCtx item).D k := by
  cases k <;> rfl

theorem alpha_stat (π : Renaming) (item : T) (hd : namesDistinct (canonCtx item) = true)
    (hdom : domOK (alphaCtx π item) = true) (hinj : injOK (alphaCtx π item) = true) : Stat (alphaCtx π item) := by
  have hnd : ((alphaCtx π item).dTy ++ (alphaCtx π item).dCo).Nodup := namesDistinct_tyco hd
  simp only [domOK, Bool.and_eq_true] at hdom
  simp only [injOK, Bool.and_eq_true, decide_eq_true_eq] at hinj
  obtain ⟨i1, i2⟩ := hinj
  unfold CCtx.imgLt at i1
  unfold CCtx.imgTy CCtx.imgCo at i2
  rw [List.nodup_append] at i2 hnd
  refine ⟨?_, ?_, ?_⟩
  · intro k x v h
    have hm := rlookup_some_mem h
    cases k
    · have := List.all_eq_true.1 hdom.1.1 x (List.mem_map.2 ⟨(x, v), hm, rfl⟩)
      exact (by simpa using this : x ∈ (alphaCtx π item).dLt)
    · have := List.all_eq_true.1 hdom.1.2 x (List.mem_map.2 ⟨(x, v), hm, rfl⟩)
      exact (by simpa using this : x ∈ (alphaCtx π item).dTy)
    · have := List.all_eq_true.1 hdom.2 x (List.mem_map.2 ⟨(x, v), hm, rfl⟩)
      exact (by simpa using this : x ∈ (alphaCtx π item).dCo)
  · intro k k' hns y x hy hx e
    cases k <;> cases k' <;> first
      | exact nodup_map_inj i1 hy hx e
      | exact nodup_map_inj i2.1 hy hx e
      | exact nodup_map_inj i2.2.1 hy hx e
      | exact absurd e (i2.2.2 _ (List.mem_map.2 ⟨y, hy, rfl⟩) _ (List.mem_map.2 ⟨x, hx, rfl⟩))
      | exact absurd e.symm (i2.2.2 _ (List.mem_map.2 ⟨x, hx, rfl⟩) _ (List.mem_map.2 ⟨y, hy, rfl⟩))
      | cases hns
  · intro k k' hns x hx hx'
    cases k <;> cases k' <;> first
      | rfl
      | (exfalso; first
          | exact hnd.2.2 x hx x hx' rfl
          | exact hnd.2.2 x hx' x hx rfl)
      | cases hns

/-! ### The renaming computed for the respelled item -/

def Renaming.m (r : Renaming) : PK → List (String × String)
  | .lt => r.lt | .ty => r.ty | .co => r.co

theorem renaming_m (s : IxState) (k : PK) :
    s.renaming.m k = (s.ix k).map (fun p => (p.1, genIndexedIdent p.2)) := by
  cases k <;> rfl

theorem mapS_renaming_m (c : CCtx) (s : IxState) (k : PK) :
    (mapS c.r s).renaming.m k = (s.ix k).map (fun p => (c.ρ k p.1, genIndexedIdent p.2)) := by
  cases k <;> simp only [mapS, IxState.renaming, Renaming.m, IxState.ix, List.map_map] <;> rfl

theorem rlookup_ixmap_comm (f : String → String) (x : String) : ∀ (ix : List (String × Nat)),
    (∀ a ∈ ix.map Prod.fst, f a = f x → a = x) →
    rlookup (ix.map (fun p => (f p.1, genIndexedIdent p.2))) (f x) =
      rlookup (ix.map (fun p => (p.1, genIndexedIdent p.2))) x
  | [], _ => rfl
  | (a, i) :: ix, h => by
      simp only [List.map_cons, rlookup]
      by_cases e : a = x
      · subst e; simp
      · have e' : ¬ f a = f x := fun e' => e (h a (by simp) e')
        rw [if_neg e, if_neg e']
        exact rlookup_ixmap_comm f x ix (fun b hb => h b (List.mem_cons_of_mem _ hb))

theorem rlookup_none_of_notin : ∀ {m : List (String × String)} {x : String}, x ∉ m.map Prod.fst → rlookup m x = none
  | [], _, _ => rfl
  | (a, b) :: m, x, h => by
      simp only [List.map_cons, List.mem_cons, not_or] at h
      simp only [rlookup]
      rw [if_neg (fun e => h.1 e.symm)]
      exact rlookup_none_of_notin h.2

section CompProof
variable (c : CCtx) (st : Stat c) (s : IxState)
  (hnm : ∀ k, ∀ y, y ∈ s.names k ↔ y ∈ c.D k)
  (hdead : ∀ k, ∀ y ∈ s.un k, c.ρ k y = y)

include hnm in
theorem ix_mem_D {k : PK} {a : String} (ha : a ∈ (s.ix k).map Prod.fst) : a ∈ c.D k :=
  (hnm k a).1 (by rw [names_eq]; exact List.mem_append_left _ ha)

include st hnm hdead in
theorem comp_lk (k : PK) (n : String) (h : n ∈ c.D k ∨ n ∉ (c.D k).map (c.ρ k)) :
    rlookup ((mapS c.r s).renaming.m k) (c.ρ k n) = rlookup (s.renaming.m k) n ∧
    (rlookup (s.renaming.m k) n = none → c.ρ k n = n) := by
  rw [mapS_renaming_m, renaming_m]
  by_cases hn : n ∈ c.D k
  · constructor
    · exact rlookup_ixmap_comm (c.ρ k) n (s.ix k)
        (fun a ha e => st.inj k k rfl a n (ix_mem_D c s hnm ha) hn e)
    · intro hl
      have hk := rlookup_none_notin hl
      rw [List.map_map] at hk
      have hnames := (hnm k n).2 hn
      rw [names_eq] at hnames
      rcases List.mem_append.1 hnames with h' | h'
      · exact absurd h' hk
      · exact hdead k n h'
  · have hf : n ∉ (c.D k).map (c.ρ k) := by
      rcases h with h | h
      · exact absurd h hn
      · exact h
    have e : c.ρ k n = n := st.rho_notin hn
    rw [e]
    refine ⟨?_, fun _ => rfl⟩
    rw [rlookup_none_of_notin, rlookup_none_of_notin]
    · rw [List.map_map]
      exact fun ha => hn (ix_mem_D c s hnm ha)
    · rw [List.map_map]
      intro ha
      obtain ⟨p, hp, e'⟩ := List.mem_map.1 ha
      exact hf (List.mem_map.2 ⟨p.1, ix_mem_D c s hnm (List.mem_map.2 ⟨p, hp, rfl⟩), e'⟩)

include st hnm in
theorem comp_cross {k k' : PK} (hne : k ≠ k') (hns : k.ns = k'.ns) {n : String} (hn : n ∈ c.D k) :
    rlookup ((mapS c.r s).renaming.m k') (c.ρ k n) = none := by
  rw [mapS_renaming_m]
  apply rlookup_none_of_notin
  rw [List.map_map]
  intro ha
  obtain ⟨p, hp, e'⟩ := List.mem_map.1 ha
  have hp' : p.1 ∈ c.D k' := ix_mem_D c s hnm (List.mem_map.2 ⟨p, hp, rfl⟩)
  have := st.inj k' k hns.symm p.1 n hp' hn e'
  rw [this] at hp'
  exact hne (st.disj k k' hns n hn hp')

include hnm in
theorem comp_r_none {k : PK} {n : String} (hn : n ∉ c.D k) : rlookup (s.renaming.m k) n = none := by
  rw [renaming_m]
  apply rlookup_none_of_notin
  rw [List.map_map]
  exact fun ha => hn (ix_mem_D c s hnm ha)

include st hnm hdead in
theorem alpha_comp : Comp c s.renaming (mapS c.r s).renaming := by
  have getD_of : ∀ (k : PK) (n : String), (n ∈ c.D k ∨ n ∉ (c.D k).map (c.ρ k)) →
      rn ((mapS c.r s).renaming.m k) (c.ρ k n) = rn (s.renaming.m k) n := by
    intro k n h
    obtain ⟨e1, e2⟩ := comp_lk c st s hnm hdead k n h
    unfold rn
    rw [e1]
    cases hl : rlookup (s.renaming.m k) n with
    | some m => rfl
    | none => simp only [Option.getD_none]; exact e2 hl
  refine ⟨?_, ?_, ?_, ?_⟩
  · intro n hok
    simp only [okLt, Bool.or_eq_true, List.contains_iff_mem, Bool.not_eq_true', ← Bool.not_eq_true] at hok
    exact getD_of .lt n hok
  · intro n hok
    simp only [okTy, Bool.or_eq_true, List.contains_iff_mem, Bool.not_eq_true', ← Bool.not_eq_true] at hok
    exact comp_lk c st s hnm hdead .ty n hok
  · intro n hok
    by_cases hty : n ∈ c.dTy
    · have hco : n ∉ c.dCo := fun hco => by cases st.disj .ty .co rfl n hty hco
      have h2 : rlookup c.r.co n = none := by
        cases h2 : rlookup c.r.co n with
        | none => rfl
        | some v => exact absurd (st.dom .co n v h2) hco
      have e : exW c.r n = c.ρ .ty n := by
        unfold exW CCtx.ρ rn
        rw [h2, Option.or_none]
        rfl
      rw [e]
      obtain ⟨e1, e2⟩ := comp_lk c st s hnm hdead .ty n (Or.inl hty)
      refine ⟨e1, fun hl => ⟨?_, fun _ => e2 hl⟩⟩
      exact (comp_cross c st s hnm (k := .ty) (k' := .co) (by decide) rfl hty).trans
        (comp_r_none c s hnm (k := .co) hco).symm
    · have h1 : rlookup c.r.ty n = none := by
        cases h1 : rlookup c.r.ty n with
        | none => rfl
        | some v => exact absurd (st.dom .ty n v h1) hty
      by_cases hco : n ∈ c.dCo
      · have e : exW c.r n = c.ρ .co n := by
          unfold exW CCtx.ρ rn
          rw [h1, Option.none_or]
          rfl
        rw [e]
        obtain ⟨e1, e2⟩ := comp_lk c st s hnm hdead .co n (Or.inl hco)
        refine ⟨?_, fun _ => ⟨e1, e2⟩⟩
        exact (comp_cross c st s hnm (k := .co) (k' := .ty) (by decide) rfl hco).trans
          (comp_r_none c s hnm (k := .ty) hty).symm
      · have h2 : rlookup c.r.co n = none := by
          cases h2 : rlookup c.r.co n with
          | none => rfl
          | some v => exact absurd (st.dom .co n v h2) hco
        have e : exW c.r n = n := by unfold exW; simp [h1, h2]
        rw [e]
        simp only [okEx, Bool.or_eq_true, Bool.and_eq_true, List.contains_iff_mem, Bool.not_eq_true', ← Bool.not_eq_true] at hok
        have hf : n ∉ c.imgTy ∧ n ∉ c.imgCo := by
          rcases hok with (h | h) | h
          · exact absurd h hty
          · exact absurd h hco
          · exact h
        have a1 := comp_lk c st s hnm hdead .ty n (Or.inr hf.1)
        have a2 := comp_lk c st s hnm hdead .co n (Or.inr hf.2)
        rw [st.rho_notin (k := .ty) hty] at a1
        rw [st.rho_notin (k := .co) hco] at a2
        exact ⟨a1.1, fun _ => ⟨a2.1, fun _ => rfl⟩⟩
  · intro n hn
    exact getD_of .co n (Or.inl hn)

end CompProof

/-! ### Alpha-invariance -/

theorem deadFixed_un {π : Renaming} {item : T} (h : deadFixed π item = true) :
    ∀ k, ∀ y ∈ (indexImpl item).un k, (alphaCtx π item).ρ k y = y := by
  simp only [deadFixed, Bool.and_eq_true, List.all_eq_true, beq_iff_eq] at h
  intro k y hy
  cases k
  · exact h.1.1 y hy
  · exact h.1.2 y hy
  · exact h.2 y hy

/-- **alpha-invariance of canonicalisation** (the pieces of `canonWF` that are used, separately) -/
theorem canon_alpha (π : Renaming) (item : T) (hdecl : implDeclsOK item = true)
    (hd : namesDistinct (canonCtx item) = true) (hrs : rsOK (canonCtx item) item = true)
    (hal : alphaOK π item = true) : canon (alphaRename π item) = canon item := by
  simp only [alphaOK, Bool.and_eq_true] at hal
  obtain ⟨⟨⟨hdom, hinj⟩, hdead⟩, hok⟩ := hal
  have st := alpha_stat π item hd hdom hinj
  have hnm : ∀ k y, y ∈ (indexImpl item).names k ↔ y ∈ (alphaCtx π item).D k := by
    intro k y; rw [alphaCtx_D]; exact canonCtx_mem_D item k y
  have cp : Comp (alphaCtx π item) (canonCtx item).r (mapS (alphaCtx π item).r (indexImpl item)).renaming :=
    alpha_comp (alphaCtx π item) st (indexImpl item) hnm (deadFixed_un hdead)
  obtain ⟨a, d, u, lt0, ps, gt0, wc, tr, sf, items, rfl, hps⟩ := implDeclsOK_inv hdecl
  generalize hc : alphaCtx π _ = c at st hok cp
  generalize hcc : canonCtx _ = cc at hrs cp
  have hπ : c.r = π := by rw [← hc]; rfl
  have hr : cc.r = (indexImpl (.node "ItemImpl" [] [a, d, u, .node "Generics" [] [lt0, .node "List" [] ps, gt0, wc], tr, sf, items])).renaming := by
    rw [← hcc]; rfl
  have hD : ∀ k, c.D k = kindNames (.node "Generics" [] [lt0, .node "List" [] ps, gt0, wc]) (kindStr k) := by
    intro k; rw [← hc]; cases k <;> rfl
  have hix := indexImpl_commA c st a d u lt0 ps gt0 wc tr sf items hD hps hok
  rw [hπ] at hix
  -- the pieces of the two conditions
  have hok0 := hok
  rw [alOK_of_other c [] (nodeOther_of_ne _ (by decide) (by decide) (by decide) (by decide) (by decide))] at hok
  have hk := alOKL_iff.1 hok
  have hg : alOK c (.node "Generics" [] [lt0, .node "List" [] ps, gt0, wc]) = true := hk _ (by simp)
  rw [alOK_of_other c [] (nodeOther_of_ne _ (by decide) (by decide) (by decide) (by decide) (by decide))] at hg
  have hgk := alOKL_iff.1 hg
  have hl : alOK c (.node "List" [] ps) = true := hgk _ (by simp)
  rw [alOK_of_other c [] (nodeOther_of_ne _ (by decide) (by decide) (by decide) (by decide) (by decide))] at hl
  have hpok := alOKL_iff.1 hl
  rw [rsOK_of_other cc [] (nodeOther_of_ne _ (by decide) (by decide) (by decide) (by decide) (by decide))] at hrs
  have rk := rsOKL_iff.1 hrs
  have rg : rsOK cc (.node "Generics" [] [lt0, .node "List" [] ps, gt0, wc]) = true := rk _ (by simp)
  rw [rsOK_of_other cc [] (nodeOther_of_ne _ (by decide) (by decide) (by decide) (by decide) (by decide))] at rg
  have rgk := rsOKL_iff.1 rg
  have rl : rsOK cc (.node "List" [] ps) = true := rgk _ (by simp)
  rw [rsOK_of_other cc [] (nodeOther_of_ne _ (by decide) (by decide) (by decide) (by decide) (by decide))] at rl
  have rpok := rsOKL_iff.1 rl
  -- both canonical items, piece by piece
  rw [canon_shape a d u lt0 ps gt0 wc tr sf items cc.r hr, alpha_shape]
  unfold genA
  rw [canon_shape (arT π a) (arT π d) (arT π u) (arT π lt0) (ps.map (declA π)) (arT π gt0) (arT π wc) (arT π tr) (arT π sf)
      (arT π items) (mapS π (indexImpl (.node "ItemImpl" [] [a, d, u, .node "Generics" [] [lt0, .node "List" [] ps, gt0, wc], tr, sf, items]))).renaming
      (by rw [← hix, alpha_shape]; rfl)]
  rw [hπ] at cp
  have key : ∀ t, alOK c t = true → rsOK cc t = true →
      rsT (mapS π (indexImpl (.node "ItemImpl" [] [a, d, u, .node "Generics" [] [lt0, .node "List" [] ps, gt0, wc], tr, sf, items]))).renaming (arT π t) = rsT cc.r t := by
    intro t h1 h2
    have := rsT_arT c cc _ cp t h1 h2
    rwa [hπ] at this
  have hdecls : (ps.map (declA π)).map (declF (mapS π (indexImpl (.node "ItemImpl" [] [a, d, u, .node "Generics" [] [lt0, .node "List" [] ps, gt0, wc], tr, sf, items]))).renaming) =
      ps.map (declF cc.r) := by
    rw [List.map_map]
    apply List.map_congr_left
    intro p hp
    have := declF_declA c cc _ cp ps lt0 gt0 wc hD p hp (hps p hp) (hpok p hp) (rpok p hp)
    rw [hπ] at this
    exact this
  unfold genF
  rw [key a (hk _ (by simp)) (rk _ (by simp)), key d (hk _ (by simp)) (rk _ (by simp)),
    key u (hk _ (by simp)) (rk _ (by simp)), key tr (hk _ (by simp)) (rk _ (by simp)),
    key sf (hk _ (by simp)) (rk _ (by simp)), key items (hk _ (by simp)) (rk _ (by simp)),
    key lt0 (hgk _ (by simp)) (rgk _ (by simp)), key gt0 (hgk _ (by simp)) (rgk _ (by simp)),
    key wc (hgk _ (by simp)) (rgk _ (by simp)), hdecls]

/-- the state of the indexer on the respelled impl -/
theorem alpha_indexImpl (π : Renaming) (item : T) (hdecl : implDeclsOK item = true)
    (hd : namesDistinct (canonCtx item) = true) (hal : alphaOK π item = true) :
    indexImpl (alphaRename π item) = mapS π (indexImpl item) := by
  simp only [alphaOK, Bool.and_eq_true] at hal
  obtain ⟨⟨⟨hdom, hinj⟩, _⟩, hok⟩ := hal
  have st := alpha_stat π item hd hdom hinj
  obtain ⟨a, d, u, lt0, ps, gt0, wc, tr, sf, items, rfl, hps⟩ := implDeclsOK_inv hdecl
  exact indexImpl_commA _ st a d u lt0 ps gt0 wc tr sf items (fun k => by cases k <;> rfl) hps hok

/-- the respelled impl has a well-formed parameter list with distinct names again (so the declaration-order theorems
    apply to it) -/
theorem alpha_decls (π : Renaming) (item : T) (hdecl : implDeclsOK item = true) (hal : alphaOK π item = true) :
    implDeclsOK (alphaRename π item) = true ∧ namesDistinct (canonCtx (alphaRename π item)) = true := by
  simp only [alphaOK, Bool.and_eq_true] at hal
  obtain ⟨⟨⟨_, hinj⟩, _⟩, _⟩ := hal
  obtain ⟨a, d, u, lt0, ps, gt0, wc, tr, sf, items, rfl, hps⟩ := implDeclsOK_inv hdecl
  generalize hc : alphaCtx π _ = c at hinj
  have hπ : c.r = π := by rw [← hc]; rfl
  have hD : ∀ k, c.D k = kindNames (.node "Generics" [] [lt0, .node "List" [] ps, gt0, wc]) (kindStr k) := by
    intro k; rw [← hc]; cases k <;> rfl
  rw [alpha_shape, ← hπ]
  constructor
  · show ((ps.map (declA c.r)).all fun p => (paramIdent p).isSome) = true
    rw [List.all_eq_true]
    intro p' hp'
    obtain ⟨p, hp, rfl⟩ := List.mem_map.1 hp'
    obtain ⟨k, y, sh⟩ := param_casesA c p (hps p hp)
    rw [sh.identA]
    rfl
  · have e1 := kindNames_genA c lt0 ps gt0 wc hps .lt
    have e2 := kindNames_genA c lt0 ps gt0 wc hps .ty
    have e3 := kindNames_genA c lt0 ps gt0 wc hps .co
    rw [← hD] at e1 e2 e3
    simp only [kindStr] at e1 e2 e3
    show (decide (kindNames (genA c.r lt0 ps gt0 wc) "GenericParam::Lifetime").Nodup &&
      decide (kindNames (genA c.r lt0 ps gt0 wc) "GenericParam::Type" ++
        kindNames (genA c.r lt0 ps gt0 wc) "GenericParam::Const").Nodup) = true
    rw [e1, e2, e3]
    exact hinj

end DI
