/-
  The `?Sized` set computed by the grouping search (`ABG.unsized`, Group.lean: `ABG.new`, `ABG.intersection`) and the
  hypothesis `SizedCompat` of the refinement theorems (C15, C02).

  Part A — the search invariant `UnsizedInv_uz`: what `abg.unsized` is for every group of every search candidate.
  Part B — the main impl's `Sized` parameters (`mainSizedParams_uz`), soundness of `sizedCompatB`, and `sizedCompatB`
           for the flat (un-nested) families the model computes.
  Part C — the unsized sets play no role in acceptance (`eraseU_uz`).
-/
import DisjointImpls.Lemmas.EndToEnd
import DisjointImpls.Lemmas.FlatOrder
namespace DI

/-! ## Part A — the invariant of the search -/

/-- the bounded types of the keys of a bounds group (`params` of lib.rs:462-466) -/
def keyTypes_uz (g : ABG) : List T := g.bounds.map (fun e => e.1.1)

/-- some member of the family relaxed `Sized` on the bounded type `p` (by spelling) -/
def relaxedBy_uz (ms : List Blk) (p : T) : Prop := ∃ b ∈ ms, p ∈ b.unsized

/-- what the search keeps in `unsized`:
    * the family is not empty;
    * a family with one member is `ABG.new` of that member (so its `unsized` is the member's own set, whole);
    * a family with two or more members: `p` is in `unsized` iff some member relaxed `p` and `p` is the bounded type of
      one of the CURRENT keys of the group (the keys as they are after the last member joined — before pruning). -/
def UnsizedInv_uz (e : T × ABG × List Blk) : Prop :=
  e.2.2 ≠ [] ∧
  (∀ b, e.2.2 = [b] → e.2.1 = ABG.new b) ∧
  (2 ≤ e.2.2.length → ∀ p, p ∈ e.2.1.unsized ↔ relaxedBy_uz e.2.2 p ∧ p ∈ keyTypes_uz e.2.1)

theorem keyEq_fst_uz {a b : BKey} (h : keyEq a b = true) : a.1 = b.1 := by
  unfold keyEq at h
  simp only [Bool.and_eq_true, beq_iff_eq] at h
  exact h.1

/-- membership in the `unsized` set of an intersection (lib.rs:432-433, 472) -/
theorem mem_intersection_unsized_uz {g : ABG} {other : Blk} {σ : Subst} {inter : ABG}
    (h : inter ∈ g.intersection other σ) (p : T) :
    p ∈ inter.unsized ↔ (p ∈ g.unsized ∨ p ∈ other.unsized) ∧ p ∈ keyTypes_uz inter := by
  unfold ABG.intersection at h
  simp only [List.mem_map] at h
  obtain ⟨combo, _, rfl⟩ := h
  simp only [keyTypes_uz, List.mem_filter, List.mem_eraseDups, List.mem_append, List.contains_iff_mem]

/-- the keys of an intersection are (up to `keyEq`, hence with the same bounded type) keys of the group -/
theorem intersection_keyTypes_sub_uz {g : ABG} {other : Blk} {σ : Subst} {inter : ABG}
    (h : inter ∈ g.intersection other σ) {p : T} (hp : p ∈ keyTypes_uz inter) : p ∈ keyTypes_uz g := by
  obtain ⟨kr, hkr, rfl⟩ := List.mem_map.1 hp
  obtain ⟨e1, _, e2, _, sk1, _, sk2, _, rows1, rows2, hf1, _, hk1, _, _⟩ := intersection_entry h kr hkr
  obtain ⟨kold, hkold, hkeq⟩ := findKey_some_keyEq hf1
  refine List.mem_map.2 ⟨(kold, rows1), hkold, ?_⟩
  rw [hk1]
  exact keyEq_fst_uz hkeq

theorem unsizedInv_inv_uz (env : Env) : SearchInv env UnsizedInv_uz (fun _ _ => True) where
  fresh id b _ := by
    refine ⟨by simp, fun b' hb' => ?_, fun h2 => ?_⟩
    · simp only [List.cons.injEq, and_true] at hb'
      rw [hb']
    · simp at h2
  join gid abg ms currId curr σ inter hg _ _ hinter := by
    obtain ⟨hne, hone, htwo⟩ := hg
    simp only at hne hone htwo
    refine ⟨by simp, fun b' hb' => ?_, fun _ p => ?_⟩
    · exfalso
      have := congrArg List.length hb'
      simp only [List.length_append, List.length_cons, List.length_nil] at this
      exact hne (List.length_eq_zero_iff.1 (by omega))
    · simp only
      rw [mem_intersection_unsized_uz hinter p]
      constructor
      · rintro ⟨hp, hk⟩
        refine ⟨?_, hk⟩
        rcases hp with hp | hp
        · -- relaxed by an older member
          cases ms with
          | nil => exact absurd rfl hne
          | cons b1 tl =>
            cases tl with
            | nil =>
              rw [hone b1 rfl] at hp
              exact ⟨b1, by simp, hp⟩
            | cons b2 tl =>
              obtain ⟨⟨b, hb, hbp⟩, _⟩ := (htwo (by simp) p).1 hp
              exact ⟨b, List.mem_append.2 (Or.inl hb), hbp⟩
        · exact ⟨curr, by simp, hp⟩
      · rintro ⟨⟨b, hb, hbp⟩, hk⟩
        refine ⟨?_, hk⟩
        rcases List.mem_append.1 hb with hb | hb
        · left
          cases ms with
          | nil => cases hb
          | cons b1 tl =>
            cases tl with
            | nil =>
              simp only [List.mem_singleton] at hb
              subst hb
              rw [hone b rfl]
              exact hbp
            | cons b2 tl =>
              exact (htwo (by simp) p).2 ⟨⟨b, hb, hbp⟩, intersection_keyTypes_sub_uz hinter hk⟩
        · right
          simp only [List.mem_singleton] at hb
          subst hb
          exact hbp
  impls _ _ _ := trivial

theorem prune_unsized_uz (g : ABG) : g.prune.unsized = g.unsized := rfl

theorem prune_keyTypes_sub_uz (g : ABG) {p : T} (h : p ∈ keyTypes_uz g.prune) : p ∈ keyTypes_uz g := by
  obtain ⟨kr, hkr, rfl⟩ := List.mem_map.1 h
  simp only [ABG.prune, List.mem_filter] at hkr
  exact List.mem_map.2 ⟨kr, hkr.1, rfl⟩

/-- every family of an accepted grouping is the pruned form of a group `e0` of a search candidate, and `e0`
    satisfies the invariant -/
theorem parseGroups_unsizedInv_uz {items : List T} {groups : Groups} (h : parseGroups items = .ok groups)
    {e : T × ABG × List Blk} (he : e ∈ groups) :
    ∃ e0, UnsizedInv_uz e0 ∧ e = (e0.1, e0.2.1.prune, e0.2.2) :=
  let ⟨e0, h0, h1, _, _⟩ := parseGroups_group' h he (unsizedInv_inv_uz (parseEnv items))
  ⟨e0, h0, h1⟩

/-- the `?Sized` bounds the main impl emits: `b: ?Sized` is written for a bounded type `b` of a (surviving) key that is
    in the group's `unsized` set (main_trait.rs:272-286 / `assocBoundPredicates`) -/
def mainRelaxed_uz (e : T × ABG × List Blk) (p : T) : Prop := p ∈ e.2.1.unsized ∧ p ∈ keyTypes_uz e.2.1

/-- order-free, search-free description of what the main impl relaxes, for EVERY family of every accepted input
    (one member or many): exactly the bounded types of its surviving keys that some member relaxed -/
theorem mainRelaxed_iff_uz {items : List T} {groups : Groups} (h : parseGroups items = .ok groups)
    {e : T × ABG × List Blk} (he : e ∈ groups) (p : T) :
    mainRelaxed_uz e p ↔ relaxedBy_uz e.2.2 p ∧ p ∈ keyTypes_uz e.2.1 := by
  obtain ⟨e0, ⟨hne, hone, htwo⟩, rfl⟩ := parseGroups_unsizedInv_uz h he
  unfold mainRelaxed_uz
  simp only [prune_unsized_uz]
  constructor
  · rintro ⟨hu, hk⟩
    refine ⟨?_, hk⟩
    cases hms : e0.2.2 with
    | nil => exact absurd hms hne
    | cons b1 tl =>
      cases tl with
      | nil =>
        rw [hone b1 hms] at hu
        exact ⟨b1, by simp, hu⟩
      | cons b2 tl =>
        rw [← hms]
        exact ((htwo (by rw [hms]; simp) p).1 hu).1
  · rintro ⟨⟨b, hb, hbp⟩, hk⟩
    refine ⟨?_, hk⟩
    cases hms : e0.2.2 with
    | nil => exact absurd hms hne
    | cons b1 tl =>
      rw [hms] at hb
      cases tl with
      | nil =>
        simp only [List.mem_singleton] at hb
        subst hb
        rw [hone b hms]
        exact hbp
      | cons b2 tl =>
        exact (htwo (by rw [hms]; simp) p).2 ⟨⟨b, by rw [hms]; exact hb, hbp⟩, prune_keyTypes_sub_uz _ hk⟩

/-! ## Part B — `sizedCompatB` is sound, and holds for the flat families the model computes -/

/-- world condition for the constructed-type arm of `sizedCompatB`: every constructed type other than a slice or a
    trait object is `Sized`. NOTE: `str` is a `Type::Path`, so a world in which `str` is unsized does NOT satisfy this
    condition; it is needed only for members whose substitution binds a `Sized` parameter of the main impl to a
    constructed type (nested members). -/
def SizedWorld_uz (W : World) : Prop :=
  ∀ k as ks, k ≠ "Type::Slice" → k ≠ "Type::TraitObject" → W.sized (.node k as ks) = true

theorem inst_node_kind_uz (σ : Subst) (k : String) (as : List String) (ks : List T) :
    ∃ k' as' ks', inst σ (.node k as ks) = .node k' as' ks' ∧ (k' = k ∨ (k = "GenericArgument::Type" ∧ k' = "GenericArgument::Const")) := by
  cases h : isGA k as ks with
  | none => exact ⟨_, _, _, inst_other σ h, Or.inl rfl⟩
  | some n =>
    obtain ⟨rfl, rfl, rfl⟩ := isGA_some h
    have := instGa σ n
    unfold gaNode at this
    rw [this]
    rcases lookup σ n with _ | (t | e | _)
    · exact ⟨_, _, _, rfl, Or.inl rfl⟩
    · exact ⟨_, _, _, rfl, Or.inl rfl⟩
    · exact ⟨_, _, _, rfl, Or.inr ⟨rfl, rfl⟩⟩
    · exact ⟨_, _, _, rfl, Or.inl rfl⟩

theorem inst_comp_identity_uz {θ ρ : Subst} {p : String} (h : lookup θ p = some .identity) :
    inst (comp θ ρ) (.tparam p) = inst ρ (.tparam p) := by
  have hl : lookup (comp θ ρ) p = some (compVal ρ p .identity) := by rw [lookup_comp, h]; rfl
  rw [inst, inst, hl]
  simp only [compVal]
  rcases lookup ρ p with _ | (t | e | _) <;> rfl

/-- the core of the soundness of `sizedCompatB`: the world condition is only used on the constructed types the
    member's substitution assigns to `Sized` parameters of the main impl -/
theorem sizedCompatB_sound_core_uz (W : World) (F : Family) (m : Member) (h : sizedCompatB F m = true)
    (hW : ∀ p ∈ F.sizedParams, ∀ k as ks, lookup m.θ p = some (.ty (.node k as ks)) → k ≠ "Type::Slice" →
      k ≠ "Type::TraitObject" → ∀ ρ, W.sized (inst ρ (.node k as ks)) = true) :
    SizedCompat W F m := by
  intro ρ hwk hsz p hp
  obtain ⟨_, _, w3⟩ := wkB_parts hwk
  unfold sizedCompatB at h
  have hall := (List.all_eq_true.1 h) p hp
  rcases hl : lookup m.θ p with _ | (t | e | _)
  · rw [hl] at hall; cases hall
  · rw [hl] at hall
    cases t with
    | tparam p' =>
      simp only [List.contains_iff_mem] at hall
      have hlc : lookup (comp m.θ ρ) p = some (.ty (inst ρ (.tparam p'))) := by
        rw [lookup_comp, hl]
        show some (compVal ρ p (.ty (.tparam p'))) = _
        rw [compVal_tp_notEx (w3 p' hall)]
      rw [instTp_ty hlc]
      exact hsz p' hall
    | eparam _ => cases hall
    | node k as ks =>
      simp only [Bool.and_eq_true, bne_iff_ne, ne_eq] at hall
      have hlc : lookup (comp m.θ ρ) p = some (.ty (inst ρ (.node k as ks))) := by
        rw [lookup_comp, hl]
        show some (compVal ρ p (.ty (.node k as ks))) = _
        rw [compVal_ty_other (fun m hm => by cases hm)]
      rw [instTp_ty hlc]
      exact hW p hp k as ks hl hall.1 hall.2 ρ
  · rw [hl] at hall; cases hall
  · rw [hl] at hall
    simp only [List.contains_iff_mem] at hall
    rw [inst_comp_identity_uz hl]
    exact hsz p hall

/-- `sizedCompatB F m = true → SizedCompat W F m` in every world in which every constructed type other than slices and
    trait objects is `Sized` -/
theorem sizedCompatB_sound_uz (W : World) (hW : SizedWorld_uz W) (F : Family) (m : Member)
    (h : sizedCompatB F m = true) : SizedCompat W F m := by
  refine sizedCompatB_sound_core_uz W F m h (fun p _ k as ks _ h1 h2 ρ => ?_)
  obtain ⟨k', as', ks', he, hk⟩ := inst_node_kind_uz ρ k as ks
  rw [he]
  rcases hk with rfl | ⟨rfl, rfl⟩
  · exact hW _ _ _ h1 h2
  · exact hW _ _ _ (by decide) (by decide)

/-- no constructed type among the values of the member's substitution (flat members: all identity) -/
def noCtor_uz (θ : Subst) : Bool := θ.all (fun p => match p.2 with | .ty (.node _ _ _) => false | _ => true)

theorem lookup_mem_uz : ∀ {σ : Subst} {n : String} {v : Val}, lookup σ n = some v → (n, v) ∈ σ
  | [], _, _, h => by cases h
  | (m, w) :: r, n, v, h => by
      simp only [lookup] at h
      split at h
      · next hm => cases h; subst hm; simp
      · exact List.mem_cons_of_mem _ (lookup_mem_uz h)

/-- … and in EVERY world (whatever is unsized there, `str` included) when the member's substitution assigns no
    constructed type (in particular for un-nested members, whose substitution is the identity) -/
theorem sizedCompatB_sound_noCtor_uz (W : World) (F : Family) (m : Member) (hθ : noCtor_uz m.θ = true)
    (h : sizedCompatB F m = true) : SizedCompat W F m := by
  refine sizedCompatB_sound_core_uz W F m h (fun p _ k as ks hl _ _ _ => ?_)
  have := (List.all_eq_true.1 hθ) _ (lookup_mem_uz hl)
  cases this

theorem noCtor_of_allIdentity_uz {θ : Subst} (h : allIdentity θ = true) : noCtor_uz θ = true := by
  unfold allIdentity at h
  unfold noCtor_uz
  rw [List.all_eq_true] at h ⊢
  intro p hp
  have := h p hp
  rw [beq_iff_eq] at this
  rw [this]

/-! ### the `Sized` parameters of the main impl -/

/-- the generics of a block's item (as `mkBlock` / `mkBlk` read them) -/
def blkGenerics_uz (b : Blk) : T := (implGenerics b.item).getD (.node "?" [] [])

/-- the bounded types for which the main impl writes a where-predicate (`assocBoundPredicates`, main_trait.rs:254-286):
    those of `ABG.idents` -/
def identTypes_uz (g : ABG) : List T := g.idents.map (fun kx => kx.1.1)

/-- the `Sized` parameters of the main impl as the model's generator determines them: the type parameters the first
    member declares (`kindNames … "GenericParam::Type"`, the table the generator's indexer starts from; the main impl
    keeps a subset of them, `s.ixTy` in `mainImplOfTrait` — `Lemmas/UnsizedExpand.lean`), minus those `x` for which
    `x: ?Sized + …` is emitted — `x` is in the group's `unsized` set AND is the bounded type of a key with an
    associated-type identifier -/
def mainSizedParams_uz (e : T × ABG × List Blk) : List String :=
  match e.2.2 with
  | [] => []
  | first :: _ => (kindNames (blkGenerics_uz first) "GenericParam::Type").filter (fun x =>
      !(e.2.1.unsized.contains (mkTypeIdent x) && (identTypes_uz e.2.1).contains (mkTypeIdent x)))

/-- after pruning every key has an associated-type identifier: the bounded types of `idents` are those of the keys -/
theorem identTypes_prune_uz (g : ABG) (p : T) : p ∈ identTypes_uz g.prune ↔ p ∈ keyTypes_uz g.prune := by
  constructor
  · intro h
    obtain ⟨kx, hkx, rfl⟩ := List.mem_map.1 h
    obtain ⟨rows, hr⟩ := idents_mem hkx
    exact List.mem_map.2 ⟨_, hr, rfl⟩
  · intro h
    obtain ⟨kr, hkr, rfl⟩ := List.mem_map.1 h
    cases g with
    | mk B u =>
      have hkr' := hkr
      simp only [ABG.prune, List.mem_filter, List.any_eq_true, Bool.not_eq_true', List.isEmpty_eq_false_iff] at hkr'
      obtain ⟨_, r, hr, hrne⟩ := hkr'
      cases r with
      | nil => exact absurd rfl hrne
      | cons ap rest =>
        refine List.mem_map.2 ⟨(kr.1, ap.1), ?_, rfl⟩
        show _ ∈ (ABG.mk (B.filter _) u).idents
        exact mem_idents.2 ⟨kr, hkr, rfl, ap :: rest, hr, by simp⟩

theorem isMaybeSizedOn_unsized_uz {b : Blk} {x : String} (h : isMaybeSizedOn b.raw x = true) :
    mkTypeIdent x ∈ b.unsized := by
  unfold isMaybeSizedOn at h
  obtain ⟨rb, hrb, hc⟩ := List.any_eq_true.1 h
  simp only [Bool.and_eq_true, beq_iff_eq] at hc
  unfold Blk.unsized
  rw [List.mem_eraseDups]
  exact List.mem_map.2 ⟨rb, List.mem_filter.2 ⟨hrb, hc.1⟩, hc.2⟩

/-- EXECUTABLE: the negation of D7's shape. For every member `b` and every type parameter `x` the first member
    declares: if `b` relaxes `x` (`x: ?Sized`, inline or in the where-clause), then `x` itself is the bounded type of
    a key of the family (a key that survived the intersections and the pruning) -/
def relaxedAreKeys_uz (e : T × ABG × List Blk) : Bool :=
  match e.2.2 with
  | [] => true
  | first :: _ => e.2.2.all (fun b => (kindNames (blkGenerics_uz first) "GenericParam::Type").all (fun x =>
      !isMaybeSizedOn b.raw x || (keyTypes_uz e.2.1).contains (mkTypeIdent x)))

/-- the substitution of the header's self-match -/
def selfSubst_uz (gid : T) : Subst := match sup gid gid with | .yes σ _ => σ | _ => []

/-- EXECUTABLE: every `Sized` parameter of the main impl is a parameter of the header that the self-match binds (to the
    identity), and every member declares it as a type parameter (members of a flat family share the header; this
    excludes a parameter in the ambiguous generic-argument position that one member declares as a type and another as
    a const) -/
def mainParamsOK_uz (e : T × ABG × List Blk) : Bool :=
  (mainSizedParams_uz e).all (fun p => lookup (selfSubst_uz e.1) p == some .identity &&
    e.2.2.all (fun b => (typeParamNames (blkGenerics_uz b)).contains p))

theorem mkBlock_sizedParams_uz {b : Blk} (h : b.canonical) :
    (mkBlock b.item).sizedParams = (typeParamNames (blkGenerics_uz b)).filter (fun x => !isMaybeSizedOn b.raw x) := by
  unfold Blk.canonical at h
  unfold mkBlock blkGenerics_uz
  simp only
  rw [← h]

/-- FLAT `sizedCompatB`: in an accepted grouping of an invocation without nested headers, for a family whose header
    matches itself with identity bindings and that passes the two executable checks, every member satisfies
    `sizedCompatB` with respect to the main impl's `Sized` parameters -/
theorem flat_sizedCompatB_uz {items : List T} {groups : Groups} (h : parseGroups items = .ok groups)
    (hns : ∀ id, (parseEnv items).subsets.get id = []) {e : T × ABG × List Blk} (he : e ∈ groups)
    (hself : selfIdentity e.1 = true) (hpar : mainParamsOK_uz e = true) (hrel : relaxedAreKeys_uz e = true) :
    ∀ m ∈ (familyOfGroup (mainSizedParams_uz e) e).members,
      sizedCompatB (familyOfGroup (mainSizedParams_uz e) e) m = true := by
  intro m hm
  have hown := parseGroups_rowsOwn h he
  obtain ⟨σ, l, hs, hσ⟩ := selfIdentity_spec hself
  obtain ⟨i, b, ps, hb, _, rfl⟩ := familyOfGroup_member hm
  have hgid : groupIdOf b.item = e.1 := rowsOwn_flat_header hns hown hb
  have hbmem : b ∈ e.2.2 := List.mem_of_getElem? hb
  have hcan : b.canonical := mem_map_mkBlk_canonical (parseGroups_member_input h he b hbmem)
  rw [memberOfGroup_flat hgid hs]
  unfold sizedCompatB
  rw [List.all_eq_true]
  intro p hp
  change p ∈ mainSizedParams_uz e at hp
  have hself' : selfSubst_uz e.1 = σ := by unfold selfSubst_uz; rw [hs]
  have hpo := (List.all_eq_true.1 hpar) p hp
  rw [hself'] at hpo
  simp only [Bool.and_eq_true, beq_iff_eq, List.all_eq_true, List.contains_iff_mem] at hpo
  show (match lookup σ p with
    | some .identity => (mkBlock b.item).sizedParams.contains p
    | some (.ty (.tparam p')) => (mkBlock b.item).sizedParams.contains p'
    | some (.ty (.node k _ _)) => k != "Type::Slice" && k != "Type::TraitObject"
    | _ => false) = true
  rw [hpo.1]
  simp only [List.contains_iff_mem]
  rw [mkBlock_sizedParams_uz hcan, List.mem_filter]
  refine ⟨hpo.2 b hbmem, ?_⟩
  cases hm' : isMaybeSizedOn b.raw p with
  | false => rfl
  | true =>
    exfalso
    -- `b` relaxes `p`: then `p` is a key's bounded type, and the main impl relaxes it too
    unfold mainSizedParams_uz at hp
    unfold relaxedAreKeys_uz at hrel
    cases hms : e.2.2 with
    | nil => rw [hms] at hbmem; cases hbmem
    | cons first rest =>
      rw [hms] at hp hrel
      simp only [List.mem_filter, Bool.not_eq_true', Bool.and_eq_false_iff] at hp
      simp only [List.all_eq_true, Bool.or_eq_true, Bool.not_eq_true', List.contains_iff_mem] at hrel
      have hkey : mkTypeIdent p ∈ keyTypes_uz e.2.1 := by
        rcases hrel b (by rw [← hms]; exact hbmem) p hp.1 with h1 | h1
        · rw [hm'] at h1; cases h1
        · exact h1
      have hmr : mainRelaxed_uz e (mkTypeIdent p) :=
        (mainRelaxed_iff_uz h he _).2 ⟨⟨b, hbmem, isMaybeSizedOn_unsized_uz hm'⟩, hkey⟩
      obtain ⟨e0, _, he0⟩ := parseGroups_unsizedInv_uz h he
      have hid : mkTypeIdent p ∈ identTypes_uz e.2.1 := by
        rw [he0]; rw [he0] at hkey
        exact (identTypes_prune_uz _ _).2 hkey
      rcases hp.2 with h1 | h1
      · have := hmr.1
        rw [← List.contains_iff_mem, h1] at this
        cases this
      · rw [← List.contains_iff_mem, h1] at hid
        cases hid

/-- `sizedCompatB` is antitone in the main impl's `Sized` parameters: a main impl that requires `Sized` of fewer
    parameters (e.g. because the trait's own where-clause relaxes one more) is compatible a fortiori -/
theorem sizedCompatB_mono_uz {F : Family} {m : Member} (sp : List String) (hsub : ∀ p ∈ sp, p ∈ F.sizedParams)
    (h : sizedCompatB F m = true) : sizedCompatB { F with sizedParams := sp } m = true := by
  unfold sizedCompatB at h ⊢
  rw [List.all_eq_true] at h ⊢
  intro p hp
  exact h p (hsub p hp)

theorem familyOfGroup_sized_uz (sp sp' : List String) (e : T × ABG × List Blk) :
    { familyOfGroup sp e with sizedParams := sp' } = familyOfGroup sp' e := rfl

/-- … hence the flat theorem holds for every list of `Sized` parameters contained in `mainSizedParams_uz e` -/
theorem flat_sizedCompatB_sub_uz {items : List T} {groups : Groups} (h : parseGroups items = .ok groups)
    (hns : ∀ id, (parseEnv items).subsets.get id = []) {e : T × ABG × List Blk} (he : e ∈ groups)
    (hself : selfIdentity e.1 = true) (hpar : mainParamsOK_uz e = true) (hrel : relaxedAreKeys_uz e = true)
    (sp : List String) (hsub : ∀ p ∈ sp, p ∈ mainSizedParams_uz e) :
    ∀ m ∈ (familyOfGroup sp e).members, sizedCompatB (familyOfGroup sp e) m = true := by
  intro m hm
  have := flat_sizedCompatB_uz h hns he hself hpar hrel m hm
  rw [← familyOfGroup_sized_uz (mainSizedParams_uz e) sp e]
  exact sizedCompatB_mono_uz sp hsub this

/-- a sufficient condition for the header part of `mainParamsOK_uz` in the terms of `hdrCoversB`: the header matches
    itself with identity bindings and no lenient arm, is well-formed for the matcher, and the parameter occurs in it -/
theorem selfSubst_identity_uz {gid : T} (hclean : selfClean gid = true) (hwf : wf gid = true) {p : String}
    (hp : p ∈ params gid) : lookup (selfSubst_uz gid) p = some .identity := by
  obtain ⟨σ, hs, hσ⟩ := selfClean_spec hclean
  have hb : (lookup σ p).isSome = true := (supS_good gid (stripTop gid) σ hwf hs).1 p hp
  unfold selfSubst_uz
  rw [hs]
  rcases lookup_allIdentity hσ p with h1 | h1
  · rw [h1] at hb; cases hb
  · exact h1

/-- members of a flat family carry an all-identity substitution -/
theorem flat_member_noCtor_uz {items : List T} {groups : Groups} (h : parseGroups items = .ok groups)
    (hns : ∀ id, (parseEnv items).subsets.get id = []) (sp : List String) {e : T × ABG × List Blk} (he : e ∈ groups)
    (hself : selfIdentity e.1 = true) : ∀ m ∈ (familyOfGroup sp e).members, noCtor_uz m.θ = true := by
  intro m hm
  have hown := parseGroups_rowsOwn h he
  obtain ⟨σ, l, hs, hσ⟩ := selfIdentity_spec hself
  obtain ⟨i, b, ps, hb, _, rfl⟩ := familyOfGroup_member hm
  rw [memberOfGroup_flat (rowsOwn_flat_header hns hown hb) hs]
  exact noCtor_of_allIdentity_uz hσ

/-- FLAT `SizedCompat`, in EVERY world: the hypothesis `SizedCompat` of the refinement theorems holds for every member
    of a flat family that passes the executable checks -/
theorem flat_sizedCompat_uz {items : List T} {groups : Groups} (h : parseGroups items = .ok groups)
    (hns : ∀ id, (parseEnv items).subsets.get id = []) {e : T × ABG × List Blk} (he : e ∈ groups)
    (hself : selfIdentity e.1 = true) (hpar : mainParamsOK_uz e = true) (hrel : relaxedAreKeys_uz e = true)
    (sp : List String) (hsub : ∀ p ∈ sp, p ∈ mainSizedParams_uz e) (W : World) :
    ∀ m ∈ (familyOfGroup sp e).members, SizedCompat W (familyOfGroup sp e) m :=
  fun m hm => sizedCompatB_sound_noCtor_uz W _ m (flat_member_noCtor_uz h hns sp he hself m hm)
    (flat_sizedCompatB_sub_uz h hns he hself hpar hrel sp hsub m hm)

/-- the executable side conditions of the flat `?Sized` theorems on one group, as one check -/
def unsizedFlatOK_uz (e : T × ABG × List Blk) : Bool :=
  flatGroupOK e && hdrCoversB (familyOfGroup (mainSizedParams_uz e) e) && mainParamsOK_uz e && relaxedAreKeys_uz e

theorem unsizedFlatOK_spec_uz {e : T × ABG × List Blk} (h : unsizedFlatOK_uz e = true) :
    flatGroupOK e = true ∧ hdrCoversB (familyOfGroup (mainSizedParams_uz e) e) = true ∧ mainParamsOK_uz e = true ∧
      relaxedAreKeys_uz e = true ∧ selfIdentity e.1 = true := by
  simp only [unsizedFlatOK_uz, Bool.and_eq_true] at h
  exact ⟨h.1.1.1, h.1.1.2, h.1.2, h.2, (flatGroupOK_spec h.1.1.1).1⟩

/-- FLAT EXACTNESS per member: a member of a flat family that passes the checks is selected for a query exactly when
    its block applies to it — `Sized` requirements included, whichever member wrote a relaxation -/
theorem flat_unsized_exact_uz {items : List T} {groups : Groups} (h : parseGroups items = .ok groups)
    (hns : ∀ id, (parseEnv items).subsets.get id = []) {e : T × ABG × List Blk} (he : e ∈ groups)
    (hok : unsizedFlatOK_uz e = true) (W : World) (hw : WorldTotal W (familyOfGroup (mainSizedParams_uz e) e))
    (m : Member) (hm : m ∈ (familyOfGroup (mainSizedParams_uz e) e).members) (q : T) :
    genSel W (familyOfGroup (mainSizedParams_uz e) e) m q ↔ applies W m.blk q := by
  obtain ⟨ok1, ok2, ok3, ok4, ok5⟩ := unsizedFlatOK_spec_uz hok
  have hmo := flat_memberOK h hns (mainSizedParams_uz e) he ok1 m hm
  have hth := (thetaCoversB_iff _ m).1 (flat_thetaCovers h hns (mainSizedParams_uz e) he ok2 m hm)
  have hsz := flat_sizedCompat_uz h hns he ok5 ok3 ok4 (mainSizedParams_uz e) (fun _ hp => hp) W m hm
  exact ⟨gen_sub_spec W _ m q, spec_sub_gen W _ m q hmo hw hth hsz⟩

/-- FLAT COVERAGE without the hypothesis `SizedCompat`: for an accepted invocation without nested headers whose
    groups pass the executable checks, in every world in which the dispatch traits define their associated types, the
    generated program (each family with the main impl's own `Sized` parameters) implements the trait for a query
    exactly when one of the input blocks applies to it -/
theorem flat_coverage_unsized_uz {items : List T} {groups : Groups} (h : parseGroups items = .ok groups)
    (hns : ∀ id, (parseEnv items).subsets.get id = [])
    (hok : ∀ e ∈ groups, unsizedFlatOK_uz e = true)
    (W : World) (hw : ∀ e ∈ groups, WorldTotal W (familyOfGroup (mainSizedParams_uz e) e)) (q : T) :
    (∃ e ∈ groups, ∃ m ∈ (familyOfGroup (mainSizedParams_uz e) e).members,
        genSel W (familyOfGroup (mainSizedParams_uz e) e) m q) ↔
    (∃ it ∈ items, applies W (mkBlock (canon it)) q) := by
  constructor
  · rintro ⟨e, he, m, hm, hsel⟩
    have happ := gen_sub_spec W _ m q hsel
    obtain ⟨i, b, ps, hb, _, rfl⟩ := familyOfGroup_member hm
    have hin := parseGroups_member_input h he b (List.mem_of_getElem? hb)
    obtain ⟨it, hit, rfl⟩ := List.mem_map.1 hin
    exact ⟨it, hit, happ⟩
  · rintro ⟨it, hit, happ⟩
    have hbin : mkBlk it ∈ items.map mkBlk := List.mem_map.2 ⟨it, hit, rfl⟩
    obtain ⟨bk, hbk, hbbk⟩ := mkBuckets_holds_input items (mkBlk it) hbin
    have hperm := parseGroups_partition_partial h hns
    have hmem : mkBlk it ∈ groups.flatMap (fun e => e.2.2) :=
      hperm.mem_iff.2 (List.mem_flatMap.2 ⟨bk, hbk, hbbk⟩)
    obtain ⟨e, he, hbe⟩ := List.mem_flatMap.1 hmem
    obtain ⟨m, hm, hblk⟩ := familyOfGroup_has_member h (mainSizedParams_uz e) he hbe
    refine ⟨e, he, m, hm, (flat_unsized_exact_uz h hns he (hok e he) W (hw e he) m hm q).2 ?_⟩
    rw [hblk]
    exact happ

/-! ## Part C — the `unsized` sets and the `maybe` flags play no role in what decides acceptance -/

/-- a block with all `?` modifiers of its recorded bounds erased (the item text is kept) -/
def stripMaybe_uz (b : Blk) : Blk := ⟨b.item, b.raw.map (fun rb => { rb with maybe := false })⟩

/-- a bounds group with another `unsized` set -/
def withUnsized_uz (g : ABG) (u : List T) : ABG := ⟨g.bounds, u⟩

theorem stripMaybe_unsized_uz (b : Blk) : (stripMaybe_uz b).unsized = [] := by
  unfold Blk.unsized stripMaybe_uz
  have : (b.raw.map (fun rb => ({ rb with maybe := false } : RawBound))).filter (·.maybe) = [] :=
    List.filter_eq_nil_iff.2 (fun x hx => by
      obtain ⟨rb, _, rfl⟩ := List.mem_map.1 hx
      simp)
  simp only [this]
  rfl

/-- `AssocBoundsGroup::new` reads the `?` modifiers only for the `unsized` set: the keys and rows are those of the block
    with the modifiers erased -/
theorem new_bounds_stripMaybe_uz (b : Blk) : (ABG.new (stripMaybe_uz b)).bounds = (ABG.new b).bounds := by
  unfold ABG.new stripMaybe_uz
  simp only [List.foldl_map]

/-- `intersection`: the keys and rows of the results depend neither on the `unsized` set of the group nor on the `?`
    modifiers of the joining block -/
theorem intersection_bounds_uz (g : ABG) (u : List T) (other : Blk) (σ : Subst) :
    ((withUnsized_uz g u).intersection (stripMaybe_uz other) σ).map (·.bounds) =
      (g.intersection other σ).map (·.bounds) := by
  unfold ABG.intersection withUnsized_uz stripMaybe_uz
  simp only [List.foldl_map, List.map_map]
  rfl

theorem prune_withUnsized_uz (g : ABG) (u : List T) : (withUnsized_uz g u).prune = withUnsized_uz g.prune u := rfl

theorem idents_withUnsized_uz (g : ABG) (u : List T) : (withUnsized_uz g u).idents = g.idents := rfl
theorem payloads_withUnsized_uz (g : ABG) (u : List T) : (withUnsized_uz g u).payloads = g.payloads := rfl
theorem isOverlapping_withUnsized_uz (g : ABG) (u : List T) : (withUnsized_uz g u).isOverlapping = g.isOverlapping := rfl

/-- the candidate filter (`find_impl_group_candidates`, lib.rs:799-814) does not look at the `unsized` sets: replacing them
    (by any sets `U e`) changes neither the verdict nor the keys, rows and members of what passes -/
theorem filterCandidate_withUnsized_uz (U : T × ABG × List Blk → List T) (gs : Groups) :
    filterCandidate (gs.map (fun e => (e.1, withUnsized_uz e.2.1 (U e), e.2.2))) =
      (filterCandidate gs).map (fun p => (List.zip gs p).map (fun ep => (ep.2.1, withUnsized_uz ep.2.2.1 (U ep.1), ep.2.2.2))) := by
  unfold filterCandidate
  simp only [List.map_map, List.any_map, Function.comp_def, prune_withUnsized_uz, isOverlapping_withUnsized_uz]
  have hany : (gs.any fun x => (withUnsized_uz x.2.1.prune (U x)).bounds.isEmpty || x.2.1.prune.isOverlapping) =
      (gs.any fun x => x.2.1.prune.bounds.isEmpty || x.2.1.prune.isOverlapping) := rfl
  rw [hany]
  have hz : ∀ l : Groups, List.map (fun x => (x.1, withUnsized_uz x.2.1.prune (U x), x.2.2)) l =
      List.map (fun ep => (ep.2.1, withUnsized_uz ep.2.2.1 (U ep.1), ep.2.2.2))
        (l.zip (List.map (fun e => (e.1, e.2.1.prune, e.2.2)) l)) := by
    intro l
    induction l with
    | nil => rfl
    | cons e rest ih => simp only [List.map_cons, List.zip_cons_cons, ih]
  split
  · rfl
  · simp only [Option.map_some, Option.some.injEq]
    exact hz gs

theorem filterCandidate_isSome_withUnsized_uz (U : T × ABG × List Blk → List T) (gs : Groups) :
    (filterCandidate (gs.map (fun e => (e.1, withUnsized_uz e.2.1 (U e), e.2.2)))).isSome = (filterCandidate gs).isSome := by
  rw [filterCandidate_withUnsized_uz]
  cases filterCandidate gs <;> rfl

end DI
