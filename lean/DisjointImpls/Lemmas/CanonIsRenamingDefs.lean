/-
  Executable definitions for "canonicalisation IS a consistent textual renaming of the block" (C13; statements in
  `Props/C13.lean` `C13_canon_is_renaming*`, proofs in `Lemmas/CanonIsRenaming.lean`). Definitions only, core only (it
  imports `CanonAlphaDefs.lean` and nothing else), so that every side condition can be evaluated on generated cases:
  * `acT_cr π t`, `alphaRenameC_cr π item`   the textual renaming `arT` / `alphaRename` of `CanonAlphaDefs.lean`, building
                                  the node form the decoder gives for the NEW spelling: a lone path whose new spelling is
                                  reserved (`_ŠČ…`) is a `tparam` / `eparam`, a reserved leaf whose new spelling is an
                                  ordinary identifier is a lone `Type::Path` / `Expr::Path`;
  * `qsT_cr P t`, `qselfForm_cr`, `qselfFormOf_cr names`   the one presentation change of the resolver: `X::rest…`
                                  (no qualified self, no leading `::`, no arguments on `X`, at least one more segment)
                                  with `P X` is printed `<X>::rest…`;
  * `renOK_cr P r t`              exactly what the theorem needs of the tree: renamed heads are plain, const heads bare,
                                  no path whose first segment is NOT renamed is of the form `X::rest…` with `P X`;
  * `decNF_cr t`                  the tree is in decoder normal form as far as lone parameter paths are concerned;
  * `noOld_cr r t`                no old spelling of a parameter renamed by `r` is left in parameter position.
-/
import DisjointImpls.CanonAlphaDefs
namespace DI

/-- a reserved (canonical) parameter spelling `_ŠČ…` -/
def reserved_cr (x : String) : Bool := x.startsWith PARAM_PREFIX

/-- the identifier as a lone expression path, in the form the decoder gives it (`identExpr` of `Expand.lean`) -/
def mkExprIdent_cr (x : String) : T :=
  if x.startsWith PARAM_PREFIX then .eparam x
  else .node "Expr::Path" [] [.node "Ign" [] [.node "List" [] []], .node "None" [] [],
    .node "Path" [] [.node "IgnL" [] [.node "None" [] []],
      .node "List" [] [.node "PathSegment" [] [.node "Ident" [x] [], .node "PathArguments::None" [] []]]]]

/-- the bare identifier `x`: no qualified self, no leading `::`, one segment without arguments -/
def lonePath_cr (q p : T) : Bool := plainHead q p && (restSegments p).isEmpty

/-- a lone type path whose identifier is respelled to a reserved name becomes a `tparam` leaf -/
def convTy_cr (π : Renaming) (q p : T) : Option String :=
  match firstSegIdent p with
  | some x =>
      (match rlookup π.ty x with
       | some m => if lonePath_cr q p && reserved_cr m then some m else none
       | none => none)
  | none => none

/-- a lone expression path whose identifier is respelled to a reserved name becomes an `eparam` leaf -/
def convEx_cr (π : Renaming) (q p : T) : Option String :=
  match firstSegIdent p with
  | some x =>
      (match (rlookup π.ty x).or (rlookup π.co x) with
       | some m => if lonePath_cr q p && reserved_cr m then some m else none
       | none => none)
  | none => none

mutual
/-- the textual renaming `arT` in decoder form: exactly `arT`, except that a lone parameter path / parameter leaf that is
    respelled gets the node form of its NEW spelling (`tparam` / `eparam` for reserved identifiers, `Type::Path` /
    `Expr::Path` for ordinary ones; the attributes of a lone expression path that becomes a leaf are not kept, a leaf has
    none) -/
def acT_cr (π : Renaming) : T → T
  | .tparam n => (match rlookup π.ty n with | some m => mkTypeIdent m | none => .tparam n)
  | .eparam n => (match (rlookup π.ty n).or (rlookup π.co n) with | some m => mkExprIdent_cr m | none => .eparam n)
  | .node "Ign" as ks => .node "Ign" as ks
  | .node "Eq" as ks => .node "Eq" as ks
  | .node "Lifetime" as [.node "Ident" [x] []] => .node "Lifetime" as [.node "Ident" [rn π.lt x] []]
  | .node "Type::Path" as [qself, path] =>
      (match convTy_cr π qself path with
       | some m => .tparam m
       | none => .node "Type::Path" as [acT_cr π qself, mapHead (rn π.ty) (acT_cr π path)])
  | .node "Expr::Path" as [att, qself, path] =>
      (match convEx_cr π qself path with
       | some m => .eparam m
       | none => .node "Expr::Path" as [acT_cr π att, acT_cr π qself,
          mapHead (fun x => ((rlookup π.ty x).or (rlookup π.co x)).getD x) (acT_cr π path)])
  | .node k as ks => .node k as (acL_cr π ks)
def acL_cr (π : Renaming) : List T → List T
  | [] => []
  | t :: ts => acT_cr π t :: acL_cr π ts
end

/-- **the textual renaming of an impl, in decoder form**: declarations respelled in place, then every occurrence -/
def alphaRenameC_cr (π : Renaming) (item : T) : T := acT_cr π (renameImplDecls π item)

/-- `X::rest…` with `P X`: no qualified self, no leading `::`, no arguments on `X`, at least one more segment -/
def qsFires_cr (P : String → Bool) (q p : T) : Option String :=
  match firstSegIdent p with
  | some x => if plainHead q p && !(restSegments p).isEmpty && P x then some x else none
  | none => none

mutual
/-- the presentation change of the resolver: every type / expression path `X::rest…` with `P X` is printed
    `<X>::rest…` exactly as `qselfPath` / `rsTypePath` / `rsExprPath` print it (an expression path loses its attributes,
    param.rs:377 replaces the whole `ExprPath`); nothing else changes, ignored children and verbatim leaves are kept -/
def qsT_cr (P : String → Bool) : T → T
  | .tparam n => .tparam n
  | .eparam n => .eparam n
  | .node "Ign" as ks => .node "Ign" as ks
  | .node "Eq" as ks => .node "Eq" as ks
  | .node "Lifetime" as [.node "Ident" [x] []] => .node "Lifetime" as [.node "Ident" [x] []]
  | .node "Type::Path" as [qself, path] =>
      (match qsFires_cr P qself path with
       | some x => let (q, p) := qselfPath x (restSegments (qsT_cr P path)); .node "Type::Path" as [q, p]
       | none => .node "Type::Path" as [qsT_cr P qself, qsT_cr P path])
  | .node "Expr::Path" as [att, qself, path] =>
      (match qsFires_cr P qself path with
       | some x => let (q, p) := qselfPath x (restSegments (qsT_cr P path))
                   .node "Expr::Path" as [.node "Ign" [] [.node "List" [] []], q, p]
       | none => .node "Expr::Path" as [qsT_cr P att, qsT_cr P qself, qsT_cr P path])
  | .node k as ks => .node k as (qsL_cr P ks)
def qsL_cr (P : String → Bool) : List T → List T
  | [] => []
  | t :: ts => qsT_cr P t :: qsL_cr P ts
end

/-- `X::rest…` is printed `<X>::rest…` for every reserved identifier `X` -/
def qselfForm_cr : T → T := qsT_cr reserved_cr

/-- `X::rest…` is printed `<X>::rest…` for the identifiers `X` of the list -/
def qselfFormOf_cr (names : List String) : T → T := qsT_cr names.contains

/-- the canonical names of the type parameters (the resolver prints `<X>::rest…` for these only) -/
def Renaming.tyNames_cr (r : Renaming) : List String := r.ty.map Prod.snd

/-- what `renOK_cr` asks of a type path `q`/`p`: a path whose first segment is renamed is a plain `x` or `x::rest…` (no
    qualified self, no leading `::`, no arguments on `x` — the resolver drops all of that) and, if it has more segments,
    its new first segment satisfies `P`; a path whose first segment is not renamed is not of the form `X::rest…` with
    `P X` -/
def renHeadTy_cr (P : String → Bool) (r : Renaming) (q p : T) : Bool :=
  match firstSegIdent p with
  | some x =>
      (match rlookup r.ty x with
       | some m => plainHead q p && ((restSegments p).isEmpty || P m)
       | none => (qsFires_cr P q p).isNone)
  | none => true

/-- … and of an expression path: additionally, a path whose first segment is a (renamed) const parameter is the bare
    identifier (otherwise the resolver does not rewrite it at all while the textual renaming does) -/
def renHeadEx_cr (P : String → Bool) (r : Renaming) (q p : T) : Bool :=
  match firstSegIdent p with
  | some x =>
      (match rlookup r.ty x with
       | some m => plainHead q p && ((restSegments p).isEmpty || P m)
       | none => if (rlookup r.co x).isSome then lonePath_cr q p else (qsFires_cr P q p).isNone)
  | none => true

mutual
/-- **exactly what is needed** for "the resolver's output is the textual renaming, up to `<X>::rest…` for the `X` with
    `P X`": the two conditions above at every type / expression path of the tree (ignored children and verbatim leaves
    are not looked into) -/
def renOK_cr (P : String → Bool) (r : Renaming) : T → Bool
  | .tparam _ => true
  | .eparam _ => true
  | .node "Ign" _ _ => true
  | .node "Eq" _ _ => true
  | .node "Lifetime" _ [.node "Ident" [_] []] => true
  | .node "Type::Path" _ [q, p] => renOK_cr P r q && renOK_cr P r p && renHeadTy_cr P r q p
  | .node "Expr::Path" _ [att, q, p] => renOK_cr P r att && renOK_cr P r q && renOK_cr P r p && renHeadEx_cr P r q p
  | .node _ _ ks => renOKL_cr P r ks
def renOKL_cr (P : String → Bool) (r : Renaming) : List T → Bool
  | [] => true
  | t :: ts => renOK_cr P r t && renOKL_cr P r ts
end

/-- the new spellings of the type and const parameters are reserved identifiers -/
def Renaming.reservedTargets_cr (r : Renaming) : Bool := (r.ty ++ r.co).all (fun p => reserved_cr p.2)

/-- the side condition of `C13_canon_is_renaming_reserved`, on the block before canonicalisation: every path that starts
    with a renamed parameter is plain, a const parameter heads bare paths only, and no path `_ŠČk::rest…` starts with a
    reserved identifier that is not a renamed type parameter -/
def renamingShapeOK_cr (item : T) : Bool := renOK_cr reserved_cr (indexImpl item).renaming item

mutual
/-- decoder normal form of the lone parameter paths: a `tparam` / `eparam` leaf is a reserved identifier, a lone
    `Type::Path` / `Expr::Path` is not (the decoder makes it a leaf) -/
def decNF_cr : T → Bool
  | .tparam n => reserved_cr n
  | .eparam n => reserved_cr n
  | .node "Ign" _ _ => true
  | .node "Eq" _ _ => true
  | .node "Lifetime" _ [.node "Ident" [_] []] => true
  | .node "Type::Path" _ [q, p] =>
      decNF_cr q && decNF_cr p &&
      (match firstSegIdent p with
       | some x => !(lonePath_cr q p && reserved_cr x)
       | none => true)
  | .node "Expr::Path" _ [att, q, p] =>
      decNF_cr att && decNF_cr q && decNF_cr p &&
      (match firstSegIdent p with
       | some x => !(lonePath_cr q p && reserved_cr x)
       | none => true)
  | .node _ _ ks => decNFL_cr ks
def decNFL_cr : List T → Bool
  | [] => true
  | t :: ts => decNF_cr t && decNFL_cr ts
end

/-! ### "Every occurrence is rewritten" -/

/-- `n` is not an old spelling under the map `m`: `m` does not rename it, or it is (also) one of the new names -/
def notOld_cr (m : List (String × String)) (n : String) : Bool := (rlookup m n).isNone || (m.map Prod.snd).contains n

/-- … in expression position (type parameters first, then const parameters) -/
def notOldEx_cr (r : Renaming) (n : String) : Bool :=
  ((rlookup r.ty n).isNone && (rlookup r.co n).isNone) || ((r.ty ++ r.co).map Prod.snd).contains n

mutual
/-- no old spelling of a renamed parameter is left in parameter position: lifetimes, `tparam` / `eparam` leaves and
    the first segment of type and expression paths WITHOUT a qualified self (the first segment of `<X>::A::…` /
    `<X as Tr>::…` names an associated item or a trait, not a parameter) -/
def noOld_cr (r : Renaming) : T → Bool
  | .tparam n => notOld_cr r.ty n
  | .eparam n => notOldEx_cr r n
  | .node "Ign" _ _ => true
  | .node "Eq" _ _ => true
  | .node "Lifetime" _ [.node "Ident" [x] []] => notOld_cr r.lt x
  | .node "Type::Path" _ [q, p] =>
      noOld_cr r q && noOld_cr r p &&
      (q != noneNode || (match firstSegIdent p with | some x => notOld_cr r.ty x | none => true))
  | .node "Expr::Path" _ [att, q, p] =>
      noOld_cr r att && noOld_cr r q && noOld_cr r p &&
      (q != noneNode || (match firstSegIdent p with | some x => notOldEx_cr r x | none => true))
  | .node _ _ ks => noOldL_cr r ks
def noOldL_cr (r : Renaming) : List T → Bool
  | [] => true
  | t :: ts => noOld_cr r t && noOldL_cr r ts
end

end DI
