/-
  Idempotence of parameter canonicalisation (C13): indexing commutes with the renaming the indexer computes
  (`ixT_comm`, `ixRound_comm`, `indexImpl_comm`), the renaming read off a canonicalised item is the identity and
  the canonicalised item has no path that starts with a renamed name, so it is a fixed point (`canon_fixed`).
  Statement: `Props/C13.lean` (`C13_canon_idem`). Side condition: `CanonWF.lean`.
-/
import DisjointImpls.CanonWF
import DisjointImpls.Lemmas.CanonLemmas
namespace DI

/-! ### Renaming the names of an indexer state -/

def mapS (r : Renaming) (s : IxState) : IxState :=
  ⟨s.unLt.map (rn r.lt), s.unTy.map (rn r.ty), s.unCo.map (rn r.co),
   s.ixLt.map (fun p => (rn r.lt p.1, p.2)), s.ixTy.map (fun p => (rn r.ty p.1, p.2)),
   s.ixCo.map (fun p => (rn r.co p.1, p.2)), s.next⟩

/-- among the names of `l`, exactly `x` is written `w` -/
def KeyOK (g : String → String) (l : List String) (x w : String) : Prop := ∀ y ∈ l, g y = w ↔ y = x

theorem KeyOK.mono {g l l' x w} (h : KeyOK g l x w) (hs : ∀ y ∈ l', y ∈ l) : KeyOK g l' x w :=
  fun y hy => h y (hs y hy)

theorem contains_map_key {g : String → String} {l : List String} {x w : String} (h : KeyOK g l x w) :
    (l.map g).contains w = l.contains x := by
  rw [Bool.eq_iff_iff]
  simp only [List.contains_iff_mem, List.mem_map]
  constructor
  · rintro ⟨y, hy, e⟩
    rw [← (h y hy).1 e]; exact hy
  · intro hx
    exact ⟨x, hx, (h x hx).2 rfl⟩

theorem erase_map_key {g : String → String} : ∀ {l : List String} {x w : String}, KeyOK g l x w →
    (l.map g).erase w = (l.erase x).map g
  | [], _, _, _ => rfl
  | y :: l, x, w, h => by
      have ih := erase_map_key (g := g) (l := l) (x := x) (w := w) (fun z hz => h z (List.mem_cons_of_mem _ hz))
      have hy := h y (by simp)
      rw [List.map_cons, List.erase_cons, List.erase_cons]
      by_cases e : y = x
      · have e' : g y = w := hy.2 e
        subst e
        simp [e']
      · have e' : ¬ g y = w := fun e' => e (hy.1 e')
        simp [e, e', ih]

theorem ltIdent_comm (r : Renaming) (s : IxState) (x w : String) (h : KeyOK (rn r.lt) s.unLt x w) :
    ltIdent (mapS r s) w = mapS r (ltIdent s x) := by
  unfold ltIdent
  have hc : (mapS r s).unLt.contains w = s.unLt.contains x := contains_map_key h
  rw [hc]
  cases hx : s.unLt.contains x with
  | false => simp
  | true =>
    have hw : rn r.lt x = w := (h x (by simpa using hx)).2 rfl
    simp only [if_true]
    simp only [mapS, erase_map_key h, List.map_append, List.map_cons, List.map_nil, hw]

theorem tyIdent_comm (r : Renaming) (s : IxState) (x w : String) (h : KeyOK (rn r.ty) s.unTy x w) :
    tyIdent (mapS r s) w = (mapS r (tyIdent s x).1, (tyIdent s x).2) := by
  unfold tyIdent
  have hc : (mapS r s).unTy.contains w = s.unTy.contains x := contains_map_key h
  rw [hc]
  cases hx : s.unTy.contains x with
  | false => simp
  | true =>
    have hw : rn r.ty x = w := (h x (by simpa using hx)).2 rfl
    simp only [if_true]
    simp only [mapS, erase_map_key h, List.map_append, List.map_cons, List.map_nil, hw]

theorem coIdent_comm (r : Renaming) (s : IxState) (x w : String) (h : KeyOK (rn r.co) s.unCo x w) :
    coIdent (mapS r s) w = mapS r (coIdent s x) := by
  unfold coIdent
  have hc : (mapS r s).unCo.contains w = s.unCo.contains x := contains_map_key h
  rw [hc]
  cases hx : s.unCo.contains x with
  | false => simp
  | true =>
    have hw : rn r.co x = w := (h x (by simpa using hx)).2 rfl
    simp only [if_true]
    simp only [mapS, erase_map_key h, List.map_append, List.map_cons, List.map_nil, hw]

theorem tyIdent_miss_unCo (s : IxState) (x : String) : (tyIdent s x).1.unCo = s.unCo := by
  unfold tyIdent; split <;> rfl

theorem exIdent_comm (r : Renaming) (s : IxState) (x w : String) (h1 : KeyOK (rn r.ty) s.unTy x w)
    (h2 : KeyOK (rn r.co) s.unCo x w) : exIdent (mapS r s) w = mapS r (exIdent s x) := by
  unfold exIdent
  rw [tyIdent_comm r s x w h1]
  cases hh : (tyIdent s x).2 with
  | true => simp [hh]
  | false =>
    simp only [hh]
    exact coIdent_comm r _ x w (by rw [tyIdent_miss_unCo]; exact h2)

/-! ### Shapes -/

theorem nodeOther_of_ne {k : String} (ks : List T) (h1 : k ≠ "Ign") (h2 : k ≠ "Eq") (h3 : k ≠ "Lifetime")
    (h4 : k ≠ "Type::Path") (h5 : k ≠ "Expr::Path") : NodeOther k ks :=
  ⟨h1, h2, fun _ h => h3 h.1, fun _ _ h => h4 h.1, fun _ _ _ h => h5 h.1⟩

theorem ixT_tparam (s : IxState) (n : String) : ixT s (.tparam n) = (tyIdent s n).1 := by rw [ixT]
theorem ixT_eparam (s : IxState) (n : String) : ixT s (.eparam n) = exIdent s n := by rw [ixT]
theorem ixT_generics (s : IxState) (as : List String) (ks : List T) : ixT s (.node "Generics" as ks) = s := by rw [ixT]
theorem ixT_ign (s : IxState) (as : List String) (ks : List T) : ixT s (.node "Ign" as ks) = s := by rw [ixT]
theorem ixT_eq (s : IxState) (as : List String) (ks : List T) : ixT s (.node "Eq" as ks) = s := by rw [ixT]
theorem ixT_lifetime (s : IxState) (as : List String) (x : String) :
    ixT s (.node "Lifetime" as [.node "Ident" [x] []]) = ltIdent s x := by rw [ixT]
theorem ixT_typePath (s : IxState) (as : List String) (q p : T) :
    ixT s (.node "Type::Path" as [q, p]) =
      ixT (match firstSegIdent p with | some x => (tyIdent (ixT s q) x).1 | none => ixT s q) p := by
  rw [ixT]; cases firstSegIdent p <;> rfl
theorem ixT_exprPath (s : IxState) (as : List String) (a q p : T) :
    ixT s (.node "Expr::Path" as [a, q, p]) =
      ixT (match firstSegIdent p with | some x => exIdent (ixT s q) x | none => ixT s q) p := by
  rw [ixT]; cases firstSegIdent p <;> rfl

theorem ixT_of_other (s : IxState) {k : String} (as : List String) {ks : List T} (h : NodeOther k ks)
    (hg : k ≠ "Generics") : ixT s (.node k as ks) = ixL s ks := by
  obtain ⟨h1, h2, h3, h4, h5⟩ := h
  unfold ixT
  split
  · next heq => cases heq
  · next heq => cases heq
  · next heq => cases heq; exact absurd rfl hg
  · next heq => cases heq; exact absurd rfl h1
  · next heq => cases heq; exact absurd rfl h2
  · next x heq => cases heq; exact absurd ⟨rfl, rfl⟩ (h3 x)
  · next q p heq => cases heq; exact absurd ⟨rfl, rfl⟩ (h4 q p)
  · next a q p heq => cases heq; exact absurd ⟨rfl, rfl⟩ (h5 a q p)
  · next heq => cases heq; rfl

theorem ixL_nil (s : IxState) : ixL s [] = s := by rw [ixL]
theorem ixL_cons (s : IxState) (t : T) (ts : List T) : ixL s (t :: ts) = ixL (ixT s t) ts := by rw [ixL]
theorem rsL_nil (r : Renaming) : rsL r [] = [] := by rw [rsL]
theorem rsL_cons (r : Renaming) (t : T) (ts : List T) : rsL r (t :: ts) = rsT r t :: rsL r ts := by rw [rsL]

theorem rsL_length (r : Renaming) : ∀ ks : List T, (rsL r ks).length = ks.length
  | [] => by rw [rsL_nil]
  | t :: ts => by rw [rsL_cons, List.length_cons, List.length_cons, rsL_length r ts]

theorem rsTypePath_kind {r : Renaming} {as as' : List String} {q p : T} {k : String} {ks' : List T}
    (h : rsTypePath r as q p = .node k as' ks') : k = "Type::Path" := by
  revert h
  unfold rsTypePath
  repeat' split
  all_goals (intro h; first | (cases h; rfl) | cases h)

theorem rsExprPath_kind {r : Renaming} {as as' : List String} {a q p : T} {k : String} {ks' : List T}
    (h : rsExprPath r as a q p = .node k as' ks') : k = "Expr::Path" := by
  revert h
  unfold rsExprPath
  repeat' split
  all_goals (intro h; first | (cases h; rfl) | cases h)

/-- a node of an ordinary kind comes from a node of that kind, rebuilt around its rewritten children -/
theorem rsT_inv {r : Renaming} {t : T} {k : String} {as : List String} {ks' : List T}
    (h1 : k ≠ "Ign") (h2 : k ≠ "Eq") (h3 : k ≠ "Lifetime") (h4 : k ≠ "Type::Path") (h5 : k ≠ "Expr::Path")
    (h : rsT r t = .node k as ks') : ∃ ks, t = .node k as ks ∧ ks' = rsL r ks := by
  cases t with
  | tparam n => rw [rsT_tparam] at h; cases h
  | eparam n => rw [rsT_eparam] at h; cases h
  | node k0 as0 ks0 =>
    rcases node_shape k0 ks0 with hh | ⟨x, rfl, rfl⟩ | ⟨q, p, rfl, rfl⟩ | ⟨a, q, p, rfl, rfl⟩ | hh
    · rcases hh with rfl | rfl
      · rw [rsT_ign] at h; cases h; exact absurd rfl h1
      · rw [rsT_eq] at h; cases h; exact absurd rfl h2
    · rw [rsT_lifetime] at h; cases h; exact absurd rfl h3
    · rw [rsT_typePath] at h; exact absurd (rsTypePath_kind h) h4
    · rw [rsT_exprPath] at h; exact absurd (rsExprPath_kind h) h5
    · rw [rsT_of_other r as0 hh] at h
      cases h
      exact ⟨ks0, rfl, rfl⟩

theorem rsL_eq_nil {r : Renaming} {ks : List T} (h : rsL r ks = []) : ks = [] := by
  cases ks with
  | nil => rfl
  | cons t ts => rw [rsL_cons] at h; cases h

theorem rsL_eq_cons {r : Renaming} {ks : List T} {t' : T} {ts' : List T} (h : rsL r ks = t' :: ts') :
    ∃ t ts, ks = t :: ts ∧ rsT r t = t' ∧ rsL r ts = ts' := by
  cases ks with
  | nil => rw [rsL_nil] at h; cases h
  | cons t ts => rw [rsL_cons] at h; cases h; exact ⟨t, ts, rfl, rfl, rfl⟩

theorem rsT_leaf (r : Renaming) {k : String} (as : List String) (h1 : k ≠ "Ign") (h2 : k ≠ "Eq") (h3 : k ≠ "Lifetime")
    (h4 : k ≠ "Type::Path") (h5 : k ≠ "Expr::Path") : rsT r (.node k as []) = .node k as [] := by
  rw [rsT_other r as [] h1 h2 h3 h4 h5, rsL_nil]

theorem rsT_identLeaf (r : Renaming) (x : String) : rsT r (.node "Ident" [x] []) = .node "Ident" [x] [] :=
  rsT_leaf r _ (by decide) (by decide) (by decide) (by decide) (by decide)

theorem rsT_pathSegment (r : Renaming) (as : List String) (ks : List T) :
    rsT r (.node "PathSegment" as ks) = .node "PathSegment" as (rsL r ks) :=
  rsT_other r as ks (by decide) (by decide) (by decide) (by decide) (by decide)
theorem rsT_list (r : Renaming) (as : List String) (ks : List T) :
    rsT r (.node "List" as ks) = .node "List" as (rsL r ks) :=
  rsT_other r as ks (by decide) (by decide) (by decide) (by decide) (by decide)
theorem rsT_path (r : Renaming) (as : List String) (ks : List T) :
    rsT r (.node "Path" as ks) = .node "Path" as (rsL r ks) :=
  rsT_other r as ks (by decide) (by decide) (by decide) (by decide) (by decide)

theorem headIdent_some {segs : List T} {x : String} (h : headIdent segs = some x) :
    ∃ b rest, segs = .node "PathSegment" [] [.node "Ident" [x] [], b] :: rest := by
  unfold headIdent at h
  split at h
  · next y b rest => cases h; exact ⟨b, rest, rfl⟩
  · cases h

theorem headIdent_rsL (r : Renaming) (segs : List T) : headIdent (rsL r segs) = headIdent segs := by
  cases h : headIdent segs with
  | some x =>
    obtain ⟨b, rest, rfl⟩ := headIdent_some h
    rw [rsL_cons, rsT_pathSegment, rsL_cons, rsL_cons, rsL_nil, rsT_identLeaf]
    rfl
  | none =>
    cases h' : headIdent (rsL r segs) with
    | none => rfl
    | some x =>
      exfalso
      obtain ⟨b', rest', e⟩ := headIdent_some h'
      obtain ⟨t, ts, rfl, e1, _⟩ := rsL_eq_cons e
      obtain ⟨ks, rfl, e2⟩ := rsT_inv (by decide) (by decide) (by decide) (by decide) (by decide) e1
      obtain ⟨i, ks2, rfl, e3, e4⟩ := rsL_eq_cons e2.symm
      obtain ⟨b, ks3, rfl, _, e5⟩ := rsL_eq_cons e4
      cases rsL_eq_nil e5
      obtain ⟨ks4, rfl, e6⟩ := rsT_inv (by decide) (by decide) (by decide) (by decide) (by decide) e3
      cases rsL_eq_nil e6.symm
      simp [headIdent] at h

theorem firstSegIdent_eq (a : T) (segs : List T) :
    firstSegIdent (.node "Path" [] [a, .node "List" [] segs]) = headIdent segs := by
  cases h : headIdent segs with
  | some x => obtain ⟨b, rest, rfl⟩ := headIdent_some h; rfl
  | none =>
    unfold firstSegIdent
    split
    · next x b rest heq => cases heq; simp [headIdent] at h
    · rfl

theorem firstSegIdent_some {p : T} {x : String} (h : firstSegIdent p = some x) :
    ∃ a segs, p = .node "Path" [] [a, .node "List" [] segs] ∧ headIdent segs = some x := by
  unfold firstSegIdent at h
  split at h
  · next y b rest => cases h; exact ⟨_, _, rfl, rfl⟩
  · cases h

theorem firstSegIdent_rsT (r : Renaming) (p : T) : firstSegIdent (rsT r p) = firstSegIdent p := by
  cases h : firstSegIdent p with
  | some x =>
    obtain ⟨a, segs, rfl, hs⟩ := firstSegIdent_some h
    rw [rsT_path, rsL_cons, rsL_cons, rsL_nil, rsT_list, firstSegIdent_eq, headIdent_rsL, hs]
  | none =>
    cases h' : firstSegIdent (rsT r p) with
    | none => rfl
    | some x =>
      exfalso
      obtain ⟨a', segs', e, hs⟩ := firstSegIdent_some h'
      obtain ⟨ks, rfl, e2⟩ := rsT_inv (by decide) (by decide) (by decide) (by decide) (by decide) e
      obtain ⟨a, ks2, rfl, _, e4⟩ := rsL_eq_cons e2.symm
      obtain ⟨l, ks3, rfl, e5, e6⟩ := rsL_eq_cons e4
      cases rsL_eq_nil e6
      obtain ⟨segs, rfl, e7⟩ := rsT_inv (by decide) (by decide) (by decide) (by decide) (by decide) e5
      rw [firstSegIdent_eq, ← headIdent_rsL r, ← e7, hs] at h
      cases h

/-! ### The static facts about a renaming and the declared names -/

inductive PK | lt | ty | co
  deriving DecidableEq

/-- lifetimes live in a name space of their own; type and const parameters share one -/
def PK.ns : PK → Bool
  | .lt => true | .ty => false | .co => false

def CCtx.D (c : CCtx) : PK → List String
  | .lt => c.dLt | .ty => c.dTy | .co => c.dCo
def CCtx.m (c : CCtx) : PK → List (String × String)
  | .lt => c.r.lt | .ty => c.r.ty | .co => c.r.co
def CCtx.ρ (c : CCtx) (k : PK) (x : String) : String := rn (c.m k) x
def IxState.un (s : IxState) : PK → List String
  | .lt => s.unLt | .ty => s.unTy | .co => s.unCo

/-- only declared names are renamed; within a name space (lifetimes / types and consts) the new spelling is
    injective on the declared names and a name is declared in one kind only -/
structure Stat (c : CCtx) : Prop where
  dom : ∀ k x v, rlookup (c.m k) x = some v → x ∈ c.D k
  inj : ∀ k k', k.ns = k'.ns → ∀ y x, y ∈ c.D k → x ∈ c.D k' → c.ρ k y = c.ρ k' x → y = x
  disj : ∀ k k', k.ns = k'.ns → ∀ x, x ∈ c.D k → x ∈ c.D k' → k = k'

/-- the parameters still waiting are declared ones -/
def Un (c : CCtx) (s : IxState) : Prop := ∀ k, ∀ y ∈ s.un k, y ∈ c.D k

theorem un_rel : IxRel (fun s s' => ∀ k, ∀ y ∈ s'.un k, y ∈ s.un k) where
  refl _ _ _ h := h
  trans h1 h2 k y hy := h1 k y (h2 k y hy)
  lt s x := by
    unfold ltIdent
    split
    · intro k y hy
      cases k <;> simp only [IxState.un] at hy ⊢
      · exact List.mem_of_mem_erase hy
      · exact hy
      · exact hy
    · exact fun _ _ h => h
  ty s x := by
    unfold tyIdent
    split
    · intro k y hy
      cases k <;> simp only [IxState.un] at hy ⊢
      · exact hy
      · exact List.mem_of_mem_erase hy
      · exact hy
    · exact fun _ _ h => h
  co s x := by
    unfold coIdent
    split
    · intro k y hy
      cases k <;> simp only [IxState.un] at hy ⊢
      · exact hy
      · exact hy
      · exact List.mem_of_mem_erase hy
    · exact fun _ _ h => h

theorem Un.ixT {c : CCtx} {s : IxState} (h : Un c s) (t : T) : Un c (ixT s t) :=
  fun k y hy => h k y (ixT_rel un_rel t s k y hy)
theorem Un.ixL {c : CCtx} {s : IxState} (h : Un c s) (ts : List T) : Un c (ixL s ts) :=
  fun k y hy => h k y (ixL_rel un_rel ts (fun t _ => ixT_rel un_rel t) s k y hy)
theorem Un.ty {c : CCtx} {s : IxState} (h : Un c s) (x : String) : Un c (tyIdent s x).1 :=
  fun k y hy => h k y (un_rel.ty s x k y hy)
theorem Un.ex {c : CCtx} {s : IxState} (h : Un c s) (x : String) : Un c (exIdent s x) :=
  fun k y hy => h k y (un_rel.ex s x k y hy)

theorem Stat.rho_notin {c : CCtx} (st : Stat c) {k : PK} {n : String} (h : n ∉ c.D k) : c.ρ k n = n := by
  unfold CCtx.ρ rn
  cases hl : rlookup (c.m k) n with
  | none => rfl
  | some v => exact absurd (st.dom k n v hl) h

theorem keyOK_decl {c : CCtx} (st : Stat c) {k k0 : PK} (hns : k.ns = k0.ns) {l : List String} {n : String}
    (hl : ∀ y ∈ l, y ∈ c.D k) (hn : n ∈ c.D k0) : KeyOK (c.ρ k) l n (c.ρ k0 n) := by
  intro y hy
  constructor
  · exact st.inj k k0 hns y n (hl y hy) hn
  · intro e
    subst e
    have := st.disj k k0 hns y (hl y hy) hn
    subst this
    rfl

theorem keyOK_fresh {c : CCtx} {k : PK} {l : List String} {n : String}
    (hl : ∀ y ∈ l, y ∈ c.D k) (hn : n ∉ c.D k) (hf : n ∉ (c.D k).map (c.ρ k)) : KeyOK (c.ρ k) l n n := by
  intro y hy
  constructor
  · intro e
    exact absurd (List.mem_map.2 ⟨y, hl y hy, e⟩) hf
  · intro e
    subst e
    exact absurd (hl y hy) hn

theorem keyOK_lt {c : CCtx} (st : Stat c) {s : IxState} (hu : Un c s) {n : String} (h : okLt c n = true) :
    KeyOK (rn c.r.lt) s.unLt n (rn c.r.lt n) := by
  by_cases hn : n ∈ c.dLt
  · exact keyOK_decl st (k := .lt) (k0 := .lt) rfl (hu .lt) hn
  · have hf : n ∉ c.imgLt := by
      simp only [okLt, Bool.or_eq_true, List.contains_iff_mem, Bool.not_eq_true', ← Bool.not_eq_true] at h
      rcases h with h | h
      · exact absurd h hn
      · exact h
    have := keyOK_fresh (c := c) (k := .lt) (hu .lt) hn hf
    have e : rn c.r.lt n = n := st.rho_notin (k := .lt) hn
    rw [e]; exact this

theorem keyOK_ty {c : CCtx} (st : Stat c) {s : IxState} (hu : Un c s) {n : String} (h : okTy c n = true) :
    KeyOK (rn c.r.ty) s.unTy n (rn c.r.ty n) := by
  by_cases hn : n ∈ c.dTy
  · exact keyOK_decl st (k := .ty) (k0 := .ty) rfl (hu .ty) hn
  · have hf : n ∉ c.imgTy := by
      simp only [okTy, Bool.or_eq_true, List.contains_iff_mem, Bool.not_eq_true', ← Bool.not_eq_true] at h
      rcases h with h | h
      · exact absurd h hn
      · exact h
    have := keyOK_fresh (c := c) (k := .ty) (hu .ty) hn hf
    have e : rn c.r.ty n = n := st.rho_notin (k := .ty) hn
    rw [e]; exact this

/-- the spelling the resolver writes for a name in expression position -/
def exW (r : Renaming) (n : String) : String := ((rlookup r.ty n).or (rlookup r.co n)).getD n

theorem keyOK_ex {c : CCtx} (st : Stat c) {s : IxState} (hu : Un c s) {n : String} (h : okEx c n = true) :
    KeyOK (rn c.r.ty) s.unTy n (exW c.r n) ∧ KeyOK (rn c.r.co) s.unCo n (exW c.r n) := by
  by_cases hty : n ∈ c.dTy
  · have hco : n ∉ c.dCo := fun hco => by cases st.disj .ty .co rfl n hty hco
    have e : exW c.r n = c.ρ .ty n := by
      unfold exW CCtx.ρ rn
      cases h1 : rlookup c.r.ty n with
      | some v => simp [CCtx.m, h1]
      | none =>
        cases h2 : rlookup c.r.co n with
        | some v => exact absurd (st.dom .co n v h2) hco
        | none => simp [CCtx.m, h1]
    rw [e]
    exact ⟨keyOK_decl st (k := .ty) (k0 := .ty) rfl (hu .ty) hty, keyOK_decl st (k := .co) (k0 := .ty) rfl (hu .co) hty⟩
  · have h1 : rlookup c.r.ty n = none := by
      cases h1 : rlookup c.r.ty n with
      | none => rfl
      | some v => exact absurd (st.dom .ty n v h1) hty
    by_cases hco : n ∈ c.dCo
    · have e : exW c.r n = c.ρ .co n := by
        unfold exW CCtx.ρ rn
        simp [CCtx.m, h1]
      rw [e]
      exact ⟨keyOK_decl st (k := .ty) (k0 := .co) rfl (hu .ty) hco, keyOK_decl st (k := .co) (k0 := .co) rfl (hu .co) hco⟩
    · have h2 : rlookup c.r.co n = none := by
        cases h2 : rlookup c.r.co n with
        | none => rfl
        | some v => exact absurd (st.dom .co n v h2) hco
      have e : exW c.r n = n := by unfold exW; simp [h1, h2]
      rw [e]
      simp only [okEx, Bool.or_eq_true, Bool.and_eq_true, List.contains_iff_mem, Bool.not_eq_true', ← Bool.not_eq_true] at h
      rcases h with (h | h) | h
      · exact absurd h hty
      · exact absurd h hco
      · exact ⟨keyOK_fresh (c := c) (k := .ty) (hu .ty) hty h.1, keyOK_fresh (c := c) (k := .co) (hu .co) hco h.2⟩

/-! ### The condition `rsOK`, unfolded -/

theorem rsOKL_iff {c : CCtx} : ∀ {ks : List T}, rsOKL c ks = true ↔ ∀ t ∈ ks, rsOK c t = true
  | [] => by simp [rsOKL]
  | t :: ts => by simp [rsOKL, rsOKL_iff (ks := ts)]

theorem rsOK_of_other (c : CCtx) {k : String} (as : List String) {ks : List T} (h : NodeOther k ks) :
    rsOK c (.node k as ks) = rsOKL c ks := by
  obtain ⟨h1, h2, h3, h4, h5⟩ := h
  unfold rsOK
  split
  · next heq => cases heq
  · next heq => cases heq
  · next heq => cases heq; exact absurd rfl h1
  · next heq => cases heq; exact absurd rfl h2
  · next x heq => cases heq; exact absurd ⟨rfl, rfl⟩ (h3 x)
  · next q p heq => cases heq; exact absurd ⟨rfl, rfl⟩ (h4 q p)
  · next a q p heq => cases heq; exact absurd ⟨rfl, rfl⟩ (h5 a q p)
  · next heq => cases heq; rfl

theorem rsOK_typePath_inv {c : CCtx} {as : List String} {q p : T}
    (h : rsOK c (.node "Type::Path" as [q, p]) = true) :
    rsOK c q = true ∧ rsOK c p = true ∧ ∀ x, firstSegIdent p = some x → okTy c x = true ∧
      (∀ m, rlookup c.r.ty x = some m → plainHead q p = true ∧ secondFresh c.imgTy p = true) := by
  rw [rsOK] at h
  simp only [Bool.and_eq_true] at h
  obtain ⟨⟨hq, hp⟩, hm⟩ := h
  refine ⟨hq, hp, ?_⟩
  intro x hx
  rw [hx] at hm
  simp only [Bool.and_eq_true, Bool.or_eq_true] at hm
  refine ⟨hm.1, fun m hm' => ?_⟩
  rcases hm.2 with h' | h'
  · rw [hm'] at h'; cases h'
  · exact h'

theorem rsOK_exprPath_inv {c : CCtx} {as : List String} {a q p : T}
    (h : rsOK c (.node "Expr::Path" as [a, q, p]) = true) :
    rsOK c a = true ∧ rsOK c q = true ∧ rsOK c p = true ∧ ∀ x, firstSegIdent p = some x → okEx c x = true ∧
      (∀ m, rlookup c.r.ty x = some m → plainHead q p = true ∧ secondFresh (c.imgTy ++ c.imgCo) p = true) ∧
      (rlookup c.r.ty x = none → ∀ m, rlookup c.r.co x = some m →
        plainHead q p = true ∧ (restSegments p).isEmpty = true) := by
  rw [rsOK] at h
  simp only [Bool.and_eq_true] at h
  obtain ⟨⟨⟨ha, hq⟩, hp⟩, hm⟩ := h
  refine ⟨ha, hq, hp, ?_⟩
  intro x hx
  rw [hx] at hm
  simp only [Bool.and_eq_true] at hm
  refine ⟨hm.1, fun m hm' => ?_, fun hn m hm' => ?_⟩
  · have := hm.2
    rw [hm'] at this
    simpa using this
  · have := hm.2
    rw [hn, hm'] at this
    simpa using this

/-! ### Plain paths -/

def nohead : T := .node "IgnL" [] [noneNode]
def argsNone : T := .node "PathArguments::None" [] []
def plainSeg (x : String) : T := .node "PathSegment" [] [.node "Ident" [x] [], argsNone]
def plainPath (x : String) (rest : List T) : T := .node "Path" [] [nohead, .node "List" [] (plainSeg x :: rest)]

theorem plainHead_inv {q p : T} (h : plainHead q p = true) : q = noneNode ∧ ∃ x rest, p = plainPath x rest := by
  unfold plainHead at h
  simp only [Bool.and_eq_true, beq_iff_eq] at h
  obtain ⟨hq, hp⟩ := h
  refine ⟨hq, ?_⟩
  split at hp
  · next lc x args rest =>
    simp only [Bool.and_eq_true, beq_iff_eq] at hp
    obtain ⟨h1, h2⟩ := hp
    subst h1 h2
    exact ⟨x, rest, rfl⟩
  · cases hp

theorem ixT_leaf (s : IxState) {k : String} (as : List String) (h1 : k ≠ "Ign") (h2 : k ≠ "Eq") (h3 : k ≠ "Lifetime")
    (h4 : k ≠ "Type::Path") (h5 : k ≠ "Expr::Path") (h6 : k ≠ "Generics") : ixT s (.node k as []) = s := by
  rw [ixT_of_other s as (nodeOther_of_ne [] h1 h2 h3 h4 h5) h6, ixL_nil]

theorem ixT_node (s : IxState) {k : String} (as : List String) (ks : List T) (h1 : k ≠ "Ign") (h2 : k ≠ "Eq")
    (h3 : k ≠ "Lifetime") (h4 : k ≠ "Type::Path") (h5 : k ≠ "Expr::Path") (h6 : k ≠ "Generics") :
    ixT s (.node k as ks) = ixL s ks :=
  ixT_of_other s as (nodeOther_of_ne ks h1 h2 h3 h4 h5) h6

theorem ixT_noneNode (s : IxState) : ixT s noneNode = s :=
  ixT_leaf s [] (by decide) (by decide) (by decide) (by decide) (by decide) (by decide)
theorem rsT_noneNode (r : Renaming) : rsT r noneNode = noneNode :=
  rsT_leaf r [] (by decide) (by decide) (by decide) (by decide) (by decide)
theorem ixT_nohead (s : IxState) : ixT s nohead = s := by
  unfold nohead
  rw [ixT_node s [] _ (by decide) (by decide) (by decide) (by decide) (by decide) (by decide), ixL_cons, ixL_nil, ixT_noneNode]
theorem rsT_nohead (r : Renaming) : rsT r nohead = nohead := by
  unfold nohead
  rw [rsT_other r [] _ (by decide) (by decide) (by decide) (by decide) (by decide), rsL_cons, rsL_nil, rsT_noneNode]
theorem ixT_someColon (s : IxState) : ixT s someColon = s := by
  unfold someColon
  rw [ixT_node s [] _ (by decide) (by decide) (by decide) (by decide) (by decide) (by decide), ixL_cons, ixL_nil,
    ixT_leaf _ _ (by decide) (by decide) (by decide) (by decide) (by decide) (by decide)]
theorem ixT_argsNone (s : IxState) : ixT s argsNone = s :=
  ixT_leaf s [] (by decide) (by decide) (by decide) (by decide) (by decide) (by decide)
theorem rsT_argsNone (r : Renaming) : rsT r argsNone = argsNone :=
  rsT_leaf r [] (by decide) (by decide) (by decide) (by decide) (by decide)
theorem ixT_identLeaf (s : IxState) (x : String) : ixT s (.node "Ident" [x] []) = s :=
  ixT_leaf s _ (by decide) (by decide) (by decide) (by decide) (by decide) (by decide)
theorem ixT_plainSeg (s : IxState) (x : String) : ixT s (plainSeg x) = s := by
  unfold plainSeg
  rw [ixT_node s [] _ (by decide) (by decide) (by decide) (by decide) (by decide) (by decide), ixL_cons, ixL_cons, ixL_nil,
    ixT_identLeaf, ixT_argsNone]
theorem rsT_plainSeg (r : Renaming) (x : String) : rsT r (plainSeg x) = plainSeg x := by
  unfold plainSeg
  rw [rsT_pathSegment, rsL_cons, rsL_cons, rsL_nil, rsT_identLeaf, rsT_argsNone]

theorem ixT_pathNode (s : IxState) (a : T) (segs : List T) :
    ixT s (.node "Path" [] [a, .node "List" [] segs]) = ixL (ixT s a) segs := by
  rw [ixT_node s [] _ (by decide) (by decide) (by decide) (by decide) (by decide) (by decide), ixL_cons, ixL_cons, ixL_nil,
    ixT_node _ [] _ (by decide) (by decide) (by decide) (by decide) (by decide) (by decide)]

theorem ixT_plainPath (s : IxState) (x : String) (rest : List T) : ixT s (plainPath x rest) = ixL s rest := by
  unfold plainPath
  rw [ixT_pathNode, ixT_nohead, ixL_cons, ixT_plainSeg]
theorem rsT_plainPath (r : Renaming) (x : String) (rest : List T) :
    rsT r (plainPath x rest) = plainPath x (rsL r rest) := by
  unfold plainPath
  rw [rsT_path, rsL_cons, rsL_cons, rsL_nil, rsT_nohead, rsT_list, rsL_cons, rsT_plainSeg]
theorem firstSegIdent_plainPath (x : String) (rest : List T) : firstSegIdent (plainPath x rest) = some x := rfl
theorem restSegments_plainPath (x : String) (rest : List T) : restSegments (plainPath x rest) = rest := rfl

theorem ixT_qself (s : IxState) (m : String) :
    ixT s (.node "Some" [] [.node "QSelf" [] [.tparam m, .node "Atom" ["0"] [], noneNode]]) = (tyIdent s m).1 := by
  rw [ixT_node s [] _ (by decide) (by decide) (by decide) (by decide) (by decide) (by decide), ixL_cons, ixL_nil,
    ixT_node s [] _ (by decide) (by decide) (by decide) (by decide) (by decide) (by decide), ixL_cons, ixL_cons, ixL_cons, ixL_nil,
    ixT_tparam, ixT_leaf _ _ (by decide) (by decide) (by decide) (by decide) (by decide) (by decide), ixT_noneNode]

theorem tyIdent_miss {s : IxState} {x : String} (h : x ∉ s.unTy) : tyIdent s x = (s, false) := by
  unfold tyIdent
  rw [if_neg (by simpa using h)]
theorem coIdent_miss {s : IxState} {x : String} (h : x ∉ s.unCo) : coIdent s x = s := by
  unfold coIdent
  rw [if_neg (by simpa using h)]
theorem exIdent_miss {s : IxState} {x : String} (h1 : x ∉ s.unTy) (h2 : x ∉ s.unCo) : exIdent s x = s := by
  unfold exIdent
  rw [tyIdent_miss h1]
  exact coIdent_miss h2

theorem mapS_unTy_img {c : CCtx} {s : IxState} (hu : Un c s) {y : String} (hy : y ∈ (mapS c.r s).unTy) : y ∈ c.imgTy := by
  simp only [mapS, List.mem_map] at hy
  obtain ⟨z, hz, rfl⟩ := hy
  exact List.mem_map.2 ⟨z, hu .ty z hz, rfl⟩
theorem mapS_unCo_img {c : CCtx} {s : IxState} (hu : Un c s) {y : String} (hy : y ∈ (mapS c.r s).unCo) : y ∈ c.imgCo := by
  simp only [mapS, List.mem_map] at hy
  obtain ⟨z, hz, rfl⟩ := hy
  exact List.mem_map.2 ⟨z, hu .co z hz, rfl⟩

/-! ### Indexing commutes with the resolver -/
theorem rsExprPath_bare {r : Renaming} {as : List String} {a : T} {x m : String}
    (h1 : rlookup r.ty x = none) (h2 : rlookup r.co x = some m) :
    rsExprPath r as a noneNode (plainPath x []) = .eparam m := by
  unfold rsExprPath
  rw [firstSegIdent_plainPath]
  simp only [h1, h2]
  simp [plainPath, plainSeg, argsNone, nohead]

theorem rsExprPath_ty {r : Renaming} {as : List String} {a q : T} {x m : String} {rest : List T}
    (h1 : rlookup r.ty x = some m)  :
    rsExprPath r as a q (plainPath x rest) =
      if rest.isEmpty then .eparam m else
        .node "Expr::Path" as [.node "Ign" [] [.node "List" [] []],
          .node "Some" [] [.node "QSelf" [] [.tparam m, .node "Atom" ["0"] [], noneNode]],
          .node "Path" [] [someColon, .node "List" [] rest]] := by
  unfold rsExprPath
  rw [firstSegIdent_plainPath]
  simp only [h1, restSegments_plainPath, qselfPath]
  cases rest <;> rfl

theorem nodeOther_rsL (r : Renaming) {k : String} {ks : List T} (h : NodeOther k ks) : NodeOther k (rsL r ks) := by
  obtain ⟨h1, h2, h3, h4, h5⟩ := h
  refine ⟨h1, h2, ?_, ?_, ?_⟩
  · rintro x ⟨rfl, e⟩
    obtain ⟨t, ts, rfl, e1, e2⟩ := rsL_eq_cons e
    cases rsL_eq_nil e2
    obtain ⟨ks', rfl, e3⟩ := rsT_inv (by decide) (by decide) (by decide) (by decide) (by decide) e1
    cases rsL_eq_nil e3.symm
    exact h3 x ⟨rfl, rfl⟩
  · rintro q p ⟨rfl, e⟩
    obtain ⟨t, ts, rfl, _, e2⟩ := rsL_eq_cons e
    obtain ⟨t2, ts2, rfl, _, e3⟩ := rsL_eq_cons e2
    cases rsL_eq_nil e3
    exact h4 _ _ ⟨rfl, rfl⟩
  · rintro a q p ⟨rfl, e⟩
    obtain ⟨t, ts, rfl, _, e2⟩ := rsL_eq_cons e
    obtain ⟨t2, ts2, rfl, _, e3⟩ := rsL_eq_cons e2
    obtain ⟨t3, ts3, rfl, _, e4⟩ := rsL_eq_cons e3
    cases rsL_eq_nil e4
    exact h5 _ _ _ ⟨rfl, rfl⟩

theorem ixL_comm_of {c : CCtx} : ∀ (ks : List T),
    (∀ t ∈ ks, rsOK c t = true → ∀ s, Un c s → ixT (mapS c.r s) (rsT c.r t) = mapS c.r (ixT s t)) →
    rsOKL c ks = true → ∀ s, Un c s → ixL (mapS c.r s) (rsL c.r ks) = mapS c.r (ixL s ks)
  | [], _, _, s, _ => by rw [rsL_nil, ixL_nil, ixL_nil]
  | t :: ts, ih, hok, s, hu => by
      rw [rsL_cons, ixL_cons, ixL_cons]
      have hok' := rsOKL_iff.1 hok
      rw [ih t (by simp) (hok' t (by simp)) s hu]
      exact ixL_comm_of ts (fun t' ht' => ih t' (List.mem_cons_of_mem _ ht'))
        (rsOKL_iff.2 (fun t' ht' => hok' t' (List.mem_cons_of_mem _ ht'))) _ (hu.ixT t)

theorem ixT_comm (c : CCtx) (st : Stat c) : ∀ t : T, rsOK c t = true → ∀ s, Un c s →
    ixT (mapS c.r s) (rsT c.r t) = mapS c.r (ixT s t) := by
  apply T.ind
  · intro n hok s hu
    rw [rsOK] at hok
    rw [rsT_tparam, ixT_tparam, ixT_tparam]
    have := tyIdent_comm c.r s n (rn c.r.ty n) (keyOK_ty st hu hok)
    show (tyIdent (mapS c.r s) (rn c.r.ty n)).1 = _
    rw [this]
  · intro n hok s hu
    rw [rsOK] at hok
    rw [rsT_eparam, ixT_eparam, ixT_eparam]
    obtain ⟨h1, h2⟩ := keyOK_ex st hu hok
    exact exIdent_comm c.r s n (exW c.r n) h1 h2
  · intro k as ks ih hok s hu
    rcases node_shape k ks with h | ⟨x, rfl, rfl⟩ | ⟨q, p, rfl, rfl⟩ | ⟨a, q, p, rfl, rfl⟩ | h
    · rcases h with rfl | rfl
      · rw [rsT_ign, ixT_ign, ixT_ign]
      · rw [rsT_eq, ixT_eq, ixT_eq]
    · rw [rsOK] at hok
      rw [rsT_lifetime, ixT_lifetime, ixT_lifetime]
      exact ltIdent_comm c.r s x _ (keyOK_lt st hu hok)
    · -- Type::Path
      obtain ⟨hq, hp, hx⟩ := rsOK_typePath_inv hok
      have ihq := ih q (by simp) hq
      have ihp := ih p (by simp) hp
      rw [rsT_typePath, ixT_typePath]
      cases hf : firstSegIdent p with
      | none =>
        have hf' : firstSegIdent (rsT c.r p) = none := by rw [firstSegIdent_rsT, hf]
        unfold rsTypePath; rw [hf']; simp only
        rw [ixT_typePath, hf']; simp only
        rw [ihq s hu, ihp _ (hu.ixT q)]
      | some x =>
        have hf' : firstSegIdent (rsT c.r p) = some x := by rw [firstSegIdent_rsT, hf]
        obtain ⟨hokx, hren⟩ := hx x hf
        simp only
        cases hl : rlookup c.r.ty x with
        | none =>
          unfold rsTypePath; rw [hf']; simp only [hl]
          rw [ixT_typePath, hf']; simp only
          rw [ihq s hu]
          have hk := tyIdent_comm c.r (ixT s q) x (rn c.r.ty x) (keyOK_ty st (hu.ixT q) hokx)
          have e : rn c.r.ty x = x := by unfold rn; rw [hl]; rfl
          rw [e] at hk
          rw [hk]; simp only
          exact ihp _ ((hu.ixT q).ty x)
        | some m =>
          obtain ⟨hplain, hsec⟩ := hren m hl
          obtain ⟨rfl, x', rest, rfl⟩ := plainHead_inv hplain
          cases (by simpa [firstSegIdent_plainPath] using hf : x' = x)
          have ihp' : ∀ s', Un c s' → ixL (mapS c.r s') (rsL c.r rest) = mapS c.r (ixL s' rest) := by
            intro s' hu'
            have := ihp s' hu'
            rwa [rsT_plainPath, ixT_plainPath, ixT_plainPath] at this
          have hk := tyIdent_comm c.r s x (rn c.r.ty x) (keyOK_ty st hu hokx)
          have e : rn c.r.ty x = m := by unfold rn; rw [hl]; rfl
          rw [e] at hk
          rw [rsT_noneNode, rsT_plainPath, ixT_noneNode, ixT_plainPath]
          unfold rsTypePath
          rw [firstSegIdent_plainPath]
          simp only [hl, restSegments_plainPath]
          cases rest with
          | nil =>
            rw [rsL_nil]
            simp only [List.isEmpty_nil, if_true]
            rw [ixT_tparam, hk, ixL_nil]
          | cons seg2 rest2 =>
            rw [rsL_cons]
            simp only [List.isEmpty_cons, qselfPath, Bool.false_eq_true, if_false]
            rw [ixT_typePath, ixT_qself, hk, firstSegIdent_eq, ixT_pathNode, ixT_someColon, ← rsL_cons, headIdent_rsL]
            have hS2 : (match headIdent (seg2 :: rest2) with
                | some y => (tyIdent (mapS c.r (tyIdent s x).1) y).1
                | none => mapS c.r (tyIdent s x).1) = mapS c.r (tyIdent s x).1 := by
              unfold secondFresh at hsec
              rw [restSegments_plainPath] at hsec
              cases hh : headIdent (seg2 :: rest2) with
              | none => rfl
              | some y =>
                rw [hh] at hsec
                simp only [Bool.not_eq_true', ← Bool.not_eq_true, List.contains_iff_mem] at hsec
                simp only
                rw [tyIdent_miss (fun hy => hsec (mapS_unTy_img (hu.ty x) hy))]
            refine Eq.trans ?_ (ihp' _ (hu.ty x))
            congr 1
    · -- Expr::Path
      obtain ⟨ha, hq, hp, hx⟩ := rsOK_exprPath_inv hok
      have ihq := ih q (by simp) hq
      have ihp := ih p (by simp) hp
      rw [rsT_exprPath, ixT_exprPath]
      cases hf : firstSegIdent p with
      | none =>
        have hf' : firstSegIdent (rsT c.r p) = none := by rw [firstSegIdent_rsT, hf]
        unfold rsExprPath; rw [hf']; simp only
        rw [ixT_exprPath, hf']; simp only
        rw [ihq s hu, ihp _ (hu.ixT q)]
      | some x =>
        have hf' : firstSegIdent (rsT c.r p) = some x := by rw [firstSegIdent_rsT, hf]
        obtain ⟨hokx, hrenT, hrenC⟩ := hx x hf
        simp only
        cases hl : rlookup c.r.ty x with
        | none =>
          cases hl2 : rlookup c.r.co x with
          | none =>
            unfold rsExprPath; rw [hf']; simp only [hl, hl2]
            rw [ixT_exprPath, hf']; simp only
            rw [ihq s hu]
            obtain ⟨k1, k2⟩ := keyOK_ex st (hu.ixT q) hokx
            have e : exW c.r x = x := by unfold exW; rw [hl, hl2]; rfl
            rw [e] at k1 k2
            rw [exIdent_comm c.r (ixT s q) x x k1 k2]
            exact ihp _ ((hu.ixT q).ex x)
          | some m =>
            obtain ⟨hplain, hemp⟩ := hrenC hl m hl2
            obtain ⟨rfl, x', rest, rfl⟩ := plainHead_inv hplain
            cases (by simpa [firstSegIdent_plainPath] using hf : x' = x)
            rw [restSegments_plainPath] at hemp
            cases rest with
            | cons _ _ => cases hemp
            | nil =>
              obtain ⟨k1, k2⟩ := keyOK_ex st hu hokx
              have e : exW c.r x = m := by unfold exW; rw [hl, hl2]; rfl
              rw [e] at k1 k2
              rw [rsT_noneNode, rsT_plainPath, rsL_nil, rsExprPath_bare hl hl2, ixT_eparam,
                exIdent_comm c.r s x m k1 k2, ixT_noneNode, ixT_plainPath, ixL_nil]
        | some m =>
          obtain ⟨hplain, hsec⟩ := hrenT m hl
          obtain ⟨rfl, x', rest, rfl⟩ := plainHead_inv hplain
          cases (by simpa [firstSegIdent_plainPath] using hf : x' = x)
          have ihp' : ∀ s', Un c s' → ixL (mapS c.r s') (rsL c.r rest) = mapS c.r (ixL s' rest) := by
            intro s' hu'
            have := ihp s' hu'
            rwa [rsT_plainPath, ixT_plainPath, ixT_plainPath] at this
          obtain ⟨k1, k2⟩ := keyOK_ex st hu hokx
          have e : exW c.r x = m := by unfold exW; rw [hl]; rfl
          rw [e] at k1 k2
          have hk := exIdent_comm c.r s x m k1 k2
          have hkt := tyIdent_comm c.r s x m k1
          rw [rsT_noneNode, rsT_plainPath, ixT_noneNode, ixT_plainPath, rsExprPath_ty hl]
          cases rest with
          | nil =>
            rw [rsL_nil]
            simp only [List.isEmpty_nil, if_true]
            rw [ixT_eparam, hk, ixL_nil]
          | cons seg2 rest2 =>
            rw [rsL_cons]
            simp only [List.isEmpty_cons, Bool.false_eq_true, if_false]
            rw [ixT_exprPath, ixT_qself, hkt, firstSegIdent_eq, ixT_pathNode, ixT_someColon, ← rsL_cons, headIdent_rsL]
            have hxco : x ∉ s.unCo := fun hx' => by
              cases st.disj .ty .co rfl x (st.dom .ty x m hl) (hu .co x hx')
            have hex : exIdent s x = (tyIdent s x).1 := by
              unfold exIdent
              cases hh : (tyIdent s x).2 with
              | true => simp [hh]
              | false =>
                simp only [hh]
                exact coIdent_miss (by rw [tyIdent_miss_unCo]; exact hxco)
            have hS2 : (match headIdent (seg2 :: rest2) with
                | some y => exIdent (mapS c.r (tyIdent s x).1) y
                | none => mapS c.r (tyIdent s x).1) = mapS c.r (tyIdent s x).1 := by
              unfold secondFresh at hsec
              rw [restSegments_plainPath] at hsec
              cases hh : headIdent (seg2 :: rest2) with
              | none => rfl
              | some y =>
                rw [hh] at hsec
                simp only [Bool.not_eq_true', ← Bool.not_eq_true, List.contains_iff_mem, List.mem_append, not_or] at hsec
                simp only
                rw [exIdent_miss (fun hy => hsec.1 (mapS_unTy_img (hu.ty x) hy)) (fun hy => hsec.2 (mapS_unCo_img (hu.ty x) hy))]
            rw [hex]
            refine Eq.trans ?_ (ihp' _ (hu.ty x))
            congr 1
    · -- every other kind
      by_cases hg : k = "Generics"
      · subst hg
        rw [rsT_of_other c.r as h, ixT_generics, ixT_generics]
      · rw [rsOK_of_other c as h] at hok
        rw [rsT_of_other c.r as h, ixT_of_other _ as (nodeOther_rsL c.r h) hg, ixT_of_other _ as h hg]
        exact ixL_comm_of ks ih hok s hu

/-! ### The declarations -/

/-- what canonicalisation does to a declared parameter -/
def declF (r : Renaming) (p : T) : T := rsT r (renameDecl r p)

def kindStr : PK → String
  | .lt => "GenericParam::Lifetime" | .ty => "GenericParam::Type" | .co => "GenericParam::Const"

def kindSel (kind : String) (p : T) : Option String :=
  match p with
  | .node k [] _ => if k == kind then paramIdent p else none
  | _ => none

/-- the guard of `paramNode`: not a lifetime parameter -/
def ltGuard (p : T) : Bool :=
  match p with
  | .node "GenericParam::Lifetime" _ _ => false
  | _ => true

theorem paramNode_eq (g : T) (x : String) :
    paramNode g x = (genericsParams g).find? (fun p => ltGuard p && paramIdent p == some x) := rfl

theorem kindNames_eq (g : T) (kind : String) : kindNames g kind = (genericsParams g).filterMap (kindSel kind) := rfl

/-- everything the proof needs to know about a declared parameter of kind `k` named `y` -/
structure PShape (c : CCtx) (p : T) (k : PK) (y : String) : Prop where
  ident : paramIdent p = some y
  identF : paramIdent (declF c.r p) = some (c.ρ k y)
  sel : ∀ k', kindSel (kindStr k') p = if k' = k then some y else none
  selF : ∀ k', kindSel (kindStr k') (declF c.r p) = if k' = k then some (c.ρ k y) else none
  guard : ltGuard p = !k.ns
  guardF : ltGuard (declF c.r p) = !k.ns
  kids : ∃ K K2 kids kids', p = .node K [] [.node K2 [] kids] ∧ declF c.r p = .node K [] [.node K2 [] kids'] ∧
      (∀ s, ixL s kids' = ixL s (rsL c.r kids)) ∧ (rsOK c p = true → rsOKL c kids = true)

theorem rsT_gpType (r : Renaming) (ks : List T) :
    rsT r (.node "GenericParam::Type" [] [.node "TypeParam" [] ks]) = .node "GenericParam::Type" [] [.node "TypeParam" [] (rsL r ks)] := by
  rw [rsT_other r _ _ (by decide) (by decide) (by decide) (by decide) (by decide), rsL_cons, rsL_nil,
    rsT_other r _ _ (by decide) (by decide) (by decide) (by decide) (by decide)]
theorem rsT_gpConst (r : Renaming) (ks : List T) :
    rsT r (.node "GenericParam::Const" [] [.node "ConstParam" [] ks]) = .node "GenericParam::Const" [] [.node "ConstParam" [] (rsL r ks)] := by
  rw [rsT_other r _ _ (by decide) (by decide) (by decide) (by decide) (by decide), rsL_cons, rsL_nil,
    rsT_other r _ _ (by decide) (by decide) (by decide) (by decide) (by decide)]
theorem rsT_gpLt (r : Renaming) (ks : List T) :
    rsT r (.node "GenericParam::Lifetime" [] [.node "LifetimeParam" [] ks]) = .node "GenericParam::Lifetime" [] [.node "LifetimeParam" [] (rsL r ks)] := by
  rw [rsT_other r _ _ (by decide) (by decide) (by decide) (by decide) (by decide), rsL_cons, rsL_nil,
    rsT_other r _ _ (by decide) (by decide) (by decide) (by decide) (by decide)]

theorem rsOK_two (c : CCtx) {K K2 : String} (kids : List T)
    (h1 : K ≠ "Ign") (h2 : K ≠ "Eq") (h3 : K ≠ "Lifetime") (h4 : K ≠ "Type::Path") (h5 : K ≠ "Expr::Path")
    (g1 : K2 ≠ "Ign") (g2 : K2 ≠ "Eq") (g3 : K2 ≠ "Lifetime") (g4 : K2 ≠ "Type::Path") (g5 : K2 ≠ "Expr::Path")
    (h : rsOK c (.node K [] [.node K2 [] kids]) = true) : rsOKL c kids = true := by
  rw [rsOK_of_other c [] (nodeOther_of_ne _ h1 h2 h3 h4 h5)] at h
  have := rsOKL_iff.1 h _ (List.mem_singleton.2 rfl)
  rwa [rsOK_of_other c [] (nodeOther_of_ne _ g1 g2 g3 g4 g5)] at this

theorem param_cases (c : CCtx) (p : T) (h : (paramIdent p).isSome = true) : ∃ k y, PShape c p k y := by
  unfold paramIdent at h
  split at h
  · next a x rest =>
    have eF : declF c.r (.node "GenericParam::Type" [] [.node "TypeParam" [] (a :: .node "Ident" [x] [] :: rest)]) =
        .node "GenericParam::Type" [] [.node "TypeParam" [] (rsT c.r a :: .node "Ident" [rn c.r.ty x] [] :: rsL c.r rest)] := by
      unfold declF renameDecl
      simp only
      rw [rsT_gpType, rsL_cons, rsL_cons, rsT_identLeaf]
      rfl
    refine ⟨.ty, x, ⟨rfl, by rw [eF]; rfl, ?_, ?_, rfl, by rw [eF]; rfl, ?_⟩⟩
    · intro k'; cases k' <;> simp [kindSel, kindStr, paramIdent]
    · intro k'; rw [eF]; cases k' <;> simp [kindSel, kindStr, paramIdent, CCtx.ρ, CCtx.m]
    · refine ⟨_, _, _, _, rfl, eF, ?_, rsOK_two c _ (by decide) (by decide) (by decide) (by decide) (by decide)
        (by decide) (by decide) (by decide) (by decide) (by decide)⟩
      intro s
      rw [ixL_cons, ixL_cons, rsL_cons, rsL_cons, ixL_cons, ixL_cons, ixT_identLeaf, rsT_identLeaf, ixT_identLeaf]
  · next a x rest =>
    have eF : declF c.r (.node "GenericParam::Const" [] [.node "ConstParam" [] (a :: .node "Ident" [x] [] :: rest)]) =
        .node "GenericParam::Const" [] [.node "ConstParam" [] (rsT c.r a :: .node "Ident" [rn c.r.co x] [] :: rsL c.r rest)] := by
      unfold declF renameDecl
      simp only
      rw [rsT_gpConst, rsL_cons, rsL_cons, rsT_identLeaf]
      rfl
    refine ⟨.co, x, ⟨rfl, by rw [eF]; rfl, ?_, ?_, rfl, by rw [eF]; rfl, ?_⟩⟩
    · intro k'; cases k' <;> simp [kindSel, kindStr, paramIdent]
    · intro k'; rw [eF]; cases k' <;> simp [kindSel, kindStr, paramIdent, CCtx.ρ, CCtx.m]
    · refine ⟨_, _, _, _, rfl, eF, ?_, rsOK_two c _ (by decide) (by decide) (by decide) (by decide) (by decide)
        (by decide) (by decide) (by decide) (by decide) (by decide)⟩
      intro s
      rw [ixL_cons, ixL_cons, rsL_cons, rsL_cons, ixL_cons, ixL_cons, ixT_identLeaf, rsT_identLeaf, ixT_identLeaf]
  · next a x rest =>
    have eF : declF c.r (.node "GenericParam::Lifetime" [] [.node "LifetimeParam" [] (a :: .node "Lifetime" [] [.node "Ident" [x] []] :: rest)]) =
        .node "GenericParam::Lifetime" [] [.node "LifetimeParam" [] (rsT c.r a :: .node "Lifetime" [] [.node "Ident" [rn c.r.lt x] []] :: rsL c.r rest)] := by
      have e0 : renameDecl c.r (.node "GenericParam::Lifetime" [] [.node "LifetimeParam" [] (a :: .node "Lifetime" [] [.node "Ident" [x] []] :: rest)]) =
          .node "GenericParam::Lifetime" [] [.node "LifetimeParam" [] (a :: .node "Lifetime" [] [.node "Ident" [x] []] :: rest)] := by
        unfold renameDecl
        split
        · next heq => simp at heq
        · next heq => simp at heq
        · rfl
      unfold declF
      rw [e0, rsT_gpLt, rsL_cons, rsL_cons, rsT_lifetime]
      rfl
    refine ⟨.lt, x, ⟨rfl, by rw [eF]; rfl, ?_, ?_, rfl, by rw [eF]; rfl, ?_⟩⟩
    · intro k'; cases k' <;> simp [kindSel, kindStr, paramIdent]
    · intro k'; rw [eF]; cases k' <;> simp [kindSel, kindStr, paramIdent, CCtx.ρ, CCtx.m]
    · refine ⟨_, _, _, _, rfl, ?_, fun s => rfl, rsOK_two c _ (by decide) (by decide) (by decide) (by decide) (by decide)
        (by decide) (by decide) (by decide) (by decide) (by decide)⟩
      rw [eF, rsL_cons, rsL_cons, rsT_lifetime]
      rfl
  · cases h

theorem ixL_comm (c : CCtx) (st : Stat c) (ks : List T) (hok : rsOKL c ks = true) (s : IxState) (hu : Un c s) :
    ixL (mapS c.r s) (rsL c.r ks) = mapS c.r (ixL s ks) :=
  ixL_comm_of ks (fun t _ => ixT_comm c st t) hok s hu

theorem rsL_map (r : Renaming) : ∀ l : List T, rsL r l = l.map (rsT r)
  | [] => by rw [rsL_nil]; rfl
  | t :: ts => by rw [rsL_cons, rsL_map r ts]; rfl

theorem filterMap_congr' {α β : Type} {f g : α → Option β} : ∀ {l : List α}, (∀ a ∈ l, f a = g a) →
    l.filterMap f = l.filterMap g
  | [], _ => rfl
  | a :: l, h => by
      rw [List.filterMap_cons, List.filterMap_cons, h a (by simp),
        filterMap_congr' (l := l) (fun b hb => h b (List.mem_cons_of_mem _ hb))]

theorem find?_congr' {α : Type} {f g : α → Bool} : ∀ {l : List α}, (∀ a ∈ l, f a = g a) → l.find? f = l.find? g
  | [], _ => rfl
  | a :: l, h => by
      rw [List.find?_cons, List.find?_cons, h a (by simp),
        find?_congr' (l := l) (fun b hb => h b (List.mem_cons_of_mem _ hb))]

/-- the generic parameter list after canonicalisation -/
def genF (r : Renaming) (lt0 : T) (ps : List T) (gt0 wc : T) : T :=
  .node "Generics" [] [rsT r lt0, .node "List" [] (ps.map (declF r)), rsT r gt0, rsT r wc]

theorem rsT_renameGenerics (r : Renaming) (lt0 : T) (ps : List T) (gt0 wc : T) :
    rsT r (renameGenerics r (.node "Generics" [] [lt0, .node "List" [] ps, gt0, wc])) = genF r lt0 ps gt0 wc := by
  unfold renameGenerics genF
  simp only
  rw [rsT_other r _ _ (by decide) (by decide) (by decide) (by decide) (by decide), rsL_cons, rsL_cons, rsL_cons, rsL_cons,
    rsL_nil, rsT_list, rsL_map, List.map_map]
  rfl

def IxState.names (s : IxState) : PK → List String
  | .lt => s.namesLt | .ty => s.namesTy | .co => s.namesCo

/-- all the parameters of the state, indexed or not, are declared ones -/
def Nm (c : CCtx) (s : IxState) : Prop := ∀ k, ∀ y ∈ s.names k, y ∈ c.D k

theorem Nm.of_same {c : CCtx} {s s' : IxState} (h : SameNames s s') (hn : Nm c s) : Nm c s' := by
  intro k y hy
  cases k
  · exact hn .lt y (h.1.mem_iff.1 hy)
  · exact hn .ty y (h.2.1.mem_iff.1 hy)
  · exact hn .co y (h.2.2.mem_iff.1 hy)

theorem Nm.un {c : CCtx} {s : IxState} (hn : Nm c s) : Un c s := by
  intro k y hy
  apply hn k y
  cases k <;> simp only [IxState.names, IxState.namesLt, IxState.namesTy, IxState.namesCo, IxState.un] at hy ⊢ <;>
    exact List.mem_append_right _ hy

section Decls
variable (c : CCtx) (st : Stat c) (lt0 : T) (ps : List T) (gt0 wc : T)
  (hD : ∀ k, c.D k = kindNames (.node "Generics" [] [lt0, .node "List" [] ps, gt0, wc]) (kindStr k))
  (hps : ∀ p ∈ ps, (paramIdent p).isSome = true)

include hps in
theorem kindNames_genF (k : PK) :
    kindNames (genF c.r lt0 ps gt0 wc) (kindStr k) =
      (kindNames (.node "Generics" [] [lt0, .node "List" [] ps, gt0, wc]) (kindStr k)).map (c.ρ k) := by
  rw [kindNames_eq, kindNames_eq]
  show (ps.map (declF c.r)).filterMap _ = (ps.filterMap _).map _
  rw [List.filterMap_map, List.map_filterMap]
  apply filterMap_congr'
  intro p hp
  obtain ⟨kp, y, sh⟩ := param_cases c p (hps p hp)
  show kindSel (kindStr k) (declF c.r p) = (kindSel (kindStr k) p).map (c.ρ k)
  rw [sh.sel k, sh.selF k]
  by_cases e : k = kp
  · subst e; simp
  · simp [e]

include hD in
theorem pshape_mem {p : T} (hp : p ∈ ps) {k : PK} {y : String} (sh : PShape c p k y) : y ∈ c.D k := by
  rw [hD k, kindNames_eq]
  show y ∈ ps.filterMap _
  rw [List.mem_filterMap]
  exact ⟨p, hp, by rw [sh.sel k]; simp⟩

include st hD hps in
theorem paramNode_comm {k0 : PK} (hk0 : k0.ns = false) {x : String} (hx : x ∈ c.D k0) :
    paramNode (genF c.r lt0 ps gt0 wc) (c.ρ k0 x) =
      (paramNode (.node "Generics" [] [lt0, .node "List" [] ps, gt0, wc]) x).map (declF c.r) := by
  rw [paramNode_eq, paramNode_eq]
  show (ps.map (declF c.r)).find? _ = (ps.find? _).map _
  rw [List.find?_map]
  congr 1
  apply find?_congr'
  intro p hp
  obtain ⟨kp, y, sh⟩ := param_cases c p (hps p hp)
  have hy := pshape_mem c lt0 ps gt0 wc hD hp sh
  show (ltGuard (declF c.r p) && paramIdent (declF c.r p) == some (c.ρ k0 x)) = (ltGuard p && paramIdent p == some x)
  rw [sh.ident, sh.identF, sh.guard, sh.guardF]
  cases hkp : kp.ns with
  | true => rfl
  | false =>
    have hns : kp.ns = k0.ns := by rw [hkp, hk0]
    simp only [Bool.not_false, Bool.true_and]
    rw [Bool.eq_iff_iff]
    simp only [beq_iff_eq, Option.some.injEq]
    constructor
    · exact st.inj kp k0 hns y x hy hx
    · intro e
      subst e
      cases st.disj kp k0 hns y hy hx
      rfl

end Decls

/-! ### One round through the bounds of the indexed parameters -/

def rstep (acc : IxState) (ip : Nat × T) : IxState :=
  match ip.2 with
  | .node _ [] [inner] => (match inner with
      | .node _ [] kids => ixL acc kids
      | _ => acc)
  | _ => acc

def roundNodes (s : IxState) (g : T) : List (Nat × T) :=
  ((s.ixTy ++ s.ixCo).filterMap (fun (x, i) => (paramNode g x).map (fun p => (i, p)))).foldr insertByIdx []

def wcOf : T → Option T
  | .node "Some" [] [w] => some w
  | _ => none

theorem ixRound_eq (s : IxState) (lt0 l gt0 wc : T) :
    ixRound s (.node "Generics" [] [lt0, l, gt0, wc]) =
      match wcOf wc with
      | some w => ixT ((roundNodes s (.node "Generics" [] [lt0, l, gt0, wc])).foldl rstep s) w
      | none => (roundNodes s (.node "Generics" [] [lt0, l, gt0, wc])).foldl rstep s := by
  unfold ixRound
  simp only
  cases h : wcOf wc with
  | some w =>
    unfold wcOf at h
    split at h
    · cases h; rfl
    · cases h
  | none =>
    split
    · next heq =>
      cases heq
      simp [wcOf] at h
    · rfl

theorem insertByIdx_map (f : T → T) (x : Nat × T) : ∀ l : List (Nat × T),
    insertByIdx (x.1, f x.2) (l.map (fun ip => (ip.1, f ip.2))) = (insertByIdx x l).map (fun ip => (ip.1, f ip.2))
  | [] => rfl
  | y :: ys => by
      simp only [List.map_cons, insertByIdx]
      split
      · rw [List.map_cons, insertByIdx_map f x ys]
      · rfl

theorem foldr_insert_map (f : T → T) : ∀ l : List (Nat × T),
    (l.map (fun ip => (ip.1, f ip.2))).foldr insertByIdx [] = (l.foldr insertByIdx []).map (fun ip => (ip.1, f ip.2))
  | [] => rfl
  | x :: xs => by
      rw [List.map_cons, List.foldr_cons, List.foldr_cons, foldr_insert_map f xs]
      exact insertByIdx_map f x _

theorem mem_insertByIdx {x y : Nat × T} : ∀ {l : List (Nat × T)}, y ∈ insertByIdx x l ↔ y = x ∨ y ∈ l
  | [] => by simp [insertByIdx]
  | z :: zs => by
      simp only [insertByIdx]
      split
      · simp only [List.mem_cons, mem_insertByIdx (l := zs)]
        constructor
        · rintro (h | h | h)
          · exact Or.inr (Or.inl h)
          · exact Or.inl h
          · exact Or.inr (Or.inr h)
        · rintro (h | h | h)
          · exact Or.inr (Or.inl h)
          · exact Or.inl h
          · exact Or.inr (Or.inr h)
      · simp only [List.mem_cons]

theorem mem_foldr_insert {y : Nat × T} : ∀ {l : List (Nat × T)}, y ∈ l.foldr insertByIdx [] ↔ y ∈ l
  | [] => by simp
  | x :: xs => by
      rw [List.foldr_cons, mem_insertByIdx, mem_foldr_insert (l := xs), List.mem_cons]

theorem mem_roundNodes {s : IxState} {g : T} {ip : Nat × T} (h : ip ∈ roundNodes s g) : ip.2 ∈ genericsParams g := by
  unfold roundNodes at h
  rw [mem_foldr_insert, List.mem_filterMap] at h
  obtain ⟨⟨x, i⟩, _, hx⟩ := h
  simp only [Option.map_eq_some_iff] at hx
  obtain ⟨p, hp, rfl⟩ := hx
  exact List.mem_of_find?_eq_some hp

section Round
variable (c : CCtx) (st : Stat c) (lt0 : T) (ps : List T) (gt0 wc : T)
  (hD : ∀ k, c.D k = kindNames (.node "Generics" [] [lt0, .node "List" [] ps, gt0, wc]) (kindStr k))
  (hps : ∀ p ∈ ps, (paramIdent p).isSome = true)

include st hD hps in
theorem roundNodes_comm (s : IxState) (hn : Nm c s) :
    roundNodes (mapS c.r s) (genF c.r lt0 ps gt0 wc) =
      (roundNodes s (.node "Generics" [] [lt0, .node "List" [] ps, gt0, wc])).map (fun ip => (ip.1, declF c.r ip.2)) := by
  unfold roundNodes
  rw [← foldr_insert_map]
  congr 1
  show ((s.ixTy.map _ ++ s.ixCo.map _).filterMap _) = _
  rw [List.filterMap_append, List.filterMap_append, List.map_append, List.filterMap_map, List.filterMap_map,
    List.map_filterMap, List.map_filterMap]
  congr 1
  · apply filterMap_congr'
    rintro ⟨x, i⟩ hxi
    have hx : x ∈ c.D .ty := hn .ty x (List.mem_append_left _ (List.mem_map.2 ⟨_, hxi, rfl⟩))
    have := paramNode_comm c st lt0 ps gt0 wc hD hps rfl hx
    simp only [Function.comp, CCtx.ρ, CCtx.m] at this ⊢
    rw [this]
    cases paramNode (.node "Generics" [] [lt0, .node "List" [] ps, gt0, wc]) x <;> rfl
  · apply filterMap_congr'
    rintro ⟨x, i⟩ hxi
    have hx : x ∈ c.D .co := hn .co x (List.mem_append_left _ (List.mem_map.2 ⟨_, hxi, rfl⟩))
    have := paramNode_comm c st lt0 ps gt0 wc hD hps rfl hx
    simp only [Function.comp, CCtx.ρ, CCtx.m] at this ⊢
    rw [this]
    cases paramNode (.node "Generics" [] [lt0, .node "List" [] ps, gt0, wc]) x <;> rfl

include st hps in
theorem rstep_comm (hok : ∀ p ∈ ps, rsOK c p = true) (s : IxState) (hu : Un c s) (ip : Nat × T) (hp : ip.2 ∈ ps) :
    rstep (mapS c.r s) (ip.1, declF c.r ip.2) = mapS c.r (rstep s ip) := by
  obtain ⟨i, p⟩ := ip
  obtain ⟨kp, y, sh⟩ := param_cases c p (hps p hp)
  obtain ⟨K, K2, kids, kids', e1, e2, e3, e4⟩ := sh.kids
  simp only at hp ⊢
  rw [e2]
  subst e1
  show ixL (mapS c.r s) kids' = mapS c.r (ixL s kids)
  rw [e3, ixL_comm c st kids (e4 (hok _ hp)) s hu]

theorem Un.rstep {s : IxState} (h : Un c s) (ip : Nat × T) : Un c (rstep s ip) := by
  unfold DI.rstep
  split
  · split
    · exact h.ixL _
    · exact h
  · exact h

include st hps in
theorem foldl_rstep_comm (hok : ∀ p ∈ ps, rsOK c p = true) : ∀ (l : List (Nat × T)) (s : IxState), Un c s →
    (∀ ip ∈ l, ip.2 ∈ ps) →
    (l.map (fun ip => (ip.1, declF c.r ip.2))).foldl rstep (mapS c.r s) = mapS c.r (l.foldl rstep s)
  | [], _, _, _ => rfl
  | ip :: l, s, hu, hl => by
      rw [List.map_cons, List.foldl_cons, List.foldl_cons, rstep_comm c st ps hps hok s hu ip (hl ip (by simp))]
      exact foldl_rstep_comm hok l _ (hu.rstep c ip) (fun ip' h' => hl ip' (List.mem_cons_of_mem _ h'))

end Round

theorem wcOf_some {wc w : T} (h : wcOf wc = some w) : wc = .node "Some" [] [w] := by
  unfold wcOf at h
  split at h
  · cases h; rfl
  · cases h

theorem wcOf_rsT (r : Renaming) (wc : T) : wcOf (rsT r wc) = (wcOf wc).map (rsT r) := by
  cases h : wcOf wc with
  | some w =>
    cases wcOf_some h
    rw [rsT_other r _ _ (by decide) (by decide) (by decide) (by decide) (by decide), rsL_cons, rsL_nil]
    rfl
  | none =>
    cases h' : wcOf (rsT r wc) with
    | none => rfl
    | some w' =>
      exfalso
      obtain ⟨ks, rfl, e⟩ := rsT_inv (by decide) (by decide) (by decide) (by decide) (by decide) (wcOf_some h')
      obtain ⟨w, ks2, rfl, _, e2⟩ := rsL_eq_cons e.symm
      cases rsL_eq_nil e2
      simp [wcOf] at h

section Round
variable (c : CCtx) (st : Stat c) (lt0 : T) (ps : List T) (gt0 wc : T)
  (hD : ∀ k, c.D k = kindNames (.node "Generics" [] [lt0, .node "List" [] ps, gt0, wc]) (kindStr k))
  (hps : ∀ p ∈ ps, (paramIdent p).isSome = true)
  (hok : ∀ p ∈ ps, rsOK c p = true) (hwc : rsOK c wc = true)

include st hD hps hok hwc in
theorem ixRound_comm (s : IxState) (hn : Nm c s) :
    ixRound (mapS c.r s) (genF c.r lt0 ps gt0 wc) =
      mapS c.r (ixRound s (.node "Generics" [] [lt0, .node "List" [] ps, gt0, wc])) := by
  have hfold := foldl_rstep_comm c st ps hps hok
    (roundNodes s (.node "Generics" [] [lt0, .node "List" [] ps, gt0, wc])) s hn.un (fun ip h => mem_roundNodes h)
  have hnodes := roundNodes_comm c st lt0 ps gt0 wc hD hps s hn
  rw [ixRound_eq]
  unfold genF at hnodes ⊢
  rw [ixRound_eq, wcOf_rsT, hnodes, hfold]
  cases h : wcOf wc with
  | none => rfl
  | some w =>
    cases wcOf_some h
    have hw : rsOK c w = true := by
      rw [rsOK_of_other c [] (nodeOther_of_ne _ (by decide) (by decide) (by decide) (by decide) (by decide))] at hwc
      exact rsOKL_iff.1 hwc w (by simp)
    simp only [Option.map_some]
    refine ixT_comm c st w hw _ ?_
    intro k y hy
    refine hn.un k y ?_
    exact foldl_rel un_rel rstep (fun s ip => by
      unfold rstep
      split
      · split
        · exact ixL_rel un_rel _ (fun t _ => ixT_rel un_rel t) s
        · exact un_rel.refl s
      · exact un_rel.refl s) _ s k y hy

end Round

theorem mapS_unindexed (r : Renaming) (s : IxState) : (mapS r s).unindexed = s.unindexed := by
  simp [mapS, IxState.unindexed]

section Loop
variable (c : CCtx) (st : Stat c) (lt0 : T) (ps : List T) (gt0 wc : T)
  (hD : ∀ k, c.D k = kindNames (.node "Generics" [] [lt0, .node "List" [] ps, gt0, wc]) (kindStr k))
  (hps : ∀ p ∈ ps, (paramIdent p).isSome = true)
  (hok : ∀ p ∈ ps, rsOK c p = true) (hwc : rsOK c wc = true)

include st hD hps hok hwc in
theorem ixLoop_comm : ∀ (fuel prev : Nat) (s : IxState), Nm c s →
    ixLoop fuel prev (mapS c.r s) (genF c.r lt0 ps gt0 wc) =
      mapS c.r (ixLoop fuel prev s (.node "Generics" [] [lt0, .node "List" [] ps, gt0, wc]))
  | 0, _, s, _ => by rw [ixLoop, ixLoop]
  | fuel + 1, prev, s, hn => by
      rw [ixLoop, ixLoop, mapS_unindexed]
      split
      · rw [ixRound_comm c st lt0 ps gt0 wc hD hps hok hwc s hn]
        exact ixLoop_comm fuel _ _ (hn.of_same (ixRound_rel sameNames_rel s _))
      · rfl

end Loop

/-! ### Indexing the canonicalised item -/

theorem implDeclsOK_inv {item : T} (h : implDeclsOK item = true) :
    ∃ a d u lt0 ps gt0 wc tr sf items,
      item = .node "ItemImpl" [] [a, d, u, .node "Generics" [] [lt0, .node "List" [] ps, gt0, wc], tr, sf, items] ∧
      ∀ p ∈ ps, (paramIdent p).isSome = true := by
  unfold implDeclsOK at h
  split at h
  · next a d u g tr sf items =>
    unfold declsOK at h
    split at h
    · next lt0 ps gt0 wc =>
      exact ⟨a, d, u, lt0, ps, gt0, wc, tr, sf, items, rfl, by simpa using h⟩
    · cases h
  · cases h

theorem canon_shape (a d u lt0 : T) (ps : List T) (gt0 wc tr sf items : T) (r : Renaming)
    (hr : r = (indexImpl (.node "ItemImpl" [] [a, d, u, .node "Generics" [] [lt0, .node "List" [] ps, gt0, wc], tr, sf, items])).renaming) :
    canon (.node "ItemImpl" [] [a, d, u, .node "Generics" [] [lt0, .node "List" [] ps, gt0, wc], tr, sf, items]) =
      .node "ItemImpl" [] [rsT r a, rsT r d, rsT r u, genF r lt0 ps gt0 wc, rsT r tr, rsT r sf, rsT r items] := by
  unfold canon
  simp only [← hr]
  unfold renameImplDecls
  simp only
  rw [rsT_other r _ _ (by decide) (by decide) (by decide) (by decide) (by decide), rsL_cons, rsL_cons, rsL_cons, rsL_cons,
    rsL_cons, rsL_cons, rsL_cons, rsL_nil, rsT_renameGenerics]

theorem ixT_item_comm (c : CCtx) (st : Stat c) (a d u lt0 : T) (ps : List T) (gt0 wc tr sf items : T)
    (ha : rsOK c a = true) (hd : rsOK c d = true) (hu' : rsOK c u = true) (htr : rsOK c tr = true)
    (hsf : rsOK c sf = true) (hit : rsOK c items = true) (s : IxState) (hu : Un c s) :
    ixT (mapS c.r s) (.node "ItemImpl" [] [rsT c.r a, rsT c.r d, rsT c.r u, genF c.r lt0 ps gt0 wc, rsT c.r tr, rsT c.r sf, rsT c.r items]) =
      mapS c.r (ixT s (.node "ItemImpl" [] [a, d, u, .node "Generics" [] [lt0, .node "List" [] ps, gt0, wc], tr, sf, items])) := by
  rw [ixT_node _ [] _ (by decide) (by decide) (by decide) (by decide) (by decide) (by decide),
    ixT_node _ [] _ (by decide) (by decide) (by decide) (by decide) (by decide) (by decide)]
  unfold genF
  simp only [ixL_cons, ixL_nil, ixT_generics]
  rw [ixT_comm c st a ha s hu, ixT_comm c st d hd _ (hu.ixT a), ixT_comm c st u hu' _ ((hu.ixT a).ixT d),
    ixT_comm c st tr htr _ (((hu.ixT a).ixT d).ixT u), ixT_comm c st sf hsf _ ((((hu.ixT a).ixT d).ixT u).ixT tr),
    ixT_comm c st items hit _ (((((hu.ixT a).ixT d).ixT u).ixT tr).ixT sf)]

theorem indexImpl_comm (item : T) (st : Stat (canonCtx item)) (hdecl : implDeclsOK item = true)
    (hok : rsOK (canonCtx item) item = true) :
    indexImpl (canon item) = mapS (canonCtx item).r (indexImpl item) := by
  obtain ⟨a, d, u, lt0, ps, gt0, wc, tr, sf, items, rfl, hps⟩ := implDeclsOK_inv hdecl
  generalize hc : canonCtx _ = c at st hok ⊢
  have hr : c.r = (indexImpl (.node "ItemImpl" [] [a, d, u, .node "Generics" [] [lt0, .node "List" [] ps, gt0, wc], tr, sf, items])).renaming := by
    rw [← hc]; rfl
  have hD : ∀ k, c.D k = kindNames (.node "Generics" [] [lt0, .node "List" [] ps, gt0, wc]) (kindStr k) := by
    intro k; rw [← hc]; cases k <;> rfl
  rw [canon_shape a d u lt0 ps gt0 wc tr sf items c.r hr]
  -- the pieces of the condition
  rw [rsOK_of_other c [] (nodeOther_of_ne _ (by decide) (by decide) (by decide) (by decide) (by decide))] at hok
  have hk := rsOKL_iff.1 hok
  have hg : rsOK c (.node "Generics" [] [lt0, .node "List" [] ps, gt0, wc]) = true := hk _ (by simp)
  rw [rsOK_of_other c [] (nodeOther_of_ne _ (by decide) (by decide) (by decide) (by decide) (by decide))] at hg
  have hgk := rsOKL_iff.1 hg
  have hwc : rsOK c wc = true := hgk _ (by simp)
  have hl : rsOK c (.node "List" [] ps) = true := hgk _ (by simp)
  rw [rsOK_of_other c [] (nodeOther_of_ne _ (by decide) (by decide) (by decide) (by decide) (by decide))] at hl
  have hpok := rsOKL_iff.1 hl
  -- the start state
  have h0 : (⟨kindNames (genF c.r lt0 ps gt0 wc) "GenericParam::Lifetime", kindNames (genF c.r lt0 ps gt0 wc) "GenericParam::Type",
      kindNames (genF c.r lt0 ps gt0 wc) "GenericParam::Const", [], [], [], 0⟩ : IxState) =
      mapS c.r ⟨kindNames (.node "Generics" [] [lt0, .node "List" [] ps, gt0, wc]) "GenericParam::Lifetime",
        kindNames (.node "Generics" [] [lt0, .node "List" [] ps, gt0, wc]) "GenericParam::Type",
        kindNames (.node "Generics" [] [lt0, .node "List" [] ps, gt0, wc]) "GenericParam::Const", [], [], [], 0⟩ := by
    have e1 := kindNames_genF c lt0 ps gt0 wc hps .lt
    have e2 := kindNames_genF c lt0 ps gt0 wc hps .ty
    have e3 := kindNames_genF c lt0 ps gt0 wc hps .co
    simp only [kindStr] at e1 e2 e3
    rw [e1, e2, e3]
    rfl
  have hn0 : Nm c ⟨kindNames (.node "Generics" [] [lt0, .node "List" [] ps, gt0, wc]) "GenericParam::Lifetime",
        kindNames (.node "Generics" [] [lt0, .node "List" [] ps, gt0, wc]) "GenericParam::Type",
        kindNames (.node "Generics" [] [lt0, .node "List" [] ps, gt0, wc]) "GenericParam::Const", [], [], [], 0⟩ := by
    intro k y hy
    rw [hD k]
    cases k <;> simpa [IxState.names, IxState.namesLt, IxState.namesTy, IxState.namesCo, kindStr] using hy
  unfold indexImpl
  simp only [implGenerics, Option.getD_some]
  rw [h0, ixT_item_comm c st a d u lt0 ps gt0 wc tr sf items (hk _ (by simp)) (hk _ (by simp)) (hk _ (by simp))
    (hk _ (by simp)) (hk _ (by simp)) (hk _ (by simp)) _ hn0.un, mapS_unindexed]
  exact ixLoop_comm c st lt0 ps gt0 wc hD hps hpok hwc _ _ _ (hn0.of_same (ixT_rel sameNames_rel _ _))

/-! ### The canonicalised item has no path that starts with a renamed name -/

/-- the second renaming `r'` renames only names the first one wrote for a renamed parameter -/
structure Stab (c : CCtx) (r' : Renaming) : Prop where
  ty : ∀ x, rlookup r'.ty x ≠ none → ∃ y, rlookup c.r.ty y ≠ none ∧ rn c.r.ty y = x
  co : ∀ x, rlookup r'.co x ≠ none → ∃ y, rlookup c.r.co y ≠ none ∧ rn c.r.co y = x

theorem Stat.dom' {c : CCtx} (st : Stat c) {k : PK} {y : String} (h : rlookup (c.m k) y ≠ none) : y ∈ c.D k := by
  cases hl : rlookup (c.m k) y with
  | none => exact absurd hl h
  | some v => exact st.dom k y v hl

theorem not_renamed_decl {c : CCtx} (st : Stat c) {k k0 : PK} (hns : k.ns = k0.ns) {x : String} (hx : x ∈ c.D k0)
    (hx0 : rlookup (c.m k0) x = none) {y : String} (hy : rlookup (c.m k) y ≠ none) : c.ρ k y ≠ x := by
  intro e
  have e0 : c.ρ k0 x = x := by unfold CCtx.ρ rn; rw [hx0]; rfl
  have := st.inj k k0 hns y x (st.dom' hy) hx (e.trans e0.symm)
  subst this
  cases st.disj k k0 hns y (st.dom' hy) hx
  exact hy hx0

theorem not_renamed_fresh {c : CCtx} (st : Stat c) {k : PK} {x : String} (hf : x ∉ (c.D k).map (c.ρ k))
    {y : String} (hy : rlookup (c.m k) y ≠ none) : c.ρ k y ≠ x :=
  fun e => hf (List.mem_map.2 ⟨y, st.dom' hy, e⟩)

theorem tyHead_stable {c : CCtx} (st : Stat c) {r' : Renaming} (sb : Stab c r') {x : String} (hok : okTy c x = true)
    (h : rlookup c.r.ty x = none) : rlookup r'.ty x = none := by
  apply Classical.byContradiction
  intro hne
  obtain ⟨y, hy, e⟩ := sb.ty x hne
  simp only [okTy, Bool.or_eq_true, List.contains_iff_mem, Bool.not_eq_true', ← Bool.not_eq_true] at hok
  rcases hok with hok | hok
  · exact not_renamed_decl st (k := .ty) (k0 := .ty) rfl hok h hy e
  · exact not_renamed_fresh st (k := .ty) hok hy e

theorem exHead_stable {c : CCtx} (st : Stat c) {r' : Renaming} (sb : Stab c r') {x : String} (hok : okEx c x = true)
    (h1 : rlookup c.r.ty x = none) (h2 : rlookup c.r.co x = none) :
    rlookup r'.ty x = none ∧ rlookup r'.co x = none := by
  simp only [okEx, Bool.or_eq_true, Bool.and_eq_true, List.contains_iff_mem, Bool.not_eq_true', ← Bool.not_eq_true] at hok
  constructor
  · apply Classical.byContradiction
    intro hne
    obtain ⟨y, hy, e⟩ := sb.ty x hne
    rcases hok with (hok | hok) | hok
    · exact not_renamed_decl st (k := .ty) (k0 := .ty) rfl hok h1 hy e
    · exact not_renamed_decl st (k := .ty) (k0 := .co) rfl hok h2 hy e
    · exact not_renamed_fresh st (k := .ty) hok.1 hy e
  · apply Classical.byContradiction
    intro hne
    obtain ⟨y, hy, e⟩ := sb.co x hne
    rcases hok with (hok | hok) | hok
    · exact not_renamed_decl st (k := .co) (k0 := .ty) rfl hok h1 hy e
    · exact not_renamed_decl st (k := .co) (k0 := .co) rfl hok h2 hy e
    · exact not_renamed_fresh st (k := .co) hok.2 hy e

theorem fresh_stable_ty {c : CCtx} (st : Stat c) {r' : Renaming} (sb : Stab c r') {y : String} (h : y ∉ c.imgTy) :
    rlookup r'.ty y = none := by
  apply Classical.byContradiction
  intro hne
  obtain ⟨z, hz, e⟩ := sb.ty y hne
  exact not_renamed_fresh st (k := .ty) h hz e

theorem fresh_stable_co {c : CCtx} (st : Stat c) {r' : Renaming} (sb : Stab c r') {y : String} (h : y ∉ c.imgCo) :
    rlookup r'.co y = none := by
  apply Classical.byContradiction
  intro hne
  obtain ⟨z, hz, e⟩ := sb.co y hne
  exact not_renamed_fresh st (k := .co) h hz e

theorem rsStable_typePath_iff (r : Renaming) (as : List String) (q p : T) :
    rsStable r (.node "Type::Path" as [q, p]) = true ↔ rsStable r q = true ∧ rsStable r p = true ∧
      ∀ x, firstSegIdent p = some x → rlookup r.ty x = none := by
  rw [rsStable]
  simp only [Bool.and_eq_true]
  constructor
  · rintro ⟨⟨hq, hp⟩, hm⟩
    refine ⟨hq, hp, fun x hx => ?_⟩
    rw [hx] at hm
    simpa using hm
  · rintro ⟨hq, hp, hm⟩
    refine ⟨⟨hq, hp⟩, ?_⟩
    cases hx : firstSegIdent p with
    | none => rfl
    | some x => simp [hm x hx]

theorem rsStable_exprPath_iff (r : Renaming) (as : List String) (a q p : T) :
    rsStable r (.node "Expr::Path" as [a, q, p]) = true ↔ rsStable r a = true ∧ rsStable r q = true ∧ rsStable r p = true ∧
      ∀ x, firstSegIdent p = some x → rlookup r.ty x = none ∧ rlookup r.co x = none := by
  rw [rsStable]
  simp only [Bool.and_eq_true]
  constructor
  · rintro ⟨⟨⟨ha, hq⟩, hp⟩, hm⟩
    refine ⟨ha, hq, hp, fun x hx => ?_⟩
    rw [hx] at hm
    simpa using hm
  · rintro ⟨ha, hq, hp, hm⟩
    refine ⟨⟨⟨ha, hq⟩, hp⟩, ?_⟩
    cases hx : firstSegIdent p with
    | none => rfl
    | some x => simp [hm x hx]

theorem rsStable_node (r : Renaming) {k : String} (as : List String) (ks : List T) (h1 : k ≠ "Ign") (h2 : k ≠ "Eq")
    (h3 : k ≠ "Lifetime") (h4 : k ≠ "Type::Path") (h5 : k ≠ "Expr::Path") :
    rsStable r (.node k as ks) = rsStableL r ks :=
  rsStable_of_other r as (nodeOther_of_ne ks h1 h2 h3 h4 h5)

theorem rsStableL_nil (r : Renaming) : rsStableL r [] = true := by rw [rsStableL]
theorem rsStableL_cons (r : Renaming) (t : T) (ts : List T) : rsStableL r (t :: ts) = (rsStable r t && rsStableL r ts) := by
  rw [rsStableL]

/-- the tail of a plain path is stable if the path is -/
theorem rsStable_plainPath {r : Renaming} {x : String} {rest : List T} (h : rsStable r (plainPath x rest) = true) :
    rsStableL r rest = true := by
  unfold plainPath at h
  rw [rsStable_node r _ _ (by decide) (by decide) (by decide) (by decide) (by decide), rsStableL_cons, rsStableL_cons,
    rsStable_node r _ _ (by decide) (by decide) (by decide) (by decide) (by decide), rsStableL_cons] at h
  simp only [Bool.and_eq_true] at h
  exact h.2.1.2

theorem rsStable_qselfPath (r : Renaming) (m : String) (rest : List T) (h : rsStableL r rest = true) :
    rsStable r (.node "Some" [] [.node "QSelf" [] [.tparam m, .node "Atom" ["0"] [], noneNode]]) = true ∧
    rsStable r (.node "Path" [] [someColon, .node "List" [] rest]) = true := by
  constructor
  · rw [rsStable_node r _ _ (by decide) (by decide) (by decide) (by decide) (by decide), rsStableL_cons, rsStableL_nil,
      rsStable_node r _ _ (by decide) (by decide) (by decide) (by decide) (by decide), rsStableL_cons, rsStableL_cons,
      rsStableL_cons, rsStableL_nil]
    unfold noneNode
    rw [rsStable_node r _ _ (by decide) (by decide) (by decide) (by decide) (by decide), rsStableL_nil,
      rsStable_node r _ _ (by decide) (by decide) (by decide) (by decide) (by decide), rsStableL_nil, rsStable]
    rfl
  · unfold someColon
    rw [rsStable_node r _ _ (by decide) (by decide) (by decide) (by decide) (by decide), rsStableL_cons, rsStableL_cons,
      rsStableL_nil, rsStable_node r _ _ (by decide) (by decide) (by decide) (by decide) (by decide), rsStableL_cons,
      rsStableL_nil, rsStable_node r _ _ (by decide) (by decide) (by decide) (by decide) (by decide), rsStableL_nil,
      rsStable_node r _ _ (by decide) (by decide) (by decide) (by decide) (by decide), h]
    rfl

theorem rsT_stable (c : CCtx) (st : Stat c) (r' : Renaming) (sb : Stab c r') :
    ∀ t : T, rsOK c t = true → rsStable r' (rsT c.r t) = true := by
  apply T.ind
  · intro n _; rw [rsT_tparam, rsStable]
  · intro n _; rw [rsT_eparam, rsStable]
  · intro k as ks ih hok
    rcases node_shape k ks with h | ⟨x, rfl, rfl⟩ | ⟨q, p, rfl, rfl⟩ | ⟨a, q, p, rfl, rfl⟩ | h
    · rcases h with rfl | rfl
      · rw [rsT_ign, rsStable]
      · rw [rsT_eq, rsStable]
    · rw [rsT_lifetime, rsStable]
    · obtain ⟨hq, hp, hx⟩ := rsOK_typePath_inv hok
      have ihq := ih q (by simp) hq
      have ihp := ih p (by simp) hp
      rw [rsT_typePath]
      cases hf : firstSegIdent p with
      | none =>
        have hf' : firstSegIdent (rsT c.r p) = none := by rw [firstSegIdent_rsT, hf]
        unfold rsTypePath; rw [hf']; simp only
        rw [rsStable_typePath_iff]
        exact ⟨ihq, ihp, fun x hx' => by rw [hf'] at hx'; cases hx'⟩
      | some x =>
        have hf' : firstSegIdent (rsT c.r p) = some x := by rw [firstSegIdent_rsT, hf]
        obtain ⟨hokx, hren⟩ := hx x hf
        cases hl : rlookup c.r.ty x with
        | none =>
          unfold rsTypePath; rw [hf']; simp only [hl]
          rw [rsStable_typePath_iff]
          refine ⟨ihq, ihp, fun x' hx' => ?_⟩
          rw [hf'] at hx'; cases hx'
          exact tyHead_stable st sb hokx hl
        | some m =>
          obtain ⟨hplain, hsec⟩ := hren m hl
          obtain ⟨rfl, x', rest, rfl⟩ := plainHead_inv hplain
          cases (by simpa [firstSegIdent_plainPath] using hf : x' = x)
          rw [rsT_plainPath] at ihp
          have hrest := rsStable_plainPath ihp
          rw [rsT_noneNode, rsT_plainPath]
          unfold rsTypePath
          rw [firstSegIdent_plainPath]
          simp only [hl, restSegments_plainPath]
          cases rest with
          | nil =>
            rw [rsL_nil]
            simp only [List.isEmpty_nil, if_true]
            rw [rsStable]
          | cons seg2 rest2 =>
            rw [rsL_cons] at hrest ⊢
            simp only [List.isEmpty_cons, qselfPath, Bool.false_eq_true, if_false]
            obtain ⟨s1, s2⟩ := rsStable_qselfPath r' m _ hrest
            rw [rsStable_typePath_iff]
            refine ⟨s1, s2, fun y hy => ?_⟩
            rw [firstSegIdent_eq, ← rsL_cons, headIdent_rsL] at hy
            unfold secondFresh at hsec
            rw [restSegments_plainPath, hy] at hsec
            simp only [Bool.not_eq_true', ← Bool.not_eq_true, List.contains_iff_mem] at hsec
            exact fresh_stable_ty st sb hsec
    · obtain ⟨ha, hq, hp, hx⟩ := rsOK_exprPath_inv hok
      have iha := ih a (by simp) ha
      have ihq := ih q (by simp) hq
      have ihp := ih p (by simp) hp
      rw [rsT_exprPath]
      cases hf : firstSegIdent p with
      | none =>
        have hf' : firstSegIdent (rsT c.r p) = none := by rw [firstSegIdent_rsT, hf]
        unfold rsExprPath; rw [hf']; simp only
        rw [rsStable_exprPath_iff]
        exact ⟨iha, ihq, ihp, fun x hx' => by rw [hf'] at hx'; cases hx'⟩
      | some x =>
        have hf' : firstSegIdent (rsT c.r p) = some x := by rw [firstSegIdent_rsT, hf]
        obtain ⟨hokx, hrenT, hrenC⟩ := hx x hf
        cases hl : rlookup c.r.ty x with
        | none =>
          cases hl2 : rlookup c.r.co x with
          | none =>
            unfold rsExprPath; rw [hf']; simp only [hl, hl2]
            rw [rsStable_exprPath_iff]
            refine ⟨iha, ihq, ihp, fun x' hx' => ?_⟩
            rw [hf'] at hx'; cases hx'
            exact exHead_stable st sb hokx hl hl2
          | some m =>
            obtain ⟨hplain, hemp⟩ := hrenC hl m hl2
            obtain ⟨rfl, x', rest, rfl⟩ := plainHead_inv hplain
            cases (by simpa [firstSegIdent_plainPath] using hf : x' = x)
            rw [restSegments_plainPath] at hemp
            cases rest with
            | cons _ _ => cases hemp
            | nil => rw [rsT_noneNode, rsT_plainPath, rsL_nil, rsExprPath_bare hl hl2, rsStable]
        | some m =>
          obtain ⟨hplain, hsec⟩ := hrenT m hl
          obtain ⟨rfl, x', rest, rfl⟩ := plainHead_inv hplain
          cases (by simpa [firstSegIdent_plainPath] using hf : x' = x)
          rw [rsT_plainPath] at ihp
          have hrest := rsStable_plainPath ihp
          rw [rsT_noneNode, rsT_plainPath, rsExprPath_ty hl]
          cases rest with
          | nil =>
            rw [rsL_nil]
            simp only [List.isEmpty_nil, if_true]
            rw [rsStable]
          | cons seg2 rest2 =>
            rw [rsL_cons] at hrest ⊢
            simp only [List.isEmpty_cons, Bool.false_eq_true, if_false]
            obtain ⟨s1, s2⟩ := rsStable_qselfPath r' m _ hrest
            rw [rsStable_exprPath_iff]
            refine ⟨by rw [rsStable], s1, s2, fun y hy => ?_⟩
            rw [firstSegIdent_eq, ← rsL_cons, headIdent_rsL] at hy
            unfold secondFresh at hsec
            rw [restSegments_plainPath, hy] at hsec
            simp only [Bool.not_eq_true', ← Bool.not_eq_true, List.contains_iff_mem, List.mem_append, not_or] at hsec
            exact ⟨fresh_stable_ty st sb hsec.1, fresh_stable_co st sb hsec.2⟩
    · rw [rsOK_of_other c as h] at hok
      rw [rsT_of_other c.r as h, rsStable_of_other r' as (nodeOther_rsL c.r h), rsStableL_iff]
      intro t' ht'
      rw [rsL_map, List.mem_map] at ht'
      obtain ⟨t, ht, rfl⟩ := ht'
      exact ih t ht (rsOKL_iff.1 hok t ht)

/-! ### Renaming the declarations keeps the condition -/

theorem rsOK_node (c : CCtx) {k : String} (as : List String) (ks : List T) (h1 : k ≠ "Ign") (h2 : k ≠ "Eq")
    (h3 : k ≠ "Lifetime") (h4 : k ≠ "Type::Path") (h5 : k ≠ "Expr::Path") :
    rsOK c (.node k as ks) = rsOKL c ks :=
  rsOK_of_other c as (nodeOther_of_ne ks h1 h2 h3 h4 h5)
theorem rsOKL_nil (c : CCtx) : rsOKL c [] = true := by rw [rsOKL]
theorem rsOKL_cons (c : CCtx) (t : T) (ts : List T) : rsOKL c (t :: ts) = (rsOK c t && rsOKL c ts) := by rw [rsOKL]
theorem rsOK_identLeaf (c : CCtx) (x : String) : rsOK c (.node "Ident" [x] []) = true := by
  rw [rsOK_node c _ _ (by decide) (by decide) (by decide) (by decide) (by decide), rsOKL_nil]

theorem renameDecl_rsOK (c : CCtx) (r : Renaming) (p : T) (h : rsOK c p = true) : rsOK c (renameDecl r p) = true := by
  unfold renameDecl
  split
  · next a x rest =>
    rw [rsOK_node c _ _ (by decide) (by decide) (by decide) (by decide) (by decide), rsOKL_cons, rsOKL_nil,
      rsOK_node c _ _ (by decide) (by decide) (by decide) (by decide) (by decide), rsOKL_cons, rsOKL_cons, rsOK_identLeaf] at h ⊢
    exact h
  · next a x rest =>
    rw [rsOK_node c _ _ (by decide) (by decide) (by decide) (by decide) (by decide), rsOKL_cons, rsOKL_nil,
      rsOK_node c _ _ (by decide) (by decide) (by decide) (by decide) (by decide), rsOKL_cons, rsOKL_cons, rsOK_identLeaf] at h ⊢
    exact h
  · exact h

theorem renameGenerics_rsOK (c : CCtx) (r : Renaming) (g : T) (h : rsOK c g = true) : rsOK c (renameGenerics r g) = true := by
  unfold renameGenerics
  split
  · next lt0 ps gt0 wc =>
    rw [rsOK_node c _ _ (by decide) (by decide) (by decide) (by decide) (by decide), rsOKL_cons, rsOKL_cons,
      rsOK_node c _ _ (by decide) (by decide) (by decide) (by decide) (by decide)] at h ⊢
    simp only [Bool.and_eq_true] at h ⊢
    refine ⟨h.1, ?_, h.2.2⟩
    rw [rsOKL_iff]
    intro t ht
    obtain ⟨p, hp, rfl⟩ := List.mem_map.1 ht
    exact renameDecl_rsOK c r p (rsOKL_iff.1 h.2.1 p hp)
  · exact h

theorem renameImplDecls_rsOK (c : CCtx) (r : Renaming) (item : T) (h : rsOK c item = true) :
    rsOK c (renameImplDecls r item) = true := by
  unfold renameImplDecls
  split
  · next a d u g tr sf items =>
    rw [rsOK_node c _ _ (by decide) (by decide) (by decide) (by decide) (by decide)] at h ⊢
    simp only [rsOKL_cons, Bool.and_eq_true] at h ⊢
    exact ⟨h.1, h.2.1, h.2.2.1, renameGenerics_rsOK c r g h.2.2.2.1, h.2.2.2.2⟩
  · exact h

/-! ### The static facts hold for the renaming computed by the indexer -/

theorem rlookup_some_mem : ∀ {m : List (String × String)} {x v : String}, rlookup m x = some v → (x, v) ∈ m
  | [], _, _, h => by cases h
  | (a, b) :: m, x, v, h => by
      simp only [rlookup] at h
      split at h
      · next e => cases h; subst e; exact List.mem_cons_self
      · exact List.mem_cons_of_mem _ (rlookup_some_mem h)

theorem rlookup_none_notin : ∀ {m : List (String × String)} {x : String}, rlookup m x = none → x ∉ m.map Prod.fst
  | [], _, _ => by simp
  | (a, b) :: m, x, h => by
      simp only [rlookup] at h
      split at h
      · cases h
      · next e =>
        simp only [List.map_cons, List.mem_cons, not_or]
        exact ⟨fun e' => e e'.symm, rlookup_none_notin h⟩

theorem rlookup_of_mem_nodup : ∀ {m : List (String × String)} {x v : String}, (m.map Prod.fst).Nodup → (x, v) ∈ m →
    rlookup m x = some v
  | [], _, _, _, h => by cases h
  | (a, b) :: m, x, v, hn, h => by
      simp only [List.map_cons, List.nodup_cons] at hn
      simp only [rlookup]
      rcases List.mem_cons.1 h with e | h'
      · cases e; simp
      · split
        · next e =>
          subst e
          exact absurd (List.mem_map.2 ⟨(a, v), h', rfl⟩) hn.1
        · exact rlookup_of_mem_nodup hn.2 h'

theorem snd_nodup_inj {m : List (String × String)} (hn : (m.map Prod.snd).Nodup) {x y v : String}
    (hx : (x, v) ∈ m) (hy : (y, v) ∈ m) : x = y := by
  induction m with
  | nil => cases hx
  | cons p m ih =>
    simp only [List.map_cons, List.nodup_cons] at hn
    rcases List.mem_cons.1 hx with e1 | h1
    · rcases List.mem_cons.1 hy with e2 | h2
      · rw [← e2] at e1; exact (Prod.mk.inj e1).1
      · subst e1
        exact absurd (List.mem_map.2 ⟨(y, v), h2, rfl⟩) hn.1
    · rcases List.mem_cons.1 hy with e2 | h2
      · subst e2
        exact absurd (List.mem_map.2 ⟨(x, v), h1, rfl⟩) hn.1
      · exact ih hn.2 h1 h2

def IxState.ix (s : IxState) : PK → List (String × Nat)
  | .lt => s.ixLt | .ty => s.ixTy | .co => s.ixCo

theorem canonCtx_m (item : T) (k : PK) :
    (canonCtx item).m k = ((indexImpl item).ix k).map (fun p => (p.1, genIndexedIdent p.2)) := by
  cases k <;> rfl
theorem names_eq (s : IxState) (k : PK) : s.names k = (s.ix k).map Prod.fst ++ s.un k := by
  cases k <;> rfl
theorem canonCtx_D (item : T) (k : PK) : (canonCtx item).D k = (ixInit item).un k := by
  cases k <;> rfl

theorem canonCtx_mem_D (item : T) (k : PK) (y : String) : y ∈ (indexImpl item).names k ↔ y ∈ (canonCtx item).D k := by
  have h := indexImpl_rel sameNames_rel item
  rw [canonCtx_D]
  cases k
  · rw [show (indexImpl item).names .lt = (indexImpl item).namesLt from rfl, h.1.mem_iff]; simp [IxState.namesLt, ixInit, IxState.un]
  · rw [show (indexImpl item).names .ty = (indexImpl item).namesTy from rfl, h.2.1.mem_iff]; simp [IxState.namesTy, ixInit, IxState.un]
  · rw [show (indexImpl item).names .co = (indexImpl item).namesCo from rfl, h.2.2.mem_iff]; simp [IxState.namesCo, ixInit, IxState.un]

/-- the computed renaming of one name space -/
def nsMap (s : IxState) : Bool → List (String × String)
  | true => s.renaming.lt
  | false => s.renaming.ty ++ s.renaming.co

theorem canonCtx_m_sub (item : T) (k : PK) {p : String × String} (h : p ∈ (canonCtx item).m k) :
    p ∈ nsMap (indexImpl item) k.ns := by
  cases k
  · exact h
  · exact List.mem_append_left _ h
  · exact List.mem_append_right _ h

theorem range_nodup (item : T) : (indexImpl item).renaming.range.Nodup := by
  unfold Renaming.range
  rw [renaming_new_names]
  exact List.Pairwise.map genIndexedIdent (fun a b hab e => hab (genIndexedIdent_inj e)) (indexImpl_idxInv item).1

theorem nsMap_nodup (item : T) (b : Bool) : ((nsMap (indexImpl item) b).map Prod.snd).Nodup := by
  have h := range_nodup item
  unfold Renaming.range at h
  rw [List.append_assoc, List.map_append, List.nodup_append] at h
  cases b
  · exact h.2.1
  · exact h.1

theorem canon_stat (item : T) (hd : namesDistinct (canonCtx item) = true) (hf : deadFresh item = true) :
    Stat (canonCtx item) := by
  have hnd : (canonCtx item).dLt.Nodup ∧ ((canonCtx item).dTy ++ (canonCtx item).dCo).Nodup := by
    simpa [namesDistinct] using hd
  have hdom : ∀ k x v, rlookup ((canonCtx item).m k) x = some v → x ∈ (canonCtx item).D k := by
    intro k x v h
    have hm := rlookup_some_mem h
    rw [canonCtx_m] at hm
    obtain ⟨p, hp, e⟩ := List.mem_map.1 hm
    rw [← canonCtx_mem_D, names_eq]
    refine List.mem_append_left _ (List.mem_map.2 ⟨p, hp, ?_⟩)
    exact (Prod.mk.inj e).1
  have hrange : ∀ k x v, rlookup ((canonCtx item).m k) x = some v →
      v ∈ (nsMap (indexImpl item) k.ns).map Prod.snd := by
    intro k x v h
    exact List.mem_map.2 ⟨(x, v), canonCtx_m_sub item k (rlookup_some_mem h), rfl⟩
  have hdead : ∀ k x, x ∈ (canonCtx item).D k → rlookup ((canonCtx item).m k) x = none →
      x ∉ (nsMap (indexImpl item) k.ns).map Prod.snd := by
    intro k x hx hn
    have hk := rlookup_none_notin hn
    rw [canonCtx_m, List.map_map] at hk
    rw [← canonCtx_mem_D, names_eq] at hx
    have hun : x ∈ (indexImpl item).un k := by
      rcases List.mem_append.1 hx with h | h
      · exact absurd h hk
      · exact h
    simp only [deadFresh, Bool.and_eq_true, List.all_eq_true, Bool.not_eq_true', ← Bool.not_eq_true,
      List.contains_iff_mem] at hf
    cases k
    · exact hf.1 x hun
    · exact hf.2 x (List.mem_append_left _ hun)
    · exact hf.2 x (List.mem_append_right _ hun)
  refine ⟨hdom, ?_, ?_⟩
  · intro k k' hns y x hy hx e
    unfold CCtx.ρ rn at e
    cases h1 : rlookup ((canonCtx item).m k) y with
    | some v =>
      cases h2 : rlookup ((canonCtx item).m k') x with
      | some v' =>
        rw [h1, h2] at e
        simp only [Option.getD_some] at e
        subst e
        have m1 := canonCtx_m_sub item k (rlookup_some_mem h1)
        have m2 := canonCtx_m_sub item k' (rlookup_some_mem h2)
        rw [hns] at m1
        exact snd_nodup_inj (nsMap_nodup item _) m1 m2
      | none =>
        rw [h1, h2] at e
        simp only [Option.getD_some, Option.getD_none] at e
        subst e
        have r1 := hrange k y _ h1
        rw [hns] at r1
        exact absurd r1 (hdead k' _ hx h2)
    | none =>
      cases h2 : rlookup ((canonCtx item).m k') x with
      | some v' =>
        rw [h1, h2] at e
        simp only [Option.getD_some, Option.getD_none] at e
        subst e
        have r2 := hrange k' x _ h2
        rw [← hns] at r2
        exact absurd r2 (hdead k _ hy h1)
      | none =>
        rw [h1, h2] at e
        simpa using e
  · intro k k' hns x hx hx'
    obtain ⟨_, h2⟩ := hnd
    rw [List.nodup_append] at h2
    cases k <;> cases k' <;> first
      | rfl
      | (exfalso; first
          | exact h2.2.2 x hx x hx' rfl
          | exact h2.2.2 x hx' x hx rfl)
      | cases hns

/-! ### Idempotence -/

/-- the map read off a list of indexed names -/
def ixMap (ix : List (String × Nat)) : List (String × String) := ix.map (fun (x, i) => (x, genIndexedIdent i))

theorem ixMap_second_id (ix : List (String × Nat)) (hn : (ix.map Prod.fst).Nodup) :
    idMap (ixMap (ix.map (fun p => (rn (ixMap ix) p.1, p.2)))) = true := by
  simp only [idMap, ixMap, List.all_eq_true, List.mem_map, beq_iff_eq]
  rintro _ ⟨_, ⟨⟨y, i⟩, hy, rfl⟩, rfl⟩
  simp only
  have : rlookup (ixMap ix) y = some (genIndexedIdent i) := by
    apply rlookup_of_mem_nodup
    · simpa [ixMap, List.map_map, Function.comp_def] using hn
    · exact List.mem_map.2 ⟨(y, i), hy, rfl⟩
  have e : rn (ixMap ix) y = genIndexedIdent i := by unfold rn; rw [this]; rfl
  exact e

theorem ixMap_second_src (ix : List (String × Nat)) (x : String)
    (h : rlookup (ixMap (ix.map (fun p => (rn (ixMap ix) p.1, p.2)))) x ≠ none) :
    ∃ y, rlookup (ixMap ix) y ≠ none ∧ rn (ixMap ix) y = x := by
  cases hl : rlookup (ixMap (ix.map (fun p => (rn (ixMap ix) p.1, p.2)))) x with
  | none => exact absurd hl h
  | some v =>
    have hm := rlookup_some_mem hl
    simp only [ixMap, List.mem_map] at hm
    obtain ⟨_, ⟨⟨y, i⟩, hy, rfl⟩, e⟩ := hm
    simp only [Prod.mk.injEq] at e
    refine ⟨y, fun hn => ?_, e.1⟩
    exact rlookup_none_notin hn (List.mem_map.2 ⟨(y, genIndexedIdent i), List.mem_map.2 ⟨(y, i), hy, rfl⟩, rfl⟩)

theorem renaming_eq (s : IxState) : s.renaming = ⟨ixMap s.ixLt, ixMap s.ixTy, ixMap s.ixCo⟩ := rfl

/-- the canonicalised item is canonical: the renaming computed for it is the identity and none of its paths starts with
    a renamed name -/
theorem canon_alreadyCanonical (item : T) (h : canonWF item = true) : alreadyCanonical (canon item) = true := by
  simp only [canonWF, Bool.and_eq_true] at h
  obtain ⟨⟨⟨hdecl, hd⟩, hf⟩, hok⟩ := h
  have st := canon_stat item hd hf
  have hix := indexImpl_comm item st hdecl hok
  have hnd : (canonCtx item).dLt.Nodup ∧ ((canonCtx item).dTy ++ (canonCtx item).dCo).Nodup := by
    simpa [namesDistinct] using hd
  rw [List.nodup_append] at hnd
  have hinv : IxInv (indexImpl item) := indexImpl_inv item hnd.1 hnd.2.1 hnd.2.2.1
  have hr : (canonCtx item).r = (indexImpl item).renaming := rfl
  unfold alreadyCanonical
  rw [hix, hr, renaming_eq (indexImpl item)]
  have e' : (mapS ⟨ixMap (indexImpl item).ixLt, ixMap (indexImpl item).ixTy, ixMap (indexImpl item).ixCo⟩ (indexImpl item)).renaming =
      ⟨ixMap ((indexImpl item).ixLt.map (fun p => (rn (ixMap (indexImpl item).ixLt) p.1, p.2))),
       ixMap ((indexImpl item).ixTy.map (fun p => (rn (ixMap (indexImpl item).ixTy) p.1, p.2))),
       ixMap ((indexImpl item).ixCo.map (fun p => (rn (ixMap (indexImpl item).ixCo) p.1, p.2)))⟩ := rfl
  rw [e']
  simp only [Bool.and_eq_true]
  constructor
  · simp only [Renaming.isId, Bool.and_eq_true]
    refine ⟨⟨ixMap_second_id _ ?_, ixMap_second_id _ ?_⟩, ixMap_second_id _ ?_⟩
    · exact (List.nodup_append.1 hinv.2.1).1
    · exact (List.nodup_append.1 hinv.2.2.1).1
    · exact (List.nodup_append.1 hinv.2.2.2).1
  · have sb : Stab (canonCtx item) ⟨ixMap ((indexImpl item).ixLt.map (fun p => (rn (ixMap (indexImpl item).ixLt) p.1, p.2))),
       ixMap ((indexImpl item).ixTy.map (fun p => (rn (ixMap (indexImpl item).ixTy) p.1, p.2))),
       ixMap ((indexImpl item).ixCo.map (fun p => (rn (ixMap (indexImpl item).ixCo) p.1, p.2)))⟩ :=
      ⟨fun x hx => ixMap_second_src _ x hx, fun x hx => ixMap_second_src _ x hx⟩
    have := rsT_stable (canonCtx item) st _ sb _ (renameImplDecls_rsOK (canonCtx item) (canonCtx item).r item hok)
    exact this

theorem canonWF_indexImpl_comm (item : T) (h : canonWF item = true) :
    indexImpl (canon item) = mapS (indexImpl item).renaming (indexImpl item) := by
  simp only [canonWF, Bool.and_eq_true] at h
  obtain ⟨⟨⟨hdecl, hd⟩, hf⟩, hok⟩ := h
  exact indexImpl_comm item (canon_stat item hd hf) hdecl hok

theorem canon_idem (item : T) (h : canonWF item = true) : canon (canon item) = canon item :=
  canon_fixed _ (canon_alreadyCanonical item h)

end DI
