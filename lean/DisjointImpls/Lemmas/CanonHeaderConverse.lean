/-
  The converse of alpha-invariance on the level of block HEADERS (C13 / C06): the header of the canonical block is the
  resolver applied to the header (`mkHdr_canon_hc`), the numbering of the header's parameters depends on the header alone
  (`hdr_prefix_hc`, `rsT_hdr_local_hc`), equal canonical headers were handed the same names (`hdr_names_hc`), and hence
  come from headers that are textual renamings of each other (`same_header_only_if_renaming_hc`).
  Statements: `Props/C13.lean`, `Props/C06.lean`. Definitions: `Lemmas/CanonHeaderConverseDefs.lean`.
-/
import DisjointImpls.Lemmas.CanonHeaderConverseDefs
import DisjointImpls.Lemmas.CanonRoundTrip
namespace DI

/-! ### (b) The header of the canonical block -/

/-- the trait path inside the `Option<(Option<!>, Path, For)>` field -/
def trPathOf_hc : T → Option T
  | .node "Some" [] [.node "Tuple" [] [_, p]] => some p
  | _ => none

theorem trPathOf_some_hc {tr p : T} (h : trPathOf_hc tr = some p) : ∃ b, tr = .node "Some" [] [.node "Tuple" [] [b, p]] := by
  unfold trPathOf_hc at h
  split at h
  · cases h; exact ⟨_, rfl⟩
  · cases h

theorem implTraitPath_impl_hc (a d u g tr s items : T) :
    implTraitPath (.node "ItemImpl" [] [a, d, u, g, tr, s, items]) = trPathOf_hc tr := by
  cases h : trPathOf_hc tr with
  | some p => obtain ⟨b, rfl⟩ := trPathOf_some_hc h; rfl
  | none =>
    unfold implTraitPath
    split
    · next heq => cases heq; simp [trPathOf_hc] at h
    · rfl

theorem trPathOf_rsT_hc (r : Renaming) (tr : T) : trPathOf_hc (rsT r tr) = (trPathOf_hc tr).map (rsT r) := by
  cases h : trPathOf_hc tr with
  | some p =>
    obtain ⟨b, rfl⟩ := trPathOf_some_hc h
    rw [rsT_other r _ _ (by decide) (by decide) (by decide) (by decide) (by decide), rsL_cons, rsL_nil,
      rsT_other r _ _ (by decide) (by decide) (by decide) (by decide) (by decide), rsL_cons, rsL_cons, rsL_nil]
    rfl
  | none =>
    cases h' : trPathOf_hc (rsT r tr) with
    | none => rfl
    | some p' =>
      exfalso
      obtain ⟨b', e'⟩ := trPathOf_some_hc h'
      obtain ⟨ks, rfl, e⟩ := rsT_inv (by decide) (by decide) (by decide) (by decide) (by decide) e'
      obtain ⟨w, ks2, rfl, e1, e2⟩ := rsL_eq_cons e.symm
      cases rsL_eq_nil e2
      obtain ⟨ks3, rfl, e3⟩ := rsT_inv (by decide) (by decide) (by decide) (by decide) (by decide) e1
      obtain ⟨b, ks4, rfl, _, e4⟩ := rsL_eq_cons e3.symm
      obtain ⟨p, ks5, rfl, _, e5⟩ := rsL_eq_cons e4
      cases rsL_eq_nil e5
      simp [trPathOf_hc] at h

/-- the header as a function of the trait field and the self type -/
def hdrOf_hc (tr : Option T) (s : Option T) : T :=
  .node "ImplGroupId" [] [
    (match tr with | some p => .node "Some" [] [p] | none => .node "None" [] []),
    s.getD (.node "?" [] [])]

theorem mkHdr_eq_hc (item : T) : mkHdr item = hdrOf_hc (implTraitPath item) (implSelfTy item) := rfl

theorem rsT_hdrOf_hc (r : Renaming) (tr s : Option T) : rsT r (hdrOf_hc tr s) = hdrOf_hc (tr.map (rsT r)) (s.map (rsT r)) := by
  unfold hdrOf_hc
  rw [rsT_other r _ _ (by decide) (by decide) (by decide) (by decide) (by decide), rsL_cons, rsL_cons, rsL_nil]
  congr 2
  · cases tr with
    | none => exact rsT_leaf r _ (by decide) (by decide) (by decide) (by decide) (by decide)
    | some p =>
      show rsT r (.node "Some" [] [p]) = _
      rw [rsT_other r _ _ (by decide) (by decide) (by decide) (by decide) (by decide), rsL_cons, rsL_nil]
      rfl
  · congr 1
    cases s with
    | none => exact rsT_leaf r _ (by decide) (by decide) (by decide) (by decide) (by decide)
    | some p => rfl

/-- the seven-field shape of an `ItemImpl` node -/
def IsImpl_hc (item : T) : Prop := ∃ a d u g tr s items, item = .node "ItemImpl" [] [a, d, u, g, tr, s, items]

theorem implSelfTy_none_hc {item : T} (h : ¬ IsImpl_hc item) : implSelfTy item = none := by
  unfold implSelfTy
  split
  · next a d u g tr s items => exact absurd ⟨a, d, u, g, tr, s, items, rfl⟩ h
  · rfl

theorem implTraitPath_none_hc {item : T} (h : ¬ IsImpl_hc item) : implTraitPath item = none := by
  unfold implTraitPath
  split
  · next a d u g b p s items => exact absurd ⟨a, d, u, g, _, s, items, rfl⟩ h
  · rfl

theorem renameImplDecls_notImpl_hc (r : Renaming) {item : T} (h : ¬ IsImpl_hc item) : renameImplDecls r item = item := by
  unfold renameImplDecls
  split
  · next a d u g tr s items => exact absurd ⟨a, d, u, g, tr, s, items, rfl⟩ h
  · rfl

theorem isImpl_of_rsT_hc {r : Renaming} {item : T} (h : IsImpl_hc (rsT r item)) : IsImpl_hc item := by
  obtain ⟨a, d, u, g, tr, s, items, e⟩ := h
  obtain ⟨ks, rfl, e1⟩ := rsT_inv (by decide) (by decide) (by decide) (by decide) (by decide) e
  obtain ⟨a0, k1, rfl, _, e2⟩ := rsL_eq_cons e1.symm
  obtain ⟨d0, k2, rfl, _, e3⟩ := rsL_eq_cons e2
  obtain ⟨u0, k3, rfl, _, e4⟩ := rsL_eq_cons e3
  obtain ⟨g0, k4, rfl, _, e5⟩ := rsL_eq_cons e4
  obtain ⟨tr0, k5, rfl, _, e6⟩ := rsL_eq_cons e5
  obtain ⟨s0, k6, rfl, _, e7⟩ := rsL_eq_cons e6
  obtain ⟨i0, k7, rfl, _, e8⟩ := rsL_eq_cons e7
  cases rsL_eq_nil e8
  exact ⟨a0, d0, u0, g0, tr0, s0, i0, rfl⟩

/-- **the header of the canonical block is the resolver applied to the header** — no side condition -/
theorem mkHdr_canon_hc (item : T) : mkHdr (canon item) = rsT (indexImpl item).renaming (mkHdr item) := by
  rw [mkHdr_eq_hc item, rsT_hdrOf_hc, mkHdr_eq_hc]
  by_cases h : IsImpl_hc item
  · obtain ⟨a, d, u, g, tr, s, items, rfl⟩ := h
    generalize hr : (indexImpl _).renaming = r
    have e : canon (.node "ItemImpl" [] [a, d, u, g, tr, s, items]) =
        .node "ItemImpl" [] [rsT r a, rsT r d, rsT r u, rsT r (renameGenerics r g), rsT r tr, rsT r s, rsT r items] := by
      unfold canon
      simp only [hr]
      unfold renameImplDecls
      simp only
      rw [rsT_other r _ _ (by decide) (by decide) (by decide) (by decide) (by decide), rsL_cons, rsL_cons, rsL_cons, rsL_cons,
        rsL_cons, rsL_cons, rsL_cons, rsL_nil]
    rw [e, implTraitPath_impl_hc, implTraitPath_impl_hc, trPathOf_rsT_hc]
    rfl
  · have h' : ¬ IsImpl_hc (canon item) := by
      unfold canon
      simp only
      rw [renameImplDecls_notImpl_hc _ h]
      exact fun hh => h (isImpl_of_rsT_hc hh)
    rw [implSelfTy_none_hc h, implTraitPath_none_hc h, implSelfTy_none_hc h', implTraitPath_none_hc h']
    rfl

/-- trait path and self type of the canonical block -/
theorem implTraitPath_canon_hc (item : T) :
    implTraitPath (canon item) = (implTraitPath item).map (rsT (indexImpl item).renaming) := by
  have h := mkHdr_canon_hc item
  rw [mkHdr_eq_hc item, rsT_hdrOf_hc, mkHdr_eq_hc] at h
  unfold hdrOf_hc at h
  cases h1 : implTraitPath (canon item) <;> cases h2 : implTraitPath item <;> rw [h1, h2] at h <;> simp at h ⊢
  exact h.1

theorem implSelfTy_canon_hc (item : T) :
    implSelfTy (canon item) = (implSelfTy item).map (rsT (indexImpl item).renaming) := by
  by_cases h : IsImpl_hc item
  · obtain ⟨a, d, u, g, tr, s, items, rfl⟩ := h
    generalize hr : (indexImpl _).renaming = r
    have e : canon (.node "ItemImpl" [] [a, d, u, g, tr, s, items]) =
        .node "ItemImpl" [] [rsT r a, rsT r d, rsT r u, rsT r (renameGenerics r g), rsT r tr, rsT r s, rsT r items] := by
      unfold canon
      simp only [hr]
      unfold renameImplDecls
      simp only
      rw [rsT_other r _ _ (by decide) (by decide) (by decide) (by decide) (by decide), rsL_cons, rsL_cons, rsL_cons, rsL_cons,
        rsL_cons, rsL_cons, rsL_cons, rsL_nil]
    rw [e]
    rfl
  · have h' : ¬ IsImpl_hc (canon item) := by
      unfold canon
      simp only
      rw [renameImplDecls_notImpl_hc _ h]
      exact fun hh => h (isImpl_of_rsT_hc hh)
    rw [implSelfTy_none_hc h, implSelfTy_none_hc h']
    rfl

/-! ### The header is numbered first -/

/-- under `hdrFirst_hc`, the indexer of the block continues from the state the header alone produces -/
theorem hdr_rel_hc {R : IxState → IxState → Prop} (h : IxRel R) (item : T) (hf : hdrFirst_hc item = true) :
    R (hdrIx_hc item) (indexImpl item) := by
  unfold hdrFirst_hc at hf
  split at hf
  · next a d u g tr s items =>
    have e := eq_of_beq hf
    unfold indexImpl
    refine h.trans ?_ (ixLoop_rel h _ _ _ _)
    show R _ (ixT (ixInit _) _)
    rw [ixT_node _ [] _ (by decide) (by decide) (by decide) (by decide) (by decide) (by decide)]
    simp only [ixL_cons, ixL_nil] at e ⊢
    rw [e]
    exact ixT_rel h items _
  · cases hf

/-- the numbering of `s` is an initial segment of the numbering of `s'` -/
def Pre_hc (s s' : IxState) : Prop := ∀ k, ∃ l, s'.ix k = s.ix k ++ l

theorem pre_rel_hc : IxRel Pre_hc where
  refl s k := ⟨[], (List.append_nil _).symm⟩
  trans h1 h2 k := by
    obtain ⟨l1, e1⟩ := h1 k
    obtain ⟨l2, e2⟩ := h2 k
    exact ⟨l1 ++ l2, by rw [e2, e1, List.append_assoc]⟩
  lt s x := by
    unfold ltIdent
    split
    · intro k; cases k
      · exact ⟨_, rfl⟩
      · exact ⟨[], (List.append_nil _).symm⟩
      · exact ⟨[], (List.append_nil _).symm⟩
    · exact fun k => ⟨[], (List.append_nil _).symm⟩
  ty s x := by
    unfold tyIdent
    split
    · intro k; cases k
      · exact ⟨[], (List.append_nil _).symm⟩
      · exact ⟨_, rfl⟩
      · exact ⟨[], (List.append_nil _).symm⟩
    · exact fun k => ⟨[], (List.append_nil _).symm⟩
  co s x := by
    unfold coIdent
    split
    · intro k; cases k
      · exact ⟨[], (List.append_nil _).symm⟩
      · exact ⟨[], (List.append_nil _).symm⟩
      · exact ⟨_, rfl⟩
    · exact fun k => ⟨[], (List.append_nil _).symm⟩

/-- **the numbering of the header's parameters is an initial segment of the numbering of the block** -/
theorem hdr_prefix_hc (item : T) (hf : hdrFirst_hc item = true) (k : PK) :
    ∃ l, (indexImpl item).renaming.m k = (hdrRenaming_hc item).m k ++ l := by
  obtain ⟨l, e⟩ := hdr_rel_hc pre_rel_hc item hf k
  refine ⟨l.map (fun p => (p.1, genIndexedIdent p.2)), ?_⟩
  unfold hdrRenaming_hc
  rw [renaming_m, renaming_m, e, List.map_append]

theorem rlookup_append_some_hc {m l : List (String × String)} {x v : String} (h : rlookup m x = some v) :
    rlookup (m ++ l) x = some v := by
  induction m with
  | nil => cases h
  | cons p m ih =>
    obtain ⟨a, b⟩ := p
    simp only [List.cons_append, rlookup] at h ⊢
    split
    · next e => rw [if_pos e] at h; exact h
    · next e => rw [if_neg e] at h; exact ih h

theorem sameNames_mem_hc {s s' : IxState} (h : SameNames s s') (k : PK) (y : String) : y ∈ s'.names k ↔ y ∈ s.names k := by
  cases k
  · exact h.1.mem_iff
  · exact h.2.1.mem_iff
  · exact h.2.2.mem_iff

/-- a name that is not waiting after the header is looked up alike in the header's renaming and in the block's -/
theorem lookup_local_hc (item : T) (hf : hdrFirst_hc item = true) (k : PK) (n : String) (hn : n ∉ (hdrIx_hc item).un k) :
    rlookup ((indexImpl item).renaming.m k) n = rlookup ((hdrRenaming_hc item).m k) n := by
  obtain ⟨l, e⟩ := hdr_prefix_hc item hf k
  cases hl : rlookup ((hdrRenaming_hc item).m k) n with
  | some v => rw [e]; exact rlookup_append_some_hc hl
  | none =>
    apply rlookup_none_of_notin
    intro hm
    have hk := rlookup_none_notin hl
    unfold hdrRenaming_hc at hk
    rw [renaming_m, List.map_map] at hk hm
    have h1 : n ∈ (indexImpl item).names k := by rw [names_eq]; exact List.mem_append_left _ hm
    rw [sameNames_mem_hc (hdr_rel_hc sameNames_rel item hf) k n, names_eq] at h1
    rcases List.mem_append.1 h1 with h | h
    · exact hk h
    · exact hn h

/-! ### Two renamings that agree on the names in parameter position resolve a tree alike -/

def agreeP_hc (r r' : Renaming) : NP :=
  ⟨fun n => rlookup r.lt n == rlookup r'.lt n, fun n => rlookup r.ty n == rlookup r'.ty n,
   fun n => rlookup r.ty n == rlookup r'.ty n && rlookup r.co n == rlookup r'.co n⟩

theorem rsL_agree_of_hc {r r' : Renaming} : ∀ (ks : List T),
    (∀ t ∈ ks, alP (agreeP_hc r r') t = true → rsT r t = rsT r' t) → alPL (agreeP_hc r r') ks = true → rsL r ks = rsL r' ks
  | [], _, _ => by rw [rsL_nil, rsL_nil]
  | t :: ts, ih, h => by
      have h' := alPL_iff.1 h
      rw [rsL_cons, rsL_cons, ih t (by simp) (h' t (by simp)),
        rsL_agree_of_hc ts (fun t' ht' => ih t' (List.mem_cons_of_mem _ ht'))
          (alPL_iff.2 (fun t' ht' => h' t' (List.mem_cons_of_mem _ ht')))]

theorem rsTypePath_agree_hc {r r' : Renaming} (as : List String) (q p : T)
    (h : ∀ x, firstSegIdent p = some x → rlookup r.ty x = rlookup r'.ty x) :
    rsTypePath r as q p = rsTypePath r' as q p := by
  unfold rsTypePath
  cases hf : firstSegIdent p with
  | none => rfl
  | some x => simp only [h x hf]

theorem rsExprPath_agree_hc {r r' : Renaming} (as : List String) (a q p : T)
    (h : ∀ x, firstSegIdent p = some x → rlookup r.ty x = rlookup r'.ty x ∧ rlookup r.co x = rlookup r'.co x) :
    rsExprPath r as a q p = rsExprPath r' as a q p := by
  unfold rsExprPath
  cases hf : firstSegIdent p with
  | none => rfl
  | some x => simp only [(h x hf).1, (h x hf).2]

theorem rsT_agree_hc (r r' : Renaming) : ∀ t : T, alP (agreeP_hc r r') t = true → rsT r t = rsT r' t := by
  apply T.ind
  · intro n h
    rw [alP] at h
    have h' : rlookup r.ty n = rlookup r'.ty n := by simpa [agreeP_hc] using h
    rw [rsT_tparam, rsT_tparam, h']
  · intro n h
    rw [alP] at h
    have h' : rlookup r.ty n = rlookup r'.ty n ∧ rlookup r.co n = rlookup r'.co n := by simpa [agreeP_hc] using h
    rw [rsT_eparam, rsT_eparam, h'.1, h'.2]
  · intro k as ks ih h
    rcases node_shape k ks with hh | ⟨x, rfl, rfl⟩ | ⟨q, p, rfl, rfl⟩ | ⟨a, q, p, rfl, rfl⟩ | hh
    · rcases hh with rfl | rfl
      · rw [rsT_ign, rsT_ign]
      · rw [rsT_eq, rsT_eq]
    · rw [alP] at h
      have h' : rlookup r.lt x = rlookup r'.lt x := by simpa [agreeP_hc] using h
      rw [rsT_lifetime, rsT_lifetime, h']
    · rw [alP_typePath_iff] at h
      obtain ⟨hq, hp, hx⟩ := h
      rw [rsT_typePath, rsT_typePath, ih q (by simp) hq, ih p (by simp) hp]
      apply rsTypePath_agree_hc
      intro x hf
      rw [firstSegIdent_rsT] at hf
      simpa [agreeP_hc] using hx x hf
    · rw [alP_exprPath_iff] at h
      obtain ⟨ha, hq, hp, hx⟩ := h
      rw [rsT_exprPath, rsT_exprPath, ih a (by simp) ha, ih q (by simp) hq, ih p (by simp) hp]
      apply rsExprPath_agree_hc
      intro x hf
      rw [firstSegIdent_rsT] at hf
      simpa [agreeP_hc] using hx x hf
    · rw [alP_of_other _ as hh] at h
      rw [rsT_of_other r as hh, rsT_of_other r' as hh, rsL_agree_of_hc ks ih h]

/-- the pieces of `canonWF` -/
theorem canonWF_parts_hc {item : T} (h : canonWF item = true) :
    implDeclsOK item = true ∧ namesDistinct (canonCtx item) = true ∧ deadFresh item = true ∧
    rsOK (canonCtx item) item = true := by
  simp only [canonWF, Bool.and_eq_true] at h
  exact ⟨h.1.1.1, h.1.1.2, h.1.2, h.2⟩

theorem ixInit_inv_of_distinct_hc (item : T) (hd : namesDistinct (canonCtx item) = true) : IxInv (ixInit item) := by
  have hnd : (canonCtx item).dLt.Nodup ∧ ((canonCtx item).dTy ++ (canonCtx item).dCo).Nodup := by
    simpa [namesDistinct] using hd
  rw [List.nodup_append] at hnd
  exact ixInit_inv item hnd.1 hnd.2.1 hnd.2.2.1

theorem un_init_hc (item : T) : Un (canonCtx item) (ixInit item) := by
  intro k y hy
  rw [canonCtx_D]
  exact hy

/-- **the resolver of the block acts on the header like the resolver of the header's own renaming**: every parameter that
    occurs in the header is numbered by the header alone -/
theorem rsT_hdr_local_hc (item : T) (hwf : canonWF item = true) (hf : hdrFirst_hc item = true)
    (hv : ixVis (mkHdr item) = true) :
    rsT (indexImpl item).renaming (mkHdr item) = rsT (hdrRenaming_hc item) (mkHdr item) := by
  obtain ⟨_, hd, hdf, _⟩ := canonWF_parts_hc hwf
  have st := canon_stat item hd hdf
  have hlive := ixT_complete (canonCtx item) st (mkHdr item) (ixInit item) (ixInit_inv_of_distinct_hc item hd)
    (un_init_hc item) hv
  apply rsT_agree_hc
  refine alP_mono ?_ ?_ ?_ _ hlive
  · intro n hn
    simp only [livePred, Bool.not_eq_true', ← Bool.not_eq_true, List.contains_iff_mem] at hn
    simp only [agreeP_hc, beq_iff_eq]
    exact lookup_local_hc item hf .lt n hn
  · intro n hn
    simp only [livePred, Bool.not_eq_true', ← Bool.not_eq_true, List.contains_iff_mem] at hn
    simp only [agreeP_hc, beq_iff_eq]
    exact lookup_local_hc item hf .ty n hn
  · intro n hn
    simp only [livePred, Bool.and_eq_true, Bool.not_eq_true', ← Bool.not_eq_true, List.contains_iff_mem] at hn
    have h1 := lookup_local_hc item hf .ty n hn.1
    have h2 := lookup_local_hc item hf .co n hn.2
    simp only [agreeP_hc, Bool.and_eq_true, beq_iff_eq]
    exact ⟨h1, h2⟩

/-- the canonical header through the header's own renaming -/
theorem mkHdr_canon_local_hc (item : T) (hwf : canonWF item = true) (hf : hdrFirst_hc item = true)
    (hv : ixVis (mkHdr item) = true) : mkHdr (canon item) = rsT (hdrRenaming_hc item) (mkHdr item) := by
  rw [mkHdr_canon_hc, rsT_hdr_local_hc item hwf hf hv]

/-! ### (a) Equal canonical headers were handed the same names

Two runs of the indexer over the SAME tree from start states that differ in the waiting names only hand out the same
numbers at the same places, provided every name either run indexes is spelled like its number (`GForm_hc`, which holds
for the canonical header) and no reserved identifier in parameter position is foreign to either run (`strayP_hc`). -/

/-- same numbering so far -/
def SameIx_hc (s1 s2 : IxState) : Prop := (∀ k, s1.ix k = s2.ix k) ∧ s1.next = s2.next

/-- every indexed name is the canonical spelling of its number -/
def GForm_hc (s : IxState) : Prop := ∀ k, ∀ p ∈ s.ix k, p.1 = genIndexedIdent p.2

/-- `N`: the names the run started with — what is waiting is among them, and each of them is waiting or numbered below `next` -/
structure Trk_hc (N : PK → List String) (s : IxState) : Prop where
  sub : ∀ k, ∀ n ∈ s.un k, n ∈ N k
  cov : ∀ k, ∀ n ∈ N k, n ∈ s.un k ∨ ∃ j, j < s.next ∧ (n, j) ∈ s.ix k

theorem GForm_of_pre_hc {s s' : IxState} (h : Pre_hc s s') (g : GForm_hc s') : GForm_hc s := by
  intro k p hp
  obtain ⟨l, e⟩ := h k
  exact g k p (by rw [e]; exact List.mem_append_left _ hp)

theorem cov_hit_hc {un : List String} {ix : List (String × Nat)} {next : Nat} {x n : String}
    (h : n ∈ un ∨ ∃ j, j < next ∧ (n, j) ∈ ix) :
    n ∈ un.erase x ∨ ∃ j, j < next + 1 ∧ (n, j) ∈ ix ++ [(x, next)] := by
  rcases h with h | ⟨j, hj, hm⟩
  · by_cases e : n = x
    · subst e
      exact Or.inr ⟨next, Nat.lt_succ_self _, List.mem_append_right _ (by simp)⟩
    · exact Or.inl ((List.mem_erase_of_ne e).2 h)
  · exact Or.inr ⟨j, Nat.lt_succ_of_lt hj, List.mem_append_left _ hm⟩

theorem cov_other_hc {un : List String} {ix : List (String × Nat)} {next : Nat} {n : String}
    (h : n ∈ un ∨ ∃ j, j < next ∧ (n, j) ∈ ix) : n ∈ un ∨ ∃ j, j < next + 1 ∧ (n, j) ∈ ix := by
  rcases h with h | ⟨j, hj, hm⟩
  · exact Or.inl h
  · exact Or.inr ⟨j, Nat.lt_succ_of_lt hj, hm⟩

theorem trk_rel_hc (N : PK → List String) : IxRel (fun s s' => Trk_hc N s → Trk_hc N s') where
  refl _ h := h
  trans h1 h2 h := h2 (h1 h)
  lt s x h := by
    unfold ltIdent
    split
    · refine ⟨fun k n hn => ?_, fun k n hn => ?_⟩
      · cases k
        · exact h.sub .lt n (List.mem_of_mem_erase hn)
        · exact h.sub .ty n hn
        · exact h.sub .co n hn
      · cases k
        · exact cov_hit_hc (h.cov .lt n hn)
        · exact cov_other_hc (h.cov .ty n hn)
        · exact cov_other_hc (h.cov .co n hn)
    · exact h
  ty s x h := by
    unfold tyIdent
    split
    · refine ⟨fun k n hn => ?_, fun k n hn => ?_⟩
      · cases k
        · exact h.sub .lt n hn
        · exact h.sub .ty n (List.mem_of_mem_erase hn)
        · exact h.sub .co n hn
      · cases k
        · exact cov_other_hc (h.cov .lt n hn)
        · exact cov_hit_hc (h.cov .ty n hn)
        · exact cov_other_hc (h.cov .co n hn)
    · exact h
  co s x h := by
    unfold coIdent
    split
    · refine ⟨fun k n hn => ?_, fun k n hn => ?_⟩
      · cases k
        · exact h.sub .lt n hn
        · exact h.sub .ty n hn
        · exact h.sub .co n (List.mem_of_mem_erase hn)
      · cases k
        · exact cov_other_hc (h.cov .lt n hn)
        · exact cov_other_hc (h.cov .ty n hn)
        · exact cov_hit_hc (h.cov .co n hn)
    · exact h

theorem Trk_hc.ixT {N : PK → List String} {s : IxState} (h : Trk_hc N s) (t : T) : Trk_hc N (ixT s t) :=
  ixT_rel (trk_rel_hc N) t s h
theorem Trk_hc.ty {N : PK → List String} {s : IxState} (h : Trk_hc N s) (x : String) : Trk_hc N (tyIdent s x).1 :=
  (trk_rel_hc N).ty s x h
theorem Trk_hc.ex {N : PK → List String} {s : IxState} (h : Trk_hc N s) (x : String) : Trk_hc N (exIdent s x) :=
  (trk_rel_hc N).ex s x h

/-- the core of the simulation: a name spelled like the CURRENT number that the run knows (`x ∈ N k`) is still waiting -/
theorem waiting_of_current_hc {N : PK → List String} {s : IxState} (tr : Trk_hc N s) (g : GForm_hc s) {k : PK} {x : String}
    (hx : x = genIndexedIdent s.next) (hN : x ∈ N k) : x ∈ s.un k := by
  rcases tr.cov k x hN with h | ⟨j, hj, hm⟩
  · exact h
  · have := g k _ hm
    simp only at this
    rw [hx] at this
    have := genIndexedIdent_inj this
    omega

/-- a primitive step of one kind -/
def stepK_hc (k : PK) (s : IxState) (x : String) : IxState :=
  match k with
  | .lt => ltIdent s x
  | .ty => (tyIdent s x).1
  | .co => coIdent s x

theorem stepK_hit_hc (k : PK) (s : IxState) (x : String) (h : x ∈ s.un k) :
    (∀ k', (stepK_hc k s x).ix k' = if k' = k then s.ix k ++ [(x, s.next)] else s.ix k') ∧ (stepK_hc k s x).next = s.next + 1 := by
  cases k
  · have hc : x ∈ s.unLt := h
    refine ⟨fun k' => ?_, ?_⟩
    · cases k' <;> simp [stepK_hc, ltIdent, hc, IxState.ix]
    · simp [stepK_hc, ltIdent, hc]
  · have hc : x ∈ s.unTy := h
    refine ⟨fun k' => ?_, ?_⟩
    · cases k' <;> simp [stepK_hc, tyIdent, hc, IxState.ix]
    · simp [stepK_hc, tyIdent, hc]
  · have hc : x ∈ s.unCo := h
    refine ⟨fun k' => ?_, ?_⟩
    · cases k' <;> simp [stepK_hc, coIdent, hc, IxState.ix]
    · simp [stepK_hc, coIdent, hc]

theorem stepK_miss_hc (k : PK) (s : IxState) (x : String) (h : x ∉ s.un k) : stepK_hc k s x = s := by
  cases k
  · have hc : x ∉ s.unLt := h
    simp [stepK_hc, ltIdent, hc]
  · have hc : x ∉ s.unTy := h
    simp [stepK_hc, tyIdent, hc]
  · have hc : x ∉ s.unCo := h
    simp [stepK_hc, coIdent, hc]

/-- a name indexed by a step in `GForm_hc` is spelled like the current number -/
theorem hit_current_hc {k : PK} {s : IxState} {x : String} (h : x ∈ s.un k) (g : GForm_hc (stepK_hc k s x)) :
    x = genIndexedIdent s.next := by
  have := g k (x, s.next) (by rw [(stepK_hit_hc k s x h).1 k, if_pos rfl]; exact List.mem_append_right _ (by simp))
  exact this

/-- one primitive step keeps the two runs together -/
theorem sim_step_hc {N1 N2 : PK → List String} (k : PK) {s1 s2 : IxState} {x : String} (e : SameIx_hc s1 s2)
    (t1 : Trk_hc N1 s1) (t2 : Trk_hc N2 s2) (h1 : reserved_cr x = true → x ∈ N1 k) (h2 : reserved_cr x = true → x ∈ N2 k)
    (g1 : GForm_hc (stepK_hc k s1 x)) (g2 : GForm_hc (stepK_hc k s2 x)) :
    SameIx_hc (stepK_hc k s1 x) (stepK_hc k s2 x) := by
  by_cases m1 : x ∈ s1.un k <;> by_cases m2 : x ∈ s2.un k
  · obtain ⟨a1, b1⟩ := stepK_hit_hc k s1 x m1
    obtain ⟨a2, b2⟩ := stepK_hit_hc k s2 x m2
    refine ⟨fun k' => ?_, by rw [b1, b2, e.2]⟩
    rw [a1, a2, e.1 k, e.1 k', e.2]
  · exfalso
    have hx := hit_current_hc m1 g1
    rw [stepK_miss_hc k s2 x m2] at g2
    rw [e.2] at hx
    exact m2 (waiting_of_current_hc t2 g2 hx (h2 (by rw [hx]; exact reserved_gen_cr _)))
  · exfalso
    have hx := hit_current_hc m2 g2
    rw [stepK_miss_hc k s1 x m1] at g1
    rw [← e.2] at hx
    exact m1 (waiting_of_current_hc t1 g1 hx (h1 (by rw [hx]; exact reserved_gen_cr _)))
  · rw [stepK_miss_hc k s1 x m1, stepK_miss_hc k s2 x m2]
    exact e

/-- in expression position a name that is a const parameter whenever it is reserved does not hit the type table -/
theorem ex_is_co_hc {N : PK → List String} (hd : ∀ n, n ∈ N .ty → n ∈ N .co → False) {s : IxState} {x : String}
    (tr : Trk_hc N s) (h : reserved_cr x = true → x ∈ N .co) (g : GForm_hc (exIdent s x)) :
    exIdent s x = stepK_hc .co s x := by
  by_cases m : x ∈ s.unTy
  · exfalso
    have e : exIdent s x = stepK_hc .ty s x := by simp [exIdent, stepK_hc, tyIdent, m]
    rw [e] at g
    have hx := hit_current_hc (k := .ty) m g
    exact hd x (tr.sub .ty x m) (h (by rw [hx]; exact reserved_gen_cr _))
  · unfold exIdent
    rw [tyIdent_miss m]
    rfl

theorem sim_ex_hc {N1 N2 : PK → List String} (hd1 : ∀ n, n ∈ N1 .ty → n ∈ N1 .co → False)
    (hd2 : ∀ n, n ∈ N2 .ty → n ∈ N2 .co → False) {s1 s2 : IxState} {x : String} (e : SameIx_hc s1 s2)
    (t1 : Trk_hc N1 s1) (t2 : Trk_hc N2 s2) (h1 : reserved_cr x = true → x ∈ N1 .co) (h2 : reserved_cr x = true → x ∈ N2 .co)
    (g1 : GForm_hc (exIdent s1 x)) (g2 : GForm_hc (exIdent s2 x)) : SameIx_hc (exIdent s1 x) (exIdent s2 x) := by
  have e1 := ex_is_co_hc hd1 t1 h1 g1
  have e2 := ex_is_co_hc hd2 t2 h2 g2
  rw [e1] at g1 ⊢
  rw [e2] at g2 ⊢
  exact sim_step_hc .co e t1 t2 h1 h2 g1 g2

/-- the names of a context per kind, after the renaming -/
def CCtx.img_hc (c : CCtx) : PK → List String
  | .lt => c.imgLt | .ty => c.imgTy | .co => c.imgCo

theorem resIn_mem_hc {names : List String} {n : String} (h : resIn_hc names n = true) (hr : reserved_cr n = true) : n ∈ names := by
  simp only [resIn_hc, Bool.or_eq_true, Bool.not_eq_true', List.contains_iff_mem] at h
  rcases h with h | h
  · rw [hr] at h; cases h
  · exact h

section Sim
variable (c1 c2 : CCtx) (hd1 : ∀ n, n ∈ c1.imgTy → n ∈ c1.imgCo → False) (hd2 : ∀ n, n ∈ c2.imgTy → n ∈ c2.imgCo → False)

/-- the statement of the simulation for one tree -/
def SimAt_hc (t : T) : Prop :=
  alP (strayP_hc c1) t = true → alP (strayP_hc c2) t = true → ∀ s1 s2, SameIx_hc s1 s2 → Trk_hc c1.img_hc s1 → Trk_hc c2.img_hc s2 →
    GForm_hc (ixT s1 t) → GForm_hc (ixT s2 t) → SameIx_hc (ixT s1 t) (ixT s2 t)

theorem sim_ixL_of_hc : ∀ (ks : List T), (∀ t ∈ ks, SimAt_hc c1 c2 t) →
    alPL (strayP_hc c1) ks = true → alPL (strayP_hc c2) ks = true → ∀ s1 s2, SameIx_hc s1 s2 → Trk_hc c1.img_hc s1 →
    Trk_hc c2.img_hc s2 → GForm_hc (ixL s1 ks) → GForm_hc (ixL s2 ks) → SameIx_hc (ixL s1 ks) (ixL s2 ks)
  | [], _, _, _, s1, s2, e, _, _, _, _ => by rw [ixL_nil, ixL_nil]; exact e
  | t :: ts, ih, p1, p2, s1, s2, e, t1, t2, g1, g2 => by
      have p1' := alPL_iff.1 p1
      have p2' := alPL_iff.1 p2
      rw [ixL_cons] at g1 g2 ⊢
      have pre : ∀ s, Pre_hc (ixT s t) (ixL (ixT s t) ts) := fun s => ixL_rel pre_rel_hc ts (fun t' _ => ixT_rel pre_rel_hc t') _
      have e' := ih t (by simp) (p1' t (by simp)) (p2' t (by simp)) s1 s2 e t1 t2 (GForm_of_pre_hc (pre s1) g1)
        (GForm_of_pre_hc (pre s2) g2)
      exact sim_ixL_of_hc ts (fun t' ht' => ih t' (List.mem_cons_of_mem _ ht'))
        (alPL_iff.2 (fun t' ht' => p1' t' (List.mem_cons_of_mem _ ht')))
        (alPL_iff.2 (fun t' ht' => p2' t' (List.mem_cons_of_mem _ ht'))) _ _ e' (t1.ixT t) (t2.ixT t) g1 g2

include hd1 hd2 in
/-- **two runs of the indexer over the same tree stay together** -/
theorem sim_ixT_hc : ∀ t : T, SimAt_hc c1 c2 t := by
  apply T.ind
  · intro n p1 p2 s1 s2 e t1 t2 g1 g2
    rw [alP] at p1 p2
    rw [ixT_tparam] at g1 g2 ⊢
    exact sim_step_hc .ty e t1 t2 (resIn_mem_hc p1) (resIn_mem_hc p2) g1 g2
  · intro n p1 p2 s1 s2 e t1 t2 g1 g2
    rw [alP] at p1 p2
    rw [ixT_eparam] at g1 g2 ⊢
    exact sim_ex_hc hd1 hd2 e t1 t2 (resIn_mem_hc p1) (resIn_mem_hc p2) g1 g2
  · intro k as ks ih p1 p2 s1 s2 e t1 t2 g1 g2
    rcases node_shape k ks with h | ⟨x, rfl, rfl⟩ | ⟨q, p, rfl, rfl⟩ | ⟨a, q, p, rfl, rfl⟩ | h
    · rcases h with rfl | rfl
      · rw [ixT_ign, ixT_ign]; exact e
      · rw [ixT_eq, ixT_eq]; exact e
    · rw [alP] at p1 p2
      rw [ixT_lifetime] at g1 g2 ⊢
      exact sim_step_hc .lt e t1 t2 (resIn_mem_hc p1) (resIn_mem_hc p2) g1 g2
    · obtain ⟨q1, pp1, x1⟩ := alP_typePath_iff.1 p1
      obtain ⟨q2, pp2, x2⟩ := alP_typePath_iff.1 p2
      rw [ixT_typePath] at g1 g2
      rw [ixT_typePath, ixT_typePath]
      have preP : ∀ s, Pre_hc s (ixT s p) := fun s => ixT_rel pre_rel_hc p s
      have gm1 := GForm_of_pre_hc (preP _) g1
      have gm2 := GForm_of_pre_hc (preP _) g2
      cases hf : firstSegIdent p with
      | none =>
        rw [hf] at g1 g2 gm1 gm2
        simp only at g1 g2 gm1 gm2 ⊢
        have eq := ih q (by simp) q1 q2 s1 s2 e t1 t2 gm1 gm2
        exact ih p (by simp) pp1 pp2 _ _ eq (t1.ixT q) (t2.ixT q) g1 g2
      | some x =>
        rw [hf] at g1 g2 gm1 gm2
        simp only at g1 g2 gm1 gm2 ⊢
        have gq1 := GForm_of_pre_hc (pre_rel_hc.ty (ixT s1 q) x) gm1
        have gq2 := GForm_of_pre_hc (pre_rel_hc.ty (ixT s2 q) x) gm2
        have eq := ih q (by simp) q1 q2 s1 s2 e t1 t2 gq1 gq2
        have em := sim_step_hc .ty eq (t1.ixT q) (t2.ixT q) (resIn_mem_hc (x1 x hf)) (resIn_mem_hc (x2 x hf)) gm1 gm2
        exact ih p (by simp) pp1 pp2 _ _ em ((t1.ixT q).ty x) ((t2.ixT q).ty x) g1 g2
    · obtain ⟨_, q1, pp1, x1⟩ := alP_exprPath_iff.1 p1
      obtain ⟨_, q2, pp2, x2⟩ := alP_exprPath_iff.1 p2
      rw [ixT_exprPath] at g1 g2
      rw [ixT_exprPath, ixT_exprPath]
      have preP : ∀ s, Pre_hc s (ixT s p) := fun s => ixT_rel pre_rel_hc p s
      have gm1 := GForm_of_pre_hc (preP _) g1
      have gm2 := GForm_of_pre_hc (preP _) g2
      cases hf : firstSegIdent p with
      | none =>
        rw [hf] at g1 g2 gm1 gm2
        simp only at g1 g2 gm1 gm2 ⊢
        have eq := ih q (by simp) q1 q2 s1 s2 e t1 t2 gm1 gm2
        exact ih p (by simp) pp1 pp2 _ _ eq (t1.ixT q) (t2.ixT q) g1 g2
      | some x =>
        rw [hf] at g1 g2 gm1 gm2
        simp only at g1 g2 gm1 gm2 ⊢
        have gq1 := GForm_of_pre_hc (pre_rel_hc.ex (ixT s1 q) x) gm1
        have gq2 := GForm_of_pre_hc (pre_rel_hc.ex (ixT s2 q) x) gm2
        have eq := ih q (by simp) q1 q2 s1 s2 e t1 t2 gq1 gq2
        have em := sim_ex_hc hd1 hd2 eq (t1.ixT q) (t2.ixT q) (resIn_mem_hc (x1 x hf)) (resIn_mem_hc (x2 x hf)) gm1 gm2
        exact ih p (by simp) pp1 pp2 _ _ em ((t1.ixT q).ex x) ((t2.ixT q).ex x) g1 g2
    · by_cases hg : k = "Generics"
      · subst hg
        rw [ixT_generics, ixT_generics]; exact e
      · rw [alP_of_other _ as h] at p1 p2
        rw [ixT_of_other _ as h hg] at g1 g2
        rw [ixT_of_other _ as h hg, ixT_of_other _ as h hg]
        exact sim_ixL_of_hc c1 c2 ks ih p1 p2 s1 s2 e t1 t2 g1 g2

end Sim

/-! ### The two runs over the canonical header -/

theorem rsOK_hdrOf_hc (c : CCtx) (tr s : Option T) (h1 : ∀ p, tr = some p → rsOK c p = true)
    (h2 : ∀ p, s = some p → rsOK c p = true) : rsOK c (hdrOf_hc tr s) = true := by
  unfold hdrOf_hc
  rw [rsOK_node c _ _ (by decide) (by decide) (by decide) (by decide) (by decide), rsOKL_cons, rsOKL_cons, rsOKL_nil,
    Bool.and_true, Bool.and_eq_true]
  constructor
  · cases tr with
    | none => exact (rsOK_node c _ _ (by decide) (by decide) (by decide) (by decide) (by decide)).trans (rsOKL_nil c)
    | some p =>
      show rsOK c (.node "Some" [] [p]) = true
      rw [rsOK_node c _ _ (by decide) (by decide) (by decide) (by decide) (by decide), rsOKL_cons, rsOKL_nil, Bool.and_true]
      exact h1 p rfl
  · cases s with
    | none => exact (rsOK_node c _ _ (by decide) (by decide) (by decide) (by decide) (by decide)).trans (rsOKL_nil c)
    | some p => exact h2 p rfl

/-- the tree clause of `canonWF` holds for the header -/
theorem rsOK_mkHdr_hc (c : CCtx) (item : T) (h : rsOK c item = true) : rsOK c (mkHdr item) = true := by
  rw [mkHdr_eq_hc]
  by_cases hi : IsImpl_hc item
  · obtain ⟨a, d, u, g, tr, s, items, rfl⟩ := hi
    rw [rsOK_node c _ _ (by decide) (by decide) (by decide) (by decide) (by decide)] at h
    have hk := rsOKL_iff.1 h
    apply rsOK_hdrOf_hc
    · intro p hp
      rw [implTraitPath_impl_hc] at hp
      obtain ⟨b, rfl⟩ := trPathOf_some_hc hp
      have h1 : rsOK c (.node "Some" [] [.node "Tuple" [] [b, p]]) = true := hk _ (by simp)
      rw [rsOK_node c _ _ (by decide) (by decide) (by decide) (by decide) (by decide), rsOKL_cons, rsOKL_nil, Bool.and_true,
        rsOK_node c _ _ (by decide) (by decide) (by decide) (by decide) (by decide)] at h1
      exact rsOKL_iff.1 h1 p (by simp)
    · intro p hp
      cases hp
      exact hk _ (by simp)
  · rw [implSelfTy_none_hc hi, implTraitPath_none_hc hi]
    exact rsOK_hdrOf_hc c none none (fun _ h => by cases h) (fun _ h => by cases h)

theorem mapS_ix_hc (r : Renaming) (s : IxState) (k : PK) :
    (mapS r s).ix k = (s.ix k).map (fun p => (rn (r.m k) p.1, p.2)) := by
  cases k <;> rfl

theorem mapS_un_init_hc (item : T) (k : PK) :
    (mapS (indexImpl item).renaming (ixInit item)).un k = (canonCtx item).img_hc k := by
  cases k <;> rfl

/-- indexing the canonical header from the renamed start state gives the renamed state of the header -/
theorem hdr_run_hc (item : T) (hwf : canonWF item = true) :
    ixT (mapS (indexImpl item).renaming (ixInit item)) (mkHdr (canon item)) = mapS (indexImpl item).renaming (hdrIx_hc item) := by
  obtain ⟨_, hd, hdf, hrs⟩ := canonWF_parts_hc hwf
  rw [mkHdr_canon_hc]
  exact ixT_comm (canonCtx item) (canon_stat item hd hdf) (mkHdr item) (rsOK_mkHdr_hc _ item hrs) (ixInit item) (un_init_hc item)

/-- every name of the renamed header state is spelled like its number -/
theorem hdr_gform_hc (item : T) (hwf : canonWF item = true) (hf : hdrFirst_hc item = true) :
    GForm_hc (mapS (indexImpl item).renaming (hdrIx_hc item)) := by
  obtain ⟨_, hd, _, _⟩ := canonWF_parts_hc hwf
  intro k p hp
  rw [mapS_ix_hc] at hp
  obtain ⟨⟨x, i⟩, hxi, rfl⟩ := List.mem_map.1 hp
  simp only
  obtain ⟨l, e⟩ := hdr_rel_hc pre_rel_hc item hf k
  have hm : (x, genIndexedIdent i) ∈ (canonCtx item).m k := by
    rw [canonCtx_m, e]
    exact List.mem_map.2 ⟨(x, i), List.mem_append_left _ hxi, rfl⟩
  have hl := rlookup_of_mem_nodup (canonWF_keys_nodup_all_rt item hd k) hm
  have e2 : (indexImpl item).renaming.m k = (canonCtx item).m k := by cases k <;> rfl
  unfold rn
  rw [e2, hl]
  rfl

theorem img_disjoint_hc {c : CCtx} (st : Stat c) : ∀ n, n ∈ c.imgTy → n ∈ c.imgCo → False := by
  intro n h1 h2
  obtain ⟨y, hy, e1⟩ := List.mem_map.1 h1
  obtain ⟨x, hx, e2⟩ := List.mem_map.1 h2
  have e : c.ρ .ty y = c.ρ .co x := e1.trans e2.symm
  have := st.inj .ty .co rfl y x hy hx e
  subst this
  cases st.disj .ty .co rfl y hy hx

theorem trk_init_hc (item : T) :
    Trk_hc (canonCtx item).img_hc (mapS (indexImpl item).renaming (ixInit item)) := by
  refine ⟨fun k n hn => ?_, fun k n hn => Or.inl ?_⟩
  · rw [mapS_un_init_hc] at hn; exact hn
  · rw [mapS_un_init_hc]; exact hn

theorem renaming_m_snd_hc (s : IxState) (k : PK) :
    (s.renaming.m k).map Prod.snd = ((s.ix k).map Prod.snd).map genIndexedIdent := by
  rw [renaming_m, List.map_map, List.map_map]
  rfl

/-- **equal canonical headers were handed the same names**, per name space, in the order of the numbering -/
theorem hdr_names_hc (item item' : T) (hwf : canonWF item = true) (hwf' : canonWF item' = true)
    (hf : hdrFirst_hc item = true) (hf' : hdrFirst_hc item' = true) (hs : strayFree_hc item = true)
    (hs' : strayFree_hc item' = true) (e : mkHdr (canon item) = mkHdr (canon item')) (k : PK) :
    ((hdrRenaming_hc item').m k).map Prod.snd = ((hdrRenaming_hc item).m k).map Prod.snd := by
  obtain ⟨_, hd, hdf, _⟩ := canonWF_parts_hc hwf
  obtain ⟨_, hd', hdf', _⟩ := canonWF_parts_hc hwf'
  have st := canon_stat item hd hdf
  have st' := canon_stat item' hd' hdf'
  have r1 := hdr_run_hc item hwf
  have r2 := hdr_run_hc item' hwf'
  rw [← e] at r2
  unfold strayFree_hc at hs hs'
  rw [← e] at hs'
  have sim := sim_ixT_hc (canonCtx item) (canonCtx item') (img_disjoint_hc st) (img_disjoint_hc st') (mkHdr (canon item)) hs hs'
    (mapS (indexImpl item).renaming (ixInit item)) (mapS (indexImpl item').renaming (ixInit item'))
    ⟨fun k => by cases k <;> rfl, rfl⟩ (trk_init_hc item) (trk_init_hc item')
    (by rw [r1]; exact hdr_gform_hc item hwf hf) (by rw [r2]; exact hdr_gform_hc item' hwf' hf')
  rw [r1, r2] at sim
  have ek := congrArg (List.map Prod.snd) (sim.1 k)
  rw [mapS_ix_hc, mapS_ix_hc, List.map_map, List.map_map] at ek
  unfold hdrRenaming_hc
  rw [renaming_m_snd_hc, renaming_m_snd_hc]
  exact congrArg (List.map genIndexedIdent) ek.symm

/-! ### The header-level converse -/

theorem invOK_of_idxInv_hc (s : IxState) (h : IdxInv s) : InvOK_rt s.renaming := by
  have hr := renaming_new_names s
  have hn : ((s.renaming.lt ++ s.renaming.ty ++ s.renaming.co).map Prod.snd).Nodup := by
    rw [hr]
    exact List.Pairwise.map genIndexedIdent (fun a b hab e => hab (genIndexedIdent_inj e)) h.1
  rw [List.append_assoc, List.map_append, List.nodup_append] at hn
  exact ⟨renaming_reservedTargets_cr _, hn.1, hn.2.1⟩

theorem hdr_invOK_hc (item : T) : InvOK_rt (hdrRenaming_hc item) := by
  apply invOK_of_idxInv_hc
  apply ixT_rel idxInv_rel (mkHdr item) (ixInit item)
  refine ⟨?_, ?_, ?_⟩
  · simp [IxState.idxs, ixInit]
  · intro i; simp [IxState.idxs, ixInit]
  · simp [IxState.idxs, ixInit]

theorem hdrConverseOK_parts_hc {item : T} (h : hdrConverseOK_hc item = true) :
    canonWF item = true ∧ hdrFirst_hc item = true ∧ ixVis (mkHdr item) = true ∧ hdrShapeOK_hc item = true ∧
    strayFree_hc item = true := by
  simp only [hdrConverseOK_hc, Bool.and_eq_true] at h
  exact ⟨h.1.1.1.1, h.1.1.1.2, h.1.1.2, h.1.2, h.2⟩

/-- **equal canonical headers come only from headers that are textual renamings of each other**, by the computed renaming
    `rH ; rH'⁻¹` of the two headers -/
theorem same_header_only_if_renaming_hc (item item' : T) (h : hdrConverseOK_hc item = true)
    (h' : hdrConverseOK_hc item' = true) (e : mkHdr (canon item) = mkHdr (canon item')) :
    acT_cr (hdrRenamingBetween_hc item item') (mkHdr item) = mkHdr item' := by
  obtain ⟨hwf, hf, hv, hsh, hs⟩ := hdrConverseOK_parts_hc h
  obtain ⟨hwf', hf', hv', hsh', hs'⟩ := hdrConverseOK_parts_hc h'
  have hn := hdr_names_hc item item' hwf hwf' hf hf' hs hs' e
  simp only [hdrShapeOK_hc, Bool.and_eq_true] at hsh hsh'
  rw [mkHdr_canon_local_hc item hwf hf hv, mkHdr_canon_local_hc item' hwf' hf' hv'] at e
  exact same_resolved_only_if_renaming_rt (hdr_invOK_hc item) (hdr_invOK_hc item') (hn .lt) (hn .ty) (hn .co) _ _
    hsh.1.1.1 hsh'.1.1.1 hsh.1.1.2 hsh'.1.1.2 hsh.1.2 hsh'.1.2 hsh'.2 e

theorem acT_hdrOf_hc (π : Renaming) (tr s : Option T) :
    acT_cr π (hdrOf_hc tr s) = hdrOf_hc (tr.map (acT_cr π)) (s.map (acT_cr π)) := by
  unfold hdrOf_hc
  rw [acT_other_cr π _ _ (by decide) (by decide) (by decide) (by decide) (by decide), acL_cons_cr, acL_cons_cr, acL_nil_cr]
  congr 2
  · cases tr with
    | none => exact acT_leaf_cr π _ (by decide) (by decide) (by decide) (by decide) (by decide)
    | some p =>
      show acT_cr π (.node "Some" [] [p]) = _
      rw [acT_other_cr π _ _ (by decide) (by decide) (by decide) (by decide) (by decide), acL_cons_cr, acL_nil_cr]
      rfl
  · congr 1
    cases s with
    | none => exact acT_leaf_cr π _ (by decide) (by decide) (by decide) (by decide) (by decide)
    | some p => rfl

theorem implSelfTy_isSome_hc {item : T} (h : implDeclsOK item = true) : ∃ s, implSelfTy item = some s := by
  obtain ⟨a, d, u, lt0, ps, gt0, wc, tr, sf, items, rfl, _⟩ := implDeclsOK_inv h
  exact ⟨sf, rfl⟩

/-- … for the trait path and the self type separately -/
theorem same_header_parts_hc (item item' : T) (h : hdrConverseOK_hc item = true)
    (h' : hdrConverseOK_hc item' = true) (e : mkHdr (canon item) = mkHdr (canon item')) :
    (implTraitPath item).map (acT_cr (hdrRenamingBetween_hc item item')) = implTraitPath item' ∧
    (implSelfTy item).map (acT_cr (hdrRenamingBetween_hc item item')) = implSelfTy item' := by
  have key := same_header_only_if_renaming_hc item item' h h' e
  obtain ⟨s, hs⟩ := implSelfTy_isSome_hc (canonWF_parts_hc (hdrConverseOK_parts_hc h).1).1
  obtain ⟨s', hs'⟩ := implSelfTy_isSome_hc (canonWF_parts_hc (hdrConverseOK_parts_hc h').1).1
  rw [mkHdr_eq_hc item, acT_hdrOf_hc, mkHdr_eq_hc item', hs, hs'] at key
  rw [hs, hs']
  unfold hdrOf_hc at key
  cases h1 : implTraitPath item <;> cases h2 : implTraitPath item' <;> rw [h1, h2] at key <;> simp at key ⊢
  · exact key
  · exact key

end DI
