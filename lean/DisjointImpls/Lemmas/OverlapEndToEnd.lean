/-
  C04 end to end: from the grouping the model computes (`parseGroups`) to "the expansion is ground-incoherent".

  `IncoherentAt W sp groups q`: in the program generated from `groups`, two helper impls of ONE helper trait apply to
  the same helper reference, or two main impls (of the user's trait) apply to the same ground reference `q` — what
  rustc's coherence check (E0119) rejects (trusted fact (b), DESIGN §10).

  `blocks_placed`: two input blocks with different canonical texts are two members at DIFFERENT positions of one
  family, or members of families at DIFFERENT positions of the grouping (from the partition theorems). Textually
  identical blocks (finding D12) collapse into ONE member (`mkBuckets` replaces the earlier one), which is why the
  canonical texts have to differ.
-/
import DisjointImpls.Lemmas.EndToEnd
import DisjointImpls.Lemmas.EndToEndNested
namespace DI

/-- the expansion of `groups` is ground-incoherent at `q`: two members at different positions of one family whose
    helper impls both apply to `q` with the same helper arguments `gs` (two impls of one helper trait for one
    reference), or two families at different positions of the grouping whose main impls both apply to `q` (two impls
    of the user's trait for one reference) -/
def IncoherentAt (W : World) (sp : List String) (groups : Groups) (q : T) : Prop :=
  (∃ e ∈ groups, ∃ (i j : Nat) (hi : i < (familyOfGroup sp e).members.length)
      (hj : j < (familyOfGroup sp e).members.length), i ≠ j ∧
      ∃ gs, helperApplies W (familyOfGroup sp e) ((familyOfGroup sp e).members[i]) q gs ∧
            helperApplies W (familyOfGroup sp e) ((familyOfGroup sp e).members[j]) q gs) ∨
  (∃ (i j : Nat) (hi : i < groups.length) (hj : j < groups.length), i ≠ j ∧
      ∃ m1 ∈ (familyOfGroup sp groups[i]).members, ∃ m2 ∈ (familyOfGroup sp groups[j]).members,
        genSel W (familyOfGroup sp groups[i]) m1 q ∧ genSel W (familyOfGroup sp groups[j]) m2 q)

/-- where two blocks were placed: two different positions of one family, or two different families -/
def PlacedApart (sp : List String) (groups : Groups) (b1 b2 : Block) : Prop :=
  (∃ e ∈ groups, ∃ (i j : Nat) (hi : i < (familyOfGroup sp e).members.length)
      (hj : j < (familyOfGroup sp e).members.length), i ≠ j ∧
      ((familyOfGroup sp e).members[i]).blk = b1 ∧ ((familyOfGroup sp e).members[j]).blk = b2) ∨
  (∃ (i j : Nat) (hi : i < groups.length) (hj : j < groups.length), i ≠ j ∧
      ∃ m1 ∈ (familyOfGroup sp groups[i]).members, ∃ m2 ∈ (familyOfGroup sp groups[j]).members,
        m1.blk = b1 ∧ m2.blk = b2)

/-- the abstraction of a group of an accepted grouping has one member per member block -/
theorem familyOfGroup_members_length {items : List T} {groups : Groups} (h : parseGroups items = .ok groups)
    (sp : List String) {e : T × ABG × List Blk} (he : e ∈ groups) :
    (familyOfGroup sp e).members.length = e.2.2.length := by
  have hown := parseGroups_rowsOwn h he
  obtain ⟨_, _, _, hne, _⟩ := parseGroups_group' h he (rowsAligned_inv _)
  have hpl : e.2.1.payloads.length = e.2.2.length := payloads_len hne (fun kr hkr => (hown.2.2 kr hkr).1)
  simp only [familyOfGroup, List.length_map, List.length_zip, hpl, Nat.min_self]

/-- the `i`-th member of the abstraction is built from the `i`-th member block -/
theorem familyOfGroup_member_blk (sp : List String) (e : T × ABG × List Blk) {i : Nat}
    (hi : i < (familyOfGroup sp e).members.length) (hi' : i < e.2.2.length) :
    ((familyOfGroup sp e).members[i]).blk = mkBlock (e.2.2[i]).item := by
  simp only [familyOfGroup, List.getElem_map, List.getElem_zip, memberOfGroup]

theorem mkBlk_item (it : T) : (mkBlk it).item = canon it := rfl

/-- PLACEMENT: in an accepted grouping in which every bucket block is placed (the partition theorems), two input blocks
    with different canonical texts are members at different positions of one family or members of two families at
    different positions of the grouping -/
theorem blocks_placed {items : List T} {groups : Groups} (h : parseGroups items = .ok groups) (sp : List String)
    (hperm : (groups.flatMap (fun e => e.2.2)).Perm ((mkBuckets (items.map mkBlk)).flatMap (fun bk => bk.2)))
    {it1 it2 : T} (h1 : it1 ∈ items) (h2 : it2 ∈ items) (hne : canon it1 ≠ canon it2) :
    PlacedApart sp groups (mkBlock (canon it1)) (mkBlock (canon it2)) := by
  have place : ∀ it ∈ items, ∃ e ∈ groups, mkBlk it ∈ e.2.2 := by
    intro it hit
    have hbin : mkBlk it ∈ items.map mkBlk := List.mem_map.2 ⟨it, hit, rfl⟩
    obtain ⟨bk, hbk, hbbk⟩ := mkBuckets_holds_input items (mkBlk it) hbin
    have hmem : mkBlk it ∈ groups.flatMap (fun e => e.2.2) :=
      hperm.mem_iff.2 (List.mem_flatMap.2 ⟨bk, hbk, hbbk⟩)
    exact List.mem_flatMap.1 hmem
  obtain ⟨e1, he1, hb1⟩ := place it1 h1
  obtain ⟨e2, he2, hb2⟩ := place it2 h2
  obtain ⟨g1, hg1, rfl⟩ := List.mem_iff_getElem.1 he1
  obtain ⟨g2, hg2, rfl⟩ := List.mem_iff_getElem.1 he2
  by_cases hg : g1 = g2
  · subst hg
    left
    obtain ⟨i, hi, hbi⟩ := List.mem_iff_getElem.1 hb1
    obtain ⟨j, hj, hbj⟩ := List.mem_iff_getElem.1 hb2
    have hlen := familyOfGroup_members_length h sp he1
    refine ⟨groups[g1], he1, i, j, by omega, by omega, ?_, ?_, ?_⟩
    · intro hij
      subst hij
      rw [hbi] at hbj
      exact hne (by rw [← mkBlk_item it1, ← mkBlk_item it2, hbj])
    · rw [familyOfGroup_member_blk sp _ (by omega) hi, hbi, mkBlk_item]
    · rw [familyOfGroup_member_blk sp _ (by omega) hj, hbj, mkBlk_item]
  · right
    obtain ⟨m1, hm1, hblk1⟩ := familyOfGroup_has_member h sp he1 hb1
    obtain ⟨m2, hm2, hblk2⟩ := familyOfGroup_has_member h sp he2 hb2
    exact ⟨g1, g2, hg1, hg2, hg, m1, hm1, m2, hm2, by rw [hblk1, mkBlk_item], by rw [hblk2, mkBlk_item]⟩

/-- a grouping with at most one family that has at most one member is never ground-incoherent -/
theorem not_incoherent_of_single {W : World} {sp : List String} {groups : Groups} {q : T}
    (hg : groups.length ≤ 1) (hm : ∀ e ∈ groups, (familyOfGroup sp e).members.length ≤ 1) :
    ¬ IncoherentAt W sp groups q := by
  rintro (⟨e, he, i, j, hi, hj, hij, _⟩ | ⟨i, j, hi, hj, hij, _⟩)
  · have := hm e he
    omega
  · omega

/-- executable sufficient check for `KeysOverHeader` in terms of the checks of the coverage theorems: no expression
    parameter in the header or the keys, and every parameter of a key occurs in the header -/
def keysOverHeaderSimpleB (F : Family) : Bool :=
  noEParams F.hdr && F.keys.all (fun k => noEParams k.bounded && noEParams k.tr &&
    (allParams k.bounded).all (fun n => (allParams F.hdr).contains n) &&
    (allParams k.tr).all (fun n => (allParams F.hdr).contains n))

theorem keysOverHeaderB_of_simple {F : Family} (h : keysOverHeaderSimpleB F = true) : keysOverHeaderB F = true := by
  rw [keysOverHeaderB_iff]
  simp only [keysOverHeaderSimpleB, Bool.and_eq_true, List.all_eq_true, List.contains_iff_mem] at h
  exact keysOverHeader_of_noEParams F h.1 (fun k hk =>
    ⟨(h.2 k hk).1.2, (h.2 k hk).2, (h.2 k hk).1.1.1, (h.2 k hk).1.1.2⟩)

end DI
