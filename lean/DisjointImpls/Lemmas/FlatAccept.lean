/-
  Acceptance of the documented fragment for arbitrary invocations without nested headers (C03).

  `Lemmas/FlatOrder.lean` characterises the candidate filter on the single candidate of a flat bucket through
  membership (`accB_famSpec_iff`). Here that characterisation is turned into EXECUTABLE, order-free conditions on the
  blocks of a bucket:

  * `separatedB blks` — exact: some column (a key every block bounds, with a binding in some block) exists, and for
    every ordered pair of different blocks `(bi, bj)` the row of `bi` does not generalise the row of `bj` on the
    shared columns (`genPair_fa`); `accOK_eq_separatedB`: `accOK blks = separatedB blks`.
  * `distinguishedB blks` — sufficient, the "documented fragment": every two different blocks bind the same
    associated type under a key every block bounds to payloads of which neither generalises the other
    (`separatedB_of_distinguishedB`).

  Then: acceptance / rejection of `parseGroups` on flat invocations in terms of these conditions
  (`flat_ok_iff_separated_fa`, `flat_rejects_fa`, `flat_rejects_first_fa`, `flat_groups_shape_fa`); an exact positive
  answer of the matcher is a unifier, hence non-unifiable payloads are distinguished (`unifiable_of_sup_fa`,
  `sepCell_of_not_unifiable_fa`, `distinguishedB_of_nonunifiable_fa`), with executable sufficient conditions for
  non-unifiability (`not_unifiable_of_closed_fa`, `clash_fa` / `not_unifiable_of_clash_fa`); the conditions only depend
  on the set of blocks (`distinguishedB_mem_congr_fa`, `separatedB_mem_congr_fa`).
-/
import DisjointImpls.Lemmas.FlatOrder
namespace DI

/-! ### the executable conditions -/

/-- the two blocks bind the associated type `kx.2` under the key `kx.1` to payloads of which neither generalises the
    other (what `is_superset` tests; non-unifiable payloads satisfy it) -/
def sepCell_fa (bi bj : Blk) (kx : BKey × String) : Bool :=
  match cell bi kx, cell bj kx with
  | some p, some q => !supYes p q && !supYes q p
  | _, _ => false

/-- some key of `bi` that every block of the bucket bounds carries an associated type that `bi` and `bj` bind to
    payloads of which neither generalises the other -/
def distPair_fa (blks : List Blk) (bi bj : Blk) : Bool :=
  (otherFold bi).any (fun e => hasKey blks e.1 && e.2.any (fun xp => sepCell_fa bi bj (e.1, xp.1)))

/-- some key that every block of the bucket bounds has a binding in some block (for two or more blocks this follows
    from the pair condition, `hasColumn_of_distPair_fa`) -/
def hasColumn_fa (blks : List Blk) : Bool :=
  blks.any (fun b => (otherFold b).any (fun e => hasKey blks e.1 && !e.2.isEmpty))

/-- every ordered pair of different blocks satisfies `distPair_fa` -/
def distPairs_fa (blks : List Blk) : Bool :=
  blks.all (fun bi => blks.all (fun bj => bi == bj || distPair_fa blks bi bj))

/-- **the documented fragment, per bucket**: the blocks pairwise differ by bindings of a shared associated type of
    which neither generalises the other, under a key that every block of the bucket bounds (and a lone block has at
    least one binding) -/
def distinguishedB (blks : List Blk) : Bool := hasColumn_fa blks && distPairs_fa blks

/-- the row of `bi` generalises the row of `bj` on all columns the family keeps: under every key of `bi` that every
    block bounds, every associated type bound by `bi` is bound by `bj` to a payload that `bi`'s payload generalises -/
def genPair_fa (blks : List Blk) (bi bj : Blk) : Bool :=
  (otherFold bi).all (fun e => !hasKey blks e.1 || e.2.all (fun xp => genCell (cell bi (e.1, xp.1)) (cell bj (e.1, xp.1))))

/-- **exact, order-free form of the candidate filter on one bucket**: a column exists and no row generalises another -/
def separatedB (blks : List Blk) : Bool :=
  hasColumn_fa blks && blks.all (fun bi => blks.all (fun bj => bi == bj || !genPair_fa blks bi bj))

/-! ### rows and cells -/

theorem rowLookup_isSome_iff_fa : ∀ (r : Row) (x : String), (rowLookup r x).isSome = true ↔ x ∈ r.map (·.1)
  | [], x => by simp [rowLookup]
  | (y, p) :: rest, x => by
      simp only [rowLookup, List.map_cons, List.mem_cons]
      by_cases h : (y == x) = true
      · simp only [h, if_true, Option.isSome_some, true_iff]
        exact Or.inl (eq_of_beq h).symm
      · simp only [h, Bool.false_eq_true, if_false, rowLookup_isSome_iff_fa rest x]
        constructor
        · exact Or.inr
        · rintro (e | e)
          · exact absurd (by rw [e]; exact beq_self_eq_true _) h
          · exact e

theorem cell_isSome_iff_fa (b : Blk) (kx : BKey × String) :
    (cell b kx).isSome = true ↔ kx.2 ∈ (rowD b kx.1).map (·.1) :=
  rowLookup_isSome_iff_fa _ _

/-- the row of a block under one of its own keys is the folded row stored with that key -/
theorem rowD_self_fa {b : Blk} (hb : wfBlk b = true) {e : BKey × Row} (he : e ∈ otherFold b) : rowD b e.1 = e.2 := by
  unfold rowD; rw [rowOf_self hb he]; rfl

/-- a key every block bounds is, up to spelling, a key of any given block of the bucket -/
theorem hasKey_own_key_fa {blks : List Blk} (hw : ∀ b ∈ blks, wfBlk b = true) {k : BKey} (hk : WfKey k)
    (hkey : hasKey blks k = true) {b : Blk} (hb : b ∈ blks) :
    ∃ e ∈ otherFold b, WfKey e.1 ∧ nk e.1 = nk k ∧ hasKey blks e.1 = true ∧ e.2 = rowD b k := by
  have hsome := hasKey_iff.1 hkey b hb
  unfold rowOf at hsome
  cases hf : findKey (otherFold b) k with
  | none => rw [hf] at hsome; cases hsome
  | some r =>
    obtain ⟨k', hmem, hke⟩ := findKey_some_mem hf
    have hwk' : WfKey k' := wfBlk_key (hw b hb) hmem
    have hn : nk k' = nk k := (keyEq_iff hwk' hk).1 hke
    refine ⟨(k', r), hmem, hwk', hn, ?_, ?_⟩
    · show hasKey blks k' = true
      rw [hasKey_congr hw hwk' hk hn]; exact hkey
    · show r = rowD b k
      unfold rowD rowOf; rw [hf]; rfl

/-! ### the columns of the family, seen from any block of the bucket -/

theorem famIdents_any_fa {blks : List Blk} (hw : ∀ b ∈ blks, wfBlk b = true) {l l' : Blk} (hl : l ∈ blks) (hl' : l' ∈ blks) :
    ∀ kx ∈ famIdents blks l, ∃ kx' ∈ famIdents blks l', WfKey kx.1 ∧ WfKey kx'.1 ∧ nk kx.1 = nk kx'.1 ∧ kx.2 = kx'.2 :=
  famIdents_corr (fun _ => Iff.rfl) hw hl hl'

theorem cell_transfer_fa {b : Blk} (hb : wfBlk b = true) {kx kx' : BKey × String} (h1 : WfKey kx.1) (h2 : WfKey kx'.1)
    (h3 : nk kx.1 = nk kx'.1) (h4 : kx.2 = kx'.2) : cell b kx = cell b kx' := by
  obtain ⟨k, x⟩ := kx
  obtain ⟨k', x'⟩ := kx'
  simp only at h4
  subst h4
  exact cell_congr hb h1 h2 h3 x

/-- "row `b` generalises row `b'` in every column" does not depend on the block whose spelling of the keys is used -/
theorem genAll_any_fa {blks : List Blk} (hw : ∀ b ∈ blks, wfBlk b = true) {l l' : Blk} (hl : l ∈ blks) (hl' : l' ∈ blks)
    {b b' : Blk} (hb : b ∈ blks) (hb' : b' ∈ blks)
    (h : ∀ kx ∈ famIdents blks l, genCell (cell b kx) (cell b' kx) = true) :
    ∀ kx ∈ famIdents blks l', genCell (cell b kx) (cell b' kx) = true := by
  intro kx hkx
  obtain ⟨kx', hkx', h1, h2, h3, h4⟩ := famIdents_any_fa hw hl' hl kx hkx
  rw [cell_transfer_fa (hw b hb) h1 h2 h3 h4, cell_transfer_fa (hw b' hb') h1 h2 h3 h4]
  exact h kx' hkx'

theorem hasColumn_iff_fa {blks : List Blk} :
    hasColumn_fa blks = true ↔ ∃ b ∈ blks, ∃ e ∈ otherFold b, hasKey blks e.1 = true ∧ e.2 ≠ [] := by
  simp only [hasColumn_fa, List.any_eq_true, Bool.and_eq_true, Bool.not_eq_true', List.isEmpty_eq_false_iff]

/-- a column exists iff the pruned family is not empty -/
theorem famIdents_ne_nil_iff_fa {blks : List Blk} (hw : ∀ b ∈ blks, wfBlk b = true) {l : Blk} (hl : l ∈ blks) :
    famIdents blks l ≠ [] ↔ hasColumn_fa blks = true := by
  rw [hasColumn_iff_fa]
  constructor
  · intro hne
    obtain ⟨kx, hkx⟩ := List.exists_mem_of_ne_nil _ hne
    obtain ⟨⟨e0, he0, hk⟩, hkey, b, hb, hx⟩ := mem_famIdents.1 hkx
    have hwk : WfKey kx.1 := hk ▸ wfBlk_key (hw l hl) he0
    obtain ⟨e, he, _, _, hkey', hrow⟩ := hasKey_own_key_fa hw hwk hkey hb
    refine ⟨b, hb, e, he, hkey', ?_⟩
    rw [hrow]
    intro h0
    rw [h0] at hx
    cases hx
  · rintro ⟨b, hb, e, he, hkey, hne⟩
    obtain ⟨xp, hxp⟩ := List.exists_mem_of_ne_nil _ hne
    have hmem : (e.1, xp.1) ∈ famIdents blks b :=
      mem_famIdents.2 ⟨⟨e, he, rfl⟩, hkey, b, hb, by
        show xp.1 ∈ (rowD b e.1).map (·.1)
        rw [rowD_self_fa (hw b hb) he]; exact List.mem_map.2 ⟨xp, hxp, rfl⟩⟩
    obtain ⟨kx', hkx', _⟩ := famIdents_any_fa hw hb hl _ hmem
    exact List.ne_nil_of_mem hkx'

theorem genPair_iff_fa {blks : List Blk} {bi bj : Blk} :
    genPair_fa blks bi bj = true ↔ ∀ e ∈ otherFold bi, hasKey blks e.1 = true → ∀ xp ∈ e.2,
      genCell (cell bi (e.1, xp.1)) (cell bj (e.1, xp.1)) = true := by
  simp only [genPair_fa, List.all_eq_true, Bool.or_eq_true, Bool.not_eq_true']
  constructor
  · intro h e he hk xp hxp
    rcases h e he with h1 | h1
    · rw [hk] at h1; cases h1
    · exact h1 xp hxp
  · intro h e he
    by_cases hk : hasKey blks e.1 = true
    · exact Or.inr (h e he hk)
    · exact Or.inl (by simpa using hk)

/-- `genPair_fa` is "the row of `bi` generalises the row of `bj` in every column of the family" -/
theorem genAll_iff_genPair_fa {blks : List Blk} (hw : ∀ b ∈ blks, wfBlk b = true) {l : Blk} (hl : l ∈ blks)
    {bi bj : Blk} (hbi : bi ∈ blks) (hbj : bj ∈ blks) :
    (∀ kx ∈ famIdents blks l, genCell (cell bi kx) (cell bj kx) = true) ↔ genPair_fa blks bi bj = true := by
  rw [genPair_iff_fa]
  constructor
  · intro h e he hkey xp hxp
    apply genAll_any_fa hw hl hbi hbi hbj h
    exact mem_famIdents.2 ⟨⟨e, he, rfl⟩, hkey, bi, hbi, by
      show xp.1 ∈ (rowD bi e.1).map (·.1)
      rw [rowD_self_fa (hw bi hbi) he]; exact List.mem_map.2 ⟨xp, hxp, rfl⟩⟩
  · intro h
    apply genAll_any_fa hw hbi hl hbi hbj
    intro kx hkx
    obtain ⟨⟨e0, he0, hk⟩, hkey, _⟩ := mem_famIdents.1 hkx
    cases hc : cell bi kx with
    | none => rfl
    | some p =>
      have hin : kx.2 ∈ (rowD bi kx.1).map (·.1) := (cell_isSome_iff_fa bi kx).1 (by rw [hc]; rfl)
      rw [← hk, rowD_self_fa (hw bi hbi) he0] at hin
      obtain ⟨xp, hxp, hx⟩ := List.mem_map.1 hin
      have := h e0 he0 (by rw [hk]; exact hkey) xp hxp
      have hkx : (e0.1, xp.1) = kx := Prod.ext hk hx
      rw [hkx, hc] at this
      exact this

/-! ### the candidate filter, executable and order-free -/

theorem separatedB_iff_fa {blks : List Blk} :
    separatedB blks = true ↔ hasColumn_fa blks = true ∧
      ¬ ∃ b ∈ blks, ∃ b' ∈ blks, b ≠ b' ∧ genPair_fa blks b b' = true := by
  simp only [separatedB, Bool.and_eq_true, List.all_eq_true, Bool.or_eq_true, beq_iff_eq, Bool.not_eq_true']
  constructor
  · rintro ⟨h1, h2⟩
    refine ⟨h1, ?_⟩
    rintro ⟨b, hb, b', hb', hne, hg⟩
    rcases h2 b hb b' hb' with h | h
    · exact hne h
    · rw [hg] at h; cases h
  · rintro ⟨h1, h2⟩
    refine ⟨h1, fun b hb b' hb' => ?_⟩
    by_cases he : b = b'
    · exact Or.inl he
    · right
      cases hg : genPair_fa blks b b' with
      | false => rfl
      | true => exact absurd ⟨b, hb, b', hb', he, hg⟩ h2

/-- **the candidate filter on a bucket, as an executable order-free condition on its blocks** -/
theorem accOK_eq_separatedB {blks : List Blk} (hne : blks ≠ []) (hw : ∀ b ∈ blks, wfBlk b = true) (hnd : blks.Nodup) :
    accOK blks = separatedB blks := by
  obtain ⟨l, hl, hspec, _⟩ := famBL_spec hne hw
  rw [Bool.eq_iff_iff]
  unfold accOK
  rw [hspec, accB_famSpec_iff hw hl hnd, separatedB_iff_fa, famIdents_ne_nil_iff_fa hw hl]
  constructor
  · rintro ⟨h1, h2⟩
    refine ⟨h1, ?_⟩
    rintro ⟨b, hb, b', hb', hne', hg⟩
    exact h2 ⟨b, hb, b', hb', hne', (genAll_iff_genPair_fa hw hl hb hb').2 hg⟩
  · rintro ⟨h1, h2⟩
    refine ⟨h1, ?_⟩
    rintro ⟨b, hb, b', hb', hne', hg⟩
    exact h2 ⟨b, hb, b', hb', hne', (genAll_iff_genPair_fa hw hl hb hb').1 hg⟩

/-! ### the documented fragment implies the filter -/

theorem genCell_false_of_sepCell_fa {bi bj : Blk} {kx : BKey × String} (h : sepCell_fa bi bj kx = true) :
    genCell (cell bi kx) (cell bj kx) = false ∧ genCell (cell bj kx) (cell bi kx) = false := by
  unfold sepCell_fa at h
  cases h1 : cell bi kx with
  | none => rw [h1] at h; cases h
  | some p =>
    cases h2 : cell bj kx with
    | none => rw [h1, h2] at h; cases h
    | some q =>
      rw [h1, h2] at h
      simp only [Bool.and_eq_true, Bool.not_eq_true'] at h
      unfold supYes at h
      unfold genCell
      exact h

theorem distPair_iff_fa {blks : List Blk} {bi bj : Blk} :
    distPair_fa blks bi bj = true ↔ ∃ e ∈ otherFold bi, hasKey blks e.1 = true ∧ ∃ xp ∈ e.2, sepCell_fa bi bj (e.1, xp.1) = true := by
  simp only [distPair_fa, List.any_eq_true, Bool.and_eq_true]

theorem not_genPair_of_distPair_fa {blks : List Blk} {bi bj : Blk} (h : distPair_fa blks bi bj = true) :
    genPair_fa blks bi bj = false := by
  obtain ⟨e, he, hkey, xp, hxp, hs⟩ := distPair_iff_fa.1 h
  cases hg : genPair_fa blks bi bj with
  | false => rfl
  | true =>
    have := genPair_iff_fa.1 hg e he hkey xp hxp
    rw [(genCell_false_of_sepCell_fa hs).1] at this
    cases this

theorem distPairs_iff_fa {blks : List Blk} :
    distPairs_fa blks = true ↔ ∀ bi ∈ blks, ∀ bj ∈ blks, bi ≠ bj → distPair_fa blks bi bj = true := by
  simp only [distPairs_fa, List.all_eq_true, Bool.or_eq_true, beq_iff_eq]
  constructor
  · intro h bi hbi bj hbj hne
    rcases h bi hbi bj hbj with h1 | h1
    · exact absurd h1 hne
    · exact h1
  · intro h bi hbi bj hbj
    by_cases he : bi = bj
    · exact Or.inl he
    · exact Or.inr (h bi hbi bj hbj he)

/-- the documented fragment passes the candidate filter (no side condition: a boolean implication) -/
theorem separatedB_of_distinguishedB {blks : List Blk} (h : distinguishedB blks = true) : separatedB blks = true := by
  simp only [distinguishedB, Bool.and_eq_true] at h
  rw [separatedB_iff_fa]
  refine ⟨h.1, ?_⟩
  rintro ⟨b, hb, b', hb', hne, hg⟩
  rw [not_genPair_of_distPair_fa (distPairs_iff_fa.1 h.2 b hb b' hb' hne)] at hg
  cases hg

/-- with two different blocks in the bucket the pair condition alone suffices -/
theorem hasColumn_of_distPairs_fa {blks : List Blk} {bi bj : Blk} (hbi : bi ∈ blks) (hbj : bj ∈ blks) (hne : bi ≠ bj)
    (h : distPairs_fa blks = true) : hasColumn_fa blks = true := by
  obtain ⟨e, he, hkey, xp, hxp, _⟩ := distPair_iff_fa.1 (distPairs_iff_fa.1 h bi hbi bj hbj hne)
  exact hasColumn_iff_fa.2 ⟨bi, hbi, e, he, hkey, List.ne_nil_of_mem hxp⟩

/-! ### acceptance and rejection of flat invocations -/

/-- the candidate filter of every bucket of a well-formed invocation, in executable form -/
theorem bucket_accOK_eq_fa (items : List T) (hwf : flatWF0 items = true) :
    ∀ bk ∈ mkBuckets (items.map mkBlk), accOK bk.2 = separatedB bk.2 := by
  intro bk hbk
  obtain ⟨_, hne, hnd, hw, _⟩ := buckets_facts items hwf bk hbk
  exact accOK_eq_separatedB hne hw hnd

/-- acceptance of a flat invocation, exactly: no bucket panics and every bucket is separated -/
theorem flat_ok_iff_separated0_fa (items : List T) (hms : msPairs ((mkBuckets (items.map mkBlk)).map (·.1)) = [])
    (hwf : flatWF0 items = true) :
    (∃ g, parseGroups items = .ok g) ↔
      ∀ bk ∈ mkBuckets (items.map mkBlk), bucketPanics bk = false ∧ separatedB bk.2 = true := by
  rw [parseGroups_flat_ok_iff items hms hwf]
  unfold AllOK
  constructor
  · intro h bk hbk
    rw [← bucket_accOK_eq_fa items hwf bk hbk]; exact h bk hbk
  · intro h bk hbk
    rw [bucket_accOK_eq_fa items hwf bk hbk]; exact h bk hbk

theorem flat_ok_iff_separated_fa (items : List T) (hms : msPairs ((mkBuckets (items.map mkBlk)).map (·.1)) = [])
    (hwf : flatWF items = true) :
    (∃ g, parseGroups items = .ok g) ↔ ∀ bk ∈ mkBuckets (items.map mkBlk), separatedB bk.2 = true := by
  rw [flat_ok_iff_separated0_fa items hms (flatWF0_of_flatWF hwf)]
  constructor
  · exact fun h bk hbk => (h bk hbk).2
  · exact fun h bk hbk => ⟨buckets_no_panic items hwf bk hbk, h bk hbk⟩

theorem groupOf_shape_fa {l : List (T × List Blk)} {g : Groups} (h : Forall2 GroupOf l g) :
    g.map (fun e => (e.1, e.2.2)) = l := by
  induction h with
  | nil => rfl
  | @cons a b _ _ hab _ ih =>
    simp only [List.map_cons, ih]
    congr 1
    exact Prod.ext hab.1 hab.2.1

/-- an accepted flat invocation has one family per bucket, in bucket order: header = bucket id, members = the
    bucket's blocks in bucket order -/
theorem flat_groups_shape_fa {items : List T} {g : Groups} (h : parseGroups items = .ok g)
    (hms : msPairs ((mkBuckets (items.map mkBlk)).map (·.1)) = []) (hwf : flatWF0 items = true) :
    g.map (fun e => (e.1, e.2.2)) = mkBuckets (items.map mkBlk) :=
  groupOf_shape_fa (parseGroups_flat_groups h hms hwf)

/-- a flat invocation with a bucket that is not separated is rejected with "Unable to form impl group", for the
    header of such a bucket -/
theorem flat_rejects_fa (items : List T) (hms : msPairs ((mkBuckets (items.map mkBlk)).map (·.1)) = [])
    (hwf : flatWF items = true) {bk : T × List Blk} (hbk : bk ∈ mkBuckets (items.map mkBlk))
    (hsep : separatedB bk.2 = false) :
    ∃ id, parseGroups items = .unableToForm id ∧
      ∃ bk' ∈ mkBuckets (items.map mkBlk), bk'.1 = id ∧ separatedB bk'.2 = false := by
  have hwf0 := flatWF0_of_flatWF hwf
  have ho := parseGroups_flat_outcome items hms hwf0
  cases hr : parseGroups items with
  | ok g =>
    rw [hr] at ho
    have := (ho.1 bk hbk).2
    rw [bucket_accOK_eq_fa items hwf0 bk hbk, hsep] at this
    cases this
  | unableToForm id =>
    rw [hr] at ho
    obtain ⟨bk', hbk', hid, hno⟩ := ho
    exact ⟨id, rfl, bk', hbk', hid, by rw [← bucket_accOK_eq_fa items hwf0 bk' hbk']; exact hno⟩
  | panic e =>
    rw [hr] at ho
    obtain ⟨bk', hbk', hp⟩ := ho
    rw [buckets_no_panic items hwf bk' hbk'] at hp
    cases hp

/-- two different blocks of a bucket of which one generalises the other on all shared columns: not separated -/
theorem not_separated_of_genPair_fa {blks : List Blk} {bi bj : Blk} (hbi : bi ∈ blks) (hbj : bj ∈ blks) (hne : bi ≠ bj)
    (hg : genPair_fa blks bi bj = true) : separatedB blks = false := by
  cases hs : separatedB blks with
  | false => rfl
  | true => exact absurd ⟨bi, hbi, bj, hbj, hne, hg⟩ (separatedB_iff_fa.1 hs).2

/-! ### non-unifiable payloads are distinguished: a positive answer of the matcher is a unifier -/

theorem inst_nil_fa : ∀ t : T, inst [] t = t := by
  apply T.ind
  · intro n; exact inst_tparam_other (fun t h => by simp [lookup] at h)
  · intro n; exact inst_eparam_other (fun t h => by simp [lookup] at h)
  · intro k as ks ih
    by_cases hs : Special k as ks
    · obtain ⟨n, rfl, rfl, rfl⟩ := hs
      rw [inst_ga_other (fun e h => by simp [lookup] at h), inst_tparam_other (fun t h => by simp [lookup] at h)]
    · rw [inst_node_default [] hs, instL_eq_self (fun t ht => ih t ht)]

/-- the two trees have a common instance (modulo presentation); the parameters of the two sides are instantiated
    separately, as they belong to different `impl` blocks -/
def Unifiable_fa (p q : T) : Prop := ∃ θ₁ θ₂ : Subst, erase (inst θ₁ p) = erase (inst θ₂ q)

theorem Unifiable_fa.symm {p q : T} (h : Unifiable_fa p q) : Unifiable_fa q p := by
  obtain ⟨θ₁, θ₂, e⟩ := h
  exact ⟨θ₂, θ₁, e.symm⟩

/-- an exact positive answer of the matcher is a unifier: `q` is an instance of `p` -/
theorem unifiable_of_sup_fa {p q : T} {σ : Subst} (hp : wf p = true) (hq : wf q = true)
    (hf : ignFaces p (stripTop q) = true) (h : sup p q = .yes σ false) : Unifiable_fa p q := by
  refine ⟨σ, [], ?_⟩
  rw [inst_nil_fa]
  have := (supS_good p (stripTop q) σ hp h).2 (wf_stripTop q hq) hf
  rw [this, erase_stripTop]

/-- the matcher's answer is not one of the deliberately lenient ones (`lossy`) -/
def supExact_fa (p q : T) : Bool :=
  match sup p q with
  | .yes _ true => false
  | _ => true

/-- the executable side conditions under which a positive answer of the matcher in either direction is a unifier -/
def unifPre_fa (p q : T) : Bool :=
  wf p && wf q && ignFaces p (stripTop q) && ignFaces q (stripTop p) && supExact_fa p q && supExact_fa q p

theorem supYes_false_of_not_unifiable_fa {p q : T} (hp : wf p = true) (hq : wf q = true)
    (hf : ignFaces p (stripTop q) = true) (hx : supExact_fa p q = true) (hnu : ¬ Unifiable_fa p q) :
    supYes p q = false := by
  unfold supYes
  unfold supExact_fa at hx
  cases hs : sup p q with
  | no => rfl
  | panic => rfl
  | yes σ l =>
    cases l with
    | true => rw [hs] at hx; cases hx
    | false => exact absurd (unifiable_of_sup_fa hp hq hf hs) hnu

/-- non-unifiable payloads bound to the same associated type under the same key distinguish the two blocks -/
theorem sepCell_of_not_unifiable_fa {bi bj : Blk} {kx : BKey × String} {p q : T} (hi : cell bi kx = some p)
    (hj : cell bj kx = some q) (hpre : unifPre_fa p q = true) (hnu : ¬ Unifiable_fa p q) :
    sepCell_fa bi bj kx = true := by
  simp only [unifPre_fa, Bool.and_eq_true] at hpre
  obtain ⟨⟨⟨⟨⟨hp, hq⟩, hf1⟩, hf2⟩, hx1⟩, hx2⟩ := hpre
  unfold sepCell_fa
  rw [hi, hj]
  simp only [Bool.and_eq_true, Bool.not_eq_true']
  exact ⟨supYes_false_of_not_unifiable_fa hp hq hf1 hx1 hnu,
    supYes_false_of_not_unifiable_fa hq hp hf2 hx2 (fun h => hnu h.symm)⟩

/-! ### the conditions on a whole invocation, and what `distinguishedB` says in plain terms -/

/-- every bucket of the invocation is in the documented fragment -/
def flatDistinguished (items : List T) : Bool := (mkBuckets (items.map mkBlk)).all (fun bk => distinguishedB bk.2)

/-- every bucket of the invocation passes the (order-free form of the) candidate filter -/
def flatSeparated (items : List T) : Bool := (mkBuckets (items.map mkBlk)).all (fun bk => separatedB bk.2)

theorem sepCell_iff_fa {bi bj : Blk} {kx : BKey × String} :
    sepCell_fa bi bj kx = true ↔
      ∃ p q, cell bi kx = some p ∧ cell bj kx = some q ∧ supYes p q = false ∧ supYes q p = false := by
  unfold sepCell_fa
  cases h1 : cell bi kx with
  | none => simp
  | some p =>
    cases h2 : cell bj kx with
    | none => simp
    | some q => simp

/-- what `distinguishedB` says: for every two different blocks `bi`, `bj` of the bucket there are a key `k` of `bi`
    that every block of the bucket bounds and an associated-type identifier `a` such that `bi` binds `a` under `k`
    to `p`, `bj` binds `a` under `k` to `q`, and neither payload generalises the other -/
theorem distinguishedB_spec_fa {blks : List Blk} (hw : ∀ b ∈ blks, wfBlk b = true) :
    distinguishedB blks = true ↔ hasColumn_fa blks = true ∧
      ∀ bi ∈ blks, ∀ bj ∈ blks, bi ≠ bj → ∃ e ∈ otherFold bi, hasKey blks e.1 = true ∧
        ∃ a p q, cell bi (e.1, a) = some p ∧ cell bj (e.1, a) = some q ∧ supYes p q = false ∧ supYes q p = false := by
  simp only [distinguishedB, Bool.and_eq_true, distPairs_iff_fa]
  constructor
  · rintro ⟨h1, h2⟩
    refine ⟨h1, fun bi hbi bj hbj hne => ?_⟩
    obtain ⟨e, he, hkey, xp, _, hs⟩ := distPair_iff_fa.1 (h2 bi hbi bj hbj hne)
    obtain ⟨p, q, hs⟩ := sepCell_iff_fa.1 hs
    exact ⟨e, he, hkey, xp.1, p, q, hs⟩
  · rintro ⟨h1, h2⟩
    refine ⟨h1, fun bi hbi bj hbj hne => ?_⟩
    obtain ⟨e, he, hkey, a, p, q, hp, hq, hs⟩ := h2 bi hbi bj hbj hne
    have hin : a ∈ (rowD bi e.1).map (·.1) := (cell_isSome_iff_fa bi (e.1, a)).1 (by rw [hp]; rfl)
    rw [rowD_self_fa (hw bi hbi) he] at hin
    obtain ⟨xp, hxp, hx⟩ := List.mem_map.1 hin
    refine distPair_iff_fa.2 ⟨e, he, hkey, xp, hxp, sepCell_iff_fa.2 ⟨p, q, ?_, ?_, hs⟩⟩
    · rw [hx]; exact hp
    · rw [hx]; exact hq

/-- a natural but insufficient weakening of `distPair_fa`: the distinguishing key need not be bounded by every block
    of the bucket (`C03_flat_nonshared_key_counterexample`) -/
def distPairAnyKey_fa (bi bj : Blk) : Bool :=
  (otherFold bi).any (fun e => e.2.any (fun xp => sepCell_fa bi bj (e.1, xp.1)))

def distinguishedAnyKeyB_fa (blks : List Blk) : Bool :=
  hasColumn_fa blks && blks.all (fun bi => blks.all (fun bj => bi == bj || distPairAnyKey_fa bi bj))

/-! ### the semantic form: pairwise non-unifiable bindings of a shared associated type -/

theorem not_unifiable_of_closed_fa {p q : T} (hp : closed p = true) (hq : closed q = true) (h : erase p ≠ erase q) :
    ¬ Unifiable_fa p q := by
  rintro ⟨θ₁, θ₂, e⟩
  rw [inst_closed θ₁ p hp, inst_closed θ₂ q hq] at e
  exact h e

/-- the blocks `bi` and `bj` bind one associated type, under a key of `bi` that every block of the bucket bounds, to
    payloads without a common instance (and on which the matcher is exact, `unifPre_fa`) -/
def NonUnifPair_fa (blks : List Blk) (bi bj : Blk) : Prop :=
  ∃ e ∈ otherFold bi, hasKey blks e.1 = true ∧ ∃ a p q, cell bi (e.1, a) = some p ∧ cell bj (e.1, a) = some q ∧
    unifPre_fa p q = true ∧ ¬ Unifiable_fa p q

theorem distinguishedB_of_nonunifiable_fa {blks : List Blk} (hw : ∀ b ∈ blks, wfBlk b = true)
    (hc : hasColumn_fa blks = true) (h : ∀ bi ∈ blks, ∀ bj ∈ blks, bi ≠ bj → NonUnifPair_fa blks bi bj) :
    distinguishedB blks = true := by
  rw [distinguishedB_spec_fa hw]
  refine ⟨hc, fun bi hbi bj hbj hne => ?_⟩
  obtain ⟨e, he, hkey, a, p, q, hp, hq, hpre, hnu⟩ := h bi hbi bj hbj hne
  have hs := sepCell_of_not_unifiable_fa hp hq hpre hnu
  obtain ⟨p', q', hp', hq', hs1, hs2⟩ := sepCell_iff_fa.1 hs
  exact ⟨e, he, hkey, a, p', q', hp', hq', hs1, hs2⟩

/-! ### an executable sufficient condition for non-unifiability: constructor clash -/

/-- the shape on which `inst` deviates from the homomorphic rule (`Special`), as a boolean -/
def specialB_fa (k : String) (as : List String) (ks : List T) : Bool :=
  k == "GenericArgument::Type" && as.isEmpty && (match ks with | [.tparam _] => true | _ => false)

/-- a node whose kind, atoms and number of children survive instantiation and `erase` -/
def rigid_fa (k : String) (as : List String) (ks : List T) : Bool :=
  !isWrapper k && k != "Ign" && !specialB_fa k as ks

mutual
/-- a constructor clash: at some position reached through rigid nodes on both sides, the two trees have rigid nodes
    of different kinds, atoms or numbers of children -/
def clash_fa : T → T → Bool
  | .node k as ks, .node k' as' ks' =>
      rigid_fa k as ks && rigid_fa k' as' ks' && (k != k' || as != as' || clashL_fa ks ks')
  | _, _ => false
def clashL_fa : List T → List T → Bool
  | [], [] => false
  | a :: as, b :: bs => clash_fa a b || clashL_fa as bs
  | _, _ => true
end

theorem not_special_of_specialB_fa {k : String} {as : List String} {ks : List T} (h : specialB_fa k as ks = false) :
    ¬ Special k as ks := by
  rintro ⟨n, rfl, rfl, rfl⟩
  simp [specialB_fa] at h

theorem erase_inst_rigid_fa (θ : Subst) {k : String} {as : List String} {ks : List T} (h : rigid_fa k as ks = true) :
    erase (inst θ (.node k as ks)) = .node k as (eraseL (instL θ ks)) := by
  simp only [rigid_fa, Bool.and_eq_true, Bool.not_eq_true', bne_iff_ne, ne_eq] at h
  obtain ⟨⟨hw, hi⟩, hs⟩ := h
  rw [inst_node_default θ (not_special_of_specialB_fa hs), erase_plain _ _ hw hi]

theorem clash_sound_fa : ∀ (p q : T), clash_fa p q = true → ∀ θ₁ θ₂ : Subst, erase (inst θ₁ p) ≠ erase (inst θ₂ q) := by
  intro p
  induction p using T.ind with
  | tp n => intro q h; simp [clash_fa] at h
  | ep n => intro q h; simp [clash_fa] at h
  | nd k as ks ih =>
    intro q h θ₁ θ₂
    cases q with
    | tparam n => simp [clash_fa] at h
    | eparam n => simp [clash_fa] at h
    | node k' as' ks' =>
      rw [clash_fa] at h
      simp only [Bool.and_eq_true, Bool.or_eq_true, bne_iff_ne, ne_eq] at h
      obtain ⟨⟨hr, hr'⟩, hc⟩ := h
      rw [erase_inst_rigid_fa θ₁ hr, erase_inst_rigid_fa θ₂ hr']
      intro e
      injection e with e1 e2 e3
      rcases hc with (hc | hc) | hc
      · exact hc e1
      · exact hc e2
      · -- a clash among the children
        have key : ∀ (ks ks' : List T), (∀ t ∈ ks, ∀ q, clash_fa t q = true → ∀ θ₁ θ₂ : Subst, erase (inst θ₁ t) ≠ erase (inst θ₂ q)) →
            clashL_fa ks ks' = true → eraseL (instL θ₁ ks) ≠ eraseL (instL θ₂ ks') := by
          intro ks
          induction ks with
          | nil =>
            intro ks' _ hcl
            cases ks' with
            | nil => simp [clashL_fa] at hcl
            | cons b bs => simp [instL, eraseL]
          | cons a as iha =>
            intro ks' ih hcl
            cases ks' with
            | nil => simp [instL, eraseL]
            | cons b bs =>
              rw [clashL_fa] at hcl
              simp only [Bool.or_eq_true] at hcl
              simp only [instL, eraseL]
              intro e
              injection e with e1 e2
              rcases hcl with hcl | hcl
              · exact ih a (by simp) b hcl θ₁ θ₂ e1
              · exact iha bs (fun t ht => ih t (List.mem_cons_of_mem _ ht)) hcl e2
        exact key ks ks' ih hc e3

/-- an executable sufficient condition for "no common instance": a constructor clash -/
theorem not_unifiable_of_clash_fa {p q : T} (h : clash_fa p q = true) : ¬ Unifiable_fa p q := by
  rintro ⟨θ₁, θ₂, e⟩
  exact clash_sound_fa p q h θ₁ θ₂ e

/-! ### the conditions do not depend on the order of the blocks -/

theorem hasKey_mem_congr_fa {blks blks' : List Blk} (hm : ∀ x, x ∈ blks ↔ x ∈ blks') (k : BKey) :
    hasKey blks k = hasKey blks' k := by
  rw [Bool.eq_iff_iff, hasKey_iff, hasKey_iff]
  exact ⟨fun h b hb => h b ((hm b).2 hb), fun h b hb => h b ((hm b).1 hb)⟩

theorem hasColumn_mem_congr_fa {blks blks' : List Blk} (hm : ∀ x, x ∈ blks ↔ x ∈ blks') :
    hasColumn_fa blks = hasColumn_fa blks' := by
  rw [Bool.eq_iff_iff, hasColumn_iff_fa, hasColumn_iff_fa]
  constructor
  · rintro ⟨b, hb, e, he, hk, hne⟩
    exact ⟨b, (hm b).1 hb, e, he, by rw [← hasKey_mem_congr_fa hm]; exact hk, hne⟩
  · rintro ⟨b, hb, e, he, hk, hne⟩
    exact ⟨b, (hm b).2 hb, e, he, by rw [hasKey_mem_congr_fa hm]; exact hk, hne⟩

theorem distPair_mem_congr_fa {blks blks' : List Blk} (hm : ∀ x, x ∈ blks ↔ x ∈ blks') (bi bj : Blk) :
    distPair_fa blks bi bj = distPair_fa blks' bi bj := by
  unfold distPair_fa
  congr 1
  funext e
  rw [hasKey_mem_congr_fa hm]

theorem genPair_mem_congr_fa {blks blks' : List Blk} (hm : ∀ x, x ∈ blks ↔ x ∈ blks') (bi bj : Blk) :
    genPair_fa blks bi bj = genPair_fa blks' bi bj := by
  unfold genPair_fa
  congr 1
  funext e
  rw [hasKey_mem_congr_fa hm]

/-- `distinguishedB` only depends on the SET of blocks of the bucket -/
theorem distinguishedB_mem_congr_fa {blks blks' : List Blk} (hm : ∀ x, x ∈ blks ↔ x ∈ blks') :
    distinguishedB blks = distinguishedB blks' := by
  unfold distinguishedB
  rw [hasColumn_mem_congr_fa hm]
  congr 1
  rw [Bool.eq_iff_iff, distPairs_iff_fa, distPairs_iff_fa]
  constructor
  · intro h bi hbi bj hbj hne
    rw [← distPair_mem_congr_fa hm]; exact h bi ((hm bi).2 hbi) bj ((hm bj).2 hbj) hne
  · intro h bi hbi bj hbj hne
    rw [distPair_mem_congr_fa hm]; exact h bi ((hm bi).1 hbi) bj ((hm bj).1 hbj) hne

/-- `separatedB` only depends on the SET of blocks of the bucket -/
theorem separatedB_mem_congr_fa {blks blks' : List Blk} (hm : ∀ x, x ∈ blks ↔ x ∈ blks') :
    separatedB blks = separatedB blks' := by
  rw [Bool.eq_iff_iff, separatedB_iff_fa, separatedB_iff_fa, hasColumn_mem_congr_fa hm]
  constructor
  · rintro ⟨h1, h2⟩
    refine ⟨h1, ?_⟩
    rintro ⟨b, hb, b', hb', hne, hg⟩
    exact h2 ⟨b, (hm b).2 hb, b', (hm b').2 hb', hne, by rw [genPair_mem_congr_fa hm]; exact hg⟩
  · rintro ⟨h1, h2⟩
    refine ⟨h1, ?_⟩
    rintro ⟨b, hb, b', hb', hne, hg⟩
    exact h2 ⟨b, (hm b).1 hb, b', (hm b').1 hb', hne, by rw [← genPair_mem_congr_fa hm]; exact hg⟩

/-- "every bucket is in the documented fragment" carries over to any permutation of the blocks -/
theorem flatDistinguished_perm_fa {items items' : List T} (hp : items.Perm items')
    (h : flatDistinguished items = true) : flatDistinguished items' = true := by
  simp only [flatDistinguished, List.all_eq_true] at h ⊢
  intro bk' hbk'
  have hpb : (items.map mkBlk).Perm (items'.map mkBlk) := hp.map _
  obtain ⟨hids, hblks⟩ := mkBuckets_perm' hpb (itemDet_mkBlk items)
  have : bk'.1 ∈ (mkBuckets (items.map mkBlk)).map (·.1) := hids.mem_iff.2 (List.mem_map.2 ⟨bk', hbk', rfl⟩)
  obtain ⟨bk, hbk, hid⟩ := List.mem_map.1 this
  have hperm : bk.2.Perm bk'.2 := hblks bk.1 bk.2 bk'.2 hbk (by rw [hid]; exact hbk')
  rw [← distinguishedB_mem_congr_fa (fun _ => hperm.mem_iff)]
  exact h bk hbk

/-! ### which header is reported -/

/-- the loop stops at the first bucket that fails the candidate filter and reports its header -/
theorem goFlat_first_unable_fa (pre post : List (T × List Blk)) (bk : T × List Blk) (acc : Groups)
    (hall : ∀ b ∈ pre ++ bk :: post, selfWeak b.1 = true ∧ b.2 ≠ [])
    (hpre : ∀ b ∈ pre, bucketPanics b = false ∧ accOK b.2 = true)
    (hp : bucketPanics bk = false) (hno : accOK bk.2 = false) :
    goFlat (pre ++ bk :: post) acc = .unableToForm bk.1 := by
  rw [goFlat_append]
  have h1 := goFlat_outcome pre acc (fun b hb => hall b (List.mem_append.2 (Or.inl hb)))
  cases hr : goFlat pre acc with
  | unableToForm id =>
    rw [hr] at h1
    obtain ⟨b, hb, _, hacc⟩ := h1
    rw [(hpre b hb).2] at hacc; cases hacc
  | panic e =>
    rw [hr] at h1
    obtain ⟨b, hb, hpan⟩ := h1
    rw [(hpre b hb).1] at hpan; cases hpan
  | ok a =>
    dsimp only
    have h2 := goFlat_outcome [bk] a (fun b hb => hall b (List.mem_append.2 (Or.inr (by
      simp only [List.mem_singleton] at hb; subst hb; simp))))
    have happ := goFlat_append [bk] post a
    rw [List.singleton_append] at happ
    rw [happ]
    cases hr2 : goFlat [bk] a with
    | ok a' =>
      rw [hr2] at h2
      have := (h2.1 bk (by simp)).2
      rw [hno] at this; cases this
    | panic e =>
      rw [hr2] at h2
      obtain ⟨b, hb, hpan⟩ := h2
      simp only [List.mem_singleton] at hb; subst hb
      rw [hp] at hpan; cases hpan
    | unableToForm id =>
      rw [hr2] at h2
      obtain ⟨b, hb, hid, _⟩ := h2
      simp only [List.mem_singleton] at hb; subst hb
      rw [hid]

/-- a flat invocation is rejected with the header of the FIRST bucket that is not separated -/
theorem flat_rejects_first_fa (items : List T) (hms : msPairs ((mkBuckets (items.map mkBlk)).map (·.1)) = [])
    (hwf : flatWF items = true) (pre post : List (T × List Blk)) (bk : T × List Blk)
    (hsplit : mkBuckets (items.map mkBlk) = pre ++ bk :: post)
    (hpre : ∀ b ∈ pre, separatedB b.2 = true) (hbk : separatedB bk.2 = false) :
    parseGroups items = .unableToForm bk.1 := by
  have hwf0 := flatWF0_of_flatWF hwf
  have hmem : ∀ b ∈ pre ++ bk :: post, b ∈ mkBuckets (items.map mkBlk) := fun b hb => by rw [hsplit]; exact hb
  rw [parseGroups_flat items (no_subsets_of_msPairs_nil hms), hsplit]
  apply goFlat_first_unable_fa
  · intro b hb
    obtain ⟨h1, h2, _⟩ := buckets_facts items hwf0 b (hmem b hb)
    exact ⟨h1, h2⟩
  · intro b hb
    have hb' := hmem b (List.mem_append.2 (Or.inl hb))
    exact ⟨buckets_no_panic items hwf b hb', by rw [bucket_accOK_eq_fa items hwf0 b hb']; exact hpre b hb⟩
  · exact buckets_no_panic items hwf bk (hmem bk (by simp))
  · rw [bucket_accOK_eq_fa items hwf0 bk (hmem bk (by simp))]; exact hbk

end DI
