/-
  Helper lemmas for the C14 theorems (`Props/C14.lean`) over the model of `validate.rs` (`Validate.lean`):
  `removeItem`, the acceptance characterisation of `compareTraitItemsLoop` / `compareInherentItemsLoop`,
  single-defect mutations, `firstError`. Core-only.
-/
import DisjointImpls.Validate
namespace DI

instance : DecidableEq (Except Diag Unit)
  | .ok (), .ok () => isTrue rfl
  | .ok (), .error _ => isFalse (fun h => by cases h)
  | .error _, .ok () => isFalse (fun h => by cases h)
  | .error a, .error b => if h : a = b then isTrue (by rw [h]) else isFalse (fun e => h (by cases e; rfl))

/-! ### Items: keys, matching, clean lists -/

/-- what identifies an item: its kind and name -/
def ItemSig.key (i : ItemSig) : ItemKind × String := (i.kind, i.ident)

/-- `i` is the item of kind `k` called `x` -/
abbrev ItemSig.is (i : ItemSig) (k : ItemKind) (x : String) : Prop := i.kind = k ∧ i.ident = x

theorem ItemSig.is_iff_key {i : ItemSig} {k : ItemKind} {x : String} : i.is k x ↔ i.key = (k, x) := by
  simp [ItemSig.is, ItemSig.key]

/-- items without `other` kind and without duplicate (kind, ident) pairs -/
def cleanItems (xs : List ItemSig) : Bool :=
  xs.all (fun i => i.kind != .other) && decide (xs.map ItemSig.key).Nodup

theorem cleanItems_iff {xs : List ItemSig} :
    cleanItems xs = true ↔ (∀ i ∈ xs, i.kind ≠ .other) ∧ (xs.map ItemSig.key).Nodup := by
  simp [cleanItems]

theorem cleanItems_cons {x : ItemSig} {xs : List ItemSig} :
    cleanItems (x :: xs) = true ↔ x.kind ≠ .other ∧ (∀ y ∈ xs, y.key ≠ x.key) ∧ cleanItems xs = true := by
  simp only [cleanItems_iff, List.mem_cons, List.map_cons, List.nodup_cons, List.mem_map, not_exists, not_and]
  constructor
  · rintro ⟨h1, h2, h3⟩
    exact ⟨h1 x (Or.inl rfl), fun y hy => h2 y hy, fun i hi => h1 i (Or.inr hi), h3⟩
  · rintro ⟨h1, h2, h3, h4⟩
    refine ⟨?_, fun y hy => h2 y hy, h4⟩
    rintro i (rfl | hi)
    · exact h1
    · exact h3 i hi

theorem clean_no_other {xs : List ItemSig} (h : cleanItems xs = true) :
    xs.any (fun i => i.kind = .other) = false := by
  have := (cleanItems_iff.1 h).1
  simp only [List.any_eq_false, decide_eq_true_eq]
  exact this

theorem clean_key_inj : ∀ {xs : List ItemSig}, cleanItems xs = true → ∀ a ∈ xs, ∀ b ∈ xs, a.key = b.key → a = b
  | [], _, a, ha, _, _, _ => by cases ha
  | x :: xs, h, a, ha, b, hb, hk => by
      obtain ⟨_, h2, h3⟩ := cleanItems_cons.1 h
      rcases List.mem_cons.1 ha with ha | ha <;> rcases List.mem_cons.1 hb with hb | hb
      · rw [ha, hb]
      · rw [ha] at hk; exact absurd hk.symm (h2 b hb)
      · rw [hb] at hk; exact absurd hk (h2 a ha)
      · exact clean_key_inj h3 a ha b hb hk

/-! ### `removeItem` -/

theorem removeItem_none {k : ItemKind} {x : String} : ∀ {xs : List ItemSig},
    removeItem k x xs = none ↔ ∀ s ∈ xs, ¬ s.is k x
  | [] => by simp [removeItem]
  | i :: is => by
      rw [removeItem]
      by_cases hi : i.kind = k ∧ i.ident = x
      · rw [if_pos hi]; simp only [reduceCtorEq, List.mem_cons, false_iff]
        intro h; exact h i (Or.inl rfl) hi
      · rw [if_neg hi]
        cases hr : removeItem k x is with
        | none =>
          simp only [true_iff]
          intro s hs
          rcases List.mem_cons.1 hs with hs | hs
          · rw [hs]; exact hi
          · exact removeItem_none.1 hr s hs
        | some p =>
          simp only [reduceCtorEq, false_iff]
          intro h
          have := removeItem_none.2 (fun s hs => h s (List.mem_cons_of_mem _ hs))
          rw [hr] at this; cases this

/-- the item found and what is left: the list splits around it, and nothing before it matches -/
theorem removeItem_some {k : ItemKind} {x : String} : ∀ {xs : List ItemSig} {s : ItemSig} {rest : List ItemSig},
    removeItem k x xs = some (s, rest) →
      ∃ l1 l2, xs = l1 ++ s :: l2 ∧ rest = l1 ++ l2 ∧ s.is k x ∧ ∀ y ∈ l1, ¬ y.is k x
  | [], _, _, h => by simp [removeItem] at h
  | i :: is, s, rest, h => by
      rw [removeItem] at h
      by_cases hi : i.kind = k ∧ i.ident = x
      · rw [if_pos hi] at h; cases h
        exact ⟨[], is, rfl, rfl, hi, fun y hy => by cases hy⟩
      · rw [if_neg hi] at h
        cases hr : removeItem k x is with
        | none => rw [hr] at h; cases h
        | some p =>
          obtain ⟨j, r⟩ := p
          rw [hr] at h; cases h
          obtain ⟨l1, l2, h1, h2, h3, h4⟩ := removeItem_some hr
          refine ⟨i :: l1, l2, by rw [h1]; rfl, by rw [h2]; rfl, h3, ?_⟩
          intro y hy
          rcases List.mem_cons.1 hy with hy | hy
          · rw [hy]; exact hi
          · exact h4 y hy

/-- conversely, a split around the first match computes `removeItem` -/
theorem removeItem_split {k : ItemKind} {x : String} {s : ItemSig} : ∀ (l1 l2 : List ItemSig),
    s.is k x → (∀ y ∈ l1, ¬ y.is k x) → removeItem k x (l1 ++ s :: l2) = some (s, l1 ++ l2)
  | [], l2, hs, _ => by rw [List.nil_append, removeItem, if_pos hs]; rfl
  | i :: l1, l2, hs, h => by
      rw [List.cons_append, removeItem, if_neg (h i (by simp)),
        removeItem_split l1 l2 hs (fun y hy => h y (List.mem_cons_of_mem _ hy))]
      rfl


theorem clean_perm {xs ys : List ItemSig} (h : xs.Perm ys) : cleanItems xs = true ↔ cleanItems ys = true := by
  rw [cleanItems_iff, cleanItems_iff, (h.map ItemSig.key).nodup_iff]
  constructor
  · rintro ⟨h1, h2⟩; exact ⟨fun i hi => h1 i (h.mem_iff.2 hi), h2⟩
  · rintro ⟨h1, h2⟩; exact ⟨fun i hi => h1 i (h.mem_iff.1 hi), h2⟩

theorem clean_remove {l1 l2 : List ItemSig} {s : ItemSig} (h : cleanItems (l1 ++ s :: l2) = true) :
    cleanItems (l1 ++ l2) = true ∧ ∀ y ∈ l1 ++ l2, y.key ≠ s.key := by
  have := (clean_perm (List.perm_middle (a := s) (l₁ := l1) (l₂ := l2))).1 h
  obtain ⟨_, h2, h3⟩ := cleanItems_cons.1 this
  exact ⟨h3, h2⟩

theorem key_eq_iff {a b : ItemSig} : a.key = b.key ↔ a.kind = b.kind ∧ a.ident = b.ident := by
  simp [ItemSig.key]

/-- the acceptance condition of `compare_trait_items` -/
def TraitAccept (ts second : List ItemSig) : Prop :=
  (∀ t ∈ ts, t.hasDefault = false → ∃ s ∈ second, s.kind = t.kind ∧ s.ident = t.ident) ∧
  (∀ s ∈ second, ∃ t ∈ ts, t.kind = s.kind ∧ t.ident = s.ident) ∧
  (∀ t ∈ ts, ∀ s ∈ second, t.kind = .const → s.kind = .const → s.ident = t.ident → t.arity = s.arity)

theorem compareTraitItemsLoop_ok_iff : ∀ (ts second : List ItemSig), cleanItems ts = true → cleanItems second = true →
    (compareTraitItemsLoop ts second = .ok () ↔ TraitAccept ts second)
  | [], second, _, hs => by
      rw [compareTraitItemsLoop, if_neg (by simp [clean_no_other hs])]
      cases second with
      | nil => simp [TraitAccept]
      | cons x xs =>
        simp only [List.isEmpty_cons, Bool.false_eq_true, if_false, reduceCtorEq, false_iff]
        intro h
        obtain ⟨t, ht, _⟩ := h.2.1 x (by simp)
        cases ht
  | t :: ts, second, hts, hs => by
      obtain ⟨hto, htk, hts'⟩ := cleanItems_cons.1 hts
      rw [compareTraitItemsLoop, if_neg (by simp [clean_no_other hs]), if_neg hto]
      cases hr : removeItem t.kind t.ident second with
      | some p =>
        obtain ⟨s, rest⟩ := p
        obtain ⟨l1, l2, rfl, rfl, hst, _⟩ := removeItem_some hr
        obtain ⟨hcr, hkr⟩ := clean_remove hs
        have hmem : ∀ y, y ∈ l1 ++ s :: l2 ↔ y = s ∨ y ∈ l1 ++ l2 := by
          intro y; simp only [List.mem_append, List.mem_cons]; constructor
          · rintro (h | h | h)
            · exact Or.inr (Or.inl h)
            · exact Or.inl h
            · exact Or.inr (Or.inr h)
          · rintro (h | h | h)
            · exact Or.inr (Or.inl h)
            · exact Or.inl h
            · exact Or.inr (Or.inr h)
        have hkst : s.key = t.key := key_eq_iff.2 hst
        simp only
        by_cases har : t.kind = .const ∧ t.arity ≠ s.arity
        · rw [if_pos har]
          simp only [reduceCtorEq, false_iff]
          intro h
          exact har.2 (h.2.2 t (by simp) s ((hmem s).2 (Or.inl rfl)) har.1 (hst.1.trans har.1) hst.2)
        · rw [if_neg har, compareTraitItemsLoop_ok_iff ts (l1 ++ l2) hts' hcr]
          constructor
          · rintro ⟨h1, h2, h3⟩
            refine ⟨?_, ?_, ?_⟩
            · intro t0 ht0 hd
              rcases List.mem_cons.1 ht0 with e | ht0
              · rw [e]; exact ⟨s, (hmem s).2 (Or.inl rfl), hst⟩
              · obtain ⟨s0, hs0, hm⟩ := h1 t0 ht0 hd
                exact ⟨s0, (hmem s0).2 (Or.inr hs0), hm⟩
            · intro s0 hs0
              rcases (hmem s0).1 hs0 with e | hs0
              · rw [e]; exact ⟨t, by simp, hst.1.symm, hst.2.symm⟩
              · obtain ⟨t0, ht0, hm⟩ := h2 s0 hs0
                exact ⟨t0, List.mem_cons_of_mem _ ht0, hm⟩
            · intro t0 ht0 s0 hs0 hk1 hk2 hid
              rcases List.mem_cons.1 ht0 with e | ht0 <;> rcases (hmem s0).1 hs0 with e' | hs0
              · rw [e, e']
                exact Decidable.of_not_not (fun hne => har ⟨e ▸ hk1, hne⟩)
              · exfalso
                apply hkr s0 hs0
                rw [hkst, ← e]
                exact key_eq_iff.2 ⟨hk2.trans hk1.symm, hid⟩
              · exfalso
                apply htk t0 ht0
                rw [← hkst, ← e']
                exact key_eq_iff.2 ⟨hk1.trans hk2.symm, hid.symm⟩
              · exact h3 t0 ht0 s0 hs0 hk1 hk2 hid
          · rintro ⟨h1, h2, h3⟩
            refine ⟨?_, ?_, ?_⟩
            · intro t0 ht0 hd
              obtain ⟨s0, hs0, hm⟩ := h1 t0 (List.mem_cons_of_mem _ ht0) hd
              rcases (hmem s0).1 hs0 with e | hs0
              · exfalso
                apply htk t0 ht0
                rw [← hkst, ← e]
                exact (key_eq_iff.2 hm).symm
              · exact ⟨s0, hs0, hm⟩
            · intro s0 hs0
              obtain ⟨t0, ht0, hm⟩ := h2 s0 ((hmem s0).2 (Or.inr hs0))
              rcases List.mem_cons.1 ht0 with e | ht0
              · exfalso
                apply hkr s0 hs0
                rw [hkst, ← e]
                exact (key_eq_iff.2 hm).symm
              · exact ⟨t0, ht0, hm⟩
            · intro t0 ht0 s0 hs0
              exact h3 t0 (List.mem_cons_of_mem _ ht0) s0 ((hmem s0).2 (Or.inr hs0))
      | none =>
        have hnone := removeItem_none.1 hr
        simp only
        by_cases hd : t.hasDefault = true
        · rw [if_pos hd, compareTraitItemsLoop_ok_iff ts second hts' hs]
          constructor
          · rintro ⟨h1, h2, h3⟩
            refine ⟨?_, ?_, ?_⟩
            · intro t0 ht0 hd0
              rcases List.mem_cons.1 ht0 with e | ht0
              · rw [e, hd] at hd0; cases hd0
              · exact h1 t0 ht0 hd0
            · intro s0 hs0
              obtain ⟨t0, ht0, hm⟩ := h2 s0 hs0
              exact ⟨t0, List.mem_cons_of_mem _ ht0, hm⟩
            · intro t0 ht0 s0 hs0 hk1 hk2 hid
              rcases List.mem_cons.1 ht0 with e | ht0
              · exact absurd ⟨hk2.trans (e ▸ hk1).symm, e ▸ hid⟩ (hnone s0 hs0)
              · exact h3 t0 ht0 s0 hs0 hk1 hk2 hid
          · rintro ⟨h1, h2, h3⟩
            refine ⟨fun t0 ht0 => h1 t0 (List.mem_cons_of_mem _ ht0), ?_,
              fun t0 ht0 => h3 t0 (List.mem_cons_of_mem _ ht0)⟩
            intro s0 hs0
            obtain ⟨t0, ht0, hm⟩ := h2 s0 hs0
            rcases List.mem_cons.1 ht0 with e | ht0
            · exact absurd ⟨(e ▸ hm.1).symm, (e ▸ hm.2).symm⟩ (hnone s0 hs0)
            · exact ⟨t0, ht0, hm⟩
        · rw [if_neg hd]
          simp only [reduceCtorEq, false_iff]
          intro h
          obtain ⟨s0, hs0, hm⟩ := h.1 t (by simp) (by simpa using hd)
          exact hnone s0 hs0 hm


/-! ### Single-defect mutations -/

/-- the list without the item of kind `k` called `x` -/
def dropItem (k : ItemKind) (x : String) (xs : List ItemSig) : List ItemSig :=
  xs.filter (fun s => decide (¬ s.is k x))

theorem mem_dropItem {k : ItemKind} {x : String} {xs : List ItemSig} {y : ItemSig} :
    y ∈ dropItem k x xs ↔ y ∈ xs ∧ ¬ y.is k x := by
  simp only [dropItem, List.mem_filter, decide_eq_true_eq]

theorem dropItem_append (k : ItemKind) (x : String) (l1 l2 : List ItemSig) :
    dropItem k x (l1 ++ l2) = dropItem k x l1 ++ dropItem k x l2 := by
  simp [dropItem]

theorem dropItem_cons_ne {k : ItemKind} {x : String} {s : ItemSig} (h : ¬ s.is k x) (l : List ItemSig) :
    dropItem k x (s :: l) = s :: dropItem k x l := by
  simp only [dropItem]; rw [List.filter_cons_of_pos (by rw [decide_eq_true_eq]; exact h)]

theorem no_other_sub {xs ys : List ItemSig} (h : ∀ y ∈ ys, y ∈ xs)
    (hx : xs.any (fun i => i.kind = .other) = false) : ys.any (fun i => i.kind = .other) = false := by
  simp only [List.any_eq_false, decide_eq_true_eq] at hx ⊢
  exact fun y hy => hx y (h y hy)

/-- an accepted run never sees an unsupported item -/
theorem ok_no_other : ∀ (ts second : List ItemSig), compareTraitItemsLoop ts second = .ok () →
    second.any (fun i => i.kind = .other) = false
  | [], second, h => by
      rw [compareTraitItemsLoop] at h
      by_cases ho : second.any (fun i => i.kind = .other) = true
      · rw [if_pos ho] at h; cases h
      · simpa using ho
  | t :: ts, second, h => by
      rw [compareTraitItemsLoop] at h
      by_cases ho : second.any (fun i => i.kind = .other) = true
      · rw [if_pos ho] at h; cases h
      · simpa using ho

/-- removing the item a required trait item asks for: `Missing in one of the impls` -/
theorem compareTraitItemsLoop_missing : ∀ (ts second : List ItemSig) (t : ItemSig), cleanItems ts = true →
    compareTraitItemsLoop ts second = .ok () → t ∈ ts → t.hasDefault = false →
    compareTraitItemsLoop ts (dropItem t.kind t.ident second) = .error .missing
  | [], _, _, _, _, ht, _ => by cases ht
  | t0 :: ts, second, t, hts, hok, ht, hd => by
      obtain ⟨_, htk, hts'⟩ := cleanItems_cons.1 hts
      have hno := ok_no_other _ _ hok
      have hno' : (dropItem t.kind t.ident second).any (fun i => i.kind = .other) = false :=
        no_other_sub (fun y hy => (mem_dropItem.1 hy).1) hno
      rw [compareTraitItemsLoop, if_neg (by simp [hno])] at hok
      rw [compareTraitItemsLoop, if_neg (by simp [hno'])]
      by_cases hto : t0.kind = .other
      · rw [if_pos hto] at hok; cases hok
      rw [if_neg hto] at hok ⊢
      rcases List.mem_cons.1 ht with e | ht
      · -- the item asked for is gone
        subst e
        have : removeItem t.kind t.ident (dropItem t.kind t.ident second) = none :=
          removeItem_none.2 (fun s hs => (mem_dropItem.1 hs).2)
        rw [this]; simp [hd]
      · have hne : ¬ (t0.kind = t.kind ∧ t0.ident = t.ident) := fun h =>
          htk t ht (key_eq_iff.2 ⟨h.1.symm, h.2.symm⟩)
        cases hr : removeItem t0.kind t0.ident second with
        | some p =>
          obtain ⟨s, rest⟩ := p
          rw [hr] at hok
          obtain ⟨l1, l2, rfl, rfl, hst, hl1⟩ := removeItem_some hr
          have hs' : ¬ s.is t.kind t.ident := fun h => hne ⟨hst.1.symm.trans h.1, hst.2.symm.trans h.2⟩
          have : removeItem t0.kind t0.ident (dropItem t.kind t.ident (l1 ++ s :: l2)) =
              some (s, dropItem t.kind t.ident (l1 ++ l2)) := by
            rw [dropItem_append, dropItem_cons_ne hs', dropItem_append]
            exact removeItem_split _ _ hst (fun y hy => hl1 y (mem_dropItem.1 hy).1)
          rw [this]
          simp only at hok ⊢
          by_cases har : t0.kind = .const ∧ t0.arity ≠ s.arity
          · rw [if_pos har] at hok; cases hok
          · rw [if_neg har] at hok ⊢
            exact compareTraitItemsLoop_missing ts _ t hts' hok ht hd
        | none =>
          rw [hr] at hok
          have : removeItem t0.kind t0.ident (dropItem t.kind t.ident second) = none :=
            removeItem_none.2 (fun s hs => removeItem_none.1 hr s (mem_dropItem.1 hs).1)
          rw [this]
          simp only at hok ⊢
          by_cases hd0 : t0.hasDefault = true
          · rw [if_pos hd0] at hok ⊢
            exact compareTraitItemsLoop_missing ts _ t hts' hok ht hd
          · rw [if_neg hd0] at hok; cases hok

/-- `removeItem` does not see an inserted item of another name -/
theorem removeItem_insert_none {k : ItemKind} {n : String} {x : ItemSig} (hx : ¬ x.is k n)
    (l1 l2 : List ItemSig) (h : removeItem k n (l1 ++ l2) = none) : removeItem k n (l1 ++ x :: l2) = none := by
  apply removeItem_none.2
  intro s hs
  have hn := removeItem_none.1 h
  simp only [List.mem_append, List.mem_cons] at hs
  rcases hs with hs | hs | hs
  · exact hn s (List.mem_append.2 (Or.inl hs))
  · rw [hs]; exact hx
  · exact hn s (List.mem_append.2 (Or.inr hs))

theorem removeItem_insert_some {k : ItemKind} {n : String} :
    ∀ (l1 l2 : List ItemSig) (s : ItemSig) (rest : List ItemSig), removeItem k n (l1 ++ l2) = some (s, rest) →
      ∃ l1' l2', rest = l1' ++ l2' ∧
        ∀ x : ItemSig, ¬ x.is k n → removeItem k n (l1 ++ x :: l2) = some (s, l1' ++ x :: l2')
  | [], l2, s, rest, h => by
      simp only [List.nil_append] at h ⊢
      refine ⟨[], rest, rfl, fun x hx => ?_⟩
      rw [removeItem, if_neg hx, h]; rfl
  | i :: l1, l2, s, rest, h => by
      rw [List.cons_append, removeItem] at h
      by_cases hi : i.kind = k ∧ i.ident = n
      · rw [if_pos hi] at h
        cases h
        refine ⟨l1, l2, rfl, fun x _ => ?_⟩
        rw [List.cons_append, removeItem, if_pos hi]
      · rw [if_neg hi] at h
        cases hr : removeItem k n (l1 ++ l2) with
        | none => rw [hr] at h; cases h
        | some p =>
          obtain ⟨j, r⟩ := p
          obtain ⟨l1', l2', hrr, h'⟩ := removeItem_insert_some l1 l2 j r hr
          rw [hr] at h; cases h
          refine ⟨i :: l1', l2', by rw [hrr]; rfl, fun x hx => ?_⟩
          rw [List.cons_append, removeItem, if_neg hi, h' x hx]; rfl

/-- an item the trait does not declare, inserted anywhere: `Not found in trait definition` -/
theorem compareTraitItemsLoop_extra : ∀ (ts l1 l2 : List ItemSig) (x : ItemSig),
    compareTraitItemsLoop ts (l1 ++ l2) = .ok () → x.kind ≠ .other →
    (∀ t ∈ ts, ¬ (t.kind = x.kind ∧ t.ident = x.ident)) →
    compareTraitItemsLoop ts (l1 ++ x :: l2) = .error .notInTrait
  | [], l1, l2, x, hok, hxo, _ => by
      have hno := ok_no_other _ _ hok
      rw [compareTraitItemsLoop, if_neg (by simp [hno])] at hok
      have hem : l1 ++ l2 = [] := by
        by_cases he : (l1 ++ l2).isEmpty = true
        · simpa using he
        · rw [if_neg he] at hok; cases hok
      have h1 : l1 = [] := (List.append_eq_nil_iff.1 hem).1
      have h2 : l2 = [] := (List.append_eq_nil_iff.1 hem).2
      subst h1 h2
      rw [compareTraitItemsLoop]
      simp [hxo]
  | t :: ts, l1, l2, x, hok, hxo, hnt => by
      have hno := ok_no_other _ _ hok
      have hno' : (l1 ++ x :: l2).any (fun i => i.kind = .other) = false := by
        simp only [List.any_eq_false, decide_eq_true_eq, List.mem_append, List.mem_cons] at hno ⊢
        rintro y (hy | hy | hy)
        · exact hno y (Or.inl hy)
        · rw [hy]; exact hxo
        · exact hno y (Or.inr hy)
      rw [compareTraitItemsLoop, if_neg (by simp [hno])] at hok
      rw [compareTraitItemsLoop, if_neg (by simp [hno'])]
      by_cases hto : t.kind = .other
      · rw [if_pos hto] at hok; cases hok
      rw [if_neg hto] at hok ⊢
      have hx : ¬ x.is t.kind t.ident := fun h => hnt t (by simp) ⟨h.1.symm, h.2.symm⟩
      have hnt' : ∀ t' ∈ ts, ¬ (t'.kind = x.kind ∧ t'.ident = x.ident) :=
        fun t' ht' => hnt t' (List.mem_cons_of_mem _ ht')
      cases hr : removeItem t.kind t.ident (l1 ++ l2) with
      | some p =>
        obtain ⟨s, rest⟩ := p
        rw [hr] at hok
        obtain ⟨l1', l2', rfl, h'⟩ := removeItem_insert_some l1 l2 s rest hr
        rw [h' x hx]
        simp only at hok ⊢
        by_cases har : t.kind = .const ∧ t.arity ≠ s.arity
        · rw [if_pos har] at hok; cases hok
        · rw [if_neg har] at hok ⊢
          exact compareTraitItemsLoop_extra ts l1' l2' x hok hxo hnt'
      | none =>
        rw [hr] at hok
        rw [removeItem_insert_none hx l1 l2 hr]
        simp only at hok ⊢
        by_cases hd : t.hasDefault = true
        · rw [if_pos hd] at hok ⊢
          exact compareTraitItemsLoop_extra ts l1 l2 x hok hxo hnt'
        · rw [if_neg hd] at hok; cases hok


theorem clean_dropItem {k : ItemKind} {x : String} {xs : List ItemSig} (h : cleanItems xs = true) :
    cleanItems (dropItem k x xs) = true := by
  rw [cleanItems_iff] at h ⊢
  refine ⟨fun i hi => h.1 i (mem_dropItem.1 hi).1, ?_⟩
  exact List.Nodup.sublist (List.Sublist.map _ List.filter_sublist) h.2

/-- omitting an item that has a trait default keeps the impl accepted -/
theorem compareTraitItemsLoop_default_omitted (ts second : List ItemSig) (t : ItemSig) (hts : cleanItems ts = true)
    (hs : cleanItems second = true) (hok : compareTraitItemsLoop ts second = .ok ()) (ht : t ∈ ts)
    (hd : t.hasDefault = true) : compareTraitItemsLoop ts (dropItem t.kind t.ident second) = .ok () := by
  rw [compareTraitItemsLoop_ok_iff ts _ hts (clean_dropItem hs)]
  obtain ⟨h1, h2, h3⟩ := (compareTraitItemsLoop_ok_iff ts second hts hs).1 hok
  refine ⟨?_, fun s hs' => h2 s (mem_dropItem.1 hs').1, fun t0 ht0 s hs' => h3 t0 ht0 s (mem_dropItem.1 hs').1⟩
  intro t0 ht0 hd0
  obtain ⟨s, hs', hm⟩ := h1 t0 ht0 hd0
  refine ⟨s, mem_dropItem.2 ⟨hs', fun hst => ?_⟩, hm⟩
  have : t0 = t := clean_key_inj hts t0 ht0 t ht (key_eq_iff.2 ⟨hm.1.symm.trans hst.1, hm.2.symm.trans hst.2⟩)
  rw [this, hd] at hd0; cases hd0

/-! ### Inherent mode is trait mode without defaults, with its own messages -/

def ItemSig.strict (i : ItemSig) : ItemSig := { i with hasDefault := false }

def inhDiag : Diag → Diag
  | .missing => .notInOneImpl
  | .notInTrait => .notInOneImpl
  | .noMatch => .genericsMismatch
  | d => d

def inhResult : Except Diag Unit → Except Diag Unit
  | .ok () => .ok ()
  | .error d => .error (inhDiag d)

theorem compareInherentItemsLoop_eq : ∀ (fs second : List ItemSig),
    compareInherentItemsLoop fs second = inhResult (compareTraitItemsLoop (fs.map ItemSig.strict) second)
  | [], second => by
      rw [compareInherentItemsLoop, List.map_nil, compareTraitItemsLoop]
      split
      · rfl
      · split <;> rfl
  | f :: fs, second => by
      rw [compareInherentItemsLoop, List.map_cons, compareTraitItemsLoop]
      have hk : f.strict.kind = f.kind := rfl
      have hi : f.strict.ident = f.ident := rfl
      have ha : f.strict.arity = f.arity := rfl
      have hd : f.strict.hasDefault = false := rfl
      rw [hk, hi, ha, hd]
      split
      · rfl
      · split
        · rfl
        · cases removeItem f.kind f.ident second with
          | none => simp [inhResult, inhDiag]
          | some p =>
            obtain ⟨s, rest⟩ := p
            simp only
            split
            · rfl
            · exact compareInherentItemsLoop_eq fs rest

theorem clean_strict {fs : List ItemSig} : cleanItems (fs.map ItemSig.strict) = cleanItems fs := by
  have h1 : (fs.map ItemSig.strict).map ItemSig.key = fs.map ItemSig.key := by
    rw [List.map_map]; rfl
  simp only [cleanItems, h1, List.all_map]
  rfl

theorem inhResult_ok {r : Except Diag Unit} : inhResult r = .ok () ↔ r = .ok () := by
  cases r with
  | ok u => cases u; simp [inhResult]
  | error d => simp [inhResult]

/-- the acceptance condition of `compare_inherent_items` -/
def InherentAccept (fs second : List ItemSig) : Prop :=
  (∀ f ∈ fs, ∃ s ∈ second, s.kind = f.kind ∧ s.ident = f.ident) ∧
  (∀ s ∈ second, ∃ f ∈ fs, f.kind = s.kind ∧ f.ident = s.ident) ∧
  (∀ f ∈ fs, ∀ s ∈ second, f.kind = .const → s.kind = .const → s.ident = f.ident → f.arity = s.arity)

theorem compareInherentItemsLoop_ok_iff (fs second : List ItemSig) (hf : cleanItems fs = true)
    (hs : cleanItems second = true) : compareInherentItemsLoop fs second = .ok () ↔ InherentAccept fs second := by
  rw [compareInherentItemsLoop_eq, inhResult_ok,
    compareTraitItemsLoop_ok_iff _ _ (by rw [clean_strict]; exact hf) hs]
  constructor
  · rintro ⟨h1, h2, h3⟩
    refine ⟨fun f hf => h1 f.strict (List.mem_map.2 ⟨f, hf, rfl⟩) rfl, ?_,
      fun f hf => h3 f.strict (List.mem_map.2 ⟨f, hf, rfl⟩)⟩
    intro s hs
    obtain ⟨t, ht, hm⟩ := h2 s hs
    obtain ⟨f, hf, rfl⟩ := List.mem_map.1 ht
    exact ⟨f, hf, hm⟩
  · rintro ⟨h1, h2, h3⟩
    refine ⟨?_, ?_, ?_⟩
    · intro t ht _
      obtain ⟨f, hf, rfl⟩ := List.mem_map.1 ht
      exact h1 f hf
    · intro s hs
      obtain ⟨f, hf, hm⟩ := h2 s hs
      exact ⟨f.strict, List.mem_map.2 ⟨f, hf, rfl⟩, hm⟩
    · intro t ht
      obtain ⟨f, hf, rfl⟩ := List.mem_map.1 ht
      exact h3 f hf

theorem compareInherentItemsLoop_missing (fs second : List ItemSig) (f : ItemSig) (hfs : cleanItems fs = true)
    (hok : compareInherentItemsLoop fs second = .ok ()) (hf : f ∈ fs) :
    compareInherentItemsLoop fs (dropItem f.kind f.ident second) = .error .notInOneImpl := by
  rw [compareInherentItemsLoop_eq] at hok ⊢
  have := compareTraitItemsLoop_missing (fs.map ItemSig.strict) second f.strict (by rw [clean_strict]; exact hfs)
    (inhResult_ok.1 hok) (List.mem_map.2 ⟨f, hf, rfl⟩) rfl
  change compareTraitItemsLoop _ (dropItem f.kind f.ident second) = _ at this
  rw [this]; rfl

theorem compareInherentItemsLoop_extra (fs l1 l2 : List ItemSig) (x : ItemSig)
    (hok : compareInherentItemsLoop fs (l1 ++ l2) = .ok ()) (hx : x.kind ≠ .other)
    (hn : ∀ f ∈ fs, ¬ (f.kind = x.kind ∧ f.ident = x.ident)) :
    compareInherentItemsLoop fs (l1 ++ x :: l2) = .error .notInOneImpl := by
  rw [compareInherentItemsLoop_eq] at hok ⊢
  rw [compareTraitItemsLoop_extra _ l1 l2 x (inhResult_ok.1 hok) hx (by
    intro t ht
    obtain ⟨f, hf, rfl⟩ := List.mem_map.1 ht
    exact hn f hf)]
  rfl


/-! ### `firstError` -/

theorem firstError_ok_iff : ∀ {l : List (Except Diag Unit)}, firstError l = .ok () ↔ ∀ r ∈ l, r = .ok ()
  | [] => by simp [firstError]
  | .error d :: rest => by simp [firstError]
  | .ok () :: rest => by simp [firstError, firstError_ok_iff (l := rest)]

theorem firstError_error_iff {d : Diag} : ∀ {l : List (Except Diag Unit)},
    firstError l = .error d ↔ ∃ l1 l2, l = l1 ++ .error d :: l2 ∧ ∀ r ∈ l1, r = .ok ()
  | [] => by simp [firstError]
  | .error e :: rest => by
      simp only [firstError, Except.error.injEq]
      constructor
      · rintro rfl; exact ⟨[], rest, rfl, fun r hr => by cases hr⟩
      · rintro ⟨l1, l2, h, hok⟩
        cases l1 with
        | nil => simp only [List.nil_append, List.cons.injEq, Except.error.injEq] at h; exact h.1
        | cons r l1 =>
          simp only [List.cons_append, List.cons.injEq] at h
          have := hok r (by simp)
          rw [← h.1] at this; cases this
  | .ok () :: rest => by
      simp only [firstError]
      rw [firstError_error_iff (l := rest)]
      constructor
      · rintro ⟨l1, l2, rfl, hok⟩
        refine ⟨.ok () :: l1, l2, rfl, ?_⟩
        intro r hr
        rcases List.mem_cons.1 hr with hr | hr
        · exact hr
        · exact hok r hr
      · rintro ⟨l1, l2, h, hok⟩
        cases l1 with
        | nil => simp at h
        | cons r l1 =>
          simp only [List.cons_append, List.cons.injEq] at h
          exact ⟨l1, l2, h.2, fun r hr => hok r (List.mem_cons_of_mem _ hr)⟩

theorem firstError_append_error {d : Diag} {l1 l2 : List (Except Diag Unit)} (h : ∀ r ∈ l1, r = .ok ()) :
    firstError (l1 ++ .error d :: l2) = .error d :=
  firstError_error_iff.2 ⟨l1, l2, rfl, h⟩

/-! ### Family level -/

/-- the header check of one impl in trait mode (first loop of `validate_trait_impls`) -/
def traitHeader (trait_ item : T) : Except Diag Unit :=
  match implTraitPath item with
  | none => .error .expectedTraitImpl
  | some p =>
      if lastSegIdent p ≠ traitIdent trait_ then .error .noMatch
      else if traitUnsafety trait_ ≠ implUnsafety item then .error .noMatch
      else .ok ()

/-- the item check of one impl in trait mode (second loop) -/
def traitItemsCheck (trait_ item : T) : Except Diag Unit :=
  compareTraitItems (traitItems trait_) (implItemSigs item)

def inherentHeader (item : T) : Except Diag Unit :=
  match implTraitPath item with
  | some _ => .error .expectedInherent
  | none => .ok ()

theorem validateTraitImpls_eq (trait_ : T) (impls : List T) :
    validateTraitImpls trait_ impls =
      match firstError (impls.map (traitHeader trait_)) with
      | .error d => .error d
      | .ok () => firstError (impls.map (traitItemsCheck trait_)) := rfl

theorem validateInherentImpls_eq (impls : List T) :
    validateInherentImpls impls =
      match firstError (impls.map inherentHeader) with
      | .error d => .error d
      | .ok () =>
          match impls with
          | [] => .ok ()
          | first :: rest =>
              match firstError (rest.map (fun item => compareInherentItems (implItemSigs first) (implItemSigs item))) with
              | .error d => .error d
              | .ok () => firstError (rest.map (fun item => compareInherentVis (implItems first) (implItems item))) := rfl

theorem traitHeader_cases (trait_ item : T) :
    traitHeader trait_ item = .ok () ∨ traitHeader trait_ item = .error .expectedTraitImpl ∨
    traitHeader trait_ item = .error .noMatch := by
  unfold traitHeader
  split
  · exact Or.inr (Or.inl rfl)
  · split
    · exact Or.inr (Or.inr rfl)
    · split
      · exact Or.inr (Or.inr rfl)
      · exact Or.inl rfl

theorem traitHeader_ok_iff (trait_ item : T) :
    traitHeader trait_ item = .ok () ↔
      ∃ p, implTraitPath item = some p ∧ lastSegIdent p = traitIdent trait_ ∧
        traitUnsafety trait_ = implUnsafety item := by
  unfold traitHeader
  cases implTraitPath item with
  | none => simp
  | some p =>
    simp only [Option.some.injEq, exists_eq_left']
    by_cases h1 : lastSegIdent p = traitIdent trait_
    · by_cases h2 : traitUnsafety trait_ = implUnsafety item
      · simp [h1, h2]
      · simp [h1, h2]
    · simp [h1]


/-- changing the number of generic parameters of an associated const: `Doesn't match trait definition` -/
theorem compareTraitItemsLoop_arity : ∀ (ts l1 l2 : List ItemSig) (s s' : ItemSig), cleanItems ts = true →
    cleanItems (l1 ++ s :: l2) = true → compareTraitItemsLoop ts (l1 ++ s :: l2) = .ok () →
    s.kind = .const → s'.kind = s.kind → s'.ident = s.ident → s'.arity ≠ s.arity →
    compareTraitItemsLoop ts (l1 ++ s' :: l2) = .error .noMatch
  | [], l1, l2, s, s', _, _, hok, _, _, _, _ => by
      have hno := ok_no_other _ _ hok
      rw [compareTraitItemsLoop, if_neg (by simp [hno])] at hok
      by_cases he : (l1 ++ s :: l2).isEmpty = true
      · simp at he
      · rw [if_neg he] at hok; cases hok
  | t :: ts, l1, l2, s, s', hts, hcl, hok, hsk, hk', hi', har' => by
      obtain ⟨_, _, hts'⟩ := cleanItems_cons.1 hts
      obtain ⟨hcr, hkr⟩ := clean_remove hcl
      have hno := ok_no_other _ _ hok
      have hno' : (l1 ++ s' :: l2).any (fun i => i.kind = .other) = false := by
        simp only [List.any_eq_false, decide_eq_true_eq, List.mem_append, List.mem_cons] at hno ⊢
        rintro y (hy | hy | hy)
        · exact hno y (Or.inl hy)
        · rw [hy, hk', hsk]; decide
        · exact hno y (Or.inr (Or.inr hy))
      rw [compareTraitItemsLoop, if_neg (by simp [hno])] at hok
      rw [compareTraitItemsLoop, if_neg (by simp [hno'])]
      by_cases hto : t.kind = .other
      · rw [if_pos hto] at hok; cases hok
      rw [if_neg hto] at hok ⊢
      by_cases hm : s.is t.kind t.ident
      · -- the trait item that declares the const
        have hl1 : ∀ y ∈ l1, ¬ y.is t.kind t.ident := fun y hy hy' =>
          hkr y (List.mem_append.2 (Or.inl hy)) (key_eq_iff.2 ⟨hy'.1.trans hm.1.symm, hy'.2.trans hm.2.symm⟩)
        have hm' : s'.is t.kind t.ident := ⟨hk'.trans hm.1, hi'.trans hm.2⟩
        rw [removeItem_split l1 l2 hm hl1] at hok
        rw [removeItem_split l1 l2 hm' hl1]
        simp only at hok ⊢
        have htc : t.kind = .const := hm.1.symm.trans hsk
        by_cases har : t.kind = .const ∧ t.arity ≠ s.arity
        · rw [if_pos har] at hok; cases hok
        · have : t.arity = s.arity := Decidable.of_not_not (fun h => har ⟨htc, h⟩)
          rw [if_pos ⟨htc, by rw [this]; exact fun e => har' e.symm⟩]
      · have hm' : ¬ s'.is t.kind t.ident := fun h => hm ⟨hk'.symm.trans h.1, hi'.symm.trans h.2⟩
        cases hr : removeItem t.kind t.ident (l1 ++ l2) with
        | none =>
          rw [removeItem_insert_none hm l1 l2 hr] at hok
          rw [removeItem_insert_none hm' l1 l2 hr]
          simp only at hok ⊢
          by_cases hd : t.hasDefault = true
          · rw [if_pos hd] at hok ⊢
            exact compareTraitItemsLoop_arity ts l1 l2 s s' hts' hcl hok hsk hk' hi' har'
          · rw [if_neg hd] at hok; cases hok
        | some p =>
          obtain ⟨s0, rest⟩ := p
          obtain ⟨l1', l2', rfl, h'⟩ := removeItem_insert_some l1 l2 s0 _ hr
          have hrs := h' s hm
          rw [hrs] at hok
          rw [h' s' hm']
          simp only at hok ⊢
          by_cases har : t.kind = .const ∧ t.arity ≠ s0.arity
          · rw [if_pos har] at hok; cases hok
          · rw [if_neg har] at hok ⊢
            obtain ⟨m1, m2, hsplit, hrest, _, _⟩ := removeItem_some hrs
            have hcl' : cleanItems (l1' ++ s :: l2') = true := by
              rw [hrest]; rw [hsplit] at hcl; exact (clean_remove hcl).1
            exact compareTraitItemsLoop_arity ts l1' l2' s s' hts' hcl' hok hsk hk' hi' har'


theorem compareInherentItemsLoop_arity (fs l1 l2 : List ItemSig) (s s' : ItemSig) (hfs : cleanItems fs = true)
    (hcl : cleanItems (l1 ++ s :: l2) = true) (hok : compareInherentItemsLoop fs (l1 ++ s :: l2) = .ok ())
    (hsk : s.kind = .const) (hk' : s'.kind = s.kind) (hi' : s'.ident = s.ident) (har : s'.arity ≠ s.arity) :
    compareInherentItemsLoop fs (l1 ++ s' :: l2) = .error .genericsMismatch := by
  rw [compareInherentItemsLoop_eq] at hok ⊢
  rw [compareTraitItemsLoop_arity _ l1 l2 s s' (by rw [clean_strict]; exact hfs) hcl (inhResult_ok.1 hok)
    hsk hk' hi' har]
  rfl

theorem firstError_map_error_iff {α : Type} {f : α → Except Diag Unit} {d : Diag} : ∀ {l : List α},
    firstError (l.map f) = .error d ↔
      ∃ pre x post, l = pre ++ x :: post ∧ f x = .error d ∧ ∀ y ∈ pre, f y = .ok ()
  | [] => by simp [firstError]
  | a :: l => by
      rw [List.map_cons]
      cases ha : f a with
      | error e =>
        simp only [firstError, Except.error.injEq]
        constructor
        · rintro rfl; exact ⟨[], a, l, rfl, ha, fun y hy => by cases hy⟩
        · rintro ⟨pre, x, post, h, hx, hpre⟩
          cases pre with
          | nil =>
            simp only [List.nil_append, List.cons.injEq] at h
            rw [← h.1, ha] at hx; injection hx
          | cons b pre =>
            simp only [List.cons_append, List.cons.injEq] at h
            have := hpre b (by simp)
            rw [← h.1, ha] at this; cases this
      | ok u =>
        cases u
        simp only [firstError]
        rw [firstError_map_error_iff (l := l)]
        constructor
        · rintro ⟨pre, x, post, rfl, hx, hpre⟩
          refine ⟨a :: pre, x, post, rfl, hx, ?_⟩
          intro y hy
          rcases List.mem_cons.1 hy with hy | hy
          · rw [hy]; exact ha
          · exact hpre y hy
        · rintro ⟨pre, x, post, h, hx, hpre⟩
          cases pre with
          | nil =>
            simp only [List.nil_append, List.cons.injEq] at h
            rw [← h.1, ha] at hx; cases hx
          | cons b pre =>
            simp only [List.cons_append, List.cons.injEq] at h
            exact ⟨pre, x, post, h.2, hx, fun y hy => hpre y (List.mem_cons_of_mem _ hy)⟩

theorem firstError_map_ok_iff {α : Type} {f : α → Except Diag Unit} {l : List α} :
    firstError (l.map f) = .ok () ↔ ∀ x ∈ l, f x = .ok () := by
  rw [firstError_ok_iff]
  constructor
  · intro h x hx; exact h _ (List.mem_map.2 ⟨x, hx, rfl⟩)
  · intro h r hr
    obtain ⟨x, hx, rfl⟩ := List.mem_map.1 hr
    exact h x hx

/-- one family, in the mode `ImplGroups::new` selects -/
def validateFamily (trait_ : Option T) (fam : List T) : Except Diag Unit :=
  match trait_ with
  | some t => validateTraitImpls t fam
  | none => validateInherentImpls fam

theorem validateAll_eq (trait_ : Option T) (fams : List (List T)) :
    validateAll trait_ fams = firstError (fams.map (validateFamily trait_)) := by
  unfold validateAll
  congr 1
  apply List.map_congr_left
  intro fam _
  cases trait_ <;> rfl

/-! ### The look-up table `itemMap` (IndexMap semantics: a repeated name overwrites the value, keeps the first position) -/

/-- the keys of the table are the keys of the block -/
theorem itemMap_exists_iff (P : ItemKind → String → Prop) : ∀ (xs : List ItemSig),
    (∃ s ∈ itemMap xs, P s.kind s.ident) ↔ (∃ s ∈ xs, P s.kind s.ident)
  | [] => by simp [itemMap]
  | i :: is => by
      have ih := itemMap_exists_iff P is
      rw [itemMap]
      cases hr : removeItem i.kind i.ident (itemMap is) with
      | none =>
        simp only [List.mem_cons, exists_eq_or_imp, ih]
      | some p =>
        obtain ⟨j, rest⟩ := p
        obtain ⟨l1, l2, h1, rfl, hj, _⟩ := removeItem_some hr
        simp only
        rw [h1] at ih
        constructor
        · rintro ⟨s, hs, hP⟩
          rcases List.mem_cons.1 hs with e | hs
          · exact ⟨i, by simp, by rw [← hj.1, ← hj.2, ← e]; exact hP⟩
          · obtain ⟨s', hs', hP'⟩ := ih.1 ⟨s, by
              simp only [List.mem_append, List.mem_cons] at hs ⊢
              rcases hs with hs | hs
              · exact Or.inl hs
              · exact Or.inr (Or.inr hs), hP⟩
            exact ⟨s', List.mem_cons_of_mem _ hs', hP'⟩
        · rintro ⟨s, hs, hP⟩
          rcases List.mem_cons.1 hs with e | hs
          · exact ⟨j, by simp, by rw [hj.1, hj.2, ← e]; exact hP⟩
          · obtain ⟨s', hs', hP'⟩ := ih.2 ⟨s, hs, hP⟩
            refine ⟨s', ?_, hP'⟩
            simp only [List.mem_append, List.mem_cons] at hs' ⊢
            rcases hs' with h | h | h
            · exact Or.inr (Or.inl h)
            · exact Or.inl h
            · exact Or.inr (Or.inr h)

theorem itemMap_any_other (xs : List ItemSig) :
    (itemMap xs).any (fun i => i.kind = .other) = xs.any (fun i => i.kind = .other) := by
  have := itemMap_exists_iff (fun k _ => k = .other) xs
  rw [Bool.eq_iff_iff]
  simpa only [List.any_eq_true, decide_eq_true_eq] using this

/-- no key occurs twice in the table -/
theorem itemMap_nodup : ∀ (xs : List ItemSig), ((itemMap xs).map ItemSig.key).Nodup
  | [] => by simp [itemMap]
  | i :: is => by
      have ih := itemMap_nodup is
      rw [itemMap]
      cases hr : removeItem i.kind i.ident (itemMap is) with
      | none =>
        simp only [List.map_cons, List.nodup_cons, List.mem_map, not_exists, not_and]
        refine ⟨fun s hs hk => ?_, ih⟩
        exact removeItem_none.1 hr s hs (key_eq_iff.1 hk)
      | some p =>
        obtain ⟨j, rest⟩ := p
        obtain ⟨l1, l2, h1, rfl, _, _⟩ := removeItem_some hr
        simp only
        rw [h1] at ih
        exact ((List.perm_middle (a := j) (l₁ := l1) (l₂ := l2)).map ItemSig.key).nodup_iff.1 ih

/-- a block without repeated names is its own table: on such blocks nothing changed -/
theorem itemMap_of_nodup : ∀ {xs : List ItemSig}, (xs.map ItemSig.key).Nodup → itemMap xs = xs
  | [], _ => rfl
  | i :: is, h => by
      simp only [List.map_cons, List.nodup_cons, List.mem_map, not_exists, not_and] at h
      rw [itemMap, itemMap_of_nodup h.2,
        removeItem_none.2 (fun s hs hk => h.1 s hs (key_eq_iff.2 hk))]

theorem itemMap_of_clean {xs : List ItemSig} (h : cleanItems xs = true) : itemMap xs = xs :=
  itemMap_of_nodup (cleanItems_iff.1 h).2

theorem clean_itemMap {xs : List ItemSig} (h : xs.any (fun i => i.kind = .other) = false) :
    cleanItems (itemMap xs) = true := by
  rw [cleanItems_iff]
  refine ⟨?_, itemMap_nodup xs⟩
  rw [← itemMap_any_other] at h
  simpa only [List.any_eq_false, decide_eq_true_eq] using h

theorem removeItem_dropItem {k k' : ItemKind} {x x' : String} (hne : ¬ (k' = k ∧ x' = x)) (m : List ItemSig) :
    removeItem k' x' (dropItem k x m) = (removeItem k' x' m).map (fun p => (p.1, dropItem k x p.2)) := by
  cases hr : removeItem k' x' m with
  | none =>
    exact removeItem_none.2 (fun s hs => removeItem_none.1 hr s (mem_dropItem.1 hs).1)
  | some p =>
    obtain ⟨s, rest⟩ := p
    obtain ⟨l1, l2, rfl, rfl, hst, hl1⟩ := removeItem_some hr
    have hs' : ¬ s.is k x := fun h => hne ⟨hst.1.symm.trans h.1, hst.2.symm.trans h.2⟩
    rw [dropItem_append, dropItem_cons_ne hs', Option.map_some, dropItem_append]
    exact removeItem_split _ _ hst (fun y hy => hl1 y (mem_dropItem.1 hy).1)

theorem dropItem_cons_eq {k : ItemKind} {x : String} {s : ItemSig} (h : s.is k x) (l : List ItemSig) :
    dropItem k x (s :: l) = dropItem k x l := by
  simp only [dropItem]; rw [List.filter_cons_of_neg (by rw [decide_eq_true_eq]; exact fun hn => hn h)]

/-- removing a name from the block removes its entry from the table -/
theorem itemMap_dropItem (k : ItemKind) (x : String) : ∀ (xs : List ItemSig),
    itemMap (dropItem k x xs) = dropItem k x (itemMap xs)
  | [] => rfl
  | i :: is => by
      have ih := itemMap_dropItem k x is
      by_cases hi : i.is k x
      · rw [dropItem_cons_eq hi, ih, itemMap]
        cases hr : removeItem i.kind i.ident (itemMap is) with
        | none => simp only; rw [dropItem_cons_eq hi]
        | some p =>
          obtain ⟨j, rest⟩ := p
          obtain ⟨l1, l2, h1, rfl, hj, _⟩ := removeItem_some hr
          have hjk : j.is k x := ⟨hj.1.trans hi.1, hj.2.trans hi.2⟩
          simp only
          rw [h1, dropItem_cons_eq hjk, dropItem_append, dropItem_cons_eq hjk, dropItem_append]
      · rw [dropItem_cons_ne hi, itemMap, ih, removeItem_dropItem (fun h => hi ⟨h.1, h.2⟩), itemMap]
        cases hr : removeItem i.kind i.ident (itemMap is) with
        | none => simp only [Option.map_none]; rw [dropItem_cons_ne hi]
        | some p =>
          obtain ⟨j, rest⟩ := p
          obtain ⟨_, _, _, _, hj, _⟩ := removeItem_some hr
          have hjk : ¬ j.is k x := fun h => hi ⟨hj.1.symm.trans h.1, hj.2.symm.trans h.2⟩
          simp only [Option.map_some]
          rw [dropItem_cons_ne hjk]

/-- an item with a new name, inserted anywhere into the block, is inserted into the table -/
theorem itemMap_insert {x : ItemSig} : ∀ (l1 l2 : List ItemSig), (∀ y ∈ l1 ++ l2, ¬ y.is x.kind x.ident) →
    ∃ l1' l2', itemMap (l1 ++ l2) = l1' ++ l2' ∧ itemMap (l1 ++ x :: l2) = l1' ++ x :: l2'
  | [], l2, h => by
      refine ⟨[], itemMap l2, rfl, ?_⟩
      simp only [List.nil_append] at h ⊢
      rw [itemMap, removeItem_none.2]
      intro s hs hsx
      obtain ⟨s', hs', hP⟩ := (itemMap_exists_iff (fun k n => k = x.kind ∧ n = x.ident) l2).1 ⟨s, hs, hsx⟩
      exact h s' hs' hP
  | i :: l1, l2, h => by
      obtain ⟨l1', l2', e1, e2⟩ := itemMap_insert l1 l2 (fun y hy => h y (List.mem_cons_of_mem _ hy))
      have hx : ¬ x.is i.kind i.ident := fun hxi => h i (by simp) ⟨hxi.1.symm, hxi.2.symm⟩
      rw [List.cons_append, List.cons_append, itemMap, itemMap, e1, e2]
      cases hr : removeItem i.kind i.ident (l1' ++ l2') with
      | none =>
        rw [removeItem_insert_none hx l1' l2' hr]
        exact ⟨i :: l1', l2', rfl, rfl⟩
      | some p =>
        obtain ⟨j, rest⟩ := p
        obtain ⟨m1, m2, rfl, h'⟩ := removeItem_insert_some l1' l2' j rest hr
        rw [h' x hx]
        exact ⟨j :: m1, m2, rfl, rfl⟩

/-! ### `itemMap` is the table the code builds: `IndexMap::insert` for every item of the block, from the left -/

/-- `IndexMap::insert`: the value of a key that is present is overwritten in place, a new key is appended -/
def insertItem : List ItemSig → ItemSig → List ItemSig
  | [], i => [i]
  | j :: m, i => if j.kind = i.kind ∧ j.ident = i.ident then i :: m else j :: insertItem m i

theorem removeItem_insertItem_ne {k : ItemKind} {x : String} {z : ItemSig} (hz : ¬ z.is k x) : ∀ (m : List ItemSig),
    removeItem k x (insertItem m z) = (removeItem k x m).map (fun p => (p.1, insertItem p.2 z))
  | [] => by simp only [insertItem, removeItem, if_neg hz, Option.map_none]
  | j :: m => by
      rw [insertItem]
      by_cases hjz : j.kind = z.kind ∧ j.ident = z.ident
      · have hj : ¬ (j.kind = k ∧ j.ident = x) := fun h => hz ⟨hjz.1.symm.trans h.1, hjz.2.symm.trans h.2⟩
        rw [if_pos hjz, removeItem, if_neg hz, removeItem, if_neg hj]
        cases removeItem k x m with
        | none => rfl
        | some p => simp only [Option.map_some, insertItem, if_pos hjz]
      · rw [if_neg hjz, removeItem, removeItem]
        by_cases hj : j.kind = k ∧ j.ident = x
        · rw [if_pos hj, if_pos hj]; rfl
        · rw [if_neg hj, if_neg hj, removeItem_insertItem_ne hz m]
          cases removeItem k x m with
          | none => rfl
          | some p => simp only [Option.map_some, insertItem, if_neg hjz]

theorem removeItem_insertItem_eq {k : ItemKind} {x : String} {z : ItemSig} (hz : z.is k x) : ∀ (m : List ItemSig),
    removeItem k x (insertItem m z) = some (z, match removeItem k x m with | some p => p.2 | none => m)
  | [] => by simp only [insertItem, removeItem, if_pos hz]
  | j :: m => by
      rw [insertItem]
      by_cases hjz : j.kind = z.kind ∧ j.ident = z.ident
      · have hj : j.kind = k ∧ j.ident = x := ⟨hjz.1.trans hz.1, hjz.2.trans hz.2⟩
        rw [if_pos hjz, removeItem, if_pos hz, removeItem, if_pos hj]
      · have hj : ¬ (j.kind = k ∧ j.ident = x) := fun h => hjz ⟨h.1.trans hz.1.symm, h.2.trans hz.2.symm⟩
        rw [if_neg hjz, removeItem, if_neg hj, removeItem_insertItem_eq hz m, removeItem, if_neg hj]
        cases removeItem k x m with
        | none => rfl
        | some p => rfl

theorem itemMap_snoc (z : ItemSig) : ∀ (ys : List ItemSig), itemMap (ys ++ [z]) = insertItem (itemMap ys) z
  | [] => by simp [itemMap, removeItem, insertItem]
  | i :: ys => by
      rw [List.cons_append, itemMap, itemMap_snoc z ys, itemMap]
      by_cases hz : z.is i.kind i.ident
      · rw [removeItem_insertItem_eq hz]
        cases hr : removeItem i.kind i.ident (itemMap ys) with
        | none => simp only [insertItem, if_pos (show i.kind = z.kind ∧ i.ident = z.ident from ⟨hz.1.symm, hz.2.symm⟩)]
        | some p =>
          obtain ⟨j, rest⟩ := p
          obtain ⟨_, _, _, _, hj, _⟩ := removeItem_some hr
          simp only [insertItem, if_pos (show j.kind = z.kind ∧ j.ident = z.ident from
            ⟨hj.1.trans hz.1.symm, hj.2.trans hz.2.symm⟩)]
      · rw [removeItem_insertItem_ne hz]
        cases hr : removeItem i.kind i.ident (itemMap ys) with
        | none =>
          simp only [Option.map_none, insertItem,
            if_neg (show ¬ (i.kind = z.kind ∧ i.ident = z.ident) from fun h => hz ⟨h.1.symm, h.2.symm⟩)]
        | some p =>
          obtain ⟨j, rest⟩ := p
          obtain ⟨_, _, _, _, hj, _⟩ := removeItem_some hr
          simp only [Option.map_some, insertItem, if_neg (show ¬ (j.kind = z.kind ∧ j.ident = z.ident) from
            fun h => hz ⟨h.1.symm.trans hj.1, h.2.symm.trans hj.2⟩)]

theorem foldl_insertItem_itemMap : ∀ (xs ys : List ItemSig),
    xs.foldl insertItem (itemMap ys) = itemMap (ys ++ xs)
  | [], ys => by simp
  | z :: xs, ys => by
      rw [List.foldl_cons, ← itemMap_snoc, foldl_insertItem_itemMap xs (ys ++ [z]), List.append_assoc]
      rfl

/-- the structural `itemMap` of the model IS the loop of the code: every item of the block, from the left, entered
    with `IndexMap::insert` into an empty table (same entries, same order) -/
theorem itemMap_eq_foldl_insert (xs : List ItemSig) : itemMap xs = xs.foldl insertItem [] := by
  have := foldl_insertItem_itemMap xs []
  simpa [itemMap] using this.symm

/-! ### `compare_trait_items` / `compare_inherent_items` on the block (table built first) -/

theorem compareTraitItems_def (ts second : List ItemSig) :
    compareTraitItems ts second = compareTraitItemsLoop ts (itemMap second) := rfl

/-- since /repo 133a44b BOTH blocks are turned into tables; an unsupported item of the first block aborts while its table
    is built -/
theorem compareInherentItems_def (fs second : List ItemSig) :
    compareInherentItems fs second =
      if fs.any (fun i => i.kind = .other) then .error .notSupported
      else compareInherentItemsLoop (itemMap fs) (itemMap second) := rfl

/-- the table of a table is the table -/
theorem itemMap_idem (xs : List ItemSig) : itemMap (itemMap xs) = itemMap xs :=
  itemMap_of_nodup (itemMap_nodup xs)

/-- first block without unsupported items: the loop over the two tables -/
theorem compareInherentItems_of_no_other {fs : List ItemSig} (h : fs.any (fun i => i.kind = .other) = false)
    (second : List ItemSig) :
    compareInherentItems fs second = compareInherentItemsLoop (itemMap fs) (itemMap second) := by
  rw [compareInherentItems_def, h]; rfl

/-- first block with an unsupported item: "Not supported", whatever the other block is -/
theorem compareInherentItems_of_other {fs : List ItemSig} (h : fs.any (fun i => i.kind = .other) = true)
    (second : List ItemSig) : compareInherentItems fs second = .error .notSupported := by
  rw [compareInherentItems_def, h]; rfl

/-- a clean first block (no unsupported item, no repeated name) is its own table: the loop over the block, as before
    /repo 133a44b -/
theorem compareInherentItems_of_clean_first {fs : List ItemSig} (hf : cleanItems fs = true) (second : List ItemSig) :
    compareInherentItems fs second = compareInherentItemsLoop fs (itemMap second) := by
  rw [compareInherentItems_of_no_other (clean_no_other hf), itemMap_of_clean hf]

/-- an accepted comparison: the first block has no unsupported item -/
theorem compareInherentItems_ok_no_other_first {fs second : List ItemSig}
    (h : compareInherentItems fs second = .ok ()) : fs.any (fun i => i.kind = .other) = false := by
  cases ho : fs.any (fun i => i.kind = .other) with
  | false => rfl
  | true => rw [compareInherentItems_of_other ho] at h; cases h

/-- the first block counts through its table only (one entry per name: first position, last value) -/
theorem compareInherentItems_first_table (fs second : List ItemSig) :
    compareInherentItems fs second = compareInherentItems (itemMap fs) second := by
  rw [compareInherentItems_def, compareInherentItems_def, itemMap_any_other, itemMap_idem]

/-- on a block without repeated names the table is the block -/
theorem compareTraitItems_of_nodup (ts : List ItemSig) {second : List ItemSig} (h : (second.map ItemSig.key).Nodup) :
    compareTraitItems ts second = compareTraitItemsLoop ts second := by
  rw [compareTraitItems_def, itemMap_of_nodup h]

/-- the other block has no repeated names: its table is the block (the FIRST block still counts through its table, and
    an unsupported item in it aborts) -/
theorem compareInherentItems_of_nodup (fs : List ItemSig) {second : List ItemSig} (h : (second.map ItemSig.key).Nodup) :
    compareInherentItems fs second =
      if fs.any (fun i => i.kind = .other) then .error .notSupported
      else compareInherentItemsLoop (itemMap fs) second := by
  rw [compareInherentItems_def, itemMap_of_nodup h]

/-- both blocks without repeated names, the first without unsupported items: the plain loop over the blocks -/
theorem compareInherentItems_of_clean_nodup {fs : List ItemSig} (hf : cleanItems fs = true) {second : List ItemSig}
    (h : (second.map ItemSig.key).Nodup) :
    compareInherentItems fs second = compareInherentItemsLoop fs second := by
  rw [compareInherentItems_of_clean_first hf, itemMap_of_nodup h]

/-- an accepted run: every entry of the table was asked for by a trait item -/
theorem compareTraitItemsLoop_ok_covered : ∀ (ts second : List ItemSig), compareTraitItemsLoop ts second = .ok () →
    ∀ s ∈ second, ∃ t ∈ ts, t.kind = s.kind ∧ t.ident = s.ident
  | [], second, hok, s, hs => by
      rw [compareTraitItemsLoop] at hok
      split at hok
      · cases hok
      · split at hok
        · rename_i he; simp only [List.isEmpty_iff] at he; subst he; cases hs
        · cases hok
  | t :: ts, second, hok, s, hs => by
      rw [compareTraitItemsLoop] at hok
      split at hok
      · cases hok
      split at hok
      · cases hok
      cases hr : removeItem t.kind t.ident second with
      | none =>
        rw [hr] at hok
        simp only at hok
        split at hok
        · obtain ⟨t', ht', hm⟩ := compareTraitItemsLoop_ok_covered ts second hok s hs
          exact ⟨t', List.mem_cons_of_mem _ ht', hm⟩
        · cases hok
      | some p =>
        obtain ⟨s0, rest⟩ := p
        rw [hr] at hok
        simp only at hok
        split at hok
        · cases hok
        · obtain ⟨l1, l2, rfl, rfl, hst, _⟩ := removeItem_some hr
          simp only [List.mem_append, List.mem_cons] at hs
          have hcov := compareTraitItemsLoop_ok_covered ts (l1 ++ l2) hok
          rcases hs with hs | hs | hs
          · obtain ⟨t', ht', hm⟩ := hcov s (List.mem_append.2 (Or.inl hs))
            exact ⟨t', List.mem_cons_of_mem _ ht', hm⟩
          · exact ⟨t, by simp, by rw [hs]; exact ⟨hst.1.symm, hst.2.symm⟩⟩
          · obtain ⟨t', ht', hm⟩ := hcov s (List.mem_append.2 (Or.inr hs))
            exact ⟨t', List.mem_cons_of_mem _ ht', hm⟩

/-- acceptance in general (repeated names allowed in the block): the characterisation speaks about the TABLE, i.e. about
    the last item of every name -/
theorem compareTraitItems_ok_iff_map (ts second : List ItemSig) (hts : cleanItems ts = true) :
    compareTraitItems ts second = .ok () ↔ TraitAccept ts (itemMap second) := by
  rw [compareTraitItems_def]
  by_cases ho : second.any (fun i => i.kind = .other) = true
  · constructor
    · intro h
      have := ok_no_other _ _ h
      rw [itemMap_any_other, ho] at this; cases this
    · intro h
      exfalso
      rw [← itemMap_any_other] at ho
      obtain ⟨s, hs, hk⟩ := List.any_eq_true.1 ho
      obtain ⟨t, ht, hm⟩ := h.2.1 s hs
      exact (cleanItems_iff.1 hts).1 t ht (hm.1.trans (by simpa using hk))
  · exact compareTraitItemsLoop_ok_iff ts _ hts (clean_itemMap (by simpa using ho))

theorem compareTraitItems_ok_iff (ts second : List ItemSig) (hts : cleanItems ts = true)
    (hs : cleanItems second = true) : compareTraitItems ts second = .ok () ↔ TraitAccept ts second := by
  rw [compareTraitItems_def, itemMap_of_clean hs]
  exact compareTraitItemsLoop_ok_iff ts second hts hs

theorem compareTraitItems_ok_no_other {ts second : List ItemSig} (h : compareTraitItems ts second = .ok ()) :
    second.any (fun i => i.kind = .other) = false := by
  rw [← itemMap_any_other]; exact ok_no_other _ _ h

/-- omitting (every copy of) an item that has a trait default keeps the impl accepted; no condition on the block -/
theorem compareTraitItems_default_omitted (ts second : List ItemSig) (t : ItemSig) (hts : cleanItems ts = true)
    (hok : compareTraitItems ts second = .ok ()) (ht : t ∈ ts)
    (hd : t.hasDefault = true) : compareTraitItems ts (dropItem t.kind t.ident second) = .ok () := by
  rw [compareTraitItems_def, itemMap_dropItem]
  exact compareTraitItemsLoop_default_omitted ts _ t hts (clean_itemMap (compareTraitItems_ok_no_other hok)) hok ht hd

theorem compareTraitItems_missing (ts second : List ItemSig) (t : ItemSig) (hts : cleanItems ts = true)
    (hok : compareTraitItems ts second = .ok ()) (ht : t ∈ ts) (hd : t.hasDefault = false) :
    compareTraitItems ts (dropItem t.kind t.ident second) = .error .missing := by
  rw [compareTraitItems_def, itemMap_dropItem]
  exact compareTraitItemsLoop_missing ts _ t hts hok ht hd

theorem compareTraitItems_extra (ts l1 l2 : List ItemSig) (x : ItemSig)
    (hok : compareTraitItems ts (l1 ++ l2) = .ok ()) (hxo : x.kind ≠ .other)
    (hn : ∀ t ∈ ts, ¬ (t.kind = x.kind ∧ t.ident = x.ident)) :
    compareTraitItems ts (l1 ++ x :: l2) = .error .notInTrait := by
  rw [compareTraitItems_def] at hok ⊢
  have hfresh : ∀ y ∈ l1 ++ l2, ¬ y.is x.kind x.ident := by
    intro y hy hyx
    obtain ⟨s, hs, hP⟩ := (itemMap_exists_iff (fun k n => k = x.kind ∧ n = x.ident) (l1 ++ l2)).2 ⟨y, hy, hyx⟩
    obtain ⟨t, ht, hm⟩ := compareTraitItemsLoop_ok_covered ts _ hok s hs
    exact hn t ht ⟨hm.1.trans hP.1, hm.2.trans hP.2⟩
  obtain ⟨l1', l2', e1, e2⟩ := itemMap_insert l1 l2 hfresh
  rw [e1] at hok
  rw [e2]
  exact compareTraitItemsLoop_extra ts l1' l2' x hok hxo hn

theorem compareTraitItems_arity (ts l1 l2 : List ItemSig) (s s' : ItemSig) (hts : cleanItems ts = true)
    (hcl : cleanItems (l1 ++ s :: l2) = true) (hok : compareTraitItems ts (l1 ++ s :: l2) = .ok ())
    (hsk : s.kind = .const) (hk' : s'.kind = s.kind) (hi' : s'.ident = s.ident) (har' : s'.arity ≠ s.arity) :
    compareTraitItems ts (l1 ++ s' :: l2) = .error .noMatch := by
  have hnd := (cleanItems_iff.1 hcl).2
  have hkeys : (l1 ++ s' :: l2).map ItemSig.key = (l1 ++ s :: l2).map ItemSig.key := by
    simp only [List.map_append, List.map_cons, key_eq_iff.2 ⟨hk', hi'⟩]
  rw [compareTraitItems_of_nodup ts hnd] at hok
  rw [compareTraitItems_of_nodup ts (by rw [hkeys]; exact hnd)]
  exact compareTraitItemsLoop_arity ts l1 l2 s s' hts hcl hok hsk hk' hi' har'

/-- `compare_inherent_items` is `compare_trait_items` without defaults, with its own messages — the TABLE of the first
    block playing the trait's item list; an unsupported item of the first block aborts before anything is compared -/
theorem compareInherentItems_eq (fs second : List ItemSig) :
    compareInherentItems fs second =
      if fs.any (fun i => i.kind = .other) then .error .notSupported
      else inhResult (compareTraitItems ((itemMap fs).map ItemSig.strict) second) := by
  rw [compareInherentItems_def, compareInherentItemsLoop_eq (itemMap fs) (itemMap second)]
  rfl

theorem compareInherentItems_eq_of_no_other {fs : List ItemSig} (h : fs.any (fun i => i.kind = .other) = false)
    (second : List ItemSig) :
    compareInherentItems fs second = inhResult (compareTraitItems ((itemMap fs).map ItemSig.strict) second) := by
  rw [compareInherentItems_eq, h]; rfl

/-- clean first block: the statement as it was before /repo 133a44b -/
theorem compareInherentItems_eq_of_clean {fs : List ItemSig} (hf : cleanItems fs = true) (second : List ItemSig) :
    compareInherentItems fs second = inhResult (compareTraitItems (fs.map ItemSig.strict) second) := by
  rw [compareInherentItems_eq_of_no_other (clean_no_other hf), itemMap_of_clean hf]

theorem compareInherentItems_ok_iff_map (fs second : List ItemSig) (hf : cleanItems fs = true) :
    compareInherentItems fs second = .ok () ↔ InherentAccept fs (itemMap second) := by
  rw [compareInherentItems_of_clean_first hf]
  by_cases ho : second.any (fun i => i.kind = .other) = true
  · constructor
    · intro h
      rw [compareInherentItemsLoop_eq, inhResult_ok] at h
      have := ok_no_other _ _ h
      rw [itemMap_any_other, ho] at this; cases this
    · intro h
      exfalso
      rw [← itemMap_any_other] at ho
      obtain ⟨s, hs, hk⟩ := List.any_eq_true.1 ho
      obtain ⟨t, ht, hm⟩ := h.2.1 s hs
      exact (cleanItems_iff.1 hf).1 t ht (hm.1.trans (by simpa using hk))
  · exact compareInherentItemsLoop_ok_iff fs _ hf (clean_itemMap (by simpa using ho))

/-- acceptance with NO condition on either block: no unsupported item in the first block, and the characterisation read on
    the two tables (the last copy of every name, on both sides) -/
theorem compareInherentItems_ok_iff_tables (fs second : List ItemSig) :
    compareInherentItems fs second = .ok () ↔
      fs.any (fun i => i.kind = .other) = false ∧ InherentAccept (itemMap fs) (itemMap second) := by
  cases ho : fs.any (fun i => i.kind = .other) with
  | true =>
    rw [compareInherentItems_of_other ho]
    simp
  | false =>
    rw [compareInherentItems_first_table, compareInherentItems_ok_iff_map _ _ (clean_itemMap ho)]
    simp

theorem compareInherentItems_ok_iff (fs second : List ItemSig) (hf : cleanItems fs = true)
    (hs : cleanItems second = true) : compareInherentItems fs second = .ok () ↔ InherentAccept fs second := by
  rw [compareInherentItems_of_clean_first hf, itemMap_of_clean hs]
  exact compareInherentItemsLoop_ok_iff fs second hf hs

theorem compareInherentItems_missing (fs second : List ItemSig) (f : ItemSig) (hfs : cleanItems fs = true)
    (hok : compareInherentItems fs second = .ok ()) (hf : f ∈ fs) :
    compareInherentItems fs (dropItem f.kind f.ident second) = .error .notInOneImpl := by
  rw [compareInherentItems_of_clean_first hfs] at hok ⊢
  rw [itemMap_dropItem]
  exact compareInherentItemsLoop_missing fs _ f hfs hok hf

/-- the same without a condition on the first block (repeated names allowed): dropping from the other block every copy of
    a name the first block has -/
theorem compareInherentItems_missing_any (fs second : List ItemSig) (f : ItemSig)
    (hok : compareInherentItems fs second = .ok ()) (hf : f ∈ fs) :
    compareInherentItems fs (dropItem f.kind f.ident second) = .error .notInOneImpl := by
  have hno := compareInherentItems_ok_no_other_first hok
  obtain ⟨g, hg, hgk⟩ := (itemMap_exists_iff (fun k n => k = f.kind ∧ n = f.ident) fs).2 ⟨f, hf, rfl, rfl⟩
  rw [compareInherentItems_first_table] at hok ⊢
  have := compareInherentItems_missing (itemMap fs) second g (clean_itemMap hno) hok hg
  rw [hgk.1, hgk.2] at this
  exact this

theorem compareInherentItems_extra (fs l1 l2 : List ItemSig) (x : ItemSig)
    (hok : compareInherentItems fs (l1 ++ l2) = .ok ()) (hx : x.kind ≠ .other)
    (hn : ∀ f ∈ fs, ¬ (f.kind = x.kind ∧ f.ident = x.ident)) :
    compareInherentItems fs (l1 ++ x :: l2) = .error .notInOneImpl := by
  have hno := compareInherentItems_ok_no_other_first hok
  rw [compareInherentItems_eq_of_no_other hno] at hok ⊢
  rw [compareTraitItems_extra _ l1 l2 x (inhResult_ok.1 hok) hx (by
    intro t ht
    obtain ⟨f, hf, rfl⟩ := List.mem_map.1 ht
    intro hfx
    obtain ⟨f', hf', hP⟩ := (itemMap_exists_iff (fun k n => k = x.kind ∧ n = x.ident) fs).1 ⟨f, hf, hfx⟩
    exact hn f' hf' hP)]
  rfl

theorem compareInherentItems_arity (fs l1 l2 : List ItemSig) (s s' : ItemSig) (hfs : cleanItems fs = true)
    (hcl : cleanItems (l1 ++ s :: l2) = true) (hok : compareInherentItems fs (l1 ++ s :: l2) = .ok ())
    (hsk : s.kind = .const) (hk' : s'.kind = s.kind) (hi' : s'.ident = s.ident) (har : s'.arity ≠ s.arity) :
    compareInherentItems fs (l1 ++ s' :: l2) = .error .genericsMismatch := by
  rw [compareInherentItems_eq_of_clean hfs] at hok ⊢
  rw [compareTraitItems_arity _ l1 l2 s s' (by rw [clean_strict]; exact hfs) hcl (inhResult_ok.1 hok)
    hsk hk' hi' har]
  rfl

/-- the same without a condition on the first block -/
theorem compareInherentItems_arity_any (fs l1 l2 : List ItemSig) (s s' : ItemSig)
    (hcl : cleanItems (l1 ++ s :: l2) = true) (hok : compareInherentItems fs (l1 ++ s :: l2) = .ok ())
    (hsk : s.kind = .const) (hk' : s'.kind = s.kind) (hi' : s'.ident = s.ident) (har : s'.arity ≠ s.arity) :
    compareInherentItems fs (l1 ++ s' :: l2) = .error .genericsMismatch := by
  have hno := compareInherentItems_ok_no_other_first hok
  rw [compareInherentItems_first_table] at hok ⊢
  exact compareInherentItems_arity (itemMap fs) l1 l2 s s' (clean_itemMap hno) hcl hok hsk hk' hi' har

end DI
