/-
  Item-level fidelity of the generators in TRAIT mode (`Props/C01.lean`, `Props/C16.lean`): the helper trait keeps the
  trait's items (`helperTraitOfTrait`), every helper impl keeps its member's items (`helperImpls`), every item of the
  main impl delegates to `<Self as _Helper<…>>::item` with the signature of the trait item after the trait's parameters
  were replaced by the family's trait arguments (`mainImplOfTrait`, `resolveMainTrait`, `sbT`). Core-only.

  Every new top-level name carries the suffix `_it`.
-/
import DisjointImpls.Lemmas.ExpandInherent
namespace DI

open XOK

/-! ### the main impl of trait mode: shape, with the items exposed -/

/-- the generic arguments of the last segment of a trait path (`[]` when it has none) -/
def traitArgsOf_it (tp : T) : List T :=
  match lastSegOf tp with
  | some (.node "PathSegment" [] [_, .node "PathArguments::AngleBracketed" [] [_, .node "List" [] as]]) => as
  | _ => []

/-- the helper reference of the main impl of trait mode: `_<Trait><idx><lifetimes of tp, key projections, other
    arguments of tp>` -/
def mainHrefOf_it (tname : String) (idx : Nat) (abg : ABG) (tp : T) : T :=
  helperRef (genIdentStr tname idx) abg.idents (traitArgsOf_it tp)

/-- the items of a trait definition -/
def traitItemsOf_it : T → List T
  | .node "ItemTrait" [] [_, _, _, _, _, _, _, _, _, .node "List" [] items] => items
  | _ => []

/-- the generic parameters of a trait definition -/
def traitParamsOf_it : T → List T
  | .node "ItemTrait" [] [_, _, _, _, _, _, g, _, _, _] => genericsParams g
  | _ => []

/-- the shape of a main impl the generator returns in trait mode, with the resolved trait items and the final items -/
theorem mainImplOfTrait_items_inv_it {trait_ : T} {idx : Nat} {g : T × ABG × List Blk} {m : T}
    (h : mainImplOfTrait trait_ idx g = .ok m) :
    ∃ first rest tp st unsafety lt gt wc x0 params items tname targs finals,
      g.2.2 = first :: rest ∧ implTraitPath first.item = some tp ∧ implSelfTy first.item = some st ∧
      resolveMainTrait trait_ tp = some (.node "Generics" [] [lt, x0, gt, wc], items) ∧
      lastSegOf tp = some (.node "PathSegment" [] [.node "Ident" [tname] [], targs]) ∧
      genAll (items.map (implItemOfTraitItem (some (mainHrefOf_it tname idx g.2.1 tp)))) = .ok finals ∧
      m = .node "ItemImpl" [] [ignAttrs, tNone, unsafety,
        .node "Generics" [] [lt, tList params, gt,
          mkWhere (wherePreds wc ++ assocBoundPredicates g.2.1 (mainHrefOf_it tname idx g.2.1 tp))],
        tSome (.node "Tuple" [] [tNone, tp]), st, tList finals] := by
  unfold mainImplOfTrait at h
  split at h
  · cases h
  · next first rest hg =>
    simp only at h
    cases hp : implTraitPath first.item with
    | none => rw [hp] at h; cases h
    | some tp =>
      cases hs : implSelfTy first.item with
      | none => rw [hp, hs] at h; cases h
      | some st =>
        cases he : implGenerics first.item with
        | none => rw [hp, hs, he] at h; cases h
        | some eg =>
          rw [hp, hs, he] at h
          split at h
          · have e1 : some tp = some _ := ‹_›
            cases e1
            have e2 : some st = some _ := ‹_›
            cases e2
            split at h
            · next lt x gt wc items tname targs hres hlast =>
              generalize hA : helperRef (genIdentStr tname idx) g.2.1.idents _ = href at h
              have hargs : href = mainHrefOf_it tname idx g.2.1 tp := by
                rw [← hA]
                unfold mainHrefOf_it traitArgsOf_it
                rw [hlast]
                congr 1
                split
                · rfl
                · next hne =>
                  split
                  · next heq => cases heq; exact absurd rfl (hne _ _)
                  · rfl
              subst hargs
              split at h
              · next dummies finals hd hf =>
                split at h
                · cases h
                · next cps hc =>
                  cases h
                  exact ⟨first, rest, _, _, _, lt, gt, wc, x, _, items, tname, targs, finals, hg, hp, hs, hres, hlast, hf, rfl⟩
              · cases h
              · cases h
              · cases h
            · cases h
          · cases h

/-! ### one dummy item: the trait item's declaration with the delegation as its value -/

/-- a trait item of the shape `syn` produces for a const / type / function item -/
def traitItemShaped_it : T → Bool
  | .node "TraitItem::Const" [] [_, _, _, _, _] => true
  | .node "TraitItem::Type" [] [_, _, _, _, _, _] => true
  | .node "TraitItem::Fn" [] [_, .node "Signature" [] [_, _, _, _, _, _, .node "List" [] _, _, _], _, _] => true
  | _ => false

def inheritedVis_it : T := .node "Visibility::Inherited" [] []

/-- `fin` is the impl item the main impl has for the (resolved) trait item `tit`: same kind and name, no attributes, no
    visibility, no `default`; for a const `const name<item generics>: ty = <Self as href>::name;` with the trait item's
    type, for an associated type `type name<item generics> = <Self as href>::name;`, for a function the trait item's
    whole signature and the body `{ <Self as href>::name(args…) }`, the parameter patterns re-read as expressions and no
    variadic. The item generics are the trait item's as `#ty_generics #where_clause` prints them (`itemGenerics`:
    identifiers only). The trait item's attributes, the bounds of an associated type and the default (last child of a
    const / type, third child of a function) are not looked at. -/
def delegates_it (href : T) : T → T → Bool
  | .node "TraitItem::Const" [] [_, id, g, ty, _], fin =>
      fin == .node "ImplItem::Const" [] [ignAttrs, inheritedVis_it, tNone, id, itemGenerics g, ty,
        .node "Expr::Path" [] [ignAttrs, (selfAsHelperPath href id).1, (selfAsHelperPath href id).2]]
  | .node "TraitItem::Type" [] [_, id, g, _, _, _], fin =>
      fin == .node "ImplItem::Type" [] [ignAttrs, inheritedVis_it, tNone, id, itemGenerics g,
        tyPath (selfAsHelperPath href id).1 (selfAsHelperPath href id).2]
  | .node "TraitItem::Fn" [] [_, .node "Signature" [] [c, a, u, abi, id, g, .node "List" [] inputs, variadic, out], _, _], fin =>
      variadic == tNone &&
      (match allSome (inputs.map fnArgAsExpr) with
       | some args =>
          fin == .node "ImplItem::Fn" [] [ignAttrs, inheritedVis_it, tNone,
            .node "Signature" [] [c, a, u, abi, id, g, .node "List" [] inputs, variadic, out],
            .node "Block" [] [tList [.node "Stmt::Expr" [] [.node "Expr::Call" [] [ignAttrs,
              .node "Expr::Path" [] [ignAttrs, (selfAsHelperPath href id).1, (selfAsHelperPath href id).2],
              tList args], noLead]]]]
       | none => false)
  | _, _ => false

theorem delegates_shaped_it {href tit fin : T} (h : delegates_it href tit fin = true) : traitItemShaped_it tit = true := by
  unfold delegates_it at h
  split at h
  · rfl
  · rfl
  · rfl
  · cases h

theorem implItemOfTraitItem_spec_it {href tit fin : T} (h : implItemOfTraitItem (some href) tit = .ok fin) :
    delegates_it href tit fin = true := by
  unfold implItemOfTraitItem at h
  split at h
  · cases h
    simp [delegates_it, inheritedVis_it, selfAsHelperPath]
  · cases h
    simp [delegates_it, inheritedVis_it, selfAsHelperPath]
  · next c a u abi id g inputs variadic out x1 x2 =>
    simp only at h
    split at h
    · cases h
    · next hv =>
      split at h
      · cases h
      · next args hargs =>
        cases h
        have hv' : variadic = tNone := by
          have := hv; simp only [Bool.or_eq_true, not_or] at this
          simpa using this.1
        subst hv'
        simp [delegates_it, inheritedVis_it, selfAsHelperPath, tList, hargs]
  · cases h

/-- (namespace, identifier node) of a trait item or of an impl item: `const` / `type` / `fn` and the `Ident` child -/
def itemKey_it : T → String × T
  | .node "TraitItem::Const" [] (_ :: id :: _) => ("const", id)
  | .node "TraitItem::Type" [] (_ :: id :: _) => ("type", id)
  | .node "TraitItem::Fn" [] (_ :: .node "Signature" [] (_ :: _ :: _ :: _ :: id :: _) :: _) => ("fn", id)
  | .node "ImplItem::Const" [] (_ :: _ :: _ :: id :: _) => ("const", id)
  | .node "ImplItem::Type" [] (_ :: _ :: _ :: id :: _) => ("type", id)
  | .node "ImplItem::Fn" [] (_ :: _ :: _ :: .node "Signature" [] (_ :: _ :: _ :: _ :: id :: _) :: _) => ("fn", id)
  | _ => ("", dummy)

/-- the generated item has the namespace and the name of the trait item -/
theorem delegates_key_it {href tit fin : T} (h : delegates_it href tit fin = true) :
    itemKey_it fin = itemKey_it tit := by
  unfold delegates_it at h
  split at h
  · have h := eq_of_beq h
    subst h
    rfl
  · have h := eq_of_beq h
    subst h
    rfl
  · simp only [Bool.and_eq_true] at h
    obtain ⟨_, h⟩ := h
    split at h
    · have h := eq_of_beq h
      subst h
      rfl
    · cases h
  · cases h

/-! ### the items of the main impl, one per (resolved) trait item, in order -/

theorem genAll_ok_get_it {α β : Type} {f : α → Gen β} {l : List α} {r : List β} (h : genAll (l.map f) = .ok r) :
    r.length = l.length ∧ ∀ (i : Nat) (h1 : i < l.length) (h2 : i < r.length), f l[i] = .ok r[i] := by
  have hmap := genAll_ok_inv_inh h
  have hlen : r.length = l.length := by
    have := congrArg List.length hmap
    simpa using this.symm
  refine ⟨hlen, fun i h1 h2 => ?_⟩
  have := congrArg (fun l => l[i]?) hmap
  simp only [List.getElem?_map, List.getElem?_eq_getElem h1, List.getElem?_eq_getElem h2, Option.map_some] at this
  exact Option.some.inj this

theorem mainHref_main_it (a d u lt : T) (params : List T) (gt : T) (preds0 : List T) (abg : ABG) (href tr st finals : T) :
    mainHref_inh (.node "ItemImpl" [] [a, d, u,
      .node "Generics" [] [lt, tList params, gt, mkWhere (preds0 ++ assocBoundPredicates abg href)], tr, st, finals]) =
      some href := by
  have hpreds : wherePredsOf (.node "Generics" [] [lt, tList params, gt, mkWhere (preds0 ++ assocBoundPredicates abg href)]) =
      preds0 ++ assocBoundPredicates abg href := by
    simp [wherePredsOf, mkWhere, tSome, tList, kid, kids, kind]
  have : assocBoundPredicates abg href = _ ++ [whereType selfTy [traitBoundOf href]] := rfl
  simp only [mainHref_inh, kid, kids, List.getD_cons_succ, List.getD_cons_zero]
  rw [hpreds, this, ← List.append_assoc]
  exact selfPred_snoc _ _

/-- every item of the main impl of trait mode is the delegation of the resolved trait item of the same position, and
    there is nothing else in the main impl; the helper reference is the one its where-clause bounds `Self` by -/
theorem main_items_delegate_it {trait_ : T} {idx : Nat} {g : T × ABG × List Blk} {m : T}
    (hm : mainImplOfTrait trait_ idx g = .ok m) :
    ∃ first rest tp tname targs gen items,
      g.2.2 = first :: rest ∧ implTraitPath first.item = some tp ∧
      lastSegOf tp = some (.node "PathSegment" [] [.node "Ident" [tname] [], targs]) ∧
      resolveMainTrait trait_ tp = some (gen, items) ∧
      mainHref_inh m = some (mainHrefOf_it tname idx g.2.1 tp) ∧
      (implItems m).length = items.length ∧
      ∀ (i : Nat) (h1 : i < items.length) (h2 : i < (implItems m).length),
        delegates_it (mainHrefOf_it tname idx g.2.1 tp) items[i] (implItems m)[i] = true := by
  obtain ⟨first, rest, tp, st, unsafety, lt, gt, wc, x0, params, items, tname, targs, finals, hg, hp, hs, hres, hlast, hf, rfl⟩ :=
    mainImplOfTrait_items_inv_it hm
  obtain ⟨hlen, hget⟩ := genAll_ok_get_it hf
  refine ⟨first, rest, tp, tname, targs, _, items, hg, hp, hlast, hres, mainHref_main_it _ _ _ _ _ _ _ _ _ _ _ _, ?_, ?_⟩
  · simpa [implItems, tList] using hlen
  · intro i h1 h2
    have h2' : i < finals.length := by simpa [implItems, tList] using h2
    have := implItemOfTraitItem_spec_it (hget i h1 h2')
    simpa [implItems, tList] using this

/-! ### `resolveMainTrait`: the resolved items are the trait's items under `sbT` -/

theorem sbL_nil_it (am : ArgMap) : sbL am [] = some [] := by rw [sbL]
theorem sbL_cons_it (am : ArgMap) (t : T) (ts : List T) :
    sbL am (t :: ts) = (match sbT am t, sbL am ts with | some a, some b => some (a :: b) | _, _ => none) := by
  rw [sbL]
  cases sbT am t <;> cases sbL am ts <;> rfl

theorem sbL_cons_inv_it {am : ArgMap} {t : T} {ts r : List T} (h : sbL am (t :: ts) = some r) :
    ∃ a b, sbT am t = some a ∧ sbL am ts = some b ∧ r = a :: b := by
  rw [sbL_cons_it] at h
  split at h
  · next a b ha hb => cases h; exact ⟨a, b, ha, hb, rfl⟩
  · cases h

theorem sbL_get_it {am : ArgMap} : ∀ {l r : List T}, sbL am l = some r →
    r.length = l.length ∧ ∀ (i : Nat) (h1 : i < l.length) (h2 : i < r.length), sbT am l[i] = some r[i]
  | [], r, h => by
      rw [sbL_nil_it] at h
      cases h
      exact ⟨rfl, fun i h1 => absurd h1 (Nat.not_lt_zero _)⟩
  | t :: ts, r, h => by
      obtain ⟨a, b, ha, hb, rfl⟩ := sbL_cons_inv_it h
      obtain ⟨ih1, ih2⟩ := sbL_get_it hb
      refine ⟨by simp [ih1], fun i h1 h2 => ?_⟩
      cases i with
      | zero => simpa using ha
      | succ j =>
        simp only [List.getElem_cons_succ]
        exact ih2 j (by simpa using h1) (by simpa using h2)

/-- the argument map of the main impl: the trait's parameters zipped with the arguments of the family's trait path -/
def mainArgMap_it (trait_ tp : T) : Option ArgMap := zipTraitArgs (traitParamsOf_it trait_) (traitArgsOf_it tp)

/-- the resolved items: the trait's own items when the family's trait path has no `<…>`, otherwise the trait's items
    under `sbT` with the argument map `mainArgMap_it` -/
theorem resolveMainTrait_items_it {trait_ tp gen : T} {items : List T} {tid targs : T}
    (hlast : lastSegOf tp = some (.node "PathSegment" [] [tid, targs]))
    (h : resolveMainTrait trait_ tp = some (gen, items)) :
    (targs = noArgs ∧ items = traitItemsOf_it trait_) ∨
    (∃ c args am, targs = .node "PathArguments::AngleBracketed" [] [c, .node "List" [] args] ∧
      traitArgsOf_it tp = args ∧ mainArgMap_it trait_ tp = some am ∧ sbL am (traitItemsOf_it trait_) = some items) := by
  unfold resolveMainTrait at h
  split at h
  · next lt params gt wc titems =>
    have hl : lastSegArgsNode tp = some targs := by simp [lastSegArgsNode, hlast]
    rw [hl] at h
    simp only at h
    split at h
    · next heq =>
      cases heq
      cases h
      exact Or.inl ⟨rfl, rfl⟩
    · next c args heq =>
      cases heq
      have hargs : traitArgsOf_it tp = args := by simp [traitArgsOf_it, hlast]
      split at h
      · cases h
      · next am hz =>
        split at h
        · next preds' items' hp hi =>
          cases h
          exact Or.inr ⟨c, args, am, rfl, hargs, by simp [mainArgMap_it, traitParamsOf_it, genericsParams, hargs, hz], hi⟩
        · cases h
    · cases h
  · cases h

/-! ### the helper trait of trait mode keeps the trait's items -/

theorem helperTraitOfTrait_inv_it {trait_ ht : T} {idx nkeys : Nat} (h : helperTraitOfTrait trait_ idx nkeys = some ht) :
    ∃ a v u au r x g c sup items,
      trait_ = .node "ItemTrait" [] [a, v, u, au, r, .node "Ident" [x] [], g, c, sup, items] ∧
      ht = .node "ItemTrait" [] [a, .node "Visibility::Public" [] [], u, au, r, tIdent (genIdentStr x idx),
        helperGenerics g nkeys, c, sup, items] := by
  unfold helperTraitOfTrait at h
  split at h
  · next a v u au r x g c sup items => cases h; exact ⟨a, v, u, au, r, x, g, c, sup, items, rfl, rfl⟩
  · cases h

/-- generics of the shape `syn` produces -/
def genericsShaped_it : T → Bool
  | .node "Generics" [] [_, .node "List" [] _, _, _] => true
  | _ => false

/-- the parameter list of the helper trait: the trait's lifetime parameters, then `nkeys` fresh type parameters
    `_ŠČ<n>: ?Sized`, `_ŠČ<n+1>: ?Sized`, … (`n` = number of parameters of the trait), then the trait's other parameters —
    the trait's own parameters as they are declared (bounds, defaults, attributes) -/
def helperParams_it (ps : List T) (nkeys : Nat) : List T :=
  ps.filter isLifetimeParam ++ inhKeyParams_inh ps.length nkeys ++ ps.filter (fun p => !isLifetimeParam p)

theorem helperGenerics_shaped_it {g : T} (nkeys : Nat) (hs : genericsShaped_it g = true) :
    genericsParams (helperGenerics g nkeys) = helperParams_it (genericsParams g) nkeys ∧
    kid (helperGenerics g nkeys) 0 = kid g 0 ∧ kid (helperGenerics g nkeys) 2 = kid g 2 ∧
    kid (helperGenerics g nkeys) 3 = kid g 3 ∧ genericsShaped_it (helperGenerics g nkeys) = true := by
  unfold genericsShaped_it at hs
  split at hs
  · simp [helperGenerics, genericsParams, helperParams_it, inhKeyParams_inh, tList, kid, kids, genericsShaped_it]
  · cases hs

/-! ### the helper impls of trait mode keep their members' items -/

/-- the member with another trait reference: everything but child 4 is the member's; the new trait reference is the SINGLE
    segment `_<x><idx><row ++ old arguments>` (`x` the identifier of the member's LAST trait-path segment) with no leading
    `::` and none of the member's leading segments (disjoint.rs: `*trait_ = path.clone().into()`) -/
theorem helperImpl_trait_inv_it {idx : Nat} {idents : List (BKey × String)} {row : List (Option T)} {member h : T}
    (hh : helperImpl idx none idents row member = some h) :
    ∃ a d u g b p s items x args na,
      member = .node "ItemImpl" [] [a, d, u, g, .node "Some" [] [.node "Tuple" [] [b, p]], s, items] ∧
      lastSegOf p = some (.node "PathSegment" [] [.node "Ident" [x] [], args]) ∧
      ((args = noArgs ∧ na = angle (rowArgs idents row)) ∨
       (∃ c2 old, args = .node "PathArguments::AngleBracketed" [] [c2, .node "List" [] old] ∧
          na = .node "PathArguments::AngleBracketed" [] [c2, tList (rowArgs idents row ++ old)])) ∧
      h = .node "ItemImpl" [] [a, d, u, g,
        tSome (.node "Tuple" [] [tNone, pathNode noLead [.node "PathSegment" [] [tIdent (genIdentStr x idx), na]]]),
        s, items] := by
  unfold helperImpl at hh
  simp only at hh
  cases hp' : implTraitPath member with
  | none => rw [hp'] at hh; cases hh
  | some p =>
    rw [hp'] at hh
    simp only at hh
    obtain ⟨a, d, u, g, b, s, items, rfl⟩ := implTraitPath_inv hp'
    cases hl : lastSegOf p with
    | none => rw [hl] at hh; cases hh
    | some l =>
      rw [hl] at hh
      split at hh
      · next x args heq =>
        cases heq
        split at hh
        · next na hna =>
          cases hh
          refine ⟨a, d, u, g, b, p, s, items, x, args, na, rfl, hl, ?_, rfl⟩
          split at hna
          · cases hna; exact Or.inl ⟨rfl, rfl⟩
          · next c2 old => cases hna; exact Or.inr ⟨c2, old, rfl, rfl⟩
          · cases hna
        · cases hh
      · cases hh

theorem helperImpls_trait_get_it {idx : Nat} {g : T × ABG × List Blk} {hs : List T}
    (hh : helperImpls idx g = some hs) (htr : inherentFamily_inh g = false) :
    hs.length = min g.2.2.length g.2.1.payloads.length ∧
    ∀ (i : Nat) (h1 : i < g.2.2.length) (h2 : i < g.2.1.payloads.length) (h3 : i < hs.length),
      helperImpl idx none g.2.1.idents g.2.1.payloads[i] g.2.2[i].item = some hs[i] := by
  unfold helperImpls at hh
  simp only at hh
  split at hh
  · next hnil =>
    cases hh
    have : g.2.2 = [] := by simpa using hnil
    simp [this]
  · next first restm hcons =>
    obtain ⟨fb, rest, hg⟩ : ∃ fb rest, g.2.2 = fb :: rest := by
      cases h : g.2.2 with
      | nil => rw [h] at hcons; cases hcons
      | cons fb rest => exact ⟨fb, rest, rfl⟩
    have hf : fb.item = first := by
      rw [hg] at hcons
      simp only [List.map_cons, List.cons.injEq] at hcons
      exact hcons.1
    have hnone : (implTraitPath first).isNone = false := by
      simpa [inherentFamily_inh, hg, hf] using htr
    rw [hnone] at hh
    simp only [Bool.false_eq_true, if_false] at hh
    cases hh' : (List.map (fun mr => helperImpl idx none g.2.1.idents mr.2 mr.1)
        ((List.map (fun x => x.item) g.2.2).zip g.2.1.payloads)).all Option.isSome with
    | false => rw [hh'] at hh; simp at hh
    | true =>
      rw [hh'] at hh
      simp only [if_true] at hh
      have hall := hh'
      cases hh
      · have key : ∀ (ms : List T) (rows : List (List (Option T))),
            ((List.zip ms rows).map (fun mr => helperImpl idx none g.2.1.idents mr.2 mr.1)).all Option.isSome = true →
            (((List.zip ms rows).map (fun mr => helperImpl idx none g.2.1.idents mr.2 mr.1)).filterMap id).length =
              min ms.length rows.length ∧
            ∀ (i : Nat) (h1 : i < ms.length) (h2 : i < rows.length)
              (h3 : i < (((List.zip ms rows).map (fun mr => helperImpl idx none g.2.1.idents mr.2 mr.1)).filterMap id).length),
              helperImpl idx none g.2.1.idents rows[i] ms[i] =
                some (((List.zip ms rows).map (fun mr => helperImpl idx none g.2.1.idents mr.2 mr.1)).filterMap id)[i] := by
          intro ms
          induction ms with
          | nil => intro rows _; simp
          | cons m ms ih =>
            intro rows hall
            cases rows with
            | nil => simp
            | cons r rows =>
              simp only [List.zip_cons_cons, List.map_cons, List.all_cons, Bool.and_eq_true] at hall
              cases hm : helperImpl idx none g.2.1.idents r m with
              | none => rw [hm] at hall; simp at hall
              | some h0 =>
                obtain ⟨ih1, ih2⟩ := ih rows hall.2
                simp only [List.zip_cons_cons, List.map_cons, hm, List.filterMap_cons, id, List.length_cons]
                refine ⟨by rw [ih1]; omega, ?_⟩
                intro i h1 h2 h3
                cases i with
                | zero => simpa using hm
                | succ j =>
                  simp only [List.getElem_cons_succ]
                  exact ih2 j (by simpa using h1) (by simpa using h2) (by simpa using h3)
        obtain ⟨k1, k2⟩ := key (g.2.2.map (·.item)) g.2.1.payloads hall
        refine ⟨by simpa using k1, ?_⟩
        intro i h1 h2 h3
        have := k2 i (by simpa using h1) h2 h3
        simpa using this

/-! ### `sbT` (the model of `NonPredicateParamResolver` with arbitrary replacements), node by node -/

theorem sbT_tparam_it (am : ArgMap) (n : String) : sbT am (.tparam n) = some ((alookup am.ty n).getD (.tparam n)) := by
  rw [sbT]; cases alookup am.ty n <;> rfl

theorem sbT_eparam_it (am : ArgMap) (n : String) :
    sbT am (.eparam n) = (match alookup am.ty n with
      | some r => typeAsExprPath r
      | none => some (((alookup am.co n).map exprOperand).getD (.eparam n))) := by
  rw [sbT]
  cases alookup am.ty n with
  | some r => rfl
  | none => cases alookup am.co n <;> rfl

theorem sbT_ign_it (am : ArgMap) (as : List String) (ks : List T) : sbT am (.node "Ign" as ks) = some (.node "Ign" as ks) := by
  rw [sbT]
theorem sbT_eq_it (am : ArgMap) (as : List String) (ks : List T) : sbT am (.node "Eq" as ks) = some (.node "Eq" as ks) := by
  rw [sbT]
/-- a lifetime that names a lifetime parameter of the trait becomes the argument (the whole `Lifetime` node) -/
theorem sbT_lifetime_it (am : ArgMap) (as : List String) (x : String) :
    sbT am (.node "Lifetime" as [.node "Ident" [x] []]) =
      some ((alookup am.lt x).getD (.node "Lifetime" as [.node "Ident" [x] []])) := by
  rw [sbT]; cases alookup am.lt x <;> rfl

theorem sbT_typePath_it (am : ArgMap) (as : List String) (q p q' p' : T) (hq : sbT am q = some q') (hp : sbT am p = some p') :
    sbT am (.node "Type::Path" as [q, p]) = sbTypePath am as q' p' := by
  rw [sbT, hq, hp]
theorem sbT_exprPath_it (am : ArgMap) (as : List String) (a q p q' p' : T) (hq : sbT am q = some q') (hp : sbT am p = some p') :
    sbT am (.node "Expr::Path" as [a, q, p]) = sbExprPath am as a q' p' := by
  rw [sbT, hq, hp]

/-- every other kind is rebuilt around its rewritten children -/
theorem sbT_of_other_it (am : ArgMap) {k : String} (as : List String) {ks : List T} (h : NodeOther k ks) :
    sbT am (.node k as ks) = (sbL am ks).map (.node k as) := by
  obtain ⟨h1, h2, h3, h4, h5⟩ := h
  unfold sbT
  split
  · next heq => cases heq
  · next heq => cases heq
  · next heq => cases heq; exact absurd rfl h1
  · next heq => cases heq; exact absurd rfl h2
  · next x heq => cases heq; exact absurd ⟨rfl, rfl⟩ (h3 x)
  · next q p heq => cases heq; exact absurd ⟨rfl, rfl⟩ (h4 q p)
  · next a q p heq => cases heq; exact absurd ⟨rfl, rfl⟩ (h5 a q p)
  · next heq => cases heq; rfl

theorem sbT_other_it (am : ArgMap) {k : String} (as : List String) (ks : List T) (h1 : k ≠ "Ign") (h2 : k ≠ "Eq")
    (h3 : k ≠ "Lifetime") (h4 : k ≠ "Type::Path") (h5 : k ≠ "Expr::Path") :
    sbT am (.node k as ks) = (sbL am ks).map (.node k as) :=
  sbT_of_other_it am as ⟨h1, h2, fun _ h => h3 h.1, fun _ _ h => h4 h.1, fun _ _ _ h => h5 h.1⟩

theorem sbL_eq_self_it {am : ArgMap} : ∀ {ks : List T}, (∀ t ∈ ks, sbT am t = some t) → sbL am ks = some ks
  | [], _ => sbL_nil_it am
  | t :: ts, h => by
      rw [sbL_cons_it, h t (by simp), sbL_eq_self_it (fun t ht => h t (List.mem_cons_of_mem _ ht))]

/-! ### nothing else changes: a tree that mentions no parameter of the map is kept -/

mutual
/-- no lifetime, no type-position and no expression-position path (first segment) of `t` names a parameter of the map -/
def sbFree_it (am : ArgMap) : T → Bool
  | .tparam n => (alookup am.ty n).isNone
  | .eparam n => (alookup am.ty n).isNone && (alookup am.co n).isNone
  | .node "Ign" _ _ => true
  | .node "Eq" _ _ => true
  | .node "Lifetime" _ [.node "Ident" [x] []] => (alookup am.lt x).isNone
  | .node "Type::Path" _ [qself, path] =>
      sbFree_it am qself && sbFree_it am path &&
      (match firstSegIdent path with | some x => (alookup am.ty x).isNone | none => true)
  | .node "Expr::Path" _ [_, qself, path] =>
      sbFree_it am qself && sbFree_it am path &&
      (match firstSegIdent path with | some x => (alookup am.ty x).isNone && (alookup am.co x).isNone | none => true)
  | .node _ _ ks => sbFreeL_it am ks
def sbFreeL_it (am : ArgMap) : List T → Bool
  | [] => true
  | t :: ts => sbFree_it am t && sbFreeL_it am ts
end

theorem sbFreeL_iff_it {am : ArgMap} : ∀ {ks : List T}, sbFreeL_it am ks = true ↔ ∀ t ∈ ks, sbFree_it am t = true
  | [] => by simp [sbFreeL_it]
  | t :: ts => by simp [sbFreeL_it, sbFreeL_iff_it (ks := ts)]

theorem sbFree_of_other_it (am : ArgMap) {k : String} (as : List String) {ks : List T} (h : NodeOther k ks) :
    sbFree_it am (.node k as ks) = sbFreeL_it am ks := by
  obtain ⟨h1, h2, h3, h4, h5⟩ := h
  unfold sbFree_it
  split
  · next heq => cases heq
  · next heq => cases heq
  · next heq => cases heq; exact absurd rfl h1
  · next heq => cases heq; exact absurd rfl h2
  · next x heq => cases heq; exact absurd ⟨rfl, rfl⟩ (h3 x)
  · next q p heq => cases heq; exact absurd ⟨rfl, rfl⟩ (h4 q p)
  · next a q p heq => cases heq; exact absurd ⟨rfl, rfl⟩ (h5 a q p)
  · next heq => cases heq; rfl

theorem sbT_free_it (am : ArgMap) : ∀ t : T, sbFree_it am t = true → sbT am t = some t := by
  apply T.ind
  · intro n h
    rw [sbFree_it] at h
    rw [sbT_tparam_it]
    cases hl : alookup am.ty n with
    | none => rfl
    | some r => rw [hl] at h; cases h
  · intro n h
    rw [sbFree_it, Bool.and_eq_true] at h
    rw [sbT_eparam_it]
    cases hl : alookup am.ty n with
    | some r => rw [hl] at h; cases h.1
    | none =>
      cases hc : alookup am.co n with
      | some r => rw [hc] at h; cases h.2
      | none => rfl
  · intro k as ks ih h
    rcases node_shape k ks with hh | ⟨x, rfl, rfl⟩ | ⟨q, p, rfl, rfl⟩ | ⟨a, q, p, rfl, rfl⟩ | hh
    · rcases hh with rfl | rfl
      · exact sbT_ign_it am as ks
      · exact sbT_eq_it am as ks
    · rw [sbFree_it] at h
      rw [sbT_lifetime_it]
      cases hl : alookup am.lt x with
      | none => rfl
      | some r => rw [hl] at h; cases h
    · rw [sbFree_it, Bool.and_eq_true, Bool.and_eq_true] at h
      obtain ⟨⟨hq, hp⟩, hf⟩ := h
      rw [sbT_typePath_it am as q p q p (ih q (by simp) hq) (ih p (by simp) hp)]
      unfold sbTypePath
      split
      · next x hx =>
        rw [hx] at hf
        simp only at hf
        cases hl : alookup am.ty x with
        | none => rfl
        | some r => rw [hl] at hf; cases hf
      · rfl
    · rw [sbFree_it, Bool.and_eq_true, Bool.and_eq_true] at h
      obtain ⟨⟨hq, hp⟩, hf⟩ := h
      rw [sbT_exprPath_it am as a q p q p (ih q (by simp) hq) (ih p (by simp) hp)]
      unfold sbExprPath
      split
      · next x hx =>
        rw [hx] at hf
        simp only [Bool.and_eq_true] at hf
        cases hl : alookup am.ty x with
        | some r => rw [hl] at hf; cases hf.1
        | none =>
          cases hc : alookup am.co x with
          | some r => rw [hc] at hf; cases hf.2
          | none => rfl
      · rfl
    · rw [sbFree_of_other_it am as hh] at h
      rw [sbT_of_other_it am as hh, sbL_eq_self_it (fun t ht => ih t ht (sbFreeL_iff_it.1 h t ht))]
      rfl

/-! ### every occurrence of a parameter is replaced by its argument -/

theorem sbT_bare_path_it (am : ArgMap) (x : String) : sbT am (pathNode noLead [seg x]) = some (pathNode noLead [seg x]) := by
  simp [sbT, sbL, pathNode, noLead, seg, tList, tIdent, noArgs, tNone]

/-- a type parameter of the trait in type position (`U`, or the canonical spelling `_ŠČn`) becomes its argument -/
theorem sbT_type_occurrence_it (am : ArgMap) (x : String) (r : T) (h : alookup am.ty x = some r) :
    sbT am (mkTypeIdent x) = some r := by
  unfold mkTypeIdent
  split
  · rw [sbT_tparam_it, h]; rfl
  · have hp := sbT_bare_path_it am x
    have hn : sbT am tNone = some tNone := by simp [sbT, sbL, tNone]
    simp only [pathNode, noLead, seg, tList, tIdent, noArgs, tNone] at hp hn
    rw [sbT_typePath_it am [] _ _ _ _ hn hp]
    simp [sbTypePath, firstSegIdent, h, restSegments]

/-- a path that starts with a type parameter of the trait (`U::Assoc`, segments free of parameters) becomes
    `<arg>::Assoc` -/
theorem sbT_type_projection_it (am : ArgMap) (as : List String) (x : String) (r s1 : T) (rest : List T)
    (h : alookup am.ty x = some r) (hfree : sbFreeL_it am (s1 :: rest) = true) :
    sbT am (.node "Type::Path" as [tNone, pathNode noLead (seg x :: s1 :: rest)]) =
      some (.node "Type::Path" as [tSome (.node "QSelf" [] [r, .node "Atom" ["0"] [], tNone]), pathNode someLead (s1 :: rest)]) := by
  have hn : sbT am tNone = some tNone := by simp [sbT, sbL, tNone]
  have hseg : sbT am (seg x) = some (seg x) := by simp [sbT, sbL, seg, tIdent, noArgs]
  have hrest : sbL am (s1 :: rest) = some (s1 :: rest) :=
    sbL_eq_self_it (fun t ht => sbT_free_it am t (sbFreeL_iff_it.1 hfree t ht))
  have hp : sbT am (pathNode noLead (seg x :: s1 :: rest)) = some (pathNode noLead (seg x :: s1 :: rest)) := by
    have hl : sbL am (seg x :: s1 :: rest) = some (seg x :: s1 :: rest) := by rw [sbL_cons_it, hseg, hrest]
    have hlead : sbT am noLead = some noLead := by simp [sbT, sbL, noLead, tNone]
    unfold pathNode tList
    rw [sbT_other_it am [] _ (by decide) (by decide) (by decide) (by decide) (by decide), sbL_cons_it, hlead,
      sbL_cons_it, sbT_other_it am [] _ (by decide) (by decide) (by decide) (by decide) (by decide), hl, sbL_nil_it]
    rfl
  rw [sbT_typePath_it am as _ _ _ _ hn hp]
  simp [sbTypePath, firstSegIdent, pathNode, tList, seg, tIdent, h, restSegments]

/-- a const parameter of the trait as a bare identifier in expression position becomes the WHOLE argument expression,
    parenthesised unless it is a path, a literal, a block or already parenthesised (`exprOperand`) -/
theorem sbT_const_occurrence_it (am : ArgMap) (x : String) (e : T) (hty : alookup am.ty x = none)
    (h : alookup am.co x = some e) : sbT am (identExpr x) = some (exprOperand e) := by
  unfold identExpr
  split
  · rw [sbT_eparam_it, hty, h]; rfl
  · have hp := sbT_bare_path_it am x
    have hn : sbT am tNone = some tNone := by simp [sbT, sbL, tNone]
    rw [sbT_exprPath_it am [] _ _ _ _ _ hn hp]
    simp [sbExprPath, firstSegIdent, pathNode, tList, seg, tIdent, noArgs, noLead, tNone, hty, h]

/-! ### resolving keeps the namespace and the name of a trait item -/

/-- a trait item (const / type / fn) whose name is an identifier, as `syn` produces it -/
def traitItemNamed_it : T → Bool
  | .node "TraitItem::Const" [] (_ :: .node "Ident" [_] [] :: _) => true
  | .node "TraitItem::Type" [] (_ :: .node "Ident" [_] [] :: _) => true
  | .node "TraitItem::Fn" [] (_ :: .node "Signature" [] (_ :: _ :: _ :: _ :: .node "Ident" [_] [] :: _) :: _) => true
  | _ => false

theorem sbT_ident_it (am : ArgMap) (x : String) : sbT am (.node "Ident" [x] []) = some (.node "Ident" [x] []) := by
  simp [sbT, sbL]

theorem sbT_itemKey_it {am : ArgMap} {t t' : T} (hn : traitItemNamed_it t = true) (h : sbT am t = some t') :
    itemKey_it t' = itemKey_it t := by
  unfold traitItemNamed_it at hn
  split at hn
  · next a x rest =>
    rw [sbT_other_it am [] _ (by decide) (by decide) (by decide) (by decide) (by decide)] at h
    cases hl : sbL am (a :: .node "Ident" [x] [] :: rest) with
    | none => rw [hl] at h; cases h
    | some l =>
      rw [hl] at h
      cases h
      obtain ⟨a', b, _, hb, rfl⟩ := sbL_cons_inv_it hl
      obtain ⟨id', c, hid, _, rfl⟩ := sbL_cons_inv_it hb
      rw [sbT_ident_it] at hid
      cases hid
      rfl
  · next a x rest =>
    rw [sbT_other_it am [] _ (by decide) (by decide) (by decide) (by decide) (by decide)] at h
    cases hl : sbL am (a :: .node "Ident" [x] [] :: rest) with
    | none => rw [hl] at h; cases h
    | some l =>
      rw [hl] at h
      cases h
      obtain ⟨a', b, _, hb, rfl⟩ := sbL_cons_inv_it hl
      obtain ⟨id', c, hid, _, rfl⟩ := sbL_cons_inv_it hb
      rw [sbT_ident_it] at hid
      cases hid
      rfl
  · next a s1 s2 s3 s4 x srest rest =>
    rw [sbT_other_it am [] _ (by decide) (by decide) (by decide) (by decide) (by decide)] at h
    cases hl : sbL am (a :: .node "Signature" [] (s1 :: s2 :: s3 :: s4 :: .node "Ident" [x] [] :: srest) :: rest) with
    | none => rw [hl] at h; cases h
    | some l =>
      rw [hl] at h
      cases h
      obtain ⟨a', b, _, hb, rfl⟩ := sbL_cons_inv_it hl
      obtain ⟨sig', c, hsig, _, rfl⟩ := sbL_cons_inv_it hb
      rw [sbT_other_it am [] _ (by decide) (by decide) (by decide) (by decide) (by decide)] at hsig
      cases hs : sbL am (s1 :: s2 :: s3 :: s4 :: .node "Ident" [x] [] :: srest) with
      | none => rw [hs] at hsig; cases hsig
      | some sl =>
        rw [hs] at hsig
        cases hsig
        obtain ⟨_, b1, _, hb1, rfl⟩ := sbL_cons_inv_it hs
        obtain ⟨_, b2, _, hb2, rfl⟩ := sbL_cons_inv_it hb1
        obtain ⟨_, b3, _, hb3, rfl⟩ := sbL_cons_inv_it hb2
        obtain ⟨_, b4, _, hb4, rfl⟩ := sbL_cons_inv_it hb3
        obtain ⟨id', b5, hid, _, rfl⟩ := sbL_cons_inv_it hb4
        rw [sbT_ident_it] at hid
        cases hid
        rfl
  · cases hn

/-! ### accessor-level reading of a helper impl, association lists of items -/

theorem payloads_length_of_wf_it {g : T × ABG × List Blk} (hwf : expandWF g = true) :
    g.2.1.payloads.length = g.2.2.length := by
  simp only [expandWF, Bool.and_eq_true, List.all_eq_true, Bool.not_eq_true', beq_iff_eq] at hwf
  obtain ⟨⟨⟨hne, hal⟩, _⟩, _⟩ := hwf
  exact payloads_length g.2.1 _ hne (fun kr hkr => hal kr hkr)

/-- what a helper impl of trait mode keeps of its member (everything but the trait reference, child 4) and what its
    trait reference is: the single segment `_<name><idx>` (`name` the identifier of the LAST segment of the member's trait
    path), with no leading `::` and no leading segments whatever qualifiers the member's path has, and with the member's
    row prepended to the last segment's arguments -/
theorem helperImpl_trait_read_it {idx : Nat} {idents : List (BKey × String)} {row : List (Option T)} {member h : T}
    (hh : helperImpl idx none idents row member = some h) :
    (∀ j, j ≠ 4 → kid h j = kid member j) ∧ implItems h = implItems member ∧
    ∃ mp hp, implTraitPath member = some mp ∧ traitPathOf h = some hp ∧ implTraitPath h = some hp ∧
      pathLead hp = noLead ∧ initSegsOf hp = [] ∧
      (∃ x, lastSegIdentOf mp = some x ∧ lastSegIdentOf hp = some (genIdentStr x idx) ∧
        ∃ na, hp = pathNode noLead [.node "PathSegment" [] [tIdent (genIdentStr x idx), na]]) ∧
      XOK.segArgs (XOK.lastSeg hp) = rowArgs idents row ++ XOK.segArgs (XOK.lastSeg mp) := by
  obtain ⟨a, d, u, g, b, p, s, items, x, args, na, rfl, hl, hna, rfl⟩ := helperImpl_trait_inv_it hh
  obtain ⟨lc, hpe⟩ := lastSegOf_inv hl
  refine ⟨?_, ?_, p, _, rfl, by simp [traitPathOf, kid, kids, kind, tSome], rfl, ?_, ?_, ⟨x, ?_, ?_, na, rfl⟩, ?_⟩
  · intro j hj
    match j with
    | 0 | 1 | 2 | 3 | 5 | 6 => rfl
    | 4 => exact absurd rfl hj
    | n + 7 => simp [kid, kids]
  · simp only [implItems, tSome]
    split
    · next heq =>
      cases heq
      rfl
    · next hne =>
      split
      · next heq => cases heq; exact absurd rfl (hne _ _ _ _ _ _ _)
      · rfl
  · rw [pathLead_pathNode_inh]
  · exact initSegsOf_pathNode_inh noLead [] _
  · simp [lastSegIdentOf, hl]
  · have := lastSegOf_pathNode_inh noLead [] (.node "PathSegment" [] [tIdent (genIdentStr x idx), na])
    rw [List.nil_append] at this
    rw [lastSegIdentOf, this]
    rfl
  · have hmp : XOK.lastSeg p = .node "PathSegment" [] [.node "Ident" [x] [], args] := by
      rw [hpe]; simp [XOK.lastSeg, segsOf, kid, kids, lastOf]
    have hhp : XOK.lastSeg (pathNode noLead [.node "PathSegment" [] [tIdent (genIdentStr x idx), na]]) =
        .node "PathSegment" [] [tIdent (genIdentStr x idx), na] := by
      simp [XOK.lastSeg, segsOf, pathNode, tList, kid, kids, lastOf]
    rw [hmp, hhp]
    rcases hna with ⟨rfl, rfl⟩ | ⟨c2, old, rfl, rfl⟩
    · simp [XOK.segArgs, kid, kids, kind, angle, tList, noArgs]
    · simp [XOK.segArgs, kid, kids, kind, tList]

def isSome_it (t : T) : Bool := kind t == "Some"

/-- the name under which an item is looked up: its namespace (`const` / `type` / `fn`) and its identifier -/
def itemKeyStr_it (it : T) : String := (itemKey_it it).1 ++ " " ++ (atoms (itemKey_it it).2).headD ""

/-- the items an impl block defines, as an association list name ↦ item -/
def implItemAssoc_it (impl : T) : List (String × T) := (implItems impl).map (fun it => (itemKeyStr_it it, it))

/-- a trait item with a default (value of a const, type of an associated type, body of a function) -/
def traitItemHasDefault_it : T → Bool
  | .node "TraitItem::Const" [] [_, _, _, _, d] => isSome_it d
  | .node "TraitItem::Type" [] [_, _, _, _, _, d] => isSome_it d
  | .node "TraitItem::Fn" [] [_, _, d, _] => isSome_it d
  | _ => false

/-- the defaults a trait definition provides, as an association list name ↦ trait item (declaration with default) -/
def traitDefaultAssoc_it (trait_ : T) : List (String × T) :=
  ((traitItemsOf_it trait_).filter traitItemHasDefault_it).map (fun it => (itemKeyStr_it it, it))

theorem traitItemsOf_node_it (x0 x1 x2 x3 x4 x5 x6 x7 x8 items : T) :
    traitItemsOf_it (.node "ItemTrait" [] [x0, x1, x2, x3, x4, x5, x6, x7, x8, items]) = kids (if kind items == "List" && atoms items == [] then items else dummy) := by
  unfold traitItemsOf_it
  split
  · next heq => cases heq; rfl
  · next hne =>
    cases items with
    | tparam n => rfl
    | eparam n => rfl
    | node k as ks =>
      by_cases hk : k = "List"
      · subst hk
        cases as with
        | nil => exact absurd rfl (hne _ _ _ _ _ _ _ _ _ _)
        | cons a as => simp [kind, atoms, kids, dummy]
      · simp [kind, kids, dummy, hk]

/-! ### the argument map: one entry per zipped (parameter, argument) pair -/

theorem zipTraitArgs_nil_left_it (as : List T) : zipTraitArgs [] as = some ⟨[], [], []⟩ := by
  rw [zipTraitArgs]
theorem zipTraitArgs_nil_right_it (ps : List T) : zipTraitArgs ps [] = some ⟨[], [], []⟩ := by
  cases ps with
  | nil => rw [zipTraitArgs]
  | cons p ps => rw [zipTraitArgs]; intro h; cases h

/-- the map has exactly one entry per zipped pair: parameters beyond the last argument (omitted defaults) get none -/
theorem zipTraitArgs_size_it : ∀ (ps as : List T) (am : ArgMap), zipTraitArgs ps as = some am →
    am.lt.length + am.ty.length + am.co.length = min ps.length as.length
  | [], as, am, h => by rw [zipTraitArgs_nil_left_it] at h; cases h; simp
  | p :: ps, [], am, h => by rw [zipTraitArgs_nil_right_it] at h; cases h; simp
  | p :: ps, a :: as, am, h => by
      rw [zipTraitArgs] at h
      split at h
      · cases h
      · next m hm =>
        have ih := zipTraitArgs_size_it ps as m hm
        split at h
        · split at h
          · cases h; simp only [List.length_cons]; omega
          · cases h
        · split at h
          · cases h; simp only [List.length_cons]; omega
          · cases h
        · split at h
          · cases h; simp only [List.length_cons]; omega
          · cases h
        · cases h

/-- the name `x` has an entry in the map -/
def ArgMap.has_it (am : ArgMap) (x : String) : Bool :=
  (alookup am.lt x).isSome || (alookup am.ty x).isSome || (alookup am.co x).isSome

theorem alookup_cons_isSome_it (a : String) (b : T) (r : List (String × T)) (x : String) :
    (alookup ((a, b) :: r) x).isSome = (decide (a = x) || (alookup r x).isSome) := by
  simp only [alookup]
  split <;> simp [*]

/-- every entry of the map belongs to one of the first `#arguments` parameters: a parameter whose argument is omitted
    (and whose name no earlier parameter has) is not in the map -/
theorem zipTraitArgs_keys_it : ∀ (ps as : List T) (am : ArgMap), zipTraitArgs ps as = some am →
    ∀ x, am.has_it x = true → some x ∈ (ps.take as.length).map paramIdent
  | [], as, am, h, x, hx => by
      rw [zipTraitArgs_nil_left_it] at h; cases h; simp [ArgMap.has_it, alookup] at hx
  | p :: ps, [], am, h, x, hx => by
      rw [zipTraitArgs_nil_right_it] at h; cases h; simp [ArgMap.has_it, alookup] at hx
  | p :: ps, a :: as, am, h, x, hx => by
      rw [zipTraitArgs] at h
      simp only [List.length_cons, List.take_succ_cons, List.map_cons, List.mem_cons]
      split at h
      · cases h
      · next m hm =>
        have ih := zipTraitArgs_keys_it ps as m hm x
        split at h
        · split at h
          · next x0 hp0 =>
            cases h
            simp only [ArgMap.has_it, alookup_cons_isSome_it, Bool.or_eq_true, decide_eq_true_eq] at hx ih
            rcases hx with ((rfl | h1) | h2) | h3
            · exact Or.inl hp0.symm
            · exact Or.inr (ih (Or.inl (Or.inl h1)))
            · exact Or.inr (ih (Or.inl (Or.inr h2)))
            · exact Or.inr (ih (Or.inr h3))
          · cases h
        · split at h
          · next x0 hp0 =>
            cases h
            simp only [ArgMap.has_it, alookup_cons_isSome_it, Bool.or_eq_true, decide_eq_true_eq] at hx ih
            rcases hx with (h1 | (rfl | h2)) | h3
            · exact Or.inr (ih (Or.inl (Or.inl h1)))
            · exact Or.inl hp0.symm
            · exact Or.inr (ih (Or.inl (Or.inr h2)))
            · exact Or.inr (ih (Or.inr h3))
          · cases h
        · split at h
          · next x0 hp0 =>
            cases h
            simp only [ArgMap.has_it, alookup_cons_isSome_it, Bool.or_eq_true, decide_eq_true_eq] at hx ih
            rcases hx with (h1 | h2) | (rfl | h3)
            · exact Or.inr (ih (Or.inl (Or.inl h1)))
            · exact Or.inr (ih (Or.inl (Or.inr h2)))
            · exact Or.inl hp0.symm
            · exact Or.inr (ih (Or.inr h3))
          · cases h
        · cases h

/-- a const parameter of the trait facing a TYPE argument (what a bare identifier `N` is to `syn`, finding D24) is the
    `unreachable!()` of `resolve_main_trait_params`: no argument map -/
theorem zipTraitArgs_const_vs_type_it (cp ta : List T) (ps as : List T) :
    zipTraitArgs (.node "GenericParam::Const" [] cp :: ps) (.node "GenericArgument::Type" [] ta :: as) = none := by
  rw [zipTraitArgs]
  split
  · rfl
  · split
    · next heq _ => simp at heq
    · next heq _ => simp at heq
    · next _ heq => simp at heq
    · rfl

/-! ### an executable acceptance predicate for the items of an expansion (reads the given trees) -/

def all2_it (f : T → T → Bool) : List T → List T → Bool
  | [], [] => true
  | a :: as, b :: bs => f a b && all2_it f as bs
  | _, _ => false

theorem all2_of_get_it {f : T → T → Bool} : ∀ {l1 l2 : List T}, l1.length = l2.length →
    (∀ (i : Nat) (h1 : i < l1.length) (h2 : i < l2.length), f l1[i] l2[i] = true) → all2_it f l1 l2 = true
  | [], [], _, _ => rfl
  | [], _ :: _, hl, _ => by simp at hl
  | _ :: _, [], hl, _ => by simp at hl
  | a :: as, b :: bs, hl, h => by
      simp only [all2_it, Bool.and_eq_true]
      refine ⟨h 0 (by simp) (by simp), all2_of_get_it (by simpa using hl) (fun i h1 h2 => ?_)⟩
      have := h (i + 1) (by simpa using h1) (by simpa using h2)
      simpa using this

/-- the resolved trait items the main impl is built from -/
def resolvedItems_it (trait_ tp : T) : Option (List T) := (resolveMainTrait trait_ tp).map (·.2)

/-- the helper trait `ht` is the trait `tr` made `pub`, renamed and given the key parameters; nothing else differs -/
def helperTraitOK_it (tr : T) (idx nkeys : Nat) (ht : T) : Bool :=
  kind ht == kind tr && atoms ht == atoms tr && (kids ht).length == (kids tr).length &&
  [0, 2, 3, 4, 7, 8, 9].all (fun j => kid ht j == kid tr j) &&
  kid ht 1 == .node "Visibility::Public" [] [] && kid ht 5 == tIdent (genIdentStr (traitName_inh tr) idx) &&
  kid ht 6 == helperGenerics (kid tr 6) nkeys

/-- the helper impl `h` is the member with (at most) another trait reference -/
def helperKeeps_it (member h : T) : Bool :=
  kind h == kind member && atoms h == atoms member && (kids h).length == (kids member).length &&
  [0, 1, 2, 3, 5, 6].all (fun j => kid h j == kid member j)

/-- item-level acceptance of a trait-mode expansion: the helper trait keeps the trait's items, every helper impl keeps
    its member's items, and the main impl consists of exactly the delegations of the resolved trait items to the helper
    reference its where-clause names, which is `_<Trait><idx><lifetimes, key projections, other arguments>` -/
def itemsOK_it (tr : T) (idx : Nat) (g : T × ABG × List Blk) (ht : T) (hs : List T) (m : T) : Bool :=
  helperTraitOK_it tr idx g.2.1.idents.length ht &&
  all2_it helperKeeps_it (g.2.2.map (·.item)) hs &&
  (match implTraitPath (firstItem_inh g), mainHref_inh m with
   | some tp, some href =>
      href == mainHrefOf_it ((lastSegIdentOf tp).getD "") idx g.2.1 tp &&
      (match resolvedItems_it tr tp with
       | some items => all2_it (delegates_it href) items (implItems m)
       | none => false)
   | _, _ => false)

theorem helperImpl_keeps_it {idx : Nat} {idents : List (BKey × String)} {row : List (Option T)} {member h : T}
    (hh : helperImpl idx none idents row member = some h) : helperKeeps_it member h = true := by
  obtain ⟨a, d, u, g, b, p, s, items, x, args, na, rfl, _, _, rfl⟩ := helperImpl_trait_inv_it hh
  simp [helperKeeps_it, kind, atoms, kids, kid]

theorem itemsOK_of_expand_it {tr : T} {idx : Nat} {g : T × ABG × List Blk} {ht : T} {hs : List T} {m : T}
    (hht : helperTraitOfTrait tr idx g.2.1.idents.length = some ht) (hh : helperImpls idx g = some hs)
    (hm : mainImplOfTrait tr idx g = .ok m) (hwf : expandWF g = true) :
    itemsOK_it tr idx g ht hs m = true := by
  obtain ⟨first, rest, tp, tname, targs, gen, items, hg, hp, hlast, hres, hhref, hlen, hall⟩ := main_items_delegate_it hm
  have hfirst : firstItem_inh g = first.item := by simp [firstItem_inh, hg]
  have htr : inherentFamily_inh g = false := by simp [inherentFamily_inh, hg, hp]
  have hpl := payloads_length_of_wf_it hwf
  obtain ⟨hl, hget⟩ := helperImpls_trait_get_it hh htr
  have hl' : hs.length = g.2.2.length := by rw [hl, hpl]; exact Nat.min_self _
  unfold itemsOK_it
  simp only [Bool.and_eq_true]
  refine ⟨⟨?_, ?_⟩, ?_⟩
  · obtain ⟨a, v, u, au, r, x, gg, c, sup, its, rfl, rfl⟩ := helperTraitOfTrait_inv_it hht
    simp [helperTraitOK_it, kind, atoms, kids, kid, traitName_inh, tIdent]
  · apply all2_of_get_it (by simpa using hl'.symm)
    intro i h1 h2
    have h1' : i < g.2.2.length := by simpa using h1
    have := hget i h1' (by rw [hpl]; exact h1') h2
    simpa using helperImpl_keeps_it this
  · rw [hfirst, hp, hhref]
    simp only [lastSegIdentOf, hlast, Option.getD_some, beq_self_eq_true, Bool.true_and, resolvedItems_it, hres,
      Option.map_some]
    exact all2_of_get_it hlen.symm hall

/-- a name without an entry among the type parameters is left alone in type position -/
theorem sbT_unmapped_type_it (am : ArgMap) (x : String) (h : alookup am.ty x = none) :
    sbT am (mkTypeIdent x) = some (mkTypeIdent x) := by
  apply sbT_free_it
  unfold mkTypeIdent
  split
  · simp [sbFree_it, h]
  · simp [sbFree_it, sbFreeL_it, firstSegIdent, h]

end DI
